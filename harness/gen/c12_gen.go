package verifgen

// C12 (mempool) — generator shared by the v0 and v1 harnesses: configurations, transaction
// alphabets, the application's verdict table, operation histories, and the printer of the Coq
// case.  Imports nothing from the repository; the test files provide a C12Driver around the real
// mempool.

import (
	"encoding/hex"
	"fmt"
	"strconv"
	"strings"
	"sync"
)

type C12Verdict struct {
	Code      uint32
	Gas, Prio int64
	Sender    int // 0 = ""
}

func C12SenderName(i int) string {
	if i == 0 {
		return ""
	}
	return "s" + strconv.Itoa(i)
}
func C12SenderIndex(s string) int {
	if s == "" {
		return 0
	}
	n, err := strconv.Atoi(strings.TrimPrefix(s, "s"))
	if err != nil {
		return 99
	}
	return n
}

type C12Cfg struct {
	Size                 int
	MaxTxsBytes          int64
	MaxTxBytes           int
	CacheSize            int
	Recheck, KeepInvalid bool
	TTLBlocks            int64
	TTLDurNs             int64 // 0, 1 (everything older than a tick expires) or an hour
}

type C12Call struct {
	Tx      int
	Recheck bool
	V       C12Verdict
}

// C12Script is the scripted application: the answer to the n-th CheckTx of a transaction is
// Table[tx][n mod 4].
type C12Script struct {
	Alphabet [][]byte
	Table    [][]C12Verdict
	mtx      sync.Mutex
	calls    []int
	log      []C12Call
	keys     map[string]int
}

func (s *C12Script) Index(tx []byte) int {
	for i, a := range s.Alphabet {
		if string(a) == string(tx) {
			return i
		}
	}
	return 255
}

// Answer is called by the application (possibly from several goroutines in v1's recheck).
func (s *C12Script) Answer(tx []byte, recheck bool) C12Verdict {
	s.mtx.Lock()
	defer s.mtx.Unlock()
	i := s.Index(tx)
	if i == 255 {
		return C12Verdict{Code: 99}
	}
	v := s.Table[i][s.calls[i]%len(s.Table[i])]
	s.calls[i]++
	s.log = append(s.log, C12Call{Tx: i, Recheck: recheck, V: v})
	return v
}
func (s *C12Script) TakeLog() []C12Call {
	s.mtx.Lock()
	defer s.mtx.Unlock()
	l := s.log
	s.log = nil
	return l
}
func (s *C12Script) LogLen() int {
	s.mtx.Lock()
	defer s.mtx.Unlock()
	return len(s.log)
}
func (s *C12Script) RegisterKey(i int, key []byte) {
	if s.keys == nil {
		s.keys = map[string]int{}
	}
	s.keys[string(key)] = i
}
func (s *C12Script) KeyIndex(key []byte) int {
	if i, ok := s.keys[string(key)]; ok {
		return i
	}
	return 255
}

type C12RawEnt struct {
	Tx        []byte
	Gas, Prio int64
	Sender    string
}
type C12RawObs struct {
	Pool            []C12RawEnt
	Size            int
	Bytes           int64
	NKeys, NSenders int
	Cache           [][]byte // keys, front first
	StampsOK        bool     // v1: arrival stamps strictly increasing along the list
}

// C12Driver wraps a real mempool. Error classes: 0 nil, 1 ErrMempoolIsFull, 2 ErrTxTooLarge,
// 3 ErrPreCheck, 4 ErrTxInCache, 5 any other error.
type C12Driver interface {
	CheckTx(tx []byte, peer uint16) int
	Update(h int64, txs [][]byte, codes []uint32, pre, post *int64)
	Flush()
	Remove(tx []byte) int
	ReapTxs(n int) [][]byte
	ReapBG(b, g int64) [][]byte
	Observe() C12RawObs
	Close()
}

type C12Maker func(cfg C12Cfg, h0 int64, pre, post *int64, sc *C12Script) C12Driver

// ---------------------------------------------------------------- printing

func c12z(n int64) string {
	if n < 0 {
		return "(" + strconv.FormatInt(n, 10) + ")"
	}
	return strconv.FormatInt(n, 10)
}
func c12n(n int) string { return strconv.Itoa(n) + "%N" }
func c12nl(xs []int) string {
	ys := make([]string, len(xs))
	for i, x := range xs {
		ys[i] = c12n(x)
	}
	return L(ys)
}
func c12v(v C12Verdict) string {
	return Tup(c12z(int64(v.Code)), c12z(v.Gas), c12z(v.Prio), c12n(v.Sender))
}
func c12optz(p *int64) string {
	if p == nil {
		return "None"
	}
	return "(Some " + c12z(*p) + ")"
}
func c12optopt(p *int64) string { // Update argument: nil keeps the old filter
	if p == nil {
		return "None"
	}
	return "(Some (Some " + c12z(*p) + "))"
}
func c12cfg(c C12Cfg) string {
	return Tup(c12z(int64(c.Size)), c12z(c.MaxTxsBytes), c12z(int64(c.MaxTxBytes)), c12z(int64(c.CacheSize)),
		B(c.Recheck), B(c.KeepInvalid), c12z(c.TTLBlocks), c12z(c.TTLDurNs))
}

type c12obs struct {
	pool            [][4]int64 // tx, gas, prio, sender
	reapAll         []int
	size            int
	bytes           int64
	nkeys, nsenders int
	cache           []int
}

func (o c12obs) term() string {
	es := make([]string, len(o.pool))
	for i, e := range o.pool {
		es[i] = Tup(c12n(int(e[0])), c12z(e[1]), c12z(e[2]), c12n(int(e[3])))
	}
	return "(Obs " + L(es) + " " + c12nl(o.reapAll) + " " + c12z(int64(o.size)) + " " + c12z(o.bytes) + " " +
		c12z(int64(o.nkeys)) + " " + c12z(int64(o.nsenders)) + " " + c12nl(o.cache) + ")"
}
func (o c12obs) short() string {
	var p []string
	for _, e := range o.pool {
		p = append(p, fmt.Sprintf("tx%d", e[0]))
	}
	var c []string
	for _, k := range o.cache {
		c = append(c, fmt.Sprintf("tx%d", k))
	}
	return fmt.Sprintf("pool=[%s] Size=%d SizeBytes=%d cache=[%s]", strings.Join(p, " "), o.size, o.bytes, strings.Join(c, " "))
}

// ---------------------------------------------------------------- generation

type C12Op struct {
	Kind      string // check update flush remove reaptxs reapbg
	Tx        int
	Peer      int
	H         int64
	Blk       []int
	Codes     []uint32
	Pre, Post *int64
	N         int
	B, G      int64
}

func c12GenCfg(r *Rand) C12Cfg {
	c := C12Cfg{}
	c.Size = []int{1, 2, 3, 4, 4, 6, 6, 8}[r.Intn(8)]
	if r.Chance(3) {
		c.Size = 0
	}
	c.MaxTxsBytes = []int64{10, 16, 30, 1000, 1000, 1000}[r.Intn(6)]
	if r.Chance(6) {
		c.MaxTxsBytes = []int64{0, 5}[r.Intn(2)]
	}
	c.MaxTxBytes = []int{4, 8, 1000, 1000}[r.Intn(4)]
	c.CacheSize = []int{0, 1, 2, 3, 5, 100, 100}[r.Intn(7)]
	c.Recheck = r.Chance(70)
	c.KeepInvalid = r.Chance(30)
	return c
}

func c12GenAlphabet(r *Rand) [][]byte {
	n := 3 + r.Intn(5)
	sizes := []int{1, 1, 2, 2, 3, 4, 6, 9}
	al := make([][]byte, n)
	emptyUsed := false
	for i := range al {
		sz := sizes[r.Intn(len(sizes))]
		if !emptyUsed && r.Chance(4) {
			sz = 0
			emptyUsed = true
		}
		if r.Chance(2) {
			sz = 126 + r.Intn(4) // around the one-/two-byte length varint boundary
		}
		b := make([]byte, sz)
		for j := range b {
			b[j] = byte(0xa0 + j%16)
		}
		if sz > 0 {
			b[0] = byte(i + 1)
		}
		al[i] = b
	}
	return al
}

func c12GenTable(r *Rand, n int) [][]C12Verdict {
	t := make([][]C12Verdict, n)
	for i := range t {
		t[i] = make([]C12Verdict, 4)
		for j := range t[i] {
			v := C12Verdict{}
			if !r.Chance(78) {
				v.Code = []uint32{1, 7}[r.Intn(2)]
			}
			v.Gas = []int64{0, 1, 1, 2, 3, 5, -1}[r.Intn(7)]
			v.Prio = int64(r.Intn(4))
			v.Sender = []int{0, 0, 0, 1, 2}[r.Intn(5)]
			t[i][j] = v
		}
	}
	return t
}

func c12GenOp(r *Rand, sc *C12Script, cur c12obs, height int64) C12Op {
	n := len(sc.Alphabet)
	k := r.Intn(100)
	switch {
	case k < 55:
		return C12Op{Kind: "check", Tx: r.Intn(n), Peer: r.Intn(4)}
	case k < 67:
		op := C12Op{Kind: "update", H: height + 1}
		if r.Chance(15) {
			op.H = height + 2 + int64(r.Intn(2))
		}
		// mostly what a proposer would have reaped, sometimes foreign or repeated transactions
		take := r.Intn(len(cur.reapAll) + 1)
		if take > 3 {
			take = 3
		}
		for i := 0; i < take; i++ {
			op.Blk = append(op.Blk, cur.reapAll[i])
		}
		if r.Chance(30) {
			op.Blk = append(op.Blk, r.Intn(n))
		}
		if r.Chance(10) && len(op.Blk) > 0 {
			op.Blk = append(op.Blk, op.Blk[r.Intn(len(op.Blk))])
		}
		for range op.Blk {
			c := uint32(0)
			if r.Chance(20) {
				c = 1
			}
			op.Codes = append(op.Codes, c)
		}
		if r.Chance(15) {
			m := int64(3 + r.Intn(10))
			op.Pre = &m
		}
		if r.Chance(15) {
			g := []int64{-1, 0, 1, 2, 5}[r.Intn(5)]
			op.Post = &g
		}
		return op
	case k < 69:
		return C12Op{Kind: "flush"}
	case k < 74:
		op := C12Op{Kind: "remove", Tx: r.Intn(n)}
		if len(cur.pool) > 0 && r.Chance(60) {
			op.Tx = int(cur.pool[r.Intn(len(cur.pool))][0])
		}
		return op
	case k < 85:
		sz := len(cur.pool)
		return C12Op{Kind: "reaptxs", N: []int{-1, 0, 1, sz - 1, sz, sz + 1, r.Intn(4)}[r.Intn(7)]}
	default:
		var total, gas int64
		for _, e := range cur.pool {
			total += c12ProtoSize(len(sc.Alphabet[e[0]]))
			gas += e[1]
		}
		b := []int64{-1, -1, 0, total, total - 1, total + 1, r.Int63n(total + 2), r.Int63n(total + 2)}[r.Intn(8)]
		g := []int64{-1, -1, 0, 1, 2, 3, gas, gas - 1, r.Int63n(gas + 2)}[r.Intn(9)]
		if g < -1 {
			g = -1
		}
		return C12Op{Kind: "reapbg", B: b, G: g}
	}
}

func c12ProtoSize(n int) int64 {
	v := 1
	for m := n; m >= 128; m >>= 7 {
		v++
	}
	return int64(1 + v + n)
}

// Directed histories: one per known defect class (F5, F6/F12) and per boundary the property
// names; they use an all-accepting table unless noted.
func c12Directed(which int, v1 bool) (C12Cfg, [][]byte, [][]C12Verdict, []C12Op, string) {
	al := [][]byte{{1}, {2, 0xa1}, {3, 0xa1, 0xa2}, {4}, {5, 0xa1}}
	okTable := func(prios []int64) [][]C12Verdict {
		t := make([][]C12Verdict, len(al))
		for i := range t {
			p := int64(0)
			if prios != nil {
				p = prios[i]
			}
			t[i] = []C12Verdict{{Gas: 1, Prio: p}}
		}
		return t
	}
	big := C12Cfg{Size: 10, MaxTxsBytes: 1000, MaxTxBytes: 1000, CacheSize: 100, Recheck: true}
	chk := func(i int) C12Op { return C12Op{Kind: "check", Tx: i, Peer: 1} }
	switch which {
	case 0: // F5: ReapMaxTxs(max) must return at most max
		return big, al, okTable(nil), []C12Op{chk(0), chk(1), chk(2), {Kind: "reaptxs", N: 1}, {Kind: "reaptxs", N: 2},
			{Kind: "reaptxs", N: 0}, {Kind: "reaptxs", N: 3}, {Kind: "reaptxs", N: 4}}, "directed-F5-reapmaxtxs"
	case 1: // F6 / F12: cache smaller than the pool, a live transaction comes again
		c := big
		c.CacheSize = 1
		c.Size = 4
		return c, al, okTable(nil), []C12Op{chk(0), chk(1), chk(2), {Kind: "check", Tx: 0, Peer: 2}, {Kind: "reaptxs", N: -1},
			{Kind: "update", H: 1, Blk: []int{0}, Codes: []uint32{0}}, {Kind: "reaptxs", N: -1}}, "directed-F6-cache-smaller-than-pool"
	case 2: // cache size 2 < pool 3, repeats in a different order
		c := big
		c.CacheSize = 2
		c.Size = 5
		return c, al, okTable(nil), []C12Op{chk(0), chk(1), chk(2), chk(1), chk(0), chk(3), chk(2), {Kind: "reaptxs", N: -1},
			{Kind: "remove", Tx: 0}, {Kind: "reaptxs", N: -1}}, "directed-F6-cache-2"
	case 3: // no cache at all
		c := big
		c.CacheSize = 0
		return c, al, okTable(nil), []C12Op{chk(0), chk(0), chk(1), chk(0), {Kind: "reaptxs", N: -1},
			{Kind: "update", H: 1, Blk: []int{0}, Codes: []uint32{0}}, chk(0)}, "directed-F6-no-cache"
	case 4: // committed transaction is remembered and refused; failed one may come back
		return big, al, okTable(nil), []C12Op{chk(0), chk(1), chk(2),
			{Kind: "update", H: 1, Blk: []int{0, 1}, Codes: []uint32{0, 1}}, chk(0), chk(1), {Kind: "reaptxs", N: -1}}, "directed-committed-remembered"
	case 5: // count and byte limits exactly reached
		c := big
		c.Size = 2
		c.MaxTxsBytes = 3
		return c, al, okTable(nil), []C12Op{chk(0), chk(2), chk(1), chk(3), {Kind: "reapbg", B: 3, G: -1}, {Kind: "reapbg", B: 4, G: -1},
			{Kind: "reapbg", B: -1, G: 1}, {Kind: "reapbg", B: -1, G: 2}, {Kind: "reapbg", B: 0, G: 0}}, "directed-limits"
	case 6: // eviction has to free enough bytes (v1): two victims for one newcomer
		c := big
		c.MaxTxsBytes = 3
		return c, al, okTable([]int64{1, 1, 3, 1, 2}), []C12Op{chk(0), chk(1), chk(2), {Kind: "reaptxs", N: -1}, chk(3), chk(4),
			{Kind: "reapbg", B: 5, G: -1}}, "directed-eviction-bytes"
	default: // eviction by priority (v1); for v0 the same ops show isFull
		c := big
		c.Size = 2
		return c, al, okTable([]int64{1, 2, 3, 1, 2}), []C12Op{chk(0), chk(1), chk(2), chk(3), chk(4), {Kind: "reaptxs", N: -1},
			{Kind: "reapbg", B: -1, G: 1}}, "directed-eviction"
	}
}

const C12NDirected = 8

// C12History runs one history against a fresh mempool and returns the Coq case.
// ok=false: the history must be skipped (v1 arrival stamps not strictly increasing).
func C12History(r *Rand, v1 bool, directed int, mk C12Maker, events map[string]int) (term, descr, kind string, nontrivial, ok bool) {
	ev := map[string]int{}
	var cfg C12Cfg
	var ops []C12Op
	sc := &C12Script{}
	nOps := 0
	kind = "random"
	var pre0, post0 *int64
	if directed >= 0 {
		cfg, sc.Alphabet, sc.Table, ops, kind = c12Directed(directed, v1)
	} else {
		cfg = c12GenCfg(r)
		if v1 {
			cfg.TTLBlocks = []int64{0, 0, 0, 1, 2}[r.Intn(5)]
			cfg.TTLDurNs = []int64{0, 0, 0, 0, 1, 3600e9}[r.Intn(6)]
		}
		sc.Alphabet = c12GenAlphabet(r)
		sc.Table = c12GenTable(r, len(sc.Alphabet))
		nOps = 25 + r.Intn(30)
		if r.Chance(10) {
			m := int64(3 + r.Intn(10))
			pre0 = &m
		}
		if r.Chance(10) {
			g := int64(r.Intn(4))
			post0 = &g
		}
		if cfg.CacheSize > 0 && cfg.CacheSize < cfg.Size {
			kind = "random-cache<size"
		} else if cfg.CacheSize == 0 {
			kind = "random-nocache"
		}
	}
	sc.calls = make([]int, len(sc.Alphabet))
	h0 := int64(0)
	d := mk(cfg, h0, pre0, post0, sc)
	defer d.Close()

	var sb strings.Builder
	fmt.Fprintf(&sb, "mempool %s config{Size:%d MaxTxsBytes:%d MaxTxBytes:%d CacheSize:%d Recheck:%v KeepInvalidTxsInCache:%v TTLNumBlocks:%d TTLDuration:%dns} preCheckMaxBytes=%s postCheckMaxGas=%s; txs:",
		map[bool]string{false: "v0", true: "v1"}[v1], cfg.Size, cfg.MaxTxsBytes, cfg.MaxTxBytes, cfg.CacheSize, cfg.Recheck, cfg.KeepInvalid,
		cfg.TTLBlocks, cfg.TTLDurNs, c12optz(pre0), c12optz(post0))
	for i, a := range sc.Alphabet {
		fmt.Fprintf(&sb, " tx%d=%s", i, hex.EncodeToString(a))
	}
	sb.WriteString("; ops:")

	observe := func() (c12obs, bool) {
		raw := d.Observe()
		o := c12obs{size: raw.Size, bytes: raw.Bytes, nkeys: raw.NKeys, nsenders: raw.NSenders}
		for _, e := range raw.Pool {
			o.pool = append(o.pool, [4]int64{int64(sc.Index(e.Tx)), e.Gas, e.Prio, int64(C12SenderIndex(e.Sender))})
		}
		for _, k := range raw.Cache {
			o.cache = append(o.cache, sc.KeyIndex(k))
		}
		for _, t := range d.ReapTxs(-1) {
			o.reapAll = append(o.reapAll, sc.Index(t))
		}
		return o, raw.StampsOK
	}
	idx := func(txs [][]byte) []int {
		var l []int
		for _, t := range txs {
			l = append(l, sc.Index(t))
		}
		return l
	}

	cur := c12obs{}
	height := h0
	clock := int64(0) // logical arrival clock of the model (v1)
	var steps []string
	total := nOps
	if directed >= 0 {
		total = len(ops)
	}
	panicked := false
	for i := 0; i < total && !panicked; i++ {
		var op C12Op
		if directed >= 0 {
			op = ops[i]
		} else {
			op = c12GenOp(r, sc, cur, height)
		}
		var xop, line string
		func() {
			defer func() {
				if e := recover(); e != nil {
					panicked = true
					line = fmt.Sprintf("%s PANIC: %v", op.Kind, e)
					if xop == "" {
						xop = "(XRemove 255%N 9%N)"
					}
				}
			}()
			switch op.Kind {
			case "check":
				sc.TakeLog()
				xop = App("XCheck", c12n(op.Tx), c12n(op.Peer), c12v(C12Verdict{}), "9%N", "false")
				e := d.CheckTx(sc.Alphabet[op.Tx], uint16(op.Peer))
				log := sc.TakeLog()
				v := C12Verdict{}
				asked := len(log) > 0
				if asked {
					v = log[0].V
					clock++
				}
				xop = App("XCheck", c12n(op.Tx), c12n(op.Peer), c12v(v), c12n(e), B(asked))
				ev[fmt.Sprintf("checktx-err%d", e)]++
				if asked {
					for _, pe := range cur.pool {
						if int(pe[0]) == op.Tx {
							ev["checktx-live-tx-reaches-app-again"]++
						}
					}
				}
				line = fmt.Sprintf("CheckTx(tx%d,peer%d)", op.Tx, op.Peer)
				if asked {
					line += fmt.Sprintf(" app{code:%d gas:%d prio:%d sender:%q}", v.Code, v.Gas, v.Prio, C12SenderName(v.Sender))
				}
				line += fmt.Sprintf(" err=%d", e)
			case "update":
				sc.TakeLog()
				var txs [][]byte
				var blk []string
				for j, t := range op.Blk {
					txs = append(txs, sc.Alphabet[t])
					blk = append(blk, Tup(c12n(t), c12z(int64(op.Codes[j]))))
				}
				now := clock + 2
				d.Update(op.H, txs, op.Codes, op.Pre, op.Post)
				height = op.H
				log := sc.TakeLog()
				var rv []string
				var reqs []int
				for _, c := range log {
					rv = append(rv, Tup(c12n(c.Tx), c12v(c.V)))
					reqs = append(reqs, c.Tx)
				}
				xop = App("XUpdate", c12z(op.H), c12z(now), L(blk), c12optopt(op.Pre), c12optopt(op.Post), L(rv), c12nl(reqs))
				line = fmt.Sprintf("Update(h=%d, txs=%v, codes=%v, preCheckMaxBytes=%s, postCheckMaxGas=%s) recheck answers=%s",
					op.H, op.Blk, op.Codes, c12optz(op.Pre), c12optz(op.Post), L(rv))
			case "flush":
				d.Flush()
				xop = "XFlush"
				line = "Flush()"
			case "remove":
				e := d.Remove(sc.Alphabet[op.Tx])
				xop = App("XRemove", c12n(op.Tx), c12n(e))
				line = fmt.Sprintf("RemoveTxByKey(tx%d) err=%d", op.Tx, e)
			case "reaptxs":
				res := idx(d.ReapTxs(op.N))
				xop = App("XReapTxs", c12z(int64(op.N)), c12nl(res))
				line = fmt.Sprintf("ReapMaxTxs(%d)=%v", op.N, res)
			case "reapbg":
				res := idx(d.ReapBG(op.B, op.G))
				xop = App("XReapBG", c12z(op.B), c12z(op.G), c12nl(res))
				line = fmt.Sprintf("ReapMaxBytesMaxGas(%d,%d)=%v", op.B, op.G, res)
			}
		}()
		var after c12obs
		stampsOK := true
		func() {
			defer func() {
				if e := recover(); e != nil {
					panicked = true
					line += fmt.Sprintf(" PANIC while observing: %v", e)
				}
			}()
			after, stampsOK = observe()
		}()
		if !stampsOK {
			return "", "", kind, false, false
		}
		ev["op-"+op.Kind]++
		switch op.Kind {
		case "check":
			if len(after.pool) > len(cur.pool) {
				ev["checktx-admitted"]++
			}
			for _, pe := range cur.pool {
				found := false
				for _, qe := range after.pool {
					found = found || qe[0] == pe[0]
				}
				if !found {
					ev["checktx-evicted"]++
				}
			}
		case "update":
			if len(cur.pool)-len(after.pool) > 0 {
				ev["update-removed-some"]++
			}
		}
		steps = append(steps, Tup(xop, after.term()))
		fmt.Fprintf(&sb, " %d:%s -> %s;", i, line, after.short())
		if len(after.pool) >= 2 {
			nontrivial = true
		}
		cur = after
	}
	al := make([]string, len(sc.Alphabet))
	for i, a := range sc.Alphabet {
		al[i] = Hx(a)
	}
	ctor := "CV0"
	if v1 {
		ctor = "CV1"
	}
	term = App(ctor, L(al), c12cfg(cfg), c12z(h0), c12optz(pre0), c12optz(post0), L(steps))
	for k, n := range ev {
		events[k] += n
	}
	return term, sb.String(), kind, nontrivial, true
}
