package verifgen

// C12 / F94 — family of histories for the gas accounting of ReapMaxBytesMaxGas: transactions
// admitted while there is no gas limit (no post-check filter, i.e. block MaxGas = -1) whose
// GasWanted values are near the top of int64, reaped later under finite gas limits (directly,
// or after an Update that installs PostCheckMaxGas with recheck disabled so the pool stays).
// The property's reap clause (the result is the maximal prefix whose GasWanted sum, over the
// integers, is within maxGas) is checked by the existing monitors 8 / 108.

import (
	"encoding/hex"
	"fmt"
	"math"
	"os"
	"strings"
)

// C12F94Enabled gates the family until the repair fixes/F94-reap-gas-overflow.diff is in the
// tree under test: THE ONE PLACE TO FLIP (make it return true) once the repair is applied.
func C12F94Enabled() bool { return os.Getenv("VERIF_C12_F94") != "0" } // on by default: the finding is recorded in known_findings.json

const C12F94NDirected = 4

var c12f94Gas = []int64{math.MaxInt64, math.MaxInt64 - 1, 1 << 62, 1<<62 + 1, 1, 0, 10}
var c12f94Max = []int64{10, 1 << 62, math.MaxInt64 - 1, math.MaxInt64, 0, 11, 1<<62 + 1, 1<<62 - 1, math.MaxInt64 - 10}

// C12F94History runs one history; directed >= 0 selects a fixed one.
func C12F94History(r *Rand, v1 bool, directed int, mk C12Maker, events map[string]int) (term, descr, kind string, nontrivial, ok bool) {
	var gas []int64
	var limits []int64
	kind = "f94-random"
	switch directed {
	case 0: // the audit's witness
		gas, limits, kind = []int64{10, math.MaxInt64, 10}, []int64{10, 9, 20, math.MaxInt64, math.MaxInt64 - 1}, "f94-directed-10-max-10"
	case 1:
		gas, limits, kind = []int64{1 << 62, 1 << 62, 1 << 62, 1}, []int64{1 << 62, math.MaxInt64, 1<<62 + 1, 10}, "f94-directed-2^62"
	case 2:
		gas, limits, kind = []int64{math.MaxInt64, math.MaxInt64, 1}, []int64{math.MaxInt64, math.MaxInt64 - 1, 0}, "f94-directed-max-max"
	case 3: // a negative GasWanted (kept as the code treats it today: it lowers the total)
		gas, limits, kind = []int64{-1, math.MaxInt64, 1, 1}, []int64{math.MaxInt64 - 1, math.MaxInt64, 0}, "f94-directed-negative"
	default:
		n := 2 + r.Intn(7)
		for i := 0; i < n; i++ {
			g := c12f94Gas[r.Intn(len(c12f94Gas))]
			if r.Chance(3) {
				g = -1
			}
			gas = append(gas, g)
		}
	}
	n := len(gas)
	sc := &C12Script{}
	sc.Alphabet = make([][]byte, n)
	sc.Table = make([][]C12Verdict, n)
	for i := range sc.Alphabet {
		b := make([]byte, 1+r.Intn(4))
		for j := range b {
			b[j] = byte(0xa0 + j)
		}
		b[0] = byte(i + 1)
		sc.Alphabet[i] = b
		p := int64(0)
		if directed < 0 {
			p = int64(r.Intn(3))
		}
		sc.Table[i] = []C12Verdict{{Gas: gas[i], Prio: p}}
	}
	sc.calls = make([]int, n)
	cfg := C12Cfg{Size: 100, MaxTxsBytes: 100000, MaxTxBytes: 1000, CacheSize: 100, Recheck: false}
	h0 := int64(0)
	d := mk(cfg, h0, nil, nil, sc)
	defer d.Close()

	var sb strings.Builder
	fmt.Fprintf(&sb, "mempool %s config{Size:%d MaxTxsBytes:%d MaxTxBytes:%d CacheSize:%d Recheck:false KeepInvalidTxsInCache:false} no pre/post-check (MaxGas -1) when the txs arrive; txs:",
		map[bool]string{false: "v0", true: "v1"}[v1], cfg.Size, cfg.MaxTxsBytes, cfg.MaxTxBytes, cfg.CacheSize)
	for i, a := range sc.Alphabet {
		fmt.Fprintf(&sb, " tx%d=%s(GasWanted %d, priority %d)", i, hex.EncodeToString(a), sc.Table[i][0].Gas, sc.Table[i][0].Prio)
	}
	sb.WriteString("; ops:")

	observe := func() (c12obs, bool) {
		raw := d.Observe()
		o := c12obs{size: raw.Size, bytes: raw.Bytes, nkeys: raw.NKeys, nsenders: raw.NSenders}
		for _, e := range raw.Pool {
			o.pool = append(o.pool, [4]int64{int64(sc.Index(e.Tx)), e.Gas, e.Prio, int64(C12SenderIndex(e.Sender))})
		}
		for _, k := range raw.Cache {
			o.cache = append(o.cache, sc.KeyIndex(k))
		}
		for _, t := range d.ReapTxs(-1) {
			o.reapAll = append(o.reapAll, sc.Index(t))
		}
		return o, raw.StampsOK
	}
	var steps []string
	step := 0
	failed := false
	clock := int64(0)
	run := func(f func() (xop, line string)) bool {
		var xop, line string
		func() {
			defer func() {
				if e := recover(); e != nil {
					failed = true
					line = fmt.Sprintf("PANIC: %v", e)
					xop = "(XRemove 255%N 9%N)"
				}
			}()
			xop, line = f()
		}()
		var after c12obs
		stampsOK := true
		func() {
			defer func() {
				if e := recover(); e != nil {
					failed = true
					line += fmt.Sprintf(" PANIC while observing: %v", e)
				}
			}()
			after, stampsOK = observe()
		}()
		if !stampsOK {
			return false
		}
		steps = append(steps, Tup(xop, after.term()))
		fmt.Fprintf(&sb, " %d:%s -> Size=%d ReapMaxTxs(-1)=%v;", step, line, after.size, after.reapAll)
		step++
		return true
	}
	// all transactions arrive, one after the other
	if !run(func() (string, string) {
		var items, words []string
		for t := 0; t < n; t++ {
			sc.TakeLog()
			e := d.CheckTx(sc.Alphabet[t], 1)
			log := sc.TakeLog()
			v := C12Verdict{}
			asked := len(log) > 0
			if asked {
				v = log[0].V
				clock++
			}
			items = append(items, Tup(c12n(t), "1%N", c12v(v), c12n(e), B(asked)))
			words = append(words, fmt.Sprintf("tx%d err=%d", t, e))
		}
		return App("XBulk", L(items)), "CheckTx one after the other: " + strings.Join(words, ", ")
	}) {
		return "", "", kind, false, false
	}
	reap := func(b, g int64) bool {
		return run(func() (string, string) {
			var res []int
			for _, t := range d.ReapBG(b, g) {
				res = append(res, sc.Index(t))
			}
			events["f94-reapbg"]++
			return App("XReapBG", c12z(b), c12z(g), c12nl(res)), fmt.Sprintf("ReapMaxBytesMaxGas(%d,%d)=%v", b, g, res)
		})
	}
	if directed < 0 {
		k := 3 + r.Intn(3)
		for i := 0; i < k; i++ {
			limits = append(limits, c12f94Max[r.Intn(len(c12f94Max))])
		}
	}
	height := h0
	for i, g := range limits {
		if failed {
			break
		}
		// sometimes the limit arrives the way it does in a node: a block Update installs
		// PostCheckMaxGas(g) (recheck is off, the pool stays), then the proposer reaps with it
		if directed < 0 && r.Chance(30) || directed >= 0 && i == 1 {
			gg := g
			if !run(func() (string, string) {
				height++
				d.Update(height, nil, nil, nil, &gg)
				sc.TakeLog()
				return App("XUpdate", c12z(height), c12z(clock+2), "[]", "None", c12optopt(&gg), "[]", "[]"),
					fmt.Sprintf("Update(h=%d, no txs, postCheckMaxGas=%d)", height, gg)
			}) {
				return "", "", kind, false, false
			}
		}
		b := int64(-1)
		if directed < 0 && r.Chance(25) {
			b = int64(5 + r.Intn(40))
		}
		if !reap(b, g) {
			return "", "", kind, false, false
		}
	}
	events["f94-histories"]++
	al := make([]string, n)
	for i, a := range sc.Alphabet {
		al[i] = Hx(a)
	}
	ctor := "CV0"
	if v1 {
		ctor = "CV1"
	}
	term = App(ctor, L(al), c12cfg(cfg), c12z(h0), "None", "None", L(steps))
	return term, sb.String(), kind, n >= 2, true
}
