package verifgen

// C12 (mempool) — second family of histories: LARGE pools (13..200 transactions) over FEW
// priority levels (1..4) that do not arrive in sorted order, so that the reap order inside a
// priority level (arrival order) and limits that cut inside a level are exercised; the same
// histories run against v0 (arrival order only) as a control.  Insertions are issued as one
// bulk step (XBulk) observed at its end, everything else is observed after every operation.

import (
	"encoding/hex"
	"fmt"
	"strings"
)

func c12BigSize(r *Rand) int {
	if Thorough() {
		switch k := r.Intn(10); {
		case k < 4:
			return 13 + r.Intn(28)
		case k < 8:
			return 41 + r.Intn(60)
		default:
			return 101 + r.Intn(100)
		}
	}
	switch k := r.Intn(20); {
	case k < 13:
		return 13 + r.Intn(20)
	case k < 19:
		return 33 + r.Intn(40)
	default:
		return 101 + r.Intn(100)
	}
}

// C12BigHistory runs one large-pool history against a fresh mempool and returns the Coq case.
// ok=false: skipped (v1 arrival stamps recorded by the code not strictly increasing).
func C12BigHistory(r *Rand, v1 bool, mk C12Maker, events map[string]int) (term, descr, kind string, nontrivial, ok bool) {
	n := c12BigSize(r)
	extra := 6
	levels := 1 + r.Intn(4)
	kind = fmt.Sprintf("big-%dlevels", levels)
	prioVals := r.Perm(8)[:levels] // distinct priority values, in no particular order
	sc := &C12Script{}
	sc.Alphabet = make([][]byte, n+extra)
	sc.Table = make([][]C12Verdict, n+extra)
	for i := range sc.Alphabet {
		b := make([]byte, 2+r.Intn(5))
		for j := range b {
			b[j] = byte(0xa0 + j)
		}
		b[0] = byte(i>>8) + 1
		b[1] = byte(i)
		sc.Alphabet[i] = b
		v := C12Verdict{Gas: int64(r.Intn(4)), Prio: int64(prioVals[r.Intn(levels)])}
		w := v // answer to the second CheckTx of the transaction (recheck / resubmission)
		if r.Chance(25) {
			w.Prio = int64(prioVals[r.Intn(levels)])
		}
		if r.Chance(5) {
			w.Code = 1
		}
		sc.Table[i] = []C12Verdict{v, w}
	}
	sc.calls = make([]int, len(sc.Alphabet))
	cfg := C12Cfg{Size: n + 50, MaxTxsBytes: 1000000, MaxTxBytes: 1000, Recheck: r.Chance(70)}
	cfg.CacheSize = []int{0, 3, n + 100, n + 100}[r.Intn(4)]
	h0 := int64(0)
	d := mk(cfg, h0, nil, nil, sc)
	defer d.Close()

	var sb strings.Builder
	fmt.Fprintf(&sb, "mempool %s config{Size:%d MaxTxsBytes:%d MaxTxBytes:%d CacheSize:%d Recheck:%v KeepInvalidTxsInCache:%v TTLNumBlocks:0 TTLDuration:0ns} no pre/post-check; %d txs over %d priority levels:",
		map[bool]string{false: "v0", true: "v1"}[v1], cfg.Size, cfg.MaxTxsBytes, cfg.MaxTxBytes, cfg.CacheSize, cfg.Recheck, cfg.KeepInvalid, n, levels)
	for i, a := range sc.Alphabet {
		fmt.Fprintf(&sb, " tx%d=%s", i, hex.EncodeToString(a))
	}
	sb.WriteString("; ops:")

	observe := func() (c12obs, bool) {
		raw := d.Observe()
		o := c12obs{size: raw.Size, bytes: raw.Bytes, nkeys: raw.NKeys, nsenders: raw.NSenders}
		for _, e := range raw.Pool {
			o.pool = append(o.pool, [4]int64{int64(sc.Index(e.Tx)), e.Gas, e.Prio, int64(C12SenderIndex(e.Sender))})
		}
		for _, k := range raw.Cache {
			o.cache = append(o.cache, sc.KeyIndex(k))
		}
		for _, t := range d.ReapTxs(-1) {
			o.reapAll = append(o.reapAll, sc.Index(t))
		}
		return o, raw.StampsOK
	}
	idx := func(txs [][]byte) []int {
		var l []int
		for _, t := range txs {
			l = append(l, sc.Index(t))
		}
		return l
	}

	var steps []string
	cur := c12obs{}
	clock := int64(0)
	height := h0
	step := 0
	failed := false
	// run executes one operation (recovering panics), observes, and appends the step
	run := func(f func() (xop, line string)) bool {
		var xop, line string
		func() {
			defer func() {
				if e := recover(); e != nil {
					failed = true
					line = fmt.Sprintf("PANIC: %v", e)
					xop = "(XRemove 255%N 9%N)"
				}
			}()
			xop, line = f()
		}()
		var after c12obs
		stampsOK := true
		func() {
			defer func() {
				if e := recover(); e != nil {
					failed = true
					line += fmt.Sprintf(" PANIC while observing: %v", e)
				}
			}()
			after, stampsOK = observe()
		}()
		if !stampsOK {
			return false
		}
		steps = append(steps, Tup(xop, after.term()))
		var pool []string
		for _, e := range after.pool {
			pool = append(pool, fmt.Sprintf("tx%d:p%d", e[0], e[2]))
		}
		fmt.Fprintf(&sb, " %d:%s -> Size=%d SizeBytes=%d list(arrival order, with priority)=[%s] ReapMaxTxs(-1)=%v;", step, line,
			after.size, after.bytes, strings.Join(pool, " "), after.reapAll)
		step++
		cur = after
		return true
	}
	bulk := func(txs []int) bool {
		return run(func() (string, string) {
			var items, words []string
			for _, t := range txs {
				peer := r.Intn(4)
				sc.TakeLog()
				e := d.CheckTx(sc.Alphabet[t], uint16(peer))
				log := sc.TakeLog()
				v := C12Verdict{}
				asked := len(log) > 0
				if asked {
					v = log[0].V
					clock++
				}
				items = append(items, Tup(c12n(t), c12n(peer), c12v(v), c12n(e), B(asked)))
				w := fmt.Sprintf("tx%d", t)
				if asked {
					w += fmt.Sprintf("{code:%d gas:%d prio:%d}", v.Code, v.Gas, v.Prio)
				}
				words = append(words, fmt.Sprintf("%s err=%d", w, e))
				events["big-checktx"]++
			}
			return App("XBulk", L(items)), "CheckTx one after the other: " + strings.Join(words, ", ")
		})
	}
	reaps := func(count int) bool {
		for q := 0; q < count && !failed; q++ {
			sz := len(cur.pool)
			if r.Bool() {
				k := []int{1, 12, 13, sz / 2, sz - 1, sz, sz + 1, r.Intn(sz + 1), r.Intn(sz + 1)}[r.Intn(9)]
				if k < 0 {
					k = 0
				}
				if !run(func() (string, string) {
					res := idx(d.ReapTxs(k))
					events["big-reaptxs"]++
					return App("XReapTxs", c12z(int64(k)), c12nl(res)), fmt.Sprintf("ReapMaxTxs(%d)=%v", k, res)
				}) {
					return false
				}
				continue
			}
			// limits at the running totals of a random cut of the current reap order (mostly
			// inside a priority level), exactly / one less / one more
			b, g := int64(-1), int64(-1)
			if sz > 0 {
				j := 1 + r.Intn(sz)
				var cb, cg int64
				gasOf := map[int]int64{}
				for _, e := range cur.pool {
					gasOf[int(e[0])] = e[1]
				}
				for i := 0; i < j && i < len(cur.reapAll); i++ {
					t := cur.reapAll[i]
					if t < len(sc.Alphabet) {
						cb += c12ProtoSize(len(sc.Alphabet[t]))
					}
					cg += gasOf[t]
				}
				adj := int64(r.Intn(3) - 1)
				switch r.Intn(3) {
				case 0:
					b = cb + adj
				case 1:
					g = cg + adj
				default:
					b, g = cb+adj, cg+int64(r.Intn(3)-1)
				}
				if b < -1 {
					b = -1
				}
				if g < -1 {
					g = -1
				}
			}
			if !run(func() (string, string) {
				res := idx(d.ReapBG(b, g))
				events["big-reapbg"]++
				return App("XReapBG", c12z(b), c12z(g), c12nl(res)), fmt.Sprintf("ReapMaxBytesMaxGas(%d,%d)=%v", b, g, res)
			}) {
				return false
			}
		}
		return true
	}
	nReaps := 5
	if n > 60 {
		nReaps = 3
	}

	first := make([]int, n)
	for i := range first {
		first[i] = i
	}
	if !bulk(first) || !reaps(nReaps) {
		return "", "", kind, false, false
	}
	if !failed {
		// commit the head of the reap order; with Recheck the rest is asked again (second answers:
		// some priorities change, a few are rejected)
		c := r.Intn(6)
		if c > len(cur.reapAll) {
			c = len(cur.reapAll)
		}
		blkIdx := append([]int{}, cur.reapAll[:c]...)
		if !run(func() (string, string) {
			sc.TakeLog()
			var txs [][]byte
			var blk []string
			codes := make([]uint32, len(blkIdx))
			for _, t := range blkIdx {
				txs = append(txs, sc.Alphabet[t])
				blk = append(blk, Tup(c12n(t), "0"))
			}
			now := clock + 2
			height++
			d.Update(height, txs, codes, nil, nil)
			log := sc.TakeLog()
			var rv []string
			var reqs []int
			for _, cl := range log {
				rv = append(rv, Tup(c12n(cl.Tx), c12v(cl.V)))
				reqs = append(reqs, cl.Tx)
			}
			events["big-update"]++
			return App("XUpdate", c12z(height), c12z(now), L(blk), "None", "None", L(rv), c12nl(reqs)),
				fmt.Sprintf("Update(h=%d, txs=%v, all codes 0) recheck answers=%s", height, blkIdx, L(rv))
		}) {
			return "", "", kind, false, false
		}
	}
	if !failed && !reaps(nReaps) {
		return "", "", kind, false, false
	}
	if !failed {
		// late arrivals and repeats
		var more []int
		for i := 0; i < extra; i++ {
			more = append(more, n+i)
			if r.Chance(40) {
				more = append(more, r.Intn(n))
			}
		}
		if !bulk(more) {
			return "", "", kind, false, false
		}
	}
	for q := 0; q < 2 && !failed && len(cur.pool) > 0; q++ {
		t := int(cur.pool[r.Intn(len(cur.pool))][0])
		if !run(func() (string, string) {
			e := d.Remove(sc.Alphabet[t])
			return App("XRemove", c12n(t), c12n(e)), fmt.Sprintf("RemoveTxByKey(tx%d) err=%d", t, e)
		}) {
			return "", "", kind, false, false
		}
	}
	if !failed && !reaps(nReaps) {
		return "", "", kind, false, false
	}
	events[fmt.Sprintf("big-histories-%dlevels", levels)]++
	if n > 100 {
		events["big-histories-over-100-txs"]++
	}
	al := make([]string, len(sc.Alphabet))
	for i, a := range sc.Alphabet {
		al[i] = Hx(a)
	}
	ctor := "CV0"
	if v1 {
		ctor = "CV1"
	}
	term = App(ctor, L(al), c12cfg(cfg), c12z(h0), "None", "None", L(steps))
	return term, sb.String(), kind, true, true
}
