// Package verifgen is injected into /repo's module (as internal/verifgen) by `go test -overlay`
// from /verif/harness/gen; nothing is written into /repo. It holds what every harness shares:
// the splitmix64 PRNG all random choices derive from, printers for Coq terms, and the writer of
// the cases file that the Coq side evaluates.
package verifgen

import (
	"encoding/hex"
	"encoding/json"
	"fmt"
	"os"
	"path/filepath"
	"sort"
	"strconv"
	"strings"
)

// ---------------------------------------------------------------- PRNG

type Rand struct{ s uint64 }

func NewRand(seed uint64) *Rand { return &Rand{s: seed} }

func (r *Rand) Uint64() uint64 {
	r.s += 0x9e3779b97f4a7c15
	z := r.s
	z = (z ^ (z >> 30)) * 0xbf58476d1ce4e5b9
	z = (z ^ (z >> 27)) * 0x94d049bb133111eb
	return z ^ (z >> 31)
}

// Intn returns a value in [0,n).
func (r *Rand) Intn(n int) int {
	if n <= 0 {
		return 0
	}
	return int(r.Uint64() % uint64(n))
}
func (r *Rand) Int63n(n int64) int64 {
	if n <= 0 {
		return 0
	}
	return int64(r.Uint64() % uint64(n))
}
func (r *Rand) Bool() bool          { return r.Uint64()&1 == 1 }
func (r *Rand) Chance(pct int) bool { return r.Intn(100) < pct }
func (r *Rand) Bytes(n int) []byte {
	b := make([]byte, n)
	for i := range b {
		b[i] = byte(r.Uint64())
	}
	return b
}
func (r *Rand) Pick(n int) int { return r.Intn(n) }
func (r *Rand) Perm(n int) []int {
	p := make([]int, n)
	for i := range p {
		p[i] = i
	}
	for i := n - 1; i > 0; i-- {
		j := r.Intn(i + 1)
		p[i], p[j] = p[j], p[i]
	}
	return p
}

// Fork derives an independent stream (per case), so a single case can be regenerated alone.
func (r *Rand) Fork(i uint64) *Rand { return NewRand(r.s ^ (i+1)*0xd1342543de82ef95) }

// ---------------------------------------------------------------- environment

func Seed() uint64 {
	s, err := strconv.ParseUint(os.Getenv("VERIF_SEED"), 10, 64)
	if err != nil {
		return 1
	}
	return s
}
func Thorough() bool { return os.Getenv("VERIF_TIER") == "thorough" }

// Scale returns q in the quick tier and t in the thorough tier; VERIF_SCALE (percent) scales both.
func Scale(q, t int) int {
	n := q
	if Thorough() {
		n = t
	}
	if p, err := strconv.Atoi(os.Getenv("VERIF_SCALE")); err == nil && p > 0 {
		n = n * p / 100
		if n < 1 {
			n = 1
		}
	}
	return n
}
func OutDir() string {
	d := os.Getenv("VERIF_OUT")
	if d == "" {
		d = os.TempDir()
	}
	return d
}

// Only returns the single case id to run (replay), or -1.
func Only() int {
	n, err := strconv.Atoi(os.Getenv("VERIF_ONLY"))
	if err != nil {
		return -1
	}
	return n
}

// ---------------------------------------------------------------- Coq term printers

func Hx(b []byte) string { return `"` + hex.EncodeToString(b) + `"` }
func Z(n int64) string {
	if n < 0 {
		return "(" + strconv.FormatInt(n, 10) + ")%Z"
	}
	return strconv.FormatInt(n, 10) + "%Z"
}
func N(n uint64) string { return strconv.FormatUint(n, 10) + "%N" }
func Nat(n int) string  { return strconv.Itoa(n) + "%nat" }
func B(b bool) string {
	if b {
		return "true"
	}
	return "false"
}
func L(xs []string) string { return "[" + strings.Join(xs, "; ") + "]" }
func HxL(bs [][]byte) string {
	xs := make([]string, len(bs))
	for i, b := range bs {
		xs[i] = Hx(b)
	}
	return L(xs)
}
func ZL(ns []int64) string {
	xs := make([]string, len(ns))
	for i, n := range ns {
		xs[i] = Z(n)
	}
	return L(xs)
}
func Tup(xs ...string) string { return "(" + strings.Join(xs, ", ") + ")" }
func App(f string, xs ...string) string {
	return "(" + f + " " + strings.Join(xs, " ") + ")"
}
func Opt(present bool, x string) string {
	if present {
		return "(Some " + x + ")"
	}
	return "None"
}

// ---------------------------------------------------------------- cases file

// Cases collects the cases of one harness (one property, one Go package) and writes
//
//	<out>/<name>.v      the Coq file evaluated by bin/check
//	<out>/<name>.json   meta data for the evidence (counts, distribution, samples, replay info)
type Cases struct {
	Prop, Name, Module string // Module: Coq module providing [case] and [check], e.g. "TM.C10.Exec"
	CaseType           string
	CheckFn            string
	terms              []string
	ids                []int
	descr              map[int]string
	Dist               map[string]int
	nontrivial         map[string]bool
	Samples            []string
	Notes              []string
	next               int
}

func NewCases(prop, name, module string) *Cases {
	return &Cases{Prop: prop, Name: name, Module: module, CaseType: "case", CheckFn: "check",
		descr: map[int]string{}, Dist: map[string]int{}, nontrivial: map[string]bool{}}
}

// NextID reserves the id of the next case (ids are dense and deterministic for a seed/tier).
func (c *Cases) NextID() int { id := c.next; c.next++; return id }

// Want tells whether case id should be generated at all (replay mode runs only one).
func (c *Cases) Want(id int) bool { o := Only(); return o < 0 || o == id }

// Add records a case: its Coq term, a kind (for the distribution), whether it is non-trivial by
// the harness's rule, and a human-readable description used in replay files.
func (c *Cases) Add(id int, kind string, nontrivial bool, term, descr string) {
	c.ids = append(c.ids, id)
	c.terms = append(c.terms, term)
	c.descr[id] = descr
	c.Dist[kind]++
	if nontrivial {
		c.nontrivial[term] = true
	}
	if len(c.Samples) < 6 && (len(c.ids)%7 == 1) {
		s := kind + ": " + descr
		if len(s) > 600 {
			s = s[:600] + "…"
		}
		c.Samples = append(c.Samples, s)
	}
}

func (c *Cases) Count(kind string, n int) { c.Dist[kind] += n }

// ShardSize is the number of cases per Coq file; bin/check evaluates the files in parallel.
var ShardSize = 40

func (c *Cases) Write() error {
	dir := OutDir()
	if err := os.MkdirAll(dir, 0o755); err != nil {
		return err
	}
	old, _ := filepath.Glob(filepath.Join(dir, c.Name+"_*.v"))
	for _, f := range old {
		os.Remove(f)
	}
	nshards := 0
	for lo := 0; lo < len(c.terms) || lo == 0; lo += ShardSize {
		hi := lo + ShardSize
		if hi > len(c.terms) {
			hi = len(c.terms)
		}
		var sb strings.Builder
		sb.WriteString("(* written by the " + c.Prop + " harness (" + c.Name + "); evaluated by bin/check *)\n")
		sb.WriteString("From Coq Require Import List ZArith NArith String Bool.\n")
		sb.WriteString("From TM Require Import Common.Hex.\n")
		sb.WriteString("Require Import " + c.Module + ".\n")
		sb.WriteString("Import ListNotations.\nOpen Scope string_scope.\nOpen Scope Z_scope.\n")
		var el []string
		for k := lo; k < hi; k++ {
			sb.WriteString(fmt.Sprintf("Definition c%d : %s := %s.\n", c.ids[k], c.CaseType, c.terms[k]))
			el = append(el, fmt.Sprintf("(%d%%N, %s c%d)", c.ids[k], c.CheckFn, c.ids[k]))
		}
		sb.WriteString("Definition verif_results : list (N * N * N) := Eval vm_compute in report [" + strings.Join(el, "; ") + "].\n")
		sb.WriteString("Print verif_results.\n")
		fn := filepath.Join(dir, fmt.Sprintf("%s_%04d.v", c.Name, nshards))
		if err := os.WriteFile(fn, []byte(sb.String()), 0o644); err != nil {
			return err
		}
		nshards++
		if hi >= len(c.terms) {
			break
		}
	}
	kinds := make([]string, 0, len(c.Dist))
	for k := range c.Dist {
		kinds = append(kinds, k)
	}
	sort.Strings(kinds)
	meta := map[string]interface{}{
		"property": c.Prop, "name": c.Name, "seed": Seed(), "tier": os.Getenv("VERIF_TIER"),
		"cases": len(c.terms), "distinct_nontrivial": len(c.nontrivial), "shards": nshards,
		"distribution": c.Dist, "samples": c.Samples, "notes": c.Notes,
		"descr": c.descr,
	}
	js, _ := json.MarshalIndent(meta, "", " ")
	return os.WriteFile(filepath.Join(dir, c.Name+".json"), js, 0o644)
}
