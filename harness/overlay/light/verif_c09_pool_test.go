//go:build verif

package light_test

// C09: the evidence pool of a full node holding the honest chain of a scenario, for the client
// harness in package light (which cannot import the evidence package: it imports light).

import (
	"errors"
	"time"

	dbm "github.com/tendermint/tm-db"

	"github.com/tendermint/tendermint/evidence"
	"github.com/tendermint/tendermint/libs/log"
	"github.com/tendermint/tendermint/light"
	sm "github.com/tendermint/tendermint/state"
	"github.com/tendermint/tendermint/types"
)

type c09BlockStore struct {
	hs  []*types.SignedHeader
	top int64
}

func (b *c09BlockStore) LoadBlockMeta(h int64) *types.BlockMeta {
	if h < 1 || h > b.top {
		return nil
	}
	return &types.BlockMeta{BlockID: types.BlockID{Hash: b.hs[h].Hash()}, Header: *b.hs[h].Header}
}
func (b *c09BlockStore) LoadBlockCommit(h int64) *types.Commit {
	if h < 1 || h > b.top {
		return nil
	}
	return b.hs[h].Commit
}
func (b *c09BlockStore) Height() int64 { return b.top }

// only Load and LoadValidators are used by the pool
type c09StateStore struct {
	sm.Store
	st sm.State
	vs []*types.ValidatorSet
}

func (s *c09StateStore) Load() (sm.State, error) { return s.st, nil }
func (s *c09StateStore) LoadValidators(h int64) (*types.ValidatorSet, error) {
	if h < 1 || int(h) >= len(s.vs) || s.vs[h] == nil {
		return nil, errors.New("no validators at that height")
	}
	return s.vs[h], nil
}

func init() {
	light.C09PoolAdd = func(chainID string, hs []*types.SignedHeader, vs []*types.ValidatorSet, top int64,
		lastTime time.Time, ev *types.LightClientAttackEvidence) error {
		st := sm.State{ChainID: chainID, LastBlockHeight: top, LastBlockTime: lastTime,
			ConsensusParams: *types.DefaultConsensusParams()}
		pool, err := evidence.NewPool(dbm.NewMemDB(), &c09StateStore{st: st, vs: vs}, &c09BlockStore{hs: hs, top: top})
		if err != nil {
			return err
		}
		pool.SetLogger(log.NewNopLogger())
		return pool.AddEvidence(ev)
	}
}
