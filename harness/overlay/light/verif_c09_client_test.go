//go:build verif

package light

// C09 correspondence harness for the light client — injected with `go test -overlay`.
// One case = one scenario: a generated chain (validator churn, genuine commits) plus forged and
// malformed blocks, a set of scripted providers (primary + witnesses), a forced arrival order of
// the witness goroutines, a real Client created with NewClient over a memdb store, and a list of
// VerifyLightBlockAtHeight / Update calls.  After NewClient and after every call the error
// class, the store, the providers, the evidence reported and the requests answered are recorded.

import (
	"bytes"
	"context"
	"errors"
	"fmt"
	"os"
	"runtime"
	"sort"
	"strconv"
	"strings"
	"sync"
	"testing"
	"time"

	dbm "github.com/tendermint/tm-db"

	"github.com/tendermint/tendermint/crypto"
	"github.com/tendermint/tendermint/crypto/ed25519"
	"github.com/tendermint/tendermint/crypto/tmhash"
	vg "github.com/tendermint/tendermint/internal/verifgen"
	tmmath "github.com/tendermint/tendermint/libs/math"
	"github.com/tendermint/tendermint/light/provider"
	lstore "github.com/tendermint/tendermint/light/store"
	dbs "github.com/tendermint/tendermint/light/store/db"
	tmproto "github.com/tendermint/tendermint/proto/tendermint/types"
	tmversion "github.com/tendermint/tendermint/proto/tendermint/version"
	"github.com/tendermint/tendermint/types"
	"github.com/tendermint/tendermint/version"
)

const (
	c09ChainID    = "c09-chain"
	c09OtherChain = "c09-other"
	c09MaxBlocks  = 44
)

var (
	c09Base    = time.Date(2022, 5, 1, 0, 0, 0, 0, time.UTC)
	c09SigTime = c09Base.Add(-time.Hour) // the timestamp of every vote / CommitSig
	c09PSH     = types.PartSetHeader{Total: 1, Hash: tmhash.Sum([]byte("c09-psh-1"))}
	c09PSH2    = types.PartSetHeader{Total: 1, Hash: tmhash.Sum([]byte("c09-psh-2"))}
)

func c09H(s string) []byte { return tmhash.Sum([]byte("c09-" + s)) }

// ---------------------------------------------------------------- keys

type c09Key struct {
	priv crypto.PrivKey
	pub  crypto.PubKey
	addr []byte
}

var (
	c09KeyCache []*c09Key
	c09AddrIdx  = map[string]int{}
	c09KeyMu    sync.Mutex
)

func c09KeyAt(i int) *c09Key {
	c09KeyMu.Lock()
	defer c09KeyMu.Unlock()
	for len(c09KeyCache) <= i {
		n := len(c09KeyCache)
		priv := ed25519.GenPrivKeyFromSecret([]byte(fmt.Sprintf("verif-c09-key-%d", n)))
		k := &c09Key{priv: priv, pub: priv.PubKey(), addr: priv.PubKey().Address()}
		c09KeyCache = append(c09KeyCache, k)
		c09AddrIdx[string(k.addr)] = n
	}
	return c09KeyCache[i]
}

func c09Sign(k *c09Key, chain string, h int64, r int32, bid types.BlockID) []byte {
	v := &tmproto.Vote{Type: tmproto.PrecommitType, Height: h, Round: r, BlockID: bid.ToProto(), Timestamp: c09SigTime}
	sig, err := k.priv.Sign(types.VoteSignBytes(chain, v))
	if err != nil {
		panic(err)
	}
	return sig
}

// ---------------------------------------------------------------- scenario data

type c09VS struct {
	vs   *types.ValidatorSet
	keys []int // key index per position of vs.Validators
	pows []int64
	idx  int
	hash []byte
}

func (v *c09VS) total() int64 {
	var t int64
	for _, p := range v.pows {
		t += p
	}
	return t
}

type c09Slot struct {
	flag, addr int64
	sd         string
	txt        string
}

type c09Blk struct {
	idx   int
	kind  string
	lb    *types.LightBlock
	vs    *c09VS // the delivered set
	slots []c09Slot
}

// slot modes
const (
	c09Absent = iota
	c09Good
	c09Nil
	c09Garbage
	c09OtherBid    // signed by the validator over another block id
	c09OtherKey    // address and signature of a key that is not at this position
	c09WrongSigner // address of the validator, signature by another key
)

type c09Mode struct {
	k   int
	bid types.BlockID
	key int
}

type c09Spec struct {
	kind    string
	chain   string
	height  int64
	t       time.Time
	last    types.BlockID
	vs      *c09VS
	nvh     []byte
	app     []byte
	data    []byte
	ver     uint64
	hdr     *types.Header // use this header as it is
	cH      int64         // commit height (0: the header's)
	cR      int32
	cBid    *types.BlockID
	modes   []c09Mode
	deliver *c09VS
	drop    bool // drop the last commit slot
}

type c09Reply struct {
	blk  int // >= 0: index into the block table
	code int // error code when blk < 0
}

func c09B(i int) c09Reply { return c09Reply{blk: i} }
func c09E(c int) c09Reply { return c09Reply{blk: -1, code: c} }

type c09LogEnt struct {
	p, h, r int64
}

type c09Op struct {
	update bool
	h      int64
	now    time.Time
}

type c09Scn struct {
	r *vg.Rand

	// parameters
	sequential bool
	num, den   uint64
	drift      time.Duration
	period     time.Duration
	prune      uint16

	// chain
	n       int64
	nextKey int
	valsets []*c09VS
	vsBy    map[string]int
	unkVS   map[string]int64
	blocks  []*c09Blk
	gen     []int       // genuine block index by height (1..n)
	gspec   []c09Spec   // genuine spec by height
	vals    []*c09VS    // by height 1..n+1
	times   []time.Time // by height 1..n
	fork    map[int64]int
	forkA   int64
	forkB   int64
	forkTop int64
	forkTxt string
	muts    map[string]int
	mutAt   map[int64][]int

	hashID  map[string]int64
	smallID map[string]int64
	chainNo map[string]int64

	// run
	root          int64
	rootHash      []byte
	nowMain       time.Time
	ops           []c09Op
	provs         []*c09Provider
	order         []int64
	sched         *c09Sched
	mu            sync.Mutex
	log           []c09LogEnt
	evs           []c09EvEnt
	notes         []string
	cs            *vg.Cases            // for counters raised while a call is observed
	trustedBefore []int64              // heights in the store when the current call began
	forceChurn    map[int64]int        // height -> 1: a power changes there, 2: a validator is replaced there
	valPlan       func(h int64) *c09VS // the validator set of every height, when the scenario fixes them
	forkKind      string               // "", "lunatic", "equivocation", "amnesia"
	forkDT        time.Duration
}

// one reported evidence as the implementation filled it
type c09EvEnt struct {
	p, h, r int64 // receiver, hash id of ConflictingBlock, CommonHeight
	ev      *types.LightClientAttackEvidence
}

// C09PoolAdd is set by verif_c09_pool_test.go (package light_test, which may import the evidence
// package): AddEvidence of a real evidence.Pool over the chain headers[1..top] / vals[1..top]
// whose state is at height top.
var C09PoolAdd func(chainID string, headers []*types.SignedHeader, vals []*types.ValidatorSet, top int64,
	lastTime time.Time, ev *types.LightClientAttackEvidence) error

func c09NewScn(r *vg.Rand) *c09Scn {
	return &c09Scn{r: r, vsBy: map[string]int{}, unkVS: map[string]int64{}, fork: map[int64]int{},
		muts: map[string]int{}, mutAt: map[int64][]int{}, hashID: map[string]int64{}, smallID: map[string]int64{},
		chainNo: map[string]int64{c09ChainID: 1}, num: 1, den: 3, period: 1000 * time.Hour}
}

func (sc *c09Scn) hid(h []byte) int64 {
	sc.mu.Lock()
	defer sc.mu.Unlock()
	if id, ok := sc.hashID[string(h)]; ok {
		return id
	}
	id := int64(len(sc.hashID) + 1)
	sc.hashID[string(h)] = id
	return id
}

func (sc *c09Scn) hid0(h []byte) int64 {
	if len(h) == 0 {
		return 0
	}
	return sc.hid(h)
}

func (sc *c09Scn) pshNo(p types.PartSetHeader) int64 {
	switch {
	case p.Equals(c09PSH):
		return 1
	case p.Equals(c09PSH2):
		return 2
	case p.IsZero():
		return 3
	}
	return 4
}

func (sc *c09Scn) bidEnc(b types.BlockID) int64 {
	if b.IsZero() {
		return 0
	}
	return 1024*sc.hid0(b.Hash) + sc.pshNo(b.PartSetHeader)
}

func (sc *c09Scn) small(b []byte) int64 {
	if id, ok := sc.smallID[string(b)]; ok {
		return id
	}
	id := int64(len(sc.smallID) + 1)
	sc.smallID[string(b)] = id
	return id
}

func (sc *c09Scn) chain(s string) int64 {
	if id, ok := sc.chainNo[s]; ok {
		return id
	}
	id := int64(len(sc.chainNo) + 1)
	sc.chainNo[s] = id
	return id
}

func (sc *c09Scn) vsNo(h []byte) int64 {
	if i, ok := sc.vsBy[string(h)]; ok {
		return int64(i)
	}
	if k, ok := sc.unkVS[string(h)]; ok {
		return k
	}
	k := int64(1000 + len(sc.unkVS))
	sc.unkVS[string(h)] = k
	return k
}

func (sc *c09Scn) tz(t time.Time) int64 { return t.UnixNano() - c09Base.UnixNano() }

func (sc *c09Scn) freshKey() int { k := sc.nextKey; sc.nextKey++; return k }

func (sc *c09Scn) mkVS(keys []int, pows []int64) *c09VS {
	vals := make([]*types.Validator, len(keys))
	for i := range keys {
		vals[i] = types.NewValidator(c09KeyAt(keys[i]).pub, pows[i])
	}
	vs := types.NewValidatorSet(vals)
	h := vs.Hash()
	if i, ok := sc.vsBy[string(h)]; ok {
		return sc.valsets[i]
	}
	out := &c09VS{vs: vs, hash: h, idx: len(sc.valsets)}
	for _, v := range vs.Validators {
		out.keys = append(out.keys, c09AddrIdx[string(v.Address)])
		out.pows = append(out.pows, v.VotingPower)
	}
	sc.valsets = append(sc.valsets, out)
	sc.vsBy[string(h)] = out.idx
	return out
}

func (sc *c09Scn) freshVS(n int) *c09VS {
	var keys []int
	var pows []int64
	for i := 0; i < n; i++ {
		keys = append(keys, sc.freshKey())
		pows = append(pows, int64(1+sc.r.Intn(10)))
	}
	return sc.mkVS(keys, pows)
}

// ---------------------------------------------------------------- blocks

func (sc *c09Scn) allGood(n int) []c09Mode {
	m := make([]c09Mode, n)
	for i := range m {
		m[i].k = c09Good
	}
	return m
}

// signers: a random minimal subset with more than 2/3 of the power signs; the others are absent
// or vote nil.
func (sc *c09Scn) minimalModes(vs *c09VS) []c09Mode {
	n := len(vs.keys)
	m := make([]c09Mode, n)
	for i := range m {
		if sc.r.Bool() {
			m[i].k = c09Absent
		} else {
			m[i].k = c09Nil
		}
	}
	var got int64
	tot := vs.total()
	for _, i := range sc.r.Perm(n) {
		if got*3 > tot*2 {
			break
		}
		m[i].k = c09Good
		got += vs.pows[i]
	}
	return m
}

// the largest signer subset with power*3 <= total*2 (prefers equality)
func (sc *c09Scn) weakModes(vs *c09VS) []c09Mode {
	n := len(vs.keys)
	tot := vs.total()
	best, bestP := 0, int64(-1)
	for s := 0; s < 1<<uint(n); s++ {
		var p int64
		for i := 0; i < n; i++ {
			if s>>uint(i)&1 == 1 {
				p += vs.pows[i]
			}
		}
		if p*3 <= tot*2 && p > bestP {
			best, bestP = s, p
		}
	}
	m := make([]c09Mode, n)
	for i := range m {
		if best>>uint(i)&1 == 1 {
			m[i].k = c09Good
		} else if sc.r.Bool() {
			m[i].k = c09Nil
		}
	}
	return m
}

func (sc *c09Scn) sign(chain string, h int64, r int32, bid types.BlockID, vs *c09VS, modes []c09Mode) ([]types.CommitSig, []c09Slot) {
	sigs := make([]types.CommitSig, len(vs.keys))
	slots := make([]c09Slot, len(vs.keys))
	for i, k := range vs.keys {
		key := c09KeyAt(k)
		m := modes[i]
		kid := int64(k + 1)
		switch m.k {
		case c09Absent:
			sigs[i] = types.NewCommitSigAbsent()
			slots[i] = c09Slot{1, 0, "SG", "-"}
		case c09Good:
			sigs[i] = types.CommitSig{BlockIDFlag: types.BlockIDFlagCommit, ValidatorAddress: key.addr, Timestamp: c09SigTime,
				Signature: c09Sign(key, chain, h, r, bid)}
			slots[i] = c09Slot{2, kid, vg.App("SB", vg.Z(kid)), fmt.Sprintf("C:k%d", kid)}
		case c09Nil:
			sigs[i] = types.CommitSig{BlockIDFlag: types.BlockIDFlagNil, ValidatorAddress: key.addr, Timestamp: c09SigTime,
				Signature: c09Sign(key, chain, h, r, types.BlockID{})}
			slots[i] = c09Slot{3, kid, vg.App("SO", vg.Z(kid), vg.Z(0)), fmt.Sprintf("N:k%d", kid)}
		case c09Garbage:
			sigs[i] = types.CommitSig{BlockIDFlag: types.BlockIDFlagCommit, ValidatorAddress: key.addr, Timestamp: c09SigTime,
				Signature: sc.r.Bytes(64)}
			slots[i] = c09Slot{2, kid, "SG", fmt.Sprintf("C:k%d(garbage)", kid)}
		case c09OtherBid:
			sigs[i] = types.CommitSig{BlockIDFlag: types.BlockIDFlagCommit, ValidatorAddress: key.addr, Timestamp: c09SigTime,
				Signature: c09Sign(key, chain, h, r, m.bid)}
			slots[i] = c09Slot{2, kid, vg.App("SO", vg.Z(kid), vg.Z(sc.bidEnc(m.bid))), fmt.Sprintf("C:k%d(over bid %d)", kid, sc.bidEnc(m.bid))}
		case c09OtherKey:
			ok := c09KeyAt(m.key)
			oid := int64(m.key + 1)
			sigs[i] = types.CommitSig{BlockIDFlag: types.BlockIDFlagCommit, ValidatorAddress: ok.addr, Timestamp: c09SigTime,
				Signature: c09Sign(ok, chain, h, r, bid)}
			slots[i] = c09Slot{2, oid, vg.App("SB", vg.Z(oid)), fmt.Sprintf("C:k%d(not in set)", oid)}
		case c09WrongSigner:
			ok := c09KeyAt(m.key)
			oid := int64(m.key + 1)
			sigs[i] = types.CommitSig{BlockIDFlag: types.BlockIDFlagCommit, ValidatorAddress: key.addr, Timestamp: c09SigTime,
				Signature: c09Sign(ok, chain, h, r, bid)}
			slots[i] = c09Slot{2, kid, vg.App("SB", vg.Z(oid)), fmt.Sprintf("C:k%d(signed by k%d)", kid, oid)}
		}
	}
	return sigs, slots
}

func (sc *c09Scn) build(sp c09Spec) int {
	hdr := sp.hdr
	if hdr == nil {
		hdr = &types.Header{
			Version: tmversion.Consensus{Block: sp.ver}, ChainID: sp.chain, Height: sp.height, Time: sp.t,
			LastBlockID: sp.last, LastCommitHash: c09H("lastcommit"), DataHash: sp.data,
			ValidatorsHash: sp.vs.hash, NextValidatorsHash: sp.nvh, ConsensusHash: c09H("cons"),
			AppHash: sp.app, LastResultsHash: c09H("res"), EvidenceHash: c09H("ev"),
			ProposerAddress: sp.vs.vs.Validators[0].Address,
		}
	}
	bid := types.BlockID{Hash: hdr.Hash(), PartSetHeader: c09PSH}
	if sp.cBid != nil {
		bid = *sp.cBid
	}
	ch := sp.cH
	if ch == 0 {
		ch = hdr.Height
	}
	modes := sp.modes
	if modes == nil {
		modes = sc.allGood(len(sp.vs.keys))
	}
	sigs, slots := sc.sign(hdr.ChainID, ch, sp.cR, bid, sp.vs, modes)
	if sp.drop && len(sigs) > 1 {
		sigs, slots = sigs[:len(sigs)-1], slots[:len(slots)-1]
	}
	deliver := sp.deliver
	if deliver == nil {
		deliver = sp.vs
	}
	b := &c09Blk{idx: len(sc.blocks), kind: sp.kind, vs: deliver, slots: slots,
		lb: &types.LightBlock{SignedHeader: &types.SignedHeader{Header: hdr, Commit: types.NewCommit(ch, sp.cR, bid, sigs)},
			ValidatorSet: deliver.vs}}
	sc.blocks = append(sc.blocks, b)
	// hash ids in order of first appearance
	sc.hid(hdr.Hash())
	sc.hid0(hdr.LastBlockID.Hash)
	sc.hid0(bid.Hash)
	return b.idx
}

func (sc *c09Scn) blockTerm(b *c09Blk) string {
	h := b.lb.Header
	hc := *h
	if hc.Height <= 0 {
		hc.Height = 1
	}
	ht := vg.Tup(vg.Z(sc.chain(h.ChainID)), vg.Z(h.Height), vg.Z(sc.tz(h.Time)), vg.Z(sc.hid0(h.LastBlockID.Hash)),
		vg.Z(sc.vsNo(h.ValidatorsHash)), vg.Z(sc.vsNo(h.NextValidatorsHash)), vg.Z(sc.small(h.ConsensusHash)),
		vg.Z(sc.small(h.AppHash)), vg.Z(sc.small(h.LastResultsHash)), vg.B(hc.ValidateBasic() == nil), vg.Z(sc.hid(h.Hash())))
	c := b.lb.Commit
	sl := make([]string, len(b.slots))
	for i, s := range b.slots {
		sl[i] = vg.Tup(vg.Z(s.flag), vg.Z(s.addr), s.sd)
	}
	ct := vg.Tup(vg.Z(c.Height), vg.Z(int64(c.Round)), vg.Z(sc.bidEnc(c.BlockID)), vg.L(sl))
	return vg.Tup(ht, ct, vg.Nat(b.vs.idx), vg.B(b.lb.ValidatorSet.ValidateBasic() == nil))
}

func (sc *c09Scn) blockTxt(b *c09Blk) string {
	h := b.lb.Header
	var sl []string
	for _, s := range b.slots {
		sl = append(sl, s.txt)
	}
	c := b.lb.Commit
	extra := ""
	if c.Height != h.Height || c.Round != 0 || !bytes.Equal(c.BlockID.Hash, h.Hash()) {
		extra = fmt.Sprintf(" commit(h=%d r=%d bid=%d)", c.Height, c.Round, sc.bidEnc(c.BlockID))
	}
	if h.ChainID != c09ChainID {
		extra += " chain=" + h.ChainID
	}
	return fmt.Sprintf("B%d h=%d %s hash=%X(id %d) t=%+ds last=%d vals=#%d next=#%d app=%d deliver=#%d slots=[%s]%s",
		b.idx, h.Height, b.kind, []byte(h.Hash())[:4], sc.hid(h.Hash()), sc.tz(h.Time)/1e9, sc.hid0(h.LastBlockID.Hash),
		sc.vsNo(h.ValidatorsHash), sc.vsNo(h.NextValidatorsHash), sc.small(h.AppHash), b.vs.idx, strings.Join(sl, " "), extra)
}

// ---------------------------------------------------------------- chain generator

func (sc *c09Scn) churn(cur *c09VS) *c09VS {
	r := sc.r
	keys := append([]int{}, cur.keys...)
	pows := append([]int64{}, cur.pows...)
	if r.Chance(12) {
		// big churn: keep the weakest validator, replace the rest
		wi := 0
		for i := range pows {
			if pows[i] < pows[wi] {
				wi = i
			}
		}
		nk := []int{keys[wi]}
		np := []int64{1}
		for i := 0; i < 2+r.Intn(3); i++ {
			nk = append(nk, sc.freshKey())
			np = append(np, int64(4+r.Intn(7)))
		}
		return sc.mkVS(nk, np)
	}
	for c := 0; c < 1+r.Intn(2); c++ {
		switch r.Intn(4) {
		case 0:
			if len(keys) < 6 {
				keys = append(keys, sc.freshKey())
				pows = append(pows, int64(1+r.Intn(10)))
			}
		case 1:
			if len(keys) > 3 {
				i := r.Intn(len(keys))
				keys = append(keys[:i], keys[i+1:]...)
				pows = append(pows[:i], pows[i+1:]...)
			}
		case 2:
			i := r.Intn(len(keys))
			keys[i] = sc.freshKey()
		case 3:
			i := r.Intn(len(keys))
			pows[i] = int64(1 + r.Intn(10))
		}
	}
	return sc.mkVS(keys, pows)
}

func (sc *c09Scn) genChain(n int64) { sc.genChainP(n, nil) }

// genChainP: with fixed != nil every height has the same set with these powers, fully signed
func (sc *c09Scn) genChainP(n int64, fixed []int64) {
	r := sc.r
	sc.n = n
	nv := 3 + r.Intn(4)
	if fixed != nil {
		nv = len(fixed)
	}
	var keys []int
	var pows []int64
	for i := 0; i < nv; i++ {
		keys = append(keys, sc.freshKey())
		pows = append(pows, int64(1+r.Intn(10)))
	}
	if pows[0] == pows[1] {
		pows[0] = pows[1]%10 + 1
	}
	if fixed != nil {
		pows = fixed
	}
	sc.vals = make([]*c09VS, n+2)
	sc.vals[1] = sc.mkVS(keys, pows)
	if sc.valPlan != nil {
		sc.vals[1] = sc.valPlan(1)
	}
	for h := int64(2); h <= n+1; h++ {
		if sc.valPlan != nil {
			sc.vals[h] = sc.valPlan(h)
		} else if k, ok := sc.forceChurn[h]; ok && fixed == nil {
			cur := sc.vals[h-1]
			keys := append([]int{}, cur.keys...)
			pows := append([]int64{}, cur.pows...)
			if k == 1 { // powers only
				pows[len(pows)-1] = pows[len(pows)-1]%10 + 1
			} else { // membership: the weakest validator is replaced
				wi := 0
				for i := range pows {
					if pows[i] < pows[wi] {
						wi = i
					}
				}
				keys[wi] = sc.freshKey()
			}
			sc.vals[h] = sc.mkVS(keys, pows)
		} else if fixed == nil && r.Chance(40) {
			sc.vals[h] = sc.churn(sc.vals[h-1])
		} else {
			sc.vals[h] = sc.vals[h-1]
		}
	}
	sc.times = make([]time.Time, n+1)
	t := c09Base
	sc.gen = make([]int, n+1)
	sc.gspec = make([]c09Spec, n+1)
	var last types.BlockID
	for h := int64(1); h <= n; h++ {
		t = t.Add(time.Duration(1+r.Intn(60)) * time.Second)
		sc.times[h] = t
		sp := c09Spec{kind: "genuine", chain: c09ChainID, height: h, t: t, last: last, vs: sc.vals[h], nvh: sc.vals[h+1].hash,
			app: c09H(fmt.Sprintf("app-%d", h%3)), data: c09H("data"), ver: version.BlockProtocol}
		if fixed != nil || sc.valPlan != nil || r.Chance(40) {
			sp.modes = sc.allGood(len(sp.vs.keys))
		} else {
			sp.modes = sc.minimalModes(sp.vs)
		}
		sc.gspec[h] = sp
		sc.gen[h] = sc.build(sp)
		last = types.BlockID{Hash: sc.blocks[sc.gen[h]].lb.Hash(), PartSetHeader: c09PSH}
	}
	sc.nowMain = sc.times[n].Add(time.Second)
}

func (sc *c09Scn) ghash(h int64) []byte { return sc.blocks[sc.gen[h]].lb.Hash() }

// coalition of validators of height a by trust-level class: 0 below, 1 exactly at, 2 above
func (sc *c09Scn) coalition(vs *c09VS, class int) []int {
	n := len(vs.keys)
	tot := vs.total()
	type cand struct {
		s int
		p int64
	}
	var below, at, above []cand
	for s := 0; s < 1<<uint(n); s++ {
		var p int64
		for i := 0; i < n; i++ {
			if s>>uint(i)&1 == 1 {
				p += vs.pows[i]
			}
		}
		needed := tot * int64(sc.num) / int64(sc.den)
		switch {
		case p > needed && (p-needed) <= 3:
			above = append(above, cand{s, p})
		case p == needed:
			at = append(at, cand{s, p})
		case p < needed:
			below = append(below, cand{s, p})
		}
	}
	var pick []cand
	switch class {
	case 0:
		pick = below
	case 1:
		pick = at
	default:
		pick = above
	}
	if len(pick) == 0 {
		pick = above
	}
	if len(pick) == 0 {
		pick = []cand{{1<<uint(n) - 1, tot}}
	}
	if class == 0 {
		// prefer the strongest ones
		sort.SliceStable(pick, func(i, j int) bool { return pick[i].p > pick[j].p })
		if len(pick) > 3 {
			pick = pick[:3]
		}
	}
	c := pick[sc.r.Intn(len(pick))]
	var out []int
	for i := 0; i < n; i++ {
		if c.s>>uint(i)&1 == 1 {
			out = append(out, i)
		}
	}
	return out
}

func (sc *c09Scn) makeFork(a, b int64, lunatic bool, class int, link bool) {
	sc.forkA, sc.forkB, sc.forkTop = a, b, sc.n
	var fvs *c09VS
	if lunatic {
		co := sc.coalition(sc.vals[a], class)
		var keys []int
		var pows []int64
		for _, i := range co {
			if len(keys) < 5 {
				keys = append(keys, sc.vals[a].keys[i])
				pows = append(pows, sc.vals[a].pows[i])
			}
		}
		nf := 1
		if len(keys) == 0 {
			nf = 3
		}
		for i := 0; i < nf; i++ {
			keys = append(keys, sc.freshKey())
			pows = append(pows, int64(1+sc.r.Intn(4)))
		}
		fvs = sc.mkVS(keys, pows)
		sc.forkTxt = fmt.Sprintf("lunatic fork from common height %d at %d..%d, coalition class %d (positions %v of set #%d), fork set #%d",
			a, b, sc.n, class, co, sc.vals[a].idx, fvs.idx)
	} else {
		sc.forkTxt = fmt.Sprintf("equivocation fork (other DataHash, genuine sets) at %d..%d", b, sc.n)
		if sc.forkKind == "amnesia" {
			sc.forkTxt = fmt.Sprintf("amnesia fork (other DataHash, genuine sets, commits of round 1) at %d..%d", b, sc.n)
		}
	}
	if sc.forkDT != 0 {
		sc.forkTxt += fmt.Sprintf(", header times shifted by %dns against the genuine ones", int64(sc.forkDT))
	}
	var last types.BlockID
	if b > 1 {
		last = types.BlockID{Hash: sc.ghash(b - 1), PartSetHeader: c09PSH}
		if !link {
			last = types.BlockID{Hash: c09H("nowhere"), PartSetHeader: c09PSH}
		}
	}
	for h := b; h <= sc.n; h++ {
		sp := sc.gspec[h]
		sp.modes = nil
		sp.last = last
		sp.data = c09H("fork-data")
		if lunatic {
			sp.kind = "fork-lunatic"
			sp.vs = fvs
			sp.nvh = fvs.hash
			sp.app = c09H("fork-app")
		} else {
			sp.kind = "fork-equivocation"
			if sc.forkKind == "amnesia" {
				sp.kind = "fork-amnesia"
				sp.cR = 1 // the same validators committed the other block in another round
			}
		}
		sp.t = sp.t.Add(sc.forkDT) // |forkDT| < 1s: still between the neighbours' times
		sc.fork[h] = sc.build(sp)
		last = types.BlockID{Hash: sc.blocks[sc.fork[h]].lb.Hash(), PartSetHeader: c09PSH}
	}
}

// mutant kinds
var (
	c09VBFail     = []string{"wrong-chain", "commit-height", "commit-bid", "vals-swap", "fmt-bad", "round-neg"}
	c09VerifyFail = []string{"time-old", "time-future", "time-future-edge", "weak-commit", "garbage-sig", "sig-other-bid",
		"sig-other-key", "wrong-signer", "nextvals", "size-drop", "bid-psh", "double-vote"}
	c09Consistent = []string{"forged-self", "equivocation", "forged-sameset", "time-late"}
)

// doubleVote turns sp into a forged block whose validator set is {x: 10, fresh key: 1} and whose
// commit carries x's precommit in slot 0 and once more, under x's address, in slot 1
func (sc *c09Scn) doubleVote(sp *c09Spec, x int) {
	f := sc.mkVS([]int{x, sc.freshKey()}, []int64{10, 1})
	sp.vs, sp.nvh, sp.app, sp.hdr = f, f.hash, c09H("forged-app"), nil
	sp.modes = make([]c09Mode, len(f.keys))
	for i, k := range f.keys {
		if k == x {
			sp.modes[i] = c09Mode{k: c09Good}
		} else {
			sp.modes[i] = c09Mode{k: c09OtherKey, key: x}
		}
	}
}

func (sc *c09Scn) pickKind(cat int) string {
	var l []string
	switch cat {
	case 0:
		l = c09VBFail
	case 1:
		l = c09VerifyFail
	case 2:
		l = c09Consistent
	default:
		l = append(append(append([]string{}, c09VBFail...), c09VerifyFail...), c09Consistent...)
	}
	return l[sc.r.Intn(len(l))]
}

// mutant returns the table index of a block of the given kind at height h (1..n), made on demand
func (sc *c09Scn) mutant(h int64, kind string) int {
	if h < 1 || h > sc.n {
		h = 1 + sc.r.Int63n(sc.n)
	}
	key := fmt.Sprintf("%d/%s", h, kind)
	if i, ok := sc.muts[key]; ok {
		return i
	}
	if len(sc.blocks) >= c09MaxBlocks {
		if l := sc.mutAt[h]; len(l) > 0 {
			return l[sc.r.Intn(len(l))]
		}
		if i, ok := sc.fork[h]; ok {
			return i
		}
		return sc.gen[h]
	}
	sp := sc.gspec[h]
	sp.kind = kind
	g := sc.blocks[sc.gen[h]]
	firstSigner := 0
	for i, m := range sc.gspec[h].modes {
		if m.k == c09Good {
			firstSigner = i
			break
		}
	}
	keepHdr := func() {
		sp.hdr = g.lb.Header
		sp.modes = append([]c09Mode{}, sc.gspec[h].modes...)
	}
	switch kind {
	case "wrong-chain":
		sp.chain = c09OtherChain
		sp.modes = nil
	case "commit-height":
		keepHdr()
		sp.cH = h + 1
	case "commit-bid":
		keepHdr()
		oh := c09H("other-block")
		if i, ok := sc.fork[h]; ok && sc.r.Bool() {
			oh = sc.blocks[i].lb.Hash()
		}
		sp.cBid = &types.BlockID{Hash: oh, PartSetHeader: c09PSH}
	case "bid-psh":
		// the commit is for the right hash but another part set header: passes ValidateBasic,
		// the own-set check compares the whole BlockID with the commit's own (equal) — valid block
		keepHdr()
		sp.cBid = &types.BlockID{Hash: g.lb.Hash(), PartSetHeader: c09PSH2}
	case "vals-swap":
		keepHdr()
		if sc.vals[h+1] != sc.vals[h] {
			sp.deliver = sc.vals[h+1]
		} else {
			sp.deliver = sc.freshVS(len(sp.vs.keys))
		}
	case "fmt-bad":
		sp.ver = version.BlockProtocol + 1
		sp.modes = nil
	case "round-neg":
		keepHdr()
		sp.cR = -1
	case "time-old":
		ref := sc.root
		if ref >= h {
			ref = h - 1
		}
		if ref >= 1 {
			sp.t = sc.times[ref]
			if sc.r.Bool() {
				sp.t = sp.t.Add(-time.Second)
			}
		} else {
			sp.t = sc.times[1].Add(-time.Second)
		}
		sp.modes = nil
	case "time-late":
		sp.t = sc.times[sc.n]
		if sc.r.Bool() {
			sp.t = sc.times[sc.pickHeight("target")]
		}
		sp.modes = nil
	case "time-future":
		sp.t = sc.nowMain.Add(5 * time.Second)
		sp.modes = nil
	case "time-future-edge":
		sp.t = sc.nowMain.Add(sc.drift)
		if sc.r.Bool() {
			sp.t = sp.t.Add(-time.Nanosecond)
		}
		sp.modes = nil
	case "weak-commit":
		keepHdr()
		sp.modes = sc.weakModes(sp.vs)
	case "garbage-sig":
		keepHdr()
		sp.modes[firstSigner].k = c09Garbage
	case "sig-other-bid":
		keepHdr()
		sp.modes[firstSigner] = c09Mode{k: c09OtherBid, bid: types.BlockID{Hash: c09H("other-block"), PartSetHeader: c09PSH}}
		if sc.r.Bool() {
			sp.modes[firstSigner].bid = types.BlockID{Hash: g.lb.Hash(), PartSetHeader: c09PSH2}
		}
	case "sig-other-key":
		keepHdr()
		sp.modes[firstSigner] = c09Mode{k: c09OtherKey, key: sc.freshKey()}
	case "wrong-signer":
		keepHdr()
		sp.modes[firstSigner] = c09Mode{k: c09WrongSigner, key: sc.freshKey()}
	case "double-vote":
		tv := sc.vals[sc.root]
		if sc.r.Bool() {
			tv = sc.vals[h]
		}
		sc.doubleVote(&sp, tv.keys[sc.r.Intn(len(tv.keys))])
	case "nextvals":
		if sc.vals[h] != sc.vals[h+1] {
			sp.nvh = sc.vals[h].hash
		} else {
			sp.nvh = c09H("unknown-valset")
		}
		sp.modes = nil
	case "size-drop":
		keepHdr()
		sp.drop = true
	case "forged-self":
		f := sc.freshVS(3 + sc.r.Intn(2))
		sp.vs = f
		sp.nvh = f.hash
		sp.app = c09H("forged-app")
		sp.modes = nil
	case "forged-sameset":
		sp.app = c09H("forged-app")
		sp.modes = nil
	case "equivocation":
		sp.data = c09H("data-2")
		sp.modes = nil
	}
	i := sc.build(sp)
	sc.muts[key] = i
	sc.mutAt[h] = append(sc.mutAt[h], i)
	return i
}

// ---------------------------------------------------------------- providers

type c09Provider struct {
	id         int64
	sc         *c09Scn
	validating bool
	kind       string
	script     map[int64][]c09Reply
	script0    map[int64][]c09Reply // the script as it was when the run began
}

func (p *c09Provider) ChainID() string { return c09ChainID }
func (p *c09Provider) String() string  { return fmt.Sprintf("p%d", p.id) }

func c09Err(code int) error {
	switch code {
	case 0:
		return provider.ErrNoResponse
	case 1:
		return provider.ErrLightBlockNotFound
	case 2:
		return provider.ErrHeightTooHigh
	case 3:
		return provider.ErrBadLightBlock{Reason: errors.New("scripted bad light block")}
	}
	return context.Canceled
}

func (p *c09Provider) LightBlock(ctx context.Context, h int64) (*types.LightBlock, error) {
	sc := p.sc
	sc.sched.gate(p.id)
	sc.mu.Lock()
	rs, ok := p.script[h]
	var rep c09Reply
	if !ok || len(rs) == 0 {
		rep = c09E(1)
	} else {
		rep = rs[0]
		if len(rs) > 1 {
			p.script[h] = rs[1:]
		}
	}
	sc.mu.Unlock()
	var lb *types.LightBlock
	if rep.blk >= 0 {
		lb = sc.blocks[rep.blk].lb
		if p.validating {
			if err := lb.ValidateBasic(c09ChainID); err != nil || (h != 0 && lb.Height != h) {
				rep = c09E(3)
			}
		}
	}
	var r int64
	if rep.blk >= 0 {
		r = sc.hid(lb.Hash())
	} else {
		r = -1 - int64(rep.code)
	}
	sc.mu.Lock()
	sc.log = append(sc.log, c09LogEnt{p.id, h, r})
	sc.mu.Unlock()
	if rep.blk >= 0 {
		return lb, nil
	}
	return nil, c09Err(rep.code)
}

func (p *c09Provider) ReportEvidence(ctx context.Context, ev types.Evidence) error {
	sc := p.sc
	e := c09EvEnt{p: p.id, h: -1, r: -1}
	if lc, ok := ev.(*types.LightClientAttackEvidence); ok && lc.ConflictingBlock != nil {
		e.h = sc.hid(lc.ConflictingBlock.Hash())
		e.r = lc.CommonHeight
		e.ev = lc
	}
	sc.mu.Lock()
	sc.evs = append(sc.evs, e)
	sc.mu.Unlock()
	return nil
}

func (sc *c09Scn) honestScript() map[int64][]c09Reply {
	s := map[int64][]c09Reply{}
	for h := int64(1); h <= sc.n; h++ {
		s[h] = []c09Reply{c09B(sc.gen[h])}
	}
	s[0] = []c09Reply{c09B(sc.gen[sc.n])}
	return s
}

// heights of interest: the targets of the calls, the root, anything
func (sc *c09Scn) pickHeight(where string) int64 {
	r := sc.r
	var targets []int64
	for _, o := range sc.ops {
		if !o.update && o.h >= 1 && o.h <= sc.n {
			targets = append(targets, o.h)
		} else if o.update {
			targets = append(targets, sc.n)
		}
	}
	switch where {
	case "target":
		if len(targets) > 0 {
			return targets[r.Intn(len(targets))]
		}
	case "inter":
		// a height that is not a target
		for try := 0; try < 8; try++ {
			h := 1 + r.Int63n(sc.n)
			isT := false
			for _, t := range targets {
				if t == h {
					isT = true
				}
			}
			if !isT && h != sc.root {
				return h
			}
		}
	case "mixed":
		x := r.Intn(100)
		if x < 55 && len(targets) > 0 {
			return targets[r.Intn(len(targets))]
		}
		if x < 60 {
			return sc.root
		}
	}
	return 1 + r.Int63n(sc.n)
}

func (sc *c09Scn) altBlock(h int64, cat int) int {
	if i, ok := sc.fork[h]; ok && sc.r.Chance(50) {
		return i
	}
	return sc.mutant(h, sc.pickKind(cat))
}

func (sc *c09Scn) behave(p *c09Provider, beh string, where string) {
	r := sc.r
	s := sc.honestScript()
	p.kind = beh
	switch beh {
	case "honest":
	case "lagging":
		top := 1 + r.Int63n(sc.n-1)
		catch := r.Chance(45)
		for h := top + 1; h <= sc.n; h++ {
			if catch && r.Bool() {
				s[h] = []c09Reply{c09E(2), c09B(sc.gen[h])}
			} else {
				s[h] = []c09Reply{c09E(2)}
			}
		}
		s[0] = []c09Reply{c09B(sc.gen[top])}
		if catch {
			switch r.Intn(3) {
			case 0:
				s[0] = append(s[0], c09B(sc.gen[sc.n]))
			case 1:
				s[0] = append(s[0], c09B(sc.gen[top+r.Int63n(sc.n-top)+0]))
			}
		}
		p.kind = fmt.Sprintf("lagging(top %d)", top)
		if r.Chance(25) {
			// its latest block carries a time that is not before the target's time
			m := sc.mutant(top, "time-late")
			s[top] = []c09Reply{c09B(m)}
			s[0] = []c09Reply{c09B(m)}
			if r.Chance(30) {
				s[0] = []c09Reply{c09B(sc.gen[top]), c09B(m)}
			}
			p.kind = fmt.Sprintf("lagging(top %d, late time)", top)
		}
	case "dead":
		for h := int64(0); h <= sc.n+1; h++ {
			s[h] = []c09Reply{c09E(0)}
		}
	case "forgetful":
		for h := int64(1); h <= sc.n; h++ {
			if r.Chance(30) {
				switch r.Intn(3) {
				case 0:
					delete(s, h)
				case 1:
					s[h] = []c09Reply{c09E(1)}
				case 2:
					s[h] = []c09Reply{c09E(1), c09B(sc.gen[h])}
				}
			}
		}
		if r.Chance(15) {
			delete(s, 0)
		}
	case "liar":
		if len(sc.fork) == 0 {
			h := sc.pickHeight(where)
			s[h] = []c09Reply{c09B(sc.mutant(h, sc.pickKind(2)))}
			break
		}
		for h := sc.forkB; h <= sc.n; h++ {
			s[h] = []c09Reply{c09B(sc.fork[h])}
		}
		s[0] = []c09Reply{c09B(sc.fork[sc.n])}
	case "equivocator":
		for c := 0; c < 1+r.Intn(3); c++ {
			h := sc.pickHeight(where)
			alt := sc.altBlock(h, 2)
			switch r.Intn(3) {
			case 0:
				s[h] = []c09Reply{c09B(alt), c09B(sc.gen[h])}
			case 1:
				s[h] = []c09Reply{c09B(sc.gen[h]), c09B(alt)}
			case 2:
				s[h] = []c09Reply{c09B(sc.gen[h]), c09B(alt), c09B(sc.gen[h])}
			}
		}
		if r.Chance(20) && len(sc.fork) > 0 {
			s[0] = []c09Reply{c09B(sc.gen[sc.n]), c09B(sc.fork[sc.n])}
			if r.Bool() {
				s[0] = []c09Reply{c09B(sc.fork[sc.n]), c09B(sc.gen[sc.n])}
			}
		}
	case "bad":
		p.validating = r.Bool()
		for c := 0; c < 1+r.Intn(3); c++ {
			h := sc.pickHeight(where)
			s[h] = []c09Reply{c09B(sc.mutant(h, sc.pickKind(0)))}
			if r.Chance(30) {
				s[h] = append(s[h], c09B(sc.gen[h]))
			}
			if r.Chance(15) {
				s[0] = []c09Reply{c09B(sc.mutant(sc.n, sc.pickKind(0)))}
			}
		}
	case "forged":
		for c := 0; c < 1+r.Intn(2); c++ {
			h := sc.pickHeight(where)
			s[h] = []c09Reply{c09B(sc.altBlock(h, 3))}
			if r.Chance(20) {
				s[h] = append(s[h], c09B(sc.gen[h]))
			}
			if h == sc.n && r.Bool() {
				s[0] = s[h]
			}
		}
	case "invalid":
		for c := 0; c < 1+r.Intn(2); c++ {
			h := sc.pickHeight(where)
			s[h] = []c09Reply{c09B(sc.mutant(h, sc.pickKind(1)))}
			if r.Chance(20) {
				s[h] = append(s[h], c09B(sc.gen[h]))
			}
		}
	case "cancelled":
		for c := 0; c < 1+r.Intn(2); c++ {
			h := sc.pickHeight(where)
			s[h] = []c09Reply{c09E(4)}
			if r.Bool() {
				s[h] = append(s[h], c09B(sc.gen[h]))
			}
		}
		if r.Chance(15) {
			s[0] = []c09Reply{c09E(4), c09B(sc.gen[sc.n])}
		}
	case "flaky":
		for c := 0; c < 1+r.Intn(3); c++ {
			h := sc.pickHeight(where)
			s[h] = []c09Reply{c09E(r.Intn(4)), c09B(sc.gen[h])}
		}
		if r.Chance(20) {
			s[0] = []c09Reply{c09E(r.Intn(3)), c09B(sc.gen[sc.n])}
		}
	case "wrongheight":
		// answers with a block of another height
		p.validating = r.Bool()
		h := sc.pickHeight("target")
		o := 1 + r.Int63n(sc.n)
		if r.Bool() {
			o = sc.root // the trusted block itself
		}
		s[h] = []c09Reply{c09B(sc.gen[o])}
		p.kind = fmt.Sprintf("wrongheight(%d->%d)", h, o)
	}
	if beh != "bad" && beh != "wrongheight" {
		p.validating = r.Chance(50)
	}
	p.script = s
}

func (sc *c09Scn) provTerm(p *c09Provider) string {
	var hs []int64
	for h := range p.script {
		hs = append(hs, h)
	}
	sort.Slice(hs, func(i, j int) bool { return hs[i] < hs[j] })
	var ents []string
	for _, h := range hs {
		var rs []string
		for _, rp := range p.script[h] {
			if rp.blk >= 0 {
				rs = append(rs, vg.App("RB", vg.Nat(rp.blk)))
			} else {
				rs = append(rs, vg.App("RE", vg.N(uint64(rp.code))))
			}
		}
		ents = append(ents, vg.Tup(vg.Z(h), vg.L(rs)))
	}
	return vg.Tup(vg.Z(p.id), vg.B(p.validating), vg.L(ents))
}

func (sc *c09Scn) provTxt(p *c09Provider) string {
	var hs []int64
	for h := range p.script {
		hs = append(hs, h)
	}
	sort.Slice(hs, func(i, j int) bool { return hs[i] < hs[j] })
	var ents []string
	for _, h := range hs {
		var rs []string
		for _, rp := range p.script[h] {
			if rp.blk >= 0 {
				rs = append(rs, fmt.Sprintf("B%d", rp.blk))
			} else {
				rs = append(rs, fmt.Sprintf("E%d", rp.code))
			}
		}
		ents = append(ents, fmt.Sprintf("%d:%s", h, strings.Join(rs, ",")))
	}
	return fmt.Sprintf("p%d %s validating=%v {%s}", p.id, p.kind, p.validating, strings.Join(ents, " "))
}

// ---------------------------------------------------------------- scheduler

func c09Gid() uint64 {
	var buf [64]byte
	n := runtime.Stack(buf[:], false)
	f := strings.Fields(string(buf[:n]))
	if len(f) < 2 {
		return 0
	}
	g, _ := strconv.ParseUint(f[1], 10, 64)
	return g
}

func c09InRound() bool {
	var pcs [48]uintptr
	n := runtime.Callers(2, pcs[:])
	frames := runtime.CallersFrames(pcs[:n])
	for {
		f, more := frames.Next()
		if strings.Contains(f.Function, "compareNewHeaderWithWitness") || strings.Contains(f.Function, "findNewPrimary.func") {
			return true
		}
		if !more {
			break
		}
	}
	return false
}

var (
	c09StackBuf = make([]byte, 1<<18)
	c09StackMu  sync.Mutex
	c09Blocked  = map[uint64]bool{} // goroutines seen blocked in a channel send (guarded by c09StackMu)
)

// c09Alive reports which of the goroutines still exist and can still do something.  A goroutine
// blocked in a channel send (only possible on the unrepaired code, F2: a second message on a
// full errc) counts as finished: the send is its last statement, it makes no further request, and
// the channel's send queue is FIFO, so a goroutine released after it still delivers after it.
func c09Alive(gs []uint64) map[uint64]bool {
	c09StackMu.Lock()
	defer c09StackMu.Unlock()
	var dump []byte
	for {
		n := runtime.Stack(c09StackBuf, true)
		if n < len(c09StackBuf) {
			dump = c09StackBuf[:n]
			break
		}
		c09StackBuf = make([]byte, 2*len(c09StackBuf))
	}
	out := map[uint64]bool{}
	for _, g := range gs {
		pat := []byte(fmt.Sprintf("\ngoroutine %d [", g))
		i := bytes.Index(dump, pat)
		if i < 0 && bytes.HasPrefix(dump, pat[1:]) {
			i = 0
			pat = pat[1:]
		}
		if i < 0 {
			continue
		}
		if bytes.HasPrefix(dump[i+len(pat):], []byte("chan send")) {
			c09Blocked[g] = true
			continue
		}
		out[g] = true
	}
	return out
}

// One round = the witness goroutines of one detectDivergence / findNewPrimary /
// compareFirstHeaderWithWitnesses call.  A round is organised by witness SLOT (index in
// c.witnesses when the round starts), not by provider: the client can end up with the same
// provider object in several slots (findNewPrimary promotes a witness to primary before
// removeWitnesses refuses to empty the list, so the provider stays a witness too; a later
// findNewPrimary(remove=false) appends that primary once more), and then two goroutines of one
// round talk to the same provider.
type c09Arr struct {
	pid int64
	gid uint64
}

type c09Round struct {
	parts    []int64  // provider id per witness slot
	arrived  []c09Arr // goroutines that reached the gate
	released int
	order    []uint64 // schedule, fixed once every slot's goroutine has arrived
}

// schedule: the goroutine ids in the order in which they have to run (each to completion before
// the next starts): by rank of the provider, then by witness index — the order of
// C09.Model.arrival_order (a stable insertion sort of the indexed witness list by rank).
// Goroutines are matched to slots by provider; the goroutines of slots that hold the same
// provider are matched in the order in which they were created (= slot order: the client
// starts them in a `for i := range c.witnesses` loop), which is the order of their goroutine ids
// because the test runs with GOMAXPROCS(1) (ids come from the single P's cache, refilled from a
// global increasing counter).  The same assumption is CHECKED on every round with at least two
// slots: the ids of all goroutines, taken in slot order, must increase (anomalies are counted).
func (s *c09Sched) schedule(rd *c09Round) []uint64 {
	if rd.order != nil {
		return rd.order
	}
	type slot struct {
		idx int
		pid int64
		gid uint64
	}
	byPid := map[int64][]uint64{}
	for _, a := range rd.arrived {
		byPid[a.pid] = append(byPid[a.pid], a.gid)
	}
	for _, l := range byPid {
		sort.Slice(l, func(i, j int) bool { return l[i] < l[j] })
	}
	var slots []slot
	for i, q := range rd.parts {
		if l := byPid[q]; len(l) > 0 {
			slots = append(slots, slot{i, q, l[0]})
			byPid[q] = l[1:]
		}
	}
	for i := 1; i < len(slots) && len(rd.arrived) >= len(rd.parts); i++ {
		if slots[i].gid < slots[i-1].gid {
			s.anomalies++
			break
		}
	}
	sort.SliceStable(slots, func(i, j int) bool { return s.rank[slots[i].pid] < s.rank[slots[j].pid] })
	var out []uint64
	for _, sl := range slots {
		out = append(out, sl.gid)
	}
	if len(rd.arrived) >= len(rd.parts) {
		rd.order = out
	}
	return out
}

type c09Sched struct {
	mu        sync.Mutex
	client    *Client
	rank      map[int64]int
	round     *c09Round
	seen      map[uint64]bool
	pending   []uint64
	timeouts  int
	rounds    int
	dupRounds int // rounds in which one provider held several witness slots
	anomalies int // rounds in which goroutine ids did not increase with the slot index
}

const c09Wait = 10 * time.Second

func (s *c09Sched) gate(pid int64) {
	if !c09InRound() {
		return
	}
	g := c09Gid()
	s.mu.Lock()
	if s.seen[g] {
		s.mu.Unlock()
		return
	}
	s.seen[g] = true
	s.pending = append(s.pending, g)
	if s.round == nil || s.round.released >= len(s.round.parts) {
		rd := &c09Round{}
		dup := false
		if s.client != nil {
			for _, w := range s.client.witnesses {
				if cp, ok := w.(*c09Provider); ok {
					for _, q := range rd.parts {
						dup = dup || q == cp.id
					}
					rd.parts = append(rd.parts, cp.id)
				}
			}
		}
		if dup {
			s.dupRounds++
		}
		s.round = rd
		s.rounds++
	}
	rd := s.round
	have, want := 1, 0
	for _, a := range rd.arrived {
		if a.pid == pid {
			have++
		}
	}
	for _, q := range rd.parts {
		if q == pid {
			want++
		}
	}
	if have > want {
		rd.parts = append(rd.parts, pid)
	}
	rd.arrived = append(rd.arrived, c09Arr{pid, g})
	s.mu.Unlock()
	deadline := time.Now().Add(c09Wait)
	timeout := func(what string, q uint64) {
		s.mu.Lock()
		s.timeouts++
		s.mu.Unlock()
		if os.Getenv("VERIF_C09_DEBUG") != "" {
			buf := make([]byte, 1<<20)
			fmt.Fprintf(os.Stderr, "C09 gate timeout: goroutine %d (provider %d) waits for %s (gid %d)\n%s\n", g, pid, what, q, buf[:runtime.Stack(buf, true)])
		}
	}
	// every goroutine of the round has to be here before the slots can be told apart
	for {
		s.mu.Lock()
		all := len(rd.arrived) >= len(rd.parts)
		s.mu.Unlock()
		if all {
			break
		}
		if time.Now().After(deadline) {
			timeout("the other goroutines of the round", 0)
			break
		}
		time.Sleep(20 * time.Microsecond)
	}
	s.mu.Lock()
	var before []uint64
	for _, q := range s.schedule(rd) {
		if q == g {
			break
		}
		before = append(before, q)
	}
	s.mu.Unlock()
	for _, gq := range before {
		for c09Alive([]uint64{gq})[gq] {
			if time.Now().After(deadline) {
				timeout("an earlier goroutine to finish", gq)
				break
			}
			time.Sleep(20 * time.Microsecond)
		}
	}
	s.mu.Lock()
	rd.released++
	s.mu.Unlock()
}

// Drain waits until every round goroutine seen so far has finished (and the current round's
// participants have all arrived)
func (s *c09Sched) Drain() {
	deadline := time.Now().Add(c09Wait)
	for {
		s.mu.Lock()
		rd := s.round
		waitArr := rd != nil && len(rd.arrived) < len(rd.parts)
		pend := append([]uint64{}, s.pending...)
		s.mu.Unlock()
		if !waitArr {
			alive := c09Alive(pend)
			if len(alive) == 0 {
				s.mu.Lock()
				s.pending = nil
				s.mu.Unlock()
				return
			}
		}
		if time.Now().After(deadline) {
			s.mu.Lock()
			s.timeouts++
			s.pending = nil
			s.round = nil
			s.mu.Unlock()
			if os.Getenv("VERIF_C09_DEBUG") != "" {
				buf := make([]byte, 1<<20)
				fmt.Fprintf(os.Stderr, "C09 drain timeout: waitArr %v pending %v round %+v\n%s\n", waitArr, pend, rd, buf[:runtime.Stack(buf, true)])
			}
			return
		}
		time.Sleep(30 * time.Microsecond)
	}
}

// ---------------------------------------------------------------- observations

func c09Class(err error) uint64 {
	if err == nil {
		return 0
	}
	var (
		vf  ErrVerificationFailed
		ih  ErrInvalidHeader
		ex  ErrOldHeaderExpired
		bad provider.ErrBadLightBlock
		cf  errConflictingHeaders
	)
	if errors.As(err, &vf) {
		r := vf.Reason
		switch {
		case r == nil:
			return 4
		case errors.As(r, &ih):
			return 1
		case errors.As(r, &ex):
			return 2
		case errors.Is(r, provider.ErrNoResponse):
			return 30
		case errors.Is(r, provider.ErrLightBlockNotFound):
			return 31
		case errors.Is(r, provider.ErrHeightTooHigh):
			return 32
		case errors.As(r, &bad):
			return 33
		case errors.Is(r, context.Canceled), errors.Is(r, context.DeadlineExceeded):
			return 34
		}
		return 4
	}
	switch {
	case err == ErrLightClientAttack:
		return 5
	case err == ErrFailedHeaderCrossReferencing:
		return 6
	case errors.Is(err, ErrNoWitnesses):
		return 7
	case errors.Is(err, provider.ErrNoResponse):
		return 20
	case errors.Is(err, provider.ErrLightBlockNotFound):
		return 21
	case errors.Is(err, provider.ErrHeightTooHigh):
		return 22
	case errors.As(err, &bad):
		return 23
	case errors.Is(err, context.Canceled), errors.Is(err, context.DeadlineExceeded):
		return 12
	case errors.As(err, &ih):
		return 9
	case errors.As(err, &cf):
		return 11
	}
	return 13
}

type c09Obs struct {
	class      uint64
	term       string
	txt        string
	store      int
	unreadable []int64 // heights the db has an entry for that cannot be loaded
}

func (sc *c09Scn) observe(cl *Client, err error, panicked interface{}, prim0 int64, wits0 []int64) c09Obs {
	sc.sched.Drain()
	class := c09Class(err)
	etxt := fmt.Sprint(err)
	if panicked != nil {
		class = 14
		etxt = fmt.Sprintf("PANIC %v", panicked)
	}
	var store []string
	var stxt []string
	var unreadable []int64
	var hts []int64
	prim := prim0
	wits := wits0
	if cl != nil {
		first, _ := cl.FirstTrustedHeight()
		last, _ := cl.LastTrustedHeight()
		if first > 0 {
			for h := int64(1); h <= sc.n+2; h++ {
				lb, e := cl.trustedStore.LightBlock(h)
				if e != nil || lb == nil {
					if e != nil && e != lstore.ErrLightBlockNotFound {
						var kinds []string
						for _, b := range sc.blocks {
							if b.lb.Height == h && b.kind != "genuine" {
								kinds = append(kinds, b.kind)
							}
						}
						unreadable = append(unreadable, h)
						sc.notes = append(sc.notes, fmt.Sprintf("store entry at height %d unreadable (%v; non-genuine blocks of that height: %v): this call and the later ones dropped",
							h, e, kinds))
					}
					continue
				}
				if h < first || h > last {
					sc.notes = append(sc.notes, fmt.Sprintf("store entry at height %d outside [first %d, last %d]", h, first, last))
				}
				hts = append(hts, h)
				store = append(store, vg.Tup(vg.Z(h), vg.Z(sc.hid(lb.Hash()))))
				stxt = append(stxt, fmt.Sprintf("%d:%d", h, sc.hid(lb.Hash())))
			}
		}
		prim = -1
		if cp, ok := cl.primary.(*c09Provider); ok {
			prim = cp.id
		}
		wits = nil
		for _, w := range cl.witnesses {
			if cp, ok := w.(*c09Provider); ok {
				wits = append(wits, cp.id)
			} else {
				wits = append(wits, -1)
			}
		}
	}
	sc.mu.Lock()
	log, evs := sc.log, sc.evs
	sc.log, sc.evs = nil, nil
	sc.mu.Unlock()
	var lt, et, ltxt, etx []string
	for _, e := range log {
		lt = append(lt, vg.Tup(vg.Z(e.p), vg.Z(e.h), vg.Z(e.r)))
		ltxt = append(ltxt, fmt.Sprintf("p%d:%d->%d", e.p, e.h, e.r))
	}
	var xt []string
	for _, e := range evs {
		et = append(et, vg.Tup(vg.Z(e.p), vg.Z(e.h), vg.Z(e.r)))
		x, xtxt := sc.evExtra(e, log)
		xt = append(xt, x)
		etx = append(etx, fmt.Sprintf("to p%d: block id %d common %d %s", e.p, e.h, e.r, xtxt))
	}
	sc.trustedBefore = hts
	if len(etxt) > 160 {
		etxt = etxt[:160] + "..."
	}
	etxt = strings.ReplaceAll(etxt, "\n", " ")
	return c09Obs{class: class, store: len(store), unreadable: unreadable,
		term: vg.Tup(vg.N(class), vg.L(store), vg.Z(prim), vg.ZL(wits), vg.L(et), vg.L(lt), vg.L(xt)),
		txt: fmt.Sprintf("class=%d err=%q store=[%s] primary=p%d witnesses=%v evidence=[%s] requests=[%s]",
			class, etxt, strings.Join(stxt, " "), prim, wits, strings.Join(etx, "; "), strings.Join(ltxt, " "))}
}

// evExtra: the remaining fields of a reported evidence exactly as the implementation filled them
// (table index of the conflicting light block, Timestamp, TotalVotingPower, ByzantineValidators as
// (key id, power) in order) and the verdict of a real evidence.Pool over the honest chain.
func (sc *c09Scn) evExtra(e c09EvEnt, log []c09LogEnt) (string, string) {
	if e.ev == nil {
		return vg.Tup(vg.Z(-1), vg.Z(0), vg.Z(0), vg.L(nil), vg.N(0)), "(not light client attack evidence)"
	}
	ev := e.ev
	bi := -1
	for _, b := range sc.blocks {
		if b.lb == ev.ConflictingBlock {
			bi = b.idx
			break
		}
	}
	if bi < 0 {
		for _, b := range sc.blocks {
			if bytes.Equal(b.lb.Hash(), ev.ConflictingBlock.Hash()) && b.lb.Commit != nil && ev.ConflictingBlock.Commit != nil &&
				bytes.Equal(b.lb.Commit.Hash(), ev.ConflictingBlock.Commit.Hash()) &&
				bytes.Equal(b.lb.ValidatorSet.Hash(), ev.ConflictingBlock.ValidatorSet.Hash()) {
				bi = b.idx
				break
			}
		}
	}
	var bz, btx []string
	for _, v := range ev.ByzantineValidators {
		kid := int64(0)
		if v != nil {
			if k, ok := c09AddrIdx[string(v.Address)]; ok {
				kid = int64(k + 1)
			}
			bz = append(bz, vg.Tup(vg.Z(kid), vg.Z(v.VotingPower)))
			btx = append(btx, fmt.Sprintf("k%d:%d", kid, v.VotingPower))
		} else {
			bz = append(bz, vg.Tup(vg.Z(-1), vg.Z(0)))
			btx = append(btx, "nil")
		}
	}
	code, why := sc.poolCheck(e, log)
	sc.cs.Count("evidence-pool-"+why, 1)
	return vg.Tup(vg.Z(int64(bi)), vg.Z(sc.tz(ev.Timestamp)), vg.Z(ev.TotalVotingPower), vg.L(bz), vg.N(uint64(code))),
		fmt.Sprintf("(B%d) time %d total %d byzantine [%s] pool: %s", bi, sc.tz(ev.Timestamp), ev.TotalVotingPower,
			strings.Join(btx, " "), why)
}

// poolCheck feeds the evidence into a real evidence.Pool built over the honest chain when the
// premises of C09_evidence_is_admissible that can be decided on the case hold: the conflicting
// block is not the honest block of its height; the receiver answered with honest blocks only
// during the call (so the common and the trusted block are honest); the node holds the chain up
// to the conflicting height when the receiver served that height, else up to the receiver's
// highest block (forward lunatic attack); every signature FOR the conflicting block verifies;
// and, where the client's own verification does not imply it (adjacent lunatic block, conflicting
// block above the trusted block without invalid header), more than 1/3 of the validators of
// CommonHeight signed the conflicting commit.  0 = not asked, 1 = accepted, 2 = refused.
func (sc *c09Scn) poolCheck(e c09EvEnt, log []c09LogEnt) (int, string) {
	ev := e.ev
	cb := ev.ConflictingBlock
	hc := cb.Height
	if hc < 1 || hc > sc.n || cb.Commit == nil || cb.ValidatorSet == nil {
		return 0, "skipped:conflicting-height-outside-chain"
	}
	if bytes.Equal(cb.Hash(), sc.ghash(hc)) {
		return 0, "skipped:against-the-honest-block"
	}
	genuine := map[int64]int64{}
	for h := int64(1); h <= sc.n; h++ {
		genuine[sc.hid(sc.ghash(h))] = h
	}
	// the receiver's side is the honest chain: every block of its script is a genuine block (the
	// block, not only the header: the honest header with another validator set is outside the
	// provider contract and the detector takes the common validator set from the receiver)
	isGen := map[int]bool{}
	for h := int64(1); h <= sc.n; h++ {
		isGen[sc.gen[h]] = true
	}
	for _, p := range sc.provs {
		if p.id != e.p {
			continue
		}
		for h, rs := range p.script0 {
			for _, rp := range rs {
				if rp.blk >= 0 && (!isGen[rp.blk] || (h >= 1 && (h > sc.n || rp.blk != sc.gen[h]))) {
					return 0, "skipped:receiver-not-on-the-honest-chain"
				}
			}
		}
	}
	served := int64(0)
	for _, l := range log {
		if l.p != e.p || l.r < 0 {
			continue
		}
		h, ok := genuine[l.r]
		if !ok {
			return 0, "skipped:receiver-not-on-the-honest-chain"
		}
		if h > served {
			served = h
		}
	}
	for idx, cs := range cb.Commit.Signatures {
		if !cs.ForBlock() {
			continue
		}
		if idx >= len(cb.ValidatorSet.Validators) {
			return 0, "skipped:for-block-signature-that-does-not-verify"
		}
		v := cb.ValidatorSet.Validators[idx]
		if !bytes.Equal(v.Address, cs.ValidatorAddress) ||
			!v.PubKey.VerifySignature(cb.Commit.VoteSignBytes(c09ChainID, int32(idx)), cs.Signature) {
			return 0, "skipped:for-block-signature-that-does-not-verify"
		}
	}
	if C09PoolAdd == nil {
		return 0, "skipped:no-pool-hook"
	}
	// The trusted block is not part of the evidence.  Candidates for the node: one holding the
	// whole honest chain (trusted block = its block of the conflicting height) and, when
	// everything the receiver served is below the conflicting block, one whose chain ends at the
	// receiver's highest block (forward lunatic attack).  The evidence must be admitted by one.
	tops := []int64{sc.n}
	if served >= 1 && served < hc {
		tops = append(tops, served)
	}
	why := ""
	asked := false
	var lastErr error
	kind := ""
	for _, top := range tops {
		trustedH := hc
		if top < hc {
			trustedH = top
		}
		trusted := sc.blocks[sc.gen[trustedH]].lb
		lun := ev.ConflictingHeaderIsInvalid(trusted.Header)
		k := "equivocation"
		if lun {
			k = "lunatic"
		} else if trusted.Commit.Round != cb.Commit.Round {
			k = "amnesia"
		}
		if top < hc {
			k += "-forward"
			if trusted.Time.Before(cb.Time) {
				why = "skipped:block-above-and-later-than-the-node's-latest"
				continue
			}
		}
		H := ev.CommonHeight
		if H >= 1 && H <= top && H != hc && !(lun && hc != H+1) {
			cv := sc.blocks[sc.gen[H]].lb.ValidatorSet
			if err := cv.VerifyCommitLightTrusting(c09ChainID, cb.Commit, tmmath.Fraction{Numerator: 1, Denominator: 3}); err != nil {
				if lun {
					why = "skipped:adjacent-lunatic-without-a-third-of-the-common-set"
				} else {
					why = "skipped:block-above-trusted-without-a-third-of-its-set"
				}
				continue
			}
		}
		hs := make([]*types.SignedHeader, top+1)
		vs := make([]*types.ValidatorSet, top+1)
		for h := int64(1); h <= top; h++ {
			hs[h] = sc.blocks[sc.gen[h]].lb.SignedHeader
			vs[h] = sc.blocks[sc.gen[h]].lb.ValidatorSet
		}
		asked = true
		if kind == "" {
			kind = k
		}
		err := C09PoolAdd(c09ChainID, hs, vs, top, sc.times[top], ev)
		if err == nil {
			sc.evKindCount(e, k)
			return 1, "accepted:" + k
		}
		lastErr = err
	}
	if !asked {
		return 0, why
	}
	sc.evKindCount(e, kind)
	sc.notes = append(sc.notes, fmt.Sprintf("evidence.Pool REFUSED %s evidence sent to p%d (conflicting block id %d, common height %d): %.200s",
		kind, e.p, e.h, e.r, strings.ReplaceAll(lastErr.Error(), "\n", " ")))
	return 2, "REFUSED:" + kind
}

// evKindCount: distribution of the evidence that reached the pool: kind of attack and whether the
// validator set changed (powers only / membership) between the latest block the client trusted
// below the conflicting height when the call began and the conflicting height
func (sc *c09Scn) evKindCount(e c09EvEnt, kind string) {
	hc := e.ev.ConflictingBlock.Height
	from := int64(0)
	for _, h := range sc.trustedBefore {
		if h < hc && h > from {
			from = h
		}
	}
	ch := "valset-unknown-start"
	if from >= 1 {
		a, b := sc.vals[from], sc.vals[hc]
		switch {
		case a == b:
			ch = "valset-same"
		default:
			same := len(a.keys) == len(b.keys)
			if same {
				am := map[int]bool{}
				for _, k := range a.keys {
					am[k] = true
				}
				for _, k := range b.keys {
					same = same && am[k]
				}
			}
			if same {
				ch = "valset-powers-changed"
			} else {
				ch = "valset-membership-changed"
			}
		}
	}
	sc.cs.Count("evidence-checked-"+kind+"/"+ch, 1)
}

// ---------------------------------------------------------------- running a scenario

func (sc *c09Scn) run(cs *vg.Cases, id int, kind string, header string) {
	ctx := context.Background()
	sc.cs = cs
	var d strings.Builder
	mode := "skipping"
	if sc.sequential {
		mode = "sequential"
	}
	fmt.Fprintf(&d, "%s\nparams: %s level=%d/%d drift=%dns period=%dns prune=%d; times are ns relative to %s; every vote/CommitSig timestamp is base-1h; chain id %q\n",
		header, mode, sc.num, sc.den, int64(sc.drift), int64(sc.period), sc.prune, c09Base.Format(time.RFC3339), c09ChainID)
	fmt.Fprintf(&d, "chain: heights 1..%d;", sc.n)
	for h := int64(1); h <= sc.n; h++ {
		fmt.Fprintf(&d, " %d@%+ds/#%d", h, sc.tz(sc.times[h])/1e9, sc.vals[h].idx)
	}
	fmt.Fprintf(&d, " next#%d\n", sc.vals[sc.n+1].idx)
	if sc.forkTxt != "" {
		fmt.Fprintf(&d, "fork: %s\n", sc.forkTxt)
	}

	sc.sched = &c09Sched{rank: map[int64]int{}, seen: map[uint64]bool{}}
	for i, p := range sc.order {
		sc.sched.rank[p] = i
	}
	prim := sc.provs[0]
	var wits []provider.Provider
	var witIDs []int64
	for _, p := range sc.provs[1:] {
		wits = append(wits, p)
		witIDs = append(witIDs, p.id)
	}
	var cl *Client
	capture := func(c *Client) {
		cl = c
		sc.sched.mu.Lock()
		sc.sched.client = c
		sc.sched.mu.Unlock()
	}
	// MaxBlockLag only lengthens the pause before a lagging witness is asked again; it is set
	// ABOVE the clock drift so that the two durations cannot stand in for each other unnoticed
	opts := []Option{MaxClockDrift(sc.drift), MaxBlockLag(5 * sc.drift), PruningSize(sc.prune)}
	if sc.sequential {
		opts = append(opts, SequentialVerification())
	} else {
		opts = append(opts, SkippingVerification(tmmath.Fraction{Numerator: sc.num, Denominator: sc.den}))
	}
	opts = append(opts, capture)

	// terms of the static part (before running, so that hash ids do not depend on the run)
	var vst []string
	for _, v := range sc.valsets {
		var l []string
		for i, k := range v.keys {
			l = append(l, vg.Tup(vg.Z(int64(k+1)), vg.Z(int64(k+1)), vg.Z(v.pows[i])))
		}
		vst = append(vst, vg.L(l))
	}
	rootID := sc.hid(sc.rootHash)
	var bt, pt []string
	for _, b := range sc.blocks {
		bt = append(bt, sc.blockTerm(b))
	}
	for _, p := range sc.provs {
		pt = append(pt, sc.provTerm(p))
		p.script0 = map[int64][]c09Reply{}
		for h, rs := range p.script {
			p.script0[h] = rs
		}
	}
	for _, v := range sc.valsets {
		var l []string
		for i, k := range v.keys {
			l = append(l, fmt.Sprintf("k%d:%d", k+1, v.pows[i]))
		}
		fmt.Fprintf(&d, "valset #%d [%s] total %d\n", v.idx, strings.Join(l, " "), v.total())
	}
	for _, b := range sc.blocks {
		d.WriteString(sc.blockTxt(b) + "\n")
	}
	for i, p := range sc.provs {
		role := "witness"
		if i == 0 {
			role = "primary"
		}
		fmt.Fprintf(&d, "%s %s\n", role, sc.provTxt(p))
	}
	fmt.Fprintf(&d, "arrival order: %v\nroot: height %d hash id %d\n", sc.order, sc.root, rootID)

	var err error
	var pan interface{}
	func() {
		defer func() {
			if r := recover(); r != nil {
				pan = r
			}
		}()
		_, err = NewClient(ctx, c09ChainID, TrustOptions{Period: sc.period, Height: sc.root, Hash: sc.rootHash},
			prim, wits, dbs.New(dbm.NewMemDB(), ""), opts...)
	}()
	initObs := sc.observe(cl, err, pan, prim.id, witIDs)
	fmt.Fprintf(&d, "NewClient: %s\n", initObs.txt)
	var opt []string
	nontrivial := false
	if initObs.class == 0 && cl != nil {
		for _, o := range sc.ops {
			var e error
			var pn interface{}
			func() {
				defer func() {
					if r := recover(); r != nil {
						pn = r
					}
				}()
				if o.update {
					_, e = cl.Update(ctx, o.now)
				} else {
					_, e = cl.VerifyLightBlockAtHeight(ctx, o.h, o.now)
				}
			}()
			ob := sc.observe(cl, e, pn, prim.id, witIDs)
			if len(ob.unreadable) > 0 {
				cs.Count("truncated-unreadable-store-entry", 1)
				fmt.Fprintf(&d, "(a further call left an unreadable store entry at %v; it and the later calls are not part of the case)\n", ob.unreadable)
				break
			}
			if strings.Contains(ob.txt, "requests=[p") {
				nontrivial = true
			}
			if o.update {
				opt = append(opt, vg.Tup(vg.App("OU", vg.Z(sc.tz(o.now))), ob.term))
				fmt.Fprintf(&d, "Update(now=%d): %s\n", sc.tz(o.now), ob.txt)
			} else {
				opt = append(opt, vg.Tup(vg.App("OV", vg.Z(o.h), vg.Z(sc.tz(o.now))), ob.term))
				fmt.Fprintf(&d, "VerifyLightBlockAtHeight(%d, now=%d): %s\n", o.h, sc.tz(o.now), ob.txt)
			}
			cs.Count(fmt.Sprintf("call-class-%d", ob.class), 1)
		}
	} else {
		cs.Count(fmt.Sprintf("init-class-%d", initObs.class), 1)
	}
	cs.Count("witness-rounds", sc.sched.rounds)
	if sc.sched.dupRounds > 0 {
		cs.Count("witness-rounds-with-one-provider-in-several-slots", sc.sched.dupRounds)
	}
	if sc.sched.anomalies > 0 {
		cs.Count("goroutine-id-order-anomalies", sc.sched.anomalies)
		cs.Notes = append(cs.Notes, fmt.Sprintf("case %d: in %d rounds the goroutine ids did not increase with the witness index (the tie-break between slots holding the same provider relies on it)", id, sc.sched.anomalies))
	}
	if sc.sched.timeouts > 0 {
		cs.Count("gate-timeouts", sc.sched.timeouts)
		cs.Notes = append(cs.Notes, fmt.Sprintf("case %d: %d gate/drain timeouts", id, sc.sched.timeouts))
	}
	for _, n := range sc.notes {
		cs.Notes = append(cs.Notes, fmt.Sprintf("case %d: %s", id, n))
	}
	seq := vg.B(sc.sequential)
	par := vg.Tup(vg.Z(1), vg.Z(int64(sc.period)), vg.Z(int64(sc.drift)), vg.Z(int64(sc.num)), vg.Z(int64(sc.den)), seq, vg.Z(int64(sc.prune)))
	init := vg.Tup(vg.Z(prim.id), vg.ZL(witIDs), vg.Z(sc.root), vg.Z(rootID))
	var hch []string
	for h := int64(1); h <= sc.n; h++ {
		hch = append(hch, vg.Nat(sc.gen[h]))
	}
	// rank of every key's address in the byte order of the addresses (index = key id, 0 unused)
	nk := sc.nextKey
	c09KeyAt(nk)
	idx := make([]int, nk+1)
	for i := range idx {
		idx[i] = i
	}
	sort.Slice(idx, func(a, b int) bool { return bytes.Compare(c09KeyAt(idx[a]).addr, c09KeyAt(idx[b]).addr) < 0 })
	ranks := make([]int64, nk+2)
	for rk, k := range idx {
		ranks[k+1] = int64(rk + 1)
	}
	term := vg.App("CRun", par, vg.L(vst), vg.L(bt), vg.L(pt), vg.ZL(sc.order), init, initObs.term, vg.L(opt), vg.L(hch), vg.ZL(ranks))
	cs.Add(id, kind, nontrivial, term, d.String())
}

func (sc *c09Scn) setProviders(n int) {
	sc.provs = nil
	for i := 0; i < n; i++ {
		sc.provs = append(sc.provs, &c09Provider{id: int64(i + 1), sc: sc})
	}
}

// ---------------------------------------------------------------- random scenarios

func c09Weighted(r *vg.Rand, names []string, weights []int) string {
	tot := 0
	for _, w := range weights {
		tot += w
	}
	x := r.Intn(tot)
	for i, w := range weights {
		if x < w {
			return names[i]
		}
		x -= w
	}
	return names[0]
}

func c09Random(r *vg.Rand) (*c09Scn, string) {
	sc := c09NewScn(r)
	sc.sequential = r.Chance(35)
	switch x := r.Intn(100); {
	case x < 70:
		sc.num, sc.den = 1, 3
	case x < 85:
		sc.num, sc.den = 1, 2
	default:
		sc.num, sc.den = 2, 3
	}
	if r.Bool() {
		sc.drift = 1000 * time.Nanosecond
	}
	switch x := r.Intn(100); {
	case x < 50:
		sc.prune = 0
	case x < 78:
		sc.prune = 3
	default:
		sc.prune = 1000
	}
	sc.genChain(int64(6 + r.Intn(11)))
	n := sc.n
	switch x := r.Intn(100); {
	case x < 28:
		sc.root = 1
	case x < 80:
		sc.root = 2 + r.Int63n(n-2)
	default:
		sc.root = 1 + r.Int63n(n)
	}
	sc.rootHash = sc.ghash(sc.root)
	rootWrong := r.Chance(2)
	if rootWrong {
		sc.rootHash = c09H("wrong-root")
	}
	if r.Chance(16) {
		span := sc.nowMain.Sub(sc.times[sc.root])
		deltas := []time.Duration{-time.Second, 0, time.Nanosecond, 30 * time.Second, time.Second, 100 * time.Second}
		sc.period = span + deltas[r.Intn(len(deltas))]
		if sc.period <= 0 {
			sc.period = span + time.Nanosecond
		}
	}
	// calls
	nops := 1 + r.Intn(5)
	if nops > 3 && r.Bool() {
		nops -= 2
	}
	for i := 0; i < nops; i++ {
		var o c09Op
		o.now = sc.nowMain
		if r.Chance(18) {
			o.update = true
		} else {
			switch x := r.Intn(100); {
			case x < 2:
				o.h = 0
			case x < 5:
				o.h = n + 1
			case x < 45:
				o.h = sc.root + 1 + r.Int63n(n-sc.root+1)
				if o.h > n {
					o.h = n
				}
			default:
				o.h = 1 + r.Int63n(n)
			}
		}
		h := o.h
		if o.update || h < 1 || h > n {
			h = n
		}
		if r.Chance(22) {
			switch r.Intn(7) {
			case 0:
				o.now = sc.times[h].Add(-sc.drift)
			case 1:
				o.now = sc.times[h].Add(-sc.drift).Add(time.Nanosecond)
			case 2:
				o.now = sc.times[sc.root].Add(sc.period)
			case 3:
				o.now = sc.times[sc.root].Add(sc.period).Add(-time.Nanosecond)
			case 4:
				o.now = sc.times[h].Add(-5 * time.Second)
			case 5:
				o.now = sc.nowMain.Add(time.Duration(1+r.Intn(100)) * time.Second)
			case 6:
				o.now = sc.times[1+r.Int63n(n)].Add(sc.period)
			}
		}
		sc.ops = append(sc.ops, o)
	}
	// fork
	if r.Chance(75) {
		a := sc.root
		if r.Bool() {
			a = 1 + r.Int63n(n-1)
		}
		if a >= n {
			a = n - 1
		}
		b := a + 1
		if r.Bool() {
			b = a + 1 + r.Int63n(n-a)
		}
		// drawn from a stream of its own so that the older choices of the scenario stay as they were
		r2 := r.Fork(0xF77)
		if r2.Chance(35) {
			sc.forkKind = "amnesia"
		}
		if r2.Bool() {
			sc.forkDT = []time.Duration{time.Nanosecond, 300 * time.Millisecond, 700 * time.Millisecond}[r2.Intn(3)]
			if r2.Bool() {
				sc.forkDT = -sc.forkDT
			}
		}
		sc.makeFork(a, b, r.Chance(65), r.Intn(3), r.Chance(80))
	}
	// providers
	nw := 1 + r.Intn(4)
	if nw == 4 && r.Bool() {
		nw = 2
	}
	sc.setProviders(1 + nw)
	pb := c09Weighted(r, []string{"honest", "forged-target", "forged-pivot", "invalid-target", "invalid-pivot", "missing", "equivocating",
		"liar", "lagging", "dead", "bad", "cancelled", "flaky", "wrongheight"},
		[]int{34, 10, 8, 6, 6, 6, 6, 8, 3, 2, 5, 2, 3, 1})
	switch pb {
	case "forged-target":
		sc.behave(sc.provs[0], "forged", "target")
	case "forged-pivot":
		sc.behave(sc.provs[0], "forged", "inter")
	case "invalid-target":
		sc.behave(sc.provs[0], "invalid", "target")
	case "invalid-pivot":
		sc.behave(sc.provs[0], "invalid", "inter")
	case "missing":
		sc.behave(sc.provs[0], "forgetful", "inter")
	case "equivocating":
		sc.behave(sc.provs[0], "equivocator", "mixed")
	default:
		sc.behave(sc.provs[0], pb, "mixed")
	}
	for _, p := range sc.provs[1:] {
		wb := c09Weighted(r, []string{"honest", "lagging", "dead", "forgetful", "liar", "equivocator", "bad", "forged", "invalid",
			"cancelled", "flaky", "wrongheight"},
			[]int{38, 9, 6, 7, 10, 6, 7, 6, 3, 3, 4, 1})
		sc.behave(p, wb, "mixed")
	}
	for _, i := range r.Perm(len(sc.provs)) {
		sc.order = append(sc.order, sc.provs[i].id)
	}
	mode := "skip"
	if sc.sequential {
		mode = "seq"
	}
	return sc, pb + "/" + mode
}

// ---------------------------------------------------------------- collusion family
// The primary and every responsive witness serve the same blocks, so the verifier is the only
// defence; the remaining witnesses are dead or lag below the target.

// positions of vs whose powers add up to exactly target (nil if impossible)
func c09Subset(vs *c09VS, target int64) []int {
	n := len(vs.keys)
	for s := 0; s < 1<<uint(n); s++ {
		var p int64
		var out []int
		for i := 0; i < n; i++ {
			if s>>uint(i)&1 == 1 {
				p += vs.pows[i]
				out = append(out, i)
			}
		}
		if p == target {
			return out
		}
	}
	return nil
}

var c09CollusionKinds = []string{"trust-exact", "trust-above", "nextvals-overlap", "nextvals-foreign", "own-exact", "own-above", "double-vote", "own-exact-nil", "own-half-nil"}
var c09CollusionFixed = []string{"time-future-eq", "time-future-ok", "expired-eq", "expired-ok", "time-equal",
	"wit-noresp", "wit-notfound", "wit-behind", "wit-ctx", "wit-bad", "back-forged-chain", "back-forged-target", "back-genuine"}

func c09Collusion(r *vg.Rand, what string, seq bool, num, den uint64) *c09Scn {
	sc := c09NewScn(r)
	sc.sequential = seq
	sc.num, sc.den = num, den
	if r.Bool() {
		sc.prune = 1000
	}
	sc.genChainP(int64(8+r.Intn(3)), []int64{2, 1, 1, 2})
	n := sc.n
	V := sc.vals[1]
	tot := V.total()
	level := tot * int64(num) / int64(den) // exact for 1/3, 1/2, 2/3 with total 6
	sc.root = 3
	T := int64(6 + r.Intn(2))
	now := sc.nowMain
	collude := map[int64][]c09Reply{} // what every colluder answers instead of the genuine chain
	witErr := -1                      // all witnesses answer this error at the target
	behind := false
	ownSet := func(co []int, fresh int) *c09VS {
		var keys []int
		var pows []int64
		for _, i := range co {
			keys = append(keys, V.keys[i])
			pows = append(pows, V.pows[i])
		}
		for i := 0; i < fresh; i++ {
			keys = append(keys, sc.freshKey())
			pows = append(pows, int64(2+r.Intn(3)))
		}
		return sc.mkVS(keys, pows)
	}
	forgedAt := func(h int64, vs *c09VS, kind string) int {
		sp := sc.gspec[h]
		sp.kind = kind
		sp.vs = vs
		sp.nvh = vs.hash
		sp.app = c09H("forged-app")
		sp.modes = nil
		return sc.build(sp)
	}
	switch what {
	case "trust-exact", "trust-above":
		p := level
		if what == "trust-above" {
			p = level + 1
		}
		co := c09Subset(V, p)
		f := ownSet(co, 2)
		i := forgedAt(T, f, fmt.Sprintf("forged(coalition %v power %d of %d)", co, p, tot))
		collude[T] = []c09Reply{c09B(i)}
	case "double-vote":
		// one trusted validator X with power p <= level < 2p forges a block with a set of its own
		// making (X first, with > 2/3 of it) and lists its single precommit twice: slot 0 and,
		// under its own address again, slot 1.  Counted once it stays at or below the trust level.
		xi := 0
		for i, p := range V.pows {
			if p <= level && 2*p > level {
				xi = i
				break
			}
		}
		sp := sc.gspec[T]
		sc.doubleVote(&sp, V.keys[xi])
		sp.kind = fmt.Sprintf("forged(validator k%d power %d of %d votes twice)", V.keys[xi]+1, V.pows[xi], tot)
		collude[T] = []c09Reply{c09B(sc.build(sp))}
	case "nextvals-overlap", "nextvals-foreign":
		T = sc.root + 1
		var f *c09VS
		if what == "nextvals-overlap" {
			co := c09Subset(V, level+1)
			f = ownSet(co, 1)
		} else {
			f = sc.freshVS(3)
		}
		i := forgedAt(T, f, "forged(adjacent, foreign set #"+strconv.Itoa(f.idx)+")")
		collude[T] = []c09Reply{c09B(i)}
	case "own-exact", "own-above", "own-exact-nil", "own-half-nil":
		p := tot * 2 / 3
		if what == "own-above" {
			p++
		}
		if what == "own-half-nil" {
			p = tot / 2
		}
		co := c09Subset(V, p)
		sp := sc.gspec[T]
		sp.kind = fmt.Sprintf("genuine header, signers %v power %d of %d", co, p, tot)
		sp.hdr = sc.blocks[sc.gen[T]].lb.Header
		sp.modes = make([]c09Mode, len(V.keys))
		if what == "own-exact-nil" || what == "own-half-nil" {
			// a FORGED header (other app hash) signed by the coalition; the honest validators'
			// genuine precommits for nil of that height and round fill the other slots
			sp.hdr = nil
			sp.app = c09H("forged-app")
			sp.kind = fmt.Sprintf("forged header, signers %v power %d of %d", co, p, tot)
			// everybody else precommitted nil, with a valid signature: power that signed nil is
			// not power that signed the header
			sp.kind += ", all others precommit nil (valid signatures)"
			for i := range sp.modes {
				sp.modes[i].k = c09Nil
			}
		}
		for _, i := range co {
			sp.modes[i].k = c09Good
		}
		collude[T] = []c09Reply{c09B(sc.build(sp))}
	case "time-future-eq", "time-future-ok":
		sc.drift = 1000 * time.Nanosecond
		now = sc.times[T].Add(-sc.drift)
		if what == "time-future-ok" {
			now = now.Add(time.Nanosecond)
		}
	case "expired-eq", "expired-ok":
		sc.period = sc.times[n].Sub(sc.times[sc.root]) + 10*time.Second
		now = sc.times[sc.root].Add(sc.period)
		if what == "expired-ok" {
			now = now.Add(-time.Nanosecond)
		}
	case "time-equal":
		sp := sc.gspec[T]
		sp.kind = "forged(time equal to the trusted header's)"
		sp.t = sc.times[sc.root]
		sp.modes = nil
		collude[T] = []c09Reply{c09B(sc.build(sp))}
	case "wit-noresp":
		witErr = 0
	case "wit-notfound":
		witErr = 1
	case "wit-ctx":
		witErr = 4
	case "wit-bad":
		witErr = 3
	case "wit-behind":
		behind = true
	case "back-forged-chain", "back-forged-target", "back-genuine":
		sc.root = 5
		T = 2
		if what != "back-genuine" {
			f := sc.freshVS(3)
			top := int64(4)
			if what == "back-forged-target" {
				top = 2
			}
			last := types.BlockID{Hash: sc.ghash(1), PartSetHeader: c09PSH}
			for h := int64(2); h <= top; h++ {
				sp := sc.gspec[h]
				sp.kind = "forged(below the root)"
				sp.vs, sp.nvh, sp.app, sp.modes, sp.last = f, f.hash, c09H("forged-app"), nil, last
				i := sc.build(sp)
				collude[h] = []c09Reply{c09B(i)}
				last = types.BlockID{Hash: sc.blocks[i].lb.Hash(), PartSetHeader: c09PSH}
			}
		}
	}
	sc.rootHash = sc.ghash(sc.root)
	sc.ops = []c09Op{{h: T, now: now}}
	if T == n && r.Bool() {
		sc.ops = []c09Op{{update: true, now: now}}
	}
	nw := 1 + r.Intn(3)
	sc.setProviders(1 + nw)
	responsive := 1 + r.Intn(nw) // witness ids 2..1+responsive collude / answer
	if witErr >= 0 || behind {
		responsive = nw
	}
	for i, p := range sc.provs {
		s := sc.honestScript()
		p.kind = "colluder"
		p.validating = r.Bool()
		switch {
		case i == 0 || i <= responsive:
			for h, rs := range collude {
				s[h] = rs
				if h == n {
					s[0] = rs
				}
			}
			if i > 0 && witErr >= 0 {
				s[T] = []c09Reply{c09E(witErr)}
				p.kind = fmt.Sprintf("answers E%d at the target", witErr)
			}
			if i > 0 && behind {
				top := T - 1 - int64(r.Intn(2))
				for h := top + 1; h <= n; h++ {
					s[h] = []c09Reply{c09E(2)}
				}
				s[0] = []c09Reply{c09B(sc.gen[top])}
				p.kind = fmt.Sprintf("lagging(top %d)", top)
			}
		case r.Bool() && T > sc.root+1:
			top := sc.root + r.Int63n(T-sc.root)
			for h := top + 1; h <= n; h++ {
				s[h] = []c09Reply{c09E(2)}
			}
			s[0] = []c09Reply{c09B(sc.gen[top])}
			p.kind = fmt.Sprintf("lagging(top %d)", top)
		default:
			// dead after the root was confirmed (or from the start)
			for h := int64(0); h <= n+1; h++ {
				if h != sc.root || r.Bool() {
					s[h] = []c09Reply{c09E(0)}
				}
			}
			p.kind = "dead"
		}
		p.script = s
	}
	for _, i := range r.Perm(len(sc.provs)) {
		sc.order = append(sc.order, sc.provs[i].id)
	}
	return sc
}

// ---------------------------------------------------------------- attack family
// The primary serves a fork from height T on that the client can verify from its root: an
// equivocation (genuine sets, other DataHash), an amnesia (the same, committed in round 1) or a
// lunatic fork (other AppHash, a set of the coalition's making, coalition just above the trust
// level).  Between the root and T the validator set CHANGES (a power at root+1, a member at
// root+3), so the common block of the bisection and the conflicting height have different sets.
// The forged headers carry the genuine time, an earlier or a later one.  Witness 2 is honest;
// optionally witness 3 colludes with the primary (serves the fork) and witness 4 is honest too.
type c09AttackOpt struct {
	kind    string // equivocation, amnesia, lunatic
	dt      int    // -1, 0, +1
	collude bool
	seq     bool
	extra   bool
}

func c09AttackKind(o c09AttackOpt) string {
	mode := "skip"
	if o.seq {
		mode = "seq"
	}
	c := "alone"
	if o.collude {
		c = "colluding-witness"
	}
	return fmt.Sprintf("attack-%s/time%+d/%s/%s", o.kind, o.dt, c, mode)
}

func c09Attack(r *vg.Rand, o c09AttackOpt) *c09Scn {
	sc := c09NewScn(r)
	sc.sequential = o.seq
	sc.root = 2
	switch r.Intn(3) {
	case 0:
		sc.forceChurn = map[int64]int{4: 1} // a power changes
	case 1:
		sc.forceChurn = map[int64]int{4: 2} // a validator is replaced
	default:
		sc.forceChurn = map[int64]int{3: 1, 5: 2}
	}
	sc.genChain(int64(9 + r.Intn(3)))
	n := sc.n
	sc.rootHash = sc.ghash(sc.root)
	T := int64(6 + r.Intn(3))
	sc.forkKind = o.kind
	sc.forkDT = time.Duration(o.dt) * []time.Duration{time.Nanosecond, 400 * time.Millisecond, 900 * time.Millisecond}[r.Intn(3)]
	a := sc.root
	if o.kind == "lunatic" && r.Bool() {
		a = T - 1 - int64(r.Intn(2))
	}
	sc.makeFork(a, T, o.kind == "lunatic", 2, true)
	sc.ops = []c09Op{{h: T, now: sc.nowMain}}
	if r.Chance(30) {
		sc.ops = []c09Op{{update: true, now: sc.nowMain}}
	}
	np := 2
	if o.collude {
		np = 3
	}
	if o.extra {
		np++
	}
	sc.setProviders(np)
	for i, p := range sc.provs {
		liar := i == 0 || (o.collude && i == 2)
		if liar {
			sc.behave(p, "liar", "mixed")
		} else {
			sc.behave(p, "honest", "mixed")
		}
		p.validating = true
	}
	_ = n
	for _, i := range r.Perm(len(sc.provs)) {
		sc.order = append(sc.order, sc.provs[i].id)
	}
	return sc
}

// ---------------------------------------------------------------- bisection families
// Geometry of both: root 2, target 10; verifySkipping asks for 10, then the pivots 6, 8, 9
// (2 + 8*9/16 = 6, 6 + 4*9/16 = 8, 8 + 2*9/16 = 9).

// forgedRun builds forged blocks for heights from..to, chained on the genuine block from-1, with
// validator set vsAt(h) and NextValidatorsHash vsAt(h+1).hash
func (sc *c09Scn) forgedRun(from, to int64, kind string, vsAt func(h int64) *c09VS) map[int64]int {
	out := map[int64]int{}
	last := types.BlockID{Hash: sc.ghash(from - 1), PartSetHeader: c09PSH}
	for h := from; h <= to; h++ {
		sp := sc.gspec[h]
		sp.kind = kind
		sp.vs = vsAt(h)
		sp.nvh = vsAt(h + 1).hash
		sp.app = c09H("forged-app")
		sp.modes = nil
		sp.last = last
		out[h] = sc.build(sp)
		last = types.BlockID{Hash: sc.blocks[out[h]].lb.Hash(), PartSetHeader: c09PSH}
	}
	return out
}

// pivot-level: trust level num/den above 1/3.  The primary and every responsive witness serve,
// from the first pivot (height 6) on, blocks of a set made of a coalition of the trusted set
// holding MORE than 1/3 but NOT more than num/den of its power, plus keys of their own.  No step
// from a genuine block to a forged one is valid at the configured level; a client that judged
// pivots at 1/3 would accept 2 -> 6 and then 6 -> 10 (the forged set signs itself).
func c09PivotLevel(r *vg.Rand, num, den uint64) *c09Scn {
	sc := c09NewScn(r)
	sc.num, sc.den = num, den
	sc.genChainP(11, []int64{2, 1, 1, 2})
	V := sc.vals[1]
	tot := V.total()
	p := tot * int64(num) / int64(den) // not MORE than the level; > tot/3 for the levels used
	co := c09Subset(V, p)
	var keys []int
	var pows []int64
	for _, i := range co {
		keys = append(keys, V.keys[i])
		pows = append(pows, V.pows[i])
	}
	for i := 0; i < 2; i++ {
		keys = append(keys, sc.freshKey())
		pows = append(pows, int64(1+r.Intn(2)))
	}
	F := sc.mkVS(keys, pows)
	forged := sc.forgedRun(6, sc.n, fmt.Sprintf("forged(coalition %v power %d of %d: above 1/3, not above %d/%d)", co, p, tot, num, den),
		func(int64) *c09VS { return F })
	sc.root = 2
	sc.rootHash = sc.ghash(2)
	sc.ops = []c09Op{{h: 10, now: sc.nowMain}}
	nw := 1 + r.Intn(2)
	sc.setProviders(1 + nw)
	for _, pr := range sc.provs {
		s := sc.honestScript()
		for h, i := range forged {
			s[h] = []c09Reply{c09B(i)}
		}
		s[0] = []c09Reply{c09B(forged[sc.n])}
		pr.script, pr.kind, pr.validating = s, "colluder", r.Bool()
	}
	for _, i := range r.Perm(len(sc.provs)) {
		sc.order = append(sc.order, sc.provs[i].id)
	}
	return sc
}

// stale-set: the validator set changes between the root (R = k1:4 k2:4 k3:1, heights 1..4) and
// the first pivot (Q = k1:1 k4:5 k5:5, from height 5): k1 holds more than 1/3 of R and less than
// 1/3 of Q.  The primary forks from height 7: 7..9 carry the set {k1, a key of its own}, 10.. a
// set of its own.  From the root neither 10 nor anything genuine leads to the fork at the
// configured level except through k1 judged by R; from the pivot 6 (set Q) the step to 8 is not
// trusted.  A client that keeps judging by the ROOT's set after advancing to the pivot accepts
// 6 -> 8, and the evidence it then forms against the primary (common height 6) is one no full
// node admits: less than 1/3 of the validators of height 6 signed the conflicting block.
func c09StaleSet(r *vg.Rand, collude bool) *c09Scn {
	sc := c09NewScn(r)
	k := []int{sc.freshKey(), sc.freshKey(), sc.freshKey(), sc.freshKey(), sc.freshKey()}
	R := sc.mkVS([]int{k[0], k[1], k[2]}, []int64{4, 4, 1})
	Q := sc.mkVS([]int{k[0], k[3], k[4]}, []int64{1, 5, 5})
	sc.valPlan = func(h int64) *c09VS {
		if h <= 4 {
			return R
		}
		return Q
	}
	sc.genChain(11)
	F2 := sc.mkVS([]int{k[0], sc.freshKey()}, []int64{10, 1})
	F3 := sc.mkVS([]int{sc.freshKey(), sc.freshKey()}, []int64{5, 5})
	forged := sc.forgedRun(7, sc.n, "forged(set with k1 at 7..9, foreign set from 10)", func(h int64) *c09VS {
		if h <= 9 {
			return F2
		}
		return F3
	})
	sc.root = 2
	sc.rootHash = sc.ghash(2)
	sc.ops = []c09Op{{h: 10, now: sc.nowMain}}
	np := 2
	if collude {
		np = 3
	}
	sc.setProviders(np)
	for i, pr := range sc.provs {
		s := sc.honestScript()
		if i == 0 || (collude && i == 2) {
			for h, b := range forged {
				s[h] = []c09Reply{c09B(b)}
			}
			s[0] = []c09Reply{c09B(forged[sc.n])}
			pr.kind = "liar"
		} else {
			pr.kind = "honest"
		}
		pr.script, pr.validating = s, true
	}
	for _, i := range r.Perm(len(sc.provs)) {
		sc.order = append(sc.order, sc.provs[i].id)
	}
	return sc
}

// ---------------------------------------------------------------- directed regression cases

// F2: the only answering witness serves, at the target height, a block signed by unknown keys
func c09DirectedF2(r *vg.Rand, liarFirst bool) *c09Scn {
	sc := c09NewScn(r)
	sc.genChain(9)
	sc.root = 1
	sc.rootHash = sc.ghash(1)
	sc.ops = []c09Op{{h: sc.n, now: sc.nowMain}}
	sc.setProviders(3)
	sc.behave(sc.provs[0], "honest", "mixed")
	sc.provs[0].validating = true
	s := sc.honestScript()
	s[sc.n] = []c09Reply{c09B(sc.mutant(sc.n, "forged-self"))}
	sc.provs[1].script, sc.provs[1].kind = s, "liar(unknown signers at target)"
	sc.behave(sc.provs[2], "dead", "mixed")
	sc.provs[2].validating = false
	if liarFirst {
		sc.order = []int64{2, 3, 1}
	} else {
		sc.order = []int64{3, 2, 1}
	}
	return sc
}

// F23: the primary answers the first request for height 3 with a forged block and later ones
// with the genuine block; the root is above
func c09DirectedF23(r *vg.Rand) *c09Scn {
	sc := c09NewScn(r)
	sc.sequential = r.Bool()
	sc.genChain(10)
	sc.root = 8
	sc.rootHash = sc.ghash(8)
	sc.ops = []c09Op{{h: 3, now: sc.nowMain}}
	sc.setProviders(3)
	for _, p := range sc.provs {
		sc.behave(p, "honest", "mixed")
		p.validating = true
	}
	sc.provs[0].script[3] = []c09Reply{c09B(sc.mutant(3, "forged-self")), c09B(sc.gen[3])}
	sc.provs[0].kind = "forged-first-answer(3)"
	sc.order = []int64{2, 3, 1}
	return sc
}

// F50: findNewPrimary made the responding witness primary BEFORE removeWitnesses, which refuses to
// empty the witness list; when every other witness had been marked bad, the respondent ended up
// primary AND witness, and in later forward verifications it confirmed its own headers.
//
// A self-witness scenario has two parts.  Call 1 drives the client into findNewPrimary(remove =
// true) with the other witnesses answering malevolently BEFORE the witness pX answers with a
// block (entry: "primary-bad" the primary returns ErrBadLightBlock for the requested height,
// "backwards" the primary serves a forged header on the backwards walk, "seq-interim" sequential
// mode, the primary serves an interim block without +2/3).  Call 2 is a forward verification of
// height T2 for which pX serves a header (the genuine one, or one forged by a coalition just
// above the trust level with a set of its own) and every other witness is of no use (others:
// "noresp", "notfound", "behind", "bad").  Unrepaired code: the header is stored with pX alone
// vouching for it.  Repaired code: call 1 leaves the providers alone.
var (
	c09SelfEntries = []string{"primary-bad", "backwards", "seq-interim"}
	c09SelfOthers  = []string{"noresp", "notfound", "behind", "bad"}
)

type c09SelfOpt struct {
	entry   string
	others  []string // per other witness: its behaviour at T2
	err1    []int    // per other witness: its error in call 1 (3 bad block, 4 context)
	forged  bool
	seq     bool
	xpos    int  // position of pX among the witnesses
	shuffle bool // random arrival order (else: the other witnesses first)
	extra   bool // a further Update call
}

func c09SelfWitness(r *vg.Rand, o c09SelfOpt) *c09Scn {
	sc := c09NewScn(r)
	sc.sequential = o.seq
	if r.Bool() {
		sc.prune = 1000
	}
	sc.genChainP(int64(9+r.Intn(3)), []int64{2, 1, 1, 2})
	n := sc.n
	V := sc.vals[1]
	tot := V.total()
	level := tot * int64(sc.num) / int64(sc.den)
	sc.root = 4
	sc.rootHash = sc.ghash(sc.root)
	T2 := sc.root + 2 + r.Int63n(2) // 6 or 7
	var T1 int64
	prim := sc.honestScript()
	pk := ""
	switch o.entry {
	case "primary-bad":
		T1 = T2 + 1
		prim[T1] = []c09Reply{c09E(3)}
		pk = fmt.Sprintf("ErrBadLightBlock at %d", T1)
	case "backwards":
		T1 = 2
		kind := "forged-self"
		if r.Bool() {
			kind = "equivocation"
		}
		prim[sc.root-1] = []c09Reply{c09B(sc.mutant(sc.root-1, kind))}
		pk = fmt.Sprintf("%s at %d", kind, sc.root-1)
	default: // seq-interim
		T1 = T2 + 1
		prim[sc.root+1] = []c09Reply{c09B(sc.mutant(sc.root+1, "weak-commit"))}
		pk = fmt.Sprintf("weak-commit at %d", sc.root+1)
	}
	x := sc.honestScript()
	xk := "honest"
	if o.forged {
		co := c09Subset(V, level+1)
		var keys []int
		var pows []int64
		for _, i := range co {
			keys = append(keys, V.keys[i])
			pows = append(pows, V.pows[i])
		}
		for i := 0; i < 2; i++ {
			keys = append(keys, sc.freshKey())
			pows = append(pows, int64(2+r.Intn(3)))
		}
		f := sc.mkVS(keys, pows)
		sp := sc.gspec[T2]
		sp.kind = fmt.Sprintf("forged(coalition %v power %d of %d)", co, level+1, tot)
		sp.vs, sp.nvh, sp.app, sp.modes = f, f.hash, c09H("forged-app"), nil
		x[T2] = []c09Reply{c09B(sc.build(sp))}
		xk = fmt.Sprintf("forged at %d", T2)
	}
	sc.ops = []c09Op{{h: T1, now: sc.nowMain}, {h: T2, now: sc.nowMain}}
	if o.extra {
		sc.ops = append(sc.ops, c09Op{update: true, now: sc.nowMain})
	}
	nw := 1 + len(o.others)
	sc.setProviders(1 + nw)
	sc.provs[0].script, sc.provs[0].kind, sc.provs[0].validating = prim, "selfwitness-primary("+pk+")", false
	k := 0
	var xid int64
	var rest []int64
	for i, p := range sc.provs[1:] {
		if i == o.xpos%nw {
			p.script, p.kind, p.validating = x, "selfwitness-respondent("+xk+")", false
			xid = p.id
			continue
		}
		w := sc.honestScript()
		w[T1] = []c09Reply{c09E(o.err1[k])}
		switch o.others[k] {
		case "noresp":
			w[T2] = []c09Reply{c09E(0)}
		case "notfound":
			w[T2] = []c09Reply{c09E(1)}
		case "bad":
			w[T2] = []c09Reply{c09E(3)}
		case "ctx":
			w[T2] = []c09Reply{c09E(4)}
		case "behind":
			top := T2 - 1
			for h := top + 1; h <= n; h++ {
				if h != T1 {
					w[h] = []c09Reply{c09E(2)}
				}
			}
			w[0] = []c09Reply{c09B(sc.gen[top])}
		}
		p.script, p.kind, p.validating = w, fmt.Sprintf("E%d at %d, %s at %d", o.err1[k], T1, o.others[k], T2), r.Bool()
		rest = append(rest, p.id)
		k++
	}
	if o.shuffle {
		for _, i := range r.Perm(len(sc.provs)) {
			sc.order = append(sc.order, sc.provs[i].id)
		}
	} else {
		sc.order = append(append(append([]int64{}, rest...), xid), 1)
	}
	return sc
}

func c09SelfKind(o c09SelfOpt) string {
	mode, what := "skip", "honest"
	if o.seq {
		mode = "seq"
	}
	if o.forged {
		what = "forged"
	}
	return fmt.Sprintf("selfwitness-%s-%s-%s/%s", o.entry, strings.Join(o.others, "+"), what, mode)
}

// a random member of the family: 1..3 other witnesses with individual behaviours (also helpful
// ones), any position of the respondent, any arrival order
func c09SelfRandom(r *vg.Rand) (*c09Scn, string) {
	o := c09SelfOpt{seq: r.Chance(40), xpos: r.Intn(4), shuffle: r.Chance(60), extra: r.Chance(40)}
	if o.seq {
		o.entry = c09SelfEntries[r.Intn(3)]
	} else {
		o.entry = c09SelfEntries[r.Intn(2)]
		o.forged = r.Bool()
	}
	all := append(append([]string{}, c09SelfOthers...), "honest", "ctx")
	for i := 0; i < 1+r.Intn(3); i++ {
		o.others = append(o.others, all[r.Intn(len(all))])
		o.err1 = append(o.err1, 3+r.Intn(2))
	}
	sc := c09SelfWitness(r, o)
	switch x := r.Intn(100); {
	case x < 70:
	case x < 85:
		sc.num, sc.den = 1, 2
	}
	return sc, "random-" + c09SelfKind(o)
}

func TestVerifC09Client(t *testing.T) {
	// one P: goroutine ids are handed out in creation order (see c09Sched.schedule); the witness
	// goroutines are run one after another by the gate anyway
	defer runtime.GOMAXPROCS(runtime.GOMAXPROCS(1))
	cs := vg.NewCases("C09", "c09_client", "TM.C09.Exec")
	root := vg.NewRand(vg.Seed())
	t0 := time.Now()

	for k := 0; k < 3; k++ {
		id := cs.NextID()
		if !cs.Want(id) {
			continue
		}
		r := root.Fork(uint64(id))
		switch k {
		case 0:
			c09DirectedF2(r, true).run(cs, id, "directed-F2", "directed F2: liar witness (unknown signers) arrives first, other witness dead")
		case 1:
			c09DirectedF2(r, false).run(cs, id, "directed-F2", "directed F2 variant: dead witness arrives first")
		case 2:
			c09DirectedF23(r).run(cs, id, "directed-F23", "directed F23: primary equivocates on the backwards target")
		}
	}

	// collusion family (deterministic list)
	levels := [][2]uint64{{1, 3}, {1, 2}, {2, 3}}
	for rep := 0; rep < vg.Scale(1, 4); rep++ {
		for _, what := range append(append([]string{}, c09CollusionKinds...), c09CollusionFixed...) {
			lv := levels
			fixed := false
			for _, f := range c09CollusionFixed {
				fixed = fixed || f == what
			}
			if fixed {
				lv = levels[rep%3 : rep%3+1]
			}
			for _, l := range lv {
				for _, seq := range []bool{false, true} {
					id := cs.NextID()
					if !cs.Want(id) {
						continue
					}
					mode := "skip"
					if seq {
						mode = "seq"
					}
					kind := fmt.Sprintf("collusion-%s/%s", what, mode)
					c09Collusion(root.Fork(uint64(id)), what, seq, l[0], l[1]).run(cs, id, kind,
						fmt.Sprintf("%s: primary and every responsive witness serve the same blocks (level %d/%d)", kind, l[0], l[1]))
				}
			}
		}
	}

	n := vg.Scale(260, 6000)
	for k := 0; k < n; k++ {
		id := cs.NextID()
		if !cs.Want(id) {
			continue
		}
		sc, kind := c09Random(root.Fork(uint64(id)))
		sc.run(cs, id, kind, "random scenario "+kind)
	}
	// self-witness family (F50); appended so that the ids of the older cases stay as they were
	for _, seq := range []bool{false, true} {
		for _, entry := range c09SelfEntries {
			if entry == "seq-interim" && !seq {
				continue
			}
			for _, others := range c09SelfOthers {
				for _, forged := range []bool{false, true} {
					if forged && seq {
						continue // a set of the coalition's own making fails the adjacent check
					}
					id := cs.NextID()
					if !cs.Want(id) {
						continue
					}
					r := root.Fork(uint64(id))
					o := c09SelfOpt{entry: entry, others: []string{others}, err1: []int{3 + r.Intn(2)}, forged: forged, seq: seq, xpos: r.Intn(2)}
					kind := c09SelfKind(o)
					c09SelfWitness(r, o).run(cs, id, kind, "directed F50 "+kind+
						": a witness is promoted while the only other witness is marked bad, then serves a header no other witness confirms")
				}
			}
		}
	}
	for k := 0; k < vg.Scale(16, 300); k++ {
		id := cs.NextID()
		if !cs.Want(id) {
			continue
		}
		sc, kind := c09SelfRandom(root.Fork(uint64(id)))
		sc.run(cs, id, kind, "random scenario "+kind)
	}
	// attack family (evidence contents, F77; forged header times, seed C09e); appended
	for rep := 0; rep < vg.Scale(1, 6); rep++ {
		for _, kind := range []string{"equivocation", "amnesia", "lunatic"} {
			for _, dt := range []int{-1, 0, 1} {
				for _, collude := range []bool{false, true} {
					for _, seq := range []bool{false, true} {
						if seq && kind == "lunatic" {
							continue // a set of the coalition's own making fails the adjacent check
						}
						id := cs.NextID()
						if !cs.Want(id) {
							continue
						}
						r := root.Fork(uint64(id))
						o := c09AttackOpt{kind: kind, dt: dt, collude: collude, seq: seq, extra: r.Chance(30)}
						k := c09AttackKind(o)
						c09Attack(r, o).run(cs, id, k, k+": the primary serves a verifiable fork, the validator set changed between the root and the fork")
					}
				}
			}
		}
	}
	// bisection families (trust level of pivots; validator set of the trusted end); appended
	for rep := 0; rep < vg.Scale(1, 4); rep++ {
		for _, l := range [][2]uint64{{1, 2}, {2, 3}, {3, 5}, {4, 7}} {
			id := cs.NextID()
			if !cs.Want(id) {
				continue
			}
			kind := fmt.Sprintf("pivot-level-%d/%d", l[0], l[1])
			c09PivotLevel(root.Fork(uint64(id)), l[0], l[1]).run(cs, id, kind,
				kind+": every provider serves, from the first pivot on, blocks signed by more than 1/3 but not more than the trust level of the trusted set")
		}
		for _, collude := range []bool{false, true} {
			id := cs.NextID()
			if !cs.Want(id) {
				continue
			}
			kind := fmt.Sprintf("stale-set/colluding-witness=%v", collude)
			c09StaleSet(root.Fork(uint64(id)), collude).run(cs, id, kind,
				kind+": the set changed between root and pivot; the fork is signed by a validator strong in the root's set and weak in the pivot's")
		}
	}
	if len(c09Blocked) > 0 {
		cs.Count("goroutines-left-blocked-on-errc", len(c09Blocked))
	}
	cs.Notes = append(cs.Notes, fmt.Sprintf("go part took %s", time.Since(t0).Round(time.Millisecond)))
	if err := cs.Write(); err != nil {
		t.Fatal(err)
	}
}
