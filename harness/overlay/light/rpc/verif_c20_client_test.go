//go:build verif

package rpc

// C20 correspondence harness for light/rpc/client.go (injected with `go test -overlay`).
//
// The real Client runs over a scripted rpcclient.Client (c20Server: every answer travels through
// a JSON round trip, as over the wire, so nothing is shared with the generated chain and no
// memoised hash survives a falsification) and a stub LightClient (c20LC) that serves the light
// blocks of a generated chain and records the calls made to it.  For every verifying method the
// honest answer and field-level falsifications of it are offered; the harness records whether
// the answer was relayed (nil error), the light-client calls, and the views of the response the
// Coq model decides on.

import (
	"bytes"
	"context"
	"crypto/sha256"
	"encoding/binary"
	"errors"
	"fmt"
	"os"
	"regexp"
	"sort"
	"strings"
	"testing"
	"time"

	abci "github.com/tendermint/tendermint/abci/types"
	"github.com/tendermint/tendermint/crypto/ed25519"
	"github.com/tendermint/tendermint/crypto/merkle"
	vg "github.com/tendermint/tendermint/internal/verifgen"
	tmbytes "github.com/tendermint/tendermint/libs/bytes"
	tmjson "github.com/tendermint/tendermint/libs/json"
	tmcrypto "github.com/tendermint/tendermint/proto/tendermint/crypto"
	tmstate "github.com/tendermint/tendermint/proto/tendermint/state"
	tmproto "github.com/tendermint/tendermint/proto/tendermint/types"
	tmversion "github.com/tendermint/tendermint/proto/tendermint/version"
	rpcclient "github.com/tendermint/tendermint/rpc/client"
	ctypes "github.com/tendermint/tendermint/rpc/core/types"
	sm "github.com/tendermint/tendermint/state"
	"github.com/tendermint/tendermint/types"
	"github.com/tendermint/tendermint/version"
)

// ---------------------------------------------------------------- generated chain

type c20App struct { // application state after a block: store name -> key -> value
	stores map[string]map[string][]byte
}

type c20Chain struct {
	idx     int
	chainID string
	n       int64
	vals    *types.ValidatorSet
	blocks  []*types.Block // [h-1]
	ids     []types.BlockID
	commits []*types.Commit // commit for block h at [h-1]
	results [][]*abci.ResponseDeliverTx
	bbe     [][]abci.Event
	ebe     [][]abci.Event
	params  []tmproto.ConsensusParams
	apps    []*c20App // apps[h] = state after block h (apps[0] = genesis)
}

func c20Sum(b []byte) []byte { s := sha256.Sum256(b); return s[:] }

func c20Enc(b []byte) []byte { // crypto/merkle encodeByteSlice
	var buf [binary.MaxVarintLen64]byte
	n := binary.PutUvarint(buf[:], uint64(len(b)))
	return append(append([]byte{}, buf[:n]...), b...)
}

func c20SortedKeys(m map[string][]byte) []string {
	ks := make([]string, 0, len(m))
	for k := range m {
		ks = append(ks, k)
	}
	sort.Strings(ks)
	return ks
}

func (a *c20App) storeNames() []string {
	ks := make([]string, 0, len(a.stores))
	for k := range a.stores {
		ks = append(ks, k)
	}
	sort.Strings(ks)
	return ks
}

func (a *c20App) storeLeaves(name string) (keys []string, leaves [][]byte) {
	keys = c20SortedKeys(a.stores[name])
	for _, k := range keys {
		leaves = append(leaves, append(c20Enc([]byte(k)), c20Enc(c20Sum(a.stores[name][k]))...))
	}
	return
}

func (a *c20App) multiLeaves() (names []string, leaves [][]byte) {
	names = a.storeNames()
	for _, nm := range names {
		_, sl := a.storeLeaves(nm)
		leaves = append(leaves, append(c20Enc([]byte(nm)), c20Enc(c20Sum(merkle.HashFromByteSlices(sl)))...))
	}
	return
}

func (a *c20App) root() []byte {
	_, l := a.multiLeaves()
	return merkle.HashFromByteSlices(l)
}

func (a *c20App) clone() *c20App {
	b := &c20App{stores: map[string]map[string][]byte{}}
	for n, s := range a.stores {
		b.stores[n] = map[string][]byte{}
		for k, v := range s {
			b.stores[n][k] = append([]byte{}, v...)
		}
	}
	return b
}

// value proof ops for (store, key): ValueOp in the store tree, then ValueOp in the multi-store tree
func (a *c20App) valueOps(store, key string) *tmcrypto.ProofOps {
	keys, leaves := a.storeLeaves(store)
	_, proofs := merkle.ProofsFromByteSlices(leaves)
	i := sort.SearchStrings(keys, key)
	names, ml := a.multiLeaves()
	_, mproofs := merkle.ProofsFromByteSlices(ml)
	j := sort.SearchStrings(names, store)
	return &tmcrypto.ProofOps{Ops: []tmcrypto.ProofOp{
		merkle.NewValueOp([]byte(key), proofs[i]).ProofOp(),
		merkle.NewValueOp([]byte(store), mproofs[j]).ProofOp(),
	}}
}

// absence "proof" for (store, key): reveals all leaves of the store (c20AbsentOp), then the
// ValueOp of the multi-store tree
const c20AbsentType = "c20:absent"

type c20AbsentOp struct {
	key    []byte
	leaves [][]byte
}

func (op c20AbsentOp) GetKey() []byte { return op.key }
func (op c20AbsentOp) ProofOp() tmcrypto.ProofOp {
	var data []byte
	for _, l := range op.leaves {
		data = append(data, c20Enc(l)...)
	}
	return tmcrypto.ProofOp{Type: c20AbsentType, Key: op.key, Data: data}
}
func (op c20AbsentOp) Run(args [][]byte) ([][]byte, error) {
	if len(args) != 0 {
		return nil, errors.New("absence op takes no value")
	}
	pre := c20Enc(op.key)
	for _, l := range op.leaves {
		if bytes.HasPrefix(l, pre) && len(l) == len(pre)+33 {
			return nil, errors.New("key is present")
		}
	}
	return [][]byte{merkle.HashFromByteSlices(op.leaves)}, nil
}
func c20AbsentDecoder(pop tmcrypto.ProofOp) (merkle.ProofOperator, error) {
	op := c20AbsentOp{key: pop.Key}
	d := pop.Data
	for len(d) > 0 {
		n, k := binary.Uvarint(d)
		if k <= 0 || uint64(len(d)-k) < n {
			return nil, errors.New("bad absent op data")
		}
		op.leaves = append(op.leaves, d[k:k+int(n)])
		d = d[k+int(n):]
	}
	return op, nil
}

func (a *c20App) absentOps(store, key string) *tmcrypto.ProofOps {
	_, leaves := a.storeLeaves(store)
	names, ml := a.multiLeaves()
	_, mproofs := merkle.ProofsFromByteSlices(ml)
	j := sort.SearchStrings(names, store)
	return &tmcrypto.ProofOps{Ops: []tmcrypto.ProofOp{
		c20AbsentOp{key: []byte(key), leaves: leaves}.ProofOp(),
		merkle.NewValueOp([]byte(store), mproofs[j]).ProofOp(),
	}}
}

const c20SpecialStore = "spc"

var c20SpecialKeys = []string{"a+b", "a b", "a%2Fb", "a/b", "a%20b", "a%2Bb", "a%2bb", "x:6162", "ab", "x:zz", "x:", "x", "%41", "A", "%", "%zz",
	"\xc3\xa9", "%C3%A9", "\x00\xff\x80", "q?#&=:;,@$", "~-_.!*'()", "/", "//lead", "trail/", " sp", "sp ", "+", " ", "\xe6\x97\xa5\xe6\x9c\xac", "a&b=c", "a:b"}

// store names: siblings under '+' / ' ', under the "x:" hex prefix (7374 = "st"), under %-escapes, and raw bytes
var c20SiblingStores = []string{"s+t", "s t", "x:7374", "st", "s%20t", "p/q%", "\xfc\xfe:#?"}

// (asked, substituted) pairs: the substituted key is what a faulty encode / decode step turns the asked one into
var c20SiblingKeys = [][2]string{{"a+b", "a b"}, {"a b", "a+b"}, {"a%2Fb", "a/b"}, {"a/b", "a%2Fb"}, {"a%20b", "a b"}, {"a b", "a%20b"},
	{"a%2Bb", "a+b"}, {"a%2bb", "a%2Bb"}, {"x:6162", "ab"}, {"ab", "x:6162"}, {"%41", "A"}, {"\xc3\xa9", "%C3%A9"}, {"%C3%A9", "\xc3\xa9"},
	{"+", " "}, {" ", "+"}, {" sp", "sp "}, {"x:", "x"}, {"a:b", "a&b=c"}}
var c20SiblingStorePairs = [][2]string{{"s+t", "s t"}, {"s t", "s+t"}, {"x:7374", "st"}, {"st", "x:7374"}, {"s%20t", "s t"}, {"s t", "s%20t"}}

var c20StoreRE = regexp.MustCompile(`\/store\/(.+)\/key`)

// key-path functions: 0 = DefaultMerkleKeyPathFn (URL, URL), 1 = store URL + key hex, 2 = both hex
func c20KPFn(mode int) KeyPathFunc {
	if mode == 0 {
		return DefaultMerkleKeyPathFn()
	}
	return func(path string, key []byte) (merkle.KeyPath, error) {
		m := c20StoreRE.FindStringSubmatch(path)
		if len(m) != 2 {
			return nil, fmt.Errorf("can't find store name in %s", path)
		}
		kp := merkle.KeyPath{}
		if mode == 2 {
			kp = kp.AppendKey([]byte(m[1]), merkle.KeyEncodingHex)
		} else {
			kp = kp.AppendKey([]byte(m[1]), merkle.KeyEncodingURL)
		}
		return kp.AppendKey(key, merkle.KeyEncodingHex), nil
	}
}

func c20Events(r *vg.Rand) []abci.Event {
	var evs []abci.Event
	for i := r.Intn(3); i > 0; i-- {
		evs = append(evs, abci.Event{Type: fmt.Sprintf("ev%d", r.Intn(4)), Attributes: []abci.EventAttribute{
			{Key: []byte("k"), Value: r.Bytes(1 + r.Intn(3)), Index: r.Bool()}}})
	}
	return evs
}

func c20Time(h int64) time.Time { return time.Unix(1700000000+h*7, 0).UTC() }

func c20NewChain(idx int, r *vg.Rand) *c20Chain { return c20NewChainOpt(idx, r, false) }

// noAppHash: the application does not commit to its state - every header carries an EMPTY AppHash
// (legal: Header.ValidateBasic does not constrain it), so no query answer can be proven
func c20NewChainOpt(idx int, r *vg.Rand, noAppHash bool) *c20Chain {
	c := &c20Chain{idx: idx, chainID: fmt.Sprintf("c20-chain-%d", idx), n: int64(4 + r.Intn(2))}
	nv := 1 + r.Intn(3)
	var vs []*types.Validator
	for i := 0; i < nv; i++ {
		pk := ed25519.GenPrivKeyFromSecret([]byte{byte(idx), byte(i), 'v'}).PubKey()
		vs = append(vs, types.NewValidator(pk, int64(1+r.Intn(9))))
	}
	c.vals = types.NewValidatorSet(vs)
	app := &c20App{stores: map[string]map[string][]byte{
		"acc":  {"alice": r.Bytes(3), "bob": r.Bytes(2)},
		"bank": {"supply": r.Bytes(4)},
	}}
	if r.Bool() {
		app.stores["acc"]["carol"] = r.Bytes(1)
		app.stores["bank"]["fee"] = []byte{7}
		app.stores["bank"]["mint"] = r.Bytes(5)
	}
	// stores and keys over the characters key-path encodings treat specially, incl. pairs that differ
	// only by an encoding step ("a+b" / "a b", "a%2Fb" / "a/b", "x:6162" / "ab", ...), every value distinct
	val := func(i, j int) []byte { return append([]byte{byte(i), byte(j)}, r.Bytes(2)...) }
	app.stores[c20SpecialStore] = map[string][]byte{}
	for j, k := range c20SpecialKeys {
		app.stores[c20SpecialStore][k] = val(0, j)
	}
	for i, st := range c20SiblingStores {
		app.stores[st] = map[string][]byte{"k": val(1+i, 0), "a+b": val(1+i, 1), "a b": val(1+i, 2)}
	}
	c.apps = append(c.apps, app.clone())
	appHash := func(a *c20App) []byte {
		if noAppHash {
			return nil
		}
		return a.root()
	}
	params := *types.DefaultConsensusParams()
	if r.Bool() {
		params.Block.MaxGas = int64(r.Intn(1 << 30))
	}
	changeAt := int64(2 + r.Intn(3))
	lastID := types.BlockID{}
	lastCommit := types.NewCommit(0, 0, types.BlockID{}, nil)
	lastResults := []byte(nil)
	for h := int64(1); h <= c.n; h++ {
		if h == changeAt {
			params.Block.MaxBytes = int64(1048576 + 1024*r.Intn(4096)) // not below evidence.max_bytes
			if r.Bool() {
				params.Block.MaxGas = int64(r.Intn(1<<40)) - 1
			}
		}
		var txs []types.Tx
		ntx := r.Intn(6)
		if h == 2 {
			ntx = 3 + r.Intn(3) // at least one block with a real tree
		}
		if h == 3 {
			ntx = 0
		}
		for i := 0; i < ntx; i++ {
			txs = append(txs, types.Tx(append([]byte{byte(h), byte(i)}, r.Bytes(r.Intn(5))...)))
		}
		if ntx >= 4 && r.Chance(30) {
			txs[3] = append(types.Tx{}, txs[0]...) // the same transaction twice in a block
		}
		b := types.MakeBlock(h, txs, lastCommit, nil)
		b.Header.Populate(tmversion.Consensus{Block: version.BlockProtocol, App: 1}, c.chainID, c20Time(h), lastID,
			c.vals.Hash(), c.vals.Hash(), types.HashConsensusParams(params), appHash(c.apps[h-1]), lastResults,
			c.vals.Validators[int(h)%nv].Address)
		ps := b.MakePartSet(types.BlockPartSizeBytes)
		id := types.BlockID{Hash: b.Hash(), PartSetHeader: ps.Header()}
		var sigs []types.CommitSig
		for i, v := range c.vals.Validators {
			sigs = append(sigs, types.CommitSig{BlockIDFlag: types.BlockIDFlagCommit, ValidatorAddress: v.Address,
				Timestamp: c20Time(h).Add(time.Second), Signature: c20Sum([]byte{byte(idx), byte(h), byte(i), 's'})})
		}
		commit := types.NewCommit(h, 0, id, sigs)
		// execution results of block h
		var res []*abci.ResponseDeliverTx
		for range txs {
			d := &abci.ResponseDeliverTx{Data: r.Bytes(r.Intn(5)), Log: fmt.Sprintf("log%d", r.Intn(100)),
				GasWanted: int64(r.Intn(1000)), GasUsed: int64(r.Intn(1000)), Events: c20Events(r)}
			switch r.Intn(6) {
			case 0:
				d.Code = uint32(1 + r.Intn(300))
				d.Codespace = "sdk"
			case 1:
				d.GasWanted = -1
			case 2:
				d.GasUsed = int64(1) << uint(31+r.Intn(31))
			}
			res = append(res, d)
		}
		if ntx > 0 && r.Chance(20) {
			res[0] = &abci.ResponseDeliverTx{} // all-zero result encodes to the empty string
		}
		app = app.clone()
		app.stores["acc"]["alice"] = r.Bytes(1 + r.Intn(4))
		if r.Bool() {
			app.stores["bank"][fmt.Sprintf("k%d", h)] = r.Bytes(2)
		}
		c.blocks = append(c.blocks, b)
		c.ids = append(c.ids, id)
		c.commits = append(c.commits, commit)
		c.results = append(c.results, res)
		c.bbe = append(c.bbe, c20Events(r))
		c.ebe = append(c.ebe, c20Events(r))
		c.params = append(c.params, params)
		c.apps = append(c.apps, app)
		lastID, lastCommit = id, commit
		lastResults = sm.ABCIResponsesResultsHash(&tmstate.ABCIResponses{DeliverTxs: res})
	}
	return c
}

func (c *c20Chain) lightBlock(h int64) *types.LightBlock {
	hdr := c.blocks[h-1].Header
	return &types.LightBlock{SignedHeader: &types.SignedHeader{Header: &hdr, Commit: c.commits[h-1]}, ValidatorSet: c.vals}
}

// ---------------------------------------------------------------- stub light client

type c20LC struct {
	c        *c20Chain
	extra    map[int64]*types.LightBlock // overrides (paging cases)
	trusted  map[int64]bool              // heights TrustedLightBlock knows
	updateOK bool
	// Update returns (nil, nil): neither an error nor a block, as light.Client.Update does when the
	// primary has nothing newer than the latest trusted light block (F80)
	updateNone bool
	calls      []string
}

// The cases in which the stub's Update has no newer block make the unrepaired client panic; they are
// generated only with VERIF_C20_F80=1 until repair F80 (fixes/F80-*.diff) is in the tree.
// The ConsensusParams(nil) cases (finding F86) fail on the unrepaired client; they are generated only with
// VERIF_C20_F86=1 until repair fixes/F86-*.diff is in the tree.  THE ONE PLACE TO FLIP: return true here.
func c20F86() bool { return os.Getenv("VERIF_C20_F86") != "0" } // on by default: the finding is recorded in known_findings.json

func c20F80() bool { return true } // regression cases of finding F80 (repaired in /repo)

func (l *c20LC) ChainID() string { return l.c.chainID }
func (l *c20LC) get(h int64) (*types.LightBlock, error) {
	if lb, ok := l.extra[h]; ok {
		return lb, nil
	}
	if h < 1 || h > l.c.n {
		return nil, fmt.Errorf("no light block at height %d", h)
	}
	return l.c.lightBlock(h), nil
}
func (l *c20LC) Update(ctx context.Context, now time.Time) (*types.LightBlock, error) {
	l.calls = append(l.calls, vg.Tup(vg.N(2), vg.Z(0)))
	if l.updateNone {
		return nil, nil
	}
	if !l.updateOK {
		return nil, errors.New("update failed")
	}
	return l.get(l.c.n)
}
func (l *c20LC) VerifyLightBlockAtHeight(ctx context.Context, h int64, now time.Time) (*types.LightBlock, error) {
	l.calls = append(l.calls, vg.Tup(vg.N(0), vg.Z(h)))
	return l.get(h)
}
func (l *c20LC) TrustedLightBlock(h int64) (*types.LightBlock, error) {
	l.calls = append(l.calls, vg.Tup(vg.N(1), vg.Z(h)))
	if h == 0 { // light.Client.TrustedLightBlock(0): the latest trusted light block
		for t, ok := range l.trusted {
			if ok && t > h {
				h = t
			}
		}
		if h == 0 {
			return nil, errors.New("no headers exist")
		}
	}
	if !l.trusted[h] {
		return nil, fmt.Errorf("light block %d not in the trusted store", h)
	}
	return l.get(h)
}

func c20HdrTerm(h *types.Header, hash []byte) string {
	return vg.Tup(vg.Z(h.Height), vg.Hx(hash), vg.Hx(h.LastCommitHash), vg.Hx(h.DataHash), vg.Hx(h.EvidenceHash),
		vg.Hx(h.ConsensusHash), vg.Hx(h.AppHash), vg.Hx(h.LastResultsHash))
}

func c20TxBytes(txs types.Txs) (out [][]byte) {
	for _, tx := range txs {
		out = append(out, tx)
	}
	return
}
func c20IDStr(id types.BlockID) string { // BlockID.String() abbreviates the hashes
	return fmt.Sprintf("%X:{total %d, hash %X}", []byte(id.Hash), id.PartSetHeader.Total, []byte(id.PartSetHeader.Hash))
}
func c20PSHTerm(p types.PartSetHeader) string { return vg.Tup(vg.Z(int64(p.Total)), vg.Hx(p.Hash)) }

// light-block table entry; the fields the client never reads from a light block are left out
func c20LBTerm(lb *types.LightBlock, withVals bool) string {
	h := lb.Header
	var vs [][]byte
	if withVals {
		for _, v := range lb.ValidatorSet.Validators {
			vs = append(vs, v.Address)
		}
	}
	ht := vg.Tup(vg.Z(h.Height), vg.Hx(h.Hash()), `""`, vg.Hx(h.DataHash), `""`,
		vg.Hx(h.ConsensusHash), vg.Hx(h.AppHash), vg.Hx(h.LastResultsHash))
	return vg.Tup(ht, vg.Hx(lb.Commit.Hash()), vg.Tup(vg.Hx(lb.Commit.BlockID.Hash), c20PSHTerm(lb.Commit.BlockID.PartSetHeader)), vg.HxL(vs))
}

func (l *c20LC) term(withVals bool) string {
	var tab []string
	hs := []int64{}
	for h := int64(1); h <= l.c.n; h++ {
		hs = append(hs, h)
	}
	for h := range l.extra {
		if h > l.c.n {
			hs = append(hs, h)
		}
	}
	sort.Slice(hs, func(i, j int) bool { return hs[i] < hs[j] })
	for _, h := range hs {
		lb, _ := l.get(h)
		tab = append(tab, c20LBTerm(lb, withVals))
	}
	var tr []int64
	for h, ok := range l.trusted {
		if ok {
			tr = append(tr, h)
		}
	}
	sort.Slice(tr, func(i, j int) bool { return tr[i] < tr[j] })
	latest := int64(0)
	if l.updateOK {
		latest = l.c.n
	}
	if l.updateNone {
		latest = -1
	}
	return vg.Tup(vg.L(tab), vg.ZL(tr), vg.Z(latest))
}

func c20NewLC(c *c20Chain) *c20LC {
	l := &c20LC{c: c, trusted: map[int64]bool{}, updateOK: true, extra: map[int64]*types.LightBlock{}}
	for h := int64(1); h <= c.n; h++ {
		l.trusted[h] = true
	}
	return l
}

// ---------------------------------------------------------------- scripted server

func c20Wire[T any](v *T) *T {
	bz, err := tmjson.Marshal(v)
	if err != nil {
		panic(fmt.Sprintf("c20 wire marshal: %v", err))
	}
	out := new(T)
	if err := tmjson.Unmarshal(bz, out); err != nil {
		panic(fmt.Sprintf("c20 wire unmarshal: %v", err))
	}
	return out
}

type c20Server struct {
	rpcclient.Client // nil: anything not scripted panics (and is recorded as a panic)
	block            *ctypes.ResultBlock
	info             *ctypes.ResultBlockchainInfo
	tx               *ctypes.ResultTx
	search           *ctypes.ResultTxSearch
	query            *ctypes.ResultABCIQuery
	params           *ctypes.ResultConsensusParams
	paramsFn         func(h *int64) (*ctypes.ResultConsensusParams, error) // answers per request (ConsensusParams as a conversation)
	paramsAsked      []string
	results          *ctypes.ResultBlockResults
	latest           int64
	asked            []string
}

func (s *c20Server) IsRunning() bool { return true }
func (s *c20Server) Block(ctx context.Context, h *int64) (*ctypes.ResultBlock, error) {
	return c20Wire(s.block), nil
}
func (s *c20Server) BlockByHash(ctx context.Context, hash []byte) (*ctypes.ResultBlock, error) {
	return c20Wire(s.block), nil
}
func (s *c20Server) BlockchainInfo(ctx context.Context, min, max int64) (*ctypes.ResultBlockchainInfo, error) {
	return c20Wire(s.info), nil
}
func (s *c20Server) Tx(ctx context.Context, hash []byte, prove bool) (*ctypes.ResultTx, error) {
	return c20Wire(s.tx), nil
}
func (s *c20Server) TxSearch(ctx context.Context, query string, prove bool, page, perPage *int,
	orderBy string) (*ctypes.ResultTxSearch, error) {
	return c20Wire(s.search), nil
}
func (s *c20Server) ABCIQueryWithOptions(ctx context.Context, path string, data tmbytes.HexBytes,
	opts rpcclient.ABCIQueryOptions) (*ctypes.ResultABCIQuery, error) {
	if !opts.Prove {
		s.asked = append(s.asked, "query-without-prove")
	}
	return c20Wire(s.query), nil
}
func (s *c20Server) ConsensusParams(ctx context.Context, h *int64) (*ctypes.ResultConsensusParams, error) {
	if s.paramsFn != nil {
		s.paramsAsked = append(s.paramsAsked, c20OptZ(h))
		res, err := s.paramsFn(h)
		if err != nil {
			return nil, err
		}
		return c20Wire(res), nil
	}
	return c20Wire(s.params), nil
}
func (s *c20Server) BlockResults(ctx context.Context, h *int64) (*ctypes.ResultBlockResults, error) {
	if h != nil {
		s.asked = append(s.asked, fmt.Sprintf("results@%d", *h))
	}
	return c20Wire(s.results), nil
}
func (s *c20Server) Status(ctx context.Context) (*ctypes.ResultStatus, error) {
	return &ctypes.ResultStatus{SyncInfo: ctypes.SyncInfo{LatestBlockHeight: s.latest}}, nil
}

// honest answers, built the way rpc/core builds them
func (c *c20Chain) honestBlock(h int64) *ctypes.ResultBlock {
	return &ctypes.ResultBlock{BlockID: c.ids[h-1], Block: c.blocks[h-1]}
}
func (c *c20Chain) honestMeta(h int64) *types.BlockMeta {
	b := c.blocks[h-1]
	return &types.BlockMeta{BlockID: c.ids[h-1], BlockSize: b.Size(), Header: b.Header, NumTxs: len(b.Data.Txs)}
}
func (c *c20Chain) honestTx(h int64, i int) *ctypes.ResultTx {
	b := c.blocks[h-1]
	tx := b.Data.Txs[i]
	return &ctypes.ResultTx{Hash: tx.Hash(), Height: h, Index: uint32(i), TxResult: *c.results[h-1][i], Tx: tx,
		Proof: b.Data.Txs.Proof(i)}
}
func (c *c20Chain) honestResults(h int64) *ctypes.ResultBlockResults {
	return &ctypes.ResultBlockResults{Height: h, TxsResults: c.results[h-1], BeginBlockEvents: c.bbe[h-1],
		EndBlockEvents: c.ebe[h-1]}
}
func (c *c20Chain) honestParams(h int64) *ctypes.ResultConsensusParams {
	return &ctypes.ResultConsensusParams{BlockHeight: h, ConsensusParams: c.params[h-1]}
}
func (c *c20Chain) honestQuery(h int64, store, key string) *ctypes.ResultABCIQuery {
	a := c.apps[h]
	return &ctypes.ResultABCIQuery{Response: abci.ResponseQuery{Key: []byte(key), Value: a.stores[store][key],
		ProofOps: a.valueOps(store, key), Height: h}}
}

// ---------------------------------------------------------------- running one call

type c20Run struct {
	relayed bool
	calls   []string
	err     string
}

func c20Call(lc *c20LC, f func() error) (out c20Run) {
	lc.calls = nil
	defer func() {
		if p := recover(); p != nil {
			out.relayed = false
			out.err = fmt.Sprintf("panic: %v", p)
			out.calls = append(append([]string{}, lc.calls...), vg.Tup(vg.N(9), vg.Z(0)))
		}
	}()
	err := f()
	out.relayed = err == nil
	if err != nil {
		out.err = err.Error()
	}
	out.calls = append([]string{}, lc.calls...)
	return
}

func c20Client(srv *c20Server, lc *c20LC, withKP bool) *Client {
	if withKP {
		return c20ClientKP(srv, lc, DefaultMerkleKeyPathFn())
	}
	return c20ClientKP(srv, lc, nil)
}

func c20ClientKP(srv *c20Server, lc *c20LC, fn KeyPathFunc) *Client {
	var opts []Option
	if fn != nil {
		opts = append(opts, KeyPathFn(fn))
	}
	cl := NewClient(srv, lc, opts...)
	cl.RegisterOpDecoder(c20AbsentType, c20AbsentDecoder)
	return cl
}

func c20Flip(b []byte, r *vg.Rand) []byte {
	o := append([]byte{}, b...)
	if len(o) == 0 {
		return []byte{1}
	}
	o[r.Intn(len(o))] ^= 1 << uint(r.Intn(8))
	return o
}

func c20OtherHeight(c *c20Chain, h int64, r *vg.Rand) int64 {
	o := 1 + r.Int63n(c.n)
	if o == h {
		o = h%c.n + 1
	}
	return o
}

// ---------------------------------------------------------------- Block / BlockByHash

func c20BlockTerm(b *types.Block) string {
	if b == nil {
		return "None"
	}
	hdrOK := b.Header.ValidateBasic() == nil
	lcOK := b.LastCommit != nil && b.LastCommit.ValidateBasic() == nil
	var lcHash []byte
	if b.LastCommit != nil {
		lcHash = b.LastCommit.Hash()
	}
	evOK := true
	for _, ev := range b.Evidence.Evidence {
		if ev.ValidateBasic() != nil {
			evOK = false
		}
	}
	var txs [][]byte
	for _, tx := range b.Data.Txs {
		txs = append(txs, tx)
	}
	h := b.Header // fields as received, before Hash() fills derived ones
	return vg.Opt(true, vg.Tup(c20HdrTerm(&h, b.Hash()), vg.B(hdrOK), vg.B(lcOK), vg.Hx(lcHash), vg.HxL(txs),
		vg.B(evOK), vg.Hx(b.Evidence.Hash())))
}

var c20BlockKinds = []string{"honest", "honest", "other-height-genuine", "tx-flip", "tx-flip+rehash", "tx-drop+rehash",
	"tx-add+rehash", "tx-swap+rehash", "tx-swap", "hdr-apphash+reid", "hdr-apphash", "hdr-results+reid", "hdr-cons+reid",
	"hdr-vals+reid", "hdr-time+reid", "hdr-height+reid", "hdr-height-beyond+reid", "hdr-lastblockid+reid",
	"id-hash", "id-parts", "id-parts-total", "id-parts-other-block", "id-zero", "commit-sig", "commit-sig+rehash", "block-nil", "hdr-datahash-nil",
	"hdr-proposer-short+reid", "hdr-valhash-empty+idzero", "lc-cannot-verify", "fork-block", "honest-latest"}

func c20MutBlock(kind string, c *c20Chain, h int64, r *vg.Rand) (res *ctypes.ResultBlock, descr string) {
	res = c20Wire(c.honestBlock(h))
	b := res.Block
	reid := func() { res.BlockID.Hash = c20Wire(res).Block.Hash() }
	retx := func() { b.DataHash = types.Txs(b.Data.Txs).Hash(); reid() }
	switch kind {
	case "other-height-genuine":
		o := c20OtherHeight(c, h, r)
		res = c20Wire(c.honestBlock(o))
		descr = fmt.Sprintf("genuine block %d", o)
	case "tx-flip", "tx-flip+rehash":
		if len(b.Data.Txs) == 0 {
			b.Data.Txs = types.Txs{types.Tx("forged")}
		} else {
			i := r.Intn(len(b.Data.Txs))
			b.Data.Txs[i] = c20Flip(b.Data.Txs[i], r)
		}
		if kind == "tx-flip+rehash" {
			retx()
		}
	case "tx-drop+rehash":
		if len(b.Data.Txs) > 0 {
			b.Data.Txs = b.Data.Txs[1:]
		} else {
			b.Data.Txs = types.Txs{types.Tx("x")}
		}
		retx()
	case "tx-add+rehash":
		b.Data.Txs = append(b.Data.Txs, types.Tx("forged"))
		retx()
	case "tx-swap", "tx-swap+rehash":
		if len(b.Data.Txs) >= 2 {
			b.Data.Txs[0], b.Data.Txs[1] = b.Data.Txs[1], b.Data.Txs[0]
		} else {
			b.Data.Txs = append(b.Data.Txs, types.Tx("y"))
		}
		if kind == "tx-swap+rehash" {
			retx()
		}
	case "hdr-apphash+reid", "hdr-apphash":
		b.AppHash = c20Flip(b.AppHash, r)
		if kind == "hdr-apphash+reid" {
			reid()
		}
	case "hdr-results+reid":
		b.LastResultsHash = c20Sum([]byte("forged results"))
		reid()
	case "hdr-cons+reid":
		b.ConsensusHash = c20Flip(b.ConsensusHash, r)
		reid()
	case "hdr-vals+reid":
		if r.Bool() {
			b.ValidatorsHash = c20Flip(b.ValidatorsHash, r)
		} else {
			b.NextValidatorsHash = c20Flip(b.NextValidatorsHash, r)
		}
		reid()
	case "hdr-time+reid":
		b.Time = b.Time.Add(time.Second)
		reid()
	case "hdr-height+reid":
		b.Height = c20OtherHeight(c, h, r)
		reid()
	case "hdr-height-beyond+reid":
		b.Height = c.n + 1 + r.Int63n(3)
		reid()
	case "hdr-lastblockid+reid":
		b.LastBlockID.Hash = c20Sum([]byte("other parent"))
		b.LastBlockID.PartSetHeader = types.PartSetHeader{Total: 1, Hash: c20Sum([]byte("p"))}
		reid()
	case "id-hash":
		res.BlockID.Hash = c20Flip(res.BlockID.Hash, r)
	case "id-parts":
		res.BlockID.PartSetHeader.Hash = c20Flip(res.BlockID.PartSetHeader.Hash, r)
	case "id-parts-total": // only the number of parts is falsified
		res.BlockID.PartSetHeader.Total += 1 + uint32(r.Intn(76))
	case "id-parts-other-block": // the genuine part-set header of another block under this block's hash
		o := c20OtherHeight(c, h, r)
		res.BlockID.PartSetHeader = c.ids[o-1].PartSetHeader
		descr = fmt.Sprintf("id-parts-other-block (part-set header of block %d)", o)
	case "id-zero":
		res.BlockID = types.BlockID{}
	case "commit-sig", "commit-sig+rehash":
		if len(b.LastCommit.Signatures) > 0 {
			b.LastCommit.Signatures[0].Signature = c20Sum([]byte("other sig"))
		} else {
			b.LastCommit.Round = 1
		}
		if kind == "commit-sig+rehash" {
			b.LastCommitHash = c20Wire(b.LastCommit).Hash()
			reid()
		}
	case "block-nil":
		res.Block = nil
	case "hdr-datahash-nil":
		b.DataHash = nil
	case "hdr-proposer-short+reid":
		b.ProposerAddress = b.ProposerAddress[:19]
		reid()
	case "hdr-valhash-empty+idzero":
		b.ValidatorsHash = nil
		res.BlockID = types.BlockID{}
	case "fork-block": // a different, internally consistent block at the same height
		b.Data.Txs = types.Txs{types.Tx("fork")}
		b.AppHash = c20Sum([]byte("fork app"))
		retx()
	}
	if descr == "" {
		descr = kind
	}
	return
}

func c20BlockCases(t *testing.T, cs *vg.Cases, c *c20Chain, r *vg.Rand) {
	for k, kind := range c20BlockKinds {
		id := cs.NextID()
		if !cs.Want(id) {
			continue
		}
		rr := r.Fork(uint64(1000 + k))
		h := 1 + rr.Int63n(c.n)
		if k%5 == 0 {
			h = 2
		}
		byHash := k%2 == 1
		latest := kind == "honest-latest" // Block(nil): rpc/core answers with the block at the store's height
		if latest {
			h, byHash = c.n, false
		}
		lc := c20NewLC(c)
		res, descr := c20MutBlock(kind, c, h, rr)
		honest := kind == "honest" || latest
		if kind == "lc-cannot-verify" {
			lc.c = &c20Chain{chainID: c.chainID, n: 0} // light client fails for every height
		}
		srv := &c20Server{block: res}
		cl := c20Client(srv, lc, true)
		view := c20Wire(res)
		run := c20Call(lc, func() error {
			var err error
			if byHash {
				_, err = cl.BlockByHash(context.Background(), c.ids[h-1].Hash)
			} else if latest {
				_, err = cl.Block(context.Background(), nil)
			} else {
				_, err = cl.Block(context.Background(), &h)
			}
			return err
		})
		oterm := c20NewLC(c).term(false)
		if kind == "lc-cannot-verify" {
			oterm = vg.Tup("[]", "[]", vg.Z(0))
		}
		method := "Block"
		if byHash {
			method = "BlockByHash"
		}
		if latest {
			method = "Block(nil) answered as rpc/core does, with the block of the store's height: Block"
		}
		cs.Add(id, "block/"+kind, kind != "honest",
			vg.App("CBlock", oterm, vg.B(view.BlockID.ValidateBasic() == nil), vg.Hx(view.BlockID.Hash),
				c20PSHTerm(view.BlockID.PartSetHeader), c20BlockTerm(view.Block), vg.B(run.relayed), vg.L(run.calls), vg.B(honest)),
			fmt.Sprintf("chain#%d(n=%d) %s(height %d), server answers: %s; answer BlockID=%s (the verified commit of height %d is for %s); relayed=%v err=%q",
				c.idx, c.n, method, h, descr, c20IDStr(view.BlockID), h, c20IDStr(c.ids[h-1]), run.relayed, run.err))
	}
}

// ---------------------------------------------------------------- BlockchainInfo

var c20InfoKinds = []string{"honest", "honest-partial-store", "meta-hdr-apphash+reid", "meta-hdr-apphash", "meta-fork+reid",
	"meta-nil", "meta-size", "meta-numtxs", "last-height", "meta-dropped", "metas-reversed", "empty", "meta-id-parts",
	"meta-id-parts-total", "meta-height-swap+reid", "meta-beyond+reid", "last-untrusted-by-lc", "honest-latest"}

func c20InfoCases(t *testing.T, cs *vg.Cases, c *c20Chain, r *vg.Rand) {
	for k, kind := range c20InfoKinds {
		id := cs.NextID()
		if !cs.Want(id) {
			continue
		}
		rr := r.Fork(uint64(2000 + k))
		max := 2 + rr.Int63n(c.n-1)
		min := 1 + rr.Int63n(max-1)
		if kind == "honest-latest" { // BlockchainInfo(0, 0): rpc/core answers with the last (at most 20) metas up to the store's height
			min, max = 1, c.n
		}
		res := &ctypes.ResultBlockchainInfo{LastHeight: c.n}
		for h := max; h >= min; h-- {
			res.BlockMetas = append(res.BlockMetas, c.honestMeta(h))
		}
		res = c20Wire(res)
		lc := c20NewLC(c)
		pick := rr.Intn(len(res.BlockMetas))
		m := res.BlockMetas[pick]
		reid := func() { m.BlockID.Hash = m.Header.Hash() }
		// honest answers, whatever the light client happens to have stored already
		honest := kind == "honest" || kind == "honest-partial-store" || kind == "last-untrusted-by-lc" || kind == "honest-latest"
		qmin, qmax := min, max
		if kind == "honest-latest" {
			qmin, qmax = 0, 0
		}
		switch kind {
		case "honest-partial-store": // an honest answer, but the light client's store lacks some of the heights
			lc.trusted[max] = false
		case "meta-hdr-apphash+reid", "meta-hdr-apphash":
			m.Header.AppHash = c20Flip(m.Header.AppHash, rr)
			if kind == "meta-hdr-apphash+reid" {
				reid()
			}
		case "meta-fork+reid":
			m.Header.DataHash = c20Sum([]byte("fork data"))
			m.Header.Time = m.Header.Time.Add(time.Minute)
			reid()
		case "meta-nil":
			res.BlockMetas[pick] = nil
		case "meta-size":
			m.BlockSize += 1000
		case "meta-numtxs":
			m.NumTxs += 3
		case "last-height":
			res.LastHeight += 100
		case "meta-dropped":
			res.BlockMetas = append(res.BlockMetas[:pick:pick], res.BlockMetas[pick+1:]...)
		case "metas-reversed":
			for i, j := 0, len(res.BlockMetas)-1; i < j; i, j = i+1, j-1 {
				res.BlockMetas[i], res.BlockMetas[j] = res.BlockMetas[j], res.BlockMetas[i]
			}
		case "empty":
			res.BlockMetas = nil
		case "meta-id-parts":
			m.BlockID.PartSetHeader.Hash = c20Flip(m.BlockID.PartSetHeader.Hash, rr)
		case "meta-id-parts-total":
			m.BlockID.PartSetHeader.Total += 1 + uint32(rr.Intn(9))
		case "meta-height-swap+reid":
			m.Header.Height = c20OtherHeight(c, m.Header.Height, rr)
			reid()
		case "meta-beyond+reid":
			m.Header.Height = c.n + 2
			reid()
		case "last-untrusted-by-lc":
			lc.trusted[min] = false
		}
		srv := &c20Server{info: res}
		cl := c20Client(srv, lc, true)
		view := c20Wire(res)
		run := c20Call(lc, func() error {
			_, err := cl.BlockchainInfo(context.Background(), qmin, qmax)
			return err
		})
		var ms, ids, want []string
		var hs []int64
		for h := max; h >= min; h-- {
			want = append(want, c20IDStr(c.ids[h-1]))
		}
		for _, m := range view.BlockMetas {
			if m == nil {
				ms = append(ms, "None")
				continue
			}
			hs = append(hs, m.Header.Height)
			ms = append(ms, vg.Opt(true, vg.Tup(vg.B(m.BlockID.ValidateBasic() == nil), vg.Hx(m.BlockID.Hash),
				c20PSHTerm(m.BlockID.PartSetHeader), c20HdrTerm(&m.Header, m.Header.Hash()))))
			ids = append(ids, c20IDStr(m.BlockID))
		}
		cs.Add(id, "info/"+kind, kind != "honest",
			vg.App("CInfo", lc.term(false), vg.L(ms), vg.B(run.relayed), vg.L(run.calls), vg.B(honest)),
			fmt.Sprintf("chain#%d(n=%d) BlockchainInfo(%d,%d), server answers metas of heights %v with BlockIDs %v (the verified commits of heights %d..%d are for %v), falsification: %s (meta #%d); relayed=%v err=%q",
				c.idx, c.n, qmin, qmax, hs, ids, max, min, want, kind, pick, run.relayed, run.err))
	}
}

// ---------------------------------------------------------------- Commit / Validators

func c20OptZ(p *int64) string {
	if p == nil {
		return "None"
	}
	return vg.Opt(true, vg.Z(*p))
}
func c20OptInt(p *int) string {
	if p == nil {
		return "None"
	}
	return vg.Opt(true, vg.Z(int64(*p)))
}

// the trusted store holds exactly the heights 1..top
func c20TrustUpTo(l *c20LC, top int64) {
	for h := range l.trusted {
		l.trusted[h] = h <= top
	}
}

func (l *c20LC) updateDescr() string {
	switch {
	case l.updateNone:
		top := int64(0)
		for h, ok := range l.trusted {
			if ok && h > top {
				top = h
			}
		}
		return fmt.Sprintf("Update returns (nil, nil) - nothing newer than the latest trusted light block, height %d (0: empty store)", top)
	case l.updateOK:
		return "Update returns the latest light block"
	}
	return "Update fails"
}

func c20CommitCases(t *testing.T, cs *vg.Cases, c *c20Chain, r *vg.Rand) {
	hs := []*int64{nil, new(int64), new(int64), new(int64), nil}
	*hs[1] = 1 + r.Int63n(c.n)
	*hs[2] = c.n + 1
	*hs[3] = 0
	if c20F80() { // k = 5, 6, 7: Update has no newer block (latest trusted = n; = some lower height; none at all)
		hs = append(hs, nil, nil, nil)
	}
	for k, hp := range hs {
		id := cs.NextID()
		if !cs.Want(id) {
			continue
		}
		lc := c20NewLC(c)
		if k == 4 {
			lc.updateOK = false
		}
		if k >= 5 {
			lc.updateNone = true
			c20TrustUpTo(lc, []int64{c.n, 1 + r.Fork(uint64(k)).Int63n(c.n), 0}[k-5])
		}
		cl := c20Client(&c20Server{}, lc, true)
		var out *ctypes.ResultCommit
		run := c20Call(lc, func() error {
			var err error
			out, err = cl.Commit(context.Background(), hp)
			return err
		})
		oh, oc, canon := []byte(nil), []byte(nil), false
		if run.relayed && out != nil && out.Header != nil && out.Commit != nil {
			oh, oc, canon = out.Header.Hash(), out.Commit.Hash(), out.CanonicalCommit
		}
		cs.Add(id, "commit", true,
			vg.App("CCommit", lc.term(false), c20OptZ(hp), vg.B(run.relayed), vg.Tup(vg.Hx(oh), vg.Hx(oc)), vg.B(canon), vg.L(run.calls)),
			fmt.Sprintf("chain#%d(n=%d) Commit(%s) light client: %s; ok=%v err=%q", c.idx, c.n, c20OptZ(hp), lc.updateDescr(), run.relayed, run.err))
	}
}

func c20ValsCases(t *testing.T, cs *vg.Cases, c *c20Chain, r *vg.Rand, big bool) {
	type req struct {
		h        *int64
		pg, pp   *int
		nv       int
		updateOK bool
	}
	ip := func(i int) *int { return &i }
	zp := func(i int64) *int64 { return &i }
	var reqs []req
	if big {
		for _, nv := range []int{0, 29, 30, 31, 61, 101, 205} {
			reqs = append(reqs, req{zp(c.n + 10), nil, nil, nv, true})
		}
		reqs = append(reqs,
			req{zp(c.n + 10), ip(2), nil, 31, true}, req{zp(c.n + 10), ip(3), nil, 31, true}, req{zp(c.n + 10), ip(2), nil, 30, true},
			req{zp(c.n + 10), ip(2), ip(100), 205, true}, req{zp(c.n + 10), ip(3), ip(1000), 205, true}, req{zp(c.n + 10), ip(4), ip(100), 205, true},
			req{zp(c.n + 10), ip(1), ip(0), 35, true}, req{zp(c.n + 10), ip(1), ip(-5), 35, true}, req{zp(c.n + 10), ip(0), ip(10), 35, true},
			req{zp(c.n + 10), ip(-1), ip(10), 35, true}, req{zp(c.n + 10), ip(4), ip(10), 35, true}, req{zp(c.n + 10), ip(5), ip(10), 35, true},
			req{zp(c.n + 10), ip(1), ip(10), 0, true}, req{zp(c.n + 10), ip(2), ip(10), 0, true}, req{zp(c.n + 10), ip(7), ip(5), 35, true},
			req{zp(c.n + 10), ip(8), ip(5), 35, true})
	} else {
		reqs = append(reqs, req{nil, nil, nil, -1, true}, req{zp(1 + r.Int63n(c.n)), ip(1), ip(1 + r.Intn(3)), -1, true},
			req{zp(1 + r.Int63n(c.n)), ip(1 + r.Intn(3)), ip(1), -1, true}, req{zp(c.n + 1), nil, nil, -1, true},
			req{nil, ip(1), ip(2), -1, false})
	}
	nUpd := len(reqs)
	if !big && c20F80() { // Update has no newer block: latest trusted = n / a lower height / empty store
		reqs = append(reqs, req{nil, nil, nil, -1, true}, req{nil, ip(1), ip(1 + r.Intn(3)), -1, true}, req{nil, nil, nil, -1, true})
	}
	for qi, q := range reqs {
		id := cs.NextID()
		if !cs.Want(id) {
			continue
		}
		lc := c20NewLC(c)
		lc.updateOK = q.updateOK
		if qi >= nUpd {
			lc.updateNone = true
			c20TrustUpTo(lc, []int64{c.n, 1 + r.Fork(uint64(qi)).Int63n(c.n), 0}[qi-nUpd])
		}
		if q.nv >= 0 { // a light block with a validator set of the wanted size at a height of its own
			var vs []*types.Validator
			for i := 0; i < q.nv; i++ {
				pk := ed25519.GenPrivKeyFromSecret([]byte{byte(i), byte(i >> 8), 'p'}).PubKey()
				vs = append(vs, types.NewValidator(pk, 1))
			}
			lb := c.lightBlock(1)
			hdr := *lb.Header
			hdr.Height = *q.h
			lc.extra[*q.h] = &types.LightBlock{SignedHeader: &types.SignedHeader{Header: &hdr, Commit: lb.Commit},
				ValidatorSet: &types.ValidatorSet{Validators: vs}}
		}
		cl := c20Client(&c20Server{}, lc, true)
		var out *ctypes.ResultValidators
		run := c20Call(lc, func() error {
			var err error
			out, err = cl.Validators(context.Background(), q.h, q.pg, q.pp)
			return err
		})
		outT := vg.Tup(vg.Z(0), "[]", vg.Z(0), vg.Z(0))
		if run.relayed && out != nil {
			var as [][]byte
			for _, v := range out.Validators {
				as = append(as, v.Address)
			}
			outT = vg.Tup(vg.Z(out.BlockHeight), vg.HxL(as), vg.Z(int64(out.Count)), vg.Z(int64(out.Total)))
		}
		cs.Add(id, "validators", true,
			vg.App("CVals", lc.term(true), c20OptZ(q.h), c20OptInt(q.pg), c20OptInt(q.pp), vg.B(run.relayed), outT, vg.L(run.calls)),
			fmt.Sprintf("chain#%d(n=%d) Validators(height %s, page %s, perPage %s) on a set of %d validators (-1: the chain's), light client: %s; ok=%v err=%q",
				c.idx, c.n, c20OptZ(q.h), c20OptInt(q.pg), c20OptInt(q.pp), q.nv, lc.updateDescr(), run.relayed, run.err))
	}
}

// ---------------------------------------------------------------- Tx

func c20ProofTerm(p merkle.Proof) string {
	return vg.Tup(vg.Z(p.Total), vg.Z(p.Index), vg.Hx(p.LeafHash), vg.HxL(p.Aunts))
}

func c20TxTerm(r *ctypes.ResultTx) string {
	return vg.Tup(vg.Hx(r.Hash), vg.Z(r.Height), vg.Z(int64(r.Index)), vg.Hx(r.Tx),
		vg.Tup(vg.Hx(r.Proof.RootHash), vg.Hx(r.Proof.Data), c20ProofTerm(r.Proof.Proof)))
}

var c20TxKinds = []string{"honest", "honest", "honest-noprove", "forged-noprove", "body-forged", "body-and-hash-forged",
	"proof-of-other-tx", "hash-forged", "index-forged", "height-forged", "result-forged", "root-forged", "data-forged",
	"aunt-forged", "aunt-dropped", "proof-index", "proof-total", "last-leaf-relabelled", "height-zero", "height-beyond",
	"foreign-block-proof", "whole-answer-other-tx", "index-relabelled", "index-relabelled",
	"index-wide-2^32", "index-wide-2^32-exact", "index-wide-2^32-true-index", "index-wide-2^31", "index-wide-2^33", "index-wide-2^40", "index-wide-2^62",
	"index-plus-2^32-same-total", "index-total-max-int64", "index-negative",
	"index-equals-total", "index-equals-total-plus-1", "total-plus-2^32", "total-plus-3*2^32", "total-minus-2^32", "index-and-total-plus-2^32"}

// Known finding F41.  An RFC-6962 inclusion proof fixes only the left/right shape of the path,
// and the same shape occurs under other (index, total) pairs: every relabelling of the genuine
// proof of transaction i (same leaf hash, same aunts) that still verifies against the root and
// states ANOTHER index.  Nothing a light client verifies commits to the number of leaves.
func c20Relabellings(txs types.Txs, i int) (out []merkle.Proof) {
	p := txs.Proof(i)
	for tot := int64(1); tot <= 2*int64(len(txs))+4; tot++ {
		for ix := int64(0); ix < tot; ix++ {
			if ix == int64(i) {
				continue
			}
			q := merkle.Proof{Total: tot, Index: ix, LeafHash: p.Proof.LeafHash, Aunts: p.Proof.Aunts}
			if q.Verify(p.RootHash, txs[i].Hash()) == nil {
				out = append(out, q)
			}
		}
	}
	return
}

// Relabellings far outside the tree.  The split point of a tree of 2^k + m leaves (1 <= m <= 2^k) is 2^k,
// so for a leaf i of the RIGHT half of the n-leaf tree (i >= s = split point of n) the genuine aunts also
// verify, against the same root, under index 2^k + (i-s), total 2^k + (n-s), for every k with n-s <= 2^k:
// the proof's int64 index then exceeds what ResultTx.Index (uint32) can hold (k >= 32), or looks negative
// as an int32 (k = 31).  ok = false when i is in the left half.
func c20WideRelabelling(txs types.Txs, i int, k uint) (merkle.Proof, bool) {
	n := int64(len(txs))
	s := int64(1)
	for s*2 < n {
		s *= 2
	}
	if n < 2 || int64(i) < s {
		return merkle.Proof{}, false
	}
	p := txs.Proof(i)
	q := merkle.Proof{Total: int64(1)<<k + (n - s), Index: int64(1)<<k + (int64(i) - s), LeafHash: p.Proof.LeafHash, Aunts: p.Proof.Aunts}
	ok := false
	func() {
		defer func() { recover() }()
		ok = q.Verify(p.RootHash, txs[i].Hash()) == nil
	}()
	return q, ok
}

// the answer for transaction i (right half) of block h behind such a proof; Index = the low 32 bits of the proof's index
func (c *c20Chain) wideTx(h int64, i int, k uint) *ctypes.ResultTx {
	res := c20Wire(c.honestTx(h, i))
	// whether or not the relabelled proof verifies under the tree code in the tree (it does under the correct
	// one): the answer is offered, the client must refuse it
	q, _ := c20WideRelabelling(c.blocks[h-1].Data.Txs, i, k)
	res.Proof.Proof = q
	res.Index = uint32(q.Index)
	return res
}

// the honest answer for transaction i of block h with Index and the proof's (Index, Total)
// falsified coherently; ok = false when no relabelling exists (then the answer is the honest one)
func (c *c20Chain) relabelledTx(h int64, i int, r *vg.Rand) (*ctypes.ResultTx, bool) {
	res := c20Wire(c.honestTx(h, i))
	qs := c20Relabellings(c.blocks[h-1].Data.Txs, i)
	if len(qs) == 0 {
		return res, false
	}
	q := qs[r.Intn(len(qs))]
	res.Proof.Proof = q
	res.Index = uint32(q.Index)
	return res, true
}

func c20TxCases(t *testing.T, cs *vg.Cases, c *c20Chain, r *vg.Rand) {
	var withTxs []int64
	for h := int64(1); h <= c.n; h++ {
		if len(c.blocks[h-1].Data.Txs) > 0 {
			withTxs = append(withTxs, h)
		}
	}
	for k, kind := range c20TxKinds {
		id := cs.NextID()
		if !cs.Want(id) {
			continue
		}
		rr := r.Fork(uint64(3000 + k))
		h := withTxs[rr.Intn(len(withTxs))]
		if k%3 == 0 {
			h = 2
		}
		txs := c.blocks[h-1].Data.Txs
		i := rr.Intn(len(txs))
		if kind == "last-leaf-relabelled" {
			h = 2
			txs = c.blocks[1].Data.Txs
			i = len(txs) - 1
		}
		if kind == "index-relabelled" { // block 2 has >= 3 transactions: its last one can always be relabelled
			h = 2
			txs = c.blocks[1].Data.Txs
			i = len(txs) - 1
			if k%2 == 1 { // any transaction of the block that can be
				for _, j := range rr.Perm(len(txs)) {
					if len(c20Relabellings(txs, j)) > 0 {
						i = j
						break
					}
				}
			}
		}
		wide := map[string]uint{"index-wide-2^32": 32, "index-wide-2^32-exact": 32, "index-wide-2^32-true-index": 32, "index-wide-2^31": 31,
			"index-wide-2^33": 33, "index-wide-2^40": 40, "index-wide-2^62": 62}
		if strings.HasPrefix(kind, "index-") && kind != "index-forged" && kind != "index-relabelled" {
			// block 2 has 3..5 transactions: split point 2 (or 4), right half = [split, n)
			h = 2
			txs = c.blocks[1].Data.Txs
			split := 2
			if len(txs) > 4 {
				split = 4
			}
			i = split + rr.Intn(len(txs)-split)
			if kind == "index-wide-2^32-exact" { // the first leaf of the right half: proof index exactly 2^32, relayed Index 0
				i = split
			}
		}
		res := c20Wire(c.honestTx(h, i))
		prove := true
		honest := kind == "honest"
		switch kind {
		case "index-wide-2^32", "index-wide-2^32-exact", "index-wide-2^31", "index-wide-2^33", "index-wide-2^40", "index-wide-2^62":
			// 2^31: Index = 2^31 + (i-s) fits a uint32 and equals the proof's index: the class of F41
			res = c.wideTx(h, i, wide[kind])
		case "index-wide-2^32-true-index": // the wide proof next to the TRUE position
			res = c.wideTx(h, i, 32)
			res.Index = uint32(i)
		case "index-plus-2^32-same-total": // index beyond the stated total: no root can be computed
			res.Proof.Proof.Index += 1 << 32
		case "index-total-max-int64":
			res.Proof.Proof.Total = 1<<63 - 1
			res.Proof.Proof.Index = 1<<63 - 2
			res.Index = uint32(res.Proof.Proof.Index & 0xffffffff)
		case "index-negative": // a negative proof index whose low 32 bits are the true position
			res.Proof.Proof.Index = int64(i) - 1<<32
		case "index-equals-total", "index-equals-total-plus-1": // the last leaf's genuine aunts under Index = Total (+1): one past the end
			res = c20Wire(c.honestTx(h, len(txs)-1))
			res.Proof.Proof.Index = res.Proof.Proof.Total
			if kind == "index-equals-total-plus-1" {
				res.Proof.Proof.Index++
			}
			res.Index = uint32(res.Proof.Proof.Index)
		case "total-plus-2^32": // the true index under a total that differs by a multiple of 2^32
			res.Proof.Proof.Total += 1 << 32
		case "total-plus-3*2^32":
			res.Proof.Proof.Total += 3 << 32
		case "total-minus-2^32":
			res.Proof.Proof.Total -= 1 << 32
		case "index-and-total-plus-2^32":
			res.Proof.Proof.Total += 1 << 32
			res.Proof.Proof.Index += 1 << 32
		case "index-relabelled":
			res, _ = c.relabelledTx(h, i, rr)
		case "honest-noprove":
			prove = false
			res.Proof = types.TxProof{}
		case "forged-noprove":
			prove = false
			res.Proof = types.TxProof{}
			res.Tx = types.Tx("forged")
		case "body-forged":
			res.Tx = types.Tx("forged")
		case "body-and-hash-forged":
			res.Tx = types.Tx("forged")
			res.Hash = res.Tx.Hash()
		case "proof-of-other-tx": // genuine proof, of another transaction of the block
			j := (i + 1) % len(txs)
			res.Proof = c20Wire(c.honestTx(h, j)).Proof
		case "hash-forged":
			res.Hash = c20Flip(res.Hash, rr)
		case "index-forged":
			res.Index += 1 + uint32(rr.Intn(3))
		case "height-forged":
			res.Height = c20OtherHeight(c, h, rr)
		case "result-forged":
			res.TxResult.Code += 7
			res.TxResult.Log = "forged"
		case "root-forged":
			res.Proof.RootHash = c20Flip(res.Proof.RootHash, rr)
		case "data-forged":
			res.Proof.Data = c20Flip(res.Proof.Data, rr)
		case "aunt-forged":
			if len(res.Proof.Proof.Aunts) > 0 {
				a := rr.Intn(len(res.Proof.Proof.Aunts))
				res.Proof.Proof.Aunts[a] = c20Flip(res.Proof.Proof.Aunts[a], rr)
			} else {
				res.Proof.Proof.Aunts = [][]byte{c20Sum([]byte("aunt"))}
			}
		case "aunt-dropped":
			if len(res.Proof.Proof.Aunts) > 0 {
				res.Proof.Proof.Aunts = res.Proof.Proof.Aunts[1:]
			} else {
				res.Proof.Proof.LeafHash = c20Flip(res.Proof.Proof.LeafHash, rr)
			}
		case "proof-index":
			res.Proof.Proof.Index = int64(rr.Intn(len(txs)+1)) - 1
			res.Index = uint32(res.Proof.Proof.Index)
		case "proof-total":
			res.Proof.Proof.Total += int64(rr.Intn(3)) - 1
		case "last-leaf-relabelled":
			// the last leaf of a tree whose right spine is short verifies under another (index, total):
			// try every relabelling with the same number of aunts; keep the first that validates
			p := res.Proof.Proof
		search:
			for tot := int64(1); tot <= int64(len(txs))+4; tot++ {
				for ix := int64(0); ix < tot; ix++ {
					if tot == p.Total && ix == p.Index {
						continue
					}
					q := merkle.Proof{Total: tot, Index: ix, LeafHash: p.LeafHash, Aunts: p.Aunts}
					if q.Verify(res.Proof.RootHash, res.Tx.Hash()) == nil {
						res.Proof.Proof = q
						res.Index = uint32(ix)
						break search
					}
				}
			}
		case "height-zero":
			res.Height = 0
		case "height-beyond":
			res.Height = c.n + 3
		case "foreign-block-proof":
			o := withTxs[rr.Intn(len(withTxs))]
			res.Proof = c20Wire(c.honestTx(o, 0)).Proof
		case "whole-answer-other-tx": // a genuine, complete answer, for another transaction than the one asked for
			j := (i + 1) % len(txs)
			res = c20Wire(c.honestTx(h, j))
		}
		lc := c20NewLC(c)
		srv := &c20Server{tx: res}
		cl := c20Client(srv, lc, true)
		view := c20Wire(res)
		run := c20Call(lc, func() error {
			_, err := cl.Tx(context.Background(), txs[i].Hash(), prove)
			return err
		})
		var truth [][]byte
		if view.Height >= 1 && view.Height <= c.n {
			for _, tx := range c.blocks[view.Height-1].Data.Txs {
				truth = append(truth, tx)
			}
		}
		cs.Add(id, "tx/"+kind, kind != "honest",
			vg.App("CTx", lc.term(false), vg.B(prove), c20TxTerm(view), vg.HxL(truth), vg.B(run.relayed), vg.L(run.calls), vg.B(honest)),
			fmt.Sprintf("chain#%d(n=%d) Tx(hash of tx %d of block %d = %x, prove=%v), falsification: %s; answer: hash=%X height=%d index=%d tx=%x proof{root=%X data=%x index=%d total=%d aunts=%d}; block txs=%x; relayed=%v err=%q",
				c.idx, c.n, i, h, []byte(txs[i]), prove, kind, []byte(view.Hash), view.Height, view.Index, []byte(view.Tx), []byte(view.Proof.RootHash),
				[]byte(view.Proof.Data), view.Proof.Proof.Index, view.Proof.Proof.Total, len(view.Proof.Proof.Aunts), truth, run.relayed, run.err))
	}
}

// ---------------------------------------------------------------- TxSearch

var c20SearchKinds = []string{"honest", "honest-one-block", "honest-empty", "honest-noprove", "forged-noprove", "body-forged",
	"body-and-hash-forged", "hash-forged", "index-forged", "proof-of-other-tx", "height-forged", "height-zero", "height-beyond",
	"aunt-forged", "data-forged", "nil-entry", "last-forged", "result-forged", "total-count-forged", "result-dropped",
	"results-reordered", "index-relabelled", "index-wide-2^32", "index-wide-2^31", "index-wide-2^40", "index-equals-total", "total-plus-2^32"}

func c20SearchCases(t *testing.T, cs *vg.Cases, c *c20Chain, r *vg.Rand) {
	var withTxs []int64
	var blocks []string
	for h := int64(1); h <= c.n; h++ {
		var txs [][]byte
		for _, tx := range c.blocks[h-1].Data.Txs {
			txs = append(txs, tx)
		}
		if len(txs) > 0 {
			withTxs = append(withTxs, h)
		}
		blocks = append(blocks, vg.Tup(vg.Z(h), vg.HxL(txs)))
	}
	for k, kind := range c20SearchKinds {
		id := cs.NextID()
		if !cs.Want(id) {
			continue
		}
		rr := r.Fork(uint64(7000 + k))
		// the honest answer: the transactions of block 2 (it has >= 3), then those of another block, at most 7
		res := &ctypes.ResultTxSearch{}
		type at struct {
			h int64
			i int
		}
		var where []at
		hs := []int64{2}
		if o := withTxs[rr.Intn(len(withTxs))]; o != 2 && kind != "honest-one-block" {
			hs = append(hs, o)
		}
		for _, h := range hs {
			for i := range c.blocks[h-1].Data.Txs {
				if len(res.Txs) < 7 {
					res.Txs = append(res.Txs, c.honestTx(h, i))
					where = append(where, at{h, i})
				}
			}
		}
		res.TotalCount = len(res.Txs)
		res = c20Wire(res)
		pick := rr.Intn(len(res.Txs))
		m := res.Txs[pick]
		txs := c.blocks[where[pick].h-1].Data.Txs
		prove := true
		honest := kind == "honest" || kind == "honest-one-block" || kind == "honest-empty"
		note := ""
		switch kind {
		case "honest-empty":
			res.Txs, res.TotalCount = nil, 0
		case "honest-noprove", "forged-noprove":
			prove = false
			for _, x := range res.Txs {
				x.Proof = types.TxProof{}
			}
			if kind == "forged-noprove" {
				m.Tx = types.Tx("forged")
			}
		case "body-forged":
			m.Tx = types.Tx("forged")
		case "body-and-hash-forged":
			m.Tx = types.Tx("forged")
			m.Hash = m.Tx.Hash()
		case "hash-forged":
			m.Hash = c20Flip(m.Hash, rr)
		case "index-forged":
			m.Index += 1 + uint32(rr.Intn(3))
		case "proof-of-other-tx":
			m.Proof = c20Wire(c.honestTx(where[pick].h, (where[pick].i+1)%len(txs))).Proof
		case "height-forged":
			m.Height = c20OtherHeight(c, m.Height, rr)
		case "height-zero":
			m.Height = 0
		case "height-beyond":
			m.Height = c.n + 2
		case "aunt-forged":
			if len(m.Proof.Proof.Aunts) > 0 {
				m.Proof.Proof.Aunts[0] = c20Flip(m.Proof.Proof.Aunts[0], rr)
			} else {
				m.Proof.Proof.Aunts = [][]byte{c20Sum([]byte("aunt"))}
			}
		case "data-forged":
			m.Proof.Data = c20Flip(m.Proof.Data, rr)
		case "nil-entry":
			res.Txs[pick] = nil
		case "last-forged": // every result but the last is genuine
			pick = len(res.Txs) - 1
			res.Txs[pick].Tx = types.Tx("forged")
			res.Txs[pick].Hash = res.Txs[pick].Tx.Hash()
		case "result-forged": // no header commits to a single DeliverTx result
			m.TxResult.Code += 7
			m.TxResult.Log = "forged"
		case "total-count-forged": // nor to how many transactions match a query
			res.TotalCount += 5
		case "result-dropped":
			res.Txs = append(res.Txs[:pick:pick], res.Txs[pick+1:]...)
		case "results-reordered":
			res.Txs[0], res.Txs[len(res.Txs)-1] = res.Txs[len(res.Txs)-1], res.Txs[0]
		case "index-wide-2^32", "index-wide-2^31", "index-wide-2^40": // see c20WideRelabelling; one result (of block 2's right half) forged
			for j, w := range where {
				if _, ok := c20WideRelabelling(c.blocks[w.h-1].Data.Txs, w.i, 32); ok && w.h == 2 {
					res.Txs[j], pick = c.wideTx(w.h, w.i, map[string]uint{"index-wide-2^32": 32, "index-wide-2^31": 31, "index-wide-2^40": 40}[kind]), j
					break
				}
			}
		case "index-equals-total": // the last transaction of block 2 under Index = Total = the number of leaves
			for j, w := range where {
				if w.h == 2 && w.i == len(c.blocks[1].Data.Txs)-1 {
					res.Txs[j].Proof.Proof.Index = res.Txs[j].Proof.Proof.Total
					res.Txs[j].Index = uint32(res.Txs[j].Proof.Proof.Total)
					pick = j
				}
			}
		case "total-plus-2^32":
			m.Proof.Proof.Total += 1 << 32
		case "index-relabelled": // known finding F41, through TxSearch
			for j, w := range where {
				if x, ok := c.relabelledTx(w.h, w.i, rr); ok {
					res.Txs[j], pick = x, j
				}
			}
		}
		lc := c20NewLC(c)
		srv := &c20Server{search: res}
		cl := c20Client(srv, lc, true)
		view := c20Wire(res)
		run := c20Call(lc, func() error {
			_, err := cl.TxSearch(context.Background(), "tx.height>0", prove, nil, nil, "asc")
			return err
		})
		var rs, human []string
		for _, x := range view.Txs {
			if x == nil {
				rs = append(rs, "None")
				human = append(human, "nil")
				continue
			}
			rs = append(rs, vg.Opt(true, c20TxTerm(x)))
			human = append(human, fmt.Sprintf("{hash=%X height=%d index=%d tx=%x proof{root=%X data=%x index=%d total=%d aunts=%d}}", []byte(x.Hash), x.Height,
				x.Index, []byte(x.Tx), []byte(x.Proof.RootHash), []byte(x.Proof.Data), x.Proof.Proof.Index, x.Proof.Proof.Total, len(x.Proof.Proof.Aunts)))
		}
		var truth []string
		for _, h := range hs {
			truth = append(truth, fmt.Sprintf("block %d txs=%x", h, c20TxBytes(c.blocks[h-1].Data.Txs)))
		}
		cs.Add(id, "search/"+kind, !honest,
			vg.App("CSearch", lc.term(false), vg.B(prove), vg.L(rs), vg.L(blocks), vg.B(run.relayed), vg.L(run.calls), vg.B(honest)),
			fmt.Sprintf("chain#%d(n=%d) TxSearch(prove=%v), falsification: %s (result #%d)%s; answer: total_count=%d txs=%v; %v; relayed=%v err=%q",
				c.idx, c.n, prove, kind, pick, note, view.TotalCount, human, truth, run.relayed, run.err))
	}
}

// ---------------------------------------------------------------- ABCIQuery

var c20QueryKinds = []string{"honest", "honest", "value-forged", "key-forged", "height-plus", "height-minus", "ops-none",
	"ops-nil", "op-data-forged", "op-dropped", "code-error", "key-empty", "height-zero", "height-latest", "stale-proof",
	"no-keypathfn", "bad-path", "absent-pathkey", "absent-rawkey", "absent-but-present", "value-stripped", "other-key-genuine", "other-height-genuine"}

func c20QueryCases(t *testing.T, cs *vg.Cases, c *c20Chain, r *vg.Rand) {
	for k, kind := range c20QueryKinds {
		id := cs.NextID()
		if !cs.Want(id) {
			continue
		}
		rr := r.Fork(uint64(4000 + k))
		h := 1 + rr.Int63n(c.n-1) // header h+1 exists
		a := c.apps[h]
		store := []string{"acc", "bank"}[rr.Intn(2)] // the stores with plain names and keys; c20SpecialQueryCases has the others
		keys := c20SortedKeys(a.stores[store])
		key := keys[rr.Intn(len(keys))]
		path := "/store/" + store + "/key"
		res := c20Wire(c.honestQuery(h, store, key))
		q := &res.Response
		withKP := true
		honest := kind == "honest"
		switch kind {
		case "value-forged":
			q.Value = c20Flip(q.Value, rr)
		case "key-forged":
			q.Key = []byte("mallory")
		case "height-plus":
			q.Height++
		case "height-minus":
			q.Height--
		case "ops-none":
			q.ProofOps = &tmcrypto.ProofOps{}
		case "ops-nil":
			q.ProofOps = nil
		case "op-data-forged":
			q.ProofOps.Ops[rr.Intn(2)].Data = c20Flip(q.ProofOps.Ops[0].Data, rr)
		case "op-dropped":
			q.ProofOps.Ops = q.ProofOps.Ops[:1]
		case "code-error":
			q.Code = 1 + uint32(rr.Intn(5))
		case "key-empty":
			q.Key = nil
		case "height-zero":
			q.Height = 0
		case "height-latest": // the answer is for the latest block: header h+1 does not exist yet
			res = c20Wire(c.honestQuery(c.n, store, "alice"))
			if store != "acc" {
				res = c20Wire(c.honestQuery(c.n, "acc", "alice"))
				path = "/store/acc/key"
			}
			q = &res.Response
		case "stale-proof": // genuine value and proof of an older state, labelled with this height
			o := c20Wire(c.honestQuery(h-1, "acc", "alice"))
			if h-1 >= 0 {
				q.Key, q.Value, q.ProofOps = o.Response.Key, o.Response.Value, o.Response.ProofOps
				path = "/store/acc/key"
			}
		case "no-keypathfn":
			withKP = false
		case "bad-path":
			path = "/custom/" + store
		case "absent-pathkey":
			q.Key = []byte("/" + store + "/nobody")
			q.Value = nil
			q.ProofOps = a.absentOps(store, "nobody")
		case "absent-rawkey":
			q.Key = []byte("nobody")
			q.Value = nil
			q.ProofOps = a.absentOps(store, "nobody")
		case "absent-but-present": // claims absence of a key that exists
			q.Key = []byte("/" + store + "/" + key)
			q.Value = nil
			q.ProofOps = a.absentOps(store, key)
		case "value-stripped":
			q.Value = nil
		case "other-key-genuine":
			o := keys[(sort.SearchStrings(keys, key)+1)%len(keys)]
			res = c20Wire(c.honestQuery(h, store, o))
			q = &res.Response
		case "other-height-genuine": // the complete, genuine answer for this key at ANOTHER height (so labelled)
			o := 1 + rr.Int63n(c.n-1)
			if o == h {
				o = h%(c.n-1) + 1
			}
			store, key, path = "acc", "alice", "/store/acc/key"
			res = c20Wire(c.honestQuery(o, store, key))
			q = &res.Response
		}
		var fn KeyPathFunc
		if withKP {
			fn = c20KPFn(0)
		}
		c20RunQuery(t, cs, id, c, "query/"+kind, kind, path, key, h, res, fn, "default (url,url)", honest)
	}
}

// one ABCIQueryWithOptions call of the real client against the scripted answer, and the case for it
func c20RunQuery(t *testing.T, cs *vg.Cases, id int, c *c20Chain, label, kind, path, key string, h int64, res *ctypes.ResultABCIQuery,
	fn KeyPathFunc, fnName string, honest bool) {
	lc := c20NewLC(c)
	srv := &c20Server{query: res}
	cl := c20ClientKP(srv, lc, fn)
	view := &c20Wire(res).Response
	run := c20Call(lc, func() error {
		_, err := cl.ABCIQueryWithOptions(context.Background(), path, []byte(key), rpcclient.ABCIQueryOptions{Height: h})
		return err
	})
	if len(srv.asked) > 0 {
		t.Errorf("client asked the server without prove")
	}
	// the proof runtime asked directly, per candidate root
	prt := merkle.DefaultProofRuntime()
	prt.RegisterOpDecoder(c20AbsentType, c20AbsentDecoder)
	kpfn := fn
	if kpfn == nil {
		kpfn = c20KPFn(0)
	}
	kp, kpErr := kpfn(path, view.Key)
	var vtab, atab []string
	for hh := int64(1); hh <= c.n; hh++ {
		root := c.blocks[hh-1].AppHash
		vv, va := false, false
		func() {
			defer func() { recover() }()
			if view.ProofOps != nil && view.Value != nil && kpErr == nil {
				vv = prt.VerifyValue(view.ProofOps, root, kp.String(), view.Value) == nil
			}
			if view.ProofOps != nil && view.Value == nil {
				va = prt.VerifyAbsence(view.ProofOps, root, string(view.Key)) == nil
			}
		}()
		vtab = append(vtab, vg.Tup(vg.Hx(root), vg.B(vv)))
		atab = append(atab, vg.Tup(vg.Hx(root), vg.B(va)))
	}
	nops := 0
	if view.ProofOps != nil {
		nops = len(view.ProofOps.Ops)
	}
	// the ValueOps of the answer, for the model of ProofOperators.Verify / ValueOp.Run
	vops := "None"
	if kpErr == nil && view.ProofOps != nil && nops > 0 {
		var ops []string
		for _, pop := range view.ProofOps.Ops {
			o, err := merkle.ValueOpDecoder(pop)
			if err != nil {
				ops = nil
				break
			}
			vo := o.(merkle.ValueOp)
			ops = append(ops, vg.Tup(vg.Hx(vo.GetKey()), c20ProofTerm(*vo.Proof)))
		}
		if len(ops) == nops {
			vops = vg.Opt(true, vg.Tup(vg.L(ops), vg.Hx([]byte(kp.String()))))
		}
	}
	// ground truth straight from the generated application state: no proof, no key path involved
	stateVal, stateDescr := "None", "unknown"
	if m := c20StoreRE.FindStringSubmatch(path); len(m) == 2 && view.Height >= 0 && view.Height <= c.n {
		if st, ok := c.apps[view.Height].stores[m[1]]; ok {
			v, present := st[string(view.Key)]
			stateVal = vg.Opt(true, vg.Opt(present, vg.Hx(v)))
			stateDescr = fmt.Sprintf("absent")
			if present {
				stateDescr = fmt.Sprintf("%x", v)
			}
		}
	}
	cs.Add(id, label, kind != "honest",
		vg.App("CQuery", lc.term(false), vg.B(fn != nil), vg.Z(int64(view.Code)), vg.Hx(view.Key), vg.Z(int64(nops)), vg.Z(view.Height),
			vg.Opt(view.Value != nil, vg.Hx(view.Value)), vg.B(kpErr == nil), vg.L(vtab), vg.L(atab), stateVal, vops,
			vg.B(run.relayed), vg.L(run.calls), vg.B(honest)),
		fmt.Sprintf("chain#%d(n=%d) ABCIQuery(path %q, key %q at height %d, KeyPathFn=%s), falsification: %s; answer: code=%d key=%q value=%x height=%d ops=%d (op keys %q); the application state at height %d holds for that store and key: %s; relayed=%v err=%q",
			c.idx, c.n, path, key, h, map[bool]string{true: fnName, false: "none"}[fn != nil], kind, view.Code, view.Key, view.Value, view.Height, nops, c20OpKeys(view),
			view.Height, stateDescr, run.relayed, run.err))
}

func c20OpKeys(q *abci.ResponseQuery) (out []string) {
	if q.ProofOps != nil {
		for _, op := range q.ProofOps.Ops {
			d := string(op.Key)
			if o, err := merkle.ValueOpDecoder(op); err == nil { // the inner Merkle proof of a ValueOp
				p := o.(merkle.ValueOp).Proof
				d += fmt.Sprintf("{total %d index %d aunts %d}", p.Total, p.Index, len(p.Aunts))
			}
			out = append(out, d)
		}
	}
	return
}

// keys and store names that key-path encodings treat specially: honest answers must be relayed, and an
// answer that keeps the asked key but carries the value and genuine proof of a sibling key (or of the same
// key in a sibling store) must be refused; under the default URL key path and under hex key paths
func c20SpecialQueryCases(t *testing.T, cs *vg.Cases, c *c20Chain, r *vg.Rand) {
	type sq struct {
		kind, store, key string // asked
		fromStore, from  string // where value and proof come from
		mode             int
	}
	var qs []sq
	perm := r.Perm(len(c20SpecialKeys))
	for i, j := range perm { // honest: every special key once per chain, the modes in turn
		mode := 0
		if i%4 == 2 {
			mode = 1
		} else if i%4 == 3 {
			mode = 2
		}
		if i < vg.Scale(14, len(c20SpecialKeys)) || strings.HasPrefix(c20SpecialKeys[j], "x:") || strings.Contains(c20SpecialKeys[j], "+") {
			qs = append(qs, sq{"honest", c20SpecialStore, c20SpecialKeys[j], c20SpecialStore, c20SpecialKeys[j], mode})
		}
	}
	for i, st := range c20SiblingStores {
		qs = append(qs, sq{"honest", st, []string{"k", "a+b", "a b"}[(i+c.idx)%3], st, []string{"k", "a+b", "a b"}[(i+c.idx)%3], []int{0, 0, 2}[(i+c.idx/3)%3]})
	}
	for i, p := range c20SiblingKeys {
		qs = append(qs, sq{"sibling-key-lie", c20SpecialStore, p[0], c20SpecialStore, p[1], 0})
		if (i+c.idx)%3 == 0 {
			qs = append(qs, sq{"sibling-key-lie", c20SpecialStore, p[0], c20SpecialStore, p[1], 1 + (i/3)%2})
		}
	}
	for i, p := range c20SiblingStorePairs {
		qs = append(qs, sq{"sibling-store-lie", p[0], "k", p[1], "k", []int{0, 0, 2}[(i+c.idx)%3]})
	}
	names := []string{"default (url,url)", "custom (store url, key hex)", "custom (hex,hex)"}
	for k, q := range qs {
		id := cs.NextID()
		if !cs.Want(id) {
			continue
		}
		rr := r.Fork(uint64(8000 + k))
		h := 1 + rr.Int63n(c.n-1)
		res := c20Wire(c.honestQuery(h, q.fromStore, q.from))
		res.Response.Key = []byte(q.key) // the answer names the key that was asked for
		kind := q.kind
		if kind != "honest" {
			kind = fmt.Sprintf("%s (value and genuine proof of key %q in store %q)", q.kind, q.from, q.fromStore)
		}
		c20RunQuery(t, cs, id, c, fmt.Sprintf("query-special/%s/mode%d", q.kind, q.mode), kind, "/store/"+q.store+"/key", q.key, h, res,
			c20KPFn(q.mode), names[q.mode], q.kind == "honest")
	}
}

// a ValueOp for <key, value> whose inner proof has the right leaf hash and the given (total, index, aunts)
func c20FakeOp(key, value []byte, total, index int64, aunts [][]byte) tmcrypto.ProofOp {
	leaf := c20Sum(append([]byte{0}, append(c20Enc(key), c20Enc(c20Sum(value))...)...))
	return merkle.NewValueOp(key, &merkle.Proof{Total: total, Index: index, LeafHash: leaf, Aunts: aunts}).ProofOp()
}

// Chains whose headers carry an EMPTY AppHash, and ValueOps from which no root hash can be computed
// (index >= total, total 0, too many / too few aunts): merkle computeHashFromAunts gives nil for them,
// and nil equals the empty AppHash under bytes.Equal (F62).  The lying server answers with a value
// of its choice; nothing may be relayed on such a chain (no answer can be proven).
func c20EmptyAppHashCases(t *testing.T, cs *vg.Cases, c, ce *c20Chain, r *vg.Rand) {
	kinds := []string{"honest-unprovable", "uncomputable-total-0", "uncomputable-index-ge-total", "uncomputable-extra-aunt",
		"uncomputable-missing-aunt", "uncomputable-last-op-only", "uncomputable-last-op-only-genuine-value",
		"uncomputable-on-nonempty-apphash", "uncomputable-single-op"}
	for k, kind := range kinds {
		id := cs.NextID()
		if !cs.Want(id) {
			continue
		}
		rr := r.Fork(uint64(9000 + k))
		ch := ce
		if kind == "uncomputable-on-nonempty-apphash" {
			ch = c
		}
		h := 1 + rr.Int63n(ch.n-1)
		store := []string{"acc", "bank", c20SpecialStore}[rr.Intn(3)]
		keys := c20SortedKeys(ch.apps[h].stores[store])
		key := keys[rr.Intn(len(keys))]
		res := c20Wire(ch.honestQuery(h, store, key))
		q := &res.Response
		lie := append([]byte("forged "), rr.Bytes(1+rr.Intn(4))...)
		aunt := c20Sum([]byte("aunt"))
		// the last operator is run on what the one before "computed": nil
		last := func(total, index int64, aunts [][]byte) tmcrypto.ProofOp {
			return c20FakeOp([]byte(store), nil, total, index, aunts)
		}
		switch kind {
		case "uncomputable-total-0":
			q.Value = lie
			q.ProofOps.Ops = []tmcrypto.ProofOp{c20FakeOp([]byte(key), lie, 0, 0, nil), last(0, 0, nil)}
		case "uncomputable-index-ge-total":
			q.Value = lie
			q.ProofOps.Ops = []tmcrypto.ProofOp{c20FakeOp([]byte(key), lie, 1, 1+int64(rr.Intn(9)), nil), last(3, 3, [][]byte{aunt, aunt})}
		case "uncomputable-extra-aunt":
			q.Value = lie
			q.ProofOps.Ops = []tmcrypto.ProofOp{c20FakeOp([]byte(key), lie, 1, 0, [][]byte{aunt}), last(2, 1, [][]byte{aunt, aunt})}
		case "uncomputable-missing-aunt":
			q.Value = lie
			q.ProofOps.Ops = []tmcrypto.ProofOp{c20FakeOp([]byte(key), lie, 4, 2, [][]byte{aunt}), last(2, 0, nil)}
		case "uncomputable-last-op-only": // the first operator computes a root all right (a one-leaf "store"); only the last has none
			q.Value = lie
			op0 := c20FakeOp([]byte(key), lie, 1, 0, nil)
			sroot := c20Sum(append([]byte{0}, append(c20Enc([]byte(key)), c20Enc(c20Sum(lie))...)...))
			q.ProofOps.Ops = []tmcrypto.ProofOp{op0, c20FakeOp([]byte(store), sroot, 1, 1, nil)}
		case "uncomputable-last-op-only-genuine-value": // the true value, with its genuine store proof, "proven" by nothing at the top
			sroot := merkle.HashFromByteSlices(func() [][]byte { _, l := ch.apps[h].storeLeaves(store); return l }())
			q.ProofOps.Ops[1] = c20FakeOp([]byte(store), sroot, 2, 2, [][]byte{aunt})
		case "uncomputable-on-nonempty-apphash":
			q.Value = lie
			q.ProofOps.Ops = []tmcrypto.ProofOp{c20FakeOp([]byte(key), lie, 0, 0, nil), last(0, 0, nil)}
		case "uncomputable-single-op": // one operator only: the key path is not consumed
			q.Value = lie
			q.ProofOps.Ops = []tmcrypto.ProofOp{c20FakeOp([]byte(key), lie, 0, 0, nil)}
		}
		c20RunQuery(t, cs, id, ch, "query-emptyapphash/"+kind, kind+fmt.Sprintf(" (AppHash of header %d = %X)", h+1, []byte(ch.blocks[h].AppHash)),
			"/store/"+store+"/key", key, h, res, c20KPFn(0), "default (url,url)", false)
	}
}

// ---------------------------------------------------------------- key paths printed and parsed by crypto/merkle

func c20KeysTerm(keys [][]byte, err error) string {
	if err != nil {
		return "None"
	}
	return vg.Opt(true, vg.HxL(keys))
}

func c20KeyPathCases(t *testing.T, cs *vg.Cases, chain int, r *vg.Rand) {
	type pk struct {
		name []byte
		hex  bool
	}
	var paths [][]pk
	if chain == 0 { // directed: every special key and store name alone under both encodings, and as (store, key)
		paths = append(paths, nil)
		for _, k := range append(append([]string{""}, c20SpecialKeys...), c20SiblingStores...) {
			paths = append(paths, []pk{{[]byte(k), false}}, []pk{{[]byte(k), true}})
		}
		for i, k := range c20SpecialKeys {
			st := c20SiblingStores[i%len(c20SiblingStores)]
			paths = append(paths, []pk{{[]byte(st), false}, {[]byte(k), false}}, []pk{{[]byte(st), i%2 == 0}, {[]byte(k), true}})
		}
	}
	alphabet := []byte("+ %/?#&=:x;,@$~-_.!*'()aZfF09\"<>[]{}|^`\\\x00\n\x7f\x80\xc3\xa9\xff")
	for i := 0; i < vg.Scale(25, 60); i++ {
		var p []pk
		for n := 1 + r.Intn(4); n > 0; n-- {
			var name []byte
			if r.Chance(15) {
				name = []byte("x:")
			}
			for l := r.Intn(7); l > 0; l-- {
				if r.Chance(80) {
					name = append(name, alphabet[r.Intn(len(alphabet))])
				} else {
					name = append(name, byte(r.Intn(256)))
				}
			}
			p = append(p, pk{name, r.Chance(35)})
		}
		paths = append(paths, p)
	}
	var printed []string
	for _, p := range paths {
		id := cs.NextID()
		kp := merkle.KeyPath{}
		var ks, human []string
		for _, k := range p {
			enc := merkle.KeyEncodingURL
			if k.hex {
				enc = merkle.KeyEncodingHex
			}
			kp = kp.AppendKey(k.name, enc)
			ks = append(ks, vg.Tup(vg.Hx(k.name), vg.B(k.hex)))
			human = append(human, fmt.Sprintf("%q(%s)", k.name, map[bool]string{true: "hex", false: "url"}[k.hex]))
		}
		str := kp.String()
		printed = append(printed, str)
		if !cs.Want(id) {
			continue
		}
		keys, err := merkle.KeyPathToKeys(str)
		cs.Add(id, "keypath/roundtrip", len(p) > 0,
			vg.App("CKeyPath", vg.L(ks), vg.Hx([]byte(str)), c20KeysTerm(keys, err)),
			fmt.Sprintf("KeyPath%v.String() = %q; KeyPathToKeys of that = %q err=%v", human, str, keys, err))
	}
	// arbitrary strings: the printed paths with one or two characters changed, and directed malformed ones
	strs := []string{"", "/", "//", "x:00", "a/b", "/%", "/%4", "/%4g", "/%41%", "/a+b", "/a%2Bb", "/a%2bb", "/a%20b", "/x:", "/x:0", "/x:0g", "/x:abCD",
		"/x:AB/x:", "/X:00", "/x%3A00", "/x%3a00", "/ x:00", "/a/x:00/%2F", "/%00%ff", "/\xc3\xa9", "/+", "/%2B", "/a//b/", "/x:%41", "/é/x:C3A9"}
	if chain != 0 {
		strs = nil
	}
	subst := []byte("+%/x: aF0g")
	for i := 0; i < vg.Scale(20, 50) && len(printed) > 0; i++ {
		b := []byte(printed[r.Intn(len(printed))])
		for m := 1 + r.Intn(2); m > 0 && len(b) > 0; m-- {
			switch j := r.Intn(len(b)); r.Intn(4) {
			case 0:
				b[j] = subst[r.Intn(len(subst))]
			case 1:
				b = append(b[:j:j], b[j+1:]...)
			case 2:
				b = append(b[:j:j], append([]byte{subst[r.Intn(len(subst))]}, b[j:]...)...)
			case 3:
				b = []byte(strings.ToLower(string(b)))
			}
		}
		strs = append(strs, string(b))
	}
	for _, str := range strs {
		id := cs.NextID()
		if !cs.Want(id) {
			continue
		}
		keys, err := merkle.KeyPathToKeys(str)
		cs.Add(id, "keypath/decode", true, vg.App("CKeyDecode", vg.Hx([]byte(str)), c20KeysTerm(keys, err)),
			fmt.Sprintf("KeyPathToKeys(%q) = %q err=%v", str, keys, err))
	}
}

// ---------------------------------------------------------------- ConsensusParams

var c20ParamsKinds = []string{"honest", "honest", "max-bytes", "max-gas", "evidence-age", "time-iota", "pubkey-types-bad",
	"pubkey-types-none", "other-height", "height-zero", "height-beyond", "version", "max-bytes-zero"}

func c20ParamsCases(t *testing.T, cs *vg.Cases, c *c20Chain, r *vg.Rand) {
	for k, kind := range c20ParamsKinds {
		id := cs.NextID()
		if !cs.Want(id) {
			continue
		}
		rr := r.Fork(uint64(5000 + k))
		h := 1 + rr.Int63n(c.n)
		res := c20Wire(c.honestParams(h))
		p := &res.ConsensusParams
		honest := kind == "honest"
		switch kind {
		case "max-bytes":
			p.Block.MaxBytes += 1 + int64(rr.Intn(1000))
		case "max-gas":
			p.Block.MaxGas += 1 + int64(rr.Intn(1000))
		case "evidence-age":
			p.Evidence.MaxAgeNumBlocks = 1
			p.Evidence.MaxAgeDuration = time.Second
		case "time-iota":
			p.Block.TimeIotaMs += 5
		case "pubkey-types-bad":
			p.Validator.PubKeyTypes = []string{"rsa"}
		case "pubkey-types-none":
			p.Validator.PubKeyTypes = nil
		case "other-height":
			res.BlockHeight = c20OtherHeight(c, h, rr)
		case "height-zero":
			res.BlockHeight = 0
		case "height-beyond":
			res.BlockHeight = c.n + 1
		case "version":
			p.Version.AppVersion += 9
		case "max-bytes-zero":
			p.Block.MaxBytes = 0
		}
		lc := c20NewLC(c)
		srv := &c20Server{params: res}
		cl := c20Client(srv, lc, true)
		view := c20Wire(res)
		run := c20Call(lc, func() error {
			_, err := cl.ConsensusParams(context.Background(), &h)
			return err
		})
		cs.Add(id, "params/"+kind, kind != "honest",
			vg.App("CParams", lc.term(false), vg.B(types.ValidateConsensusParams(view.ConsensusParams) == nil), vg.Z(view.BlockHeight),
				vg.Z(view.ConsensusParams.Block.MaxBytes), vg.Z(view.ConsensusParams.Block.MaxGas),
				vg.B(run.relayed), vg.L(run.calls), vg.B(honest)),
			fmt.Sprintf("chain#%d(n=%d) ConsensusParams(height %d), falsification: %s; answer: height=%d params=%+v; relayed=%v err=%q",
				c.idx, c.n, h, kind, view.BlockHeight, view.ConsensusParams, run.relayed, run.err))
	}
}

// ---------------------------------------------------------------- ConsensusParams as a conversation (with and without a height)

// rpc/core ConsensusParams on a node whose store is at the chain's tip (not syncing): getHeight(latestUncommittedHeight(), h) -
// no height means tip + 1, the parameters the NEXT block will be made under; an explicit height must be in 1 .. tip + 1
func (c *c20Chain) coreParams(h *int64) (*ctypes.ResultConsensusParams, error) {
	height := c.n + 1
	if h != nil {
		if *h <= 0 {
			return nil, fmt.Errorf("height must be greater than 0, but got %d", *h)
		}
		if *h > c.n+1 {
			return nil, fmt.Errorf("height %d must be less than or equal to the current blockchain height %d", *h, c.n+1)
		}
		height = *h
	}
	at := height
	if at > c.n { // nothing changes the parameters after the last block
		at = c.n
	}
	return &ctypes.ResultConsensusParams{BlockHeight: height, ConsensusParams: c.params[at-1]}, nil
}

func c20ParamsReqCases(t *testing.T, cs *vg.Cases, c *c20Chain, r *vg.Rand) {
	type pq struct {
		kind   string
		nilReq bool
		lcMode int // 0 Update returns block n; 1 Update has nothing newer, latest trusted < = n; 2 Update fails; 3 empty store
	}
	qs := []pq{{"honest", false, 0}, {"honest-for-tip+1", false, 0}, {"max-bytes", false, 0}, {"beyond-tip+1", false, 0}}
	if c20F86() {
		qs = append(qs, pq{"honest", true, 0}, pq{"honest", true, 1}, pq{"honest", true, 1}, pq{"honest-but-update-fails", true, 2},
			pq{"honest-but-empty-store", true, 3}, pq{"max-bytes", true, 0}, pq{"max-gas", true, 1}, pq{"evidence-age", true, 0},
			pq{"label-other-height-genuine", true, 0}, pq{"label-other-height-genuine", true, 1}, pq{"params-of-other-height", true, 0},
			pq{"always-answers-for-tip+1", true, 0}, pq{"label-zero", true, 0}, pq{"pubkey-types-none", true, 0}, pq{"server-error", true, 1},
			pq{"label-plus-1", true, 0})
	}
	for k, q := range qs {
		id := cs.NextID()
		if !cs.Want(id) {
			continue
		}
		rr := r.Fork(uint64(10000 + k))
		lc := c20NewLC(c)
		latest := c.n // the light client's latest block
		switch q.lcMode {
		case 1:
			lc.updateNone = true
			latest = 1 + rr.Int63n(c.n)
			c20TrustUpTo(lc, latest)
		case 2:
			lc.updateOK = false
		case 3:
			lc.updateNone = true
			c20TrustUpTo(lc, 0)
		}
		var hp *int64
		if !q.nilReq {
			h := 1 + rr.Int63n(c.n)
			if q.kind == "honest-for-tip+1" {
				h = c.n + 1 // the node answers (label tip+1), the light client has no such header yet
			}
			if q.kind == "beyond-tip+1" {
				h = c.n + 2
			}
			hp = &h
		}
		other := c20OtherHeight(c, latest, rr)
		fn := func(h *int64) (*ctypes.ResultConsensusParams, error) { // the (possibly lying) server
			res, err := c.coreParams(h)
			if err != nil {
				return nil, err
			}
			res = c20Wire(res)
			p := &res.ConsensusParams
			switch q.kind {
			case "max-bytes":
				p.Block.MaxBytes += 1 + int64(k)
			case "max-gas":
				p.Block.MaxGas += 1 + int64(k)
			case "evidence-age":
				p.Evidence.MaxAgeNumBlocks = 1
				p.Evidence.MaxAgeDuration = time.Second
			case "label-other-height-genuine": // the genuine, complete answer for another height
				return c.coreParams(&other)
			case "params-of-other-height": // labelled as asked, but the parameters another height had (may coincide: then it is the truth)
				o, _ := c.coreParams(&other)
				res.ConsensusParams = o.ConsensusParams
			case "always-answers-for-tip+1":
				return c.coreParams(nil)
			case "label-zero":
				res.BlockHeight = 0
			case "label-plus-1":
				res.BlockHeight++
			case "pubkey-types-none":
				p.Validator.PubKeyTypes = nil
			case "server-error":
				return nil, errors.New("internal error")
			}
			return res, nil
		}
		srv := &c20Server{paramsFn: fn}
		cl := c20Client(srv, lc, true)
		var out *ctypes.ResultConsensusParams
		run := c20Call(lc, func() error {
			var err error
			out, err = cl.ConsensusParams(context.Background(), hp)
			return err
		})
		asked := append([]string{}, srv.paramsAsked...)
		// the server's answer to every request it can get
		var table, human []string
		reqs := []*int64{nil}
		for h := int64(1); h <= c.n+2; h++ {
			h := h
			reqs = append(reqs, &h)
		}
		for _, rq := range reqs {
			res, err := fn(rq)
			if err != nil {
				table = append(table, vg.Tup(c20OptZ(rq), "None"))
				human = append(human, fmt.Sprintf("%s->error", c20OptZ(rq)))
				continue
			}
			v := c20Wire(res)
			table = append(table, vg.Tup(c20OptZ(rq), vg.Opt(true, vg.Tup(vg.B(types.ValidateConsensusParams(v.ConsensusParams) == nil), vg.Z(v.BlockHeight),
				vg.Z(v.ConsensusParams.Block.MaxBytes), vg.Z(v.ConsensusParams.Block.MaxGas)))))
			human = append(human, fmt.Sprintf("%s->{height %d max_bytes %d max_gas %d}", c20OptZ(rq), v.BlockHeight, v.ConsensusParams.Block.MaxBytes, v.ConsensusParams.Block.MaxGas))
		}
		outT := vg.Tup(vg.Z(0), vg.Z(0), vg.Z(0))
		if run.relayed && out != nil {
			outT = vg.Tup(vg.Z(out.BlockHeight), vg.Z(out.ConsensusParams.Block.MaxBytes), vg.Z(out.ConsensusParams.Block.MaxGas))
		}
		// honest = the unmodified answers of rpc/core, and the light client has the block to check them against
		honest := (q.kind == "honest" && (q.lcMode == 0 || q.lcMode == 1))
		cs.Add(id, "params-req/"+q.kind, !honest,
			vg.App("CParamsReq", lc.term(false), c20OptZ(hp), vg.L(table), vg.L(asked), vg.B(run.relayed), outT, vg.L(run.calls), vg.B(honest)),
			fmt.Sprintf("chain#%d(n=%d) ConsensusParams(%s); full node at store height %d, light client: %s; the server (%s) answers request->answer %v; requests received %v; relayed=%v err=%q",
				c.idx, c.n, c20OptZ(hp), c.n, lc.updateDescr(), q.kind, human, asked, run.relayed, run.err))
	}
}

// ---------------------------------------------------------------- BlockResults

var c20ResultsKinds = []string{"honest", "honest", "honest-with-txs", "honest-latest-minus-1", "honest-of-latest", "code-forged",
	"data-forged", "gas-wanted-forged", "gas-used-forged", "log-forged", "tx-events-forged", "begin-events-forged",
	"end-events-forged", "result-dropped", "result-added", "results-swapped", "height-label-forged", "height-label-zero",
	"other-height-genuine", "validator-updates-forged", "codespace-forged", "all-results-emptied",
	"honest-empty-after-txs", "replayed-earlier-results"}

func c20ResultsCases(t *testing.T, cs *vg.Cases, c *c20Chain, r *vg.Rand) {
	for k, kind := range c20ResultsKinds {
		id := cs.NextID()
		if !cs.Want(id) {
			continue
		}
		rr := r.Fork(uint64(6000 + k))
		h := 1 + rr.Int63n(c.n-1)
		if kind == "honest-with-txs" || k%3 == 2 {
			h = 2
		}
		var hp *int64 = &h
		honest := kind == "honest" || kind == "honest-with-txs" || kind == "honest-latest-minus-1" || kind == "honest-empty-after-txs"
		if kind == "honest-empty-after-txs" || kind == "replayed-earlier-results" {
			h = 3 // block 3 has no transactions, block 2 at least three: header 4 must commit to the EMPTY results
		}
		if kind == "honest-latest-minus-1" {
			hp = nil
			h = c.n - 1
		}
		if kind == "honest-of-latest" { // cannot be proven yet: header n+1 does not exist
			h = c.n
		}
		res := c20Wire(c.honestResults(h))
		pick := 0
		if len(res.TxsResults) > 0 {
			pick = rr.Intn(len(res.TxsResults))
		}
		mut := func(f func(d *abci.ResponseDeliverTx)) {
			if len(res.TxsResults) == 0 {
				res.TxsResults = append(res.TxsResults, &abci.ResponseDeliverTx{})
			}
			f(res.TxsResults[pick])
		}
		switch kind {
		case "code-forged":
			mut(func(d *abci.ResponseDeliverTx) { d.Code ^= 1 })
		case "data-forged":
			mut(func(d *abci.ResponseDeliverTx) { d.Data = c20Flip(d.Data, rr) })
		case "gas-wanted-forged":
			mut(func(d *abci.ResponseDeliverTx) { d.GasWanted += 1 })
		case "gas-used-forged":
			mut(func(d *abci.ResponseDeliverTx) { d.GasUsed -= 1 })
		case "log-forged":
			if len(res.TxsResults) > 0 {
				res.TxsResults[pick].Log = "forged log"
				res.TxsResults[pick].Info = "forged info"
			}
		case "tx-events-forged":
			if len(res.TxsResults) > 0 {
				res.TxsResults[pick].Events = c20Events(rr)
			}
		case "begin-events-forged":
			res.BeginBlockEvents = append(res.BeginBlockEvents, abci.Event{Type: "forged"})
		case "end-events-forged":
			res.EndBlockEvents = append(res.EndBlockEvents, abci.Event{Type: "forged"})
		case "result-dropped":
			if len(res.TxsResults) > 0 {
				res.TxsResults = res.TxsResults[1:]
			} else {
				res.TxsResults = append(res.TxsResults, &abci.ResponseDeliverTx{Code: 1})
			}
		case "result-added":
			res.TxsResults = append(res.TxsResults, &abci.ResponseDeliverTx{})
		case "results-swapped":
			if len(res.TxsResults) >= 2 {
				res.TxsResults[0], res.TxsResults[1] = res.TxsResults[1], res.TxsResults[0]
			} else {
				res.TxsResults = append(res.TxsResults, &abci.ResponseDeliverTx{GasUsed: 5})
			}
		case "height-label-forged":
			res.Height = h + 1 + rr.Int63n(50)
		case "height-label-zero":
			res.Height = 0
		case "other-height-genuine":
			res = c20Wire(c.honestResults(c20OtherHeight(c, h, rr)))
		case "validator-updates-forged":
			res.ValidatorUpdates = []abci.ValidatorUpdate{{Power: 1000}}
		case "codespace-forged":
			if len(res.TxsResults) > 0 {
				res.TxsResults[pick].Codespace = "forged"
			}
		case "all-results-emptied":
			res.TxsResults = nil
		case "replayed-earlier-results": // the results of the last block that had transactions, labelled with this height
			res.TxsResults = c20Wire(c.honestResults(2)).TxsResults
		}
		lc := c20NewLC(c)
		srv := &c20Server{results: res, latest: c.n}
		cl := c20Client(srv, lc, true)
		view := c20Wire(res)
		run := c20Call(lc, func() error {
			_, err := cl.BlockResults(context.Background(), hp)
			return err
		})
		var rs []string
		var human []string
		for _, d := range view.TxsResults {
			if d == nil {
				d = &abci.ResponseDeliverTx{}
			}
			rs = append(rs, vg.Tup(vg.Z(int64(d.Code)), vg.Hx(d.Data), vg.Z(d.GasWanted), vg.Z(d.GasUsed)))
			human = append(human, fmt.Sprintf("{code %d data %x gas %d/%d log %q}", d.Code, d.Data, d.GasWanted, d.GasUsed, d.Log))
		}
		cs.Add(id, "results/"+kind, kind != "honest",
			vg.App("CResults", lc.term(false), c20OptZ(hp), vg.Z(c.n), vg.Z(view.Height), vg.L(rs), vg.B(run.relayed), vg.L(run.calls), vg.B(honest)),
			fmt.Sprintf("chain#%d(n=%d) BlockResults(height %s; latest %d), falsification: %s; answer: height=%d results=%v beginEvents=%d endEvents=%d; next header LastResultsHash=%X; relayed=%v err=%q",
				c.idx, c.n, c20OptZ(hp), c.n, kind, view.Height, human, len(view.BeginBlockEvents), len(view.EndBlockEvents),
				func() []byte {
					if h+1 <= c.n {
						return c.blocks[h].LastResultsHash
					}
					return nil
				}(), run.relayed, run.err))
	}
}

// ---------------------------------------------------------------- server side: proofs as rpc/core Tx builds them

func c20ServedCases(t *testing.T, cs *vg.Cases, c *c20Chain, r *vg.Rand) {
	for h := int64(1); h <= c.n; h++ {
		b := c.blocks[h-1]
		for i := range b.Data.Txs {
			id := cs.NextID()
			if !cs.Want(id) {
				continue
			}
			proof := b.Data.Txs.Proof(i) // rpc/core/tx.go: block.Data.Txs.Proof(int(index))
			valid := proof.Validate(b.DataHash) == nil
			var txs [][]byte
			for _, tx := range b.Data.Txs {
				txs = append(txs, tx)
			}
			cs.Add(id, "served", len(txs) >= 2,
				vg.App("CServed", vg.HxL(txs), vg.Z(int64(i)),
					vg.Tup(vg.Hx(proof.RootHash), vg.Hx(proof.Data), c20ProofTerm(proof.Proof)), vg.Hx(b.DataHash), vg.B(valid)),
				fmt.Sprintf("chain#%d block %d txs=%x: Txs.Proof(%d).Validate(DataHash)=%v", c.idx, h, txs, i, valid))
		}
	}
}

// ---------------------------------------------------------------- driver

func TestVerifC20Client(t *testing.T) {
	root := vg.NewRand(vg.Seed() ^ 0xc20)
	cs := vg.NewCases("C20", "c20_client", "TM.C20.Exec")
	n := vg.Scale(6, 150)
	for k := 0; k < n; k++ {
		r := root.Fork(uint64(k))
		c := c20NewChain(k, r.Fork(1))
		c20BlockCases(t, cs, c, r.Fork(2))
		c20InfoCases(t, cs, c, r.Fork(3))
		c20CommitCases(t, cs, c, r.Fork(4))
		c20ValsCases(t, cs, c, r.Fork(5), k == 0)
		c20TxCases(t, cs, c, r.Fork(6))
		c20SearchCases(t, cs, c, r.Fork(11))
		c20QueryCases(t, cs, c, r.Fork(7))
		c20SpecialQueryCases(t, cs, c, r.Fork(12))
		c20KeyPathCases(t, cs, k, r.Fork(13))
		c20EmptyAppHashCases(t, cs, c, c20NewChainOpt(k, r.Fork(1), true), r.Fork(14))
		c20ParamsCases(t, cs, c, r.Fork(8))
		c20ParamsReqCases(t, cs, c, r.Fork(15))
		c20ResultsCases(t, cs, c, r.Fork(9))
		c20ServedCases(t, cs, c, r.Fork(10))
	}
	if err := cs.Write(); err != nil {
		t.Fatal(err)
	}
}
