//go:build verif

package evidence

// C11, light client attack evidence against the SPECIFICATION of its byzantine validators.
//
// Families of light client attack evidence over chains whose commits mix signatures for the
// block, precommits for nil and absent slots.  One family = one conflicting block (lunatic with a
// conflicting validator set made of members of the common-height set and of outsiders,
// equivocation, amnesia) whose commit mixes for-block signatures, genuine precommits for nil and
// absent slots, with enough for-block power that the commit checks pass (> 1/3 of the common
// set, > 2/3 of the conflicting set) or just not enough, plus
//   (a) the evidence listing exactly the validators the specification prescribes (c11Chain.specByz,
//       written from spec/light-client/attacks, not from GetByzantineValidators), and
//   (b) variants: one validator too many (a nil voter, an absent one, an outsider, a member that
//       is not in the conflicting set), one too few, another order, another power, another
//       TotalVotingPower, the list the implementation's own function computes when it differs,
//       non-nil empty list, evidence formed for a lower common height.
// Every family is driven through AddEvidence, CheckEvidence (in-block), PendingEvidence, Update and
// again, once with the wrong variants first and once with the specified evidence first; ABCI()
// of every evidence is recorded.  The Coq side (coq/C11/Exec.v, clauses 11-13) judges what was
// admitted against coq/C11/Spec.v.

import (
	"bytes"
	"fmt"
	"os"
	"sort"
	"testing"
	"time"

	vg "github.com/tendermint/tendermint/internal/verifgen"
	"github.com/tendermint/tendermint/types"
)

type c11Family struct {
	shape      string
	verifiable bool // the commit checks were meant to pass
	evs        []c11Ev
}

func c11Power(vs *types.ValidatorSet, fl []types.BlockIDFlag, in func(v *types.Validator) (int64, bool)) int64 {
	var pw int64
	for i, v := range vs.Validators {
		if fl[i] != types.BlockIDFlagCommit {
			continue
		}
		if p, ok := in(v); ok {
			pw += p
		}
	}
	return pw
}

// do the flags carry enough for-block power: > 2/3 of the conflicting set and, when trusting is
// not nil, > 1/3 of the trusting (common-height) set
func c11Enough(cvals *types.ValidatorSet, fl []types.BlockIDFlag, trusting *types.ValidatorSet) bool {
	own := c11Power(cvals, fl, func(v *types.Validator) (int64, bool) { return v.VotingPower, true })
	if own <= cvals.TotalVotingPower()*2/3 {
		return false
	}
	if trusting == nil {
		return true
	}
	tp := c11Power(cvals, fl, func(v *types.Validator) (int64, bool) {
		_, w := trusting.GetByAddress(v.Address)
		if w == nil {
			return 0, false
		}
		return w.VotingPower, true
	})
	return tp > trusting.TotalVotingPower()*1/3
}

func c11RandomFlags(r *vg.Rand, n int) []types.BlockIDFlag {
	fl := make([]types.BlockIDFlag, n)
	for i := range fl {
		switch x := r.Intn(100); {
		case x < 50:
			fl[i] = types.BlockIDFlagCommit
		case x < 78:
			fl[i] = types.BlockIDFlagNil
		default:
			fl[i] = types.BlockIDFlagAbsent
		}
	}
	return fl
}

// shape the flags: verifiable => flip slots to "for the block" until the power suffices, then
// put back a nil / an absent slot where the power still suffices; otherwise take for-block
// signatures away until it just does not
func c11ShapeFlags(r *vg.Rand, cvals *types.ValidatorSet, fl []types.BlockIDFlag, trusting *types.ValidatorSet, verifiable bool) bool {
	for !c11Enough(cvals, fl, trusting) {
		var cand []int
		for i := range fl {
			if fl[i] != types.BlockIDFlagCommit {
				cand = append(cand, i)
			}
		}
		if len(cand) == 0 {
			return false
		}
		fl[cand[r.Intn(len(cand))]] = types.BlockIDFlagCommit
	}
	for _, want := range []types.BlockIDFlag{types.BlockIDFlagNil, types.BlockIDFlagAbsent} {
		has := false
		for _, f := range fl {
			has = has || f == want
		}
		if has || r.Chance(20) {
			continue
		}
		for _, i := range r.Perm(len(fl)) {
			if fl[i] != types.BlockIDFlagCommit {
				continue
			}
			fl[i] = want
			if c11Enough(cvals, fl, trusting) {
				break
			}
			fl[i] = types.BlockIDFlagCommit
		}
	}
	if verifiable {
		return true
	}
	for _, i := range r.Perm(len(fl)) {
		if fl[i] != types.BlockIDFlagCommit {
			continue
		}
		if r.Bool() {
			fl[i] = types.BlockIDFlagNil
		} else {
			fl[i] = types.BlockIDFlagAbsent
		}
		if !c11Enough(cvals, fl, trusting) {
			return true
		}
	}
	return true
}

func c11SortByPower(vs []*types.Validator) {
	sort.Slice(vs, func(i, j int) bool {
		if vs[i].VotingPower != vs[j].VotingPower {
			return vs[i].VotingPower > vs[j].VotingPower
		}
		return bytes.Compare(vs[i].Address, vs[j].Address) < 0
	})
}

func c11HasAddr(vs []*types.Validator, a []byte) bool {
	for _, v := range vs {
		if bytes.Equal(v.Address, a) {
			return true
		}
	}
	return false
}

func c11With(ev *types.LightClientAttackEvidence, byz []*types.Validator) *types.LightClientAttackEvidence {
	w := *ev
	w.ByzantineValidators = nil
	if len(byz) > 0 {
		w.ByzantineValidators = append([]*types.Validator(nil), byz...)
	}
	return &w
}

// one family; evs[0] is the evidence with the specified list
func (c *c11Chain) genLcaFamily(r *vg.Rand) c11Family {
	var fam c11Family
	fam.verifiable = !r.Chance(22)
	var common, k int64
	var hdr *types.Header
	var cvals *types.ValidatorSet
	var fl []types.BlockIDFlag
	round := int32(0)
	switch x := r.Intn(100); {
	case x < 50:
		fam.shape = "lunatic"
		common = int64(1 + r.Intn(int(c.n-2)))
		k = common + 1 + int64(r.Intn(int(c.n-common-1)))
		if r.Chance(6) {
			// forward lunatic: beyond our chain (never verifiable here: the block store has no
			// commit for its own latest height)
			fam.shape = "forward-lunatic"
			k = c.n + 1 + int64(r.Intn(2))
		}
	case x < 80:
		fam.shape = "equivocation"
		common = int64(1 + r.Intn(int(c.n-1)))
		k = common
	default:
		fam.shape = "amnesia"
		common = int64(1 + r.Intn(int(c.n-1)))
		k = common
	}
	cv := c.vals[common]
	switch fam.shape {
	case "lunatic", "forward-lunatic":
		for attempt := 0; ; attempt++ {
			// conflicting set: members of the common set (some with other claimed powers) and outsiders
			var vs []*types.Validator
			for _, v := range cv.Validators {
				if attempt < 3 && !r.Chance(72) {
					continue
				}
				pw := v.VotingPower
				if r.Chance(35) {
					pw = int64(1 + r.Intn(20))
				}
				vs = append(vs, types.NewValidator(v.PubKey, pw))
			}
			for _, pv := range c.outside {
				if r.Chance(45) {
					vs = append(vs, types.NewValidator(pv.PrivKey.PubKey(), int64(1+r.Intn(25))))
				}
			}
			if len(vs) == 0 {
				continue
			}
			cvals = types.NewValidatorSet(vs)
			fl = c11RandomFlags(r, cvals.Size())
			if c11ShapeFlags(r, cvals, fl, cv, fam.verifiable) {
				break
			}
		}
		if k > c.n {
			hdr = c11CopyHeader(c.headers[c.n])
			hdr.Height = k
			hdr.Time = c.times[c.n].Add(-time.Duration(r.Intn(3)) * time.Second)
		} else {
			hdr = c11CopyHeader(c.headers[k])
			hdr.Time = c.times[k].Add(time.Duration(r.Intn(3)) * time.Second)
		}
		switch r.Intn(4) {
		case 0:
			hdr.AppHash = r.Bytes(32)
		case 1:
			hdr.LastResultsHash = r.Bytes(32)
		case 2:
			hdr.NextValidatorsHash = r.Bytes(32)
		}
		hdr.ValidatorsHash = cvals.Hash() // differs from ours unless the set is ours
		round = int32(r.Intn(2))
	default:
		cvals = c.vals[k].Copy()
		fl = c11RandomFlags(r, cvals.Size())
		c11ShapeFlags(r, cvals, fl, nil, fam.verifiable)
		hdr = c11CopyHeader(c.headers[k])
		hdr.DataHash = r.Bytes(32)
		round = c.rounds[k]
		if fam.shape == "amnesia" {
			round = c.rounds[k] + 1
		}
	}
	bid := types.BlockID{Hash: hdr.Hash(), PartSetHeader: types.PartSetHeader{Total: 1, Hash: r.Bytes(32)}}
	commit := c.mkCommitFlags(k, round, bid, cvals, func(i int) types.BlockIDFlag { return fl[i] }, c.times[common])
	if os.Getenv("VERIF_C11_FORGED") != "0" && fam.verifiable && r.Chance(35) {
		// forged slots (F57-2 class; VERIF_C11_FORGED=0 switches the family off): a slot behind the point where the
		// commit checks stop verifying signatures is turned into a "signature for the block" of a
		// member of the common set, with a signature that does not verify
		if i := c11ForgeableSlot(cvals, fl, cv, fam.shape == "lunatic"); i >= 0 {
			commit.Signatures[i] = types.CommitSig{BlockIDFlag: types.BlockIDFlagCommit,
				ValidatorAddress: cvals.Validators[i].Address, Timestamp: c.times[common], Signature: r.Bytes(64)}
			fl[i] = types.BlockIDFlagCommit
			fam.shape += "-forged-slot"
		} else if fam.shape == "equivocation" {
			// ... or a precommit for nil (never verified) under an address that is nobody's
			if rc := c.bs.LoadBlockCommit(k); rc != nil {
				for i := range fl {
					if fl[i] != types.BlockIDFlagCommit && i < len(rc.Signatures) && !rc.Signatures[i].Absent() {
						commit.Signatures[i] = types.CommitSig{BlockIDFlag: types.BlockIDFlagNil,
							ValidatorAddress: r.Bytes(20), Timestamp: c.times[common], Signature: r.Bytes(64)}
						fl[i] = types.BlockIDFlagNil
						fam.shape += "-forged-nil-unknown-address"
						break
					}
				}
			}
		}
	}
	base := &types.LightClientAttackEvidence{
		ConflictingBlock: &types.LightBlock{SignedHeader: &types.SignedHeader{Header: hdr, Commit: commit}, ValidatorSet: cvals},
		CommonHeight:     common, TotalVotingPower: cv.TotalVotingPower(), Timestamp: c.times[common],
	}
	_, spec, haveRef := c.specByz(base)
	add := func(ev *types.LightClientAttackEvidence, kind string) {
		fam.evs = append(fam.evs, c11Ev{ev, "lca-" + fam.shape + "-" + kind})
	}
	tag := "spec-list"
	if !fam.verifiable {
		tag = "spec-list-commit-power-short"
	}
	add(c11With(base, spec), tag)

	// ---- variants
	plus := func(v *types.Validator) []*types.Validator {
		l := append(append([]*types.Validator(nil), spec...), v)
		c11SortByPower(l)
		return l
	}
	// members of the common set by what their slot in the conflicting commit says
	var nilVoters, absentOnes, notInSet, forBlockNotListed []*types.Validator
	for _, v := range cv.Validators {
		if c11HasAddr(spec, v.Address) {
			continue
		}
		i, w := cvals.GetByAddress(v.Address)
		switch {
		case w == nil:
			notInSet = append(notInSet, v)
		case fl[i] == types.BlockIDFlagNil:
			nilVoters = append(nilVoters, v)
		case fl[i] == types.BlockIDFlagAbsent:
			absentOnes = append(absentOnes, v)
		default:
			forBlockNotListed = append(forBlockNotListed, v) // equivocation: did not sign our block
		}
	}
	var outsiders []*types.Validator
	for _, v := range cvals.Validators {
		if _, w := cv.GetByAddress(v.Address); w == nil {
			outsiders = append(outsiders, v)
		}
	}
	if len(outsiders) == 0 {
		outsiders = []*types.Validator{types.NewValidator(c.outside[0].PrivKey.PubKey(), int64(1+r.Intn(20)))}
	}
	pick := func(l []*types.Validator) *types.Validator { return l[r.Intn(len(l))] }
	type variant struct {
		kind string
		mk   func() *types.LightClientAttackEvidence
	}
	var vars []variant
	if len(nilVoters) > 0 {
		vars = append(vars, variant{"plus-nil-voter", func() *types.LightClientAttackEvidence { return c11With(base, plus(pick(nilVoters))) }})
	}
	if len(absentOnes) > 0 {
		vars = append(vars, variant{"plus-absent", func() *types.LightClientAttackEvidence { return c11With(base, plus(pick(absentOnes))) }})
	}
	if len(notInSet) > 0 {
		vars = append(vars, variant{"plus-member-not-in-conflicting-set", func() *types.LightClientAttackEvidence { return c11With(base, plus(pick(notInSet))) }})
	}
	if len(forBlockNotListed) > 0 {
		vars = append(vars, variant{"plus-signer-of-one-block-only", func() *types.LightClientAttackEvidence { return c11With(base, plus(pick(forBlockNotListed))) }})
	}
	vars = append(vars, variant{"plus-outsider", func() *types.LightClientAttackEvidence { return c11With(base, plus(pick(outsiders))) }})
	if len(spec) > 0 {
		vars = append(vars, variant{"minus-one", func() *types.LightClientAttackEvidence {
			i := r.Intn(len(spec))
			return c11With(base, append(append([]*types.Validator(nil), spec[:i]...), spec[i+1:]...))
		}})
		vars = append(vars, variant{"power", func() *types.LightClientAttackEvidence {
			l := append([]*types.Validator(nil), spec...)
			i := r.Intn(len(l))
			x := *l[i]
			if _, w := cvals.GetByAddress(x.Address); w != nil && w.VotingPower != x.VotingPower && r.Bool() {
				x.VotingPower = w.VotingPower // the power the conflicting set claims
			} else {
				x.VotingPower += int64(1 - 2*r.Intn(2))
			}
			l[i] = &x
			return c11With(base, l)
		}})
	} else {
		vars = append(vars, variant{"empty-not-nil", func() *types.LightClientAttackEvidence {
			w := *base
			w.ByzantineValidators = []*types.Validator{}
			return &w
		}})
	}
	if len(spec) > 1 {
		vars = append(vars, variant{"order", func() *types.LightClientAttackEvidence {
			l := append([]*types.Validator(nil), spec...)
			if r.Bool() {
				i := r.Intn(len(l) - 1)
				l[i], l[i+1] = l[i+1], l[i]
			} else {
				for i, j := 0, len(l)-1; i < j; i, j = i+1, j-1 {
					l[i], l[j] = l[j], l[i]
				}
			}
			return c11With(base, l)
		}})
		vars = append(vars, variant{"one-twice", func() *types.LightClientAttackEvidence {
			l := append([]*types.Validator(nil), spec...)
			i := r.Intn(len(l))
			l = append(l[:i+1], l[i:]...)
			return c11With(base, l)
		}})
	}
	vars = append(vars, variant{"total-power", func() *types.LightClientAttackEvidence {
		w := c11With(base, spec)
		if t := cvals.TotalVotingPower(); t != w.TotalVotingPower && r.Bool() {
			w.TotalVotingPower = t // the total of the conflicting set
		} else {
			w.TotalVotingPower += int64(1 - 2*r.Intn(2))
		}
		return w
	}})
	if common > 1 && fam.shape != "lunatic" && fam.shape != "forward-lunatic" {
		// evidence formed for a lower common height, with the list specified for THAT height
		vars = append(vars, variant{"common-height-lowered", func() *types.LightClientAttackEvidence {
			w := *base
			w.CommonHeight = common - 1
			w.Timestamp = c.times[common-1]
			w.TotalVotingPower = c.vals[common-1].TotalVotingPower()
			_, sp, _ := c.specByz(&w)
			return c11With(&w, sp)
		}})
	}
	// every family offers what the implementation's own function computes (a duplicate of the
	// specified evidence when the implementation is right)
	if haveRef {
		if th, ref, refCommit := c.reference(base); ref != nil {
			_ = th
			impl := c11GuardList(func() []*types.Validator {
				return base.GetByzantineValidators(cv, &types.SignedHeader{Header: ref, Commit: refCommit})
			})
			ok := true
			for _, v := range impl {
				ok = ok && v != nil
			}
			if ok {
				add(c11With(base, impl), "implementation-list")
			}
		}
	}
	perm := r.Perm(len(vars))
	nvar := 3 + r.Intn(3)
	for _, i := range perm {
		if nvar == 0 {
			break
		}
		nvar--
		add(vars[i].mk(), vars[i].kind)
	}
	return fam
}

// last slot that is not for the block, belongs to a member of the common set, and lies behind the
// prefix of genuine for-block slots that already carries > 2/3 of the conflicting set (and > 1/3
// of the common set): VerifyCommitLight / VerifyCommitLightTrusting return before reading it
func c11ForgeableSlot(cvals *types.ValidatorSet, fl []types.BlockIDFlag, cv *types.ValidatorSet, trusting bool) int {
	var own, tp int64
	reached := -1
	for i, v := range cvals.Validators {
		if fl[i] != types.BlockIDFlagCommit {
			continue
		}
		own += v.VotingPower
		if _, w := cv.GetByAddress(v.Address); w != nil {
			tp += w.VotingPower
		}
		if own > cvals.TotalVotingPower()*2/3 && (!trusting || tp > cv.TotalVotingPower()/3) {
			reached = i
			break
		}
	}
	if reached < 0 {
		return -1
	}
	for i := cvals.Size() - 1; i > reached; i-- {
		if _, w := cv.GetByAddress(cvals.Validators[i].Address); w != nil && fl[i] != types.BlockIDFlagCommit {
			return i
		}
	}
	return -1
}

func c11GuardList(f func() []*types.Validator) (l []*types.Validator) {
	defer func() {
		if recover() != nil {
			l = nil
		}
	}()
	return f()
}

func TestVerifC11Lca(t *testing.T) {
	cs := vg.NewCases("C11", "c11_lca", "TM.C11.Exec")
	root := vg.NewRand(vg.Seed() ^ 0x11ca)
	nf := vg.Scale(70, 4000)
	for k := 0; k < nf; k++ {
		for order := 0; order < 2; order++ {
			id := cs.NextID()
			if !cs.Want(id) {
				continue
			}
			r := root.Fork(uint64(k))
			c := c11NewChainCfg(r.Fork(1), 500000+uint64(k), c11Cfg{mixed: true})
			c.r = r.Fork(2)
			fam := c.genLcaFamily(r.Fork(3))
			hr := r.Fork(4)
			common := fam.evs[0].ev.Height()
			// pool state: usually young enough for the evidence, sometimes beyond both age limits
			l0 := common + int64(hr.Intn(int(c.params.MaxAgeNumBlocks)+1))
			if hr.Chance(12) {
				l0 = common + int64(hr.Intn(int(c.n-common)))
			}
			if l0 > c.n-1 {
				l0 = c.n - 1
			}
			kind := fmt.Sprintf("%s-%s", fam.shape, []string{"wrong-first", "specified-first"}[order])
			if !fam.verifiable {
				kind += "-power-short"
			}
			c11RunCase(cs, id, kind, c, l0, fam.evs, func(d *c11Driver, step func(c11Step)) {
				n := len(d.tbl)
				var usable []int
				for i := 1; i < n; i++ {
					if d.tbl[i].ev.ValidateBasic() == nil {
						usable = append(usable, i)
					}
				}
				g := 0
				gOK := d.tbl[0].ev.ValidateBasic() == nil
				// AddEvidence and CheckEvidence (in-block) in either order: each gets to see the
				// evidence first in half of the cases
				both := func(i int) {
					if hr.Bool() {
						step(d.doCheck([]int{i}))
						step(d.doAdd(i))
					} else {
						step(d.doAdd(i))
						step(d.doCheck([]int{i}))
					}
				}
				wrong := func() {
					for _, i := range usable {
						both(i)
					}
				}
				genuine := func() {
					if !gOK {
						return
					}
					both(g)
					step(d.doPending(-1))
				}
				if order == 0 {
					wrong()
					genuine()
				} else {
					genuine()
					wrong()
				}
				// a block carrying it together with duplicate-vote evidence
				dv := d.addTbl(c.genDupGenuine())
				if gOK {
					step(d.doCheck([]int{dv, g}))
				}
				_, pend := d.obs()
				var commitList []int
				for _, p := range pend {
					if p < len(d.tbl) && hr.Chance(70) {
						commitList = append(commitList, p)
					}
				}
				step(d.doUpdate(l0+1, commitList))
				if gOK {
					step(d.doAdd(g))
					step(d.doCheck([]int{g}))
				}
				if len(usable) > 0 {
					i := usable[hr.Intn(len(usable))]
					step(d.doCheck([]int{i}))
					step(d.doAdd(i))
				}
				step(d.doPending(-1))
			})
		}
	}
	sort.Strings(cs.Notes)
	if err := cs.Write(); err != nil {
		t.Fatal(err)
	}
}
