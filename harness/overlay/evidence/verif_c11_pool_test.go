//go:build verif

package evidence

// C11 correspondence harness for the evidence pool — injected with `go test -overlay`.
// A real Pool over a memdb evidence store, a real state store and a real block store holding a
// generated chain (validator churn, genuine commits) is driven through generated histories of
// AddEvidence / CheckEvidence / Update / ReportConflictingVotes / restart (NewPool over the same
// databases) / PendingEvidence(maxBytes) with genuine duplicate-vote and light-client-attack
// evidence and single-field perturbations of it.  After every operation the pending key space,
// Size() and the gossip list are read.

import (
	"bytes"
	"encoding/binary"
	"fmt"
	"sort"
	"strings"
	"testing"
	"time"

	dbm "github.com/tendermint/tm-db"

	"github.com/tendermint/tendermint/crypto/ed25519"
	vg "github.com/tendermint/tendermint/internal/verifgen"
	"github.com/tendermint/tendermint/light"
	tmproto "github.com/tendermint/tendermint/proto/tendermint/types"
	tmversion "github.com/tendermint/tendermint/proto/tendermint/version"
	sm "github.com/tendermint/tendermint/state"
	"github.com/tendermint/tendermint/store"
	"github.com/tendermint/tendermint/types"
	"github.com/tendermint/tendermint/version"
)

const c11ChainID = "c11-chain"

var c11Base = time.Date(2021, 3, 1, 12, 0, 0, 0, time.UTC)

func c11n6(b []byte) uint64 {
	var x [8]byte
	copy(x[2:], b)
	if len(b) < 6 {
		var y [6]byte
		copy(y[:], b)
		copy(x[2:], y[:])
	}
	return binary.BigEndian.Uint64(x[:])
}

type c11Chain struct {
	r        *vg.Rand
	n        int64
	pvs      []types.MockPV
	pvByAddr map[string]types.MockPV
	vals     map[int64]*types.ValidatorSet
	times    map[int64]time.Time
	headers  map[int64]*types.Header
	blockIDs map[int64]types.BlockID
	commits  map[int64]*types.Commit
	rounds   map[int64]int32
	states   map[int64]sm.State
	bs       *store.BlockStore
	ss       sm.Store
	params   tmproto.EvidenceParams
	prefix   map[uint64]string // 48-bit prefix -> full bytes (collision check)
	bad      string
	outside  []types.MockPV // keys that are never validators of the chain
}

// c11Cfg: shape of a generated chain.  The zero value is the chain of the pool histories (7 keys,
// 3..4 validators, commits with at most one absent signature); mixed chains (light client attack
// families, verif_c11_lca_test.go) have more validators and commits mixing signatures for the
// block, precommits for nil and absent slots (always more than 2/3 for the block).
type c11Cfg struct {
	mixed bool
}

func (c *c11Chain) id(b []byte) uint64 {
	p := c11n6(b)
	if old, ok := c.prefix[p]; ok {
		if old != string(b) {
			c.bad = fmt.Sprintf("48-bit prefix collision %x", b)
		}
	} else {
		c.prefix[p] = string(b)
	}
	return p
}

func (c *c11Chain) ns(t time.Time) int64 { return t.Sub(c11Base).Nanoseconds() }

func c11CopyVals(vs []*types.Validator) []*types.Validator {
	out := make([]*types.Validator, len(vs))
	for i, v := range vs {
		out[i] = types.NewValidator(v.PubKey, v.VotingPower)
	}
	return out
}

func (c *c11Chain) signVote(pv types.MockPV, v *types.Vote, chainID string) {
	vpb := v.ToProto()
	if err := pv.SignVote(chainID, vpb); err != nil {
		panic(err)
	}
	v.Signature = vpb.Signature
}

func (c *c11Chain) mkCommit(h int64, round int32, bid types.BlockID, vs *types.ValidatorSet,
	absent func(i int) bool, ts time.Time) *types.Commit {
	return c.mkCommitFlags(h, round, bid, vs, func(i int) types.BlockIDFlag {
		if absent != nil && absent(i) {
			return types.BlockIDFlagAbsent
		}
		return types.BlockIDFlagCommit
	}, ts)
}

// a commit of the validator set vs: slot i is a genuine signature for bid, a genuine precommit
// for nil, or absent, as flagOf says
func (c *c11Chain) mkCommitFlags(h int64, round int32, bid types.BlockID, vs *types.ValidatorSet,
	flagOf func(i int) types.BlockIDFlag, ts time.Time) *types.Commit {
	sigs := make([]types.CommitSig, vs.Size())
	for i, v := range vs.Validators {
		fl := flagOf(i)
		if fl == types.BlockIDFlagAbsent {
			sigs[i] = types.NewCommitSigAbsent()
			continue
		}
		pv := c.pvByAddr[string(v.Address)]
		vbid := bid
		if fl == types.BlockIDFlagNil {
			vbid = types.BlockID{}
		}
		vote := &types.Vote{Type: tmproto.PrecommitType, Height: h, Round: round, BlockID: vbid,
			Timestamp: ts, ValidatorAddress: v.Address, ValidatorIndex: int32(i)}
		c.signVote(pv, vote, c11ChainID)
		sigs[i] = vote.CommitSig()
	}
	return types.NewCommit(h, round, bid, sigs)
}

// flags for a commit of vs: random mix, repaired until more than 2/3 of the power is for the block
func c11MixedFlags(r *vg.Rand, vs *types.ValidatorSet) []types.BlockIDFlag {
	fl := make([]types.BlockIDFlag, vs.Size())
	for i := range fl {
		switch x := r.Intn(100); {
		case x < 60:
			fl[i] = types.BlockIDFlagCommit
		case x < 82:
			fl[i] = types.BlockIDFlagNil
		default:
			fl[i] = types.BlockIDFlagAbsent
		}
	}
	for {
		var pw int64
		for i, v := range vs.Validators {
			if fl[i] == types.BlockIDFlagCommit {
				pw += v.VotingPower
			}
		}
		if pw > vs.TotalVotingPower()*2/3 {
			return fl
		}
		var cand []int
		for i := range fl {
			if fl[i] != types.BlockIDFlagCommit {
				cand = append(cand, i)
			}
		}
		fl[cand[r.Intn(len(cand))]] = types.BlockIDFlagCommit
	}
}

func c11NewChain(r *vg.Rand, tag uint64) *c11Chain { return c11NewChainCfg(r, tag, c11Cfg{}) }

func c11NewChainCfg(r *vg.Rand, tag uint64, cfg c11Cfg) *c11Chain {
	npv, nvMin, nvSpan, pool := 7, 3, 2, 5
	if cfg.mixed {
		npv, nvMin, nvSpan, pool = 10, 4, 3, 8
	}
	c := &c11Chain{r: r, pvByAddr: map[string]types.MockPV{}, vals: map[int64]*types.ValidatorSet{},
		times: map[int64]time.Time{}, headers: map[int64]*types.Header{}, blockIDs: map[int64]types.BlockID{},
		commits: map[int64]*types.Commit{}, rounds: map[int64]int32{}, states: map[int64]sm.State{},
		prefix: map[uint64]string{}}
	c.n = int64(9 + r.Intn(5))
	for i := 0; i < npv; i++ {
		pv := types.NewMockPVWithParams(ed25519.GenPrivKeyFromSecret([]byte(fmt.Sprintf("c11-%d-%d", tag, i))), false, false)
		c.pvs = append(c.pvs, pv)
		c.pvByAddr[string(pv.PrivKey.PubKey().Address())] = pv
	}
	c.outside = c.pvs[pool:]
	// validator sets with churn for heights 1..n+2
	nv := nvMin + r.Intn(nvSpan)
	cur := []*types.Validator{}
	for i := 0; i < nv; i++ {
		cur = append(cur, types.NewValidator(c.pvs[i].PrivKey.PubKey(), int64(5+r.Intn(10))))
	}
	c.vals[1] = types.NewValidatorSet(c11CopyVals(cur))
	c.vals[2] = types.NewValidatorSet(c11CopyVals(cur))
	changed := map[int64]int64{1: 1, 2: 1}
	for h := int64(3); h <= c.n+2; h++ {
		changed[h] = changed[h-1]
		if r.Chance(35) {
			changed[h] = h
			switch k := r.Intn(3); {
			case k == 0 || (k == 1 && len(cur) <= 2):
				cur[r.Intn(len(cur))].VotingPower += int64(1 + r.Intn(4))
			case k == 1:
				i := r.Intn(len(cur))
				cur = append(cur[:i:i], cur[i+1:]...)
			default:
				var free []types.MockPV
				for _, pv := range c.pvs[:pool] {
					in := false
					for _, v := range cur {
						if bytes.Equal(v.Address, pv.PrivKey.PubKey().Address()) {
							in = true
						}
					}
					if !in {
						free = append(free, pv)
					}
				}
				if len(free) > 0 {
					cur = append(cur, types.NewValidator(free[r.Intn(len(free))].PrivKey.PubKey(), int64(3+r.Intn(8))))
				} else {
					cur[0].VotingPower++
				}
			}
		}
		c.vals[h] = types.NewValidatorSet(c11CopyVals(cur))
	}
	// times
	t := c11Base
	c.times[0] = t
	for h := int64(1); h <= c.n; h++ {
		t = t.Add(time.Duration(1+r.Intn(5)) * 500 * time.Millisecond)
		c.times[h] = t
	}
	c.params = tmproto.EvidenceParams{
		MaxAgeNumBlocks: int64(1 + r.Intn(3)),
		MaxAgeDuration:  time.Duration(2+r.Intn(8)) * 500 * time.Millisecond,
		// the pool itself never reads MaxBytes (it bounds a block's evidence, checked in
		// state.validateBlock); small values make sure nothing in the pool depends on it
		MaxBytes: []int64{1048576, 1048576, 1, 200, 400, 700, 1000, 2000}[r.Intn(8)],
	}
	cp := *types.DefaultConsensusParams()
	cp.Evidence = c.params
	// block store
	c.bs = store.NewBlockStore(dbm.NewMemDB())
	lastCommit := types.NewCommit(0, 0, types.BlockID{}, nil)
	lastID := types.BlockID{}
	for h := int64(1); h <= c.n; h++ {
		block := types.MakeBlock(h, []types.Tx{}, lastCommit, nil)
		block.Header.Populate(tmversion.Consensus{Block: version.BlockProtocol, App: 1}, c11ChainID,
			c.times[h], lastID, c.vals[h].Hash(), c.vals[h+1].Hash(), types.HashConsensusParams(cp),
			r.Bytes(32), r.Bytes(32), c.vals[h].Validators[0].Address)
		ps := block.MakePartSet(types.BlockPartSizeBytes)
		bid := types.BlockID{Hash: block.Hash(), PartSetHeader: ps.Header()}
		hdr := block.Header
		c.headers[h] = &hdr
		c.blockIDs[h] = bid
		c.rounds[h] = int32(r.Intn(2))
		var commit *types.Commit
		if cfg.mixed {
			fl := c11MixedFlags(r, c.vals[h])
			commit = c.mkCommitFlags(h, c.rounds[h], bid, c.vals[h], func(i int) types.BlockIDFlag { return fl[i] }, c.times[h])
		} else {
			ab := r.Intn(c.vals[h].Size() + 2) // one absent signature in most commits
			commit = c.mkCommit(h, c.rounds[h], bid, c.vals[h], func(i int) bool { return i == ab }, c.times[h])
		}
		c.commits[h] = commit
		c.bs.SaveBlock(block, ps, commit)
		lastCommit, lastID = commit, bid
	}
	// state store
	c.ss = sm.NewStore(dbm.NewMemDB(), sm.StoreOptions{DiscardABCIResponses: true})
	for l := int64(0); l <= c.n; l++ {
		st := sm.State{
			ChainID: c11ChainID, InitialHeight: 1,
			LastBlockHeight: l, LastBlockID: c.blockIDs[l], LastBlockTime: c.times[l],
			Validators: c.vals[l+1], NextValidators: c.vals[l+2], LastValidators: c.vals[l],
			LastHeightValidatorsChanged: changed[l+2],
			ConsensusParams:             cp, LastHeightConsensusParamsChanged: 1,
		}
		if l == 0 {
			st.LastValidators = types.NewValidatorSet(nil)
		}
		c.states[l] = st
		if err := c.ss.Save(st); err != nil {
			panic(err)
		}
	}
	return c
}

// ---------------------------------------------------------------- Coq printers

func (c *c11Chain) valsTerm(vs []*types.Validator) string {
	xs := make([]string, len(vs))
	for i, v := range vs {
		xs[i] = vg.Tup(vg.N(c.id(v.Address)), vg.Z(v.VotingPower))
	}
	return vg.L(xs)
}

func (c *c11Chain) bidN(b types.BlockID) uint64 {
	if b.IsZero() {
		return 0
	}
	return c.id([]byte(b.Key())[:32])
}

func (c *c11Chain) voteTerm(v *types.Vote) string {
	return vg.Tup(vg.Z(int64(v.Type)), vg.Z(v.Height), vg.Z(int64(v.Round)), vg.N(c.bidN(v.BlockID)),
		vg.N(c.id(v.ValidatorAddress)), vg.B(v.ValidateBasic() == nil))
}

func (c *c11Chain) five(h *types.Header) string {
	return vg.L([]string{vg.N(c.id(h.ValidatorsHash)), vg.N(c.id(h.NextValidatorsHash)),
		vg.N(c.id(h.ConsensusHash)), vg.N(c.id(h.AppHash)), vg.N(c.id(h.LastResultsHash))})
}

func (c *c11Chain) chainTerm() string {
	var xs []string
	for h := int64(1); h <= c.n; h++ {
		meta := c.bs.LoadBlockMeta(h)
		commit := c.bs.LoadBlockCommit(h)
		vs, err := c.ss.LoadValidators(h)
		if meta == nil || err != nil {
			panic("c11: chain store incomplete")
		}
		round := int64(0)
		var ab []string
		if commit != nil {
			round = int64(commit.Round)
			for _, s := range commit.Signatures {
				ab = append(ab, vg.Z(int64(s.BlockIDFlag)))
			}
		}
		xs = append(xs, vg.Tup(vg.Z(h), vg.Z(c.ns(meta.Header.Time)), vg.N(c.id(meta.Header.Hash())),
			c.five(&meta.Header), vg.B(commit != nil), vg.Z(round), vg.L(ab), c.valsTerm(vs.Validators)))
	}
	return vg.L(xs)
}

func (c *c11Chain) stTerm(st sm.State) string {
	var lv []*types.Validator
	if st.LastValidators != nil {
		lv = st.LastValidators.Validators
	}
	return vg.Tup(vg.Z(st.LastBlockHeight), vg.Z(c.ns(st.LastBlockTime)),
		vg.Z(st.ConsensusParams.Evidence.MaxAgeNumBlocks),
		vg.Z(st.ConsensusParams.Evidence.MaxAgeDuration.Nanoseconds()), c.valsTerm(lv))
}

func c11WireSize(ev types.Evidence) int64 {
	pb, err := types.EvidenceToProto(ev)
	if err != nil {
		panic(err)
	}
	l := tmproto.EvidenceList{Evidence: []tmproto.Evidence{*pb}}
	return int64(l.Size())
}

func (c *c11Chain) sigOK(h int64, addr []byte, v *types.Vote) bool {
	vs := c.vals[h]
	if vs == nil || h > c.n {
		return false
	}
	_, val := vs.GetByAddress(addr)
	if val == nil {
		return false
	}
	return val.PubKey.VerifySignature(types.VoteSignBytes(c11ChainID, v.ToProto()), v.Signature)
}

func (c *c11Chain) evTerm(ev types.Evidence) string {
	switch e := ev.(type) {
	case *types.DuplicateVoteEvidence:
		return vg.App("TDup", vg.N(c.id(e.Hash())), vg.Z(c11WireSize(e)), c.voteTerm(e.VoteA), c.voteTerm(e.VoteB),
			vg.Z(e.TotalVotingPower), vg.Z(e.ValidatorPower), vg.Z(c.ns(e.Timestamp)),
			vg.B(c.sigOK(e.VoteA.Height, e.VoteA.ValidatorAddress, e.VoteA)),
			vg.B(c.sigOK(e.VoteA.Height, e.VoteA.ValidatorAddress, e.VoteB)))
	case *types.LightClientAttackEvidence:
		cb := e.ConflictingBlock
		var sigs []string
		for i, s := range cb.Commit.Signatures {
			sigs = append(sigs, vg.Tup(vg.Z(int64(s.BlockIDFlag)), vg.N(c.id(s.ValidatorAddress)), vg.B(c11SlotGenuine(cb, i))))
		}
		byz := "None"
		if e.ByzantineValidators != nil {
			byz = "(Some " + c.valsTerm(e.ByzantineValidators) + ")"
		}
		trusting, lightOK := false, false
		if cv := c.vals[e.CommonHeight]; cv != nil && e.CommonHeight <= c.n {
			trusting = cv.VerifyCommitLightTrusting(c11ChainID, cb.Commit, light.DefaultTrustLevel) == nil
		}
		lightOK = cb.ValidatorSet.VerifyCommitLight(c11ChainID, cb.Commit.BlockID, cb.Height, cb.Commit) == nil
		var ab []string
		for _, a := range e.ABCI() {
			ab = append(ab, vg.Tup(vg.Z(int64(a.Type)), vg.N(c.id(a.Validator.Address)), vg.Z(a.Validator.Power),
				vg.Z(a.Height), vg.Z(c.ns(a.Time)), vg.Z(a.TotalVotingPower)))
		}
		return vg.App("TLca", vg.N(c.id(e.Hash())), vg.Z(c11WireSize(e)), vg.Z(e.CommonHeight), vg.Z(cb.Height),
			vg.Z(c.ns(cb.Time)), vg.N(c.id(cb.Hash())), c.five(cb.Header), vg.Z(int64(cb.Commit.Round)),
			vg.L(sigs), c.valsTerm(cb.ValidatorSet.Validators), byz, vg.Z(e.TotalVotingPower),
			vg.Z(c.ns(e.Timestamp)), vg.B(trusting), vg.B(lightOK), vg.B(cb.ValidateBasic(c11ChainID) == nil),
			vg.L(ab), vg.B(c.listsSpecified(e)))
	}
	panic("c11: unknown evidence type")
}

// ---------------------------------------------------------------- the specification, in Go
//
// Who is byzantine in a light client attack - written from
// spec/light-client/attacks/isolate-attackers_002_reviewed.md [LCAI-FUNC-MAIN.1], NOT by calling
// LightClientAttackEvidence.GetByzantineValidators (the Coq side checks this transcription against
// coq/C11/Spec.v on every evidence: observable 32).

// slot i of the conflicting commit carries the address of validator i of the conflicting set
// and a signature that verifies under its key
func c11SlotGenuine(cb *types.LightBlock, i int) bool {
	s := cb.Commit.Signatures[i]
	if s.Absent() || cb.ValidatorSet == nil || i >= cb.ValidatorSet.Size() {
		return false
	}
	v := cb.ValidatorSet.Validators[i]
	if !bytes.Equal(v.Address, s.ValidatorAddress) {
		return false
	}
	return v.PubKey.VerifySignature(cb.Commit.VoteSignBytes(c11ChainID, int32(i)), s.Signature)
}

// the block of ours the conflicting block is compared with (height, header, commit)
func (c *c11Chain) reference(e *types.LightClientAttackEvidence) (int64, *types.Header, *types.Commit) {
	k := e.ConflictingBlock.Height
	if k >= 1 && k <= c.n {
		if cm := c.bs.LoadBlockCommit(k); cm != nil {
			return k, c.headers[k], cm
		}
	}
	if k == e.CommonHeight {
		return 0, nil, nil
	}
	top := c.bs.Height()
	cm := c.bs.LoadBlockCommit(top)
	if cm == nil || c.headers[top] == nil || e.ConflictingBlock.Time.After(c.headers[top].Time) {
		return 0, nil, nil
	}
	return top, c.headers[top], cm
}

func c11DerivedDiffer(a, b *types.Header) bool {
	return !bytes.Equal(a.ValidatorsHash, b.ValidatorsHash) || !bytes.Equal(a.NextValidatorsHash, b.NextValidatorsHash) ||
		!bytes.Equal(a.ConsensusHash, b.ConsensusHash) || !bytes.Equal(a.AppHash, b.AppHash) ||
		!bytes.Equal(a.LastResultsHash, b.LastResultsHash)
}

// attack kind and the specified list of byzantine validators (members of the validator set of
// the evidence's height, ordered by power then address); ok=false: no block to compare with
func (c *c11Chain) specByz(e *types.LightClientAttackEvidence) (kind string, out []*types.Validator, ok bool) {
	if e.CommonHeight < 1 || e.CommonHeight > c.n {
		return "", nil, false
	}
	common := c.vals[e.CommonHeight]
	th, ref, refCommit := c.reference(e)
	if ref == nil {
		return "", nil, false
	}
	cb := e.ConflictingBlock
	signedConf := map[string]bool{}
	for i, s := range cb.Commit.Signatures {
		if s.BlockIDFlag == types.BlockIDFlagCommit && c11SlotGenuine(cb, i) {
			signedConf[string(s.ValidatorAddress)] = true
		}
	}
	switch {
	case c11DerivedDiffer(ref, cb.Header):
		kind = "lunatic"
		for _, v := range common.Validators {
			if signedConf[string(v.Address)] {
				out = append(out, v)
			}
		}
	case refCommit.Round == cb.Commit.Round:
		kind = "equivocation"
		signedRef := map[string]bool{}
		for i, v := range c.vals[th].Validators {
			if i < len(refCommit.Signatures) && refCommit.Signatures[i].BlockIDFlag == types.BlockIDFlagCommit {
				signedRef[string(v.Address)] = true
			}
		}
		for _, v := range common.Validators {
			if signedConf[string(v.Address)] && signedRef[string(v.Address)] {
				out = append(out, v)
			}
		}
	default:
		kind = "amnesia"
	}
	sort.Slice(out, func(i, j int) bool {
		if out[i].VotingPower != out[j].VotingPower {
			return out[i].VotingPower > out[j].VotingPower
		}
		return bytes.Compare(out[i].Address, out[j].Address) < 0
	})
	return kind, out, true
}

// human-readable content of a light client attack evidence for the replay description:
// validators are written <first two address bytes>/<power>
func (c *c11Chain) describeLca(ev types.Evidence) string {
	e, ok := ev.(*types.LightClientAttackEvidence)
	if !ok {
		return ""
	}
	short := func(a []byte) string {
		if len(a) < 2 {
			return "-"
		}
		return fmt.Sprintf("%X", a[:2])
	}
	vl := func(vs []*types.Validator) string {
		var xs []string
		for _, v := range vs {
			if v == nil {
				xs = append(xs, "nil")
				continue
			}
			xs = append(xs, fmt.Sprintf("%s/%d", short(v.Address), v.VotingPower))
		}
		return "[" + strings.Join(xs, " ") + "]"
	}
	cb := e.ConflictingBlock
	var slots []string
	for i, s := range cb.Commit.Signatures {
		f := map[types.BlockIDFlag]string{types.BlockIDFlagAbsent: "absent", types.BlockIDFlagCommit: "for-block", types.BlockIDFlagNil: "nil"}[s.BlockIDFlag]
		if !s.Absent() && !c11SlotGenuine(cb, i) {
			f += "(forged)"
		}
		slots = append(slots, short(s.ValidatorAddress)+":"+f)
	}
	var cvs []*types.Validator
	if e.CommonHeight >= 1 && e.CommonHeight <= c.n {
		cvs = c.vals[e.CommonHeight].Validators
	}
	ref := "none"
	if th, _, cm := c.reference(e); cm != nil {
		var fs []string
		for _, s := range cm.Signatures {
			fs = append(fs, map[types.BlockIDFlag]string{types.BlockIDFlagAbsent: "absent", types.BlockIDFlagCommit: "for-block", types.BlockIDFlagNil: "nil"}[s.BlockIDFlag])
		}
		ref = fmt.Sprintf("height %d round %d %v", th, cm.Round, fs)
	}
	kind, sp, _ := c.specByz(e)
	nilness := ""
	if e.ByzantineValidators != nil && len(e.ByzantineValidators) == 0 {
		nilness = "(non-nil)"
	}
	return fmt.Sprintf("; conflicting block height %d round %d, validators %s, commit slots %v; validators of height %d %s; our commit: %s; %s; ByzantineValidators %s%s, TotalVotingPower %d; specified %s",
		cb.Height, cb.Commit.Round, vl(cb.ValidatorSet.Validators), slots, e.CommonHeight, vl(cvs), ref, kind,
		vl(e.ByzantineValidators), nilness, e.TotalVotingPower, vl(sp))
}

// the evidence lists exactly the specified validators and the total power of its height's set
func (c *c11Chain) listsSpecified(e *types.LightClientAttackEvidence) bool {
	_, sp, ok := c.specByz(e)
	if !ok || len(sp) != len(e.ByzantineValidators) || e.TotalVotingPower != c.vals[e.CommonHeight].TotalVotingPower() {
		return false
	}
	for i, v := range sp {
		w := e.ByzantineValidators[i]
		if w == nil || !bytes.Equal(v.Address, w.Address) || v.VotingPower != w.VotingPower {
			return false
		}
	}
	return true
}

// ---------------------------------------------------------------- evidence generation

type c11Ev struct {
	ev   types.Evidence
	kind string
}

func (c *c11Chain) randBlockID() types.BlockID {
	return types.BlockID{Hash: c.r.Bytes(32), PartSetHeader: types.PartSetHeader{Total: 1, Hash: c.r.Bytes(32)}}
}

func (c *c11Chain) mkVote(pv types.MockPV, idx int32, h int64, round int32, typ tmproto.SignedMsgType,
	bid types.BlockID, ts time.Time) *types.Vote {
	v := &types.Vote{Type: typ, Height: h, Round: round, BlockID: bid, Timestamp: ts,
		ValidatorAddress: pv.PrivKey.PubKey().Address(), ValidatorIndex: idx}
	c.signVote(pv, v, c11ChainID)
	return v
}

// genuine conflicting votes of a validator of height h
func (c *c11Chain) conflictingVotes(h int64) (*types.Vote, *types.Vote, types.MockPV) {
	vs := c.vals[h]
	i := c.r.Intn(vs.Size())
	pv := c.pvByAddr[string(vs.Validators[i].Address)]
	round := int32(c.r.Intn(2))
	typ := tmproto.PrevoteType
	if c.r.Bool() {
		typ = tmproto.PrecommitType
	}
	b1, b2 := c.randBlockID(), c.randBlockID()
	if c.r.Chance(15) {
		b1 = types.BlockID{} // a vote for nil and a vote for a block
	}
	ts := c.times[h]
	return c.mkVote(pv, int32(i), h, round, typ, b1, ts), c.mkVote(pv, int32(i), h, round, typ, b2, ts), pv
}

func c11CopyVote(v *types.Vote) *types.Vote {
	w := *v
	w.Signature = append([]byte{}, v.Signature...)
	return &w
}

func (c *c11Chain) genDupGenuine() c11Ev {
	h := int64(1 + c.r.Intn(int(c.n)))
	v1, v2, _ := c.conflictingVotes(h)
	return c11Ev{types.NewDuplicateVoteEvidence(v1, v2, c.times[h], c.vals[h]), "dup-genuine"}
}

// one duplicate-vote evidence, genuine or with one perturbed field
func (c *c11Chain) genDup(hmax int64) c11Ev {
	r := c.r
	h := int64(1 + r.Intn(int(hmax)))
	v1, v2, pv := c.conflictingVotes(h)
	ev := types.NewDuplicateVoteEvidence(v1, v2, c.times[h], c.vals[h])
	kind := "dup-genuine"
	if r.Chance(45) {
		a, b := c11CopyVote(ev.VoteA), c11CopyVote(ev.VoteB)
		ev = &types.DuplicateVoteEvidence{VoteA: a, VoteB: b, TotalVotingPower: ev.TotalVotingPower,
			ValidatorPower: ev.ValidatorPower, Timestamp: ev.Timestamp}
		switch m := r.Intn(15); m {
		case 0:
			ev.Timestamp = ev.Timestamp.Add(time.Nanosecond)
			kind = "dup-time+1ns"
		case 1:
			ev.Timestamp = c.times[h-1]
			kind = "dup-time-of-previous-block"
		case 2:
			ev.TotalVotingPower += int64(1 - 2*r.Intn(2))
			kind = "dup-total-power"
		case 3:
			ev.ValidatorPower += int64(1 - 2*r.Intn(2))
			kind = "dup-validator-power"
		case 4:
			b.Round++
			c.signVote(pv, b, c11ChainID)
			kind = "dup-round-differs"
		case 5:
			if b.Type == tmproto.PrevoteType {
				b.Type = tmproto.PrecommitType
			} else {
				b.Type = tmproto.PrevoteType
			}
			c.signVote(pv, b, c11ChainID)
			kind = "dup-type-differs"
		case 6:
			b.Height++
			c.signVote(pv, b, c11ChainID)
			kind = "dup-height-differs"
		case 7:
			// vote B by another validator of that height
			vs := c.vals[h]
			j := (int(a.ValidatorIndex) + 1) % vs.Size()
			opv := c.pvByAddr[string(vs.Validators[j].Address)]
			b.ValidatorAddress, b.ValidatorIndex = vs.Validators[j].Address, int32(j)
			c.signVote(opv, b, c11ChainID)
			kind = "dup-address-differs"
		case 8:
			b.BlockID = a.BlockID
			c.signVote(pv, b, c11ChainID)
			kind = "dup-same-block"
		case 9:
			a.Signature[3] ^= 0x40
			kind = "dup-bad-sig-a"
		case 10:
			b.Signature[7] ^= 0x01
			kind = "dup-bad-sig-b"
		case 11:
			// signer is not a validator at that height
			opv := c.pvs[5+r.Intn(2)]
			for _, v := range []*types.Vote{a, b} {
				v.ValidatorAddress = opv.PrivKey.PubKey().Address()
				c.signVote(opv, v, c11ChainID)
			}
			kind = "dup-not-a-validator"
		case 12:
			ev.VoteA, ev.VoteB = b, a
			kind = "dup-votes-swapped"
		case 13:
			c.signVote(pv, b, "other-chain")
			kind = "dup-sig-for-other-chain"
		case 14:
			// height without a block
			hh := c.n + 1 + int64(r.Intn(2))
			if r.Chance(30) {
				hh = 0
			}
			for _, v := range []*types.Vote{a, b} {
				v.Height = hh
				c.signVote(pv, v, c11ChainID)
			}
			kind = "dup-height-without-block"
		}
	}
	return c11Ev{ev, kind}
}

func c11CopyHeader(h *types.Header) *types.Header { x := *h; return &x }

// light client attack evidence: lunatic / equivocation / amnesia, genuine or perturbed
func (c *c11Chain) genLca() []c11Ev {
	r := c.r
	var out []c11Ev
	attack := r.Intn(3)
	var common, k int64
	if attack == 0 { // lunatic
		common = int64(1 + r.Intn(int(c.n-2)))
		k = common + 1 + int64(r.Intn(int(c.n-common-1)))
		if r.Chance(20) {
			k = c.n + 1 + int64(r.Intn(2)) // forward lunatic: beyond our chain
		}
	} else {
		common = int64(1 + r.Intn(int(c.n-1)))
		k = common
	}
	var hdr *types.Header
	var cvals *types.ValidatorSet
	var absent func(i int) bool
	round := int32(0)
	cv := c.vals[common]
	kindBase := ""
	switch attack {
	case 0:
		kindBase = "lca-lunatic"
		if k > c.n {
			kindBase = "lca-forward-lunatic"
			hdr = c11CopyHeader(c.headers[c.n])
			hdr.Height = k
			hdr.Time = c.times[c.n].Add(-time.Duration(r.Intn(3)) * time.Second) // not after our latest block
			if r.Chance(25) {
				hdr.Time = c.times[c.n].Add(time.Second)
				kindBase = "lca-forward-lunatic-time-after"
			}
		} else {
			hdr = c11CopyHeader(c.headers[k])
			hdr.Time = c.times[k].Add(time.Duration(r.Intn(3)) * time.Second)
		}
		hdr.AppHash = r.Bytes(32)
		// conflicting set: some validators of the common set plus a phantom
		nb := 1 + r.Intn(cv.Size())
		var vs []*types.Validator
		for _, v := range cv.Validators[:nb] {
			// the conflicting set may claim other powers (its order then differs from the
			// power order of the common set)
			pw := v.VotingPower
			if r.Bool() {
				pw = int64(1 + r.Intn(20))
			}
			vs = append(vs, types.NewValidator(v.PubKey, pw))
		}
		if r.Bool() {
			vs = append(vs, types.NewValidator(c.pvs[5].PrivKey.PubKey(), int64(1+r.Intn(20))))
		}
		cvals = types.NewValidatorSet(vs)
		hdr.ValidatorsHash = cvals.Hash()
		round = int32(r.Intn(2))
	case 1, 2:
		kindBase = "lca-equivocation"
		hdr = c11CopyHeader(c.headers[k])
		hdr.DataHash = r.Bytes(32)
		cvals = c.vals[k].Copy()
		ab := r.Intn(cvals.Size() + 1)
		absent = func(i int) bool { return i == ab }
		round = c.rounds[k]
		if attack == 2 {
			kindBase = "lca-amnesia"
			round = c.rounds[k] + 1
		}
	}
	bid := types.BlockID{Hash: hdr.Hash(), PartSetHeader: types.PartSetHeader{Total: 1, Hash: r.Bytes(32)}}
	commit := c.mkCommit(k, round, bid, cvals, absent, c.times[common])
	ev := &types.LightClientAttackEvidence{
		ConflictingBlock: &types.LightBlock{SignedHeader: &types.SignedHeader{Header: hdr, Commit: commit}, ValidatorSet: cvals},
		CommonHeight:     common, TotalVotingPower: cv.TotalVotingPower(), Timestamp: c.times[common],
	}
	// trusted header as the pool will pick it
	th := k
	if k > c.n {
		th = c.n
	}
	if tc := c.bs.LoadBlockCommit(th); tc != nil {
		ev.ByzantineValidators = ev.GetByzantineValidators(cv, &types.SignedHeader{Header: c.headers[th], Commit: tc})
	}
	out = append(out, c11Ev{ev, kindBase})
	// variants (same conflicting block => same hash, unless the common height changes)
	nvar := 1 + r.Intn(2)
	for i := 0; i < nvar; i++ {
		w := *ev
		w.ByzantineValidators = append([]*types.Validator(nil), ev.ByzantineValidators...)
		kind := ""
		switch m := r.Intn(8); m {
		case 0:
			w.Timestamp = w.Timestamp.Add(time.Second)
			kind = "-time"
		case 1:
			w.TotalVotingPower++
			kind = "-total-power"
		case 2:
			if len(w.ByzantineValidators) > 0 {
				w.ByzantineValidators = w.ByzantineValidators[1:]
				if len(w.ByzantineValidators) == 0 {
					w.ByzantineValidators = nil
				}
			} else {
				w.ByzantineValidators = []*types.Validator{cv.Validators[0]}
			}
			kind = "-byz-dropped-or-added"
		case 3:
			if len(w.ByzantineValidators) > 1 {
				w.ByzantineValidators[0], w.ByzantineValidators[1] = w.ByzantineValidators[1], w.ByzantineValidators[0]
				kind = "-byz-swapped"
			} else if len(w.ByzantineValidators) == 1 {
				x := *w.ByzantineValidators[0]
				x.VotingPower++
				w.ByzantineValidators[0] = &x
				kind = "-byz-power"
			} else {
				w.ByzantineValidators = []*types.Validator{} // non-nil empty, as after a proto round trip
				kind = "-byz-empty-not-nil"
			}
		case 4:
			if w.CommonHeight > 1 {
				w.CommonHeight--
				w.Timestamp = c.times[w.CommonHeight]
				w.TotalVotingPower = c.vals[w.CommonHeight].TotalVotingPower()
				kind = "-common-height-1"
			} else {
				w.Timestamp = w.Timestamp.Add(-time.Nanosecond)
				kind = "-time"
			}
		case 5:
			// the "conflicting" block is our own block
			if k <= c.n && c.bs.LoadBlockCommit(k) != nil {
				w.ConflictingBlock = &types.LightBlock{SignedHeader: &types.SignedHeader{Header: c11CopyHeader(c.headers[k]),
					Commit: c.bs.LoadBlockCommit(k)}, ValidatorSet: c.vals[k].Copy()}
				kind = "-conflicting-is-trusted"
			} else {
				w.TotalVotingPower--
				kind = "-total-power"
			}
		case 6:
			// commit with one signature broken
			cc := *commit
			cc.Signatures = append([]types.CommitSig(nil), commit.Signatures...)
			for j := range cc.Signatures {
				if cc.Signatures[j].ForBlock() {
					s := cc.Signatures[j]
					s.Signature = append([]byte{}, s.Signature...)
					s.Signature[5] ^= 0x10
					cc.Signatures[j] = s
					break
				}
			}
			w.ConflictingBlock = &types.LightBlock{SignedHeader: &types.SignedHeader{Header: hdr, Commit: &cc}, ValidatorSet: cvals}
			kind = "-commit-bad-sig"
		case 7:
			kind = "-same-again"
		}
		out = append(out, c11Ev{&w, kindBase + kind})
	}
	return out
}

// ---------------------------------------------------------------- driver

type c11Driver struct {
	c     *c11Chain
	pool  *Pool
	evdb  dbm.DB
	tbl   []c11Ev
	byKey map[string]int
	cur   int64 // LastBlockHeight of the pool's state
	cs    *vg.Cases
}

func c11KindOf(ev types.Evidence) string {
	if _, ok := ev.(*types.LightClientAttackEvidence); ok {
		return "lca"
	}
	return "dup"
}

func c11Bytes(ev types.Evidence) (b []byte) {
	defer func() {
		if recover() != nil {
			b = nil
		}
	}()
	return ev.Bytes()
}

func (d *c11Driver) addTbl(e c11Ev) int {
	b := string(c11Bytes(e.ev))
	if i, ok := d.byKey[b]; ok {
		return i
	}
	d.tbl = append(d.tbl, e)
	d.byKey[b] = len(d.tbl) - 1
	return len(d.tbl) - 1
}

func (d *c11Driver) idx(ev types.Evidence) int {
	if i, ok := d.byKey[string(c11Bytes(ev))]; ok {
		return i
	}
	return len(d.tbl) + 1000
}

func c11Nats(xs []int) string {
	s := make([]string, len(xs))
	for i, x := range xs {
		s[i] = vg.Nat(x)
	}
	return vg.L(s)
}

func (d *c11Driver) obs() (string, []int) {
	evs, _, err := d.pool.listEvidence(baseKeyPending, -1)
	pend := []int{}
	for _, e := range evs {
		pend = append(pend, d.idx(e))
	}
	if err != nil {
		pend = append(pend, len(d.tbl)+2000)
	}
	cl := []int{}
	for e := d.pool.evidenceList.Front(); e != nil; e = e.Next() {
		cl = append(cl, d.idx(e.Value.(types.Evidence)))
	}
	return vg.App("Obs", c11Nats(pend), vg.Z(int64(d.pool.Size())), c11Nats(cl)), pend
}

func c11Guard(f func() int) (res int) {
	defer func() {
		if recover() != nil {
			res = 3
		}
	}()
	return f()
}

type c11Step struct{ term, descr string }

func (d *c11Driver) doAdd(i int) c11Step {
	before := d.pool.isPending(d.tbl[i].ev)
	committed := d.pool.isCommitted(d.tbl[i].ev)
	defer func() {
		switch after := d.pool.isPending(d.tbl[i].ev); {
		case !before && after:
			d.cs.Count("op:add-admitted-"+c11KindOf(d.tbl[i].ev), 1)
		case before:
			d.cs.Count("op:add-ignored-pending", 1)
		case committed:
			d.cs.Count("op:add-ignored-committed", 1)
		default:
			d.cs.Count("op:add-rejected-"+c11KindOf(d.tbl[i].ev), 1)
		}
	}()
	res := c11Guard(func() int {
		err := d.pool.AddEvidence(d.tbl[i].ev)
		if err == nil {
			return 0
		}
		if _, ok := err.(*types.ErrInvalidEvidence); ok {
			return 1
		}
		return 2
	})
	return c11Step{vg.App("XAdd", vg.Nat(i), vg.Z(int64(res))), fmt.Sprintf("AddEvidence(ev%d)=%d", i, res)}
}

func (d *c11Driver) doCheck(l []int) c11Step {
	var evs types.EvidenceList
	for _, i := range l {
		evs = append(evs, d.tbl[i].ev)
	}
	res := c11Guard(func() int {
		if d.pool.CheckEvidence(evs) == nil {
			return 0
		}
		return 1
	})
	d.cs.Count(fmt.Sprintf("op:check-%d-items=%d", len(l), res), 1)
	return c11Step{vg.App("XCheck", c11Nats(l), vg.Z(int64(res))), fmt.Sprintf("CheckEvidence(%v)=%d", l, res)}
}

func (d *c11Driver) doUpdate(L int64, l []int) c11Step {
	st := d.c.states[L]
	var evs types.EvidenceList
	for _, i := range l {
		evs = append(evs, d.tbl[i].ev)
	}
	res := c11Guard(func() int {
		if L > d.cur {
			if err := d.c.ss.Save(st); err != nil { // as BlockExecutor.ApplyBlock does before Update
				panic(err)
			}
		}
		d.pool.Update(st, evs)
		return 0
	})
	if res == 0 {
		d.cur = L
	}
	d.cs.Count(fmt.Sprintf("op:update=%d", res), 1)
	if len(l) > 0 && res == 0 {
		d.cs.Count("op:update-committing-evidence", 1)
	}
	return c11Step{vg.App("XUpdate", d.c.stTerm(st), c11Nats(l), vg.Z(int64(res))),
		fmt.Sprintf("Update(height %d, committed %v)=%d", L, l, res)}
}

func (d *c11Driver) doReport(h int64) c11Step {
	v1, v2, _ := d.c.conflictingVotes(h)
	if d.c.r.Bool() {
		v1, v2 = v2, v1
	}
	exp := types.NewDuplicateVoteEvidence(v1, v2, d.c.times[h], d.c.vals[h])
	i := d.addTbl(c11Ev{exp, "dup-from-consensus"})
	d.pool.ReportConflictingVotes(v1, v2)
	d.cs.Count("op:report", 1)
	return c11Step{vg.App("XReport", d.c.voteTerm(v1), d.c.voteTerm(v2), vg.Nat(i)),
		fmt.Sprintf("ReportConflictingVotes(height %d) -> expected ev%d", h, i)}
}

// consensus reports the vote pair of an evidence that is already in the table (whatever its
// state: pending, committed, expired, never seen by the pool); i must be a genuine
// duplicate-vote evidence, so that the evidence the pool forms from the votes is the item itself
func (d *c11Driver) doReportOf(i int) c11Step {
	e := d.tbl[i].ev.(*types.DuplicateVoteEvidence)
	v1, v2 := c11CopyVote(e.VoteA), c11CopyVote(e.VoteB)
	if d.c.r.Bool() {
		v1, v2 = v2, v1
	}
	h := v1.Height
	exp := types.NewDuplicateVoteEvidence(v1, v2, d.c.times[h], d.c.vals[h])
	j := d.addTbl(c11Ev{exp, "dup-from-consensus"})
	state := "unknown to the pool"
	switch {
	case d.pool.isPending(e):
		state = "pending"
	case d.pool.isCommitted(e):
		state = "committed"
	}
	d.pool.ReportConflictingVotes(v1, v2)
	d.cs.Count("op:report-existing-"+strings.ReplaceAll(state, " ", "-"), 1)
	return c11Step{vg.App("XReport", d.c.voteTerm(v1), d.c.voteTerm(v2), vg.Nat(j)),
		fmt.Sprintf("ReportConflictingVotes(votes of ev%d, height %d, %s) -> expected ev%d", i, h, state, j)}
}

// table items whose votes consensus may report: genuine conflicting votes of a validator of a
// height of the chain
func (d *c11Driver) reportable() []int {
	var l []int
	for i, e := range d.tbl {
		if e.kind == "dup-genuine" || e.kind == "dup-from-consensus" {
			l = append(l, i)
		}
	}
	return l
}

func (d *c11Driver) doRestart() c11Step {
	p, err := NewPool(d.evdb, d.c.ss, d.c.bs)
	if err != nil {
		panic(err)
	}
	d.pool = p
	d.cs.Count("op:restart", 1)
	return c11Step{"XRestart", "restart (NewPool over the same databases)"}
}

func (d *c11Driver) doPending(maxb int64) c11Step {
	evs, total := d.pool.PendingEvidence(maxb)
	l := []int{}
	for _, e := range evs {
		l = append(l, d.idx(e))
	}
	d.cs.Count("op:pending-evidence", 1)
	return c11Step{vg.App("XPending", vg.Z(maxb), c11Nats(l), vg.Z(total)),
		fmt.Sprintf("PendingEvidence(%d)=%v,%d", maxb, l, total)}
}

func c11NewDriver(c *c11Chain, l0 int64) *c11Driver {
	d := &c11Driver{c: c, evdb: dbm.NewMemDB(), byKey: map[string]int{}, cur: l0}
	if err := c.ss.Save(c.states[l0]); err != nil {
		panic(err)
	}
	p, err := NewPool(d.evdb, c.ss, c.bs)
	if err != nil {
		panic(err)
	}
	d.pool = p
	return d
}

// script: a function issuing operations on the driver; returns the steps
func c11RunCase(cs *vg.Cases, id int, kind string, c *c11Chain, l0 int64, tbl []c11Ev,
	script func(d *c11Driver, step func(c11Step))) {
	d := c11NewDriver(c, l0)
	d.cs = cs
	for _, e := range tbl {
		d.addTbl(e)
	}
	var steps, descr []string
	maxPend := 0
	script(d, func(s c11Step) {
		o, pend := d.obs()
		if len(pend) > maxPend {
			maxPend = len(pend)
		}
		steps = append(steps, vg.Tup(s.term, o))
		descr = append(descr, fmt.Sprintf("%s => pending %v size %d", s.descr, pend, d.pool.Size()))
	})
	var tt, vbs, kinds []string
	for i, e := range d.tbl {
		tt = append(tt, c.evTerm(e.ev))
		vbs = append(vbs, vg.B(e.ev.ValidateBasic() == nil))
		kinds = append(kinds, fmt.Sprintf("ev%d=%s(h%d%s)", i, e.kind, e.ev.Height(), c.describeLca(e.ev)))
		cs.Count("evidence:"+e.kind, 1)
	}
	if c.bad != "" {
		panic("c11: " + c.bad)
	}
	var tms []string
	for h := int64(1); h <= c.n; h++ {
		tms = append(tms, fmt.Sprintf("%d:%.1fs", h, c.times[h].Sub(c11Base).Seconds()))
	}
	term := vg.App("CHist", c.chainTerm(), vg.Z(c.bs.Height()), c.stTerm(c.states[l0]), vg.L(tt), vg.L(vbs), vg.L(steps))
	cs.Add(id, kind, maxPend >= 2,
		term, fmt.Sprintf("chain of %d blocks (block times %s), MaxAgeNumBlocks=%d MaxAgeDuration=%v, pool starts at height %d; evidence: %s; ops: %s",
			c.n, strings.Join(tms, " "), c.params.MaxAgeNumBlocks, c.params.MaxAgeDuration, l0, strings.Join(kinds, " "), strings.Join(descr, "; ")))
}

func c11Pick(r *vg.Rand, l []int) int { return l[r.Intn(len(l))] }

// evidence the callers of the pool may hand to it: AddEvidence / CheckEvidence / Update are only
// reached after ValidateBasic (reactor decoding, Block.ValidateBasic)
func (d *c11Driver) usable() []int {
	var l []int
	for i, e := range d.tbl {
		if e.ev.ValidateBasic() == nil {
			l = append(l, i)
		}
	}
	return l
}

func TestVerifC11Pool(t *testing.T) {
	cs := vg.NewCases("C11", "c11_pool", "TM.C11.Exec")
	root := vg.NewRand(vg.Seed())

	// ---- directed: F4 (pending light client attack evidence checked again)
	{
		id := cs.NextID()
		if cs.Want(id) {
			r := root.Fork(uint64(id))
			var c *c11Chain
			var evs []c11Ev
			for k := uint64(0); ; k++ { // find an acceptable equivocation attack
				c = c11NewChain(r.Fork(k), 1000+k)
				c.r = r.Fork(k + 7777)
				evs = c.genLca()
				if evs[0].kind == "lca-equivocation" && evs[0].ev.Height() >= 2 && evs[0].ev.Height() < c.n {
					break
				}
			}
			l0 := evs[0].ev.Height()
			c11RunCase(cs, id, "directed-F4", c, l0, evs[:1], func(d *c11Driver, step func(c11Step)) {
				step(d.doAdd(0))
				step(d.doCheck([]int{0}))
				step(d.doCheck([]int{0}))
				step(d.doCheck([]int{0}))
				step(d.doPending(-1))
				step(d.doUpdate(l0+1, []int{0}))
				step(d.doPending(-1))
				step(d.doCheck([]int{0}))
				step(d.doAdd(0))
			})
		}
	}
	// ---- directed: F24 (evidence expired by both limits still pending, proposed and accepted)
	for variant := 0; variant < 2; variant++ {
		id := cs.NextID()
		if cs.Want(id) {
			r := root.Fork(uint64(id))
			c := c11NewChain(r, 2000+uint64(variant))
			c.r = r.Fork(99)
			c11RunCase(cs, id, "directed-F24", c, 2, nil, func(d *c11Driver, step func(c11Step)) {
				// evidence of height 2 admitted at height 2, then the chain advances one block at a time
				v1, v2, _ := c.conflictingVotes(2)
				i := d.addTbl(c11Ev{types.NewDuplicateVoteEvidence(v1, v2, c.times[2], c.vals[2]), "dup-genuine"})
				j := -1
				step(d.doAdd(i))
				for L := int64(3); L <= c.n; L++ {
					if variant == 1 && L == 4 {
						// an older item admitted after the pruning threshold was computed
						w1, w2, _ := c.conflictingVotes(1)
						j = d.addTbl(c11Ev{types.NewDuplicateVoteEvidence(w1, w2, c.times[1], c.vals[1]), "dup-genuine"})
						step(d.doAdd(j))
					}
					step(d.doUpdate(L, nil))
					step(d.doPending(-1))
					step(d.doCheck([]int{i}))
					if j >= 0 {
						step(d.doCheck([]int{j}))
					}
				}
			})
		}
	}

	// ---- directed: consensus reports the votes of an evidence again, in every state of that
	// evidence (pending, twice in a row, in the block being committed, committed, after a restart)
	for variant := 0; variant < 3; variant++ {
		id := cs.NextID()
		if cs.Want(id) {
			r := root.Fork(uint64(id))
			var c *c11Chain
			for k := uint64(0); ; k++ { // age limits that keep the evidence alive through the history
				c = c11NewChain(r.Fork(k), 3000+uint64(variant)*100+k)
				if c.params.MaxAgeNumBlocks >= 3 {
					break
				}
			}
			c.r = r.Fork(99)
			l0 := int64(2 + variant)
			c11RunCase(cs, id, "directed-report-again", c, l0, nil, func(d *c11Driver, step func(c11Step)) {
				h := l0 + 1 // votes of the height being decided
				if variant == 2 {
					h = l0
				}
				v1, v2, _ := c.conflictingVotes(h)
				x := d.addTbl(c11Ev{types.NewDuplicateVoteEvidence(v1, v2, c.times[h], c.vals[h]), "dup-genuine"})
				if variant == 2 {
					step(d.doAdd(x))
				}
				step(d.doReportOf(x))
				step(d.doReportOf(x)) // twice in a row
				step(d.doUpdate(l0+1, nil))
				step(d.doReportOf(x)) // pending
				step(d.doPending(-1))
				if variant == 1 {
					step(d.doReportOf(x)) // in the buffer while the block that commits it is applied
				}
				step(d.doUpdate(l0+2, []int{x}))
				step(d.doReportOf(x)) // committed
				step(d.doReportOf(x))
				step(d.doUpdate(l0+3, nil))
				step(d.doPending(-1))
				step(d.doCheck([]int{x}))
				step(d.doReportOf(x))
				step(d.doRestart()) // the buffer is lost
				step(d.doReportOf(x))
				step(d.doUpdate(l0+4, nil))
				step(d.doPending(-1))
				step(d.doAdd(x))
			})
		}
	}

	// ---- random histories
	nh := vg.Scale(160, 12000)
	for k := 0; k < nh; k++ {
		id := cs.NextID()
		if !cs.Want(id) {
			continue
		}
		r := root.Fork(uint64(id))
		c := c11NewChain(r, uint64(id))
		var tbl []c11Ev
		ndup := 3 + r.Intn(4)
		for i := 0; i < ndup; i++ {
			tbl = append(tbl, c.genDup(c.n))
		}
		if r.Chance(60) {
			tbl = append(tbl, c.genLca()...)
		}
		l0 := int64(1 + r.Intn(3))
		nops := 25 + r.Intn(16)
		c11RunCase(cs, id, "random", c, l0, tbl, func(d *c11Driver, step func(c11Step)) {
			var lastChecked []int
			for o := 0; o < nops; o++ {
				all := len(d.tbl)
				us := d.usable()
				if len(us) == 0 {
					us = []int{d.addTbl(c.genDupGenuine())}
				}
				_, pend := d.obs()
				var inRange []int
				for _, p := range pend {
					if p < all {
						inRange = append(inRange, p)
					}
				}
				switch x := r.Intn(100); {
				case x < 30:
					step(d.doAdd(c11Pick(r, us)))
				case x < 50:
					n := 1 + r.Intn(3)
					var l []int
					for i := 0; i < n; i++ {
						switch {
						case len(inRange) > 0 && r.Chance(40):
							l = append(l, c11Pick(r, inRange))
						case len(l) > 0 && r.Chance(15):
							l = append(l, l[0])
						default:
							l = append(l, c11Pick(r, us))
						}
					}
					s := d.doCheck(l)
					if strings.HasSuffix(s.descr, "=0") {
						lastChecked = l
					}
					step(s)
				case x < 72:
					L := d.cur + 1
					if r.Chance(12) {
						L++
					}
					if r.Chance(4) {
						L = d.cur - int64(r.Intn(2))
					}
					if L > c.n || L < 0 {
						step(d.doPending(-1))
						continue
					}
					var l []int
					switch {
					case lastChecked != nil && r.Chance(50):
						l = lastChecked // the block that was just validated
					case len(inRange) > 0 && r.Chance(60):
						for _, p := range inRange {
							if r.Chance(60) {
								l = append(l, p)
							}
						}
					case r.Chance(20):
						l = []int{c11Pick(r, us)}
					}
					lastChecked = nil
					step(d.doUpdate(L, l))
				case x < 80:
					// consensus reports votes of the height being decided, or of an earlier one
					h := d.cur + 1
					if r.Chance(30) && d.cur >= 1 {
						h = 1 + int64(r.Intn(int(d.cur)))
					}
					if h > c.n {
						h = c.n
					}
					// ... or once more the votes of an evidence that exists already (pending,
					// committed, expired or not yet seen), sometimes twice in a row
					if rr := r.Fork(uint64(5000 + o)); rr.Chance(45) {
						if rep := d.reportable(); len(rep) > 0 {
							i := c11Pick(rr, rep)
							step(d.doReportOf(i))
							if rr.Chance(30) {
								step(d.doReportOf(i))
							}
							continue
						}
					}
					step(d.doReport(h))
				case x < 87:
					step(d.doRestart())
				default:
					maxb := int64(-1)
					if r.Chance(75) {
						tot := int64(0)
						for _, p := range inRange {
							tot += c11WireSize(d.tbl[p].ev)
							if r.Chance(40) {
								break
							}
						}
						maxb = tot + int64(r.Intn(3)) - 1
						if maxb < 0 {
							maxb = 0
						}
					}
					step(d.doPending(maxb))
				}
			}
		})
	}
	sort.Strings(cs.Notes)
	if err := cs.Write(); err != nil {
		t.Fatal(err)
	}
}
