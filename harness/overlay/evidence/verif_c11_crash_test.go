//go:build verif

package evidence

// C11, F95: a crash between the point where a block carrying evidence is durably stored and
// evpool.Update, followed by the restart.
//
// Everything is real: a chain built block by block through the real sm.BlockExecutor
// (state.MakeBlock, ValidateBlock, ApplyBlock against a kvstore application), a real block store,
// state store and evidence.Pool over memdbs.  A family: a prefix of 2..4 blocks, 1..3 genuine
// duplicate-vote evidences admitted by the pool, then block H carrying some of them
//   control  applied through the executor that holds the real pool (ApplyBlock calls pool.Update);
//   crash    (VERIF_C11_F95=1) the process dies after consensus saved the block and before
//            ApplyBlock reached evpool.Update: on restart the handshake (consensus/replay.go)
//            re-applies the block with sm.EmptyEvidencePool{} and saves its state, then the node
//            creates the pool with evidence.NewPool over the same databases;
// afterwards PendingEvidence, CheckEvidence of the committed evidence (a block H+1 carrying it),
// AddEvidence, and block H+1 built from whatever PendingEvidence proposes, applied through the
// real executor.  Monitors (coq/C11/Exec.v): clause 19 (committed evidence is pending), clause 4
// (CheckEvidence accepts evidence committed in an earlier block), independent of the model.

import (
	"fmt"
	"os"
	"sort"
	"testing"
	"time"

	dbm "github.com/tendermint/tm-db"

	"github.com/tendermint/tendermint/abci/example/kvstore"
	"github.com/tendermint/tendermint/crypto/ed25519"
	vg "github.com/tendermint/tendermint/internal/verifgen"
	"github.com/tendermint/tendermint/libs/log"
	mmock "github.com/tendermint/tendermint/mempool/mock"
	tmproto "github.com/tendermint/tendermint/proto/tendermint/types"
	"github.com/tendermint/tendermint/proxy"
	sm "github.com/tendermint/tendermint/state"
	"github.com/tendermint/tendermint/store"
	"github.com/tendermint/tendermint/types"
)

// THE ONE PLACE TO FLIP once fixes/F95-*.diff is in /repo: return true.
func c11F95Enabled() bool { return os.Getenv("VERIF_C11_F95") != "0" } // on by default: the finding is recorded in known_findings.json

type c11Exec struct {
	c          *c11Chain
	state      sm.State
	lastCommit *types.Commit
	app        proxy.AppConns
}

// a chain whose blocks go through the real executor; p blocks to start with
func c11NewExecChain(r *vg.Rand, tag uint64, p int64) *c11Exec {
	c := &c11Chain{r: r, pvByAddr: map[string]types.MockPV{}, vals: map[int64]*types.ValidatorSet{},
		times: map[int64]time.Time{}, headers: map[int64]*types.Header{}, blockIDs: map[int64]types.BlockID{},
		commits: map[int64]*types.Commit{}, rounds: map[int64]int32{}, states: map[int64]sm.State{},
		prefix: map[uint64]string{}}
	nv := 1 + r.Intn(3)
	var gvs []types.GenesisValidator
	for i := 0; i < nv; i++ {
		pv := types.NewMockPVWithParams(ed25519.GenPrivKeyFromSecret([]byte(fmt.Sprintf("c11x-%d-%d", tag, i))), false, false)
		c.pvs = append(c.pvs, pv)
		c.pvByAddr[string(pv.PrivKey.PubKey().Address())] = pv
		gvs = append(gvs, types.GenesisValidator{Address: pv.PrivKey.PubKey().Address(), PubKey: pv.PrivKey.PubKey(),
			Power: int64(5 + r.Intn(10)), Name: fmt.Sprintf("v%d", i)})
	}
	cp := types.DefaultConsensusParams()
	cp.Evidence.MaxAgeNumBlocks = int64(3 + r.Intn(4))
	cp.Evidence.MaxAgeDuration = time.Duration(3+r.Intn(5)) * time.Second
	st, err := sm.MakeGenesisState(&types.GenesisDoc{ChainID: c11ChainID, GenesisTime: c11Base.Add(time.Second),
		Validators: gvs, ConsensusParams: cp})
	if err != nil {
		panic(err)
	}
	c.params = st.ConsensusParams.Evidence
	c.bs = store.NewBlockStore(dbm.NewMemDB())
	c.ss = sm.NewStore(dbm.NewMemDB(), sm.StoreOptions{DiscardABCIResponses: false})
	if err := c.ss.Save(st); err != nil {
		panic(err)
	}
	app := proxy.NewAppConns(proxy.NewLocalClientCreator(kvstore.NewApplication()))
	if err := app.Start(); err != nil {
		panic(err)
	}
	x := &c11Exec{c: c, state: st, lastCommit: types.NewCommit(0, 0, types.BlockID{}, nil), app: app}
	c.states[0] = st
	c.times[0] = st.LastBlockTime
	for h := int64(1); h <= 12; h++ {
		c.vals[h] = st.Validators.Copy() // the set never changes in these chains
	}
	for h := int64(1); h <= p; h++ {
		if err := x.apply(nil, sm.EmptyEvidencePool{}); err != nil {
			panic(err)
		}
	}
	return x
}

// the next block carrying evs: built from the state, saved in the block store with its commit (as
// consensus does before ApplyBlock), then ApplyBlock through an executor holding pool
func (x *c11Exec) apply(evs []types.Evidence, pool sm.EvidencePool) error {
	c := x.c
	h := x.state.LastBlockHeight + 1
	block, parts := x.state.MakeBlock(h, nil, x.lastCommit, evs, x.state.Validators.GetProposer().Address)
	bid := types.BlockID{Hash: block.Hash(), PartSetHeader: parts.Header()}
	ts := c11Base.Add(time.Duration(h+1)*time.Second + time.Duration(c.r.Intn(900))*time.Millisecond)
	round := int32(c.r.Intn(2))
	commit := c.mkCommitFlags(h, round, bid, x.state.Validators, func(int) types.BlockIDFlag { return types.BlockIDFlagCommit }, ts)
	c.bs.SaveBlock(block, parts, commit)
	exec := sm.NewBlockExecutor(c.ss, log.NewNopLogger(), x.app.Consensus(), mmock.Mempool{}, pool)
	st, _, err := exec.ApplyBlock(x.state, bid, block)
	if err != nil {
		return err
	}
	x.state, x.lastCommit = st, commit
	hdr := block.Header
	c.n = h
	c.headers[h], c.blockIDs[h], c.commits[h], c.rounds[h] = &hdr, bid, commit, round
	c.times[h] = block.Time
	c.states[h] = st
	return nil
}

// block H carrying the table items l.  crash=false: through the executor that holds the real
// pool.  crash=true: the handshake's executor (EmptyEvidencePool), then NewPool.
func (d *c11Driver) doApply(x *c11Exec, l []int, crash bool) c11Step {
	var evs []types.Evidence
	for _, i := range l {
		evs = append(evs, d.tbl[i].ev)
	}
	h := x.state.LastBlockHeight + 1
	if crash {
		if err := x.apply(evs, sm.EmptyEvidencePool{}); err != nil {
			panic(err)
		}
		p, err := NewPool(d.evdb, d.c.ss, d.c.bs)
		if err != nil {
			panic(err)
		}
		d.pool = p
		d.cur = h
		d.cs.Count("op:crash-before-update+restart", 1)
		return c11Step{vg.App("XCrash", d.c.stTerm(x.state), c11Nats(l)),
			fmt.Sprintf("block %d carrying %v saved; CRASH before evpool.Update; handshake replays it with EmptyEvidencePool (state %d saved); NewPool", h, l, h)}
	}
	res := c11Guard(func() int {
		if err := x.apply(evs, d.pool); err != nil {
			panic(err)
		}
		return 0
	})
	if res != 0 {
		panic(fmt.Sprintf("c11: block %d carrying %v was not applied by the real executor", h, l))
	}
	d.cur = h
	d.cs.Count("op:apply-block(real executor)", 1)
	return c11Step{vg.App("XUpdate", d.c.stTerm(x.state), c11Nats(l), vg.Z(0)),
		fmt.Sprintf("ApplyBlock(height %d, evidence %v) through the real BlockExecutor => Update", h, l)}
}

func TestVerifC11Crash(t *testing.T) {
	cs := vg.NewCases("C11", "c11_crash", "TM.C11.Exec")
	root := vg.NewRand(vg.Seed() ^ 0xc7a5)
	nf := vg.Scale(24, 1500)
	for k := 0; k < nf; k++ {
		for mode := 0; mode < 2; mode++ {
			crash := mode == 1
			if crash && !c11F95Enabled() {
				continue
			}
			id := cs.NextID()
			if !cs.Want(id) {
				continue
			}
			r := root.Fork(uint64(k))
			p := int64(2 + r.Intn(3))
			x := c11NewExecChain(r.Fork(1), 700000+uint64(k), p)
			c := x.c
			hr := r.Fork(2)
			kind := "control"
			if crash {
				kind = "crash-before-update"
			}
			c11RunCase(cs, id, kind, c, p, nil, func(d *c11Driver, step func(c11Step)) {
				nev := 1 + hr.Intn(3)
				var all []int
				for i := 0; i < nev; i++ {
					h := int64(1 + hr.Intn(int(p)))
					v1, v2, _ := c.conflictingVotes(h)
					j := d.addTbl(c11Ev{types.NewDuplicateVoteEvidence(v1, v2, c.times[h], c.vals[h]), "dup-genuine"})
					all = append(all, j)
					step(d.doAdd(j))
				}
				step(d.doPending(-1))
				// the block carries a non-empty subset of what is pending
				var in []int
				for _, j := range all {
					if hr.Chance(65) {
						in = append(in, j)
					}
				}
				if len(in) == 0 {
					in = all[:1]
				}
				step(d.doApply(x, in, crash))
				step(d.doPending(-1))
				step(d.doCheck(in)) // a block H+1 carrying the same evidence
				step(d.doAdd(in[0]))
				step(d.doCheck([]int{in[0]}))
				if hr.Bool() {
					step(d.doReportOf(in[0]))
				}
				// block H+1 from what the pool proposes
				evs, _ := d.pool.PendingEvidence(-1)
				var prop []int
				for _, e := range evs {
					prop = append(prop, d.idx(e))
				}
				step(d.doApply(x, prop, false))
				step(d.doPending(-1))
				if hr.Bool() {
					step(d.doRestart())
					step(d.doPending(-1))
				}
				step(d.doAdd(in[0]))
				step(d.doCheck(in))
			})
			_ = x.app.Stop()
		}
	}
	sort.Strings(cs.Notes)
	if err := cs.Write(); err != nil {
		t.Fatal(err)
	}
	_ = tmproto.PrecommitType
}
