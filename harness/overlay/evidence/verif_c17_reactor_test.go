//go:build verif

package evidence

// C17 reactor sweep, evidence reactor (reactor number 3) — injected with `go test -overlay`.
//
// One case = one hostile input delivered to a fresh, live evidence Reactor (real Pool over a memdb,
// a real state store holding a one-validator chain of 12 heights, a block store fake that serves
// genuine signed headers; real p2p.Switch that is not listening) through Reactor.Receive (what the
// p2p layer does: proto.Unmarshal into EvidenceList, ReceiveEnvelope).  The sender is a mock peer
// in one of the states unknown / added (broadcast routine running, PeerState set) / removed.
//
// Goroutines:
//   - broadcastEvidenceRoutine (per peer, normally spawned by AddPeer): WRAPPED — AddPeer does
//     nothing else, the harness runs evR.broadcastEvidenceRoutine(peer) itself under recover.
//   - there is no other goroutine in this reactor; as a safety net all cases run in a CHILD
//     PROCESS (re-exec of the test binary): when it dies the case in progress is recorded with
//     bg_panic ("panic:" / "fatal error:" in its output) or stuck (killed by the parent).
//
// alive probe: an honest peer delivers fresh, genuinely valid duplicate-vote evidence via Receive;
// it must become pending in the pool (PendingEvidence answers) and the wrapped broadcast routine
// must gossip it to an observer peer.

import (
	"bytes"
	"context"
	"encoding/hex"
	"encoding/json"
	"fmt"
	"math"
	"os"
	"os/exec"
	"runtime"
	"strconv"
	"strings"
	"sync"
	"testing"
	"time"

	"github.com/gogo/protobuf/proto"
	dbm "github.com/tendermint/tm-db"

	cfg "github.com/tendermint/tendermint/config"
	"github.com/tendermint/tendermint/crypto/ed25519"
	vg "github.com/tendermint/tendermint/internal/verifgen"
	"github.com/tendermint/tendermint/libs/log"
	"github.com/tendermint/tendermint/p2p"
	"github.com/tendermint/tendermint/p2p/conn"
	"github.com/tendermint/tendermint/p2p/mock"
	tmproto "github.com/tendermint/tendermint/proto/tendermint/types"
	tmversion "github.com/tendermint/tendermint/proto/tendermint/version"
	sm "github.com/tendermint/tendermint/state"
	"github.com/tendermint/tendermint/types"
	"github.com/tendermint/tendermint/version"
)

// ------------------------------------------------------------------ shared skeleton (duplicated in the five files)

type c17Rec struct {
	Phase     string `json:"phase"` // "B" written before the input is delivered, "E" after
	ID        int    `json:"id"`
	Kind      int    `json:"kind"`
	KindName  string `json:"kind_name"`
	InLen     int    `json:"in_len"`
	Descr     string `json:"descr"`
	RecvPanic bool   `json:"recv_panic"`
	Stopped   bool   `json:"stopped"`
	BgPanic   bool   `json:"bg_panic"`
	Stuck     bool   `json:"stuck"`
	Alive     bool   `json:"alive"`
	Alloc     int64  `json:"alloc"`
	Note      string `json:"note,omitempty"`
}

type c17Input struct {
	kind     int
	kindName string
	chID     byte
	state    int
	data     []byte
	msg      string // Go-literal-ish form for kind 2
	extra    string
}

// c17BG collects panics of wrapped background goroutines.
type c17BG struct {
	mtx    sync.Mutex
	panics []string
	wg     sync.WaitGroup
}

func (b *c17BG) Go(name string, f func()) {
	b.wg.Add(1)
	go func() {
		defer b.wg.Done()
		defer func() {
			if r := recover(); r != nil {
				b.mtx.Lock()
				b.panics = append(b.panics, fmt.Sprintf("%s: %v", name, r))
				b.mtx.Unlock()
			}
		}()
		f()
	}()
}
func (b *c17BG) Panicked() (bool, string) {
	b.mtx.Lock()
	defer b.mtx.Unlock()
	return len(b.panics) > 0, strings.Join(b.panics, " | ")
}

// c17Timed runs f under recover in its own goroutine; done=false when it did not return in time.
func c17Timed(d time.Duration, f func()) (done bool, panicked bool, pv string) {
	ch := make(chan struct{})
	go func() {
		defer close(ch)
		defer func() {
			if r := recover(); r != nil {
				panicked = true
				pv = fmt.Sprint(r)
			}
		}()
		f()
	}()
	select {
	case <-ch:
		return true, panicked, pv
	case <-time.After(d):
		return false, false, ""
	}
}

func c17TotalAlloc() int64 {
	var ms runtime.MemStats
	runtime.ReadMemStats(&ms)
	return int64(ms.TotalAlloc)
}

func c17Trunc(s string, n int) string {
	if len(s) > n {
		return s[:n] + fmt.Sprintf("…(%d more)", len(s)-n)
	}
	return s
}

func c17HexDescr(b []byte) string {
	if len(b) <= 2048 {
		return hex.EncodeToString(b)
	}
	return hex.EncodeToString(b[:1024]) + fmt.Sprintf("…(%d bytes in total; regenerate with VERIF_ONLY)", len(b))
}

func c17RandomBytes(r *vg.Rand, k int, tags []byte) []byte {
	var n int
	switch {
	case k < 24:
		n = k // lengths 0,1,2,… in order
	case r.Chance(70):
		n = r.Intn(64)
	default:
		n = 64 + r.Intn(400)
	}
	b := r.Bytes(n)
	if len(tags) > 0 && n > 0 && r.Chance(40) {
		b[0] = tags[r.Intn(len(tags))]
		if n > 1 && r.Chance(60) {
			b[1] = byte(n - 2) // plausible length prefix
		}
	}
	return b
}

func c17Mutate(r *vg.Rand, valid []byte) ([]byte, string) {
	b := append([]byte{}, valid...)
	if len(b) == 0 {
		return b, "none"
	}
	switch r.Intn(5) {
	case 0:
		i := r.Intn(len(b))
		b[i] ^= 1 << uint(r.Intn(8))
		return b, fmt.Sprintf("bitflip@%d", i)
	case 1:
		i, j := r.Intn(len(b)), r.Intn(len(b))
		b[i] = byte(r.Uint64())
		b[j] = byte(r.Uint64())
		return b, fmt.Sprintf("bytes@%d,%d", i, j)
	case 2:
		n := r.Intn(len(b))
		return b[:n], fmt.Sprintf("truncate@%d", n)
	case 3:
		i := r.Intn(len(b))
		b[i] = 0xff
		return b, fmt.Sprintf("ff@%d", i)
	default:
		i := r.Intn(len(b))
		c := append(append([]byte{}, b[:i]...), byte(r.Uint64()))
		return append(c, b[i:]...), fmt.Sprintf("insert@%d", i)
	}
}

// c17Peer is the mock peer (hostile sender, honest prober, observer): a p2p/mock.Peer that
// records what the reactor sends to it.
type c17Peer struct {
	*mock.Peer
	mtx    sync.Mutex
	sent   []proto.Message
	onSend func(e p2p.Envelope)
}

func c17NewPeer(ip byte, outbound bool) *c17Peer {
	p := &c17Peer{Peer: mock.NewPeer([]byte{37, 120, 3, ip})}
	p.Peer.Outbound = outbound
	return p
}
func (p *c17Peer) record(e p2p.Envelope) bool {
	p.mtx.Lock()
	p.sent = append(p.sent, e.Message)
	f := p.onSend
	p.mtx.Unlock()
	if f != nil {
		f(e)
	}
	return true
}
func (p *c17Peer) SendEnvelope(e p2p.Envelope) bool    { return p.record(e) }
func (p *c17Peer) TrySendEnvelope(e p2p.Envelope) bool { return p.record(e) }
func (p *c17Peer) Sent() []proto.Message {
	p.mtx.Lock()
	defer p.mtx.Unlock()
	return append([]proto.Message{}, p.sent...)
}

func c17Key() ed25519.PrivKey { return ed25519.GenPrivKey() }

// c17Drive is the parent/child orchestration.  gen builds case k from its own PRNG stream; exec
// delivers it.  The parent never delivers anything itself.
func c17Drive(t *testing.T, testName, casesName string, reactorNo uint64, n int,
	gen func(k int, r *vg.Rand) c17Input, run func(in c17Input, rec *c17Rec)) {

	root := vg.NewRand(vg.Seed())
	if fromS := os.Getenv("VERIF_C17_CHILD"); fromS != "" {
		// ---- child: run cases from..n-1, journal to the file
		from, _ := strconv.Atoi(fromS)
		f, err := os.OpenFile(os.Getenv("VERIF_C17_FILE"), os.O_APPEND|os.O_WRONLY|os.O_CREATE, 0o644)
		if err != nil {
			t.Fatal(err)
		}
		defer f.Close()
		put := func(rec c17Rec) {
			js, _ := json.Marshal(rec)
			f.Write(append(js, '\n'))
			f.Sync()
		}
		for k := from; k < n; k++ {
			if o := vg.Only(); o >= 0 && o != k {
				continue
			}
			var in c17Input
			func() {
				defer func() {
					if r := recover(); r != nil { // a generator bug must not kill the run: visible as its own kind
						in = c17Input{kind: 0, kindName: "harness-generator-panic", extra: fmt.Sprintf(" GENERATOR PANIC: %v", r)}
					}
				}()
				in = gen(k, root.Fork(uint64(k)))
			}()
			rec := c17Rec{Phase: "B", ID: k, Kind: in.kind, KindName: in.kindName, InLen: len(in.data)}
			rec.Descr = fmt.Sprintf("reactor=%d(%s) ch=0x%02x peer_state=%d%s input(hex)=%s", reactorNo, casesName,
				in.chID, in.state, in.extra, c17HexDescr(in.data))
			if in.msg != "" {
				rec.Descr += " msg=" + c17Trunc(in.msg, 1500)
			}
			put(rec)
			func() {
				defer func() {
					if r := recover(); r != nil { // the harness itself must not die
						rec.Note += fmt.Sprintf(" harness-panic: %v", r)
					}
				}()
				run(in, &rec)
			}()
			rec.Phase = "E"
			put(rec)
		}
		return
	}

	// ---- parent
	cs := vg.NewCases("C17", casesName, "TM.C17.Exec")
	add := func(rec c17Rec) {
		term := vg.App("CReactor", vg.N(reactorNo), vg.N(uint64(rec.Kind)), vg.Z(int64(rec.InLen)),
			vg.B(rec.RecvPanic), vg.B(rec.Stopped), vg.B(rec.BgPanic), vg.B(rec.Stuck), vg.B(rec.Alive), vg.Z(rec.Alloc))
		d := rec.Descr
		if rec.Note != "" {
			d += " note=" + rec.Note
		}
		cs.Add(rec.ID, rec.KindName, rec.Kind != 0 || rec.InLen > 0, term, d)
		out := "ignored"
		switch {
		case rec.BgPanic:
			out = "BG_PANIC"
		case rec.Stuck:
			out = "STUCK"
		case !rec.Alive:
			out = "NOT_ALIVE"
		case rec.RecvPanic:
			out = "recv_panic"
		case rec.Stopped:
			out = "stopped"
		}
		cs.Count("outcome:"+out, 1)
	}
	for k := 0; k < n; k++ {
		cs.NextID() // ids are dense: id = k
	}
	dir, err := os.MkdirTemp("", "c17child")
	if err != nil {
		t.Fatal(err)
	}
	defer os.RemoveAll(dir)
	from, spawn := 0, 0
	for from < n {
		spawn++
		file := fmt.Sprintf("%s/journal%d", dir, spawn)
		ctx, cancel := context.WithTimeout(context.Background(), time.Duration(120+4*(n-from))*time.Second)
		cmd := exec.CommandContext(ctx, os.Args[0], "-test.run=^"+testName+"$", "-test.count=1", "-test.timeout=0")
		cmd.Env = append(os.Environ(), "VERIF_C17_CHILD="+strconv.Itoa(from), "VERIF_C17_FILE="+file)
		var outb bytes.Buffer
		cmd.Stdout, cmd.Stderr = &outb, &outb
		runErr := cmd.Run()
		timedOut := ctx.Err() != nil
		cancel()
		js, _ := os.ReadFile(file)
		var pending *c17Rec
		for _, line := range bytes.Split(js, []byte{'\n'}) {
			if len(line) == 0 {
				continue
			}
			var rec c17Rec
			if err := json.Unmarshal(line, &rec); err != nil {
				continue
			}
			if rec.Phase == "B" {
				r2 := rec
				pending = &r2
			} else {
				pending = nil
				add(rec)
			}
		}
		if runErr == nil && pending == nil {
			break
		}
		outS := outb.String()
		if pending == nil {
			t.Fatalf("c17 child died outside a case (from=%d): %v\n%s", from, runErr, c17Trunc(outS, 4000))
		}
		// the child died while case pending.ID was being handled
		crashed := strings.Contains(outS, "panic:") || strings.Contains(outS, "fatal error:")
		pending.BgPanic = crashed && !timedOut
		pending.Stuck = !pending.BgPanic
		pending.Alive = false
		tail := outS
		if i := strings.Index(tail, "panic:"); i >= 0 {
			tail = tail[i:]
		} else if i := strings.Index(tail, "fatal error:"); i >= 0 {
			tail = tail[i:]
		}
		pending.Note = "child process died: " + c17Trunc(strings.ReplaceAll(tail, "\n", " / "), 700)
		add(*pending)
		cs.Notes = append(cs.Notes, fmt.Sprintf("case %d killed the child process", pending.ID))
		from = pending.ID + 1
		if vg.Only() >= 0 {
			break
		}
	}
	if err := cs.Write(); err != nil {
		t.Fatal(err)
	}
}

// ------------------------------------------------------------------ evidence specifics

const (
	c17EvChain = "c17-chain"
	c17EvTop   = int64(12)
)

var c17EvBase = time.Date(2021, 3, 1, 12, 0, 0, 0, time.UTC)

type c17EvPeerState struct{ h int64 }

func (s c17EvPeerState) GetHeight() int64 { return s.h }

type c17EvBlockStore struct {
	metas   map[int64]*types.BlockMeta
	commits map[int64]*types.Commit
	top     int64
}

func (b *c17EvBlockStore) LoadBlockMeta(h int64) *types.BlockMeta { return b.metas[h] }
func (b *c17EvBlockStore) LoadBlockCommit(h int64) *types.Commit  { return b.commits[h] }
func (b *c17EvBlockStore) Height() int64                          { return b.top }

type c17EvFix struct {
	pv    types.MockPV
	other types.MockPV
	val   *types.Validator
	vals  *types.ValidatorSet
	ss    sm.Store
	bs    *c17EvBlockStore
}

var (
	c17EvFixOnce sync.Once
	c17EvFixV    *c17EvFix
)

func c17Hash32(s string) []byte {
	b := make([]byte, 32)
	copy(b, s)
	return b
}

func c17EvSign(pv types.MockPV, v *types.Vote) {
	vp := v.ToProto()
	if err := pv.SignVote(c17EvChain, vp); err != nil {
		panic(err)
	}
	v.Signature = vp.Signature
}

func c17EvCommit(pv types.MockPV, h int64, round int32, bid types.BlockID, ts time.Time) *types.Commit {
	v := &types.Vote{Type: tmproto.PrecommitType, Height: h, Round: round, BlockID: bid, Timestamp: ts,
		ValidatorAddress: pv.PrivKey.PubKey().Address(), ValidatorIndex: 0}
	c17EvSign(pv, v)
	return types.NewCommit(h, round, bid, []types.CommitSig{v.CommitSig()})
}

func c17EvFixture() *c17EvFix {
	c17EvFixOnce.Do(func() {
		f := &c17EvFix{}
		f.pv = types.NewMockPVWithParams(ed25519.GenPrivKeyFromSecret([]byte("c17-ev-val")), false, false)
		f.other = types.NewMockPVWithParams(ed25519.GenPrivKeyFromSecret([]byte("c17-ev-other")), false, false)
		f.val = types.NewValidator(f.pv.PrivKey.PubKey(), 10)
		f.vals = types.NewValidatorSet([]*types.Validator{f.val})
		params := tmproto.ConsensusParams{
			Block:     tmproto.BlockParams{MaxBytes: 22020096, MaxGas: -1},
			Evidence:  tmproto.EvidenceParams{MaxAgeNumBlocks: 20, MaxAgeDuration: 20 * time.Minute, MaxBytes: 1000000},
			Validator: tmproto.ValidatorParams{PubKeyTypes: []string{types.ABCIPubKeyTypeEd25519}},
		}
		f.ss = sm.NewStore(dbm.NewMemDB(), sm.StoreOptions{})
		st := sm.State{ChainID: c17EvChain, InitialHeight: 1, LastBlockHeight: c17EvTop,
			LastBlockTime: c17EvBase.Add(time.Duration(c17EvTop) * time.Minute),
			Validators:    f.vals, NextValidators: f.vals.CopyIncrementProposerPriority(1), LastValidators: f.vals,
			LastHeightValidatorsChanged: 1, LastHeightConsensusParamsChanged: 1, ConsensusParams: params}
		for i := int64(0); i <= c17EvTop; i++ {
			st.LastBlockHeight = i
			if err := f.ss.Save(st); err != nil {
				panic(err)
			}
		}
		f.bs = &c17EvBlockStore{metas: map[int64]*types.BlockMeta{}, commits: map[int64]*types.Commit{}, top: c17EvTop}
		prev := types.BlockID{}
		for h := int64(1); h <= c17EvTop; h++ {
			hd := types.Header{Version: tmversion.Consensus{Block: version.BlockProtocol, App: 1}, ChainID: c17EvChain,
				Height: h, Time: c17EvBase.Add(time.Duration(h) * time.Minute), LastBlockID: prev,
				LastCommitHash: c17Hash32("lc"), DataHash: c17Hash32("data"), ValidatorsHash: f.vals.Hash(),
				NextValidatorsHash: f.vals.Hash(), ConsensusHash: types.HashConsensusParams(params),
				AppHash: c17Hash32("app"), LastResultsHash: c17Hash32("res"), EvidenceHash: c17Hash32("ev"),
				ProposerAddress: f.val.Address}
			bid := types.BlockID{Hash: hd.Hash(), PartSetHeader: types.PartSetHeader{Total: 1, Hash: c17Hash32(fmt.Sprint("ps", h))}}
			f.bs.metas[h] = &types.BlockMeta{BlockID: bid, Header: hd}
			f.bs.commits[h] = c17EvCommit(f.pv, h, 0, bid, hd.Time)
			prev = bid
		}
		c17EvFixV = f
	})
	return c17EvFixV
}

// genuine duplicate-vote evidence by validator pv at height h
func (f *c17EvFix) dve(pv types.MockPV, h int64, ts time.Time, tagA, tagB string) *types.DuplicateVoteEvidence {
	mk := func(tag string) *types.Vote {
		bid := types.BlockID{Hash: c17Hash32("blk" + tag), PartSetHeader: types.PartSetHeader{Total: 1, Hash: c17Hash32("prt" + tag)}}
		v := &types.Vote{Type: tmproto.PrecommitType, Height: h, Round: 0, BlockID: bid, Timestamp: ts,
			ValidatorAddress: pv.PrivKey.PubKey().Address(), ValidatorIndex: 0}
		c17EvSign(pv, v)
		return v
	}
	ev := types.NewDuplicateVoteEvidence(mk(tagA), mk(tagB), ts, f.vals)
	if ev == nil { // pv not in the set: fill the fields by hand
		a, b := mk(tagA), mk(tagB)
		if strings.Compare(a.BlockID.Key(), b.BlockID.Key()) > 0 {
			a, b = b, a
		}
		ev = &types.DuplicateVoteEvidence{VoteA: a, VoteB: b, TotalVotingPower: 10, ValidatorPower: 10, Timestamp: ts}
	}
	return ev
}

// genuine light-client-attack evidence (equivocation at height h by the only validator)
func (f *c17EvFix) lca(h int64, tag string, round int32) *types.LightClientAttackEvidence {
	hd := f.bs.metas[h].Header // copy
	hd.DataHash = c17Hash32("other-data" + tag)
	bid := types.BlockID{Hash: hd.Hash(), PartSetHeader: types.PartSetHeader{Total: 1, Hash: c17Hash32("cps" + tag)}}
	return &types.LightClientAttackEvidence{
		ConflictingBlock: &types.LightBlock{
			SignedHeader: &types.SignedHeader{Header: &hd, Commit: c17EvCommit(f.pv, h, round, bid, hd.Time)},
			ValidatorSet: f.vals.Copy()},
		CommonHeight: h, ByzantineValidators: []*types.Validator{f.val.Copy()}, TotalVotingPower: 10,
		Timestamp: f.bs.metas[h].Header.Time}
}

func c17EvPB(ev types.Evidence) tmproto.Evidence {
	p, err := types.EvidenceToProto(ev)
	if err != nil {
		panic(err)
	}
	return *p
}

func c17EvEncode(l *tmproto.EvidenceList) []byte {
	b, err := proto.Marshal(l)
	if err != nil {
		panic(err)
	}
	return b
}

type c17EvEnv struct {
	evR  *Reactor
	pool *Pool
	sw   *p2p.Switch
	bg   *c17BG
}

func c17NewEvEnv() *c17EvEnv {
	f := c17EvFixture()
	pool, err := NewPool(dbm.NewMemDB(), f.ss, f.bs)
	if err != nil {
		panic(err)
	}
	evR := NewReactor(pool)
	evR.SetLogger(log.NewNopLogger())
	nk := p2p.NodeKey{PrivKey: ed25519.GenPrivKey()}
	tr := p2p.NewMultiplexTransport(p2p.DefaultNodeInfo{DefaultNodeID: nk.ID()}, nk, conn.DefaultMConnConfig())
	sw := p2p.NewSwitch(cfg.DefaultP2PConfig(), tr)
	sw.SetLogger(log.NewNopLogger())
	sw.AddReactor("EVIDENCE", evR)
	if err := evR.Start(); err != nil {
		panic(err)
	}
	return &c17EvEnv{evR: evR, pool: pool, sw: sw, bg: &c17BG{}}
}

func (e *c17EvEnv) addPeer(p *c17Peer, h int64) {
	if h > 0 {
		p.Set(types.PeerStateKey, c17EvPeerState{h})
	}
	_ = e.sw.Peers().(*p2p.PeerSet).Add(p)
	e.evR.InitPeer(p)
	// what AddPeer does, under recover
	e.bg.Go("broadcastEvidenceRoutine", func() { e.evR.broadcastEvidenceRoutine(p) })
}

func (e *c17EvEnv) close() {
	e.evR.Stop() //nolint:errcheck
	for _, p := range e.sw.Peers().List() {
		p.Stop() //nolint:errcheck
	}
}

func c17EvGen(k int, r *vg.Rand) c17Input {
	f := c17EvFixture()
	in := c17Input{chID: EvidenceChannel, state: r.Intn(3)}
	tag := fmt.Sprintf("-%d-%x", k, r.Bytes(3))
	hgt := int64(1 + r.Intn(11))
	tm := func(h int64) time.Time { return c17EvBase.Add(time.Duration(h) * time.Minute) }
	hostile := func(name string, l *tmproto.EvidenceList) {
		in.kind, in.kindName, in.data = 2, "hostile:"+name, c17EvEncode(l)
		in.msg = "&EvidenceList{" + c17Trunc(proto.CompactTextString(l), 1200) + "}"
	}
	one := func(e tmproto.Evidence) *tmproto.EvidenceList {
		return &tmproto.EvidenceList{Evidence: []tmproto.Evidence{e}}
	}
	dvePB := func(mod func(d *tmproto.DuplicateVoteEvidence)) *tmproto.EvidenceList {
		e := c17EvPB(f.dve(f.pv, hgt, tm(hgt), "A"+tag, "B"+tag))
		mod(e.Sum.(*tmproto.Evidence_DuplicateVoteEvidence).DuplicateVoteEvidence)
		return one(e)
	}
	lcaPB := func(mod func(l *tmproto.LightClientAttackEvidence)) *tmproto.EvidenceList {
		e := c17EvPB(f.lca(hgt, tag, 0))
		mod(e.Sum.(*tmproto.Evidence_LightClientAttackEvidence).LightClientAttackEvidence)
		return one(e)
	}
	if k < len(c17EvDirected) {
		c17EvDirected[k](&in, hostile, dvePB, lcaPB)
		return in
	}
	switch sel := r.Intn(100); {
	case sel < 25:
		in.kind, in.kindName = 0, "random"
		in.data = c17RandomBytes(r, k, []byte{0x0a})
	case sel < 50:
		var valid []byte
		if r.Bool() {
			valid = c17EvEncode(one(c17EvPB(f.dve(f.pv, hgt, tm(hgt), "A"+tag, "B"+tag))))
		} else {
			valid = c17EvEncode(one(c17EvPB(f.lca(hgt, tag, 0))))
		}
		var how string
		in.kind, in.kindName = 1, "mutated"
		in.data, how = c17Mutate(r, valid)
		in.extra = fmt.Sprintf(" mutation=%s of valid evidence list %x", how, valid)
	default:
		switch r.Intn(30) {
		case 27, 28, 29: // finding F85: decodable evidence whose decoder used to panic
			c17EvF85[r.Intn(len(c17EvF85))](&in, hostile, dvePB, lcaPB)
		case 0:
			hostile("empty-list", &tmproto.EvidenceList{})
		case 1:
			hostile("empty-entry", one(tmproto.Evidence{}))
		case 2:
			hostile("dve-valid", dvePB(func(d *tmproto.DuplicateVoteEvidence) {}))
		case 3:
			hostile("dve-wrong-time", dvePB(func(d *tmproto.DuplicateVoteEvidence) { d.Timestamp = d.Timestamp.Add(time.Second) }))
		case 4:
			hostile("dve-unknown-validator", one(c17EvPB(f.dve(f.other, hgt, tm(hgt), "A"+tag, "B"+tag))))
		case 5:
			h := c17EvTop + 1 + int64(r.Intn(5))
			hostile("dve-future-height", one(c17EvPB(f.dve(f.pv, h, tm(h), "A"+tag, "B"+tag))))
		case 6:
			hostile("dve-height-maxint64", one(c17EvPB(f.dve(f.pv, math.MaxInt64, tm(1), "A"+tag, "B"+tag))))
		case 7:
			hostile("dve-height-0", one(c17EvPB(f.dve(f.pv, 0, tm(0), "A"+tag, "B"+tag))))
		case 8:
			hostile("dve-height-negative", one(c17EvPB(f.dve(f.pv, -int64(1+r.Intn(5)), tm(1), "A"+tag, "B"+tag))))
		case 9:
			hostile("dve-same-blockid", dvePB(func(d *tmproto.DuplicateVoteEvidence) { d.VoteB = d.VoteA }))
		case 10:
			hostile("dve-bad-signature", dvePB(func(d *tmproto.DuplicateVoteEvidence) { d.VoteB.Signature[r.Intn(64)] ^= 0x40 }))
		case 11:
			hostile("dve-wrong-power", dvePB(func(d *tmproto.DuplicateVoteEvidence) {
				d.ValidatorPower = []int64{0, -1, math.MaxInt64, 11}[r.Intn(4)]
				d.TotalVotingPower = []int64{0, -1, math.MaxInt64, 10}[r.Intn(4)]
			}))
		case 12:
			hostile("dve-nil-vote", dvePB(func(d *tmproto.DuplicateVoteEvidence) {
				if r.Bool() {
					d.VoteA = nil
				} else {
					d.VoteB = nil
				}
			}))
		case 13:
			hostile("dve-votes-swapped", dvePB(func(d *tmproto.DuplicateVoteEvidence) { d.VoteA, d.VoteB = d.VoteB, d.VoteA }))
		case 14:
			hostile("dve-vote-fields", dvePB(func(d *tmproto.DuplicateVoteEvidence) {
				switch r.Intn(5) {
				case 0:
					d.VoteA.ValidatorIndex = []int32{-1, math.MaxInt32, 7}[r.Intn(3)]
				case 1:
					d.VoteA.Round = []int32{-1, math.MaxInt32}[r.Intn(2)]
				case 2:
					d.VoteA.Type = tmproto.SignedMsgType(r.Intn(40))
				case 3:
					d.VoteA.ValidatorAddress = r.Bytes(r.Intn(40))
				default:
					d.VoteB.BlockID.PartSetHeader.Total = math.MaxUint32
				}
			}))
		case 15: // the same valid evidence many times in one list
			e := c17EvPB(f.dve(f.pv, hgt, tm(hgt), "A"+tag, "B"+tag))
			l := &tmproto.EvidenceList{}
			for i := 0; i < 800; i++ {
				l.Evidence = append(l.Evidence, e)
			}
			hostile("dve-repeated-800", l)
		case 16: // many distinct valid ones
			l := &tmproto.EvidenceList{}
			for i := 0; i < 60; i++ {
				h := int64(1 + i%11)
				l.Evidence = append(l.Evidence, c17EvPB(f.dve(f.pv, h, tm(h), fmt.Sprint("A", i, tag), fmt.Sprint("B", i, tag))))
			}
			hostile("dve-60-distinct-valid", l)
		case 17:
			hostile("lca-valid", lcaPB(func(l *tmproto.LightClientAttackEvidence) {}))
		case 18:
			hostile("lca-nil-parts", lcaPB(func(l *tmproto.LightClientAttackEvidence) {
				switch r.Intn(5) {
				case 0:
					l.ConflictingBlock = nil
				case 1:
					l.ConflictingBlock.SignedHeader = nil
				case 2:
					l.ConflictingBlock.SignedHeader.Header = nil
				case 3:
					l.ConflictingBlock.SignedHeader.Commit = nil
				default:
					l.ConflictingBlock.ValidatorSet = nil
				}
			}))
		case 19:
			hostile("lca-common-height", lcaPB(func(l *tmproto.LightClientAttackEvidence) {
				l.CommonHeight = []int64{0, -1, math.MaxInt64, hgt - 1, hgt + 1, c17EvTop + 3}[r.Intn(6)]
			}))
		case 20: // for-block signature whose (unsigned) ValidatorAddress names nobody
			hostile("lca-garbage-valaddr", lcaPB(func(l *tmproto.LightClientAttackEvidence) {
				l.ConflictingBlock.SignedHeader.Commit.Signatures[0].ValidatorAddress = r.Bytes(20)
			}))
		case 21:
			hostile("lca-wrong-power", lcaPB(func(l *tmproto.LightClientAttackEvidence) {
				l.TotalVotingPower = []int64{0, -5, math.MaxInt64, 11}[r.Intn(4)]
			}))
		case 22:
			hostile("lca-byzantine-list", lcaPB(func(l *tmproto.LightClientAttackEvidence) {
				switch r.Intn(4) {
				case 0:
					l.ByzantineValidators = nil
				case 1: // (a nil entry cannot be encoded) an entry without a key
					l.ByzantineValidators = append(l.ByzantineValidators, &tmproto.Validator{Address: r.Bytes(20), VotingPower: 1})
				case 2:
					v := l.ByzantineValidators[0]
					for i := 0; i < 2000; i++ {
						l.ByzantineValidators = append(l.ByzantineValidators, v)
					}
				default:
					l.ByzantineValidators[0].VotingPower = math.MaxInt64
				}
			}))
		case 23: // other round: "amnesia"
			e := c17EvPB(f.lca(hgt, tag, 1))
			hostile("lca-amnesia-round1", one(e))
		case 24: // forward lunatic: conflicting block above our top
			ev := f.lca(hgt, tag, 0)
			hd := *ev.ConflictingBlock.Header
			hd.Height = c17EvTop + 5
			hd.AppHash = c17Hash32("lunatic")
			hd.Time = []time.Time{tm(1), tm(40)}[r.Intn(2)]
			bid := types.BlockID{Hash: hd.Hash(), PartSetHeader: types.PartSetHeader{Total: 1, Hash: c17Hash32("lps" + tag)}}
			ev.ConflictingBlock.SignedHeader = &types.SignedHeader{Header: &hd, Commit: c17EvCommit(f.pv, hd.Height, 0, bid, hd.Time)}
			hostile("lca-forward-lunatic", one(c17EvPB(ev)))
		case 25: // conflicting block with a big foreign validator set
			ev := f.lca(hgt, tag, 0)
			vs := make([]*types.Validator, 150)
			for i := range vs {
				vs[i] = types.NewValidator(ed25519.GenPrivKeyFromSecret([]byte(fmt.Sprint("c17big", i))).PubKey(), 1)
			}
			ev.ConflictingBlock.ValidatorSet = types.NewValidatorSet(vs)
			ev.ConflictingBlock.Header.ValidatorsHash = ev.ConflictingBlock.ValidatorSet.Hash()
			hostile("lca-big-valset", one(c17EvPB(ev)))
		default:
			in.chID = byte(r.Uint64())
			hostile("wrong-channel", dvePB(func(d *tmproto.DuplicateVoteEvidence) {}))
		}
	}
	return in
}

type c17EvDirectedFn = func(in *c17Input, hostile func(string, *tmproto.EvidenceList),
	dvePB func(func(*tmproto.DuplicateVoteEvidence)) *tmproto.EvidenceList,
	lcaPB func(func(*tmproto.LightClientAttackEvidence)) *tmproto.EvidenceList)

// finding F85: light-client-attack evidence, otherwise genuine, whose conflicting block carries a
// validator set with a total voting power above MaxTotalVotingPower (types.ValidatorSetFromProto
// used to panic in TotalVotingPower) or no signed header (ValidateBasic used to dereference nil).
// In this reactor the panic is caught by MConnection._recover (the harness records recv_panic and
// the peer is stopped); the same bytes inside a proposed block halted the consensus state machine
// (verif_c17_sm_test.go).
var c17EvF85 = []c17EvDirectedFn{
	func(in *c17Input, hostile func(string, *tmproto.EvidenceList), _ func(func(*tmproto.DuplicateVoteEvidence)) *tmproto.EvidenceList,
		lcaPB func(func(*tmproto.LightClientAttackEvidence)) *tmproto.EvidenceList) {
		hostile("lca-valset-total-above-max", lcaPB(func(l *tmproto.LightClientAttackEvidence) {
			vs := l.ConflictingBlock.ValidatorSet
			extra := *vs.Validators[0]
			extra.VotingPower = 1
			vs.Validators[0].VotingPower = types.MaxTotalVotingPower
			vs.Validators = append(vs.Validators, &extra)
		}))
	},
	func(in *c17Input, hostile func(string, *tmproto.EvidenceList), _ func(func(*tmproto.DuplicateVoteEvidence)) *tmproto.EvidenceList,
		lcaPB func(func(*tmproto.LightClientAttackEvidence)) *tmproto.EvidenceList) {
		hostile("lca-valset-power-maxint64", lcaPB(func(l *tmproto.LightClientAttackEvidence) {
			l.ConflictingBlock.ValidatorSet.Validators[0].VotingPower = math.MaxInt64
		}))
	},
	func(in *c17Input, hostile func(string, *tmproto.EvidenceList), _ func(func(*tmproto.DuplicateVoteEvidence)) *tmproto.EvidenceList,
		lcaPB func(func(*tmproto.LightClientAttackEvidence)) *tmproto.EvidenceList) {
		hostile("lca-no-signed-header", lcaPB(func(l *tmproto.LightClientAttackEvidence) { l.ConflictingBlock.SignedHeader = nil }))
	},
	func(in *c17Input, hostile func(string, *tmproto.EvidenceList), _ func(func(*tmproto.DuplicateVoteEvidence)) *tmproto.EvidenceList,
		lcaPB func(func(*tmproto.LightClientAttackEvidence)) *tmproto.EvidenceList) {
		hostile("lca-valset-negative-power", lcaPB(func(l *tmproto.LightClientAttackEvidence) {
			l.ConflictingBlock.ValidatorSet.Validators[0].VotingPower = -5
		}))
	},
}

// directed cases: finding F85
var c17EvDirected = c17EvF85

func c17EvExec(in c17Input, rec *c17Rec) {
	f := c17EvFixture()
	env := c17NewEvEnv()
	defer env.close()
	hostile := c17NewPeer(2, false)
	observer := c17NewPeer(3, true)
	honest := c17NewPeer(4, false)
	env.addPeer(observer, c17EvTop)
	env.addPeer(honest, c17EvTop)
	switch in.state {
	case 1:
		env.addPeer(hostile, c17EvTop)
	case 2:
		env.addPeer(hostile, c17EvTop)
		env.evR.RemovePeer(hostile, "removed earlier")
		_ = env.sw.Peers().(*p2p.PeerSet).Remove(hostile)
	}

	a0 := c17TotalAlloc()
	done, pan, pv := c17Timed(2*time.Second, func() { env.evR.Receive(in.chID, hostile, in.data) })
	if done {
		time.Sleep(5 * time.Millisecond)
	}
	rec.Alloc = c17TotalAlloc() - a0
	rec.Stuck = !done
	rec.RecvPanic = pan
	if pan {
		rec.Note += " recv-panic: " + c17Trunc(pv, 160)
		env.sw.StopPeerForError(hostile, pv) // what MConnection._recover -> onPeerError does
	}
	rec.Stopped = !hostile.IsRunning()
	rec.Note += fmt.Sprintf(" pool-size-after=%d", env.pool.Size())

	alive := false
	if !rec.Stuck {
		ok, ppan, ppv := c17Timed(4*time.Second, func() {
			h := int64(1 + rec.ID%11)
			ev := f.dve(f.pv, h, c17EvBase.Add(time.Duration(h)*time.Minute), fmt.Sprint("honestA", rec.ID), fmt.Sprint("honestB", rec.ID))
			env.evR.Receive(EvidenceChannel, honest, c17EvEncode(&tmproto.EvidenceList{Evidence: []tmproto.Evidence{c17EvPB(ev)}}))
			if !honest.IsRunning() {
				rec.Note += " probe: honest peer was stopped"
				return
			}
			pend, _ := env.pool.PendingEvidence(1 << 40)
			found := false
			for _, e := range pend {
				if bytes.Equal(e.Hash(), ev.Hash()) {
					found = true
				}
			}
			if !found {
				rec.Note += " probe: honest evidence not pending"
				return
			}
			for dl := time.Now().Add(3 * time.Second); time.Now().Before(dl); time.Sleep(2 * time.Millisecond) {
				for _, m := range observer.Sent() {
					if l, ok := m.(*tmproto.EvidenceList); ok {
						for i := range l.Evidence {
							if e2, err := types.EvidenceFromProto(&l.Evidence[i]); err == nil && bytes.Equal(e2.Hash(), ev.Hash()) {
								alive = true
								return
							}
						}
					}
				}
			}
			rec.Note += " probe: honest evidence not gossiped to the observer"
		})
		if !ok {
			rec.Note += " probe: timed out"
		}
		if ppan {
			rec.Note += " probe panicked: " + c17Trunc(ppv, 200)
		}
	}
	bgp, bgs := env.bg.Panicked()
	rec.BgPanic = bgp
	if bgp {
		rec.Note += " bg-panic: " + c17Trunc(bgs, 200)
	}
	rec.Alive = alive
}

func TestVerifC17ReactorEvidence(t *testing.T) {
	c17Drive(t, "TestVerifC17ReactorEvidence", "c17_reactor_evidence", 3, vg.Scale(40, 4000), c17EvGen, c17EvExec)
}

var _ = hex.EncodeToString
