//go:build verif

package conn

// C16 correspondence harness for p2p/conn/secret_connection.go (injected with `go test -overlay`).
//
// Two real SecretConnections are built by the real MakeSecretConnection over an in-memory wire
// that the test controls. In the data phase every conn.Write of the writer (= one sealed frame)
// is captured instead of forwarded; the PRNG then edits the frame sequence (flip a bit, drop,
// duplicate, reorder, splice a frame of the opposite direction or the handshake's frame,
// random block, cut inside a frame, truncate) and the reader reads the resulting byte stream
// with PRNG-chosen buffer sizes. The Coq side gets the plaintext written, which sealed frame
// every 1044-byte block of the delivered stream is (byte-for-byte table lookup; none = junk),
// and what each Read returned.

import (
	"bytes"
	"encoding/binary"
	"errors"
	"fmt"
	"io"
	"strings"
	"sync"
	"testing"
	"time"

	gogotypes "github.com/gogo/protobuf/types"
	"github.com/gtank/merlin"
	"golang.org/x/crypto/chacha20poly1305"

	"github.com/tendermint/tendermint/crypto"
	"github.com/tendermint/tendermint/crypto/ed25519"
	cryptoenc "github.com/tendermint/tendermint/crypto/encoding"
	"github.com/tendermint/tendermint/crypto/secp256k1"
	vg "github.com/tendermint/tendermint/internal/verifgen"
	"github.com/tendermint/tendermint/libs/protoio"
	tmp2p "github.com/tendermint/tendermint/proto/tendermint/p2p"
)

// ---------------------------------------------------------------- the wire

type c16Queue struct {
	mu     sync.Mutex
	cond   *sync.Cond
	buf    []byte
	writes [][]byte
	closed bool
	taken  int
	// mark >= 0: count the Read calls issued once [mark] bytes have been taken (readsPast)
	mark      int
	readsPast int
}

func newC16Queue() *c16Queue {
	q := &c16Queue{mark: -1}
	q.cond = sync.NewCond(&q.mu)
	return q
}

func (q *c16Queue) Write(p []byte) (int, error) {
	q.mu.Lock()
	defer q.mu.Unlock()
	c := append([]byte{}, p...)
	q.buf = append(q.buf, c...)
	q.writes = append(q.writes, c)
	q.cond.Broadcast()
	return len(p), nil
}

func (q *c16Queue) Read(p []byte) (int, error) {
	q.mu.Lock()
	defer q.mu.Unlock()
	if q.mark >= 0 && q.taken >= q.mark {
		q.readsPast++
	}
	for len(q.buf) == 0 && !q.closed {
		q.cond.Wait()
	}
	if len(q.buf) == 0 {
		return 0, io.EOF
	}
	n := copy(p, q.buf)
	q.buf = q.buf[n:]
	q.taken += n
	return n, nil
}

func (q *c16Queue) CloseQ() {
	q.mu.Lock()
	q.closed = true
	q.cond.Broadcast()
	q.mu.Unlock()
}

type c16Conn struct{ in, out *c16Queue }

func (c c16Conn) Read(p []byte) (int, error)  { return c.in.Read(p) }
func (c c16Conn) Write(p []byte) (int, error) { return c.out.Write(p) }
func (c c16Conn) Close() error                { c.in.CloseQ(); c.out.CloseQ(); return nil }

func c16Key(i int) crypto.PrivKey {
	return ed25519.GenPrivKeyFromSecret([]byte(fmt.Sprintf("verif-c16-key-%d", i)))
}

// c16Pair performs the real handshake on both ends.
func c16Pair() (a, b *SecretConnection, qab, qba *c16Queue, hsOK bool) {
	qab, qba = newC16Queue(), newC16Queue()
	ca, cb := c16Conn{in: qba, out: qab}, c16Conn{in: qab, out: qba}
	ka, kb := c16Key(1), c16Key(2)
	var ea, eb error
	var wg sync.WaitGroup
	wg.Add(2)
	go func() { defer wg.Done(); a, ea = MakeSecretConnection(ca, ka) }()
	go func() { defer wg.Done(); b, eb = MakeSecretConnection(cb, kb) }()
	wg.Wait()
	hsOK = ea == nil && eb == nil && a != nil && b != nil &&
		a.RemotePubKey().Equals(kb.PubKey()) && b.RemotePubKey().Equals(ka.PubKey())
	return
}

func c16Ctr(nonce *[aeadNonceSize]byte) uint64 { return binary.LittleEndian.Uint64(nonce[4:]) }
func c16Nonce(ctr uint64) []byte {
	n := make([]byte, aeadNonceSize)
	binary.LittleEndian.PutUint64(n[4:], ctr)
	return n
}

func c16Sealed(ws [][]byte) [][]byte {
	var out [][]byte
	for _, w := range ws {
		if len(w) == totalFrameSize+aeadSizeOverhead {
			out = append(out, w)
		}
	}
	return out
}

// ---------------------------------------------------------------- stream cases

var c16Sizes = []int{0, 1, 2, 5, 17, 100, 300, 1023, 1024, 1025, 2047, 2048, 2049, 3073}
var c16Caps = []int{0, 1, 2, 7, 100, 1023, 1024, 1025, 2048, 4096}

func TestVerifC16Stream(t *testing.T) {
	root := vg.NewRand(vg.Seed() ^ 0xc16)
	cs := vg.NewCases("C16", "c16_stream", "TM.C16.Exec")
	cs.Samples = []string{} // never null in the meta file (replay runs may leave a harness without cases)
	n := vg.Scale(300, 20000)
	const blk = totalFrameSize + aeadSizeOverhead
	for k := 0; k < n; k++ {
		id := cs.NextID()
		if !cs.Want(id) {
			continue
		}
		r := root.Fork(uint64(k))
		a, b, qab, qba, hsOK := c16Pair()
		if a == nil || b == nil {
			cs.Add(id, "handshake-failed", true,
				vg.App("CStream", "false", vg.Hx(nil), vg.Hx(nil), vg.Z(0), "[]", "[]", "[]", "[]", "[]"),
				"honest handshake failed")
			continue
		}
		if r.Bool() { // the other end writes
			a, b, qab, qba = b, a, qba, qab
		}
		hsAB := c16Sealed(qab.writes)
		qab.mu.Lock()
		qab.writes = nil
		leftover := len(qab.buf)
		qab.mu.Unlock()
		qba.mu.Lock()
		qba.writes = nil
		qba.mu.Unlock()

		send0 := append([]byte{}, a.sendNonce[:]...)
		recv0 := append([]byte{}, b.recvNonce[:]...)
		c0 := c16Ctr(a.sendNonce)
		buf0 := len(b.recvBuffer) + leftover

		// ---- writes
		big := r.Chance(35)
		nw := 1 + r.Intn(4)
		var writes [][]byte
		var wres []string
		total := 0
		for i := 0; i < nw; i++ {
			var sz int
			if big {
				sz = c16Sizes[r.Intn(len(c16Sizes))]
			} else {
				sz = []int{0, 1, 2, 5, 17, 40, 100}[r.Intn(7)]
			}
			if total+sz > 4200 {
				sz = r.Intn(20)
			}
			total += sz
			data := r.Bytes(sz)
			writes = append(writes, data)
			before := len(qab.writes)
			code := 0
			wn := 0
			func() {
				defer func() {
					if recover() != nil {
						code = 2
					}
				}()
				var err error
				wn, err = a.Write(data)
				if err != nil {
					code = 1
				}
			}()
			wres = append(wres, vg.Tup(vg.Z(int64(wn)), vg.Z(int64(len(qab.writes)-before)), vg.N(uint64(code))))
		}
		F := append([][]byte{}, qab.writes...)
		// frames of the opposite direction, for splicing
		bSend0 := c16Ctr(b.sendNonce)
		_, _ = b.Write(r.Bytes(1 + r.Intn(2000)))
		_, _ = b.Write(r.Bytes(1 + r.Intn(50)))
		G := append([][]byte{}, qba.writes...)

		// under which counter does the reader's AEAD open each frame?
		var fn []int64
		for _, f := range F {
			found := int64(-1)
			lo := int64(c0) - 2
			if lo < 0 {
				lo = 0
			}
			for c := lo; c <= int64(c0)+int64(len(F))+2; c++ {
				if _, err := b.recvAead.Open(nil, c16Nonce(uint64(c)), f, nil); err == nil {
					found = c
					break
				}
			}
			fn = append(fn, found)
		}

		// ---- the adversary
		blocks := append([][]byte{}, F...)
		custom := map[string]string{}
		var edits []string
		ne := 0
		switch x := r.Intn(10); {
		case x < 3:
			ne = 0
		case x < 8:
			ne = 1
		default:
			ne = 2
		}
		byteCut, byteCutLen, truncAt := -1, 0, -1
		insBytes := -1
		for e := 0; e < ne; e++ {
			m := len(blocks)
			kind := r.Intn(14)
			if m == 0 && kind != 6 && kind != 7 && kind != 12 && kind != 13 {
				kind = 6
			}
			switch kind {
			case 0:
				i := r.Intn(m)
				c := append([]byte{}, blocks[i]...)
				bit := r.Intn(len(c) * 8)
				c[bit/8] ^= 1 << uint(bit%8)
				blocks[i] = c
				edits = append(edits, fmt.Sprintf("flip bit %d of block %d", bit, i))
			case 1:
				i := r.Intn(m)
				blocks = append(blocks[:i:i], blocks[i+1:]...)
				edits = append(edits, fmt.Sprintf("drop block %d", i))
			case 2:
				i := r.Intn(m)
				j := i + 1 + r.Intn(m-i)
				nb := append([][]byte{}, blocks[:j]...)
				nb = append(nb, blocks[i])
				blocks = append(nb, blocks[j:]...)
				edits = append(edits, fmt.Sprintf("duplicate block %d before position %d", i, j))
			case 3:
				if m >= 2 {
					i := r.Intn(m - 1)
					blocks[i], blocks[i+1] = blocks[i+1], blocks[i]
					edits = append(edits, fmt.Sprintf("swap blocks %d,%d", i, i+1))
				} else {
					blocks = append(blocks, blocks[0])
					edits = append(edits, "replay block 0 at the end")
				}
			case 4:
				i := r.Intn(m)
				j := i
				if j >= len(G) {
					j = r.Intn(len(G))
				}
				blocks[i] = G[j]
				edits = append(edits, fmt.Sprintf("replace block %d by frame %d of the opposite direction", i, j))
			case 5:
				i := r.Intn(m)
				blocks[i] = r.Bytes(blk)
				edits = append(edits, fmt.Sprintf("replace block %d by random bytes", i))
			case 6:
				i := r.Intn(m + 1)
				nb := append([][]byte{}, blocks[:i]...)
				nb = append(nb, r.Bytes(blk))
				blocks = append(nb, blocks[i:]...)
				edits = append(edits, fmt.Sprintf("insert random block at %d", i))
			case 7:
				i := r.Intn(m + 1)
				if len(hsAB) > 0 {
					nb := append([][]byte{}, blocks[:i]...)
					nb = append(nb, hsAB[0])
					blocks = append(nb, blocks[i:]...)
					edits = append(edits, fmt.Sprintf("insert the handshake's AuthSig frame at %d", i))
				}
			case 8:
				truncAt = r.Intn(m)*blk + 1 + r.Intn(blk-1)
				edits = append(edits, fmt.Sprintf("truncate the stream at byte %d", truncAt))
			case 9:
				byteCut = r.Intn(m)*blk + r.Intn(blk)
				byteCutLen = 1 + r.Intn(blk-1)
				edits = append(edits, fmt.Sprintf("remove %d bytes at byte %d", byteCutLen, byteCut))
			case 10:
				i := r.Intn(m)
				blocks[i] = make([]byte, blk)
				edits = append(edits, fmt.Sprintf("zero block %d", i))
			case 11:
				i := r.Intn(m)
				j := r.Intn(m)
				blocks[i] = blocks[j]
				edits = append(edits, fmt.Sprintf("overwrite block %d with block %d", i, j))
			case 13:
				// after the writer's frames: a validly sealed frame (the writer's own AEAD, the
				// next unused counter) whose length header exceeds dataMaxSize. (Sealing under a
				// counter Write has used would be the key holder re-using a nonce, which is
				// outside the property.)
				i := m
				hdr := []uint32{dataMaxSize + 1, 2000, 65536, 0xffffffff}[r.Intn(4)]
				plain := make([]byte, totalFrameSize)
				binary.LittleEndian.PutUint32(plain, hdr)
				ctr := c0 + uint64(len(F))
				f := a.sendAead.Seal(nil, c16Nonce(ctr), plain, nil)
				custom[string(f)] = vg.App("EF", vg.N(ctr), vg.N(uint64(hdr)))
				nb := append([][]byte{}, blocks[:i]...)
				nb = append(nb, f)
				blocks = append(nb, blocks[i:]...)
				edits = append(edits, fmt.Sprintf("insert at %d a frame sealed with the writer's key under counter %d with length header %d", i, ctr, hdr))
			case 12:
				insBytes = r.Intn(m*blk + 1)
				edits = append(edits, fmt.Sprintf("insert 3 bytes at byte %d", insBytes))
			}
		}
		stream := bytes.Join(blocks, nil)
		if insBytes >= 0 && insBytes <= len(stream) {
			stream = append(append(append([]byte{}, stream[:insBytes]...), 0xaa, 0xbb, 0xcc), stream[insBytes:]...)
		}
		if byteCut >= 0 && byteCut < len(stream) {
			end := byteCut + byteCutLen
			if end > len(stream) {
				end = len(stream)
			}
			stream = append(append([]byte{}, stream[:byteCut]...), stream[end:]...)
		}
		if truncAt >= 0 && truncAt < len(stream) {
			stream = stream[:truncAt]
		}

		// what each block of the delivered stream is
		table := map[string]string{}
		for i, f := range F {
			table[string(f)] = vg.App("EG", vg.Nat(i))
		}
		for f, s := range custom {
			table[f] = s
		}
		for j, g := range G {
			if _, ok := table[string(g)]; !ok {
				table[string(g)] = vg.App("EO", vg.N(1), vg.N(bSend0+uint64(j)))
			}
		}
		for j, h := range hsAB {
			if _, ok := table[string(h)]; !ok {
				table[string(h)] = vg.App("EO", vg.N(0), vg.N(uint64(j)))
			}
		}
		var evs []string
		for off := 0; off < len(stream); off += blk {
			if off+blk <= len(stream) {
				if s, ok := table[string(stream[off:off+blk])]; ok {
					evs = append(evs, s)
				} else {
					evs = append(evs, "EJ")
				}
			} else {
				evs = append(evs, vg.App("EE", vg.Z(int64(len(stream)-off))))
			}
		}

		// ---- deliver and read
		qab.mu.Lock()
		qab.buf = append([]byte{}, stream...)
		qab.closed = true
		qab.taken = 0
		qab.mu.Unlock()

		capMode := r.Intn(4)
		fixed := c16Caps[1+r.Intn(len(c16Caps)-1)]
		if total > 300 && fixed < 100 && capMode == 0 {
			fixed = 1024
		}
		var reads []string
		nerr, got := 0, 0
		for i := 0; i < 70 && nerr < 3; i++ {
			cp := fixed
			if capMode != 0 {
				cp = c16Caps[r.Intn(len(c16Caps))]
				if total > 300 && cp < 100 && r.Chance(70) {
					cp = 1024 + r.Intn(3) - 1
				}
			}
			buf := make([]byte, cp)
			before := c16Ctr(b.recvNonce)
			code := 0
			rn := 0
			func() {
				defer func() {
					if recover() != nil {
						code = 4
					}
				}()
				var err error
				rn, err = b.Read(buf)
				switch {
				case err == nil:
				case errors.Is(err, io.EOF) || errors.Is(err, io.ErrUnexpectedEOF):
					code = 1
				case c16Ctr(b.recvNonce) == before:
					code = 2 // nonce did not move: the frame was not opened
				default:
					code = 3 // frame opened, then refused
				}
			}()
			if code != 0 {
				nerr++
			}
			if rn < 0 || rn > cp {
				rn = 0
			}
			got += rn
			qab.mu.Lock()
			pos := qab.taken
			qab.mu.Unlock()
			reads = append(reads, vg.Tup(vg.Z(int64(cp)), vg.Z(int64(rn)), vg.N(uint64(code)), vg.Hx(buf[:rn]), vg.Z(int64(pos))))
		}

		kind := "untouched"
		if len(edits) > 0 {
			kind = strings.Fields(edits[0])[0]
			if len(edits) > 1 {
				kind += "+" + strings.Fields(edits[1])[0]
			}
		}
		term := vg.App("CStream", vg.B(hsOK), vg.Hx(send0), vg.Hx(recv0), vg.Z(int64(buf0)),
			vg.HxL(writes), vg.L(wres), vg.ZL(fn), vg.L(evs), vg.L(reads))
		var wl []string
		for _, w := range writes {
			wl = append(wl, fmt.Sprint(len(w)))
		}
		descr := fmt.Sprintf("handshake, then Write sizes [%s] (random bytes, case PRNG fork %d); %d frames; edits: %v; delivered blocks %v; %d Reads returned %d bytes, %d errors",
			strings.Join(wl, ","), k, len(F), edits, evs, len(reads), got, nerr)
		cs.Add(id, kind, len(edits) > 0 || len(F) >= 2, term, descr)
	}
	if err := cs.Write(); err != nil {
		t.Fatal(err)
	}
}

// ---------------------------------------------------------------- incrNonce and frame layout

func TestVerifC16Nonce(t *testing.T) {
	root := vg.NewRand(vg.Seed() ^ 0xc16a)
	cs := vg.NewCases("C16", "c16_nonce", "TM.C16.Exec")
	cs.Samples = []string{} // never null in the meta file (replay runs may leave a harness without cases)
	ctrs := []uint64{0, 1, 254, 255, 256, 65535, 65536, 1<<32 - 1, 1 << 32, 1<<56 - 1, 1<<63 - 1, 1 << 63,
		^uint64(0) - 256, ^uint64(0) - 1, ^uint64(0)}
	n := len(ctrs) + vg.Scale(15, 500)
	for k := 0; k < n; k++ {
		id := cs.NextID()
		if !cs.Want(id) {
			continue
		}
		r := root.Fork(uint64(k))
		var nonce [aeadNonceSize]byte
		var c uint64
		if k < len(ctrs) {
			c = ctrs[k]
		} else {
			c = r.Uint64()
			if r.Chance(30) {
				c |= 0xff << (8 * uint(r.Intn(8)))
			}
		}
		binary.LittleEndian.PutUint64(nonce[4:], c)
		if r.Chance(40) {
			copy(nonce[:4], r.Bytes(4))
		}
		in := append([]byte{}, nonce[:]...)
		panicked := false
		func() {
			defer func() {
				if recover() != nil {
					panicked = true
				}
			}()
			incrNonce(&nonce)
		}()
		cs.Add(id, "incr", true, vg.App("CIncr", vg.Hx(in), vg.Opt(!panicked, vg.Hx(nonce[:]))),
			fmt.Sprintf("incrNonce(%x) -> %x panic=%v", in, nonce, panicked))
	}
	// frame layout: decrypt what Write sealed
	for _, sz := range []int{1, 5, 1023, 1024, 1025, 2050} {
		id := cs.NextID()
		if !cs.Want(id) {
			continue
		}
		r := root.Fork(uint64(1000 + sz))
		a, b, qab, _, _ := c16Pair()
		if a == nil || b == nil {
			continue // reported by the stream harness (clause 8)
		}
		qab.mu.Lock()
		qab.writes = nil
		qab.mu.Unlock()
		send0 := append([]byte{}, a.sendNonce[:]...)
		c0 := c16Ctr(a.sendNonce)
		data := r.Bytes(sz)
		_, _ = a.Write(data)
		var fr []string
		for i, f := range qab.writes {
			plain, err := b.recvAead.Open(nil, c16Nonce(c0+uint64(i)), f, nil)
			pre := []byte{}
			if err == nil && len(plain) >= 4 {
				l := int(binary.LittleEndian.Uint32(plain))
				if 4+l <= len(plain) {
					pre = plain[:4+l]
				} else {
					pre = plain
				}
			}
			fr = append(fr, vg.Tup(vg.Z(int64(len(f))), vg.Z(int64(len(plain))), vg.Hx(pre)))
		}
		cs.Add(id, "frame-layout", true, vg.App("CFrame", vg.Hx(send0), vg.Hx(data), vg.L(fr)),
			fmt.Sprintf("Write of %d bytes, frames decrypted with the reader's key", sz))
	}
	if err := cs.Write(); err != nil {
		t.Fatal(err)
	}
}

// ---------------------------------------------------------------- handshake substitutions

var c16LowOrder = [][]byte{
	{0x00, 0x00, 0x00, 0x00, 0x00, 0x00, 0x00, 0x00, 0x00, 0x00, 0x00, 0x00, 0x00, 0x00, 0x00, 0x00, 0x00, 0x00, 0x00, 0x00, 0x00, 0x00, 0x00, 0x00, 0x00, 0x00, 0x00, 0x00, 0x00, 0x00, 0x00, 0x00},
	{0x01, 0x00, 0x00, 0x00, 0x00, 0x00, 0x00, 0x00, 0x00, 0x00, 0x00, 0x00, 0x00, 0x00, 0x00, 0x00, 0x00, 0x00, 0x00, 0x00, 0x00, 0x00, 0x00, 0x00, 0x00, 0x00, 0x00, 0x00, 0x00, 0x00, 0x00, 0x00},
	{0xe0, 0xeb, 0x7a, 0x7c, 0x3b, 0x41, 0xb8, 0xae, 0x16, 0x56, 0xe3, 0xfa, 0xf1, 0x9f, 0xc4, 0x6a, 0xda, 0x09, 0x8d, 0xeb, 0x9c, 0x32, 0xb1, 0xfd, 0x86, 0x62, 0x05, 0x16, 0x5f, 0x49, 0xb8, 0x00},
	{0x5f, 0x9c, 0x95, 0xbc, 0xa3, 0x50, 0x8c, 0x24, 0xb1, 0xd0, 0xb1, 0x55, 0x9c, 0x83, 0xef, 0x5b, 0x04, 0x44, 0x5c, 0xc4, 0x58, 0x1c, 0x8e, 0x86, 0xd8, 0x22, 0x4e, 0xdd, 0xd0, 0x9f, 0x11, 0x57},
	{0xec, 0xff, 0xff, 0xff, 0xff, 0xff, 0xff, 0xff, 0xff, 0xff, 0xff, 0xff, 0xff, 0xff, 0xff, 0xff, 0xff, 0xff, 0xff, 0xff, 0xff, 0xff, 0xff, 0xff, 0xff, 0xff, 0xff, 0xff, 0xff, 0xff, 0xff, 0x7f},
	{0xed, 0xff, 0xff, 0xff, 0xff, 0xff, 0xff, 0xff, 0xff, 0xff, 0xff, 0xff, 0xff, 0xff, 0xff, 0xff, 0xff, 0xff, 0xff, 0xff, 0xff, 0xff, 0xff, 0xff, 0xff, 0xff, 0xff, 0xff, 0xff, 0xff, 0xff, 0x7f},
	{0xee, 0xff, 0xff, 0xff, 0xff, 0xff, 0xff, 0xff, 0xff, 0xff, 0xff, 0xff, 0xff, 0xff, 0xff, 0xff, 0xff, 0xff, 0xff, 0xff, 0xff, 0xff, 0xff, 0xff, 0xff, 0xff, 0xff, 0xff, 0xff, 0xff, 0xff, 0x7f},
}

// c16Session is the scripted peer's own computation of the session (as MakeSecretConnection
// does it), for its ephemeral key pair and the ephemeral key it received.
func c16Session(conn io.ReadWriteCloser, locPub, locPriv, remPub *[32]byte) (sc *SecretConnection, challenge [32]byte, err error) {
	dh, err := computeDHSecret(remPub, locPriv)
	if err != nil {
		return nil, challenge, err
	}
	return c16SessionDH(conn, locPub, remPub, dh)
}

// c16SessionDH: the session of a party that sent locPub, received remPub and takes dh for the
// shared secret (an attacker who sent a low-order point knows it without any private key: zero).
func c16SessionDH(conn io.ReadWriteCloser, locPub, remPub, dh *[32]byte) (sc *SecretConnection, challenge [32]byte, err error) {
	lo, hi := sort32(locPub, remPub)
	tr := merlin.NewTranscript("TENDERMINT_SECRET_CONNECTION_TRANSCRIPT_HASH")
	tr.AppendMessage(labelEphemeralLowerPublicKey, lo[:])
	tr.AppendMessage(labelEphemeralUpperPublicKey, hi[:])
	locIsLeast := bytes.Equal(locPub[:], lo[:])
	tr.AppendMessage(labelDHSecret, dh[:])
	recvSecret, sendSecret := deriveSecrets(dh, locIsLeast)
	copy(challenge[:], tr.ExtractBytes(labelSecretConnectionMac, 32))
	sendAead, _ := chacha20poly1305.New(sendSecret[:])
	recvAead, _ := chacha20poly1305.New(recvSecret[:])
	sc = &SecretConnection{conn: conn, recvNonce: new([aeadNonceSize]byte), sendNonce: new([aeadNonceSize]byte),
		recvAead: recvAead, sendAead: sendAead}
	return sc, challenge, nil
}

type c16Sink struct{ frames [][]byte }

func (s *c16Sink) Read(p []byte) (int, error) { return 0, io.EOF }
func (s *c16Sink) Write(p []byte) (int, error) {
	s.frames = append(s.frames, append([]byte{}, p...))
	return len(p), nil
}
func (s *c16Sink) Close() error { return nil }

func TestVerifC16Handshake(t *testing.T) {
	root := vg.NewRand(vg.Seed() ^ 0xc16b)
	cs := vg.NewCases("C16", "c16_handshake", "TM.C16.Exec")
	cs.Samples = []string{} // never null in the meta file (replay runs may leave a harness without cases)
	// directed grid first: every eph kind with a genuine AuthSig, every auth kind with a genuine eph
	type hk struct {
		eph, ephlen, auth int
	}
	var grid []hk
	for e := 0; e <= 6; e++ {
		grid = append(grid, hk{e, 16, 0})
	}
	// every low-order point with an attacker who goes on over the all-zero secret
	for i := range c16LowOrder {
		grid = append(grid, hk{6, 100 + i, 0})
	}
	for _, l := range []int{0, 31, 32, 40} {
		grid = append(grid, hk{3, l, 0})
	}
	for a := 1; a <= 17; a++ {
		grid = append(grid, hk{0, 32, a})
	}
	n := len(grid) + vg.Scale(40, 3000)
	victimKey, peerKey, thirdKey := c16Key(11), c16Key(12), c16Key(13)
	for k := 0; k < n; k++ {
		id := cs.NextID()
		if !cs.Want(id) {
			continue
		}
		r := root.Fork(uint64(k))
		var h hk
		if k < len(grid) {
			h = grid[k]
		} else {
			h = hk{0, []int{0, 16, 31, 32, 40}[r.Intn(5)], 0}
			if r.Chance(50) {
				h.eph = r.Intn(7)
			}
			if r.Chance(70) {
				h.auth = r.Intn(18)
			}
		}
		qvp, qpv := newC16Queue(), newC16Queue() // victim->peer, peer->victim
		vconn := c16Conn{in: qpv, out: qvp}
		pconn := c16Conn{in: qvp, out: qpv}
		type res struct {
			sc  *SecretConnection
			err error
		}
		done := make(chan res, 1)
		go func() {
			defer func() {
				if x := recover(); x != nil {
					done <- res{nil, fmt.Errorf("panic: %v", x)}
				}
			}()
			sc, err := MakeSecretConnection(vconn, victimKey)
			done <- res{sc, err}
		}()

		// ---- the scripted peer
		var vEphMsg gogotypes.BytesValue
		_, err := protoio.NewDelimitedReader(pconn, 1024*1024).ReadMsg(&vEphMsg)
		if err != nil {
			t.Fatalf("victim did not send its ephemeral key: %v", err)
		}
		var vEph [32]byte
		copy(vEph[:], vEphMsg.Value)
		var pPub, pPriv *[32]byte
		for {
			pPub, pPriv = genEphKeys()
			if pPub[31] != 0 && !bytes.Equal(pPub[16:], make([]byte, 16)) {
				break
			}
		}
		what := ""
		var zeroPoint *[32]byte
		sendEph := func(v []byte) {
			bz, _ := protoio.MarshalDelimited(&gogotypes.BytesValue{Value: v})
			qpv.mu.Lock()
			qpv.mark = len(bz)
			qpv.mu.Unlock()
			_, _ = pconn.Write(bz)
		}
		switch h.eph {
		case 0:
			sendEph(pPub[:])
			what = "peer sends its ephemeral key"
		case 1:
			i := r.Intn(len(c16LowOrder))
			sendEph(c16LowOrder[i])
			what = fmt.Sprintf("peer sends low-order point %x", c16LowOrder[i])
		case 2:
			o, _ := genEphKeys()
			sendEph(o[:])
			what = "peer sends an ephemeral key it does not use"
		case 3:
			v := append([]byte{}, pPub[:]...)
			if h.ephlen <= 32 {
				v = v[:h.ephlen]
			} else {
				v = append(v, r.Bytes(h.ephlen-32)...)
			}
			sendEph(v)
			what = fmt.Sprintf("peer sends its ephemeral key as a %d-byte value", h.ephlen)
		case 6:
			i := r.Intn(len(c16LowOrder))
			if h.ephlen >= 100 && h.ephlen-100 < len(c16LowOrder) {
				i = h.ephlen - 100
			}
			zeroPoint = &[32]byte{}
			copy(zeroPoint[:], c16LowOrder[i])
			sendEph(c16LowOrder[i])
			what = fmt.Sprintf("peer sends low-order point %x and goes on with the all-zero shared secret (keys, challenge and its own signature derived from it)", c16LowOrder[i])
		case 4:
			what = "peer closes instead of sending an ephemeral key"
		case 5:
			_, _ = pconn.Write([]byte{0x05, 0xff, 0xff, 0xff, 0xff, 0xff})
			what = "peer sends bytes that are not a BytesValue"
		}
		claimed := peerKey.PubKey()
		if h.eph != 4 && h.eph != 5 {
			psc, chal, err := c16Session(pconn, pPub, pPriv, &vEph)
			if zeroPoint != nil {
				psc, chal, err = c16SessionDH(pconn, zeroPoint, &vEph, &[32]byte{})
			}
			if err == nil {
				// another session of the same peer (other remote ephemeral key)
				oPub, _ := genEphKeys()
				sink := &c16Sink{}
				osc, ochal, _ := c16Session(sink, pPub, pPriv, oPub)
				var pk crypto.PubKey = peerKey.PubKey()
				sig, _ := peerKey.Sign(chal[:])
				sealGarbage, flipFrame, spliced, nothing := false, false, false, false
				switch h.auth {
				case 0:
					what += "; genuine AuthSig"
				case 1:
					sig, _ = peerKey.Sign(ochal[:])
					what += "; AuthSig with the peer's signature over the challenge of another session"
				case 2:
					pk = thirdKey.PubKey()
					claimed = pk
					what += "; AuthSig claims a third party's key, signed by the peer"
				case 3:
					sk := secp256k1.GenPrivKeySecp256k1([]byte("verif-c16"))
					pk = sk.PubKey()
					claimed = pk
					sig, _ = sk.Sign(chal[:])
					what += "; AuthSig with a secp256k1 key and a valid secp256k1 signature"
				case 4:
					bit := r.Intn(len(sig) * 8)
					sig[bit/8] ^= 1 << uint(bit%8)
					what += fmt.Sprintf("; AuthSig signature bit %d flipped", bit)
				case 5:
					flipFrame = true
					what += "; sealed AuthSig frame edited in transit"
				case 6:
					nothing = true
					what += "; no AuthSig"
				case 7:
					sealGarbage = true
					what += "; sealed frame holding garbage"
				case 8:
					spliced = true
					what += "; AuthSig sealed under the keys of another session"
				case 9:
					pk = victimKey.PubKey()
					claimed = pk
					what += "; AuthSig claims the victim's own key, signed by the peer"
				case 10, 11, 12, 13, 14, 15, 16, 17:
					// a well-formed AuthSig with a genuine key and a malformed signature
					who := "the peer's own key"
					if h.auth < 14 {
						pk = thirdKey.PubKey()
						claimed = pk
						who = "a third party's key"
					}
					switch (h.auth - 10) % 4 {
					case 0:
						sig = nil
						what += "; AuthSig with " + who + " and an EMPTY signature"
					case 1:
						sig = sig[:63]
						what += "; AuthSig with " + who + " and the peer's signature cut to 63 bytes"
					case 2:
						sig = append(sig, 0)
						what += "; AuthSig with " + who + " and the peer's signature extended to 65 bytes"
					case 3:
						sig = make([]byte, 64)
						what += "; AuthSig with " + who + " and an all-zero 64-byte signature"
					}
				}
				if !nothing {
					pbpk, _ := cryptoenc.PubKeyToProto(pk)
					bz, _ := protoio.MarshalDelimited(&tmp2p.AuthSigMessage{PubKey: pbpk, Sig: sig})
					if sealGarbage {
						bz = append([]byte{0x7f}, r.Bytes(40)...)
					}
					switch {
					case spliced:
						_, _ = osc.Write(bz)
						for _, f := range sink.frames {
							_, _ = pconn.Write(f)
						}
					case flipFrame:
						sink2 := &c16Sink{}
						psc.conn = sink2
						_, _ = psc.Write(bz)
						for _, f := range sink2.frames {
							bit := r.Intn(len(f) * 8)
							f[bit/8] ^= 1 << uint(bit%8)
							_, _ = pconn.Write(f)
						}
					default:
						_, _ = psc.Write(bz)
					}
				}
			} else {
				what += "; (peer cannot compute a session: " + err.Error() + ")"
			}
		}
		qpv.CloseQ()

		var rr res
		select {
		case rr = <-done:
		case <-time.After(20 * time.Second):
			t.Fatalf("handshake hangs: %s", what)
		}
		code := 0
		remIsClaimed := false
		if rr.err != nil || rr.sc == nil {
			// 2: the victim got as far as reading the AuthSig message (it issued a Read after
			// having consumed a well-formed ephemeral-key message); 1: it failed before
			code = 1
			qpv.mu.Lock()
			if qpv.readsPast > 0 {
				code = 2
			}
			qpv.mu.Unlock()
		} else {
			remIsClaimed = rr.sc.RemotePubKey() != nil && rr.sc.RemotePubKey().Equals(claimed)
		}
		cs.Add(id, fmt.Sprintf("eph%d-auth%d", h.eph, h.auth), h.eph != 0 || h.auth != 0,
			vg.App("CHandshake", vg.N(uint64(h.eph)), vg.Z(int64(h.ephlen)), vg.N(uint64(h.auth)), vg.N(uint64(code)), vg.B(remIsClaimed)),
			fmt.Sprintf("MakeSecretConnection against a scripted peer: %s -> result class %d (err=%v)", what, code, rr.err))
	}
	if err := cs.Write(); err != nil {
		t.Fatal(err)
	}
}
