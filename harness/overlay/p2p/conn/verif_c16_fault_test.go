//go:build verif

package conn

// C16 correspondence harness, transport faults (injected with `go test -overlay`).
//
// Two real SecretConnections are built by the real MakeSecretConnection; under each sits a
// tap (c16Tap) that is transparent during the handshake. In the data phase the writer's tap
// follows a script: the k-th sc.conn.Write succeeds, or returns an error (write-deadline
// timeout, temporary error, broken pipe, ...) after having passed on nothing, a part or all of
// the sealed frame - and the caller goes on calling Write on the same SecretConnection. Every
// buffer handed to conn.Write and the bytes of it that reached the wire are recorded. The
// bytes that reached the wire are then served to the reader through its tap with short reads
// and injected read errors at byte offsets (at frame boundaries, inside frames, at the end),
// after which the reader keeps reading.
//
// Nonce use is observed from outside: every buffer handed to conn.Write is probed with the
// reader's AEAD for the counter it opens under, and - without any key - pairs of frames on the
// wire are tested for c1 xor c2 = p1 xor p2 on the plaintext prefix the harness knows.

import (
	"encoding/binary"
	"errors"
	"fmt"
	"io"
	"sort"
	"strings"
	"sync"
	"testing"

	vg "github.com/tendermint/tendermint/internal/verifgen"
)

// c16NetErr is a net.Error (timeout / temporary), like the one a net.Conn returns when a
// deadline expires in the middle of a frame.
type c16NetErr struct {
	msg                string
	timeout, temporary bool
}

func (e *c16NetErr) Error() string   { return e.msg }
func (e *c16NetErr) Timeout() bool   { return e.timeout }
func (e *c16NetErr) Temporary() bool { return e.temporary }

var c16WriteErrs = []error{
	&c16NetErr{"write tcp: i/o timeout", true, true},
	&c16NetErr{"write tcp: resource temporarily unavailable", false, true},
	errors.New("write tcp: broken pipe"),
	io.ErrShortWrite,
	io.ErrClosedPipe,
	io.EOF,
}
var c16WriteErrNames = []string{"timeout", "temporary", "broken pipe", "short write", "closed pipe", "EOF"}

var c16ReadErrs = []error{
	&c16NetErr{"read tcp: i/o timeout", true, true},
	&c16NetErr{"read tcp: resource temporarily unavailable", false, true},
	errors.New("read tcp: connection reset by peer"),
	io.ErrUnexpectedEOF,
	io.EOF,
	io.ErrNoProgress,
}
var c16ReadErrNames = []string{"timeout", "temporary", "connection reset", "unexpected EOF", "EOF", "no progress"}

type c16Call struct {
	buf     []byte // what was handed to conn.Write
	reached int    // how many bytes of it were passed on
}

type c16RFault struct {
	off  int // fires when a Read starts at this stream offset (once)
	kind int
}

// c16Tap wraps one end's conn. Inactive (handshake): transparent.
type c16Tap struct {
	c16Conn
	mu     sync.Mutex
	active bool
	// writer side
	script   []int // per conn.Write call: -1 ok, m >= 0: error after m bytes
	errKinds []int
	calls    []c16Call
	// reader side
	rfaults []c16RFault // sorted by offset
	chop    []int       // sizes of successive short reads (cycled); 0 = as much as asked for
	chopi   int
}

func (t *c16Tap) Write(p []byte) (int, error) {
	t.mu.Lock()
	if !t.active {
		t.mu.Unlock()
		return t.c16Conn.Write(p)
	}
	idx := len(t.calls)
	out := -1
	if idx < len(t.script) {
		out = t.script[idx]
	}
	call := c16Call{buf: append([]byte{}, p...), reached: len(p)}
	var err error
	if out >= 0 {
		if out < len(p) {
			call.reached = out
		}
		err = c16WriteErrs[t.errKinds[idx]%len(c16WriteErrs)]
	}
	t.calls = append(t.calls, call)
	t.mu.Unlock()
	if call.reached > 0 {
		_, _ = t.c16Conn.Write(p[:call.reached])
	}
	return call.reached, err
}

func (t *c16Tap) Read(p []byte) (int, error) {
	t.mu.Lock()
	if !t.active || len(p) == 0 {
		t.mu.Unlock()
		return t.c16Conn.Read(p)
	}
	q := t.c16Conn.in
	q.mu.Lock()
	pos := q.taken
	q.mu.Unlock()
	if len(t.rfaults) > 0 && t.rfaults[0].off == pos {
		k := t.rfaults[0].kind
		t.rfaults = t.rfaults[1:]
		t.mu.Unlock()
		return 0, c16ReadErrs[k%len(c16ReadErrs)]
	}
	limit := len(p)
	if len(t.rfaults) > 0 && t.rfaults[0].off > pos && t.rfaults[0].off-pos < limit {
		limit = t.rfaults[0].off - pos
	}
	if len(t.chop) > 0 {
		s := t.chop[t.chopi%len(t.chop)]
		t.chopi++
		if s > 0 && s < limit {
			limit = s
		}
	}
	t.mu.Unlock()
	return t.c16Conn.Read(p[:limit])
}

// c16FaultPair: the real handshake on both ends, each over a tap.
func c16FaultPair() (a, b *SecretConnection, ta, tb *c16Tap, qab, qba *c16Queue, hsOK bool) {
	qab, qba = newC16Queue(), newC16Queue()
	ta = &c16Tap{c16Conn: c16Conn{in: qba, out: qab}}
	tb = &c16Tap{c16Conn: c16Conn{in: qab, out: qba}}
	ka, kb := c16Key(1), c16Key(2)
	var ea, eb error
	var wg sync.WaitGroup
	wg.Add(2)
	go func() { defer wg.Done(); a, ea = MakeSecretConnection(ta, ka) }()
	go func() { defer wg.Done(); b, eb = MakeSecretConnection(tb, kb) }()
	wg.Wait()
	hsOK = ea == nil && eb == nil && a != nil && b != nil &&
		a.RemotePubKey().Equals(kb.PubKey()) && b.RemotePubKey().Equals(ka.PubKey())
	return
}

// c16FaultPlan: what one case does. rfaults < 0: PRNG-chosen once the wire is known.
type c16FaultPlan struct {
	name     string
	writes   []int // Write sizes
	script   []int // per conn.Write call
	errKinds []int
	// reader
	rfaultAt  []int // offsets; -1 = boundary of frame 1, resolved later; nil + rrand = PRNG
	rrand     bool
	chop      []int
	fixedCap  int // 0: mixed
	swapRoles bool
}

var c16FaultSizes = []int{1, 2, 5, 17, 40, 100, 300, 1023, 1024, 1025, 2047, 2048, 2049, 3073}
var c16PartialCuts = []int{1, 3, 4, 5, 15, 16, 17, 100, 600, 1027, 1028, 1029, 1042, 1043}

func c16DirectedFaults() []c16FaultPlan {
	const blk = totalFrameSize + aeadSizeOverhead
	return []c16FaultPlan{
		// a frame goes through, the next conn.Write times out after 600 bytes, the caller writes again
		{name: "partial-then-write", writes: []int{5, 1000, 1000}, script: []int{-1, 600}, errKinds: []int{0, 0}, fixedCap: 1024},
		// nothing of the failing frame reaches the wire
		{name: "before-then-write", writes: []int{300, 40, 500}, script: []int{-1, 0}, errKinds: []int{0, 1}, fixedCap: 1024},
		{name: "first-frame-fails", writes: []int{100, 100}, script: []int{0}, errKinds: []int{2}, fixedCap: 1024},
		// the whole frame went out, the conn still reports an error
		{name: "full-with-error", writes: []int{17, 200, 300}, script: []int{-1, blk}, errKinds: []int{0, 0}, fixedCap: 4096},
		// the second chunk of a three-chunk Write fails; the rest of that Write is dropped
		{name: "mid-multichunk", writes: []int{3073, 100, 2049}, script: []int{-1, 16, -1, -1, 1043}, errKinds: []int{0, 3, 0, 0, 4}, fixedCap: 1024},
		// several failures in a row, then success
		{name: "repeated-failures", writes: []int{40, 40, 40, 40, 40}, script: []int{0, 17, 0, -1, -1}, errKinds: []int{0, 1, 2, 0, 0}, fixedCap: 100},
		{name: "fail-one-byte", writes: []int{1024, 1025}, script: []int{1, -1, 1}, errKinds: []int{5, 0, 0}, fixedCap: 2048},
		// no write fault: the reader's conn times out between frames, then the reader reads on
		{name: "read-timeout-boundary", writes: []int{100, 2048, 17}, rfaultAt: []int{0, blk, 4 * blk}, fixedCap: 1024},
		// ... inside a frame: the reader has lost its place in the stream
		{name: "read-error-midframe", writes: []int{100, 300, 17}, rfaultAt: []int{blk + 500}, fixedCap: 1024},
		// short reads: one byte at a time / odd sizes, no faults
		{name: "short-reads-1", writes: []int{5, 1025}, chop: []int{1}, fixedCap: 7},
		{name: "short-reads-mixed", writes: []int{2049, 1, 1024}, chop: []int{7, 1043, 2, 1044, 500, 1}, fixedCap: 0},
		// write faults and read faults together, other end writes
		{name: "both-sides", writes: []int{300, 1025, 40, 40}, script: []int{-1, -1, 0, -1, 4}, errKinds: []int{0, 0, 0, 0, 1},
			rfaultAt: []int{blk, blk}, chop: []int{100}, fixedCap: 0, swapRoles: true},
	}
}

func c16RandomFault(r *vg.Rand) c16FaultPlan {
	const blk = totalFrameSize + aeadSizeOverhead
	p := c16FaultPlan{name: "random", rrand: true, swapRoles: r.Bool()}
	nw := 2 + r.Intn(5)
	total, frames := 0, 0
	for i := 0; i < nw; i++ {
		var sz int
		if r.Chance(40) {
			sz = c16FaultSizes[r.Intn(len(c16FaultSizes))]
		} else {
			sz = []int{12, 17, 40, 100, 300}[r.Intn(5)]
		}
		if total+sz > 6200 {
			sz = 12 + r.Intn(30)
		}
		total += sz
		frames += (sz + dataMaxSize - 1) / dataMaxSize
		p.writes = append(p.writes, sz)
	}
	p.script = make([]int, frames)
	p.errKinds = make([]int, frames)
	for i := range p.script {
		p.script[i] = -1
		p.errKinds[i] = r.Intn(len(c16WriteErrs))
	}
	nf := 0
	switch x := r.Intn(100); {
	case x < 15:
		nf = 0
	case x < 60:
		nf = 1
	case x < 85:
		nf = 2
	default:
		nf = 3
	}
	for f := 0; f < nf; f++ {
		// early calls are reached whatever the earlier faults dropped
		i := r.Intn(frames)
		if r.Chance(50) {
			i = r.Intn(1 + frames/2)
		}
		switch x := r.Intn(100); {
		case x < 30:
			p.script[i] = 0
		case x < 55:
			p.script[i] = c16PartialCuts[r.Intn(len(c16PartialCuts))]
		case x < 85:
			p.script[i] = 1 + r.Intn(blk-1)
		default:
			p.script[i] = blk
		}
	}
	switch r.Intn(4) {
	case 0:
	case 1:
		p.chop = []int{1 + r.Intn(3)}
	case 2:
		p.chop = []int{[]int{7, 100, 500, 1043, 1044, 1045, 4096}[r.Intn(7)]}
	default:
		for i := 0; i < 6; i++ {
			p.chop = append(p.chop, []int{0, 1, 2, 7, 100, 500, 1043, 1044, 1045}[r.Intn(9)])
		}
	}
	if r.Chance(40) {
		p.fixedCap = c16Caps[1+r.Intn(len(c16Caps)-1)]
		if total > 600 && p.fixedCap < 100 {
			p.fixedCap = 1024
		}
	}
	return p
}

func TestVerifC16Fault(t *testing.T) {
	root := vg.NewRand(vg.Seed() ^ 0xc16f)
	cs := vg.NewCases("C16", "c16_fault", "TM.C16.Exec")
	cs.Samples = []string{}
	directed := c16DirectedFaults()
	n := len(directed) + vg.Scale(130, 8000)
	const blk = totalFrameSize + aeadSizeOverhead
	for k := 0; k < n; k++ {
		id := cs.NextID()
		if !cs.Want(id) {
			continue
		}
		r := root.Fork(uint64(k))
		var plan c16FaultPlan
		if k < len(directed) {
			plan = directed[k]
		} else {
			plan = c16RandomFault(r)
		}
		a, b, ta, tb, qab, qba, hsOK := c16FaultPair()
		if a == nil || b == nil {
			cs.Add(id, "handshake-failed", true,
				vg.App("CFault", "false", vg.Hx(nil), vg.Hx(nil), vg.Z(0), "[]", "[]", "[]", "[]", "[]", "[]", "[]"),
				"honest handshake failed")
			continue
		}
		if plan.swapRoles {
			a, b, ta, tb, qab, qba = b, a, tb, ta, qba, qab
		}
		_ = qba
		qab.mu.Lock()
		qab.writes = nil
		leftover := len(qab.buf)
		qab.mu.Unlock()

		send0 := append([]byte{}, a.sendNonce[:]...)
		recv0 := append([]byte{}, b.recvNonce[:]...)
		c0 := c16Ctr(a.sendNonce)
		buf0 := len(b.recvBuffer) + leftover

		// ---- the writer over a failing transport
		ta.mu.Lock()
		ta.script, ta.errKinds, ta.active = plan.script, plan.errKinds, true
		ta.mu.Unlock()
		var writes [][]byte
		var wres []string
		type callInfo struct{ write, q int } // which Write, which conn.Write call within it
		var info []callInfo
		for i, sz := range plan.writes {
			data := r.Bytes(sz)
			writes = append(writes, data)
			before := len(ta.calls)
			code, wn := 0, 0
			func() {
				defer func() {
					if recover() != nil {
						code = 2
					}
				}()
				var err error
				wn, err = a.Write(data)
				if err != nil {
					code = 1
				}
			}()
			for q := 0; q < len(ta.calls)-before; q++ {
				info = append(info, callInfo{i, q})
			}
			wres = append(wres, vg.Tup(vg.Z(int64(wn)), vg.Z(int64(len(ta.calls)-before)), vg.N(uint64(code)),
				vg.N(c16Ctr(a.sendNonce))))
		}
		ta.mu.Lock()
		ta.active = false
		calls := append([]c16Call{}, ta.calls...)
		ta.mu.Unlock()

		// under which counter does the reader's AEAD open each buffer handed to conn.Write?
		var frames []string
		for _, c := range calls {
			found := int64(-1)
			lo := int64(c0) - 2
			if lo < 0 {
				lo = 0
			}
			for ctr := lo; ctr <= int64(c0)+int64(len(calls))+2; ctr++ {
				if _, err := b.recvAead.Open(nil, c16Nonce(uint64(ctr)), c.buf, nil); err == nil {
					found = ctr
					break
				}
			}
			frames = append(frames, vg.Tup(vg.Z(found), vg.Z(int64(len(c.buf))), vg.Z(int64(c.reached))))
		}

		// without keys: two frames on the wire under the same keystream?
		known := func(ci int) []byte {
			w := writes[info[ci].write]
			lo := info[ci].q * dataMaxSize
			if lo >= len(w) {
				return nil
			}
			hi := lo + dataMaxSize
			if hi > len(w) {
				hi = len(w)
			}
			p := make([]byte, dataLenSize, dataLenSize+hi-lo)
			binary.LittleEndian.PutUint32(p, uint32(hi-lo))
			return append(p, w[lo:hi]...)
		}
		var xors []string
		for i := 0; i < len(calls); i++ {
			for j := i + 1; j < len(calls); j++ {
				pi, pj := known(i), known(j)
				l := calls[i].reached
				for _, x := range []int{calls[j].reached, len(pi), len(pj)} {
					if x < l {
						l = x
					}
				}
				if l < 16 {
					continue
				}
				same := true
				for x := 0; x < l; x++ {
					if calls[i].buf[x]^calls[j].buf[x] != pi[x]^pj[x] {
						same = false
						break
					}
				}
				if same {
					xors = append(xors, vg.Tup(vg.Nat(i), vg.Nat(j)))
				}
			}
		}

		// ---- what reached the wire
		var stream []byte
		for _, c := range calls {
			stream = append(stream, c.buf[:c.reached]...)
		}
		var rf []c16RFault
		if plan.rrand {
			nrf := 0
			switch x := r.Intn(10); {
			case x < 4:
			case x < 8:
				nrf = 1
			default:
				nrf = 2
			}
			for i := 0; i < nrf; i++ {
				off := 0
				switch x := r.Intn(10); {
				case x < 5:
					off = blk * r.Intn(len(stream)/blk+1)
				case x < 6:
					off = len(stream)
				default:
					off = r.Intn(len(stream) + 1)
				}
				rf = append(rf, c16RFault{off, r.Intn(len(c16ReadErrs))})
			}
		} else {
			for i, off := range plan.rfaultAt {
				rf = append(rf, c16RFault{off, i})
			}
		}
		sort.SliceStable(rf, func(i, j int) bool { return rf[i].off < rf[j].off })

		// what the successive io.ReadFull(conn, 1044) calls get under that schedule
		table := map[string]int{}
		for i, c := range calls {
			if _, ok := table[string(c.buf)]; !ok {
				table[string(c.buf)] = i
			}
		}
		var evs []string
		{
			pend := append([]c16RFault{}, rf...)
			p := 0
			for len(evs) < 200 {
				if len(pend) > 0 && pend[0].off == p {
					evs = append(evs, vg.App("EE", vg.Z(0)))
					pend = pend[1:]
					continue
				}
				end := p + blk
				if len(pend) > 0 && pend[0].off < end && pend[0].off <= len(stream) {
					evs = append(evs, vg.App("EE", vg.Z(int64(pend[0].off-p))))
					p = pend[0].off
					pend = pend[1:]
					continue
				}
				if end <= len(stream) {
					if i, ok := table[string(stream[p:end])]; ok {
						evs = append(evs, vg.App("EG", vg.Nat(i)))
					} else {
						evs = append(evs, "EJ")
					}
					p = end
					continue
				}
				if p < len(stream) {
					evs = append(evs, vg.App("EE", vg.Z(int64(len(stream)-p))))
					p = len(stream)
					continue
				}
				break
			}
		}

		// ---- deliver and read
		qab.mu.Lock()
		qab.buf = append([]byte{}, stream...)
		qab.closed = true
		qab.taken = 0
		qab.mu.Unlock()
		tb.mu.Lock()
		tb.rfaults, tb.chop, tb.chopi, tb.active = append([]c16RFault{}, rf...), plan.chop, 0, true
		tb.mu.Unlock()

		total := 0
		for _, w := range writes {
			total += len(w)
		}
		var reads []string
		nerr, got, pos := 0, 0, 0
		for i := 0; i < 60 && nerr < 3+len(rf); i++ {
			cp := plan.fixedCap
			if cp == 0 {
				cp = c16Caps[r.Intn(len(c16Caps))]
				if total > 300 && cp < 100 && r.Chance(70) {
					cp = 1024 + r.Intn(3) - 1
				}
			}
			buf := make([]byte, cp)
			before := c16Ctr(b.recvNonce)
			code, rn := 0, 0
			func() {
				defer func() {
					if recover() != nil {
						code = 4
					}
				}()
				var err error
				rn, err = b.Read(buf)
				if err == nil {
					return
				}
				isIO := errors.Is(err, io.EOF) || errors.Is(err, io.ErrUnexpectedEOF)
				for _, e := range c16ReadErrs {
					if errors.Is(err, e) {
						isIO = true
					}
				}
				switch {
				case isIO:
					code = 1
				case c16Ctr(b.recvNonce) == before:
					code = 2
				default:
					code = 3
				}
			}()
			if code != 0 {
				nerr++
			}
			if rn < 0 || rn > cp {
				rn = 0
			}
			got += rn
			qab.mu.Lock()
			pos2 := qab.taken
			qab.mu.Unlock()
			what := int64(-1)
			if pos2 != pos {
				what = -2
				if pos2-pos == blk && pos >= 0 && pos2 <= len(stream) {
					if i, ok := table[string(stream[pos:pos2])]; ok {
						what = int64(i)
					}
				}
			}
			pos = pos2
			reads = append(reads, vg.Tup(vg.Z(int64(cp)), vg.Z(int64(rn)), vg.N(uint64(code)), vg.Hx(buf[:rn]),
				vg.Z(int64(pos2)), vg.Z(what)))
		}
		tb.mu.Lock()
		tb.active = false
		tb.mu.Unlock()

		// ---- the case
		var script []int64
		var sd []string
		nwf := 0
		for i, m := range plan.script {
			script = append(script, int64(m))
			if m < 0 {
				sd = append(sd, "ok")
			} else {
				sd = append(sd, fmt.Sprintf("%s after %d bytes", c16WriteErrNames[plan.errKinds[i]%len(c16WriteErrs)], m))
				if i < len(calls) {
					nwf++
				}
			}
		}
		var rd []string
		for _, f := range rf {
			rd = append(rd, fmt.Sprintf("%s at byte %d", c16ReadErrNames[f.kind%len(c16ReadErrs)], f.off))
		}
		var wl []string
		for _, w := range writes {
			wl = append(wl, fmt.Sprint(len(w)))
		}
		kind := plan.name
		if plan.rrand {
			kind = fmt.Sprintf("random-w%d-r%d", nwf, len(rf))
			if len(plan.chop) > 0 {
				kind += "-short"
			}
		}
		term := vg.App("CFault", vg.B(hsOK), vg.Hx(send0), vg.Hx(recv0), vg.Z(int64(buf0)),
			vg.HxL(writes), vg.ZL(script), vg.L(wres), vg.L(frames), vg.L(xors), vg.L(evs), vg.L(reads))
		descr := fmt.Sprintf("handshake (writer = %s), then Write sizes [%s] (random bytes, case PRNG fork %d) over a conn whose Write calls of the data phase do: [%s]; %d conn.Write calls, %d bytes on the wire; per Write (n, conn.Write calls, 0 ok/1 err/2 panic, sendNonce counter after): %v; per conn.Write (counter it opens under, bytes handed, bytes passed on): %v; same-keystream pairs: %v; reader's conn: short reads %v, errors [%s]; io.ReadFull sequence %v; %d Reads returned %d bytes, %d errors",
			map[bool]string{false: "end 1", true: "end 2"}[plan.swapRoles], strings.Join(wl, ","), k,
			strings.Join(sd, "; "), len(calls), len(stream), wres, frames, xors, plan.chop, strings.Join(rd, "; "), evs, len(reads), got, nerr)
		cs.Add(id, kind, nwf > 0 || len(rf) > 0 || len(plan.chop) > 0, term, descr)
	}
	if err := cs.Write(); err != nil {
		t.Fatal(err)
	}
}
