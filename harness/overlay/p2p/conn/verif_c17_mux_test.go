//go:build verif

// C17 layer A — the multiplexing logic of MConnection against coq/C17/Model.v.
//
//	TestVerifC17Mux      the sending half driven step by step (real Channel.trySendBytes, the real
//	                     MConnection.sendPacketMsg incl. its scheduler, not started so that no goroutine
//	                     interferes); every packet it writes is recorded and the byte stream is then
//	                     read by a real, started MConnection over net.Pipe (onReceive journal).
//	TestVerifC17Conc     two real started MConnections over net.Pipe, one sending goroutine per channel
//	                     (Send / TrySend), FlushStop, journal of the receiver.
//	TestVerifC17Hostile  raw packet streams written to the pipe of a real started MConnection: unknown
//	                     channel, channel ids outside a byte, never-EOF, over capacity, unknown packet
//	                     type, oversize length prefix, undecodable bytes; ping/pong barrier after every
//	                     item to read len(ch.recving).
package conn

import (
	"bytes"
	"context"
	"encoding/json"
	"fmt"
	"io"
	"net"
	"os"
	"os/exec"
	"path/filepath"
	"strings"
	"sync"
	"sync/atomic"
	"testing"
	"time"

	"github.com/gogo/protobuf/proto"

	vg "github.com/tendermint/tendermint/internal/verifgen"
	"github.com/tendermint/tendermint/libs/log"
	"github.com/tendermint/tendermint/libs/protoio"
	"github.com/tendermint/tendermint/libs/timer"
	tmp2p "github.com/tendermint/tendermint/proto/tendermint/p2p"
)

// ---------------------------------------------------------------- shared helpers

type c17Desc struct {
	id   byte
	prio int
	qcap int
	rcap int // RecvMessageCapacity
	bcap int // RecvBufferCapacity; 0 = leave the default (4096)
}

// the capacity ch.recving starts with
func (d c17Desc) bufcap() int {
	if d.bcap == 0 {
		return defaultRecvBufferCapacity
	}
	return d.bcap
}

func c17ChDescs(ds []c17Desc) []*ChannelDescriptor {
	out := make([]*ChannelDescriptor, len(ds))
	for i, d := range ds {
		out[i] = &ChannelDescriptor{ID: d.id, Priority: d.prio, SendQueueCapacity: d.qcap, RecvMessageCapacity: d.rcap,
			RecvBufferCapacity: d.bcap}
	}
	return out
}

func c17Cfg(maxsz int, limited bool) MConnConfig {
	cfg := DefaultMConnConfig()
	cfg.MaxPacketMsgPayloadSize = maxsz
	cfg.FlushThrottle = time.Millisecond
	if !limited {
		cfg.SendRate, cfg.RecvRate = 0, 0 // flowrate: rate < 1 = unlimited
	}
	return cfg
}

type c17JE struct {
	ch  byte
	msg []byte
}

// c17Recv is a real started MConnection reading from one end of a net.Pipe; the harness owns the
// other end (raw).
type c17Recv struct {
	mc       *MConnection
	raw      net.Conn
	mu       sync.Mutex
	journal  []c17JE
	errored  bool
	errVal   interface{}
	nAtErr   int
	errCh    chan struct{}
	pongs    chan struct{}
	descs    []c17Desc
	panicked bool
}

func c17NewRecv(ds []c17Desc, maxsz int) *c17Recv {
	a, b := net.Pipe()
	r := &c17Recv{raw: b, errCh: make(chan struct{}), pongs: make(chan struct{}, 64), descs: ds}
	onReceive := func(chID byte, msg []byte) {
		cp := append([]byte{}, msg...) // the slice is the channel's buffer: copy at delivery time
		r.mu.Lock()
		r.journal = append(r.journal, c17JE{chID, cp})
		r.mu.Unlock()
	}
	onError := func(e interface{}) {
		r.mu.Lock()
		if !r.errored {
			r.errored, r.errVal, r.nAtErr = true, e, len(r.journal)
			close(r.errCh)
		}
		r.mu.Unlock()
	}
	r.mc = NewMConnectionWithConfig(a, c17ChDescs(ds), onReceive, onError, c17Cfg(maxsz, false))
	r.mc.SetLogger(log.NewNopLogger())
	if err := r.mc.Start(); err != nil {
		panic(err)
	}
	// read whatever the receiver sends back (pongs, pings)
	go func() {
		rd := protoio.NewDelimitedReader(b, 1<<20)
		for {
			var p tmp2p.Packet
			if _, err := rd.ReadMsg(&p); err != nil {
				return
			}
			if _, ok := p.Sum.(*tmp2p.Packet_PacketPong); ok {
				select {
				case r.pongs <- struct{}{}:
				default:
				}
			}
		}
	}()
	return r
}

func (r *c17Recv) write(bz []byte) bool {
	_ = r.raw.SetWriteDeadline(time.Now().Add(2 * time.Second))
	_, err := r.raw.Write(bz)
	return err == nil
}

// barrier: everything written before it has been handled by recvRoutine when it returns true.
func (r *c17Recv) barrier() bool {
	if !r.write(c17Enc(&tmp2p.Packet{Sum: &tmp2p.Packet_PacketPing{PacketPing: &tmp2p.PacketPing{}}})) {
		return false
	}
	select {
	case <-r.pongs:
		return true
	case <-r.errCh:
		return false
	case <-time.After(2 * time.Second):
		return false
	}
}

func (r *c17Recv) lens() []int64 {
	out := make([]int64, len(r.descs))
	for i, d := range r.descs {
		out[i] = int64(len(r.mc.channelsIdx[d.id].recving))
	}
	return out
}

// ch.recving == nil of every channel
func (r *c17Recv) nils() []bool {
	out := make([]bool, len(r.descs))
	for i, d := range r.descs {
		out[i] = r.mc.channelsIdx[d.id].recving == nil
	}
	return out
}

func (r *c17Recv) snapshot() (j []c17JE, errored bool, nAtErr int, errVal interface{}) {
	r.mu.Lock()
	defer r.mu.Unlock()
	j = append(j, r.journal...)
	errored, nAtErr, errVal = r.errored, r.nAtErr, r.errVal
	if !errored {
		nAtErr = len(j)
	}
	return
}

func (r *c17Recv) close() {
	_ = r.mc.Stop()
	_ = r.raw.Close()
}

func c17Enc(p *tmp2p.Packet) []byte {
	var buf bytes.Buffer
	if _, err := protoio.NewDelimitedWriter(&buf).WriteMsg(p); err != nil {
		panic(err)
	}
	return buf.Bytes()
}

func c17Varint(n uint64) []byte { return proto.EncodeVarint(n) }

func c17Journal(j []c17JE) (coq string, human string) {
	xs := make([]string, len(j))
	hs := make([]string, len(j))
	for i, e := range j {
		xs[i] = vg.Tup(vg.Z(int64(e.ch)), c17B(e.msg))
		hs[i] = fmt.Sprintf("ch%d:%s", e.ch, c17Short(e.msg))
	}
	return vg.L(xs), strings.Join(hs, " ")
}

func c17Short(b []byte) string {
	if len(b) == 0 {
		return "<empty>"
	}
	if len(b) <= 12 {
		return fmt.Sprintf("%x", b)
	}
	if c17IsPat(b) {
		return fmt.Sprintf("%x..(%d bytes, pattern seed %d)", b[:4], len(b), b[0])
	}
	return fmt.Sprintf("%x(%d bytes, NOT the pattern)", b, len(b))
}

// is b the pattern c17Msg(b[0], len(b))?
func c17IsPat(b []byte) bool {
	for i := range b {
		if b[i] != b[0]+byte(3*i) {
			return false
		}
	}
	return len(b) > 0
}

// c17B prints a byte slice as a Coq [blob]: (BP seed len) when the slice IS the pattern of that
// seed and length (checked byte by byte, so the encoding is lossless for any slice), a hex
// literal otherwise.
func c17B(b []byte) string {
	if len(b) > 8 && c17IsPat(b) {
		return fmt.Sprintf("(BP %d %d)", b[0], len(b))
	}
	return "(BH " + vg.Hx(b) + ")"
}

// message bytes: b[i] = seed + 3*i, so a replay reader can rebuild them from (seed, length)
func c17Msg(seed byte, n int) []byte {
	b := make([]byte, n)
	for i := range b {
		b[i] = seed + byte(3*i)
	}
	return b
}

// a dummy net.Conn for the stepped sender: writes go to a buffer
type c17BufConn struct{ buf bytes.Buffer }

func (c *c17BufConn) Read(p []byte) (int, error)         { return 0, io.EOF }
func (c *c17BufConn) Write(p []byte) (int, error)        { return c.buf.Write(p) }
func (c *c17BufConn) Close() error                       { return nil }
func (c *c17BufConn) LocalAddr() net.Addr                { return &net.TCPAddr{} }
func (c *c17BufConn) RemoteAddr() net.Addr               { return &net.TCPAddr{} }
func (c *c17BufConn) SetDeadline(t time.Time) error      { return nil }
func (c *c17BufConn) SetReadDeadline(t time.Time) error  { return nil }
func (c *c17BufConn) SetWriteDeadline(t time.Time) error { return nil }

func c17DescsCoq(ds []c17Desc) string {
	xs := make([]string, len(ds))
	for i, d := range ds {
		xs[i] = vg.Tup(vg.Z(int64(d.id)), vg.Nat(d.qcap), vg.Z(int64(d.rcap)))
	}
	return vg.L(xs)
}

func c17BcapsCoq(ds []c17Desc) string {
	xs := make([]int64, len(ds))
	for i, d := range ds {
		xs[i] = int64(d.bufcap())
	}
	return vg.ZL(xs)
}

func c17DescsHuman(ds []c17Desc) string {
	xs := make([]string, len(ds))
	for i, d := range ds {
		xs[i] = fmt.Sprintf("{ID:%d Priority:%d SendQueueCapacity:%d RecvMessageCapacity:%d RecvBufferCapacity:%d}", d.id, d.prio, d.qcap, d.rcap, d.bufcap())
	}
	return strings.Join(xs, ",")
}

// Message sizes: the degenerate ones (0, 1), around the packet payload limit and its multiples,
// around the receive BUFFER capacity (the initial cap of ch.recving: beyond it append replaces
// the buffer), and around the receive MESSAGE capacity (beyond it the receiver must drop the
// connection).
func c17Size(r *vg.Rand, maxsz int, d c17Desc, allowOver bool) int {
	bcap, rcap := d.bufcap(), d.rcap
	var n int
	switch r.Intn(22) {
	case 0, 1, 2:
		n = 0
	case 3:
		n = 1
	case 4:
		n = maxsz - 1
	case 5:
		n = maxsz
	case 6:
		n = maxsz + 1
	case 7:
		n = 2 * maxsz
	case 8:
		n = 2*maxsz + 1
	case 9:
		n = (3 + r.Intn(3)) * maxsz
	case 10:
		n = rcap
	case 11:
		n = rcap - 1
	case 12:
		if allowOver && r.Chance(40) {
			n = rcap + 1 + r.Intn(3)
		} else {
			n = r.Intn(rcap + 1)
		}
	case 13:
		n = bcap - 1
	case 14:
		n = bcap
	case 15:
		n = bcap + 1
	case 16:
		n = 2*bcap + 1
	case 17:
		n = 3*bcap + 17
	case 18:
		if bcap < rcap {
			n = bcap + 1 + r.Intn(rcap-bcap)
		} else {
			n = r.Intn(rcap + 1)
		}
	default:
		n = r.Intn(rcap + 1)
	}
	if n < 0 {
		n = 0
	}
	if n > rcap && !(allowOver && n <= rcap+3) {
		n = rcap
	}
	return n
}

// the follow-up of a message that outgrew the receive buffer: mostly the degenerate sizes
func c17After(r *vg.Rand, maxsz int, d c17Desc) int {
	switch r.Intn(10) {
	case 0, 1, 2, 3, 4, 5:
		return 0
	case 6, 7:
		return 1
	case 8:
		if maxsz <= d.rcap {
			return maxsz
		}
		return d.rcap
	}
	return c17Size(r, maxsz, d, false)
}

// c17Tally records, for the evidence, the size classes of the messages accepted on one channel
// (a message counts in every class it belongs to) and the classes of consecutive pairs.
func c17Tally(cs *vg.Cases, maxsz int, d c17Desc, msgs [][]byte) {
	bcap, rcap := d.bufcap(), d.rcap
	cls := func(n int) string { // position relative to the buffer capacity
		switch {
		case n == 0:
			return "0"
		case n == 1 && bcap > 2:
			return "1"
		case n < bcap-1:
			return "<bufcap-1"
		case n == bcap-1:
			return "bufcap-1"
		case n == bcap:
			return "bufcap"
		case n == bcap+1:
			return "bufcap+1"
		}
		return ">bufcap+1"
	}
	for i, m := range msgs {
		n := len(m)
		cs.Count("size:"+cls(n), 1)
		if n == maxsz {
			cs.Count("size:=payload", 1)
		} else if n > maxsz && n%maxsz == 0 {
			cs.Count("size:=k*payload", 1)
		} else if n > maxsz && n%maxsz == 1 {
			cs.Count("size:=k*payload+1", 1)
		}
		switch {
		case n == rcap:
			cs.Count("size:=msgcap", 1)
		case n == rcap-1:
			cs.Count("size:=msgcap-1", 1)
		case n > rcap:
			cs.Count("size:>msgcap", 1)
		}
		if i > 0 {
			p := len(msgs[i-1])
			if p >= bcap-1 || p == 0 {
				if n <= 1 || n >= bcap-1 {
					cs.Count("pair:"+cls(p)+","+cls(n), 1)
				} else {
					cs.Count("pair:"+cls(p)+",other", 1)
				}
			}
		}
	}
}

func c17GenDescs(r *vg.Rand, maxsz int) []c17Desc {
	n := 1 + r.Intn(4)
	ids := r.Perm(7)
	ds := make([]c17Desc, n)
	big := maxsz == defaultMaxPacketMsgPayloadSize
	for i := range ds {
		id := byte(ids[i])
		if r.Chance(20) {
			id = byte(0x20 + 0x08*ids[i]) // like the real channel ids: 0x20.., 0x30, 0x38, 0x40
		} else if r.Chance(15) {
			id = byte(0x80 + 0x10*ids[i] + r.Intn(16)) // ids whose varint encoding takes two bytes
		}
		var rcap, bcap int
		if big {
			// the default payload size with the default receive buffer (or one near it) and
			// message capacities beyond the buffer
			bcap = []int{0, 0, 0, 0, 1024, 2048, 4097, 5000}[r.Intn(8)]
			b := bcap
			if b == 0 {
				b = defaultRecvBufferCapacity
			}
			rcap = []int{b + 1, b + 2, 2 * b, 2*b + 1, 3*b + 17, 16384, 20000}[r.Intn(7)]
			if r.Chance(15) {
				rcap = maxsz*(1+r.Intn(4)) + r.Intn(3) // within the buffer, as before
			}
		} else {
			rcap = maxsz*(1+r.Intn(6)) + r.Intn(3)
			if !r.Chance(35) { // else: default buffer, never outgrown by these messages
				bcap = []int{1, 2, maxsz - 1, maxsz, maxsz + 1, 2 * maxsz, 2*maxsz + 1, rcap / 2, rcap/2 + 1, rcap - 1, rcap, rcap + 1}[r.Intn(12)]
				if bcap < 1 {
					bcap = 1
				}
			}
		}
		qcap := 1 + r.Intn(3)
		if r.Chance(15) {
			qcap = 4 + r.Intn(13)
		}
		ds[i] = c17Desc{id: id, prio: 1 + r.Intn(10), qcap: qcap, rcap: rcap, bcap: bcap}
	}
	return ds
}

// the payload size of case k: small ones, and for one case in 8 the default 1024
func c17MaxSz(r *vg.Rand, k int) int {
	if k%8 == 7 {
		return defaultMaxPacketMsgPayloadSize
	}
	return []int{1, 2, 3, 4, 5, 8, 16}[r.Intn(7)]
}

// ---------------------------------------------------------------- TestVerifC17Mux

type c17Op struct {
	send  bool
	ch    byte
	msg   []byte
	ok    bool
	pkt   *tmp2p.PacketMsg
	exh   bool
	human string
}

// c17Stepper drives the real sending code without its goroutines.
type c17Stepper struct {
	mc   *MConnection
	conn *c17BufConn
	off  int
}

func c17NewStepper(ds []c17Desc, maxsz int) *c17Stepper {
	conn := &c17BufConn{}
	mc := NewMConnectionWithConfig(conn, c17ChDescs(ds), func(byte, []byte) {}, func(interface{}) {}, c17Cfg(maxsz, false))
	mc.SetLogger(log.NewNopLogger())
	mc.flushTimer = timer.NewThrottleTimer("flush", time.Hour) // created by OnStart in production
	return &c17Stepper{mc: mc, conn: conn}
}

func (s *c17Stepper) send(ch byte, msg []byte) bool {
	c, ok := s.mc.channelsIdx[ch] // MConnection.TrySend: unknown channel -> false
	if !ok {
		return false
	}
	return c.trySendBytes(msg)
}

// one sendPacketMsg; returns the packet it wrote (nil if none) and its result
func (s *c17Stepper) step() (pkt *tmp2p.PacketMsg, exh bool, err error) {
	exh = s.mc.sendPacketMsg()
	if e := s.mc.bufConnWriter.Flush(); e != nil {
		return nil, exh, e
	}
	all := s.conn.buf.Bytes()
	seg := all[s.off:]
	s.off = len(all)
	if len(seg) == 0 {
		return nil, exh, nil
	}
	rd := protoio.NewDelimitedReader(bytes.NewReader(seg), 1<<24)
	var p tmp2p.Packet
	if _, e := rd.ReadMsg(&p); e != nil {
		return nil, exh, e
	}
	pm, ok := p.Sum.(*tmp2p.Packet_PacketMsg)
	if !ok {
		return nil, exh, fmt.Errorf("sendPacketMsg wrote a non-PacketMsg")
	}
	return pm.PacketMsg, exh, nil
}

func (s *c17Stepper) close() { s.mc.flushTimer.Stop() }

// runs a stepped history, feeds the produced bytes to a real receiver, returns the Coq term
func c17RunMux(cs *vg.Cases, ds []c17Desc, maxsz int, script []c17Op, drain bool) (term, descr string, nontrivial bool) {
	st := c17NewStepper(ds, maxsz)
	defer st.close()
	var ops []c17Op
	panicked := ""
	func() {
		defer func() {
			if r := recover(); r != nil {
				panicked = fmt.Sprint(r)
			}
		}()
		for _, o := range script {
			if o.send {
				o.ok = st.send(o.ch, o.msg)
				o.human = fmt.Sprintf("TrySend(%d,%s)=%v", o.ch, c17Short(o.msg), o.ok)
			} else {
				pkt, exh, err := st.step()
				if err != nil {
					panicked = err.Error()
					return
				}
				o.pkt, o.exh = pkt, exh
			}
			ops = append(ops, o)
		}
		if drain {
			for i := 0; i < 100000; i++ {
				pkt, exh, err := st.step()
				if err != nil {
					panicked = err.Error()
					return
				}
				ops = append(ops, c17Op{pkt: pkt, exh: exh})
				if exh {
					break
				}
			}
		}
	}()
	// the bytes the sender wrote, read by a real receiver
	rc := c17NewRecv(ds, maxsz)
	stream := st.conn.buf.Bytes()
	for len(stream) > 0 { // in pieces, so that packets straddle reads
		n := 700
		if n > len(stream) {
			n = len(stream)
		}
		if !rc.write(stream[:n]) {
			break
		}
		stream = stream[n:]
	}
	rc.barrier()
	time.Sleep(200 * time.Microsecond)
	j, errored, _, _ := rc.snapshot()
	rc.close()

	var xs, hs []string
	npk := 0
	acc := map[byte][][]byte{}
	for _, o := range ops {
		if o.send {
			xs = append(xs, vg.App("MSend", vg.Z(int64(o.ch)), c17B(o.msg), vg.B(o.ok)))
			hs = append(hs, o.human)
			if o.ok {
				acc[o.ch] = append(acc[o.ch], o.msg)
			}
		} else {
			p := "None"
			h := "-"
			if o.pkt != nil {
				npk++
				p = vg.Opt(true, vg.Tup(vg.Z(int64(o.pkt.ChannelID)), vg.B(o.pkt.EOF), c17B(o.pkt.Data)))
				h = fmt.Sprintf("pkt{ch%d eof=%v %s}", o.pkt.ChannelID, o.pkt.EOF, c17Short(o.pkt.Data))
			}
			xs = append(xs, vg.App("MStep", p, vg.B(o.exh)))
			hs = append(hs, fmt.Sprintf("sendPacketMsg()=%v %s", o.exh, h))
		}
	}
	jc, jh := c17Journal(j)
	for _, d := range ds {
		c17Tally(cs, maxsz, d, acc[d.id])
	}
	term = vg.App("CMux", vg.Nat(maxsz), c17DescsCoq(ds), c17BcapsCoq(ds), vg.L(xs), vg.B(drain && panicked == ""), jc, vg.B(errored))
	descr = fmt.Sprintf("MaxPacketMsgPayloadSize=%d channels=[%s] ops: %s | receiver onReceive journal: %s | receiver onError=%v",
		maxsz, c17DescsHuman(ds), strings.Join(hs, "; "), jh, errored)
	if panicked != "" {
		descr += " | HARNESS: sender failed: " + panicked
	}
	return term, descr, npk >= 2 && len(ds) >= 2
}

type c17MixMsg struct {
	ch byte
	n  int
}

type c17Mix struct {
	name         string
	maxsz        int
	ds           []c17Desc
	sched        []c17MixMsg
	stepsBetween int
}

// c17DirectedMixes: schedules (channel, size) sent in this order; used both by the stepped
// sender (Mux) and by two started MConnections (Conc).
func c17DirectedMixes() []c17Mix {
	B := defaultRecvBufferCapacity
	P := defaultMaxPacketMsgPayloadSize
	return []c17Mix{
		{name: "mix:defaults:over-bufcap-then-empty", maxsz: P,
			ds:    []c17Desc{{id: 1, prio: 1, qcap: 16, rcap: defaultRecvMessageCapacity}, {id: 2, prio: 1, qcap: 16, rcap: defaultRecvMessageCapacity}},
			sched: []c17MixMsg{{1, 5}, {2, 7}, {1, 3*B + 17}, {1, 0}, {2, 100}, {1, 11}, {2, 0}, {1, 2000}, {2, 10}}},
		{name: "mix:defaults:bufcap-boundary-then-degenerate", maxsz: P,
			ds: []c17Desc{{id: 0x20, prio: 5, qcap: 16, rcap: 4 * B}, {id: 0x30, prio: 1, qcap: 16, rcap: 4 * B}},
			sched: []c17MixMsg{{0x20, B - 1}, {0x20, 0}, {0x30, B}, {0x30, 0}, {0x20, B}, {0x20, 0}, {0x20, 0}, {0x30, B + 1}, {0x30, 0}, {0x30, 1},
				{0x20, B + 1}, {0x20, 1}, {0x20, 0}, {0x30, 4 * B}, {0x30, 0}, {0x20, 2 * P}, {0x20, 0}}},
		{name: "mix:small:over-bufcap-then-empty", maxsz: 2,
			ds:    []c17Desc{{id: 1, prio: 1, qcap: 16, rcap: 16, bcap: 4}, {id: 2, prio: 3, qcap: 16, rcap: 16, bcap: 4}},
			sched: []c17MixMsg{{1, 3}, {1, 0}, {1, 4}, {1, 0}, {2, 1}, {1, 5}, {1, 0}, {2, 0}, {1, 0}, {1, 1}, {2, 16}, {2, 0}, {1, 16}, {1, 0}, {1, 2}, {2, 0}}},
		{name: "mix:small:bufcap-1", maxsz: 1,
			ds:    []c17Desc{{id: 0, prio: 1, qcap: 16, rcap: 6, bcap: 1}},
			sched: []c17MixMsg{{0, 0}, {0, 1}, {0, 0}, {0, 2}, {0, 0}, {0, 0}, {0, 6}, {0, 0}, {0, 1}, {0, 0}}, stepsBetween: 1},
		{name: "mix:small:payload-multiples-over-bufcap", maxsz: 4,
			ds:    []c17Desc{{id: 0x81, prio: 2, qcap: 16, rcap: 24, bcap: 8}, {id: 3, prio: 2, qcap: 16, rcap: 24, bcap: 9}},
			sched: []c17MixMsg{{0x81, 8}, {0x81, 0}, {3, 8}, {3, 0}, {0x81, 12}, {0x81, 0}, {3, 12}, {3, 0}, {0x81, 24}, {0x81, 0}, {0x81, 4}, {3, 23}, {3, 1}, {3, 0}}, stepsBetween: 2},
	}
}

func TestVerifC17Mux(t *testing.T) {
	cs := vg.NewCases("C17", "c17_mux", "TM.C17.Exec")
	root := vg.NewRand(vg.Seed())

	// directed: the F16 history — a zero-length message waits in ch.sending while another channel is served
	{
		id := cs.NextID()
		if cs.Want(id) {
			ds := []c17Desc{{id: 1, prio: 1, qcap: 2, rcap: 64}, {id: 2, prio: 1, qcap: 2, rcap: 64}}
			script := []c17Op{
				{send: true, ch: 1, msg: []byte{0xaa, 0xbb}}, {},
				{send: true, ch: 1, msg: []byte{}}, {send: true, ch: 2, msg: []byte{0xcc}}, {}, {},
			}
			term, descr, _ := c17RunMux(cs, ds, 8, script, true)
			cs.Add(id, "directed:empty-message-behind-other-channel", true, term, descr)
		}
	}
	// directed: same with a nil message, and an empty message followed by another one on its channel
	{
		id := cs.NextID()
		if cs.Want(id) {
			ds := []c17Desc{{id: 1, prio: 1, qcap: 3, rcap: 64}, {id: 2, prio: 5, qcap: 2, rcap: 64}}
			script := []c17Op{
				{send: true, ch: 1, msg: []byte{1, 2, 3}}, {},
				{send: true, ch: 1, msg: nil}, {send: true, ch: 1, msg: []byte{9}}, {send: true, ch: 2, msg: []byte{7, 7, 7, 7, 7}}, {}, {},
			}
			term, descr, _ := c17RunMux(cs, ds, 4, script, true)
			cs.Add(id, "directed:nil-message-then-next", true, term, descr)
		}
	}

	// directed: a full-size packet on a channel whose id needs a two-byte varint (finding F34:
	// maxPacketMsgSize used to be computed for channel id 0x01)
	{
		id := cs.NextID()
		if cs.Want(id) {
			ds := []c17Desc{{id: 0xff, prio: 1, qcap: 1, rcap: 4096}, {id: 0x7f, prio: 1, qcap: 1, rcap: 4096}}
			script := []c17Op{{send: true, ch: 0x7f, msg: c17Msg(1, 1024)}, {send: true, ch: 0xff, msg: c17Msg(2, 1030)}}
			term, descr, _ := c17RunMux(cs, ds, defaultMaxPacketMsgPayloadSize, script, true)
			cs.Add(id, "directed:full-packet-on-channel-0xff", true, term, descr)
		}
	}

	// directed: size mixes across the receive buffer capacity followed by degenerate messages on
	// the same channel, other channels in between (the reassembly buffer is replaced by append
	// when a message outgrows it; the next, empty message must still be delivered)
	for _, dm := range c17DirectedMixes() {
		id := cs.NextID()
		if cs.Want(id) {
			var script []c17Op
			for i, m := range dm.sched {
				script = append(script, c17Op{send: true, ch: m.ch, msg: c17Msg(byte(31*i+7), m.n)})
				for x := 0; x < dm.stepsBetween; x++ {
					script = append(script, c17Op{})
				}
			}
			term, descr, _ := c17RunMux(cs, dm.ds, dm.maxsz, script, true)
			cs.Add(id, "directed:"+dm.name, true, term, descr)
		}
	}

	n := vg.Scale(170, 12000)
	for k := 0; k < n; k++ {
		id := cs.NextID()
		if !cs.Want(id) {
			continue
		}
		r := root.Fork(uint64(k))
		maxsz := c17MaxSz(r, k)
		ds := c17GenDescs(r, maxsz)
		big := maxsz == defaultMaxPacketMsgPayloadSize
		nops := 4 + r.Intn(24)
		if big {
			nops = 4 + r.Intn(10)
		}
		allowOver := r.Chance(25)
		var script []c17Op
		seed := byte(r.Intn(256))
		for i := 0; i < nops; i++ {
			if r.Chance(55) {
				d := ds[r.Intn(len(ds))]
				ch := d.id
				if r.Chance(3) {
					ch = 0xEE // unknown channel
				}
				seed += 17
				sz := c17Size(r, maxsz, d, allowOver)
				script = append(script, c17Op{send: true, ch: ch, msg: c17Msg(seed, sz)})
				// a message at or beyond the buffer capacity: mostly followed, on the same
				// channel, by a degenerate one (and that by another), with sendPacketMsg steps
				// and traffic of other channels in between
				for f := 0; f < 2 && sz >= d.bufcap()-1 && sz <= d.rcap && ch == d.id && r.Chance(65-25*f); f++ {
					for x := r.Intn(3); x > 0; x-- {
						script = append(script, c17Op{})
					}
					if len(ds) > 1 && r.Chance(30) {
						o := ds[r.Intn(len(ds))]
						seed += 17
						script = append(script, c17Op{send: true, ch: o.id, msg: c17Msg(seed, c17Size(r, maxsz, o, false))})
					}
					seed += 17
					script = append(script, c17Op{send: true, ch: ch, msg: c17Msg(seed, c17After(r, maxsz, d))})
				}
			} else {
				script = append(script, c17Op{})
			}
		}
		drain := !r.Chance(15)
		term, descr, nt := c17RunMux(cs, ds, maxsz, script, drain)
		kind := "mux"
		if big {
			kind = "mux:payload1024"
		}
		if allowOver {
			kind += ":overcap"
		}
		if !drain {
			kind += ":undrained"
		}
		cs.Add(id, kind, nt, term, descr)
	}
	if err := cs.Write(); err != nil {
		t.Fatal(err)
	}
}

// ---------------------------------------------------------------- TestVerifC17Conc

type c17Job struct {
	ch  byte
	msg []byte
	try bool
}

// c17RunConc: two real started MConnections over net.Pipe; every plan is executed by its own
// goroutine (Send / TrySend in the plan's order); a channel is used by one plan only.
func c17RunConc(cs *vg.Cases, ds []c17Desc, maxsz int, limited bool, plans [][]c17Job) (term, descr string, total int) {
	a, b := net.Pipe()
	var mu sync.Mutex
	var journal []c17JE
	recvErr := make(chan interface{}, 1)
	onReceive := func(ch byte, msg []byte) {
		cp := append([]byte{}, msg...)
		mu.Lock()
		journal = append(journal, c17JE{ch, cp})
		mu.Unlock()
	}
	rcv := NewMConnectionWithConfig(b, c17ChDescs(ds), onReceive, func(e interface{}) {
		select {
		case recvErr <- e:
		default:
		}
	}, c17Cfg(maxsz, limited))
	rcv.SetLogger(log.NewNopLogger())
	snd := NewMConnectionWithConfig(a, c17ChDescs(ds), func(byte, []byte) {}, func(interface{}) {}, c17Cfg(maxsz, limited))
	snd.SetLogger(log.NewNopLogger())
	_ = rcv.Start()
	_ = snd.Start()

	accepted := make([][]c17JE, len(plans))
	var wg sync.WaitGroup
	senderDone := make(chan struct{})
	for i := range plans {
		wg.Add(1)
		go func(i int) {
			defer wg.Done()
			for _, jb := range plans[i] {
				var ok bool
				if jb.try {
					ok = snd.TrySend(jb.ch, jb.msg)
				} else {
					ok = snd.Send(jb.ch, jb.msg)
				}
				if ok {
					accepted[i] = append(accepted[i], c17JE{jb.ch, jb.msg})
				}
			}
		}(i)
	}
	go func() { wg.Wait(); close(senderDone) }()

	var errVal interface{}
	gotErr := false
	select {
	case <-senderDone:
	case errVal = <-recvErr:
		gotErr = true
		// the receiver dropped the connection early: unblock Send calls waiting for queue room
		for drained := false; !drained; {
			select {
			case <-senderDone:
				drained = true
			default:
				for _, c := range snd.channels {
					select {
					case <-c.sendQueue:
					default:
					}
				}
				time.Sleep(time.Millisecond)
			}
		}
	case <-time.After(20 * time.Second):
	}
	if !gotErr {
		// FlushStop sends every accepted message, then closes: the receiver reports io.EOF
		// after it has handled everything that was written
		done := make(chan struct{})
		go func() { snd.FlushStop(); close(done) }()
		select {
		case errVal = <-recvErr:
		case <-time.After(5 * time.Second):
			errVal = "HARNESS: receiver did not see the end of the stream within 5s"
		}
		select {
		case <-done:
		case <-time.After(5 * time.Second):
		}
	}
	_ = snd.Stop()
	_ = rcv.Stop()
	a.Close()
	b.Close()
	realErr := !(errVal == io.EOF)
	mu.Lock()
	j := append([]c17JE{}, journal...)
	mu.Unlock()

	var accC, accH []string
	perCh := map[byte][][]byte{}
	for i := range plans {
		var xs, hs []string
		for _, e := range accepted[i] {
			xs = append(xs, vg.Tup(vg.Z(int64(e.ch)), c17B(e.msg)))
			hs = append(hs, fmt.Sprintf("ch%d:%s", e.ch, c17Short(e.msg)))
			perCh[e.ch] = append(perCh[e.ch], e.msg)
			total++
		}
		accC = append(accC, vg.L(xs))
		accH = append(accH, fmt.Sprintf("goroutine %d: Send/TrySend accepted, in this order, [%s]", i, strings.Join(hs, " ")))
	}
	for _, d := range ds {
		c17Tally(cs, maxsz, d, perCh[d.id])
	}
	jc, jh := c17Journal(j)
	term = vg.App("CConc", vg.Nat(maxsz), c17DescsCoq(ds), c17BcapsCoq(ds), vg.L(accC), jc, vg.B(realErr))
	descr = fmt.Sprintf("two MConnections over net.Pipe, MaxPacketMsgPayloadSize=%d rateLimited=%v channels=[%s]; %s | receiver journal: %s | receiver error: %v",
		maxsz, limited, c17DescsHuman(ds), strings.Join(accH, "; "), jh, errVal)
	return term, descr, total
}

func TestVerifC17Conc(t *testing.T) {
	cs := vg.NewCases("C17", "c17_conc", "TM.C17.Exec")
	root := vg.NewRand(vg.Seed())

	// directed: the size mixes across the receive buffer capacity, one goroutine sending the
	// schedule in order on both channels
	for _, dm := range c17DirectedMixes() {
		id := cs.NextID()
		if cs.Want(id) {
			var plan []c17Job
			for i, m := range dm.sched {
				plan = append(plan, c17Job{ch: m.ch, msg: c17Msg(byte(31*i+7), m.n)})
			}
			term, descr, _ := c17RunConc(cs, dm.ds, dm.maxsz, false, [][]c17Job{plan})
			cs.Add(id, "directed:"+dm.name, true, term, descr)
		}
	}

	n := vg.Scale(50, 3000)
	for k := 0; k < n; k++ {
		id := cs.NextID()
		if !cs.Want(id) {
			continue
		}
		r := root.Fork(uint64(k))
		maxsz := c17MaxSz(r, k)
		ds := c17GenDescs(r, maxsz)
		big := maxsz == defaultMaxPacketMsgPayloadSize
		limited := r.Chance(10) && !big // default 500 kB/s rate limiting in a few cases

		// per channel one goroutine with its message list
		plans := make([][]c17Job, len(ds))
		seed := byte(r.Intn(256))
		for i, d := range ds {
			m := 1 + r.Intn(8)
			if big {
				m = 1 + r.Intn(5)
			}
			prev := -1
			for x := 0; x < m; x++ {
				seed += 29
				sz := c17Size(r, maxsz, d, false)
				// right behind a message at or beyond the buffer capacity: mostly a degenerate one
				if prev >= d.bufcap()-1 && r.Chance(60) {
					sz = c17After(r, maxsz, d)
				}
				plans[i] = append(plans[i], c17Job{d.id, c17Msg(seed, sz), r.Chance(30)})
				prev = sz
			}
		}
		term, descr, total := c17RunConc(cs, ds, maxsz, limited, plans)
		kind := "conc"
		if limited {
			kind = "conc:ratelimited"
		}
		if big {
			kind += ":payload1024"
		}
		cs.Add(id, kind, total >= 3 && len(ds) >= 2, term, descr)
	}
	if err := cs.Write(); err != nil {
		t.Fatal(err)
	}
}

// ---------------------------------------------------------------- TestVerifC17Hostile

type c17Item struct {
	kind string // msg, ping, pong, unknown, oversize, garbage
	ch   int32
	eof  bool
	data []byte
}

func (it c17Item) coq() string {
	switch it.kind {
	case "msg":
		return vg.App("HMsg", vg.Z(int64(it.ch)), vg.B(it.eof), c17B(it.data))
	case "ping":
		return "HPing"
	case "pong":
		return "HPong"
	case "unknown":
		return "HUnknown"
	case "oversize":
		return "HOversize"
	}
	return "HGarbage"
}

func (it c17Item) human() string {
	if it.kind == "msg" {
		return fmt.Sprintf("PacketMsg{ChannelID:%d EOF:%v Data:%s}", it.ch, it.eof, c17Short(it.data))
	}
	return it.kind
}

// wire bytes of an item for a receiver whose packet size limit is maxPkt
func (it c17Item) wire(r *vg.Rand, maxPkt int) []byte {
	switch it.kind {
	case "msg":
		return c17Enc(&tmp2p.Packet{Sum: &tmp2p.Packet_PacketMsg{PacketMsg: &tmp2p.PacketMsg{ChannelID: it.ch, EOF: it.eof, Data: it.data}}})
	case "ping":
		return c17Enc(&tmp2p.Packet{Sum: &tmp2p.Packet_PacketPing{PacketPing: &tmp2p.PacketPing{}}})
	case "pong":
		return c17Enc(&tmp2p.Packet{Sum: &tmp2p.Packet_PacketPong{PacketPong: &tmp2p.PacketPong{}}})
	case "unknown":
		if r.Bool() {
			return []byte{0} // zero-length Packet: no Sum
		}
		return []byte{2, 0x20, 0x01} // Packet with only an unknown varint field 4
	case "oversize":
		ln := uint64(maxPkt + 1 + r.Intn(3))
		if r.Chance(30) {
			ln = uint64(1) << uint(20+r.Intn(30))
		}
		return append(c17Varint(ln), r.Bytes(8)...)
	}
	// garbage: a length-delimited field 3 (PacketMsg) announcing more bytes than present
	return []byte{3, 0x1a, 0x05, 0x08}
}

func TestVerifC17Hostile(t *testing.T) {
	cs := vg.NewCases("C17", "c17_hostile", "TM.C17.Exec")
	root := vg.NewRand(vg.Seed())
	n := vg.Scale(170, 12000)
	for k := 0; k < n; k++ {
		id := cs.NextID()
		if !cs.Want(id) {
			continue
		}
		r := root.Fork(uint64(k))
		maxsz := c17MaxSz(r, k)
		ds := c17GenDescs(r, maxsz)
		rc := c17NewRecv(ds, maxsz)
		maxPkt := rc.mc._maxPacketMsgSize

		// mostly valid stream with one hostile item somewhere (or none)
		nitems := 3 + r.Intn(18)
		hostileAt := -1
		if r.Chance(80) {
			hostileAt = r.Intn(nitems)
		}
		hk := r.Intn(9)
		kind := "clean"
		var items []c17Item
		seed := byte(r.Intn(256))
		inbuf := map[byte]int{} // bytes of the message in progress, per channel, as the generator sees it
		after := -1             // index in ds of a channel that has just completed a message at or beyond its buffer capacity
		for i := 0; i < nitems; i++ {
			di := r.Intn(len(ds))
			if after >= 0 && r.Chance(60) {
				di = after
			}
			d := ds[di]
			seed += 13
			sz := r.Intn(maxsz + 1)
			if r.Chance(12) {
				sz = 0
			} else if r.Chance(25) {
				sz = maxsz
			}
			it := c17Item{kind: "msg", ch: int32(d.id), eof: r.Chance(45), data: c17Msg(seed, sz)}
			if di == after && r.Chance(70) {
				// right behind a message that outgrew (or just filled) the receive buffer: an empty
				// or one-byte message in a single packet
				it.eof = true
				it.data = c17Msg(seed, r.Intn(5)/4)
				cs.Count("hostile-stream:degenerate-msg-after-msg>=bufcap-1", 1)
			}
			after = -1
			if i != hostileAt {
				tot := inbuf[d.id] + len(it.data)
				if it.eof {
					if tot >= d.bufcap()-1 && tot <= d.rcap {
						after = di
					}
					tot = 0
				}
				inbuf[d.id] = tot
			}
			if r.Chance(8) {
				it = c17Item{kind: []string{"ping", "pong"}[r.Intn(2)]}
			}
			if i == hostileAt {
				switch hk {
				case 0:
					kind = "unknown-channel"
					it.ch = 0xEE
				case 1:
					kind = "channel-id-plus-256" // byte(ChannelID) would alias a known channel
					it.ch = int32(d.id) + 256*int32(1+r.Intn(3))
				case 2:
					kind = "negative-channel-id"
					it.ch = int32(d.id) - 256
				case 3:
					kind = "unknown-packet-type"
					it = c17Item{kind: "unknown"}
				case 4:
					kind = "oversize-length-prefix"
					it = c17Item{kind: "oversize"}
				case 5:
					kind = "undecodable"
					it = c17Item{kind: "garbage"}
				case 6, 7:
					// never-EOF flood on one channel until well past its capacity
					kind = "never-eof-flood"
					for sent := 0; sent <= d.rcap+2*maxsz; sent += maxsz {
						seed += 13
						items = append(items, c17Item{kind: "msg", ch: int32(d.id), eof: false, data: c17Msg(seed, maxsz)})
					}
					continue
				case 8:
					// a packet whose payload is above the sender-side limit (EOF omitted so that the
					// encoding still fits the reader's packet size limit): only the capacity counts
					kind = "payload-above-sender-limit"
					it = c17Item{kind: "msg", ch: int32(d.id), eof: false, data: c17Msg(seed, maxsz+2)}
				}
			}
			items = append(items, it)
		}

		var bufs [][]int64
		var nils [][]bool
		dead := false
		for _, it := range items {
			ok := rc.write(it.wire(r, maxPkt))
			if ok && !dead {
				if rc.barrier() {
					bufs = append(bufs, rc.lens())
					nils = append(nils, rc.nils())
				} else {
					dead = true
				}
			} else {
				dead = true
			}
		}
		if dead { // the stream stopped being served: give a loaded machine time to report why
			select {
			case <-rc.errCh:
			case <-time.After(20 * time.Second):
			}
		}
		time.Sleep(300 * time.Microsecond)
		j, errored, nAtErr, errVal := rc.snapshot()
		rc.close()

		var ic, ih, bc, nc []string
		for _, it := range items {
			ic = append(ic, it.coq())
			ih = append(ih, it.human())
		}
		for _, b := range bufs {
			bc = append(bc, vg.ZL(b))
		}
		for _, nl := range nils {
			xs := make([]string, len(nl))
			for i, v := range nl {
				xs[i] = vg.B(v)
			}
			nc = append(nc, vg.L(xs))
		}
		dc := make([]string, len(ds))
		for i, d := range ds {
			dc[i] = vg.Tup(vg.Z(int64(d.id)), vg.Z(int64(d.rcap)))
		}
		jc, jh := c17Journal(j)
		term := vg.App("CHostile", vg.L(dc), c17BcapsCoq(ds), vg.L(ic), vg.L(bc), vg.L(nc), vg.B(errored), vg.Z(int64(nAtErr)), jc)
		descr := fmt.Sprintf("raw stream into a started MConnection (MaxPacketMsgPayloadSize=%d, channels=[%s]): %s | len(recving) after each item: %v | recving==nil after each item: %v | onError=%v (%v) journal at error=%d | journal: %s",
			maxsz, c17DescsHuman(ds), strings.Join(ih, "; "), bufs, nils, errored, errVal, nAtErr, jh)
		cs.Add(id, "hostile:"+kind, true, term, descr)
	}
	if err := cs.Write(); err != nil {
		t.Fatal(err)
	}
}

// ---------------------------------------------------------------- TestVerifC17Recover
//
// The anchored mechanism "a panic in the send/recv routine of a connection becomes an error of
// that peer" (MConnection._recover, deferred by sendRoutine and recvRoutine): REAL started
// MConnection pairs, several of them served by one process; on one of them onReceive (in
// production: a reactor's Receive) panics on a marked message, or the transport panics inside
// sendRoutine.  A panic that escapes its goroutine kills the process, so the family runs in a
// CHILD process (this test binary re-executed with VERIF_C17_CHILD set); a child that dies is an
// observation ("node crashed") of the case it was running, and the parent starts another child
// for the remaining cases.

type c17RecCase struct {
	kind      int // 1 onReceive panics on the marked message, 2 the transport's Write panics in sendRoutine
	maxsz     int
	ds        []c17Desc
	sched     []c17Job // sent on the victim pair, in this order, by one goroutine
	marked    int      // index in sched of the marked message (kind 2: the transport is armed before it)
	panicKind int
	nOthers   int
}

const c17MarkSeed = 0xEE

var c17PanicTexts = []string{"boom in Receive", "wrapped boom", "assignment to entry in nil map", "index out of range", "reactor failure value 42"}

type c17PanicVal struct{ code int }

func (v c17PanicVal) String() string { return fmt.Sprintf("reactor failure value %d", v.code) }

func c17DoPanic(kind int) {
	switch kind {
	case 0:
		panic("boom in Receive")
	case 1:
		panic(fmt.Errorf("wrapped boom: %w", io.ErrUnexpectedEOF))
	case 2:
		var m map[string]int
		m["x"] = 1
	case 3:
		var s []int
		i := 3
		_ = s[i]
	}
	panic(c17PanicVal{42})
}

// a pure function of the seed and k: the parent and the child both compute it
func c17GenRecCase(root *vg.Rand, k int) c17RecCase {
	r := root.Fork(uint64(k))
	c := c17RecCase{kind: 1, panicKind: r.Intn(5), nOthers: 1 + r.Intn(2)}
	if k%5 == 4 {
		c.kind = 2
	}
	c.maxsz = []int{1, 2, 3, 4, 5, 8, 16}[r.Intn(7)]
	c.ds = c17GenDescs(r, c.maxsz)
	for i := range c.ds {
		c.ds[i].qcap = 8
	}
	n := 1 + r.Intn(7)
	c.marked = r.Intn(n)
	seed := byte(r.Intn(200))
	for i := 0; i < n; i++ {
		d := c.ds[r.Intn(len(c.ds))]
		sz := c17Size(r, c.maxsz, d, false)
		seed += 7
		if seed == c17MarkSeed {
			seed++
		}
		s := seed
		if i == c.marked && c.kind == 1 {
			s = c17MarkSeed
			if sz == 0 {
				sz = 1
			}
		}
		c.sched = append(c.sched, c17Job{ch: d.id, msg: c17Msg(s, sz)})
	}
	return c
}

type c17RecObs struct {
	K           int
	Accepted    []bool // per sched entry: Send returned true
	Reached     bool
	NErr        int
	ErrHasPanic bool
	ErrText     string
	Running     bool
	SendAfter   bool
	DelivCh     []int
	DelivMsg    [][]byte
	NAtErr      int
	Others      []bool
	Notes       []string
}

// a transport whose Write panics once armed (inside sendRoutine: bufio flush -> conn.Write)
type c17PanicConn struct {
	net.Conn
	armed, fired int32
}

func (c *c17PanicConn) Write(p []byte) (int, error) {
	if atomic.LoadInt32(&c.armed) == 1 && atomic.CompareAndSwapInt32(&c.fired, 0, 1) {
		panic("boom in transport Write")
	}
	return c.Conn.Write(p)
}

type c17Link struct {
	snd, rcv *MConnection
	mu       sync.Mutex
	journal  []c17JE
	errs     []interface{}
	nAtErr   int
	reached  int32
}

func (l *c17Link) snap() (j []c17JE, errs []interface{}, nAtErr int) {
	l.mu.Lock()
	defer l.mu.Unlock()
	return append([]c17JE{}, l.journal...), append([]interface{}{}, l.errs...), l.nAtErr
}

// one pair over net.Pipe; panicOn: onReceive of the receiving end panics on marked messages;
// pconn: wrap the SENDING end's transport
func c17NewLink(ds []c17Desc, maxsz int, panicKind int, panicOn bool, pconn **c17PanicConn, victimIsSender bool) *c17Link {
	a, b := net.Pipe()
	l := &c17Link{}
	onReceive := func(ch byte, msg []byte) {
		if panicOn && len(msg) > 0 && msg[0] == c17MarkSeed {
			atomic.StoreInt32(&l.reached, 1)
			c17DoPanic(panicKind)
		}
		cp := append([]byte{}, msg...)
		l.mu.Lock()
		l.journal = append(l.journal, c17JE{ch, cp})
		l.mu.Unlock()
	}
	onErr := func(e interface{}) {
		l.mu.Lock()
		l.errs = append(l.errs, e)
		if len(l.errs) == 1 {
			l.nAtErr = len(l.journal)
		}
		l.mu.Unlock()
	}
	nop := func(interface{}) {}
	var sconn net.Conn = a
	if pconn != nil {
		*pconn = &c17PanicConn{Conn: a}
		sconn = *pconn
	}
	rerr, serr := onErr, nop
	if victimIsSender {
		rerr, serr = nop, onErr
	}
	l.rcv = NewMConnectionWithConfig(b, c17ChDescs(ds), onReceive, rerr, c17Cfg(maxsz, false))
	l.rcv.SetLogger(log.NewNopLogger())
	l.snd = NewMConnectionWithConfig(sconn, c17ChDescs(ds), func(byte, []byte) {}, serr, c17Cfg(maxsz, false))
	l.snd.SetLogger(log.NewNopLogger())
	_ = l.rcv.Start()
	_ = l.snd.Start()
	return l
}

func (l *c17Link) close() {
	_ = l.snd.Stop()
	_ = l.rcv.Stop()
}

func c17Wait(d time.Duration, f func() bool) bool {
	for t0 := time.Now(); time.Since(t0) < d; time.Sleep(200 * time.Microsecond) {
		if f() {
			return true
		}
	}
	return f()
}

// runs in the child
func c17RunRecCase(k int, c c17RecCase) c17RecObs {
	o := c17RecObs{K: k}
	var pc *c17PanicConn
	var victim *c17Link
	if c.kind == 1 {
		victim = c17NewLink(c.ds, c.maxsz, c.panicKind, true, nil, false)
	} else {
		victim = c17NewLink(c.ds, c.maxsz, c.panicKind, false, &pc, true)
	}
	defer victim.close()
	ods := []c17Desc{{id: 1, prio: 1, qcap: 8, rcap: 64}}
	var others []*c17Link
	for i := 0; i < c.nOthers; i++ {
		l := c17NewLink(ods, 8, 0, false, nil, false)
		defer l.close()
		others = append(others, l)
	}
	var want [][]byte
	sendOthers := func(tag byte) {
		for x := 0; x < 3; x++ {
			m := c17Msg(tag+byte(x), 1+x*5)
			for _, l := range others {
				l.snd.Send(1, m)
			}
			want = append(want, m)
		}
	}
	sendOthers(0x10)
	vmc := victim.rcv
	if c.kind == 2 {
		vmc = victim.snd
	}
	for i, jb := range c.sched {
		if c.kind == 2 && i == c.marked {
			// everything so far is on the wire; from now on the transport panics when written to
			c17Wait(time.Second, func() bool { j, _, _ := victim.snap(); return len(j) >= i })
			atomic.StoreInt32(&pc.armed, 1)
		}
		o.Accepted = append(o.Accepted, victim.snd.Send(jb.ch, jb.msg))
	}
	reached := func() bool {
		if c.kind == 2 {
			return atomic.LoadInt32(&pc.fired) == 1
		}
		return atomic.LoadInt32(&victim.reached) == 1
	}
	o.Reached = c17Wait(2*time.Second, reached)
	// give the recovery (stop + onError) time to happen; when it never does, this is the full wait
	c17Wait(300*time.Millisecond, func() bool { _, e, _ := victim.snap(); return len(e) > 0 && !vmc.IsRunning() })
	time.Sleep(2 * time.Millisecond)
	sendOthers(0x40)
	for _, l := range others {
		l := l
		ok := c17Wait(2*time.Second, func() bool { j, _, _ := l.snap(); return len(j) >= len(want) })
		j, errs, _ := l.snap()
		ok = ok && len(j) == len(want) && len(errs) == 0 && l.rcv.IsRunning() && l.snd.IsRunning()
		for i := 0; ok && i < len(want); i++ {
			ok = j[i].ch == 1 && bytes.Equal(j[i].msg, want[i])
		}
		o.Others = append(o.Others, ok)
	}
	j, errs, nAtErr := victim.snap()
	o.NErr, o.NAtErr = len(errs), nAtErr
	if len(errs) > 0 {
		o.ErrText = fmt.Sprint(errs[0])
		txt := c17PanicTexts[c.panicKind]
		if c.kind == 2 {
			txt = "boom in transport Write"
		}
		o.ErrHasPanic = strings.Contains(o.ErrText, txt)
	} else {
		o.NAtErr = len(j)
	}
	o.Running = vmc.IsRunning()
	o.SendAfter = vmc.Send(c.ds[0].id, []byte{1})
	for _, e := range j {
		o.DelivCh = append(o.DelivCh, int(e.ch))
		o.DelivMsg = append(o.DelivMsg, e.msg)
	}
	return o
}

// TestVerifC17RecoverChild does nothing unless this binary was re-executed by TestVerifC17Recover.
func TestVerifC17RecoverChild(t *testing.T) {
	out := os.Getenv("VERIF_C17_CHILD")
	if out == "" {
		return
	}
	var from, to int
	fmt.Sscan(os.Getenv("VERIF_C17_FROM"), &from)
	fmt.Sscan(os.Getenv("VERIF_C17_TO"), &to)
	f, err := os.OpenFile(out, os.O_APPEND|os.O_CREATE|os.O_WRONLY, 0o644)
	if err != nil {
		t.Fatal(err)
	}
	defer f.Close()
	root := vg.NewRand(vg.Seed() ^ 0xC17EC0)
	for k := from; k < to; k++ {
		fmt.Fprintf(f, "START %d\n", k)
		_ = f.Sync()
		o := c17RunRecCase(k, c17GenRecCase(root, k))
		js, _ := json.Marshal(o)
		fmt.Fprintf(f, "DONE %s\n", js)
		_ = f.Sync()
	}
}

func TestVerifC17Recover(t *testing.T) {
	if os.Getenv("VERIF_C17_CHILD") != "" {
		return
	}
	cs := vg.NewCases("C17", "c17_recover", "TM.C17.Exec")
	root := vg.NewRand(vg.Seed() ^ 0xC17EC0)
	n := vg.Scale(30, 1500)
	ids := make([]int, n)
	for k := range ids {
		ids[k] = cs.NextID()
	}
	outFile := filepath.Join(os.TempDir(), fmt.Sprintf("verif_c17_recover_%d.jsonl", os.Getpid()))
	defer os.Remove(outFile)
	obs := map[int]*c17RecObs{}
	crashed := map[int]string{}
	lo, hi := 0, n
	if only := vg.Only(); only >= 0 {
		lo, hi = n, n
		for k, id := range ids {
			if id == only {
				lo, hi = k, k+1
			}
		}
	}
	for from := lo; from < hi; {
		_ = os.Remove(outFile)
		ctx, cancel := context.WithTimeout(context.Background(), 5*time.Minute)
		cmd := exec.CommandContext(ctx, os.Args[0], "-test.run=^TestVerifC17RecoverChild$", "-test.count=1", "-test.timeout=10m")
		cmd.Env = append(os.Environ(), "VERIF_C17_CHILD="+outFile, fmt.Sprintf("VERIF_C17_FROM=%d", from), fmt.Sprintf("VERIF_C17_TO=%d", hi))
		outb, runErr := cmd.CombinedOutput()
		cancel()
		next := hi
		started := -1
		if bz, err := os.ReadFile(outFile); err == nil {
			for _, ln := range strings.Split(string(bz), "\n") {
				switch {
				case strings.HasPrefix(ln, "START "):
					fmt.Sscan(ln[6:], &started)
				case strings.HasPrefix(ln, "DONE "):
					var o c17RecObs
					if json.Unmarshal([]byte(ln[5:]), &o) == nil {
						obs[o.K] = &o
						started = -1
					}
				}
			}
		}
		if started >= 0 { // the child died while running this case
			tail := string(outb)
			if i := strings.Index(tail, "panic:"); i >= 0 {
				tail = tail[i:]
			}
			if len(tail) > 300 {
				tail = tail[:300]
			}
			crashed[started] = fmt.Sprintf("child process died (%v): %s", runErr, strings.ReplaceAll(tail, "\n", " | "))
			next = started + 1
		} else if runErr != nil && len(obs) == 0 {
			t.Fatalf("HARNESS: child could not run: %v\n%s", runErr, outb)
		}
		from = next
	}
	for k := lo; k < hi; k++ {
		c := c17GenRecCase(root, k)
		o := obs[k]
		isCrash := false
		if o == nil {
			isCrash = true
			o = &c17RecObs{K: k}
			if crashed[k] == "" {
				crashed[k] = "child process produced no result for this case"
			}
			o.Notes = append(o.Notes, crashed[k])
		}
		var accC, accH []string
		marked := -1
		for i, jb := range c.sched {
			if i < len(o.Accepted) && o.Accepted[i] || isCrash {
				if i == c.marked && c.kind == 1 {
					marked = len(accC)
				}
				accC = append(accC, vg.Tup(vg.Z(int64(jb.ch)), c17B(jb.msg)))
				h := fmt.Sprintf("ch%d:%s", jb.ch, c17Short(jb.msg))
				if i == c.marked {
					if c.kind == 1 {
						h += "[MARKED: onReceive panics]"
					} else {
						h = "[transport armed: next Write panics] " + h
					}
				}
				accH = append(accH, h)
			}
		}
		var j []c17JE
		for i := range o.DelivCh {
			j = append(j, c17JE{byte(o.DelivCh[i]), o.DelivMsg[i]})
		}
		jc, jh := c17Journal(j)
		oc := make([]string, len(o.Others))
		for i, b := range o.Others {
			oc[i] = vg.B(b)
		}
		term := vg.App("CRecover", vg.N(uint64(c.kind)), vg.Nat(c.maxsz), c17DescsCoq(c.ds), vg.L(accC), vg.Z(int64(marked)),
			vg.B(isCrash), vg.B(o.Reached), vg.Z(int64(o.NErr)), vg.B(o.ErrHasPanic), vg.B(o.Running), vg.B(o.SendAfter),
			jc, vg.Z(int64(o.NAtErr)), vg.L(oc))
		what := "onReceive of the receiving MConnection panics (" + c17PanicTexts[c.panicKind] + ") on the message whose first byte is 0xee"
		if c.kind == 2 {
			what = "the sending MConnection's net.Conn panics in Write (inside sendRoutine) once armed"
		}
		descr := fmt.Sprintf("one process serving %d MConnection pairs over net.Pipe; victim pair: MaxPacketMsgPayloadSize=%d channels=[%s], %s; Send accepted in this order [%s]; the other pairs get 3 messages before and 3 after | process died=%v reached=%v onError calls=%d (%q) victim.IsRunning=%v Send afterwards=%v journal: %s (at error: %d) others ok=%v | %s",
			1+c.nOthers, c.maxsz, c17DescsHuman(c.ds), what, strings.Join(accH, " "), isCrash, o.Reached, o.NErr, o.ErrText, o.Running, o.SendAfter, jh, o.NAtErr, o.Others, strings.Join(o.Notes, "; "))
		kind := "recover:onReceive-panics"
		if c.kind == 2 {
			kind = "recover:transport-write-panics-in-sendRoutine"
		}
		cs.Add(ids[k], kind, true, term, descr)
	}
	if err := cs.Write(); err != nil {
		t.Fatal(err)
	}
}
