//go:build verif

// C17 layer A — the multiplexing logic of MConnection against coq/C17/Model.v.
//
//	TestVerifC17Mux      the sending half driven step by step (real Channel.trySendBytes, the real
//	                     MConnection.sendPacketMsg incl. its scheduler, not started so that no goroutine
//	                     interferes); every packet it writes is recorded and the byte stream is then
//	                     read by a real, started MConnection over net.Pipe (onReceive journal).
//	TestVerifC17Conc     two real started MConnections over net.Pipe, one sending goroutine per channel
//	                     (Send / TrySend), FlushStop, journal of the receiver.
//	TestVerifC17Hostile  raw packet streams written to the pipe of a real started MConnection: unknown
//	                     channel, channel ids outside a byte, never-EOF, over capacity, unknown packet
//	                     type, oversize length prefix, undecodable bytes; ping/pong barrier after every
//	                     item to read len(ch.recving).
package conn

import (
	"bytes"
	"fmt"
	"io"
	"net"
	"strings"
	"sync"
	"testing"
	"time"

	"github.com/gogo/protobuf/proto"

	vg "github.com/tendermint/tendermint/internal/verifgen"
	"github.com/tendermint/tendermint/libs/log"
	"github.com/tendermint/tendermint/libs/protoio"
	"github.com/tendermint/tendermint/libs/timer"
	tmp2p "github.com/tendermint/tendermint/proto/tendermint/p2p"
)

// ---------------------------------------------------------------- shared helpers

type c17Desc struct {
	id   byte
	prio int
	qcap int
	rcap int
}

func c17ChDescs(ds []c17Desc) []*ChannelDescriptor {
	out := make([]*ChannelDescriptor, len(ds))
	for i, d := range ds {
		out[i] = &ChannelDescriptor{ID: d.id, Priority: d.prio, SendQueueCapacity: d.qcap, RecvMessageCapacity: d.rcap}
	}
	return out
}

func c17Cfg(maxsz int, limited bool) MConnConfig {
	cfg := DefaultMConnConfig()
	cfg.MaxPacketMsgPayloadSize = maxsz
	cfg.FlushThrottle = time.Millisecond
	if !limited {
		cfg.SendRate, cfg.RecvRate = 0, 0 // flowrate: rate < 1 = unlimited
	}
	return cfg
}

type c17JE struct {
	ch  byte
	msg []byte
}

// c17Recv is a real started MConnection reading from one end of a net.Pipe; the harness owns the
// other end (raw).
type c17Recv struct {
	mc       *MConnection
	raw      net.Conn
	mu       sync.Mutex
	journal  []c17JE
	errored  bool
	errVal   interface{}
	nAtErr   int
	errCh    chan struct{}
	pongs    chan struct{}
	descs    []c17Desc
	panicked bool
}

func c17NewRecv(ds []c17Desc, maxsz int) *c17Recv {
	a, b := net.Pipe()
	r := &c17Recv{raw: b, errCh: make(chan struct{}), pongs: make(chan struct{}, 64), descs: ds}
	onReceive := func(chID byte, msg []byte) {
		cp := append([]byte{}, msg...) // the slice is the channel's buffer: copy at delivery time
		r.mu.Lock()
		r.journal = append(r.journal, c17JE{chID, cp})
		r.mu.Unlock()
	}
	onError := func(e interface{}) {
		r.mu.Lock()
		if !r.errored {
			r.errored, r.errVal, r.nAtErr = true, e, len(r.journal)
			close(r.errCh)
		}
		r.mu.Unlock()
	}
	r.mc = NewMConnectionWithConfig(a, c17ChDescs(ds), onReceive, onError, c17Cfg(maxsz, false))
	r.mc.SetLogger(log.NewNopLogger())
	if err := r.mc.Start(); err != nil {
		panic(err)
	}
	// read whatever the receiver sends back (pongs, pings)
	go func() {
		rd := protoio.NewDelimitedReader(b, 1<<20)
		for {
			var p tmp2p.Packet
			if _, err := rd.ReadMsg(&p); err != nil {
				return
			}
			if _, ok := p.Sum.(*tmp2p.Packet_PacketPong); ok {
				select {
				case r.pongs <- struct{}{}:
				default:
				}
			}
		}
	}()
	return r
}

func (r *c17Recv) write(bz []byte) bool {
	_ = r.raw.SetWriteDeadline(time.Now().Add(2 * time.Second))
	_, err := r.raw.Write(bz)
	return err == nil
}

// barrier: everything written before it has been handled by recvRoutine when it returns true.
func (r *c17Recv) barrier() bool {
	if !r.write(c17Enc(&tmp2p.Packet{Sum: &tmp2p.Packet_PacketPing{PacketPing: &tmp2p.PacketPing{}}})) {
		return false
	}
	select {
	case <-r.pongs:
		return true
	case <-r.errCh:
		return false
	case <-time.After(2 * time.Second):
		return false
	}
}

func (r *c17Recv) lens() []int64 {
	out := make([]int64, len(r.descs))
	for i, d := range r.descs {
		out[i] = int64(len(r.mc.channelsIdx[d.id].recving))
	}
	return out
}

func (r *c17Recv) snapshot() (j []c17JE, errored bool, nAtErr int, errVal interface{}) {
	r.mu.Lock()
	defer r.mu.Unlock()
	j = append(j, r.journal...)
	errored, nAtErr, errVal = r.errored, r.nAtErr, r.errVal
	if !errored {
		nAtErr = len(j)
	}
	return
}

func (r *c17Recv) close() {
	_ = r.mc.Stop()
	_ = r.raw.Close()
}

func c17Enc(p *tmp2p.Packet) []byte {
	var buf bytes.Buffer
	if _, err := protoio.NewDelimitedWriter(&buf).WriteMsg(p); err != nil {
		panic(err)
	}
	return buf.Bytes()
}

func c17Varint(n uint64) []byte { return proto.EncodeVarint(n) }

func c17Journal(j []c17JE) (coq string, human string) {
	xs := make([]string, len(j))
	hs := make([]string, len(j))
	for i, e := range j {
		xs[i] = vg.Tup(vg.Z(int64(e.ch)), vg.Hx(e.msg))
		hs[i] = fmt.Sprintf("ch%d:%s", e.ch, c17Short(e.msg))
	}
	return vg.L(xs), strings.Join(hs, " ")
}

func c17Short(b []byte) string {
	if len(b) <= 12 {
		return fmt.Sprintf("%x", b)
	}
	return fmt.Sprintf("%x..(%d bytes, pattern seed %d)", b[:4], len(b), b[0])
}

// message bytes: b[i] = seed + 3*i, so a replay reader can rebuild them from (seed, length)
func c17Msg(seed byte, n int) []byte {
	b := make([]byte, n)
	for i := range b {
		b[i] = seed + byte(3*i)
	}
	return b
}

// a dummy net.Conn for the stepped sender: writes go to a buffer
type c17BufConn struct{ buf bytes.Buffer }

func (c *c17BufConn) Read(p []byte) (int, error)         { return 0, io.EOF }
func (c *c17BufConn) Write(p []byte) (int, error)        { return c.buf.Write(p) }
func (c *c17BufConn) Close() error                       { return nil }
func (c *c17BufConn) LocalAddr() net.Addr                { return &net.TCPAddr{} }
func (c *c17BufConn) RemoteAddr() net.Addr               { return &net.TCPAddr{} }
func (c *c17BufConn) SetDeadline(t time.Time) error      { return nil }
func (c *c17BufConn) SetReadDeadline(t time.Time) error  { return nil }
func (c *c17BufConn) SetWriteDeadline(t time.Time) error { return nil }

func c17DescsCoq(ds []c17Desc) string {
	xs := make([]string, len(ds))
	for i, d := range ds {
		xs[i] = vg.Tup(vg.Z(int64(d.id)), vg.Nat(d.qcap), vg.Z(int64(d.rcap)))
	}
	return vg.L(xs)
}

func c17DescsHuman(ds []c17Desc) string {
	xs := make([]string, len(ds))
	for i, d := range ds {
		xs[i] = fmt.Sprintf("{ID:%d Priority:%d SendQueueCapacity:%d RecvMessageCapacity:%d}", d.id, d.prio, d.qcap, d.rcap)
	}
	return strings.Join(xs, ",")
}

// sizes around the packet payload limit and the receive capacity
func c17Size(r *vg.Rand, maxsz, rcap int, allowOver bool) int {
	var n int
	switch r.Intn(13) {
	case 0, 1:
		n = 0
	case 2:
		n = 1
	case 3:
		n = maxsz - 1
	case 4:
		n = maxsz
	case 5:
		n = maxsz + 1
	case 6:
		n = 2 * maxsz
	case 7:
		n = 2*maxsz + 1
	case 8:
		n = rcap
	case 9:
		n = rcap - 1
	case 10:
		if allowOver && r.Chance(40) {
			n = rcap + 1 + r.Intn(3)
		} else {
			n = r.Intn(rcap + 1)
		}
	default:
		n = r.Intn(rcap + 1)
	}
	if n < 0 {
		n = 0
	}
	if !allowOver && n > rcap {
		n = rcap
	}
	return n
}

func c17GenDescs(r *vg.Rand, maxsz int) []c17Desc {
	n := 1 + r.Intn(4)
	ids := r.Perm(7)
	ds := make([]c17Desc, n)
	for i := range ds {
		id := byte(ids[i])
		if r.Chance(20) {
			id = byte(0x20 + 0x08*ids[i]) // like the real channel ids: 0x20.., 0x30, 0x38, 0x40
		} else if r.Chance(15) {
			id = byte(0x80 + 0x10*ids[i] + r.Intn(16)) // ids whose varint encoding takes two bytes
		}
		rcap := maxsz*(1+r.Intn(4)) + r.Intn(3)
		ds[i] = c17Desc{id: id, prio: 1 + r.Intn(10), qcap: 1 + r.Intn(3), rcap: rcap}
	}
	return ds
}

func c17MaxSz(r *vg.Rand, k int) int {
	if k%16 == 15 {
		return defaultMaxPacketMsgPayloadSize
	}
	return []int{1, 2, 3, 4, 5, 8, 16}[r.Intn(7)]
}

// ---------------------------------------------------------------- TestVerifC17Mux

type c17Op struct {
	send  bool
	ch    byte
	msg   []byte
	ok    bool
	pkt   *tmp2p.PacketMsg
	exh   bool
	human string
}

// c17Stepper drives the real sending code without its goroutines.
type c17Stepper struct {
	mc   *MConnection
	conn *c17BufConn
	off  int
}

func c17NewStepper(ds []c17Desc, maxsz int) *c17Stepper {
	conn := &c17BufConn{}
	mc := NewMConnectionWithConfig(conn, c17ChDescs(ds), func(byte, []byte) {}, func(interface{}) {}, c17Cfg(maxsz, false))
	mc.SetLogger(log.NewNopLogger())
	mc.flushTimer = timer.NewThrottleTimer("flush", time.Hour) // created by OnStart in production
	return &c17Stepper{mc: mc, conn: conn}
}

func (s *c17Stepper) send(ch byte, msg []byte) bool {
	c, ok := s.mc.channelsIdx[ch] // MConnection.TrySend: unknown channel -> false
	if !ok {
		return false
	}
	return c.trySendBytes(msg)
}

// one sendPacketMsg; returns the packet it wrote (nil if none) and its result
func (s *c17Stepper) step() (pkt *tmp2p.PacketMsg, exh bool, err error) {
	exh = s.mc.sendPacketMsg()
	if e := s.mc.bufConnWriter.Flush(); e != nil {
		return nil, exh, e
	}
	all := s.conn.buf.Bytes()
	seg := all[s.off:]
	s.off = len(all)
	if len(seg) == 0 {
		return nil, exh, nil
	}
	rd := protoio.NewDelimitedReader(bytes.NewReader(seg), 1<<24)
	var p tmp2p.Packet
	if _, e := rd.ReadMsg(&p); e != nil {
		return nil, exh, e
	}
	pm, ok := p.Sum.(*tmp2p.Packet_PacketMsg)
	if !ok {
		return nil, exh, fmt.Errorf("sendPacketMsg wrote a non-PacketMsg")
	}
	return pm.PacketMsg, exh, nil
}

func (s *c17Stepper) close() { s.mc.flushTimer.Stop() }

// runs a stepped history, feeds the produced bytes to a real receiver, returns the Coq term
func c17RunMux(ds []c17Desc, maxsz int, script []c17Op, drain bool) (term, descr string, nontrivial bool) {
	st := c17NewStepper(ds, maxsz)
	defer st.close()
	var ops []c17Op
	panicked := ""
	func() {
		defer func() {
			if r := recover(); r != nil {
				panicked = fmt.Sprint(r)
			}
		}()
		for _, o := range script {
			if o.send {
				o.ok = st.send(o.ch, o.msg)
				o.human = fmt.Sprintf("TrySend(%d,%s)=%v", o.ch, c17Short(o.msg), o.ok)
			} else {
				pkt, exh, err := st.step()
				if err != nil {
					panicked = err.Error()
					return
				}
				o.pkt, o.exh = pkt, exh
			}
			ops = append(ops, o)
		}
		if drain {
			for i := 0; i < 100000; i++ {
				pkt, exh, err := st.step()
				if err != nil {
					panicked = err.Error()
					return
				}
				ops = append(ops, c17Op{pkt: pkt, exh: exh})
				if exh {
					break
				}
			}
		}
	}()
	// the bytes the sender wrote, read by a real receiver
	rc := c17NewRecv(ds, maxsz)
	stream := st.conn.buf.Bytes()
	for len(stream) > 0 { // in pieces, so that packets straddle reads
		n := 700
		if n > len(stream) {
			n = len(stream)
		}
		if !rc.write(stream[:n]) {
			break
		}
		stream = stream[n:]
	}
	rc.barrier()
	time.Sleep(200 * time.Microsecond)
	j, errored, _, _ := rc.snapshot()
	rc.close()

	var xs, hs []string
	npk := 0
	for _, o := range ops {
		if o.send {
			xs = append(xs, vg.App("MSend", vg.Z(int64(o.ch)), vg.Hx(o.msg), vg.B(o.ok)))
			hs = append(hs, o.human)
		} else {
			p := "None"
			h := "-"
			if o.pkt != nil {
				npk++
				p = vg.Opt(true, vg.Tup(vg.Z(int64(o.pkt.ChannelID)), vg.B(o.pkt.EOF), vg.Hx(o.pkt.Data)))
				h = fmt.Sprintf("pkt{ch%d eof=%v %s}", o.pkt.ChannelID, o.pkt.EOF, c17Short(o.pkt.Data))
			}
			xs = append(xs, vg.App("MStep", p, vg.B(o.exh)))
			hs = append(hs, fmt.Sprintf("sendPacketMsg()=%v %s", o.exh, h))
		}
	}
	jc, jh := c17Journal(j)
	term = vg.App("CMux", vg.Nat(maxsz), c17DescsCoq(ds), vg.L(xs), vg.B(drain && panicked == ""), jc, vg.B(errored))
	descr = fmt.Sprintf("MaxPacketMsgPayloadSize=%d channels=[%s] ops: %s | receiver onReceive journal: %s | receiver onError=%v",
		maxsz, c17DescsHuman(ds), strings.Join(hs, "; "), jh, errored)
	if panicked != "" {
		descr += " | HARNESS: sender failed: " + panicked
	}
	return term, descr, npk >= 2 && len(ds) >= 2
}

func TestVerifC17Mux(t *testing.T) {
	cs := vg.NewCases("C17", "c17_mux", "TM.C17.Exec")
	root := vg.NewRand(vg.Seed())

	// directed: the F16 history — a zero-length message waits in ch.sending while another channel is served
	{
		id := cs.NextID()
		if cs.Want(id) {
			ds := []c17Desc{{id: 1, prio: 1, qcap: 2, rcap: 64}, {id: 2, prio: 1, qcap: 2, rcap: 64}}
			script := []c17Op{
				{send: true, ch: 1, msg: []byte{0xaa, 0xbb}}, {},
				{send: true, ch: 1, msg: []byte{}}, {send: true, ch: 2, msg: []byte{0xcc}}, {}, {},
			}
			term, descr, _ := c17RunMux(ds, 8, script, true)
			cs.Add(id, "directed:empty-message-behind-other-channel", true, term, descr)
		}
	}
	// directed: same with a nil message, and an empty message followed by another one on its channel
	{
		id := cs.NextID()
		if cs.Want(id) {
			ds := []c17Desc{{id: 1, prio: 1, qcap: 3, rcap: 64}, {id: 2, prio: 5, qcap: 2, rcap: 64}}
			script := []c17Op{
				{send: true, ch: 1, msg: []byte{1, 2, 3}}, {},
				{send: true, ch: 1, msg: nil}, {send: true, ch: 1, msg: []byte{9}}, {send: true, ch: 2, msg: []byte{7, 7, 7, 7, 7}}, {}, {},
			}
			term, descr, _ := c17RunMux(ds, 4, script, true)
			cs.Add(id, "directed:nil-message-then-next", true, term, descr)
		}
	}

	// directed: a full-size packet on a channel whose id needs a two-byte varint (finding F34:
	// maxPacketMsgSize used to be computed for channel id 0x01)
	{
		id := cs.NextID()
		if cs.Want(id) {
			ds := []c17Desc{{id: 0xff, prio: 1, qcap: 1, rcap: 4096}, {id: 0x7f, prio: 1, qcap: 1, rcap: 4096}}
			script := []c17Op{{send: true, ch: 0x7f, msg: c17Msg(1, 1024)}, {send: true, ch: 0xff, msg: c17Msg(2, 1030)}}
			term, descr, _ := c17RunMux(ds, defaultMaxPacketMsgPayloadSize, script, true)
			cs.Add(id, "directed:full-packet-on-channel-0xff", true, term, descr)
		}
	}

	n := vg.Scale(170, 12000)
	for k := 0; k < n; k++ {
		id := cs.NextID()
		if !cs.Want(id) {
			continue
		}
		r := root.Fork(uint64(k))
		maxsz := c17MaxSz(r, k)
		ds := c17GenDescs(r, maxsz)
		big := maxsz == defaultMaxPacketMsgPayloadSize
		nops := 4 + r.Intn(24)
		if big {
			nops = 4 + r.Intn(8)
		}
		allowOver := r.Chance(25)
		var script []c17Op
		seed := byte(r.Intn(256))
		for i := 0; i < nops; i++ {
			if r.Chance(55) {
				d := ds[r.Intn(len(ds))]
				ch := d.id
				if r.Chance(3) {
					ch = 0xEE // unknown channel
				}
				seed += 17
				script = append(script, c17Op{send: true, ch: ch, msg: c17Msg(seed, c17Size(r, maxsz, d.rcap, allowOver))})
			} else {
				script = append(script, c17Op{})
			}
		}
		drain := !r.Chance(15)
		term, descr, nt := c17RunMux(ds, maxsz, script, drain)
		kind := "mux"
		if big {
			kind = "mux:payload1024"
		}
		if allowOver {
			kind += ":overcap"
		}
		if !drain {
			kind += ":undrained"
		}
		cs.Add(id, kind, nt, term, descr)
	}
	if err := cs.Write(); err != nil {
		t.Fatal(err)
	}
}

// ---------------------------------------------------------------- TestVerifC17Conc

func TestVerifC17Conc(t *testing.T) {
	cs := vg.NewCases("C17", "c17_conc", "TM.C17.Exec")
	root := vg.NewRand(vg.Seed())
	n := vg.Scale(50, 3000)
	for k := 0; k < n; k++ {
		id := cs.NextID()
		if !cs.Want(id) {
			continue
		}
		r := root.Fork(uint64(k))
		maxsz := c17MaxSz(r, k)
		ds := c17GenDescs(r, maxsz)
		limited := r.Chance(10) // default 500 kB/s rate limiting in a few cases

		// per channel one goroutine with its message list
		type job struct {
			msg []byte
			try bool
		}
		jobs := make([][]job, len(ds))
		seed := byte(r.Intn(256))
		for i, d := range ds {
			m := 1 + r.Intn(8)
			if maxsz == defaultMaxPacketMsgPayloadSize {
				m = 1 + r.Intn(3)
			}
			for x := 0; x < m; x++ {
				seed += 29
				jobs[i] = append(jobs[i], job{c17Msg(seed, c17Size(r, maxsz, d.rcap, false)), r.Chance(30)})
			}
		}

		a, b := net.Pipe()
		var mu sync.Mutex
		var journal []c17JE
		recvErr := make(chan interface{}, 1)
		onReceive := func(ch byte, msg []byte) {
			cp := append([]byte{}, msg...)
			mu.Lock()
			journal = append(journal, c17JE{ch, cp})
			mu.Unlock()
		}
		rcv := NewMConnectionWithConfig(b, c17ChDescs(ds), onReceive, func(e interface{}) {
			select {
			case recvErr <- e:
			default:
			}
		}, c17Cfg(maxsz, limited))
		rcv.SetLogger(log.NewNopLogger())
		snd := NewMConnectionWithConfig(a, c17ChDescs(ds), func(byte, []byte) {}, func(interface{}) {}, c17Cfg(maxsz, limited))
		snd.SetLogger(log.NewNopLogger())
		_ = rcv.Start()
		_ = snd.Start()

		accepted := make([][]c17JE, len(ds))
		var wg sync.WaitGroup
		senderDone := make(chan struct{})
		for i := range ds {
			wg.Add(1)
			go func(i int) {
				defer wg.Done()
				for _, jb := range jobs[i] {
					var ok bool
					if jb.try {
						ok = snd.TrySend(ds[i].id, jb.msg)
					} else {
						ok = snd.Send(ds[i].id, jb.msg)
					}
					if ok {
						accepted[i] = append(accepted[i], c17JE{ds[i].id, jb.msg})
					}
				}
			}(i)
		}
		go func() { wg.Wait(); close(senderDone) }()

		var errVal interface{}
		gotErr := false
		select {
		case <-senderDone:
		case errVal = <-recvErr:
			gotErr = true
			// the receiver dropped the connection early: unblock Send calls waiting for queue room
			for drained := false; !drained; {
				select {
				case <-senderDone:
					drained = true
				default:
					for _, c := range snd.channels {
						select {
						case <-c.sendQueue:
						default:
						}
					}
					time.Sleep(time.Millisecond)
				}
			}
		case <-time.After(20 * time.Second):
		}
		if !gotErr {
			// FlushStop sends every accepted message, then closes: the receiver reports io.EOF
			// after it has handled everything that was written
			done := make(chan struct{})
			go func() { snd.FlushStop(); close(done) }()
			select {
			case errVal = <-recvErr:
			case <-time.After(5 * time.Second):
				errVal = "HARNESS: receiver did not see the end of the stream within 5s"
			}
			select {
			case <-done:
			case <-time.After(5 * time.Second):
			}
		}
		_ = snd.Stop()
		_ = rcv.Stop()
		a.Close()
		b.Close()
		realErr := !(errVal == io.EOF)
		mu.Lock()
		j := append([]c17JE{}, journal...)
		mu.Unlock()

		var accC, accH []string
		total := 0
		for i := range ds {
			var xs, hs []string
			for _, e := range accepted[i] {
				xs = append(xs, vg.Tup(vg.Z(int64(e.ch)), vg.Hx(e.msg)))
				hs = append(hs, c17Short(e.msg))
				total++
			}
			accC = append(accC, vg.L(xs))
			accH = append(accH, fmt.Sprintf("goroutine %d: Send/TrySend(ch%d) accepted [%s]", i, ds[i].id, strings.Join(hs, " ")))
		}
		jc, jh := c17Journal(j)
		term := vg.App("CConc", vg.Nat(maxsz), c17DescsCoq(ds), vg.L(accC), jc, vg.B(realErr))
		descr := fmt.Sprintf("two MConnections over net.Pipe, MaxPacketMsgPayloadSize=%d rateLimited=%v channels=[%s]; %s | receiver journal: %s | receiver error: %v",
			maxsz, limited, c17DescsHuman(ds), strings.Join(accH, "; "), jh, errVal)
		kind := "conc"
		if limited {
			kind = "conc:ratelimited"
		}
		cs.Add(id, kind, total >= 3 && len(ds) >= 2, term, descr)
	}
	if err := cs.Write(); err != nil {
		t.Fatal(err)
	}
}

// ---------------------------------------------------------------- TestVerifC17Hostile

type c17Item struct {
	kind string // msg, ping, pong, unknown, oversize, garbage
	ch   int32
	eof  bool
	data []byte
}

func (it c17Item) coq() string {
	switch it.kind {
	case "msg":
		return vg.App("HMsg", vg.Z(int64(it.ch)), vg.B(it.eof), vg.Hx(it.data))
	case "ping":
		return "HPing"
	case "pong":
		return "HPong"
	case "unknown":
		return "HUnknown"
	case "oversize":
		return "HOversize"
	}
	return "HGarbage"
}

func (it c17Item) human() string {
	if it.kind == "msg" {
		return fmt.Sprintf("PacketMsg{ChannelID:%d EOF:%v Data:%s}", it.ch, it.eof, c17Short(it.data))
	}
	return it.kind
}

// wire bytes of an item for a receiver whose packet size limit is maxPkt
func (it c17Item) wire(r *vg.Rand, maxPkt int) []byte {
	switch it.kind {
	case "msg":
		return c17Enc(&tmp2p.Packet{Sum: &tmp2p.Packet_PacketMsg{PacketMsg: &tmp2p.PacketMsg{ChannelID: it.ch, EOF: it.eof, Data: it.data}}})
	case "ping":
		return c17Enc(&tmp2p.Packet{Sum: &tmp2p.Packet_PacketPing{PacketPing: &tmp2p.PacketPing{}}})
	case "pong":
		return c17Enc(&tmp2p.Packet{Sum: &tmp2p.Packet_PacketPong{PacketPong: &tmp2p.PacketPong{}}})
	case "unknown":
		if r.Bool() {
			return []byte{0} // zero-length Packet: no Sum
		}
		return []byte{2, 0x20, 0x01} // Packet with only an unknown varint field 4
	case "oversize":
		ln := uint64(maxPkt + 1 + r.Intn(3))
		if r.Chance(30) {
			ln = uint64(1) << uint(20+r.Intn(30))
		}
		return append(c17Varint(ln), r.Bytes(8)...)
	}
	// garbage: a length-delimited field 3 (PacketMsg) announcing more bytes than present
	return []byte{3, 0x1a, 0x05, 0x08}
}

func TestVerifC17Hostile(t *testing.T) {
	cs := vg.NewCases("C17", "c17_hostile", "TM.C17.Exec")
	root := vg.NewRand(vg.Seed())
	n := vg.Scale(170, 12000)
	for k := 0; k < n; k++ {
		id := cs.NextID()
		if !cs.Want(id) {
			continue
		}
		r := root.Fork(uint64(k))
		maxsz := c17MaxSz(r, k)
		ds := c17GenDescs(r, maxsz)
		rc := c17NewRecv(ds, maxsz)
		maxPkt := rc.mc._maxPacketMsgSize

		// mostly valid stream with one hostile item somewhere (or none)
		nitems := 3 + r.Intn(18)
		hostileAt := -1
		if r.Chance(80) {
			hostileAt = r.Intn(nitems)
		}
		hk := r.Intn(9)
		kind := "clean"
		var items []c17Item
		seed := byte(r.Intn(256))
		for i := 0; i < nitems; i++ {
			d := ds[r.Intn(len(ds))]
			seed += 13
			it := c17Item{kind: "msg", ch: int32(d.id), eof: r.Chance(45), data: c17Msg(seed, r.Intn(maxsz+1))}
			if r.Chance(8) {
				it = c17Item{kind: []string{"ping", "pong"}[r.Intn(2)]}
			}
			if i == hostileAt {
				switch hk {
				case 0:
					kind = "unknown-channel"
					it.ch = 0xEE
				case 1:
					kind = "channel-id-plus-256" // byte(ChannelID) would alias a known channel
					it.ch = int32(d.id) + 256*int32(1+r.Intn(3))
				case 2:
					kind = "negative-channel-id"
					it.ch = int32(d.id) - 256
				case 3:
					kind = "unknown-packet-type"
					it = c17Item{kind: "unknown"}
				case 4:
					kind = "oversize-length-prefix"
					it = c17Item{kind: "oversize"}
				case 5:
					kind = "undecodable"
					it = c17Item{kind: "garbage"}
				case 6, 7:
					// never-EOF flood on one channel until well past its capacity
					kind = "never-eof-flood"
					for sent := 0; sent <= d.rcap+2*maxsz; sent += maxsz {
						seed += 13
						items = append(items, c17Item{kind: "msg", ch: int32(d.id), eof: false, data: c17Msg(seed, maxsz)})
					}
					continue
				case 8:
					// a packet whose payload is above the sender-side limit (EOF omitted so that the
					// encoding still fits the reader's packet size limit): only the capacity counts
					kind = "payload-above-sender-limit"
					it = c17Item{kind: "msg", ch: int32(d.id), eof: false, data: c17Msg(seed, maxsz+2)}
				}
			}
			items = append(items, it)
		}

		var bufs [][]int64
		dead := false
		for _, it := range items {
			ok := rc.write(it.wire(r, maxPkt))
			if ok && !dead {
				if rc.barrier() {
					bufs = append(bufs, rc.lens())
				} else {
					dead = true
				}
			} else {
				dead = true
			}
		}
		time.Sleep(300 * time.Microsecond)
		j, errored, nAtErr, errVal := rc.snapshot()
		rc.close()

		var ic, ih, bc []string
		for _, it := range items {
			ic = append(ic, it.coq())
			ih = append(ih, it.human())
		}
		for _, b := range bufs {
			bc = append(bc, vg.ZL(b))
		}
		dc := make([]string, len(ds))
		for i, d := range ds {
			dc[i] = vg.Tup(vg.Z(int64(d.id)), vg.Z(int64(d.rcap)))
		}
		jc, jh := c17Journal(j)
		term := vg.App("CHostile", vg.L(dc), vg.L(ic), vg.L(bc), vg.B(errored), vg.Z(int64(nAtErr)), jc)
		descr := fmt.Sprintf("raw stream into a started MConnection (MaxPacketMsgPayloadSize=%d, channels=[%s]): %s | len(recving) after each item: %v | onError=%v (%v) journal at error=%d | journal: %s",
			maxsz, c17DescsHuman(ds), strings.Join(ih, "; "), bufs, errored, errVal, nAtErr, jh)
		cs.Add(id, "hostile:"+kind, true, term, descr)
	}
	if err := cs.Write(); err != nil {
		t.Fatal(err)
	}
}
