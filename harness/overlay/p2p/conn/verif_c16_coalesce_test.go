//go:build verif

package conn

// C16 harness, family "coalescing peer": a wire-compatible peer that performs the handshake by
// hand with the package's own helpers (shareEphPubKey's message format, computeDHSecret,
// deriveSecrets, the merlin transcript - c16Session) and is free to size its Writes as it
// likes: its delimited AuthSigMessage and the first bytes of the application stream share ONE
// sc.Write (one sealed frame), or the message is split over two Writes with data behind it in the
// second, or message and data spill over several frames.  The honest side runs the REAL
// MakeSecretConnection over the untouched in-memory wire (closed after the peer's last frame)
// and then Reads with PRNG-chosen buffer sizes until the first error.
//
// Monitors (Exec.v CCoalesce, independent of the model): everything read, concatenated, is a
// prefix of the bytes the peer wrote behind its AuthSig message, and once an error (EOF) is
// seen nothing is missing - the prefix clause extended over the handshake / data boundary.
// Correspondence: ModelAuth.read_delimited + Model.run_reads on the same Writes (message body,
// len(recvBuffer) and recvNonce after the handshake, every Read).

import (
	"errors"
	"fmt"
	"io"
	"strings"
	"testing"
	"time"

	gogotypes "github.com/gogo/protobuf/types"

	cryptoenc "github.com/tendermint/tendermint/crypto/encoding"
	vg "github.com/tendermint/tendermint/internal/verifgen"
	"github.com/tendermint/tendermint/libs/protoio"
	tmp2p "github.com/tendermint/tendermint/proto/tendermint/p2p"
)

func TestVerifC16Coalesce(t *testing.T) {
	root := vg.NewRand(vg.Seed() ^ 0xc16c0a)
	cs := vg.NewCases("C16", "c16_coalesce", "TM.C16.Exec")
	cs.Samples = []string{}
	victimKey, peerKey := c16Key(21), c16Key(22)

	// kind of the peer's first Writes; first = number of data bytes behind the message
	// (-1: up to the frame limit, -2: one byte past it)
	type ck struct {
		kind  string
		first int
	}
	grid := []ck{
		{"alone", 0},     // control: the message alone in its Write, as the Go code does
		{"one-write", 1}, // message || 1 byte in one Write = one frame
		{"one-write", 300},
		{"one-write", -1}, // message || data filling the frame exactly (1024 bytes)
		{"one-write", -2}, // one byte more: the last data byte travels in a second frame
		{"one-write", 2000},
		{"split-prefix", 1}, // Write 1 = the uvarint length prefix alone, Write 2 = body || data
		{"split-prefix", 300},
		{"split-mid", 1}, // Write 1 = the first part of the message, Write 2 = rest || data
		{"split-mid", 300},
		{"split-mid", -1},
		{"split-mid", 0}, // message split over two frames, nothing behind it
	}
	n := len(grid) + vg.Scale(12, 1500)
	for k := 0; k < n; k++ {
		id := cs.NextID()
		if !cs.Want(id) {
			continue
		}
		r := root.Fork(uint64(k))
		var c ck
		if k < len(grid) {
			c = grid[k]
		} else {
			c.kind = []string{"one-write", "one-write", "split-prefix", "split-mid"}[r.Intn(4)]
			c.first = []int{1, 2, 17, 100, 300, 900, -1, -2, 1100}[r.Intn(9)]
		}

		qvp, qpv := newC16Queue(), newC16Queue() // victim->peer, peer->victim
		vconn := c16Conn{in: qpv, out: qvp}
		pconn := c16Conn{in: qvp, out: qpv}
		type res struct {
			sc  *SecretConnection
			err error
		}
		done := make(chan res, 1)
		go func() {
			defer func() {
				if x := recover(); x != nil {
					done <- res{nil, fmt.Errorf("panic: %v", x)}
				}
			}()
			sc, err := MakeSecretConnection(vconn, victimKey)
			done <- res{sc, err}
		}()

		// ---- the hand-rolled peer
		var vEphMsg gogotypes.BytesValue
		if _, err := protoio.NewDelimitedReader(pconn, 1024*1024).ReadMsg(&vEphMsg); err != nil {
			t.Fatalf("victim did not send its ephemeral key: %v", err)
		}
		var vEph [32]byte
		copy(vEph[:], vEphMsg.Value)
		pPub, pPriv := genEphKeys()
		ephBz, _ := protoio.MarshalDelimited(&gogotypes.BytesValue{Value: pPub[:]})
		_, _ = pconn.Write(ephBz)
		psc, chal, err := c16Session(pconn, pPub, pPriv, &vEph)
		if err != nil {
			t.Fatalf("peer cannot compute the session: %v", err)
		}
		sig, _ := peerKey.Sign(chal[:])
		pbpk, _ := cryptoenc.PubKeyToProto(peerKey.PubKey())
		authBz, _ := protoio.MarshalDelimited(&tmp2p.AuthSigMessage{PubKey: pbpk, Sig: sig})

		nfirst := c.first
		switch nfirst {
		case -1:
			nfirst = dataMaxSize - len(authBz)
		case -2:
			nfirst = dataMaxSize - len(authBz) + 1
		}
		if c.kind == "alone" {
			nfirst = 0
		}
		first := r.Bytes(nfirst)
		var writes [][]byte
		switch c.kind {
		case "alone":
			writes = append(writes, authBz)
		case "one-write":
			writes = append(writes, append(append([]byte{}, authBz...), first...))
		case "split-prefix":
			// the uvarint prefix of a ~100-byte message is one byte
			writes = append(writes, append([]byte{}, authBz[:1]...))
			writes = append(writes, append(append([]byte{}, authBz[1:]...), first...))
		case "split-mid":
			cut := 2 + r.Intn(len(authBz)-3)
			if c.first == -1 {
				// second Write fills its frame exactly
				nfirst = dataMaxSize - (len(authBz) - cut)
				first = r.Bytes(nfirst)
			}
			writes = append(writes, append([]byte{}, authBz[:cut]...))
			writes = append(writes, append(append([]byte{}, authBz[cut:]...), first...))
		}
		// further application Writes
		nmore := r.Intn(4)
		if k < len(grid) {
			nmore = 1 + k%2
		}
		for i := 0; i < nmore; i++ {
			writes = append(writes, r.Bytes([]int{1, 5, 17, 100, 300, 1024, 1025}[r.Intn(7)]))
		}
		total := -len(authBz)
		var wl []string
		for _, w := range writes {
			if _, err := psc.Write(w); err != nil {
				t.Fatalf("peer Write: %v", err)
			}
			total += len(w)
			wl = append(wl, fmt.Sprint(len(w)))
		}
		qpv.CloseQ() // the wire ends after the peer's last frame

		var rr res
		select {
		case rr = <-done:
		case <-time.After(20 * time.Second):
			t.Fatalf("handshake hangs: %s first=%d", c.kind, nfirst)
		}
		hsOK := rr.err == nil && rr.sc != nil && rr.sc.RemotePubKey() != nil &&
			rr.sc.RemotePubKey().Equals(peerKey.PubKey())
		buf0, recv0 := -1, int64(-1)
		var reads []string
		got, nerr := 0, 0
		if hsOK {
			sc := rr.sc
			buf0, recv0 = len(sc.recvBuffer), int64(c16Ctr(sc.recvNonce))
			capMode := r.Intn(3)
			fixed := c16Caps[1+r.Intn(len(c16Caps)-1)]
			if total > 300 && fixed < 100 {
				fixed = 1024
			}
			for i := 0; i < 60 && nerr < 1; i++ {
				cp := fixed
				if capMode != 0 {
					cp = c16Caps[r.Intn(len(c16Caps))]
					if total > 300 && cp < 100 && r.Chance(80) {
						cp = 1024 + r.Intn(3) - 1
					}
				}
				if i >= 40 {
					cp = 4096
				}
				buf := make([]byte, cp)
				before := c16Ctr(sc.recvNonce)
				code, rn := 0, 0
				func() {
					defer func() {
						if recover() != nil {
							code = 4
						}
					}()
					var err error
					rn, err = sc.Read(buf)
					switch {
					case err == nil:
					case errors.Is(err, io.EOF) || errors.Is(err, io.ErrUnexpectedEOF):
						code = 1
					case c16Ctr(sc.recvNonce) == before:
						code = 2
					default:
						code = 3
					}
				}()
				if code != 0 {
					nerr++
				}
				if rn < 0 || rn > cp {
					rn = 0
				}
				got += rn
				reads = append(reads, vg.Tup(vg.Z(int64(cp)), vg.Z(int64(rn)), vg.N(uint64(code)), vg.Hx(buf[:rn])))
			}
		}
		term := vg.App("CCoalesce", vg.B(hsOK), vg.Hx(authBz), vg.HxL(writes), vg.Z(int64(buf0)), vg.Z(recv0), vg.L(reads))
		descr := fmt.Sprintf("hand-rolled peer (case PRNG fork %d): delimited AuthSigMessage of %d bytes, kind %s, %d data bytes behind it; peer sc.Write sizes [%s] from the zero nonce, wire closed after the last frame; real MakeSecretConnection err=%v, then len(recvBuffer)=%d recvNonce=%d; %d Reads returned %d of %d data bytes, %d errors",
			k, len(authBz), c.kind, nfirst, strings.Join(wl, ","), rr.err, buf0, recv0, len(reads), got, total, nerr)
		cs.Add(id, c.kind, c.kind != "alone", term, descr)
	}
	// the terms carry whole frames of plaintext: small shards, evaluated in parallel
	old := vg.ShardSize
	vg.ShardSize = 5
	defer func() { vg.ShardSize = old }()
	if err := cs.Write(); err != nil {
		t.Fatal(err)
	}
}
