//go:build verif

package pex

// C17 reactor sweep, PEX reactor (reactor number 6) — injected with `go test -overlay`.
//
// One case = one hostile input delivered to a fresh PEX Reactor (real addrBook on a temp file,
// pre-filled with a few honest addresses; real p2p.Switch that is not listening) through
// Reactor.Receive (what the p2p layer does) on channel 0x00.  The peer state is the product of:
// seed mode or not, sender inbound/outbound, sender unknown / added (AddPeer) / removed, an
// address request to the sender outstanding or not (solicited vs unsolicited PexAddrs), 0/1/2
// PexRequests already received from it, strict routability or not, sender is one of our seeds
// (addresses from a seed are dialled at once) or not.  It is printed decoded in the description.
//
// Goroutines:
//   - ensurePeersRoutine / crawlPeersRoutine (spawned by OnStart): WRAPPED — the reactor is not
//     started through OnStart; after the input the harness runs one iteration of the routine's
//     body under recover: ensurePeers(), or crawlPeers(book.GetSelection()) + attemptDisconnects()
//     + cleanupCrawlPeerInfos() in seed mode (the crawler dials sequentially, each dial bounded by
//     the transport's 1 s timeout, so only the first 3 addresses of the selection are crawled).  addrBook.saveRoutine (spawned by book.Start): its
//     body saveToFile() is run under recover, and the file is loaded back into a new book
//     (a restart).
//   - the anonymous dial goroutines (ensurePeers, ReceiveAddrs for seeds) and the seed-mode
//     FlushStop/StopPeerGracefully goroutine cannot be intercepted: CHILD PROCESS — all cases run
//     in a re-exec'ed copy of the test binary; when it dies the case in progress is recorded with
//     bg_panic ("panic:" / "fatal error:" in its output) or stuck (killed by the parent).
//     Dialling uses the real MultiplexTransport: addresses taken from the hostile input are
//     really dialled (in the sandbox they are refused at once; the transport's timeout is 1 s).
//
// alive probe: a fresh honest inbound peer is added and its PexRequest is answered with PexAddrs;
// GetSelection / PickAddress still answer; the saved book loads again.

import (
	"bytes"
	"context"
	"encoding/hex"
	"encoding/json"
	"fmt"
	"math"
	"net"
	"os"
	"os/exec"
	"path/filepath"
	"runtime"
	"strconv"
	"strings"
	"sync"
	"testing"
	"time"

	"github.com/gogo/protobuf/proto"

	tmcfg "github.com/tendermint/tendermint/config"
	"github.com/tendermint/tendermint/crypto/ed25519"
	vg "github.com/tendermint/tendermint/internal/verifgen"
	"github.com/tendermint/tendermint/libs/log"
	"github.com/tendermint/tendermint/p2p"
	"github.com/tendermint/tendermint/p2p/conn"
	"github.com/tendermint/tendermint/p2p/mock"
	tmp2p "github.com/tendermint/tendermint/proto/tendermint/p2p"
)

// ------------------------------------------------------------------ shared skeleton (duplicated in the five files)

type c17Rec struct {
	Phase     string `json:"phase"` // "B" written before the input is delivered, "E" after
	ID        int    `json:"id"`
	Kind      int    `json:"kind"`
	KindName  string `json:"kind_name"`
	InLen     int    `json:"in_len"`
	Descr     string `json:"descr"`
	RecvPanic bool   `json:"recv_panic"`
	Stopped   bool   `json:"stopped"`
	BgPanic   bool   `json:"bg_panic"`
	Stuck     bool   `json:"stuck"`
	Alive     bool   `json:"alive"`
	Alloc     int64  `json:"alloc"`
	Note      string `json:"note,omitempty"`
}

type c17Input struct {
	kind     int
	kindName string
	chID     byte
	state    int
	data     []byte
	msg      string // Go-literal-ish form for kind 2
	extra    string
}

// c17BG collects panics of wrapped background goroutines.
type c17BG struct {
	mtx    sync.Mutex
	panics []string
	wg     sync.WaitGroup
}

func (b *c17BG) Go(name string, f func()) {
	b.wg.Add(1)
	go func() {
		defer b.wg.Done()
		defer func() {
			if r := recover(); r != nil {
				b.mtx.Lock()
				b.panics = append(b.panics, fmt.Sprintf("%s: %v", name, r))
				b.mtx.Unlock()
			}
		}()
		f()
	}()
}
func (b *c17BG) Panicked() (bool, string) {
	b.mtx.Lock()
	defer b.mtx.Unlock()
	return len(b.panics) > 0, strings.Join(b.panics, " | ")
}

// c17Timed runs f under recover in its own goroutine; done=false when it did not return in time.
func c17Timed(d time.Duration, f func()) (done bool, panicked bool, pv string) {
	ch := make(chan struct{})
	go func() {
		defer close(ch)
		defer func() {
			if r := recover(); r != nil {
				panicked = true
				pv = fmt.Sprint(r)
			}
		}()
		f()
	}()
	select {
	case <-ch:
		return true, panicked, pv
	case <-time.After(d):
		return false, false, ""
	}
}

func c17TotalAlloc() int64 {
	var ms runtime.MemStats
	runtime.ReadMemStats(&ms)
	return int64(ms.TotalAlloc)
}

func c17Trunc(s string, n int) string {
	if len(s) > n {
		return s[:n] + fmt.Sprintf("…(%d more)", len(s)-n)
	}
	return s
}

func c17HexDescr(b []byte) string {
	if len(b) <= 2048 {
		return hex.EncodeToString(b)
	}
	return hex.EncodeToString(b[:1024]) + fmt.Sprintf("…(%d bytes in total; regenerate with VERIF_ONLY)", len(b))
}

func c17RandomBytes(r *vg.Rand, k int, tags []byte) []byte {
	var n int
	switch {
	case k < 24:
		n = k // lengths 0,1,2,… in order
	case r.Chance(70):
		n = r.Intn(64)
	default:
		n = 64 + r.Intn(400)
	}
	b := r.Bytes(n)
	if len(tags) > 0 && n > 0 && r.Chance(40) {
		b[0] = tags[r.Intn(len(tags))]
		if n > 1 && r.Chance(60) {
			b[1] = byte(n - 2) // plausible length prefix
		}
	}
	return b
}

func c17Mutate(r *vg.Rand, valid []byte) ([]byte, string) {
	b := append([]byte{}, valid...)
	if len(b) == 0 {
		return b, "none"
	}
	switch r.Intn(5) {
	case 0:
		i := r.Intn(len(b))
		b[i] ^= 1 << uint(r.Intn(8))
		return b, fmt.Sprintf("bitflip@%d", i)
	case 1:
		i, j := r.Intn(len(b)), r.Intn(len(b))
		b[i] = byte(r.Uint64())
		b[j] = byte(r.Uint64())
		return b, fmt.Sprintf("bytes@%d,%d", i, j)
	case 2:
		n := r.Intn(len(b))
		return b[:n], fmt.Sprintf("truncate@%d", n)
	case 3:
		i := r.Intn(len(b))
		b[i] = 0xff
		return b, fmt.Sprintf("ff@%d", i)
	default:
		i := r.Intn(len(b))
		c := append(append([]byte{}, b[:i]...), byte(r.Uint64()))
		return append(c, b[i:]...), fmt.Sprintf("insert@%d", i)
	}
}

// c17Peer is the mock peer (hostile sender, honest prober, observer): a p2p/mock.Peer that
// records what the reactor sends to it.
type c17Peer struct {
	*mock.Peer
	mtx    sync.Mutex
	sent   []proto.Message
	onSend func(e p2p.Envelope)
}

func c17NewPeer(ip byte, outbound bool) *c17Peer {
	p := &c17Peer{Peer: mock.NewPeer([]byte{37, 120, 3, ip})}
	p.Peer.Outbound = outbound
	return p
}
func (p *c17Peer) record(e p2p.Envelope) bool {
	p.mtx.Lock()
	p.sent = append(p.sent, e.Message)
	f := p.onSend
	p.mtx.Unlock()
	if f != nil {
		f(e)
	}
	return true
}
func (p *c17Peer) SendEnvelope(e p2p.Envelope) bool    { return p.record(e) }
func (p *c17Peer) TrySendEnvelope(e p2p.Envelope) bool { return p.record(e) }
func (p *c17Peer) Sent() []proto.Message {
	p.mtx.Lock()
	defer p.mtx.Unlock()
	return append([]proto.Message{}, p.sent...)
}

func c17Key() ed25519.PrivKey { return ed25519.GenPrivKey() }

// c17Drive is the parent/child orchestration.  gen builds case k from its own PRNG stream; exec
// delivers it.  The parent never delivers anything itself.
func c17Drive(t *testing.T, testName, casesName string, reactorNo uint64, n int,
	gen func(k int, r *vg.Rand) c17Input, run func(in c17Input, rec *c17Rec)) {

	root := vg.NewRand(vg.Seed())
	if fromS := os.Getenv("VERIF_C17_CHILD"); fromS != "" {
		// ---- child: run cases from..n-1, journal to the file
		from, _ := strconv.Atoi(fromS)
		f, err := os.OpenFile(os.Getenv("VERIF_C17_FILE"), os.O_APPEND|os.O_WRONLY|os.O_CREATE, 0o644)
		if err != nil {
			t.Fatal(err)
		}
		defer f.Close()
		put := func(rec c17Rec) {
			js, _ := json.Marshal(rec)
			f.Write(append(js, '\n'))
			f.Sync()
		}
		for k := from; k < n; k++ {
			if o := vg.Only(); o >= 0 && o != k {
				continue
			}
			var in c17Input
			func() {
				defer func() {
					if r := recover(); r != nil { // a generator bug must not kill the run: visible as its own kind
						in = c17Input{kind: 0, kindName: "harness-generator-panic", extra: fmt.Sprintf(" GENERATOR PANIC: %v", r)}
					}
				}()
				in = gen(k, root.Fork(uint64(k)))
			}()
			rec := c17Rec{Phase: "B", ID: k, Kind: in.kind, KindName: in.kindName, InLen: len(in.data)}
			rec.Descr = fmt.Sprintf("reactor=%d(%s) ch=0x%02x peer_state=%d%s input(hex)=%s", reactorNo, casesName,
				in.chID, in.state, in.extra, c17HexDescr(in.data))
			if in.msg != "" {
				rec.Descr += " msg=" + c17Trunc(in.msg, 1500)
			}
			put(rec)
			func() {
				defer func() {
					if r := recover(); r != nil { // the harness itself must not die
						rec.Note += fmt.Sprintf(" harness-panic: %v", r)
					}
				}()
				run(in, &rec)
			}()
			rec.Phase = "E"
			put(rec)
		}
		return
	}

	// ---- parent
	cs := vg.NewCases("C17", casesName, "TM.C17.Exec")
	add := func(rec c17Rec) {
		term := vg.App("CReactor", vg.N(reactorNo), vg.N(uint64(rec.Kind)), vg.Z(int64(rec.InLen)),
			vg.B(rec.RecvPanic), vg.B(rec.Stopped), vg.B(rec.BgPanic), vg.B(rec.Stuck), vg.B(rec.Alive), vg.Z(rec.Alloc))
		d := rec.Descr
		if rec.Note != "" {
			d += " note=" + rec.Note
		}
		cs.Add(rec.ID, rec.KindName, rec.Kind != 0 || rec.InLen > 0, term, d)
		out := "ignored"
		switch {
		case rec.BgPanic:
			out = "BG_PANIC"
		case rec.Stuck:
			out = "STUCK"
		case !rec.Alive:
			out = "NOT_ALIVE"
		case rec.RecvPanic:
			out = "recv_panic"
		case rec.Stopped:
			out = "stopped"
		}
		cs.Count("outcome:"+out, 1)
	}
	for k := 0; k < n; k++ {
		cs.NextID() // ids are dense: id = k
	}
	dir, err := os.MkdirTemp("", "c17child")
	if err != nil {
		t.Fatal(err)
	}
	defer os.RemoveAll(dir)
	from, spawn := 0, 0
	for from < n {
		spawn++
		file := fmt.Sprintf("%s/journal%d", dir, spawn)
		ctx, cancel := context.WithTimeout(context.Background(), time.Duration(120+4*(n-from))*time.Second)
		cmd := exec.CommandContext(ctx, os.Args[0], "-test.run=^"+testName+"$", "-test.count=1", "-test.timeout=0")
		cmd.Env = append(os.Environ(), "VERIF_C17_CHILD="+strconv.Itoa(from), "VERIF_C17_FILE="+file)
		var outb bytes.Buffer
		cmd.Stdout, cmd.Stderr = &outb, &outb
		runErr := cmd.Run()
		timedOut := ctx.Err() != nil
		cancel()
		js, _ := os.ReadFile(file)
		var pending *c17Rec
		for _, line := range bytes.Split(js, []byte{'\n'}) {
			if len(line) == 0 {
				continue
			}
			var rec c17Rec
			if err := json.Unmarshal(line, &rec); err != nil {
				continue
			}
			if rec.Phase == "B" {
				r2 := rec
				pending = &r2
			} else {
				pending = nil
				add(rec)
			}
		}
		if runErr == nil && pending == nil {
			break
		}
		outS := outb.String()
		if pending == nil {
			t.Fatalf("c17 child died outside a case (from=%d): %v\n%s", from, runErr, c17Trunc(outS, 4000))
		}
		// the child died while case pending.ID was being handled
		crashed := strings.Contains(outS, "panic:") || strings.Contains(outS, "fatal error:")
		pending.BgPanic = crashed && !timedOut
		pending.Stuck = !pending.BgPanic
		pending.Alive = false
		tail := outS
		if i := strings.Index(tail, "panic:"); i >= 0 {
			tail = tail[i:]
		} else if i := strings.Index(tail, "fatal error:"); i >= 0 {
			tail = tail[i:]
		}
		pending.Note = "child process died: " + c17Trunc(strings.ReplaceAll(tail, "\n", " / "), 700)
		add(*pending)
		cs.Notes = append(cs.Notes, fmt.Sprintf("case %d killed the child process", pending.ID))
		from = pending.ID + 1
		if vg.Only() >= 0 {
			break
		}
	}
	if err := cs.Write(); err != nil {
		t.Fatal(err)
	}
}

// ------------------------------------------------------------------ pex specifics

type c17PexState struct {
	seed, outbound       bool
	known                int // 0 unknown, 1 added, 2 removed
	solicited            bool
	priorReq             int
	strict, senderIsSeed bool
}

func c17PexDecode(s int) c17PexState {
	return c17PexState{seed: s&1 != 0, outbound: s&2 != 0, known: (s >> 2) % 3, solicited: (s>>4)&1 != 0,
		priorReq: (s >> 5) % 3, strict: (s>>7)&1 != 0, senderIsSeed: (s>>8)&1 != 0}
}

func c17PexStateGen(r *vg.Rand) int {
	return r.Intn(2) | r.Intn(2)<<1 | r.Intn(3)<<2 | r.Intn(2)<<4 | r.Intn(3)<<5 | r.Intn(2)<<7 | (map[bool]int{true: 1, false: 0}[r.Chance(25)])<<8
}

func c17PexWrap(m interface{ Wrap() proto.Message }) []byte {
	b, err := proto.Marshal(m.Wrap())
	if err != nil {
		panic(err)
	}
	return b
}

func c17PexID(r *vg.Rand) string { return hex.EncodeToString(r.Bytes(20)) }

type c17PexEnv struct {
	r    *Reactor
	book *addrBook
	sw   *p2p.Switch
	bg   *c17BG
	dir  string
	our  *p2p.NetAddress
}

func c17NewPexEnv(st c17PexState) *c17PexEnv {
	dir, err := os.MkdirTemp("", "c17pex")
	if err != nil {
		panic(err)
	}
	book := NewAddrBook(filepath.Join(dir, "addrbook.json"), st.strict).(*addrBook)
	book.SetLogger(log.NewNopLogger())
	r := NewReactor(book, &ReactorConfig{SeedMode: st.seed})
	r.SetLogger(log.NewNopLogger())
	nk := p2p.NodeKey{PrivKey: ed25519.GenPrivKey()}
	tr := p2p.NewMultiplexTransport(p2p.DefaultNodeInfo{DefaultNodeID: nk.ID()}, nk, conn.DefaultMConnConfig())
	sw := p2p.NewSwitch(tmcfg.DefaultP2PConfig(), tr)
	sw.SetLogger(log.NewNopLogger())
	sw.AddReactor("PEX", r)
	our := p2p.NewNetAddressIPPort(net.IP{37, 120, 3, 1}, 26656)
	our.ID = nk.ID()
	book.AddOurAddress(our)
	// a few honest entries
	src := p2p.NewNetAddressIPPort(net.IP{37, 120, 4, 1}, 26656)
	src.ID = p2p.ID(hex.EncodeToString(bytes.Repeat([]byte{0xaa}, 20)))
	for i := 0; i < 5; i++ {
		a := p2p.NewNetAddressIPPort(net.IP{37, 120, 4, byte(10 + i)}, 26656)
		a.ID = p2p.ID(hex.EncodeToString(bytes.Repeat([]byte{byte(0xb0 + i)}, 20)))
		_ = book.AddAddress(a, src)
	}
	return &c17PexEnv{r: r, book: book, sw: sw, bg: &c17BG{}, dir: dir, our: our}
}

func (e *c17PexEnv) toSwitch(p *c17Peer) {
	_ = e.sw.Peers().(*p2p.PeerSet).Add(p)
	e.r.InitPeer(p)
	e.r.AddPeer(p)
}

func (e *c17PexEnv) close() {
	for _, p := range e.sw.Peers().List() {
		p.Stop() //nolint:errcheck
	}
	os.RemoveAll(e.dir)
}

func c17PexGen(k int, r *vg.Rand) c17Input {
	in := c17Input{chID: PexChannel, state: c17PexStateGen(r)}
	hostile := func(name string, m interface {
		Wrap() proto.Message
		String() string
	}) {
		in.kind, in.kindName, in.data = 2, "hostile:"+name, c17PexWrap(m)
		in.msg = fmt.Sprintf("&%T{%s}", m, c17Trunc(m.String(), 700))
	}
	addrs := func(as ...tmp2p.NetAddress) *tmp2p.PexAddrs { return &tmp2p.PexAddrs{Addrs: as} }
	good := func() tmp2p.NetAddress {
		return tmp2p.NetAddress{ID: c17PexID(r), IP: fmt.Sprintf("37.121.%d.%d", r.Intn(256), 1+r.Intn(250)), Port: 26656}
	}
	if k < len(c17PexDirected) {
		c17PexDirected[k](&in)
	} else {
		switch sel := r.Intn(100); {
		case sel < 22:
			in.kind, in.kindName = 0, "random"
			in.data = c17RandomBytes(r, k, []byte{0x0a, 0x12})
		case sel < 42:
			var valid []byte
			var what string
			if r.Chance(25) {
				valid, what = c17PexWrap(&tmp2p.PexRequest{}), "PexRequest{}"
			} else {
				m := addrs(good(), good())
				valid, what = c17PexWrap(m), m.String()
			}
			var how string
			in.kind, in.kindName = 1, "mutated"
			in.data, how = c17Mutate(r, valid)
			in.extra = " mutation=" + how + " of " + what
		default:
			switch r.Intn(16) {
			case 0, 1:
				hostile("request", &tmp2p.PexRequest{})
			case 2:
				hostile("addrs-empty", addrs())
			case 3:
				hostile("addrs-one-good", addrs(good()))
			case 4:
				as := make([]tmp2p.NetAddress, 250+r.Intn(700))
				for i := range as {
					as[i] = good()
				}
				hostile("addrs-many-good", addrs(as...))
			case 5:
				a := good()
				a.ID = []string{"", "zz", a.ID[:39], a.ID + "0", strings.ToUpper(a.ID), strings.Repeat("g", 40), string(r.Bytes(40)), strings.Repeat("a", 5000)}[r.Intn(8)]
				hostile("addrs-bad-id", addrs(good(), a))
			case 6:
				a := good()
				a.IP = []string{"", "999.1.1.1", "example.com", "::1", "0.0.0.0", "255.255.255.255", "2001:db8::1", "2a02:26f0::1", "127.0.0.1",
					"10.0.0.1", "192.168.1.1", strings.Repeat("1", 300), "37.121.1.1:80", "::ffff:37.121.1.9", "224.0.0.1"}[r.Intn(15)]
				hostile("addrs-odd-ip", addrs(a, good()))
			case 7:
				a := good()
				a.Port = []uint32{0, 1, 65535, 65536, math.MaxUint32, math.MaxInt32}[r.Intn(6)]
				hostile("addrs-odd-port", addrs(good(), a))
			case 8: // our own address / the sender's own address (filled in by exec: marker IDs)
				a := good()
				a.ID = []string{"OUR-ID", "SENDER-ID", "HONEST-ID"}[r.Intn(3)]
				hostile("addrs-known-id", addrs(a))
			case 9:
				a := good()
				as := make([]tmp2p.NetAddress, 1000)
				for i := range as {
					as[i] = a
				}
				hostile("addrs-1000-duplicates", addrs(as...))
			case 10: // one ID on many addresses
				id := c17PexID(r)
				as := make([]tmp2p.NetAddress, 300)
				for i := range as {
					as[i] = good()
					as[i].ID = id
				}
				hostile("addrs-one-id-300-ips", addrs(as...))
			case 11: // many addresses of one /16 group and port variety
				as := make([]tmp2p.NetAddress, 600)
				for i := range as {
					as[i] = tmp2p.NetAddress{ID: c17PexID(r), IP: fmt.Sprintf("37.122.0.%d", 1+i%250), Port: uint32(1 + r.Intn(65535))}
				}
				hostile("addrs-one-group", addrs(as...))
			case 12:
				b, _ := proto.Marshal(&tmp2p.Message{})
				in.kind, in.kindName, in.data, in.msg = 2, "hostile:empty-message", b, "&Message{Sum: nil}"
			case 13:
				in.chID = byte(1 + r.Intn(255))
				hostile("wrong-channel", addrs(good()))
			case 14:
				as := make([]tmp2p.NetAddress, 40)
				for i := range as {
					as[i] = tmp2p.NetAddress{ID: c17PexID(r), IP: fmt.Sprintf("2a02:26f0:%x::%x", r.Intn(65536), 1+r.Intn(65000)), Port: 26656}
				}
				hostile("addrs-ipv6", addrs(as...))
			default:
				hostile("addrs-two-good", addrs(good(), good()))
			}
		}
	}
	st := c17PexDecode(in.state)
	in.extra += fmt.Sprintf(" state=%+v", st)
	return in
}

// directed cases first (none: no defect of this reactor is known)
var c17PexDirected = []func(in *c17Input){}

func c17PexExec(in c17Input, rec *c17Rec) {
	st := c17PexDecode(in.state)
	env := c17NewPexEnv(st)
	defer env.close()
	hostile := c17NewPeer(2, st.outbound)
	honest := c17NewPeer(4, false)
	if st.senderIsSeed {
		env.r.seedAddrs = []*p2p.NetAddress{hostile.SocketAddr()}
	}
	switch st.known {
	case 1:
		env.toSwitch(hostile)
	case 2:
		env.toSwitch(hostile)
		env.r.RemovePeer(hostile, "removed earlier")
		_ = env.sw.Peers().(*p2p.PeerSet).Remove(hostile)
	}
	if st.solicited {
		env.r.RequestAddrs(hostile)
	} else {
		env.r.requestsSent.Delete(string(hostile.ID()))
	}
	for i := 0; i < st.priorReq; i++ {
		_ = env.r.receiveRequest(hostile)
	}
	// marker IDs of "addrs-known-id"
	data := in.data
	for mk, id := range map[string]p2p.ID{"OUR-ID": env.our.ID, "SENDER-ID": hostile.ID(), "HONEST-ID": p2p.ID(hex.EncodeToString(bytes.Repeat([]byte{0xb1}, 20)))} {
		if i := bytes.Index(data, []byte(mk)); i >= 0 && in.kind == 2 {
			m := &tmp2p.Message{}
			if proto.Unmarshal(data, m) == nil && m.GetPexAddrs() != nil {
				for j := range m.GetPexAddrs().Addrs {
					if m.GetPexAddrs().Addrs[j].ID == mk {
						m.GetPexAddrs().Addrs[j].ID = string(id)
					}
				}
				data, _ = proto.Marshal(m)
				rec.Note += " marker " + mk + " -> " + string(id)
			}
		}
	}

	a0 := c17TotalAlloc()
	done, pan, pv := c17Timed(2*time.Second, func() { env.r.Receive(in.chID, hostile, data) })
	rec.Stuck = !done
	rec.RecvPanic = pan
	if pan {
		rec.Note += " recv-panic: " + c17Trunc(pv, 160)
		env.sw.StopPeerForError(hostile, pv) // what MConnection._recover -> onPeerError does
	}
	filePath := env.book.FilePath()
	if done {
		// one iteration of the background routines, under recover
		bgStep := func(name string, d time.Duration, f func()) {
			ok, bpan, bpv := c17Timed(d, f)
			if bpan {
				env.bg.mtx.Lock()
				env.bg.panics = append(env.bg.panics, name+": "+bpv)
				env.bg.mtx.Unlock()
			}
			if !ok {
				rec.Note += " " + name + " did not finish in " + d.String()
			}
		}
		if st.seed {
			// the crawler dials one address after the other, each bounded by the transport's 1 s
			// timeout (unroutable IPv6 addresses take all of it here): crawl a few of the selection
			sel := env.book.GetSelection()
			if len(sel) > 3 {
				sel = sel[:3]
			}
			bgStep("crawlPeers", 6*time.Second, func() {
				env.r.crawlPeers(sel)
				env.r.attemptDisconnects()
				env.r.cleanupCrawlPeerInfos()
			})
		} else {
			bgStep("ensurePeers", 4*time.Second, func() { env.r.ensurePeers() })
		}
		bgStep("saveToFile", 4*time.Second, func() { env.book.saveToFile(filePath) })
		time.Sleep(10 * time.Millisecond) // dial goroutines
	}
	rec.Alloc = c17TotalAlloc() - a0
	rec.Stopped = !hostile.IsRunning()
	rec.Note += fmt.Sprintf(" book-size=%d", env.book.Size())

	alive := false
	if !rec.Stuck {
		ok, ppan, ppv := c17Timed(3*time.Second, func() {
			env.toSwitch(honest)
			env.r.Receive(PexChannel, honest, c17PexWrap(&tmp2p.PexRequest{}))
			n := 0
			for _, m := range honest.Sent() {
				if a, ok := m.(*tmp2p.PexAddrs); ok && len(a.Addrs) > 0 {
					n++
				}
			}
			if n != 1 {
				rec.Note += fmt.Sprintf(" probe: PexRequest of the honest peer answered %d times", n)
				return
			}
			_ = env.book.GetSelection()
			_ = env.book.PickAddress(50)
			_ = env.book.GetSelectionWithBias(30)
			// restart: the saved book must load
			nb := NewAddrBook(filePath, st.strict).(*addrBook)
			nb.SetLogger(log.NewNopLogger())
			if _, err := os.Stat(filePath); err != nil {
				rec.Note += " probe: address book file missing"
				return
			}
			nb.loadFromFile(filePath)
			if nb.Size() == 0 {
				rec.Note += " probe: reloaded book is empty"
				return
			}
			_ = nb.GetSelection()
			alive = true
		})
		if !ok {
			rec.Note += " probe: timed out"
		}
		if ppan {
			rec.Note += " probe panicked: " + c17Trunc(ppv, 200)
		}
	}
	bgp, bgs := env.bg.Panicked()
	rec.BgPanic = bgp
	if bgp {
		rec.Note += " bg-panic: " + c17Trunc(bgs, 200)
	}
	rec.Alive = alive
}

func TestVerifC17ReactorPex(t *testing.T) {
	c17Drive(t, "TestVerifC17ReactorPex", "c17_reactor_pex", 6, vg.Scale(40, 4000), c17PexGen, c17PexExec)
}
