//go:build verif

package p2p

// C16 correspondence harness for p2p/transport.go upgrade (injected with `go test -overlay`):
// the real MultiplexTransport.upgrade on one end of a net.Pipe, a scripted remote on the other
// (a real transport with a chosen node key and a chosen NodeInfo, or a remote that drops out).

import (
	"fmt"
	"net"
	"strings"
	"testing"
	"time"

	"github.com/tendermint/tendermint/crypto"
	"github.com/tendermint/tendermint/crypto/ed25519"
	vg "github.com/tendermint/tendermint/internal/verifgen"
	"github.com/tendermint/tendermint/p2p/conn"
)

func c16NodeKey(i int) crypto.PrivKey {
	return ed25519.GenPrivKeyFromSecret([]byte(fmt.Sprintf("verif-c16-node-%d", i)))
}
func c16ID(i int) ID {
	if i >= 10 {
		return c16NearMiss(i)
	}
	return PubKeyToID(c16NodeKey(i).PubKey())
}

// Identities 10..19 are NEAR-MISS ids of node 2's id (40 hex characters): they belong to no key
// of the scenario and differ from PubKeyToID(key of node 2) as little as possible.
//
//	10..14  the same first k = 1, 19, 20, 21, 39 characters, every later character changed
//	        (14: only the last character differs)
//	15..18  a single character changed at position 0, 19, 20, 38
//	19      the same id in upper case
var c16NearMissNames = map[int]string{
	10: "node 2's id with all but the first 1 characters changed",
	11: "node 2's id with all but the first 19 characters changed",
	12: "node 2's id with all but the first 20 characters changed",
	13: "node 2's id with all but the first 21 characters changed",
	14: "node 2's id with only the last character changed",
	15: "node 2's id with only character 0 changed",
	16: "node 2's id with only character 19 changed",
	17: "node 2's id with only character 20 changed",
	18: "node 2's id with only character 38 changed",
	19: "node 2's id in upper case",
}

func c16FlipHex(c byte) byte {
	const digits = "0123456789abcdef"
	v := strings.IndexByte(digits, c)
	if v < 0 {
		return '0'
	}
	return digits[v^1]
}

func c16NearMiss(i int) ID {
	base := []byte(PubKeyToID(c16NodeKey(2).PubKey()))
	out := append([]byte{}, base...)
	switch {
	case i >= 10 && i <= 14:
		k := []int{1, 19, 20, 21, 39}[i-10]
		for j := k; j < len(out); j++ {
			out[j] = c16FlipHex(out[j])
		}
	case i >= 15 && i <= 18:
		k := []int{0, 19, 20, 38}[i-15]
		out[k] = c16FlipHex(out[k])
	default:
		up := []byte(strings.ToUpper(string(base)))
		if string(up) == string(base) { // no letter in the id: change the last character instead
			up[len(up)-1] = c16FlipHex(up[len(up)-1])
		}
		out = up
	}
	return ID(out)
}

func c16IDName(i int) string {
	if n, ok := c16NearMissNames[i]; ok {
		return fmt.Sprintf("%d (%s: %s)", i, n, c16ID(i))
	}
	return fmt.Sprint(i)
}

// c16Class: the text-free result class of upgrade / Dial / Accept
func c16Class(err error) int {
	if err == nil {
		return 0
	}
	if e, ok := err.(ErrRejected); ok {
		switch {
		case e.IsSelf():
			return 6
		case e.IsNodeInfoInvalid():
			return 4
		case e.IsIncompatible():
			return 7
		case e.IsAuthFailure() && e.id != "":
			return 2 // dialled-id or NodeInfo-id mismatch
		case e.IsAuthFailure():
			return 1 // secret connection or NodeInfo exchange failed
		}
	}
	return 9
}

// the remote transport rejects for its own reasons and would close the pipe while the observed
// end is still finishing (net.Pipe reports a closed remote even from SetDeadline): keep the pipe
// open until the observed upgrade has returned
type c16KeepOpen struct{ net.Conn }

func (c c16KeepOpen) Close() error { return nil }

func c16Info(id ID, valid bool, network string) NodeInfo {
	ni := DefaultNodeInfo{
		ProtocolVersion: defaultProtocolVersion,
		DefaultNodeID:   id,
		ListenAddr:      "127.0.0.1:26656",
		Network:         network,
		Version:         "1.2.3-rc0-deadbeef",
		Channels:        []byte{testCh},
		Moniker:         "verif",
		Other:           DefaultNodeInfoOther{TxIndex: "on", RPCAddress: "127.0.0.1:26657"},
	}
	if !valid {
		ni.Moniker = ""
	}
	return ni
}

func TestVerifC16Upgrade(t *testing.T) {
	root := vg.NewRand(vg.Seed() ^ 0xc16c)
	cs := vg.NewCases("C16", "c16_upgrade", "TM.C16.Exec")
	cs.Samples = []string{} // never null in the meta file (replay runs may leave a harness without cases)
	// remote: 0 real transport, 1 closes at once, 2 secret connection then closes
	type sc struct {
		remote        int
		key           int // identity whose key the remote authenticates with
		dialed        int // 0 = inbound
		ni            int // identity in the remote's NodeInfo
		valid, compat bool
	}
	grid := []sc{
		{0, 2, 0, 2, true, true}, {0, 2, 2, 2, true, true}, {0, 2, 3, 2, true, true},
		{0, 2, 0, 3, true, true}, {0, 2, 2, 3, true, true}, {0, 2, 0, 1, true, true},
		{0, 1, 0, 1, true, true}, {0, 1, 1, 1, true, true}, {0, 2, 0, 2, false, true},
		{0, 2, 0, 2, true, false}, {0, 2, 2, 2, false, false}, {1, 2, 0, 2, true, true},
		{1, 2, 2, 2, true, true}, {2, 2, 0, 2, true, true}, {2, 2, 2, 2, true, true},
		{2, 2, 3, 2, true, true}, {0, 2, 0, 3, false, true}, {0, 2, 0, 3, true, false},
	}
	// near-miss ids: in the NodeInfo (inbound and dialled), and as the dialled id
	for nm := 10; nm <= 19; nm++ {
		grid = append(grid, sc{0, 2, 0, nm, true, true}, sc{0, 2, 2, nm, true, true}, sc{0, 2, nm, 2, true, true})
	}
	grid = append(grid, sc{0, 2, 12, 12, true, true}, sc{0, 2, 14, 14, true, true}, sc{0, 2, 19, 19, true, true})
	n := len(grid) + vg.Scale(20, 1500)
	for k := 0; k < n; k++ {
		id := cs.NextID()
		if !cs.Want(id) {
			continue
		}
		r := root.Fork(uint64(k))
		var s sc
		if k < len(grid) {
			s = grid[k]
		} else {
			s = sc{remote: 0, key: 2, dialed: 0, ni: 2, valid: true, compat: true}
			if r.Chance(15) {
				s.remote = 1 + r.Intn(2)
			}
			if r.Chance(15) {
				s.key = 1
			}
			if r.Chance(60) {
				s.dialed = 2
				if r.Chance(35) {
					s.dialed = []int{1, 3}[r.Intn(2)]
				} else if r.Chance(30) {
					s.dialed = 10 + r.Intn(10)
				}
			}
			if r.Chance(40) {
				s.ni = 1 + r.Intn(3)
			} else if r.Chance(30) {
				s.ni = 10 + r.Intn(10)
			} else {
				s.ni = s.key
			}
			s.valid = !r.Chance(15)
			s.compat = !r.Chance(15)
		}
		network := "testing"
		if !s.compat {
			network = "other-chain"
		}
		mtA := NewMultiplexTransport(c16Info(c16ID(1), true, "testing"), NodeKey{PrivKey: c16NodeKey(1)}, conn.DefaultMConnConfig())
		mtB := NewMultiplexTransport(c16Info(c16ID(s.ni), s.valid, network), NodeKey{PrivKey: c16NodeKey(s.key)}, conn.DefaultMConnConfig())
		MultiplexTransportFilterTimeout(time.Second)(mtA)
		c1, c2 := net.Pipe()
		bdone := make(chan struct{})
		go func() {
			defer close(bdone)
			switch s.remote {
			case 0:
				_, _, _ = mtB.upgrade(c16KeepOpen{c2}, nil)
			case 1:
				_ = c2.Close()
			case 2:
				// secret connection, then wait for the other end's NodeInfo (or its close) and
				// drop out without sending one
				if sc, err := upgradeSecretConn(c16KeepOpen{c2}, 3*time.Second, c16NodeKey(s.key)); err == nil {
					_, _ = sc.Read(make([]byte, 1))
				}
				_ = c2.Close()
			}
		}()
		var dialedAddr *NetAddress
		if s.dialed != 0 {
			dialedAddr = NewNetAddressIPPort(net.ParseIP("127.0.0.1"), 26656)
			dialedAddr.ID = c16ID(s.dialed)
		}
		type res struct {
			sc  *conn.SecretConnection
			ni  NodeInfo
			err error
		}
		adone := make(chan res, 1)
		go func() {
			defer func() {
				if x := recover(); x != nil {
					adone <- res{nil, nil, fmt.Errorf("panic: %v", x)}
				}
			}()
			scA, niA, err := mtA.upgrade(c1, dialedAddr)
			adone <- res{scA, niA, err}
		}()
		var ra res
		select {
		case ra = <-adone:
		case <-time.After(20 * time.Second):
			t.Fatalf("upgrade hangs: %+v", s)
		}
		code := c16Class(ra.err)
		idsOK := false
		if ra.err == nil {
			idsOK = ra.sc != nil && ra.ni != nil && PubKeyToID(ra.sc.RemotePubKey()) == c16ID(s.key) &&
				ra.ni.ID() == c16ID(s.key)
		}
		_ = c1.Close()
		_ = c2.Close()
		select {
		case <-bdone:
		case <-time.After(10 * time.Second):
		}
		key := vg.Opt(s.remote != 1, vg.N(uint64(s.key)))
		ni := vg.Opt(s.remote == 0, vg.N(uint64(s.ni)))
		cs.Add(id, fmt.Sprintf("remote%d-res%d", s.remote, code), s.remote != 0 || s.dialed != 0 || s.ni != s.key || !s.valid || !s.compat,
			vg.App("CUpgrade", key, vg.Opt(s.dialed != 0, vg.N(uint64(s.dialed))), ni, vg.B(s.valid), vg.N(1), vg.B(s.compat), vg.N(uint64(code)), vg.B(idsOK)),
			fmt.Sprintf("upgrade by node 1; remote kind %d authenticates with the key of node %d, NodeInfo.ID of node %s (valid=%v, same network=%v); dialled id: node %s (0 = inbound) -> class %d (err=%v)",
				s.remote, s.key, c16IDName(s.ni), s.valid, s.compat, c16IDName(s.dialed), code, ra.err))
	}
	if err := cs.Write(); err != nil {
		t.Fatal(err)
	}
}

// ---------------------------------------------------------------- through the real Dial / Accept

// TestVerifC16Dial: the same question asked of the paths a node really uses. Two real
// MultiplexTransports over loopback TCP: the observed one (node 1) either DIALS the remote's
// listener under a chosen dialled id (MultiplexTransport.Dial) or ACCEPTS the remote's dial
// (Listen / acceptPeers / Accept). The remote authenticates with a chosen node key and reports
// a chosen NodeInfo.ID. Observed: the result class and, on success, the ids of the Peer handed
// out (Peer.ID, NodeInfo.ID, the secret connection's authenticated key).
func TestVerifC16Dial(t *testing.T) {
	root := vg.NewRand(vg.Seed() ^ 0xc16d)
	cs := vg.NewCases("C16", "c16_dial", "TM.C16.Exec")
	cs.Samples = []string{}
	type sc struct {
		inbound       bool // observed node accepts instead of dialling
		key           int
		dialed        int // id the observed node dials (outbound only)
		ni            int
		valid, compat bool
	}
	grid := []sc{
		// outbound: right id, other node's id, own id, wrong NodeInfo, self, invalid, other network
		{false, 2, 2, 2, true, true}, {false, 2, 3, 2, true, true}, {false, 2, 1, 2, true, true},
		{false, 2, 3, 3, true, true}, {false, 2, 2, 3, true, true}, {false, 2, 2, 1, true, true},
		{false, 1, 1, 1, true, true}, {false, 2, 2, 2, false, true}, {false, 2, 2, 2, true, false},
		{false, 2, 3, 2, false, false}, {false, 3, 2, 3, true, true}, {false, 3, 2, 2, true, true},
		// inbound
		{true, 2, 0, 2, true, true}, {true, 2, 0, 3, true, true}, {true, 2, 0, 1, true, true},
		{true, 1, 0, 1, true, true}, {true, 2, 0, 2, false, true}, {true, 2, 0, 2, true, false},
		{true, 3, 0, 2, true, true},
	}
	for nm := 10; nm <= 19; nm++ {
		grid = append(grid, sc{false, 2, nm, 2, true, true}, sc{false, 2, 2, nm, true, true},
			sc{false, 2, nm, nm, true, true}, sc{true, 2, 0, nm, true, true})
	}
	n := len(grid) + vg.Scale(25, 1500)
	for k := 0; k < n; k++ {
		id := cs.NextID()
		if !cs.Want(id) {
			continue
		}
		r := root.Fork(uint64(k))
		var s sc
		if k < len(grid) {
			s = grid[k]
		} else {
			s = sc{inbound: r.Chance(40), key: 2, dialed: 2, ni: 2, valid: true, compat: true}
			if r.Chance(20) {
				s.key = []int{1, 3}[r.Intn(2)]
			}
			switch x := r.Intn(10); {
			case x < 4:
				s.dialed = s.key
			case x < 7:
				s.dialed = 1 + r.Intn(3)
			default:
				s.dialed = 10 + r.Intn(10)
			}
			switch x := r.Intn(10); {
			case x < 5:
				s.ni = s.key
			case x < 7:
				s.ni = 1 + r.Intn(3)
			default:
				s.ni = 10 + r.Intn(10)
			}
			s.valid = !r.Chance(12)
			s.compat = !r.Chance(12)
		}
		if s.inbound {
			s.dialed = 0
		}
		network := "testing"
		if !s.compat {
			network = "other-chain"
		}
		mtA := NewMultiplexTransport(c16Info(c16ID(1), true, "testing"), NodeKey{PrivKey: c16NodeKey(1)}, conn.DefaultMConnConfig())
		mtB := NewMultiplexTransport(c16Info(c16ID(s.ni), s.valid, network), NodeKey{PrivKey: c16NodeKey(s.key)}, conn.DefaultMConnConfig())
		type res struct {
			p   Peer
			err error
		}
		adone := make(chan res, 1)
		bdone := make(chan struct{})
		observe := func(f func() (Peer, error)) {
			defer func() {
				if x := recover(); x != nil {
					adone <- res{nil, fmt.Errorf("panic: %v", x)}
				}
			}()
			p, err := f()
			adone <- res{p, err}
		}
		listen := func(mt *MultiplexTransport, who int) *NetAddress {
			la := NewNetAddressIPPort(net.ParseIP("127.0.0.1"), 0)
			la.ID = c16ID(who)
			if err := mt.Listen(*la); err != nil {
				t.Fatalf("listen: %v", err)
			}
			tcp := mt.listener.Addr().(*net.TCPAddr)
			return NewNetAddressIPPort(net.ParseIP("127.0.0.1"), uint16(tcp.Port))
		}
		if s.inbound {
			addr := listen(mtA, 1)
			addr.ID = c16ID(1)
			go func() {
				defer close(bdone)
				if p, err := mtB.Dial(*addr, peerConfig{}); err == nil {
					// keep the connection until the observed end has decided
					select {
					case <-time.After(5 * time.Second):
					case <-mtB.closec:
					}
					mtB.Cleanup(p)
				}
			}()
			go observe(func() (Peer, error) { return mtA.Accept(peerConfig{}) })
		} else {
			addr := listen(mtB, s.key)
			addr.ID = c16ID(s.dialed)
			go func() {
				defer close(bdone)
				if p, err := mtB.Accept(peerConfig{}); err == nil {
					select {
					case <-time.After(5 * time.Second):
					case <-mtB.closec:
					}
					mtB.Cleanup(p)
				}
			}()
			go observe(func() (Peer, error) { return mtA.Dial(*addr, peerConfig{}) })
		}
		var ra res
		select {
		case ra = <-adone:
		case <-time.After(30 * time.Second):
			t.Fatalf("dial/accept hangs: %+v", s)
		}
		code := c16Class(ra.err)
		idsOK := false
		if ra.err == nil && ra.p != nil {
			want := c16ID(s.key)
			idsOK = ra.p.ID() == want && ra.p.NodeInfo() != nil && ra.p.NodeInfo().ID() == want
			if pp, ok := ra.p.(*peer); ok {
				if sconn, ok := pp.peerConn.conn.(*conn.SecretConnection); ok {
					idsOK = idsOK && PubKeyToID(sconn.RemotePubKey()) == want
				} else {
					idsOK = false
				}
			}
			if !s.inbound {
				// the peer handed out for a dialled address carries the id that was dialled
				idsOK = idsOK && (ra.p.ID() == c16ID(s.dialed))
			}
			mtA.Cleanup(ra.p)
		}
		_ = mtB.Close()
		_ = mtA.Close()
		select {
		case <-bdone:
		case <-time.After(10 * time.Second):
		}
		path := "MultiplexTransport.Dial"
		if s.inbound {
			path = "MultiplexTransport.Listen/Accept"
		}
		kind := fmt.Sprintf("out-res%d", code)
		if s.inbound {
			kind = fmt.Sprintf("in-res%d", code)
		}
		if s.ni >= 10 || s.dialed >= 10 {
			kind += "-nearmiss"
		}
		cs.Add(id, kind, s.inbound || s.dialed != s.key || s.ni != s.key || !s.valid || !s.compat,
			vg.App("CUpgrade", vg.Opt(true, vg.N(uint64(s.key))), vg.Opt(!s.inbound, vg.N(uint64(s.dialed))),
				vg.Opt(true, vg.N(uint64(s.ni))), vg.B(s.valid), vg.N(1), vg.B(s.compat), vg.N(uint64(code)), vg.B(idsOK)),
			fmt.Sprintf("%s of node 1 over loopback TCP; the remote transport authenticates with the key of node %d (id %s) and reports NodeInfo.ID of node %s (valid=%v, same network=%v); id dialled by node 1: node %s (0 = inbound) -> class %d (err=%v), peer ids are those of the authenticated key: %v",
				path, s.key, c16ID(s.key), c16IDName(s.ni), s.valid, s.compat, c16IDName(s.dialed), code, ra.err, idsOK))
	}
	if err := cs.Write(); err != nil {
		t.Fatal(err)
	}
}
