//go:build verif

package p2p

// C16 correspondence harness for p2p/transport.go upgrade (injected with `go test -overlay`):
// the real MultiplexTransport.upgrade on one end of a net.Pipe, a scripted remote on the other
// (a real transport with a chosen node key and a chosen NodeInfo, or a remote that drops out).

import (
	"fmt"
	"net"
	"testing"
	"time"

	"github.com/tendermint/tendermint/crypto"
	"github.com/tendermint/tendermint/crypto/ed25519"
	vg "github.com/tendermint/tendermint/internal/verifgen"
	"github.com/tendermint/tendermint/p2p/conn"
)

func c16NodeKey(i int) crypto.PrivKey {
	return ed25519.GenPrivKeyFromSecret([]byte(fmt.Sprintf("verif-c16-node-%d", i)))
}
func c16ID(i int) ID { return PubKeyToID(c16NodeKey(i).PubKey()) }

// the remote transport rejects for its own reasons and would close the pipe while the observed
// end is still finishing (net.Pipe reports a closed remote even from SetDeadline): keep the pipe
// open until the observed upgrade has returned
type c16KeepOpen struct{ net.Conn }

func (c c16KeepOpen) Close() error { return nil }

func c16Info(id ID, valid bool, network string) NodeInfo {
	ni := DefaultNodeInfo{
		ProtocolVersion: defaultProtocolVersion,
		DefaultNodeID:   id,
		ListenAddr:      "127.0.0.1:26656",
		Network:         network,
		Version:         "1.2.3-rc0-deadbeef",
		Channels:        []byte{testCh},
		Moniker:         "verif",
		Other:           DefaultNodeInfoOther{TxIndex: "on", RPCAddress: "127.0.0.1:26657"},
	}
	if !valid {
		ni.Moniker = ""
	}
	return ni
}

func TestVerifC16Upgrade(t *testing.T) {
	root := vg.NewRand(vg.Seed() ^ 0xc16c)
	cs := vg.NewCases("C16", "c16_upgrade", "TM.C16.Exec")
	cs.Samples = []string{} // never null in the meta file (replay runs may leave a harness without cases)
	// remote: 0 real transport, 1 closes at once, 2 secret connection then closes
	type sc struct {
		remote        int
		key           int // identity whose key the remote authenticates with
		dialed        int // 0 = inbound
		ni            int // identity in the remote's NodeInfo
		valid, compat bool
	}
	grid := []sc{
		{0, 2, 0, 2, true, true}, {0, 2, 2, 2, true, true}, {0, 2, 3, 2, true, true},
		{0, 2, 0, 3, true, true}, {0, 2, 2, 3, true, true}, {0, 2, 0, 1, true, true},
		{0, 1, 0, 1, true, true}, {0, 1, 1, 1, true, true}, {0, 2, 0, 2, false, true},
		{0, 2, 0, 2, true, false}, {0, 2, 2, 2, false, false}, {1, 2, 0, 2, true, true},
		{1, 2, 2, 2, true, true}, {2, 2, 0, 2, true, true}, {2, 2, 2, 2, true, true},
		{2, 2, 3, 2, true, true}, {0, 2, 0, 3, false, true}, {0, 2, 0, 3, true, false},
	}
	n := len(grid) + vg.Scale(20, 1500)
	for k := 0; k < n; k++ {
		id := cs.NextID()
		if !cs.Want(id) {
			continue
		}
		r := root.Fork(uint64(k))
		var s sc
		if k < len(grid) {
			s = grid[k]
		} else {
			s = sc{remote: 0, key: 2, dialed: 0, ni: 2, valid: true, compat: true}
			if r.Chance(15) {
				s.remote = 1 + r.Intn(2)
			}
			if r.Chance(15) {
				s.key = 1
			}
			if r.Chance(60) {
				s.dialed = 2
				if r.Chance(35) {
					s.dialed = []int{1, 3}[r.Intn(2)]
				}
			}
			if r.Chance(40) {
				s.ni = 1 + r.Intn(3)
			} else {
				s.ni = s.key
			}
			s.valid = !r.Chance(15)
			s.compat = !r.Chance(15)
		}
		network := "testing"
		if !s.compat {
			network = "other-chain"
		}
		mtA := NewMultiplexTransport(c16Info(c16ID(1), true, "testing"), NodeKey{PrivKey: c16NodeKey(1)}, conn.DefaultMConnConfig())
		mtB := NewMultiplexTransport(c16Info(c16ID(s.ni), s.valid, network), NodeKey{PrivKey: c16NodeKey(s.key)}, conn.DefaultMConnConfig())
		MultiplexTransportFilterTimeout(time.Second)(mtA)
		c1, c2 := net.Pipe()
		bdone := make(chan struct{})
		go func() {
			defer close(bdone)
			switch s.remote {
			case 0:
				_, _, _ = mtB.upgrade(c16KeepOpen{c2}, nil)
			case 1:
				_ = c2.Close()
			case 2:
				// secret connection, then wait for the other end's NodeInfo (or its close) and
				// drop out without sending one
				if sc, err := upgradeSecretConn(c16KeepOpen{c2}, 3*time.Second, c16NodeKey(s.key)); err == nil {
					_, _ = sc.Read(make([]byte, 1))
				}
				_ = c2.Close()
			}
		}()
		var dialedAddr *NetAddress
		if s.dialed != 0 {
			dialedAddr = NewNetAddressIPPort(net.ParseIP("127.0.0.1"), 26656)
			dialedAddr.ID = c16ID(s.dialed)
		}
		type res struct {
			sc  *conn.SecretConnection
			ni  NodeInfo
			err error
		}
		adone := make(chan res, 1)
		go func() {
			defer func() {
				if x := recover(); x != nil {
					adone <- res{nil, nil, fmt.Errorf("panic: %v", x)}
				}
			}()
			scA, niA, err := mtA.upgrade(c1, dialedAddr)
			adone <- res{scA, niA, err}
		}()
		var ra res
		select {
		case ra = <-adone:
		case <-time.After(20 * time.Second):
			t.Fatalf("upgrade hangs: %+v", s)
		}
		code := 9
		idsOK := false
		if ra.err == nil {
			code = 0
			idsOK = ra.sc != nil && ra.ni != nil && PubKeyToID(ra.sc.RemotePubKey()) == c16ID(s.key) &&
				ra.ni.ID() == c16ID(s.key)
		} else if e, ok := ra.err.(ErrRejected); ok {
			switch {
			case e.IsSelf():
				code = 6
			case e.IsNodeInfoInvalid():
				code = 4
			case e.IsIncompatible():
				code = 7
			case e.IsAuthFailure() && e.id != "":
				code = 2 // dialled-id or NodeInfo-id mismatch
			case e.IsAuthFailure():
				code = 1 // secret connection or NodeInfo exchange failed
			}
		}
		_ = c1.Close()
		_ = c2.Close()
		select {
		case <-bdone:
		case <-time.After(10 * time.Second):
		}
		key := vg.Opt(s.remote != 1, vg.N(uint64(s.key)))
		ni := vg.Opt(s.remote == 0, vg.N(uint64(s.ni)))
		cs.Add(id, fmt.Sprintf("remote%d-res%d", s.remote, code), s.remote != 0 || s.dialed != 0 || s.ni != s.key || !s.valid || !s.compat,
			vg.App("CUpgrade", key, vg.Opt(s.dialed != 0, vg.N(uint64(s.dialed))), ni, vg.B(s.valid), vg.N(1), vg.B(s.compat), vg.N(uint64(code)), vg.B(idsOK)),
			fmt.Sprintf("upgrade by node 1; remote kind %d authenticates with the key of node %d, NodeInfo.ID of node %d (valid=%v, same network=%v); dialled id: node %d (0 = inbound) -> class %d (err=%v)",
				s.remote, s.key, s.ni, s.valid, s.compat, s.dialed, code, ra.err))
	}
	if err := cs.Write(); err != nil {
		t.Fatal(err)
	}
}
