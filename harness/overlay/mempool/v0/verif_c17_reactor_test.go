//go:build verif

package v0

// C17 reactor sweep, mempool/v0 (reactor number 2) — injected with `go test -overlay`.
//
// One case = one hostile input delivered to a fresh, live mempool Reactor (real CListMempool over a
// local kvstore ABCI client, real p2p.Switch that is not listening) through the entry point the
// p2p layer uses (Reactor.Receive: proto.Unmarshal, Unwrap, ReceiveEnvelope).  The sender is a mock
// peer in one of the peer states the reactor distinguishes (unknown / InitPeer+AddPeer / removed).
//
// Goroutines:
//   - broadcastTxRoutine (per peer, normally spawned by AddPeer): WRAPPED — the harness does
//     InitPeer and then runs memR.broadcastTxRoutine(peer) itself under recover (AddPeer does
//     nothing else), so a panic there is recorded as bg_panic.
//   - everything else (there is no other goroutine in this reactor; CheckTx callbacks of the local
//     ABCI client run on the calling goroutine) is covered by the CHILD PROCESS: all cases run in
//     a re-exec'ed copy of the test binary; when it dies the case in progress is recorded with
//     bg_panic (output contains "panic:" / "fatal error:") or stuck (killed by the parent).
//
// alive probe: a block is "committed" (everything reaped is removed by Update), then a fresh tx
// from an honest peer must land in the mempool via Receive and must be gossiped by the (wrapped)
// broadcast routine to an observer peer.

import (
	"bytes"
	"context"
	"encoding/hex"
	"encoding/json"
	"fmt"
	"os"
	"os/exec"
	"runtime"
	"strconv"
	"strings"
	"sync"
	"testing"
	"time"

	"github.com/gogo/protobuf/proto"

	"github.com/tendermint/tendermint/abci/example/kvstore"
	abci "github.com/tendermint/tendermint/abci/types"
	cfg "github.com/tendermint/tendermint/config"
	"github.com/tendermint/tendermint/crypto/ed25519"
	vg "github.com/tendermint/tendermint/internal/verifgen"
	"github.com/tendermint/tendermint/libs/log"
	"github.com/tendermint/tendermint/mempool"
	"github.com/tendermint/tendermint/p2p"
	"github.com/tendermint/tendermint/p2p/conn"
	"github.com/tendermint/tendermint/p2p/mock"
	memproto "github.com/tendermint/tendermint/proto/tendermint/mempool"
	"github.com/tendermint/tendermint/proxy"
	"github.com/tendermint/tendermint/types"
)

// ------------------------------------------------------------------ shared skeleton (duplicated in the five files)

type c17Rec struct {
	Phase     string `json:"phase"` // "B" written before the input is delivered, "E" after
	ID        int    `json:"id"`
	Kind      int    `json:"kind"`
	KindName  string `json:"kind_name"`
	InLen     int    `json:"in_len"`
	Descr     string `json:"descr"`
	RecvPanic bool   `json:"recv_panic"`
	Stopped   bool   `json:"stopped"`
	BgPanic   bool   `json:"bg_panic"`
	Stuck     bool   `json:"stuck"`
	Alive     bool   `json:"alive"`
	Alloc     int64  `json:"alloc"`
	Note      string `json:"note,omitempty"`
}

type c17Input struct {
	kind     int
	kindName string
	chID     byte
	state    int
	data     []byte
	msg      string // Go-literal-ish form for kind 2
	extra    string
}

// c17BG collects panics of wrapped background goroutines.
type c17BG struct {
	mtx    sync.Mutex
	panics []string
	wg     sync.WaitGroup
}

func (b *c17BG) Go(name string, f func()) {
	b.wg.Add(1)
	go func() {
		defer b.wg.Done()
		defer func() {
			if r := recover(); r != nil {
				b.mtx.Lock()
				b.panics = append(b.panics, fmt.Sprintf("%s: %v", name, r))
				b.mtx.Unlock()
			}
		}()
		f()
	}()
}
func (b *c17BG) Panicked() (bool, string) {
	b.mtx.Lock()
	defer b.mtx.Unlock()
	return len(b.panics) > 0, strings.Join(b.panics, " | ")
}

// c17Timed runs f under recover in its own goroutine; done=false when it did not return in time.
func c17Timed(d time.Duration, f func()) (done bool, panicked bool, pv string) {
	ch := make(chan struct{})
	go func() {
		defer close(ch)
		defer func() {
			if r := recover(); r != nil {
				panicked = true
				pv = fmt.Sprint(r)
			}
		}()
		f()
	}()
	select {
	case <-ch:
		return true, panicked, pv
	case <-time.After(d):
		return false, false, ""
	}
}

func c17TotalAlloc() int64 {
	var ms runtime.MemStats
	runtime.ReadMemStats(&ms)
	return int64(ms.TotalAlloc)
}

func c17Trunc(s string, n int) string {
	if len(s) > n {
		return s[:n] + fmt.Sprintf("…(%d more)", len(s)-n)
	}
	return s
}

func c17HexDescr(b []byte) string {
	if len(b) <= 2048 {
		return hex.EncodeToString(b)
	}
	return hex.EncodeToString(b[:1024]) + fmt.Sprintf("…(%d bytes in total; regenerate with VERIF_ONLY)", len(b))
}

func c17RandomBytes(r *vg.Rand, k int, tags []byte) []byte {
	var n int
	switch {
	case k < 24:
		n = k // lengths 0,1,2,… in order
	case r.Chance(70):
		n = r.Intn(64)
	default:
		n = 64 + r.Intn(400)
	}
	b := r.Bytes(n)
	if len(tags) > 0 && n > 0 && r.Chance(40) {
		b[0] = tags[r.Intn(len(tags))]
		if n > 1 && r.Chance(60) {
			b[1] = byte(n - 2) // plausible length prefix
		}
	}
	return b
}

func c17Mutate(r *vg.Rand, valid []byte) ([]byte, string) {
	b := append([]byte{}, valid...)
	if len(b) == 0 {
		return b, "none"
	}
	switch r.Intn(5) {
	case 0:
		i := r.Intn(len(b))
		b[i] ^= 1 << uint(r.Intn(8))
		return b, fmt.Sprintf("bitflip@%d", i)
	case 1:
		i, j := r.Intn(len(b)), r.Intn(len(b))
		b[i] = byte(r.Uint64())
		b[j] = byte(r.Uint64())
		return b, fmt.Sprintf("bytes@%d,%d", i, j)
	case 2:
		n := r.Intn(len(b))
		return b[:n], fmt.Sprintf("truncate@%d", n)
	case 3:
		i := r.Intn(len(b))
		b[i] = 0xff
		return b, fmt.Sprintf("ff@%d", i)
	default:
		i := r.Intn(len(b))
		c := append(append([]byte{}, b[:i]...), byte(r.Uint64()))
		return append(c, b[i:]...), fmt.Sprintf("insert@%d", i)
	}
}

// c17Peer is the mock peer (hostile sender, honest prober, observer): a p2p/mock.Peer that
// records what the reactor sends to it.
type c17Peer struct {
	*mock.Peer
	mtx    sync.Mutex
	sent   []proto.Message
	onSend func(e p2p.Envelope)
}

func c17NewPeer(ip byte, outbound bool) *c17Peer {
	p := &c17Peer{Peer: mock.NewPeer([]byte{37, 120, 3, ip})}
	p.Peer.Outbound = outbound
	return p
}
func (p *c17Peer) record(e p2p.Envelope) bool {
	p.mtx.Lock()
	p.sent = append(p.sent, e.Message)
	f := p.onSend
	p.mtx.Unlock()
	if f != nil {
		f(e)
	}
	return true
}
func (p *c17Peer) SendEnvelope(e p2p.Envelope) bool    { return p.record(e) }
func (p *c17Peer) TrySendEnvelope(e p2p.Envelope) bool { return p.record(e) }
func (p *c17Peer) Sent() []proto.Message {
	p.mtx.Lock()
	defer p.mtx.Unlock()
	return append([]proto.Message{}, p.sent...)
}

func c17Key() ed25519.PrivKey { return ed25519.GenPrivKey() }

// c17Drive is the parent/child orchestration.  gen builds case k from its own PRNG stream; exec
// delivers it.  The parent never delivers anything itself.
func c17Drive(t *testing.T, testName, casesName string, reactorNo uint64, n int,
	gen func(k int, r *vg.Rand) c17Input, run func(in c17Input, rec *c17Rec)) {

	root := vg.NewRand(vg.Seed())
	if fromS := os.Getenv("VERIF_C17_CHILD"); fromS != "" {
		// ---- child: run cases from..n-1, journal to the file
		from, _ := strconv.Atoi(fromS)
		f, err := os.OpenFile(os.Getenv("VERIF_C17_FILE"), os.O_APPEND|os.O_WRONLY|os.O_CREATE, 0o644)
		if err != nil {
			t.Fatal(err)
		}
		defer f.Close()
		put := func(rec c17Rec) {
			js, _ := json.Marshal(rec)
			f.Write(append(js, '\n'))
			f.Sync()
		}
		for k := from; k < n; k++ {
			if o := vg.Only(); o >= 0 && o != k {
				continue
			}
			var in c17Input
			func() {
				defer func() {
					if r := recover(); r != nil { // a generator bug must not kill the run: visible as its own kind
						in = c17Input{kind: 0, kindName: "harness-generator-panic", extra: fmt.Sprintf(" GENERATOR PANIC: %v", r)}
					}
				}()
				in = gen(k, root.Fork(uint64(k)))
			}()
			rec := c17Rec{Phase: "B", ID: k, Kind: in.kind, KindName: in.kindName, InLen: len(in.data)}
			rec.Descr = fmt.Sprintf("reactor=%d(%s) ch=0x%02x peer_state=%d%s input(hex)=%s", reactorNo, casesName,
				in.chID, in.state, in.extra, c17HexDescr(in.data))
			if in.msg != "" {
				rec.Descr += " msg=" + c17Trunc(in.msg, 1500)
			}
			put(rec)
			func() {
				defer func() {
					if r := recover(); r != nil { // the harness itself must not die
						rec.Note += fmt.Sprintf(" harness-panic: %v", r)
					}
				}()
				run(in, &rec)
			}()
			rec.Phase = "E"
			put(rec)
		}
		return
	}

	// ---- parent
	cs := vg.NewCases("C17", casesName, "TM.C17.Exec")
	add := func(rec c17Rec) {
		term := vg.App("CReactor", vg.N(reactorNo), vg.N(uint64(rec.Kind)), vg.Z(int64(rec.InLen)),
			vg.B(rec.RecvPanic), vg.B(rec.Stopped), vg.B(rec.BgPanic), vg.B(rec.Stuck), vg.B(rec.Alive), vg.Z(rec.Alloc))
		d := rec.Descr
		if rec.Note != "" {
			d += " note=" + rec.Note
		}
		cs.Add(rec.ID, rec.KindName, rec.Kind != 0 || rec.InLen > 0, term, d)
		out := "ignored"
		switch {
		case rec.BgPanic:
			out = "BG_PANIC"
		case rec.Stuck:
			out = "STUCK"
		case !rec.Alive:
			out = "NOT_ALIVE"
		case rec.RecvPanic:
			out = "recv_panic"
		case rec.Stopped:
			out = "stopped"
		}
		cs.Count("outcome:"+out, 1)
	}
	for k := 0; k < n; k++ {
		cs.NextID() // ids are dense: id = k
	}
	dir, err := os.MkdirTemp("", "c17child")
	if err != nil {
		t.Fatal(err)
	}
	defer os.RemoveAll(dir)
	from, spawn := 0, 0
	for from < n {
		spawn++
		file := fmt.Sprintf("%s/journal%d", dir, spawn)
		ctx, cancel := context.WithTimeout(context.Background(), time.Duration(120+4*(n-from))*time.Second)
		cmd := exec.CommandContext(ctx, os.Args[0], "-test.run=^"+testName+"$", "-test.count=1", "-test.timeout=0")
		cmd.Env = append(os.Environ(), "VERIF_C17_CHILD="+strconv.Itoa(from), "VERIF_C17_FILE="+file)
		var outb bytes.Buffer
		cmd.Stdout, cmd.Stderr = &outb, &outb
		runErr := cmd.Run()
		timedOut := ctx.Err() != nil
		cancel()
		js, _ := os.ReadFile(file)
		var pending *c17Rec
		for _, line := range bytes.Split(js, []byte{'\n'}) {
			if len(line) == 0 {
				continue
			}
			var rec c17Rec
			if err := json.Unmarshal(line, &rec); err != nil {
				continue
			}
			if rec.Phase == "B" {
				r2 := rec
				pending = &r2
			} else {
				pending = nil
				add(rec)
			}
		}
		if runErr == nil && pending == nil {
			break
		}
		outS := outb.String()
		if pending == nil {
			t.Fatalf("c17 child died outside a case (from=%d): %v\n%s", from, runErr, c17Trunc(outS, 4000))
		}
		// the child died while case pending.ID was being handled
		crashed := strings.Contains(outS, "panic:") || strings.Contains(outS, "fatal error:")
		pending.BgPanic = crashed && !timedOut
		pending.Stuck = !pending.BgPanic
		pending.Alive = false
		tail := outS
		if i := strings.Index(tail, "panic:"); i >= 0 {
			tail = tail[i:]
		} else if i := strings.Index(tail, "fatal error:"); i >= 0 {
			tail = tail[i:]
		}
		pending.Note = "child process died: " + c17Trunc(strings.ReplaceAll(tail, "\n", " / "), 700)
		add(*pending)
		cs.Notes = append(cs.Notes, fmt.Sprintf("case %d killed the child process", pending.ID))
		from = pending.ID + 1
		if vg.Only() >= 0 {
			break
		}
	}
	if err := cs.Write(); err != nil {
		t.Fatal(err)
	}
}

// ------------------------------------------------------------------ mempool specifics

type c17PeerState struct{ h int64 }

func (s c17PeerState) GetHeight() int64 { return s.h }

type c17MemEnv struct {
	memR    *Reactor
	mp      *CListMempool
	sw      *p2p.Switch
	bg      *c17BG
	stopApp func()
}

func c17NewMemEnv() *c17MemEnv {
	app := kvstore.NewApplication()
	cc := proxy.NewLocalClientCreator(app)
	appConn, _ := cc.NewABCIClient()
	appConn.SetLogger(log.NewNopLogger())
	if err := appConn.Start(); err != nil {
		panic(err)
	}
	mcfg := cfg.DefaultMempoolConfig()
	mp := NewCListMempool(mcfg, appConn, 0)
	mp.SetLogger(log.NewNopLogger())
	memR := NewReactor(mcfg, mp)
	memR.SetLogger(log.NewNopLogger())
	nk := p2p.NodeKey{PrivKey: c17Key()}
	ni := p2p.DefaultNodeInfo{DefaultNodeID: nk.ID()}
	tr := p2p.NewMultiplexTransport(ni, nk, conn.DefaultMConnConfig())
	sw := p2p.NewSwitch(cfg.DefaultP2PConfig(), tr)
	sw.SetLogger(log.NewNopLogger())
	sw.AddReactor("MEMPOOL", memR)
	if err := memR.Start(); err != nil {
		panic(err)
	}
	return &c17MemEnv{memR: memR, mp: mp, sw: sw, bg: &c17BG{}, stopApp: func() { appConn.Stop() }} //nolint:errcheck
}

func (e *c17MemEnv) addPeer(p *c17Peer, withState bool) {
	if withState {
		p.Set(types.PeerStateKey, c17PeerState{1})
	}
	_ = e.sw.Peers().(*p2p.PeerSet).Add(p)
	e.memR.InitPeer(p)
	// what AddPeer does, under recover
	if e.memR.config.Broadcast {
		e.bg.Go("broadcastTxRoutine", func() { e.memR.broadcastTxRoutine(p) })
	}
}

func (e *c17MemEnv) close() {
	e.memR.Stop() //nolint:errcheck
	for _, p := range e.sw.Peers().List() {
		p.Stop() //nolint:errcheck
	}
	e.stopApp()
}

func c17Encode(txs [][]byte) []byte {
	m := &memproto.Message{Sum: &memproto.Message_Txs{Txs: &memproto.Txs{Txs: txs}}}
	b, err := proto.Marshal(m)
	if err != nil {
		panic(err)
	}
	return b
}

func c17TxsLit(txs [][]byte) string {
	var sb strings.Builder
	sb.WriteString("&Txs{Txs: [")
	for i, tx := range txs {
		if i >= 6 {
			sb.WriteString(fmt.Sprintf(" …(%d txs)", len(txs)))
			break
		}
		if len(tx) > 24 {
			sb.WriteString(fmt.Sprintf(" %x…(len %d)", tx[:24], len(tx)))
		} else {
			sb.WriteString(fmt.Sprintf(" %x", tx))
		}
	}
	sb.WriteString(" ]}")
	return sb.String()
}

const c17MemMaxTx = 1024 * 1024 // DefaultMempoolConfig().MaxTxBytes

func c17MemGen(k int, r *vg.Rand) c17Input {
	in := c17Input{chID: mempool.MempoolChannel, state: r.Intn(3)}
	hostile := func(name string, txs [][]byte) {
		in.kind, in.kindName, in.data, in.msg = 2, "hostile:"+name, c17Encode(txs), c17TxsLit(txs)
	}
	switch sel := r.Intn(100); {
	case sel < 35:
		in.kind, in.kindName = 0, "random"
		in.data = c17RandomBytes(r, k, []byte{0x0a, 0x12, 0x08})
	case sel < 60:
		n := 1 + r.Intn(3)
		txs := make([][]byte, n)
		for i := range txs {
			txs[i] = r.Bytes(1 + r.Intn(40))
		}
		var how string
		in.kind, in.kindName = 1, "mutated"
		in.data, how = c17Mutate(r, c17Encode(txs))
		in.extra = " mutation=" + how + " of " + c17TxsLit(txs)
	default:
		switch r.Intn(10) {
		case 0:
			hostile("empty-list", nil)
		case 1:
			hostile("empty-tx", [][]byte{{}})
		case 2:
			hostile("max-size-tx", [][]byte{bytes.Repeat([]byte{byte(r.Uint64())}, c17MemMaxTx)})
		case 3: // one byte over the mempool's limit; still below the channel capacity? no: exactly at the limit of what fits
			hostile("oversize-tx", [][]byte{bytes.Repeat([]byte{0x61}, c17MemMaxTx-1), bytes.Repeat([]byte{0x62}, 8)})
		case 4:
			tx := r.Bytes(8)
			txs := make([][]byte, 2000)
			for i := range txs {
				txs[i] = tx
			}
			hostile("duplicates", txs)
		case 5: // fills the mempool (Size 5000)
			txs := make([][]byte, 6000)
			for i := range txs {
				txs[i] = []byte(fmt.Sprintf("k%d=%d", k, i))
			}
			hostile("flood", txs)
		case 6:
			hostile("many-empty", make([][]byte, 3000))
		case 7:
			in.chID = byte(r.Uint64())
			hostile("wrong-channel", [][]byte{r.Bytes(12)})
		case 8: // kvstore "val:" tx and other app-level oddities
			hostile("app-special", [][]byte{[]byte("val:" + hex.EncodeToString(r.Bytes(3)) + "!-1"), []byte("="), []byte("a=b=c")})
		default:
			hostile("plain", [][]byte{r.Bytes(1 + r.Intn(100))})
		}
	}
	return in
}

func c17MemExec(in c17Input, rec *c17Rec) {
	env := c17NewMemEnv()
	defer env.close()
	hostile := c17NewPeer(2, false)
	observer := c17NewPeer(3, true)
	honest := c17NewPeer(4, false)
	env.addPeer(observer, true)
	env.addPeer(honest, true)
	switch in.state {
	case 1:
		env.addPeer(hostile, true)
	case 2:
		env.addPeer(hostile, true)
		env.memR.RemovePeer(hostile, "removed earlier")
		_ = env.sw.Peers().(*p2p.PeerSet).Remove(hostile)
	}

	a0 := c17TotalAlloc()
	done, pan, pv := c17Timed(2*time.Second, func() { env.memR.Receive(in.chID, hostile, in.data) })
	if done {
		time.Sleep(5 * time.Millisecond)
	}
	rec.Alloc = c17TotalAlloc() - a0
	rec.Stuck = !done
	rec.RecvPanic = pan
	if pan {
		rec.Note += " recv-panic: " + c17Trunc(pv, 160)
		// what MConnection._recover -> onPeerError does in production
		env.sw.StopPeerForError(hostile, pv)
	}
	rec.Stopped = !hostile.IsRunning()

	// ---- alive probe
	alive := false
	if !rec.Stuck {
		ok, _, _ := c17Timed(3*time.Second, func() {
			// a block commits everything that is in the pool
			txs := env.mp.ReapMaxTxs(-1)
			env.mp.Lock()
			resps := make([]*abci.ResponseDeliverTx, len(txs))
			for i := range resps {
				resps[i] = &abci.ResponseDeliverTx{Code: abci.CodeTypeOK}
			}
			_ = env.mp.Update(1, txs, resps, nil, nil)
			env.mp.Unlock()
			fresh := []byte(fmt.Sprintf("honest-%d=%d", rec.ID, len(in.data)))
			env.memR.Receive(mempool.MempoolChannel, honest, c17Encode([][]byte{fresh}))
			inPool := false
			for e := env.mp.TxsFront(); e != nil; e = e.Next() {
				if bytes.Equal(e.Value.(*mempoolTx).tx, fresh) {
					inPool = true
				}
			}
			if !inPool {
				rec.Note += " probe: honest tx not in pool"
				return
			}
			for dl := time.Now().Add(2 * time.Second); time.Now().Before(dl); time.Sleep(2 * time.Millisecond) {
				for _, m := range observer.Sent() {
					if t, ok := m.(*memproto.Txs); ok && len(t.Txs) == 1 && bytes.Equal(t.Txs[0], fresh) {
						alive = true
						return
					}
				}
			}
			rec.Note += " probe: honest tx not gossiped to the observer"
		})
		if !ok {
			rec.Note += " probe: timed out"
		}
	}
	bgp, bgs := env.bg.Panicked()
	rec.BgPanic = bgp
	if bgp {
		rec.Note += " bg-panic: " + c17Trunc(bgs, 200)
	}
	rec.Alive = alive
}

func TestVerifC17ReactorMempool(t *testing.T) {
	c17Drive(t, "TestVerifC17ReactorMempool", "c17_reactor_mempool", 2, vg.Scale(40, 4000), c17MemGen, c17MemExec)
}
