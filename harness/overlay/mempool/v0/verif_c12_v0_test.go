//go:build verif

package v0

// C12 correspondence harness for mempool/v0 (CListMempool) — injected with `go test -overlay`.
// A real mempool over the local ABCI client and a scripted application is driven through
// generated histories; after every operation its list, index, byte counter and cache are read.

import (
	"errors"
	"fmt"
	"sort"
	"testing"

	abci "github.com/tendermint/tendermint/abci/types"
	"github.com/tendermint/tendermint/config"
	vg "github.com/tendermint/tendermint/internal/verifgen"
	"github.com/tendermint/tendermint/libs/clist"
	"github.com/tendermint/tendermint/mempool"
	"github.com/tendermint/tendermint/proxy"
	"github.com/tendermint/tendermint/types"
)

type c12App struct {
	abci.BaseApplication
	sc *vg.C12Script
}

func (a *c12App) CheckTx(req abci.RequestCheckTx) abci.ResponseCheckTx {
	v := a.sc.Answer(req.Tx, req.Type == abci.CheckTxType_Recheck)
	return abci.ResponseCheckTx{Code: v.Code, GasWanted: v.Gas, Priority: v.Prio, Sender: vg.C12SenderName(v.Sender)}
}

type c12Driver struct {
	mp   *CListMempool
	stop func()
}

func c12ErrClass(err error) int {
	switch {
	case err == nil:
		return 0
	case errors.As(err, &mempool.ErrMempoolIsFull{}):
		return 1
	case errors.As(err, &mempool.ErrTxTooLarge{}):
		return 2
	case errors.As(err, &mempool.ErrPreCheck{}):
		return 3
	case errors.Is(err, mempool.ErrTxInCache):
		return 4
	}
	return 5
}

func c12New(cfg vg.C12Cfg, h0 int64, pre, post *int64, sc *vg.C12Script) vg.C12Driver {
	for i, tx := range sc.Alphabet {
		k := types.Tx(tx).Key()
		sc.RegisterKey(i, k[:])
	}
	cc := proxy.NewLocalClientCreator(&c12App{sc: sc})
	conn, _ := cc.NewABCIClient()
	if err := conn.Start(); err != nil {
		panic(err)
	}
	mc := &config.MempoolConfig{
		Version: config.MempoolV0, Recheck: cfg.Recheck, Broadcast: false, Size: cfg.Size,
		MaxTxsBytes: cfg.MaxTxsBytes, CacheSize: cfg.CacheSize, KeepInvalidTxsInCache: cfg.KeepInvalid,
		MaxTxBytes: cfg.MaxTxBytes,
	}
	var opts []CListMempoolOption
	if pre != nil {
		opts = append(opts, WithPreCheck(mempool.PreCheckMaxBytes(*pre)))
	}
	if post != nil {
		opts = append(opts, WithPostCheck(mempool.PostCheckMaxGas(*post)))
	}
	mp := NewCListMempool(mc, conn, h0, opts...)
	mp.EnableTxsAvailable()
	return &c12Driver{mp: mp, stop: func() { _ = conn.Stop() }}
}

func (d *c12Driver) Close() { d.stop() }

func (d *c12Driver) CheckTx(tx []byte, peer uint16) int {
	return c12ErrClass(d.mp.CheckTx(tx, nil, mempool.TxInfo{SenderID: peer}))
}

func (d *c12Driver) Update(h int64, txs [][]byte, codes []uint32, pre, post *int64) {
	var ttxs types.Txs
	var rs []*abci.ResponseDeliverTx
	for i, t := range txs {
		ttxs = append(ttxs, types.Tx(t))
		rs = append(rs, &abci.ResponseDeliverTx{Code: codes[i]})
	}
	var pf mempool.PreCheckFunc
	var qf mempool.PostCheckFunc
	if pre != nil {
		pf = mempool.PreCheckMaxBytes(*pre)
	}
	if post != nil {
		qf = mempool.PostCheckMaxGas(*post)
	}
	d.mp.Lock()
	defer d.mp.Unlock()
	_ = d.mp.FlushAppConn()
	if err := d.mp.Update(h, ttxs, rs, pf, qf); err != nil {
		panic(err)
	}
}

func (d *c12Driver) Flush() { d.mp.Flush() }

func (d *c12Driver) Remove(tx []byte) int {
	return c12ErrClass(d.mp.RemoveTxByKey(types.Tx(tx).Key()))
}

func c12Raw(txs types.Txs) [][]byte {
	out := make([][]byte, len(txs))
	for i, t := range txs {
		out[i] = t
	}
	return out
}

func (d *c12Driver) ReapTxs(n int) [][]byte { return c12Raw(d.mp.ReapMaxTxs(n)) }
func (d *c12Driver) ReapBG(b, g int64) [][]byte {
	return c12Raw(d.mp.ReapMaxBytesMaxGas(b, g))
}

func (d *c12Driver) Observe() vg.C12RawObs {
	o := vg.C12RawObs{Size: d.mp.Size(), Bytes: d.mp.SizeBytes(), StampsOK: true}
	n := 0
	for e := d.mp.txs.Front(); e != nil && n < 1000; e = e.Next() {
		m := e.Value.(*mempoolTx)
		o.Pool = append(o.Pool, vg.C12RawEnt{Tx: m.tx, Gas: m.gasWanted})
		n++
	}
	d.mp.txsMap.Range(func(_, v interface{}) bool {
		_ = v.(*clist.CElement)
		o.NKeys++
		return true
	})
	if c, ok := d.mp.cache.(*mempool.LRUTxCache); ok {
		for e := c.GetList().Front(); e != nil; e = e.Next() {
			k := e.Value.(types.TxKey)
			o.Cache = append(o.Cache, append([]byte{}, k[:]...))
		}
	}
	return o
}

func TestVerifC12V0(t *testing.T) {
	root := vg.NewRand(vg.Seed() ^ 0xc120)
	cs := vg.NewCases("C12", "c12_v0", "TM.C12.Exec")
	vg.ShardSize = 12
	n := vg.Scale(300, 20000)
	events := map[string]int{}
	for k := 0; k < vg.C12NDirected+n; k++ {
		id := cs.NextID()
		if !cs.Want(id) {
			continue
		}
		directed := -1
		if k < vg.C12NDirected {
			directed = k
		}
		term, descr, kind, nontrivial, ok := vg.C12History(root.Fork(uint64(k)), false, directed, c12New, events)
		if !ok {
			cs.Count("skipped", 1)
			continue
		}
		cs.Add(id, kind, nontrivial, term, descr)
	}
	// large pools over few priority levels (reap order inside a level, limits cutting a level)
	nBig := vg.Scale(24, 1500)
	for k := 0; k < nBig; k++ {
		id := cs.NextID()
		if !cs.Want(id) {
			continue
		}
		term, descr, kind, nontrivial, ok := vg.C12BigHistory(root.Fork(uint64(1000000+k)), false, c12New, events)
		if !ok {
			cs.Count("skipped-equal-arrival-stamps", 1)
			continue
		}
		cs.Add(id, kind, nontrivial, term, descr)
	}
	// F94: GasWanted near the top of int64 reaped under finite gas limits. Gated (see
	// vg.C12F94Enabled) until the repair is in the tree under test.
	if vg.C12F94Enabled() {
		nGas := vg.Scale(40, 2000)
		for k := 0; k < vg.C12F94NDirected+nGas; k++ {
			id := cs.NextID()
			if !cs.Want(id) {
				continue
			}
			directed := -1
			if k < vg.C12F94NDirected {
				directed = k
			}
			term, descr, kind, nontrivial, ok := vg.C12F94History(root.Fork(uint64(2000000+k)), false, directed, c12New, events)
			if !ok {
				cs.Count("skipped-equal-arrival-stamps", 1)
				continue
			}
			cs.Add(id, kind, nontrivial, term, descr)
		}
	}
	for k, n := range events {
		cs.Notes = append(cs.Notes, fmt.Sprintf("%s=%d", k, n))
	}
	sort.Strings(cs.Notes)
	if err := cs.Write(); err != nil {
		t.Fatal(err)
	}
}
