//go:build verif

package v1

// C12 correspondence harness for mempool/v1 (TxMempool, priority mempool) — injected with
// `go test -overlay`.  A real mempool over the local ABCI client and a scripted application is
// driven through generated histories; after every operation its list, both indexes, byte
// counter and cache are read.  v1 stamps arrivals with time.Now() and rechecks in background
// goroutines: the driver spaces arrivals so stamps are strictly increasing (checked, otherwise
// the history is skipped) and waits for the recheck round to finish before it observes.

import (
	"errors"
	"fmt"
	"runtime"
	"sort"
	"testing"
	"time"

	abci "github.com/tendermint/tendermint/abci/types"
	"github.com/tendermint/tendermint/config"
	vg "github.com/tendermint/tendermint/internal/verifgen"
	"github.com/tendermint/tendermint/libs/log"
	"github.com/tendermint/tendermint/mempool"
	"github.com/tendermint/tendermint/proxy"
	"github.com/tendermint/tendermint/types"
)

type c12App struct {
	abci.BaseApplication
	sc *vg.C12Script
}

func (a *c12App) CheckTx(req abci.RequestCheckTx) abci.ResponseCheckTx {
	v := a.sc.Answer(req.Tx, req.Type == abci.CheckTxType_Recheck)
	return abci.ResponseCheckTx{Code: v.Code, GasWanted: v.Gas, Priority: v.Prio, Sender: vg.C12SenderName(v.Sender)}
}

type c12Driver struct {
	mp   *TxMempool
	cfg  vg.C12Cfg
	sc   *vg.C12Script
	last int64
	stop func()
}

func c12ErrClass(err error) int {
	switch {
	case err == nil:
		return 0
	case errors.As(err, &mempool.ErrMempoolIsFull{}):
		return 1
	case errors.As(err, &mempool.ErrTxTooLarge{}):
		return 2
	case errors.As(err, &mempool.ErrPreCheck{}):
		return 3
	case errors.Is(err, mempool.ErrTxInCache):
		return 4
	}
	return 5
}

func c12New(cfg vg.C12Cfg, h0 int64, pre, post *int64, sc *vg.C12Script) vg.C12Driver {
	for i, tx := range sc.Alphabet {
		k := types.Tx(tx).Key()
		sc.RegisterKey(i, k[:])
	}
	cc := proxy.NewLocalClientCreator(&c12App{sc: sc})
	conn, _ := cc.NewABCIClient()
	if err := conn.Start(); err != nil {
		panic(err)
	}
	mc := &config.MempoolConfig{
		Version: config.MempoolV1, Recheck: cfg.Recheck, Broadcast: false, Size: cfg.Size,
		MaxTxsBytes: cfg.MaxTxsBytes, CacheSize: cfg.CacheSize, KeepInvalidTxsInCache: cfg.KeepInvalid,
		MaxTxBytes: cfg.MaxTxBytes, TTLNumBlocks: cfg.TTLBlocks, TTLDuration: time.Duration(cfg.TTLDurNs),
	}
	var opts []TxMempoolOption
	if pre != nil {
		opts = append(opts, WithPreCheck(mempool.PreCheckMaxBytes(*pre)))
	}
	if post != nil {
		opts = append(opts, WithPostCheck(mempool.PostCheckMaxGas(*post)))
	}
	mp := NewTxMempool(log.NewNopLogger(), mc, conn, h0, opts...)
	mp.EnableTxsAvailable()
	return &c12Driver{mp: mp, cfg: cfg, sc: sc, stop: func() { _ = conn.Stop() }}
}

func (d *c12Driver) Close() { d.stop() }

// tick waits until the wall clock has moved at least 3ns past the previous event, so arrival
// stamps are distinct and "older than 1ns" is true of every earlier arrival.
func (d *c12Driver) tick() {
	for time.Now().UnixNano() < d.last+3 {
	}
	d.last = time.Now().UnixNano()
}

func (d *c12Driver) CheckTx(tx []byte, peer uint16) int {
	d.tick()
	e := c12ErrClass(d.mp.CheckTx(tx, nil, mempool.TxInfo{SenderID: peer}))
	d.last = time.Now().UnixNano()
	return e
}

func (d *c12Driver) Update(h int64, txs [][]byte, codes []uint32, pre, post *int64) {
	d.tick()
	var ttxs types.Txs
	var rs []*abci.ResponseDeliverTx
	for i, t := range txs {
		ttxs = append(ttxs, types.Tx(t))
		rs = append(rs, &abci.ResponseDeliverTx{Code: codes[i]})
	}
	var pf mempool.PreCheckFunc
	var qf mempool.PostCheckFunc
	if pre != nil {
		pf = mempool.PreCheckMaxBytes(*pre)
	}
	if post != nil {
		qf = mempool.PostCheckMaxGas(*post)
	}
	var pending int
	base := runtime.NumGoroutine()
	func() {
		d.mp.Lock()
		defer d.mp.Unlock()
		_ = d.mp.FlushAppConn()
		if err := d.mp.Update(h, ttxs, rs, pf, qf); err != nil {
			panic(err)
		}
		pending = d.mp.Size()
	}()
	if !d.cfg.Recheck || pending == 0 {
		return
	}
	// Update started one recheck task per remaining transaction; when all have been handled
	// the mempool either is empty or has signalled "transactions available" again (Update
	// cleared that flag).
	deadline := time.Now().Add(20 * time.Second)
	for {
		d.mp.Lock()
		done := d.mp.Size() == 0 || d.mp.notifiedTxsAvailable
		d.mp.Unlock()
		if done && d.sc.LogLen() >= pending {
			// let the round's goroutines (one per transaction plus the one that signals) exit, so
			// that a straggler cannot signal "available" during a later round
			for i := 0; i < 40000 && runtime.NumGoroutine() > base; i++ {
				time.Sleep(50 * time.Microsecond)
			}
			return
		}
		if time.Now().After(deadline) {
			panic("recheck round did not finish")
		}
		time.Sleep(50 * time.Microsecond)
	}
}

func (d *c12Driver) Flush() { d.mp.Flush() }

func (d *c12Driver) Remove(tx []byte) int {
	return c12ErrClass(d.mp.RemoveTxByKey(types.Tx(tx).Key()))
}

func c12Raw(txs types.Txs) [][]byte {
	out := make([][]byte, len(txs))
	for i, t := range txs {
		out[i] = t
	}
	return out
}

func (d *c12Driver) ReapTxs(n int) [][]byte { return c12Raw(d.mp.ReapMaxTxs(n)) }
func (d *c12Driver) ReapBG(b, g int64) [][]byte {
	return c12Raw(d.mp.ReapMaxBytesMaxGas(b, g))
}

func (d *c12Driver) Observe() vg.C12RawObs {
	d.mp.Lock()
	defer d.mp.Unlock()
	o := vg.C12RawObs{Size: d.mp.Size(), Bytes: d.mp.SizeBytes(), StampsOK: true,
		NKeys: len(d.mp.txByKey), NSenders: len(d.mp.txBySender)}
	n := 0
	var prev time.Time
	for e := d.mp.txs.Front(); e != nil && n < 1000; e = e.Next() {
		w := e.Value.(*WrappedTx)
		o.Pool = append(o.Pool, vg.C12RawEnt{Tx: w.tx, Gas: w.gasWanted, Prio: w.priority, Sender: w.sender})
		if n > 0 && !prev.Before(w.timestamp) {
			o.StampsOK = false
		}
		prev = w.timestamp
		n++
	}
	if c, ok := d.mp.cache.(*mempool.LRUTxCache); ok {
		for e := c.GetList().Front(); e != nil; e = e.Next() {
			k := e.Value.(types.TxKey)
			o.Cache = append(o.Cache, append([]byte{}, k[:]...))
		}
	}
	return o
}

func TestVerifC12V1(t *testing.T) {
	root := vg.NewRand(vg.Seed() ^ 0xc121)
	cs := vg.NewCases("C12", "c12_v1", "TM.C12.Exec")
	vg.ShardSize = 12
	n := vg.Scale(300, 20000)
	events := map[string]int{}
	for k := 0; k < vg.C12NDirected+n; k++ {
		id := cs.NextID()
		if !cs.Want(id) {
			continue
		}
		directed := -1
		if k < vg.C12NDirected {
			directed = k
		}
		term, descr, kind, nontrivial, ok := vg.C12History(root.Fork(uint64(k)), true, directed, c12New, events)
		if !ok {
			cs.Count("skipped-equal-arrival-stamps", 1)
			continue
		}
		cs.Add(id, kind, nontrivial, term, descr)
	}
	// large pools over few priority levels (reap order inside a level, limits cutting a level)
	nBig := vg.Scale(24, 1500)
	for k := 0; k < nBig; k++ {
		id := cs.NextID()
		if !cs.Want(id) {
			continue
		}
		term, descr, kind, nontrivial, ok := vg.C12BigHistory(root.Fork(uint64(1000000+k)), true, c12New, events)
		if !ok {
			cs.Count("skipped-equal-arrival-stamps", 1)
			continue
		}
		cs.Add(id, kind, nontrivial, term, descr)
	}
	// F94: GasWanted near the top of int64 reaped under finite gas limits. Gated (see
	// vg.C12F94Enabled) until the repair is in the tree under test.
	if vg.C12F94Enabled() {
		nGas := vg.Scale(40, 2000)
		for k := 0; k < vg.C12F94NDirected+nGas; k++ {
			id := cs.NextID()
			if !cs.Want(id) {
				continue
			}
			directed := -1
			if k < vg.C12F94NDirected {
				directed = k
			}
			term, descr, kind, nontrivial, ok := vg.C12F94History(root.Fork(uint64(2000000+k)), true, directed, c12New, events)
			if !ok {
				cs.Count("skipped-equal-arrival-stamps", 1)
				continue
			}
			cs.Add(id, kind, nontrivial, term, descr)
		}
	}
	for k, n := range events {
		cs.Notes = append(cs.Notes, fmt.Sprintf("%s=%d", k, n))
	}
	sort.Strings(cs.Notes)
	if err := cs.Write(); err != nil {
		t.Fatal(err)
	}
}
