//go:build verif

package v0

// C13 correspondence harness for block sync v0 (injected with `go test -overlay`; nothing is
// written to the repository).
//
// A "world" is a deterministic chain of c13L blocks made with the repository's own
// state.MakeBlock / BlockExecutor.ApplyBlock over a no-op ABCI app, with n validators whose keys
// the harness owns (so it can make any signature, and knows for every signature which key
// signed which canonical vote: that table is the model's signature oracle).
//
// The syncing node is a real BlockchainReactor (real BlockPool with its requester goroutines,
// real poolRoutine, real BlockStore / state store over memdb, real BlockExecutor) attached to a
// real p2p.Switch that is not listening.  Peers are scripted: a mock peer is added to the
// switch's peer set, announces a range (StatusResponse through ReceiveEnvelope), records the
// BlockRequests the reactor sends it and answers them through ReceiveEnvelope (BlockResponse,
// i.e. through ValidateMsg and BlockFromProto) in an order chosen by the PRNG.  A stub
// "CONSENSUS" reactor records SwitchToConsensus; the hand-over is then performed with the real
// consensus.NewState (which calls reconstructLastCommit) on the node's state and block store,
// panics recovered.
//
//   TestVerifC13Step      one pair (first, second) per case: peer 1 serves `first` for the node's
//                         next height, peer 2 (or again peer 1) serves `second` whose LastCommit is
//                         generated slot by slot (CStep).  Also calls VerifyCommitLight,
//                         VerifyCommit and CommitToVoteSet directly on that commit.
//   TestVerifC13Scenario  whole syncs against several peers (CScen, monitors only).
//
// Numbering used in the terms and in the replay descriptions:
//   key k        validator at position k of the validator set; its address is "k+1"
//   address a    0 = empty, 1..n = address of key a-1, >= 1000 = 20 bytes owned by nobody
//   chain        1 = the world's chain id, 2 = "c13-other"
//   block id b   0 = BlockID{}, 1..L = canonical block of that height, 100+h = a valid block of
//                height h that nobody committed (other txs), 300+h = canonical block h with a
//                wrong AppHash (fails ValidateBlock), 200+x = a block id nobody has
//   timestamp t  c13Base + t seconds
//   peer p       1, 2, ... in the order they connect

import (
	"fmt"
	"sort"
	"strings"
	"sync"
	"testing"
	"time"

	dbm "github.com/tendermint/tm-db"

	abci "github.com/tendermint/tendermint/abci/types"
	cfg "github.com/tendermint/tendermint/config"
	"github.com/tendermint/tendermint/consensus"
	"github.com/tendermint/tendermint/crypto/ed25519"
	vg "github.com/tendermint/tendermint/internal/verifgen"
	"github.com/tendermint/tendermint/libs/log"
	mpmock "github.com/tendermint/tendermint/mempool/mock"
	"github.com/tendermint/tendermint/p2p"
	"github.com/tendermint/tendermint/p2p/conn"
	"github.com/tendermint/tendermint/p2p/mock"
	bcproto "github.com/tendermint/tendermint/proto/tendermint/blockchain"
	tmproto "github.com/tendermint/tendermint/proto/tendermint/types"
	"github.com/tendermint/tendermint/proxy"
	sm "github.com/tendermint/tendermint/state"
	"github.com/tendermint/tendermint/store"
	"github.com/tendermint/tendermint/types"
)

const (
	c13Chain = "c13-chain"
	c13L     = int64(6)
)

var c13Base = time.Date(2021, 5, 1, 12, 0, 0, 0, time.UTC)
var c13Chains = []string{"", c13Chain, "c13-other"}

func c13Time(t int64) time.Time { return c13Base.Add(time.Duration(t) * time.Second).UTC() }

// ------------------------------------------------------------------ world

type c13World struct {
	n       int
	privs   []ed25519.PrivKey
	addrs   []types.Address
	powers  []int64
	total   int64
	genDoc  *types.GenesisDoc
	blocks  []*types.Block  // 1..L
	ids     []types.BlockID // 1..L
	commits []*types.Commit // commits[h]: every validator signs block h (1..L)
	states  []sm.State      // states[h]: after block h (0 = genesis)
	alt     []*types.Block  // alt[h]: valid block of height h with other txs (1..L)
	bad     []*types.Block  // bad[h]: canonical block h with a wrong AppHash
	bids    map[int64]types.BlockID
}

type c13Exec struct {
	app        proxy.AppConns
	stateStore sm.Store
	blockStore *store.BlockStore
	blockExec  *sm.BlockExecutor
}

func c13NewExec(state sm.State) *c13Exec {
	app := proxy.NewAppConns(proxy.NewLocalClientCreator(abci.NewBaseApplication()))
	app.SetLogger(log.NewNopLogger())
	if err := app.Start(); err != nil {
		panic(err)
	}
	ss := sm.NewStore(dbm.NewMemDB(), sm.StoreOptions{})
	if err := ss.Save(state); err != nil {
		panic(err)
	}
	bs := store.NewBlockStore(dbm.NewMemDB())
	be := sm.NewBlockExecutor(ss, log.NewNopLogger(), app.Consensus(), mpmock.Mempool{}, sm.EmptyEvidencePool{})
	return &c13Exec{app: app, stateStore: ss, blockStore: bs, blockExec: be}
}

func c13Txs(h int64, salt byte) []types.Tx {
	return []types.Tx{[]byte{byte(h), 1, salt}, []byte{byte(h), 2, salt}}
}

func c13BuildWorld(powers []int64) *c13World {
	n := len(powers)
	type kp struct {
		priv ed25519.PrivKey
		pow  int64
	}
	var gvals []types.GenesisValidator
	byAddr := map[string]kp{}
	for i := 0; i < n; i++ {
		p := ed25519.GenPrivKeyFromSecret([]byte(fmt.Sprintf("verif-c13-%d-%d", n, i)))
		gvals = append(gvals, types.GenesisValidator{PubKey: p.PubKey(), Power: powers[i]})
		byAddr[string(p.PubKey().Address())] = kp{p, powers[i]}
	}
	w := &c13World{n: n, bids: map[int64]types.BlockID{0: {}}}
	w.genDoc = &types.GenesisDoc{GenesisTime: c13Base, ChainID: c13Chain, Validators: gvals}
	state, err := sm.MakeGenesisState(w.genDoc)
	if err != nil {
		panic(err)
	}
	for _, v := range state.Validators.Validators { // key k = position k
		e := byAddr[string(v.Address)]
		w.privs = append(w.privs, e.priv)
		w.addrs = append(w.addrs, v.Address)
		w.powers = append(w.powers, v.VotingPower)
		w.total += v.VotingPower
	}
	ex := c13NewExec(state)
	defer ex.app.Stop() //nolint:errcheck
	w.blocks = make([]*types.Block, c13L+1)
	w.ids = make([]types.BlockID, c13L+1)
	w.commits = make([]*types.Commit, c13L+1)
	w.alt = make([]*types.Block, c13L+1)
	w.bad = make([]*types.Block, c13L+1)
	w.states = []sm.State{state.Copy()}
	last := types.NewCommit(0, 0, types.BlockID{}, nil)
	for h := int64(1); h <= c13L; h++ {
		prop := state.Validators.GetProposer().Address
		blk, parts := state.MakeBlock(h, c13Txs(h, 0), last, nil, prop)
		w.alt[h], _ = state.MakeBlock(h, c13Txs(h, 7), last, nil, prop)
		w.bad[h], _ = state.MakeBlock(h, c13Txs(h, 0), last, nil, prop)
		w.bad[h].AppHash = []byte("verif-c13-wrong-app-hash-32bytes")
		bid := types.BlockID{Hash: blk.Hash(), PartSetHeader: parts.Header()}
		w.blocks[h], w.ids[h] = blk, bid
		w.bids[h] = bid
		w.bids[100+h] = c13IDOf(w.alt[h])
		w.bids[300+h] = c13IDOf(w.bad[h])
		state, _, err = ex.blockExec.ApplyBlock(state, bid, blk)
		if err != nil {
			panic(err)
		}
		w.states = append(w.states, state.Copy())
		var sigs []types.CommitSig
		for k := 0; k < n; k++ {
			ts := h*10 + int64(k)
			sigs = append(sigs, types.CommitSig{BlockIDFlag: types.BlockIDFlagCommit, ValidatorAddress: w.addrs[k],
				Timestamp: c13Time(ts), Signature: w.sign(int64(k), c13Msg{int64(tmproto.PrecommitType), 1, h, 0, h, ts})})
		}
		last = types.NewCommit(h, 0, bid, sigs)
		w.commits[h] = last
	}
	for x := int64(1); x <= 3; x++ {
		hh := make([]byte, 32)
		for i := range hh {
			hh[i] = byte(x*37) + byte(i)
		}
		w.bids[200+x] = types.BlockID{Hash: hh, PartSetHeader: types.PartSetHeader{Total: 1, Hash: hh}}
	}
	return w
}

func c13IDOf(b *types.Block) types.BlockID {
	ps := b.MakePartSet(types.BlockPartSizeBytes)
	return types.BlockID{Hash: b.Hash(), PartSetHeader: ps.Header()}
}

// the canonical vote a signature is over
type c13Msg struct{ ty, chain, h, r, bid, ts int64 }

type c13SigKey struct {
	w *c13World
	k int64
	m c13Msg
}

var c13SigCache = map[c13SigKey][]byte{}

func (w *c13World) sign(k int64, m c13Msg) []byte {
	ck := c13SigKey{w, k, m}
	if s, ok := c13SigCache[ck]; ok {
		return s
	}
	bid := w.bids[m.bid]
	v := &tmproto.Vote{Type: tmproto.SignedMsgType(m.ty), Height: m.h, Round: int32(m.r),
		BlockID: bid.ToProto(), Timestamp: c13Time(m.ts)}
	s, err := w.privs[k].Sign(types.VoteSignBytes(c13Chains[m.chain], v))
	if err != nil {
		panic(err)
	}
	c13SigCache[ck] = s
	return s
}

func (w *c13World) addr(a int64) types.Address {
	switch {
	case a == 0:
		return nil
	case a >= 1 && int(a) <= w.n:
		return w.addrs[a-1]
	default:
		b := make([]byte, 20)
		for i := range b {
			b[i] = byte(a>>uint(8*(i%4))) ^ byte(0x5a+i)
		}
		return b
	}
}

func (w *c13World) valsTerm() string {
	var xs []string
	for k := 0; k < w.n; k++ {
		xs = append(xs, vg.Tup(vg.Z(int64(k+1)), vg.Z(int64(k)), vg.Z(w.powers[k])))
	}
	return vg.L(xs)
}

// ------------------------------------------------------------------ commits, slot by slot

// kind 'B' key k over the base for the block, 'N' over the base for nil, 'O' key k over the
// explicit vote m, 'G' random bytes
type c13Slot struct {
	flag, addr, ts int64
	kind           byte
	k              int64
	sts            int64 // timestamp signed (B, N)
	m              c13Msg
	raw            []byte
}

type c13Commit struct {
	ch, cr, cb int64 // Commit.Height, Round, BlockID
	chain      int64 // base of B / N slots: chain, ch', cr', cb'
	bh, br, bb int64
	slots      []c13Slot
}

func (w *c13World) slotSig(c *c13Commit, s c13Slot) []byte {
	switch s.kind {
	case 'B':
		return w.sign(s.k, c13Msg{int64(tmproto.PrecommitType), c.chain, c.bh, c.br, c.bb, s.sts})
	case 'N':
		return w.sign(s.k, c13Msg{int64(tmproto.PrecommitType), c.chain, c.bh, c.br, 0, s.sts})
	case 'O':
		return w.sign(s.k, s.m)
	}
	return s.raw
}

func (w *c13World) realCommit(c *c13Commit) *types.Commit {
	var sigs []types.CommitSig
	for _, s := range c.slots {
		if s.flag == int64(types.BlockIDFlagAbsent) {
			sigs = append(sigs, types.NewCommitSigAbsent())
			continue
		}
		sigs = append(sigs, types.CommitSig{BlockIDFlag: types.BlockIDFlag(s.flag), ValidatorAddress: w.addr(s.addr),
			Timestamp: c13Time(s.ts), Signature: w.slotSig(c, s)})
	}
	return types.NewCommit(c.ch, int32(c.cr), w.bids[c.cb], sigs)
}

func c13SlotTerm(s c13Slot) string {
	var d string
	switch s.kind {
	case 'B':
		d = fmt.Sprintf("(SB %d %d)", s.k, s.sts)
	case 'N':
		d = fmt.Sprintf("(SN %d %d)", s.k, s.sts)
	case 'O':
		d = fmt.Sprintf("(SO %d %d %d %s %d %d %d)", s.k, s.m.ty, s.m.chain, vg.Z(s.m.h), s.m.r, s.m.bid, s.m.ts)
	default:
		d = "SG"
	}
	ts := s.ts
	if s.flag == int64(types.BlockIDFlagAbsent) {
		ts = 0
	}
	return vg.Tup(vg.Z(s.flag), vg.Z(s.addr), vg.Z(ts), d)
}

func c13SlotDescr(s c13Slot) string {
	fl := map[int64]string{1: "absent", 2: "commit", 3: "nil"}[s.flag]
	switch s.kind {
	case 'B':
		return fmt.Sprintf("%s addr%d ts%d sig=key%d:block@%d", fl, s.addr, s.ts, s.k, s.sts)
	case 'N':
		return fmt.Sprintf("%s addr%d ts%d sig=key%d:nil@%d", fl, s.addr, s.ts, s.k, s.sts)
	case 'O':
		return fmt.Sprintf("%s addr%d ts%d sig=key%d:{chain%d h%d r%d bid%d ts%d}", fl, s.addr, s.ts, s.k, s.m.chain, s.m.h, s.m.r, s.m.bid, s.m.ts)
	case 'G':
		return fmt.Sprintf("%s addr%d ts%d sig=garbage", fl, s.addr, s.ts)
	}
	return fl
}

func (c *c13Commit) terms() (cm, base, sigs string) {
	var xs []string
	for _, s := range c.slots {
		xs = append(xs, c13SlotTerm(s))
	}
	return vg.Tup(vg.Z(c.ch), vg.Z(c.cr), vg.Z(c.cb)), vg.Tup(vg.Z(c.chain), vg.Z(c.bh), vg.Z(c.br), vg.Z(c.bb)), vg.L(xs)
}

func (c *c13Commit) descr() string {
	var xs []string
	for i, s := range c.slots {
		xs = append(xs, fmt.Sprintf("#%d %s", i, c13SlotDescr(s)))
	}
	return fmt.Sprintf("Commit{Height:%d Round:%d BlockID:%d; B/N signatures over (chain%d h%d r%d bid%d); %s}",
		c.ch, c.cr, c.cb, c.chain, c.bh, c.br, c.bb, strings.Join(xs, "; "))
}

// genuine: every validator signs block id bid at height h, round 0
func (w *c13World) genuine(h, bid int64) *c13Commit {
	c := &c13Commit{ch: h, cr: 0, cb: bid, chain: 1, bh: h, br: 0, bb: bid}
	for k := 0; k < w.n; k++ {
		ts := h*10 + int64(k)
		c.slots = append(c.slots, c13Slot{flag: 2, addr: int64(k + 1), ts: ts, kind: 'B', k: int64(k), sts: ts})
	}
	return c
}

// index of the slot at which the early-exit variant stops on a genuine commit
func (w *c13World) lightStop() int {
	t := int64(0)
	for k := 0; k < w.n; k++ {
		t += w.powers[k]
		if t > w.total*2/3 {
			return k
		}
	}
	return w.n - 1
}

var c13CommitKinds = []string{
	"genuine", "some-absent", "some-nil", "below-threshold", "garbage-early", "garbage-late-commit",
	"garbage-late-nil", "other-key", "commit-other-block", "sigs-other-block", "sigs-other-round",
	"sigs-other-chain", "commit-other-height", "short", "padded", "foreign-addr", "neighbour-addr",
	"swap", "late-nil-flag-block-sig", "ts-mismatch", "late-absent-to-garbage-nil", "empty-addr-late",
}

// mutate builds the commit of the given kind for block id fid at height fh.
func (w *c13World) mutate(kind string, fh, fid int64, r *vg.Rand) *c13Commit {
	c := w.genuine(fh, fid)
	stop := w.lightStop()
	late := w.n - 1 // a slot the early-exit variant never reads (needs stop < n-1)
	absent := func(i int) { c.slots[i] = c13Slot{flag: 1} }
	nilv := func(i int) {
		s := c.slots[i]
		c.slots[i] = c13Slot{flag: 3, addr: s.addr, ts: s.ts, kind: 'N', k: s.k, sts: s.ts}
	}
	switch kind {
	case "genuine":
	case "some-absent":
		for i := w.n - 1; i > stop; i-- {
			if r.Bool() || i == w.n-1 {
				absent(i)
			}
		}
	case "some-nil":
		for i := w.n - 1; i > stop; i-- {
			if r.Bool() || i == w.n-1 {
				nilv(i)
			}
		}
	case "below-threshold":
		for i := stop; i < w.n; i++ {
			if r.Bool() {
				absent(i)
			} else {
				nilv(i)
			}
		}
	case "garbage-early":
		i := r.Intn(stop + 1)
		c.slots[i].kind, c.slots[i].raw = 'G', r.Bytes(64)
	case "garbage-late-commit":
		c.slots[late].kind, c.slots[late].raw = 'G', r.Bytes(64)
	case "garbage-late-nil":
		nilv(late)
		c.slots[late].kind, c.slots[late].raw = 'G', r.Bytes(64)
	case "other-key":
		i := r.Intn(w.n)
		c.slots[i].k = int64((i + 1) % w.n)
	case "commit-other-block":
		ob := []int64{100 + fh, 201, 300 + fh}[r.Intn(3)]
		c.cb, c.bb = ob, ob
	case "sigs-other-block":
		c.bb = []int64{100 + fh, 201, 0}[r.Intn(3)]
	case "sigs-other-round":
		c.br = 1
	case "sigs-other-chain":
		c.chain = 2
	case "commit-other-height":
		c.ch, c.bh = fh+1, fh+1
	case "short":
		c.slots = c.slots[:w.n-1]
	case "padded":
		c.slots = append(c.slots, c13Slot{flag: 2, addr: 1000, ts: 5, kind: 'G', raw: r.Bytes(64)})
	case "foreign-addr":
		i := r.Intn(w.n)
		c.slots[i].addr = 1000 + int64(r.Intn(5))
	case "neighbour-addr":
		i := r.Intn(w.n)
		c.slots[i].addr = int64((i+1)%w.n) + 1
	case "swap":
		i := r.Intn(w.n - 1)
		c.slots[i], c.slots[i+1] = c.slots[i+1], c.slots[i]
	case "late-nil-flag-block-sig":
		c.slots[late].flag = 3
	case "ts-mismatch":
		i := r.Intn(w.n)
		c.slots[i].ts += 1000
	case "late-absent-to-garbage-nil":
		absent(late)
		if late-1 > stop {
			absent(late - 1)
		}
		c.slots[late] = c13Slot{flag: 3, addr: int64(late + 1), ts: 7, kind: 'G', raw: r.Bytes(64)}
	case "empty-addr-late":
		// cannot travel (CommitSig.ValidateBasic wants 20 bytes): use a foreign one instead
		c.slots[late].addr = 1001
	}
	return c
}

// ------------------------------------------------------------------ the syncing node and its peers

type c13Req struct {
	p      *c13Peer
	height int64
}

type c13Peer struct {
	*mock.Peer
	num   int64
	reqCh chan c13Req
	mtx   sync.Mutex
	asked map[int64]int
}

func (p *c13Peer) handle(e p2p.Envelope) bool {
	if m, ok := e.Message.(*bcproto.BlockRequest); ok {
		p.mtx.Lock()
		p.asked[m.Height]++
		p.mtx.Unlock()
		select {
		case p.reqCh <- c13Req{p, m.Height}:
		default:
		}
	}
	return true
}
func (p *c13Peer) SendEnvelope(e p2p.Envelope) bool    { return p.handle(e) }
func (p *c13Peer) TrySendEnvelope(e p2p.Envelope) bool { return p.handle(e) }

type c13ConsR struct {
	p2p.BaseReactor
	ch chan sm.State
}

func (c *c13ConsR) SwitchToConsensus(state sm.State, skipWAL bool) {
	select {
	case c.ch <- state:
	default:
	}
}

type c13Node struct {
	w     *c13World
	ex    *c13Exec
	bcR   *BlockchainReactor
	sw    *p2p.Switch
	cons  *c13ConsR
	reqCh chan c13Req
	peers []*c13Peer
}

func c13NewNode(w *c13World, start int64) *c13Node {
	ex := c13NewExec(w.states[0].Copy())
	state := w.states[0].Copy()
	for h := int64(1); h <= start; h++ {
		blk := w.blocks[h]
		parts := blk.MakePartSet(types.BlockPartSizeBytes)
		var err error
		state, _, err = ex.blockExec.ApplyBlock(state, w.ids[h], blk)
		if err != nil {
			panic(err)
		}
		ex.blockStore.SaveBlock(blk, parts, w.commits[h])
	}
	bcR := NewBlockchainReactor(state.Copy(), ex.blockExec, ex.blockStore, true)
	bcR.SetLogger(log.NewNopLogger())
	nk := p2p.NodeKey{PrivKey: ed25519.GenPrivKey()}
	tr := p2p.NewMultiplexTransport(p2p.DefaultNodeInfo{DefaultNodeID: nk.ID()}, nk, conn.DefaultMConnConfig())
	sw := p2p.NewSwitch(cfg.DefaultP2PConfig(), tr)
	sw.SetLogger(log.NewNopLogger())
	sw.AddReactor("BLOCKCHAIN", bcR)
	cons := &c13ConsR{ch: make(chan sm.State, 1)}
	cons.BaseReactor = *p2p.NewBaseReactor("CONSENSUS", cons)
	sw.AddReactor("CONSENSUS", cons)
	n := &c13Node{w: w, ex: ex, bcR: bcR, sw: sw, cons: cons, reqCh: make(chan c13Req, 4096)}
	if err := bcR.Start(); err != nil {
		panic(err)
	}
	return n
}

func (n *c13Node) close() {
	n.bcR.Stop() //nolint:errcheck
	for _, p := range n.peers {
		p.Stop() //nolint:errcheck
	}
	n.ex.app.Stop() //nolint:errcheck
}

// connect adds peer number len+1 and lets it announce [base, height]
func (n *c13Node) connect(base, height int64) *c13Peer {
	num := int64(len(n.peers) + 1)
	p := &c13Peer{Peer: mock.NewPeer([]byte{10, 13, 0, byte(num)}), num: num, reqCh: n.reqCh, asked: map[int64]int{}}
	n.peers = append(n.peers, p)
	_ = n.sw.Peers().(*p2p.PeerSet).Add(p)
	n.bcR.InitPeer(p)
	n.bcR.AddPeer(p)
	n.bcR.ReceiveEnvelope(p2p.Envelope{ChannelID: BlockchainChannel, Src: p,
		Message: &bcproto.StatusResponse{Base: base, Height: height}})
	return p
}

// deliver hands a BlockResponse from p to the reactor, as the connection would
func (n *c13Node) deliver(p *c13Peer, b *types.Block) {
	if !p.IsRunning() {
		return // connection closed
	}
	bp, err := b.ToProto()
	if err != nil {
		panic(err)
	}
	n.bcR.ReceiveEnvelope(p2p.Envelope{ChannelID: BlockchainChannel, Src: p, Message: &bcproto.BlockResponse{Block: bp}})
}

func (n *c13Node) peerNum(id p2p.ID) int64 {
	if id == "" {
		return 0
	}
	for _, p := range n.peers {
		if p.ID() == id {
			return p.num
		}
	}
	return 99
}

func (n *c13Node) reqView(h int64) (int64, bool) {
	n.bcR.pool.mtx.Lock()
	defer n.bcR.pool.mtx.Unlock()
	r := n.bcR.pool.requesters[h]
	if r == nil {
		return -1, false
	}
	return n.peerNum(r.getPeerID()), r.getBlock() != nil
}

func (n *c13Node) stopped() []int64 {
	var xs []int64
	for _, p := range n.peers {
		if !p.IsRunning() {
			xs = append(xs, p.num)
		}
	}
	sort.Slice(xs, func(i, j int) bool { return xs[i] < xs[j] })
	return xs
}

// handover: consensus.NewState on the state the node saved and its block store
func (n *c13Node) handover() (res uint64) {
	state, err := n.ex.stateStore.Load()
	if err != nil {
		return 1
	}
	defer func() {
		if r := recover(); r != nil {
			res = 1
		}
	}()
	consensus.NewState(cfg.TestConsensusConfig(), state, n.ex.blockExec, n.ex.blockStore, mpmock.Mempool{}, sm.EmptyEvidencePool{})
	return 0
}

// second builds a block of height h+1 on top of the world's state after h whose LastCommit is c
func (w *c13World) second(h int64, c *types.Commit) *types.Block {
	st := w.states[h]
	b, _ := st.MakeBlock(h+1, c13Txs(h+1, 0), c, nil, st.Validators.GetProposer().Address)
	return b
}

// ------------------------------------------------------------------ direct calls

func c13Class(f func() error) (cls uint64, got, needed int64) {
	defer func() {
		if r := recover(); r != nil {
			cls, got, needed = 5, 0, 0
		}
	}()
	err := f()
	switch e := err.(type) {
	case nil:
		return 0, 0, 0
	case types.ErrInvalidCommitSignatures:
		return 1, 0, 0
	case types.ErrInvalidCommitHeight:
		return 2, 0, 0
	case types.ErrNotEnoughVotingPowerSigned:
		return 3, e.Got, e.Needed
	}
	return 4, 0, 0
}

func c13Rest(cls uint64, got, needed int64) string {
	return vg.Tup(vg.N(cls), vg.Z(got), vg.Z(needed))
}

func c13CTV(chain string, c *types.Commit, vals *types.ValidatorSet) (res uint64) {
	defer func() {
		if r := recover(); r != nil {
			res = 2
		}
	}()
	vs := types.CommitToVoteSet(chain, c, vals)
	if vs.HasTwoThirdsMajority() {
		return 0
	}
	return 1
}

// ------------------------------------------------------------------ TestVerifC13Step

var c13Worlds []*c13World

func c13GetWorlds() []*c13World {
	if c13Worlds == nil {
		c13Worlds = []*c13World{
			c13BuildWorld([]int64{10, 10, 10, 10}),
			c13BuildWorld([]int64{40, 25, 20, 10, 5}),
			c13BuildWorld([]int64{7, 6, 5, 4, 3, 2, 1}),
		}
	}
	return c13Worlds
}

type c13StepCase struct {
	w          *c13World
	wi         int
	fh         int64
	firstKind  string // canon | alt | bad
	commitKind string
	same       bool // one peer supplies both blocks
	c          *c13Commit
}

func c13GenStep(k int, r *vg.Rand) c13StepCase {
	ws := c13GetWorlds()
	sc := c13StepCase{wi: k % len(ws)}
	sc.w = ws[sc.wi]
	sc.fh = 1 + int64(r.Intn(3))
	sc.same = r.Intn(5) == 0
	// directed regression cases first (F7 classes and the address class), then the cycle
	directed := []string{"garbage-late-nil", "garbage-late-commit", "late-nil-flag-block-sig", "late-absent-to-garbage-nil", "foreign-addr", "genuine"}
	sc.firstKind = "canon"
	switch {
	case k < len(directed)*len(ws):
		sc.commitKind = directed[k/len(ws)]
	default:
		sc.commitKind = c13CommitKinds[(k/len(ws))%len(c13CommitKinds)]
		switch r.Intn(8) {
		case 0:
			sc.firstKind = "alt"
		case 1:
			sc.firstKind = "bad"
		}
	}
	fid := sc.fh
	switch sc.firstKind {
	case "alt":
		// nobody committed the alt block: the commit is the genuine one of the canonical block,
		// or claims the alt id with the canonical block's signatures, or has one signer for alt
		fid = 100 + sc.fh
		switch r.Intn(3) {
		case 0:
			if sc.commitKind == "commit-other-block" { // would be a commit of everybody for the alt block
				sc.commitKind = "genuine"
			}
			sc.c = sc.w.mutate(sc.commitKind, sc.fh, sc.fh, r)
			sc.commitKind += "/for-canonical"
		case 1:
			sc.c = sc.w.genuine(sc.fh, sc.fh)
			sc.c.cb = fid
			sc.commitKind = "claims-alt-with-canonical-sigs"
		default:
			sc.c = sc.w.genuine(sc.fh, sc.fh)
			sc.c.cb = fid
			last := sc.w.n - 1
			s := sc.c.slots[last]
			sc.c.slots[last] = c13Slot{flag: 2, addr: s.addr, ts: s.ts, kind: 'O', k: s.k,
				m: c13Msg{int64(tmproto.PrecommitType), 1, sc.fh, 0, fid, s.ts}}
			sc.commitKind = "claims-alt-one-signer"
		}
	case "bad":
		// every validator signed a block that fails validation
		fid = 300 + sc.fh
		sc.c = sc.w.genuine(sc.fh, fid)
		sc.commitKind = "genuine-for-invalid-block"
	default:
		sc.c = sc.w.mutate(sc.commitKind, sc.fh, fid, r)
	}
	return sc
}

func (sc c13StepCase) first() (*types.Block, int64) {
	switch sc.firstKind {
	case "alt":
		return sc.w.alt[sc.fh], 100 + sc.fh
	case "bad":
		return sc.w.bad[sc.fh], 300 + sc.fh
	}
	return sc.w.blocks[sc.fh], sc.fh
}

func TestVerifC13Step(t *testing.T) {
	cs := vg.NewCases("C13", "c13_step", "TM.C13.Exec")
	root := vg.NewRand(vg.Seed())
	n := vg.Scale(150, 3000)
	for k := 0; k < n; k++ {
		id := cs.NextID()
		if !cs.Want(id) {
			continue
		}
		r := root.Fork(uint64(k))
		sc := c13GenStep(k, r)
		w := sc.w
		first, fid := sc.first()
		commit := w.realCommit(sc.c)
		second := w.second(sc.fh, commit)
		if _, err := types.BlockFromProto(c13Proto(second)); err != nil {
			// cannot travel: not a case for the reactor (counted)
			cs.Count("untransportable:"+sc.commitKind, 1)
			continue
		}
		vals := w.states[sc.fh-1].Validators
		firstBID := w.bids[fid]
		lc, lg, ln := c13Class(func() error { return vals.Copy().VerifyCommitLight(c13Chain, firstBID, sc.fh, commit) })
		fc, fg, fn := c13Class(func() error { return vals.Copy().VerifyCommit(c13Chain, firstBID, sc.fh, commit) })
		ctv := c13CTV(c13Chain, commit, vals.Copy())

		node := c13NewNode(w, sc.fh-1)
		vok := node.ex.blockExec.ValidateBlock(w.states[sc.fh-1], first) == nil
		var p1, p2 *c13Peer
		if sc.same {
			p1 = node.connect(sc.fh, sc.fh+1)
			p2 = p1
		} else {
			p1 = node.connect(sc.fh, sc.fh)
			p2 = node.connect(sc.fh+1, sc.fh+1)
		}
		node.connect(sc.fh+9, sc.fh+9) // silent, keeps the node from declaring itself caught up
		deadline := time.Now().Add(4 * time.Second)
		saved := false
		for time.Now().Before(deadline) {
			select {
			case rq := <-node.reqCh:
				switch {
				case rq.p == p1 && rq.height == sc.fh:
					node.deliver(p1, first)
				case rq.p == p2 && rq.height == sc.fh+1:
					node.deliver(p2, second)
				}
				continue
			case <-time.After(3 * time.Millisecond):
			}
			if node.ex.blockStore.Height() >= sc.fh {
				saved = true
				break
			}
			if !p1.IsRunning() && !p2.IsRunning() {
				break
			}
		}
		time.Sleep(40 * time.Millisecond) // let requesters take their redo
		storedOK := false
		if saved {
			// wait for ApplyBlock to have saved the state
			for i := 0; i < 200; i++ {
				if st, err := node.ex.stateStore.Load(); err == nil && st.LastBlockHeight >= sc.fh {
					break
				}
				time.Sleep(5 * time.Millisecond)
			}
			if m := node.ex.blockStore.LoadBlockMeta(sc.fh); m != nil && m.BlockID.Equals(firstBID) {
				storedOK = true
			}
		}
		ph, _, _ := node.bcR.pool.GetStatus()
		stopped := node.stopped()
		r1p, r1b := node.reqView(sc.fh)
		r2p, r2b := node.reqView(sc.fh + 1)
		ho := uint64(2)
		if saved {
			node.bcR.Stop() //nolint:errcheck
			ho = node.handover()
		}
		node.close()

		cm, base, sigs := sc.c.terms()
		term := vg.App("CStep", w.valsTerm(), vg.Z(1), vg.Z(sc.fh-1),
			vg.Tup(vg.Z(sc.fh), vg.Z(fid), vg.B(vok)), vg.Z(sc.fh), cm, base, sigs,
			vg.Z(p1.num), vg.Z(p2.num),
			vg.Tup(c13Rest(lc, lg, ln), c13Rest(fc, fg, fn), vg.N(ctv)),
			vg.Tup(vg.B(saved && storedOK), vg.Z(ph), vg.ZL(stopped), vg.Tup(vg.Z(r1p), vg.B(r1b)),
				vg.Tup(vg.Z(r2p), vg.B(r2b)), vg.N(ho)))
		descr := fmt.Sprintf("world %d (powers %v, chain %q), node has applied blocks 1..%d. Peer %d answers the request for height %d with the %s block (id %d, ValidateBlock ok=%v); peer %d answers the request for height %d with a block whose LastCommit is [%s] %s. "+
			"Direct calls on that commit: VerifyCommitLight class %d, VerifyCommit class %d, CommitToVoteSet %d (0 ok,1 no +2/3,2 panic). Observed: block stored=%v, pool.height=%d, peers stopped=%v, requester[%d]=(peer %d, block %v), requester[%d]=(peer %d, block %v), consensus.NewState on the result=%d (0 ok,1 panic,2 not run)",
			sc.wi, w.powers, c13Chain, sc.fh-1, p1.num, sc.fh, sc.firstKind, fid, vok, p2.num, sc.fh+1, sc.commitKind, sc.c.descr(),
			lc, fc, ctv, saved && storedOK, ph, stopped, sc.fh, r1p, r1b, sc.fh+1, r2p, r2b, ho)
		cs.Add(id, "step:"+sc.firstKind+":"+strings.SplitN(sc.commitKind, "/", 2)[0], sc.commitKind != "genuine", term, descr)
	}
	if err := cs.Write(); err != nil {
		t.Fatal(err)
	}
}

func c13Proto(b *types.Block) *tmproto.Block {
	bp, err := b.ToProto()
	if err != nil {
		panic(err)
	}
	return bp
}

// ------------------------------------------------------------------ TestVerifC13Scenario

// scripts: 0 honest; 1 serves the never-committed alt block at even heights; 2 serves blocks
// whose LastCommit has a garbage signature in slot 0; 3 serves the tip block with a LastCommit
// whose last slot is a nil vote with a garbage signature (the rest genuine: F7); 4 answers every
// request with a block 150 heights ahead; 5 sends every block twice; 6 serves the tip block with a
// LastCommit in which one slot carries a foreign address (all signatures genuine: known class 31)
type c13PeerSpec struct {
	script       uint64
	base, height int64
}

type c13Scen struct {
	name  string
	wi    int
	start int64
	tip   int64 // height announced by the honest peers
	peers []c13PeerSpec
}

var c13ScriptNames = []string{"honest", "alt-block", "forged-commit", "padded-tip-commit", "far-height", "twice", "foreign-address-tip-commit"}

func c13Scenarios(r *vg.Rand, n int) []c13Scen {
	L := c13L
	ss := []c13Scen{
		{"honest-only", 0, 0, L, []c13PeerSpec{{0, 1, L}}},
		{"padded-tip-commit", 0, 0, L - 1, []c13PeerSpec{{0, 1, L - 1}, {0, 1, L - 1}, {3, L, L}}},
		{"foreign-address-tip-commit", 1, 0, L - 1, []c13PeerSpec{{0, 1, L - 1}, {0, 1, L - 1}, {6, L, L}}},
		{"alt-block", 1, 0, L, []c13PeerSpec{{1, 1, L}, {0, 1, L}, {0, 1, L}}},
		{"forged-commit", 0, 0, L, []c13PeerSpec{{2, 1, L}, {0, 1, L}, {0, 1, L}, {0, 1, L}}},
		{"far-height", 2, 0, L, []c13PeerSpec{{4, 1, L}, {0, 1, L}}},
		{"twice", 0, 1, L, []c13PeerSpec{{5, 1, L}, {0, 1, L}, {0, 1, L}}},
		{"mix-from-2", 1, 2, L, []c13PeerSpec{{1, 1, 4}, {2, 3, L}, {0, 1, L}, {0, 1, L}, {0, 1, L}}},
		{"forged-commit-second-only", 2, 0, L, []c13PeerSpec{{2, 3, 3}, {0, 1, 2}, {0, 1, 2}, {0, 1, L}}},
	}
	for len(ss) < n {
		k := len(ss)
		sc := c13Scen{name: fmt.Sprintf("random-%d", k), wi: r.Intn(3), start: int64(r.Intn(3)), tip: L}
		np := 3 + r.Intn(3)
		for i := 0; i < np; i++ {
			s := uint64(0)
			if i < np-2 && r.Intn(3) != 0 { // liars connect first, at least two honest peers
				s = []uint64{1, 2, 4, 5}[r.Intn(4)]
			}
			sc.peers = append(sc.peers, c13PeerSpec{s, 1, L})
		}
		ss = append(ss, sc)
	}
	return ss[:n]
}

func TestVerifC13Scenario(t *testing.T) {
	cs := vg.NewCases("C13", "c13_scen", "TM.C13.Exec")
	root := vg.NewRand(vg.Seed())
	scens := c13Scenarios(root.Fork(999), vg.Scale(9, 120))
	for k, sc := range scens {
		id := cs.NextID()
		if !cs.Want(id) {
			continue
		}
		r := root.Fork(uint64(1000 + k))
		w := c13GetWorlds()[sc.wi]
		node := c13NewNode(w, sc.start)
		L := c13L
		var padded, foreign *types.Commit
		for _, ps := range sc.peers {
			node.connect(ps.base, ps.height)
		}
		used := make([]bool, len(sc.peers))
		var journal []string
		nbad := int64(0) // bad answers that entered a requester and will be part of a rejected pair
		serve := func(rq c13Req) {
			i := int(rq.p.num - 1)
			ps, h := sc.peers[i], rq.height
			if h < 1 || h > L || !rq.p.IsRunning() {
				return
			}
			accepted := func(b *types.Block) bool {
				pn, has := node.reqView(b.Height)
				return has && pn == rq.p.num
			}
			switch ps.script {
			case 0:
				node.deliver(rq.p, w.blocks[h])
			case 1:
				if h%2 == 0 {
					node.deliver(rq.p, w.alt[h])
					// an alt block at the very tip L only ever serves as "second" of the pair
					// (L-1, L); its LastCommit is the genuine commit of L-1, so nothing the node
					// can check distinguishes it from the canonical block L, and it is never
					// stored: not a bad answer the node could have acted on
					if accepted(w.alt[h]) && h < L {
						used[i] = true
						nbad++
						journal = append(journal, fmt.Sprintf("peer %d: alt block for height %d", rq.p.num, h))
					}
				} else {
					node.deliver(rq.p, w.blocks[h])
				}
			case 2:
				if h >= 2 {
					b := w.second(h-1, w.realCommit(w.mutate("garbage-early", h-1, h-1, r)))
					node.deliver(rq.p, b)
					if accepted(b) {
						used[i] = true
						nbad++
						journal = append(journal, fmt.Sprintf("peer %d: block %d with garbage signature in its LastCommit", rq.p.num, h))
					}
				} else {
					node.deliver(rq.p, w.blocks[h])
				}
			case 3:
				if h == L {
					padded = w.realCommit(w.mutate("garbage-late-nil", h-1, h-1, r))
					b := w.second(h-1, padded)
					node.deliver(rq.p, b)
					if accepted(b) {
						used[i] = true
						nbad++
						journal = append(journal, fmt.Sprintf("peer %d: tip block %d whose LastCommit has a garbage nil-vote slot", rq.p.num, h))
					}
				} else {
					node.deliver(rq.p, w.blocks[h])
				}
			case 4:
				st := w.states[1]
				b, _ := st.MakeBlock(h+150, c13Txs(h, 3), w.commits[1], nil, st.Validators.GetProposer().Address)
				node.deliver(rq.p, b)
				used[i] = true
				journal = append(journal, fmt.Sprintf("peer %d: block of height %d for request %d", rq.p.num, h+150, h))
			case 5:
				node.deliver(rq.p, w.blocks[h])
				before := accepted(w.blocks[h])
				node.deliver(rq.p, w.blocks[h])
				if pn, _ := node.reqView(h); before && pn != -1 {
					used[i] = true
					journal = append(journal, fmt.Sprintf("peer %d: block %d twice", rq.p.num, h))
				}
			case 6:
				if h == L {
					foreign = w.realCommit(w.mutate("foreign-addr", h-1, h-1, r))
					node.deliver(rq.p, w.second(h-1, foreign))
					journal = append(journal, fmt.Sprintf("peer %d: tip block %d whose LastCommit has a foreign address in one slot", rq.p.num, h))
				} else {
					node.deliver(rq.p, w.blocks[h])
				}
			}
		}
		deadline := time.Now().Add(time.Duration(vg.Scale(8, 12)) * time.Second)
		switched := false
	LOOP:
		for time.Now().Before(deadline) {
			var batch []c13Req
			select {
			case <-node.cons.ch:
				switched = true
				break LOOP
			case rq := <-node.reqCh:
				batch = append(batch, rq)
			case <-time.After(2 * time.Millisecond):
			}
		DRAIN:
			for {
				select {
				case rq := <-node.reqCh:
					batch = append(batch, rq)
				default:
					break DRAIN
				}
			}
			for _, j := range r.Perm(len(batch)) {
				serve(batch[j])
			}
		}
		node.bcR.Stop() //nolint:errcheck
		time.Sleep(20 * time.Millisecond)
		var stored []int64
		for h := int64(1); h <= node.ex.blockStore.Height(); h++ {
			m := node.ex.blockStore.LoadBlockMeta(h)
			x := int64(999)
			for idn, bid := range w.bids {
				if m != nil && bid.Equals(m.BlockID) {
					x = idn
				}
			}
			stored = append(stored, x)
		}
		ho, seenClass := uint64(2), uint64(0)
		if hh := node.ex.blockStore.Height(); hh > sc.start {
			// wait for the state of the last stored block
			for i := 0; i < 200; i++ {
				if st, err := node.ex.stateStore.Load(); err == nil && st.LastBlockHeight >= hh {
					break
				}
				time.Sleep(5 * time.Millisecond)
			}
			ho = node.handover()
			seen := node.ex.blockStore.LoadSeenCommit(hh)
			switch {
			case seen != nil && string(seen.Hash()) == string(w.commits[hh].Hash()):
				seenClass = 0
			case seen != nil && foreign != nil && string(seen.Hash()) == string(foreign.Hash()):
				seenClass = 1
			default:
				seenClass = 2
			}
		}
		var canon []string
		for h := int64(1); h <= L; h++ {
			canon = append(canon, vg.Z(h))
		}
		var pts, pds []string
		for i, ps := range sc.peers {
			p := node.peers[i]
			pts = append(pts, vg.Tup(vg.Z(p.num), vg.N(ps.script), vg.B(!p.IsRunning()), vg.B(used[i])))
			pds = append(pds, fmt.Sprintf("peer %d %s announces [%d,%d] stopped=%v bad-answer-used=%v", p.num, c13ScriptNames[ps.script], ps.base, ps.height, !p.IsRunning(), used[i]))
		}
		node.close()
		term := vg.App("CScen", vg.L(canon), vg.Z(sc.start), vg.ZL(stored), vg.Z(sc.tip), vg.L(pts), vg.Z(nbad), vg.B(switched), vg.N(ho), vg.N(seenClass))
		descr := fmt.Sprintf("scenario %s: world %d (powers %v), node starts with blocks 1..%d; %s; responses in PRNG order (stream %d). Bad answers that entered a requester: %v. Observed: stored ids by height %v, SwitchToConsensus called=%v, consensus.NewState=%d (0 ok,1 panic,2 not run), seen commit of last block class %d",
			sc.name, sc.wi, w.powers, sc.start, strings.Join(pds, "; "), 1000+k, journal, stored, switched, ho, seenClass)
		cs.Add(id, "scen:"+strings.SplitN(sc.name, "-", 2)[0], len(sc.peers) > 1, term, descr)
	}
	if err := cs.Write(); err != nil {
		t.Fatal(err)
	}
}
