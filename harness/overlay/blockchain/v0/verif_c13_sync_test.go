//go:build verif

package v0

// C13 correspondence harness for block sync v0 (injected with `go test -overlay`; nothing is
// written to the repository).
//
// A "world" is a deterministic chain of c13L blocks made with the repository's own
// state.MakeBlock / BlockExecutor.ApplyBlock over a no-op ABCI app, with n validators whose keys
// the harness owns (so it can make any signature, and knows for every signature which key
// signed which canonical vote: that table is the model's signature oracle).
//
// The syncing node is a real BlockchainReactor (real BlockPool with its requester goroutines,
// real poolRoutine, real BlockStore / state store over memdb, real BlockExecutor) attached to a
// real p2p.Switch that is not listening.  Peers are scripted: a mock peer is added to the
// switch's peer set, announces a range (StatusResponse through ReceiveEnvelope), records the
// BlockRequests the reactor sends it and answers them through ReceiveEnvelope (BlockResponse,
// i.e. through ValidateMsg and BlockFromProto) in an order chosen by the PRNG.
//
// The hand-over is the real one: at node start a real consensus.State (consensus.NewState over
// the node's state, BlockExecutor and block store, as node.NewNode does) and a real
// consensus.Reactor (waitSync = true) are built and registered as the switch's "CONSENSUS"
// reactor, wrapped only to recover a panic and to record the call.  When the pool is caught up
// the blockchain reactor's own poolRoutine calls conR.SwitchToConsensus(state, blocksSynced > 0)
// (scenarios); in the step cases, where a silent far-ahead peer keeps the pool syncing, the
// harness makes that very call itself after the step.  Observed: panic or not, RoundState.Height,
// RoundState.LastCommit against the stored seen commit, consensus state running.  Afterwards
// consensus.NewState is additionally run on the node's state and block store (what a restart
// does), panics recovered.
//
//   TestVerifC13Step      one pair (first, second) per case: peer 1 serves `first` for the node's
//                         next height, peer 2 (or again peer 1) serves `second` whose LastCommit is
//                         generated slot by slot (CStep).  Also calls VerifyCommitLight,
//                         VerifyCommit and CommitToVoteSet directly on that commit.
//   TestVerifC13Scenario  whole syncs against several peers (CScen, monitors only).
//   TestVerifC13Handover  whole syncs at the boundaries of the hand-over (fresh node syncing 0, 1,
//                         2, 3 blocks; restarted node; InitialHeight 1, 2, 5, 1000; lying peers at
//                         the tip): a CScen and a CHand case per scenario.
//
// A world's chain has InitialHeight ih; its j-th block (j = 1..L) has height ih+j-1.  A world may
// change its validator set: its ABCI application returns validator updates (add / remove /
// re-weight) from EndBlock of given positions; the chain is made with the repository's own
// BlockExecutor.ApplyBlock, so the set of every height is the one updateState produced (an update
// returned at position p takes effect at position p+2), in the order ValidatorSet keeps it.  The
// commit of block j is signed by the set of j (state.Validators before j = LastValidators after).
// Numbering used in the terms and in the replay descriptions:
//   key k        the world's k-th key (global, whatever set it is in); its address is "k+1"
//   address a    0 = empty, 1..G = address of key a-1, >= 1000 = 20 bytes owned by nobody
//   chain        1 = the world's chain id, 2 = "c13-other"
//   block id b   0 = BlockID{}, 1..L = the j-th canonical block, 100+j = a valid block of the
//                j-th height that nobody committed (other txs), 300+j = canonical block j with a
//                wrong AppHash (fails ValidateBlock), 200+x = a block id nobody has, 400+j = the
//                hash of canonical block j with a part-set header that is not its own
//   timestamp t  c13Base + t seconds
//   peer p       1, 2, ... in the order they connect

import (
	"encoding/json"
	"fmt"
	"os"
	"path/filepath"
	"sort"
	"strings"
	"sync"
	"testing"
	"time"

	dbm "github.com/tendermint/tm-db"

	abci "github.com/tendermint/tendermint/abci/types"
	cfg "github.com/tendermint/tendermint/config"
	"github.com/tendermint/tendermint/consensus"
	"github.com/tendermint/tendermint/crypto/ed25519"
	"github.com/tendermint/tendermint/evidence"
	vg "github.com/tendermint/tendermint/internal/verifgen"
	"github.com/tendermint/tendermint/libs/log"
	mpmock "github.com/tendermint/tendermint/mempool/mock"
	"github.com/tendermint/tendermint/p2p"
	"github.com/tendermint/tendermint/p2p/conn"
	"github.com/tendermint/tendermint/p2p/mock"
	bcproto "github.com/tendermint/tendermint/proto/tendermint/blockchain"
	tmproto "github.com/tendermint/tendermint/proto/tendermint/types"
	"github.com/tendermint/tendermint/proxy"
	sm "github.com/tendermint/tendermint/state"
	"github.com/tendermint/tendermint/store"
	"github.com/tendermint/tendermint/types"
)

const (
	c13Chain = "c13-chain"
	c13L     = int64(6)
)

var c13Base = time.Date(2021, 5, 1, 12, 0, 0, 0, time.UTC)
var c13Chains = []string{"", c13Chain, "c13-other"}

func c13Time(t int64) time.Time { return c13Base.Add(time.Duration(t) * time.Second).UTC() }

// ------------------------------------------------------------------ world

// a member of a validator set: key g with its voting power
type c13Val struct{ g, power int64 }

// EndBlock of the pos-th block returns the update (key g, power); 0 removes the validator
type c13Upd struct{ pos, g, power int64 }

type c13World struct {
	ih      int64             // GenesisDoc.InitialHeight
	privs   []ed25519.PrivKey // by key
	addrs   []types.Address   // by key
	powers0 []int64           // genesis powers of keys 0..
	upds    []c13Upd
	sets    [][]c13Val                       // sets[j], j = 1..L+1: the validator set of the j-th height, in the order of ValidatorSet.Validators
	abciUpd map[int64][]abci.ValidatorUpdate // by height
	// evidence world (evIn > 0): block evIn carries a DuplicateVoteEvidence of the first validator
	// of position evOf; the chain is made, and every node of the world runs, with a REAL
	// evidence.Pool in the BlockExecutor
	evOf, evIn int64
	genDoc     *types.GenesisDoc
	blocks     []*types.Block  // 1..L (index j: height ih+j-1)
	ids        []types.BlockID // 1..L
	commits    []*types.Commit // commits[j]: every validator signs block j (1..L)
	states     []sm.State      // states[j]: after block j (0 = genesis)
	alt        []*types.Block  // alt[j]: valid block of the j-th height with other txs (1..L)
	bad        []*types.Block  // bad[j]: canonical block j with a wrong AppHash
	bids       map[int64]types.BlockID
}

// H is the height of the j-th block, J its inverse, lastH the State.LastBlockHeight after j blocks
func (w *c13World) H(j int64) int64 { return w.ih + j - 1 }
func (w *c13World) J(h int64) int64 { return h - w.ih + 1 }
func (w *c13World) lastH(j int64) int64 {
	if j == 0 {
		return 0
	}
	return w.H(j)
}

type c13Exec struct {
	app        proxy.AppConns
	stateStore sm.Store
	blockStore *store.BlockStore
	blockExec  *sm.BlockExecutor
}

// the application of a world: no-op but for the validator updates it returns from EndBlock
type c13App struct {
	abci.BaseApplication
	upd map[int64][]abci.ValidatorUpdate
}

func (a *c13App) EndBlock(req abci.RequestEndBlock) abci.ResponseEndBlock {
	return abci.ResponseEndBlock{ValidatorUpdates: a.upd[req.Height]}
}

func (w *c13World) set(j int64) []c13Val { return w.sets[j] }
func (w *c13World) total(j int64) int64 {
	t := int64(0)
	for _, v := range w.sets[j] {
		t += v.power
	}
	return t
}

func (w *c13World) String() string {
	s := fmt.Sprintf("genesis powers %v", w.powers0)
	for _, u := range w.upds {
		s += fmt.Sprintf(", EndBlock(height %d) sets key%d:=%d", w.H(u.pos), u.g, u.power)
	}
	if len(w.upds) > 0 {
		s += "; sets by height:"
		for j := int64(1); j <= c13L; j++ {
			if j == 1 || w.valsTerm(j) != w.valsTerm(j-1) {
				s += fmt.Sprintf(" from %d %s", w.H(j), w.setDescr(j))
			}
		}
	}
	return s
}

func (w *c13World) setDescr(j int64) string {
	var xs []string
	for _, v := range w.sets[j] {
		xs = append(xs, fmt.Sprintf("key%d:%d", v.g, v.power))
	}
	return "[" + strings.Join(xs, " ") + "]"
}

func c13NewExec(state sm.State, upd map[int64][]abci.ValidatorUpdate) *c13Exec {
	return c13NewExecOpt(state, upd, false, true)
}

// realPool: the BlockExecutor gets a real evidence.Pool over the node's own state and block
// store (as node.NewNode wires it); saveState: the handshake has saved the state (not so on a
// node that starts with a state sync)
func c13NewExecOpt(state sm.State, upd map[int64][]abci.ValidatorUpdate, realPool, saveState bool) *c13Exec {
	app := proxy.NewAppConns(proxy.NewLocalClientCreator(&c13App{upd: upd}))
	app.SetLogger(log.NewNopLogger())
	if err := app.Start(); err != nil {
		panic(err)
	}
	ss := sm.NewStore(dbm.NewMemDB(), sm.StoreOptions{})
	if saveState {
		if err := ss.Save(state); err != nil {
			panic(err)
		}
	}
	bs := store.NewBlockStore(dbm.NewMemDB())
	var evpool sm.EvidencePool = sm.EmptyEvidencePool{}
	if realPool {
		p, err := evidence.NewPool(dbm.NewMemDB(), ss, bs)
		if err != nil {
			panic(err)
		}
		p.SetLogger(log.NewNopLogger())
		evpool = p
	}
	be := sm.NewBlockExecutor(ss, log.NewNopLogger(), app.Consensus(), mpmock.Mempool{}, evpool)
	return &c13Exec{app: app, stateStore: ss, blockStore: bs, blockExec: be}
}

func c13Txs(h int64, salt byte) []types.Tx {
	return []types.Tx{[]byte{byte(h), 1, salt}, []byte{byte(h), 2, salt}}
}

func c13BuildWorld(powers []int64, ih int64, upds ...c13Upd) *c13World {
	return c13BuildWorldEv(powers, ih, 0, 0, upds...)
}

// c13BuildWorldEv: evIn > 0 makes an evidence world (see c13World.evIn)
func c13BuildWorldEv(powers []int64, ih, evOf, evIn int64, upds ...c13Upd) *c13World {
	n := len(powers)
	G := n
	for _, u := range upds {
		if int(u.g) >= G {
			G = int(u.g) + 1
		}
	}
	w := &c13World{ih: ih, powers0: powers, upds: upds, bids: map[int64]types.BlockID{0: {}},
		abciUpd: map[int64][]abci.ValidatorUpdate{}, evOf: evOf, evIn: evIn}
	for x := int64(1); x <= 3; x++ {
		hh := make([]byte, 32)
		for i := range hh {
			hh[i] = byte(x*37) + byte(i)
		}
		w.bids[200+x] = types.BlockID{Hash: hh, PartSetHeader: types.PartSetHeader{Total: 1, Hash: hh}}
	}
	var gvals []types.GenesisValidator
	byAddr := map[string]int64{}
	for g := 0; g < G; g++ {
		p := ed25519.GenPrivKeyFromSecret([]byte(fmt.Sprintf("verif-c13-%d-%d", n, g)))
		w.privs = append(w.privs, p)
		w.addrs = append(w.addrs, p.PubKey().Address())
		byAddr[string(p.PubKey().Address())] = int64(g)
		if g < n {
			gvals = append(gvals, types.GenesisValidator{PubKey: p.PubKey(), Power: powers[g]})
		}
	}
	for _, u := range upds {
		w.abciUpd[w.H(u.pos)] = append(w.abciUpd[w.H(u.pos)], types.TM2PB.NewValidatorUpdate(w.privs[u.g].PubKey(), u.power))
	}
	w.genDoc = &types.GenesisDoc{GenesisTime: c13Base, ChainID: c13Chain, Validators: gvals, InitialHeight: ih}
	state, err := sm.MakeGenesisState(w.genDoc)
	if err != nil {
		panic(err)
	}
	// the set of the j-th height as the real state holds it
	setOf := func(vs *types.ValidatorSet) []c13Val {
		var xs []c13Val
		for _, v := range vs.Validators {
			xs = append(xs, c13Val{byAddr[string(v.Address)], v.VotingPower})
		}
		return xs
	}
	w.sets = make([][]c13Val, c13L+2)
	w.sets[1] = setOf(state.Validators)
	ex := c13NewExecOpt(state, w.abciUpd, evIn > 0, true)
	defer ex.app.Stop() //nolint:errcheck
	w.blocks = make([]*types.Block, c13L+1)
	w.ids = make([]types.BlockID, c13L+1)
	w.commits = make([]*types.Commit, c13L+1)
	w.alt = make([]*types.Block, c13L+1)
	w.bad = make([]*types.Block, c13L+1)
	w.states = []sm.State{state.Copy()}
	last := types.NewCommit(0, 0, types.BlockID{}, nil)
	for j := int64(1); j <= c13L; j++ {
		h := w.H(j)
		prop := state.Validators.GetProposer().Address
		var evs []types.Evidence
		if j == evIn {
			evs = []types.Evidence{w.duplicateVote(ex, evOf)}
		}
		blk, parts := state.MakeBlock(h, c13Txs(j, 0), last, evs, prop)
		w.alt[j], _ = state.MakeBlock(h, c13Txs(j, 7), last, nil, prop)
		w.bad[j], _ = state.MakeBlock(h, c13Txs(j, 0), last, nil, prop)
		w.bad[j].AppHash = []byte("verif-c13-wrong-app-hash-32bytes")
		bid := types.BlockID{Hash: blk.Hash(), PartSetHeader: parts.Header()}
		w.blocks[j], w.ids[j] = blk, bid
		w.bids[j] = bid
		w.bids[100+j] = c13IDOf(w.alt[j])
		w.bids[300+j] = c13IDOf(w.bad[j])
		fp := make([]byte, 32)
		for i := range fp {
			fp[i] = byte(0xa0+j) ^ byte(7*i)
		}
		w.bids[400+j] = types.BlockID{Hash: bid.Hash, PartSetHeader: types.PartSetHeader{Total: parts.Header().Total, Hash: fp}}
		state, _, err = ex.blockExec.ApplyBlock(state, bid, blk)
		if err != nil {
			panic(err)
		}
		w.states = append(w.states, state.Copy())
		w.sets[j+1] = setOf(state.Validators)
		// the set that signs block j is LastValidators of the state after it
		if fmt.Sprint(setOf(state.LastValidators)) != fmt.Sprint(w.sets[j]) {
			panic("verif c13: LastValidators after block j is not the set of j")
		}
		last = w.realCommit(w.genuine(j, j)) // every validator of the set of j signs block j
		w.commits[j] = last
		if evIn > 0 { // the real evidence pool reads the block metas of earlier heights
			ex.blockStore.SaveBlock(blk, parts, last)
		}
	}
	return w
}

// duplicateVote: the first validator of position evOf signed two different blocks at that
// height; made against the validator set and the block time the full node holds for it
func (w *c13World) duplicateVote(ex *c13Exec, evOf int64) types.Evidence {
	evH := w.H(evOf)
	meta := ex.blockStore.LoadBlockMeta(evH)
	valSet, err := ex.stateStore.LoadValidators(evH)
	if meta == nil || err != nil {
		panic(fmt.Sprintf("verif c13: no header / validators of the evidence height %d: %v", evH, err))
	}
	g := w.sets[evOf][0].g
	vote := func(id int64) *types.Vote {
		v := &types.Vote{Type: tmproto.PrecommitType, Height: evH, Round: 0, BlockID: w.bids[id],
			Timestamp: meta.Header.Time, ValidatorAddress: w.addrs[g], ValidatorIndex: 0}
		sig, err := w.privs[g].Sign(types.VoteSignBytes(c13Chain, v.ToProto()))
		if err != nil {
			panic(err)
		}
		v.Signature = sig
		return v
	}
	ev := types.NewDuplicateVoteEvidence(vote(201), vote(202), meta.Header.Time, valSet)
	if ev == nil {
		panic("verif c13: could not make the duplicate vote evidence")
	}
	return ev
}

// idOf: the number of a whole BlockID (hash and part-set header) in the world's table; 999 = none
func (w *c13World) idOf(b types.BlockID) int64 {
	x := int64(999)
	for idn, bid := range w.bids {
		if bid.Equals(b) && idn < x {
			x = idn
		}
	}
	return x
}

func c13IDOf(b *types.Block) types.BlockID {
	ps := b.MakePartSet(types.BlockPartSizeBytes)
	return types.BlockID{Hash: b.Hash(), PartSetHeader: ps.Header()}
}

// the canonical vote a signature is over
type c13Msg struct{ ty, chain, h, r, bid, ts int64 }

type c13SigKey struct {
	w *c13World
	k int64
	m c13Msg
}

var c13SigCache = map[c13SigKey][]byte{}
var c13SigMtx sync.Mutex

func (w *c13World) sign(k int64, m c13Msg) []byte {
	c13SigMtx.Lock()
	defer c13SigMtx.Unlock()
	ck := c13SigKey{w, k, m}
	if s, ok := c13SigCache[ck]; ok {
		return s
	}
	bid := w.bids[m.bid]
	v := &tmproto.Vote{Type: tmproto.SignedMsgType(m.ty), Height: m.h, Round: int32(m.r),
		BlockID: bid.ToProto(), Timestamp: c13Time(m.ts)}
	s, err := w.privs[k].Sign(types.VoteSignBytes(c13Chains[m.chain], v))
	if err != nil {
		panic(err)
	}
	c13SigCache[ck] = s
	return s
}

func (w *c13World) addr(a int64) types.Address {
	switch {
	case a == 0:
		return nil
	case a >= 1 && int(a) <= len(w.addrs):
		return w.addrs[a-1]
	default:
		b := make([]byte, 20)
		for i := range b {
			b[i] = byte(a>>uint(8*(i%4))) ^ byte(0x5a+i)
		}
		return b
	}
}

// the validator set of the j-th height as (address, key, power), in its real order; j = 0: empty
func (w *c13World) valsTerm(j int64) string {
	var xs []string
	if j >= 1 {
		for _, v := range w.sets[j] {
			xs = append(xs, vg.Tup(vg.Z(v.g+1), vg.Z(v.g), vg.Z(v.power)))
		}
	}
	return vg.L(xs)
}

// ------------------------------------------------------------------ commits, slot by slot

// kind 'B' key k over the base for the block, 'N' over the base for nil, 'O' key k over the
// explicit vote m, 'G' random bytes
type c13Slot struct {
	flag, addr, ts int64
	kind           byte
	k              int64
	sts            int64 // timestamp signed (B, N)
	m              c13Msg
	raw            []byte
}

type c13Commit struct {
	ch, cr, cb int64 // Commit.Height, Round, BlockID
	chain      int64 // base of B / N slots: chain, ch', cr', cb'
	bh, br, bb int64
	slots      []c13Slot
}

func (w *c13World) slotSig(c *c13Commit, s c13Slot) []byte {
	switch s.kind {
	case 'B':
		return w.sign(s.k, c13Msg{int64(tmproto.PrecommitType), c.chain, c.bh, c.br, c.bb, s.sts})
	case 'N':
		return w.sign(s.k, c13Msg{int64(tmproto.PrecommitType), c.chain, c.bh, c.br, 0, s.sts})
	case 'O':
		return w.sign(s.k, s.m)
	}
	return s.raw
}

func (w *c13World) realCommit(c *c13Commit) *types.Commit {
	var sigs []types.CommitSig
	for _, s := range c.slots {
		if s.flag == int64(types.BlockIDFlagAbsent) {
			sigs = append(sigs, types.NewCommitSigAbsent())
			continue
		}
		sigs = append(sigs, types.CommitSig{BlockIDFlag: types.BlockIDFlag(s.flag), ValidatorAddress: w.addr(s.addr),
			Timestamp: c13Time(s.ts), Signature: w.slotSig(c, s)})
	}
	return types.NewCommit(c.ch, int32(c.cr), w.bids[c.cb], sigs)
}

func c13SlotTerm(s c13Slot) string {
	var d string
	switch s.kind {
	case 'B':
		d = fmt.Sprintf("(SB %d %d)", s.k, s.sts)
	case 'N':
		d = fmt.Sprintf("(SN %d %d)", s.k, s.sts)
	case 'O':
		d = fmt.Sprintf("(SO %d %d %d %s %d %d %d)", s.k, s.m.ty, s.m.chain, vg.Z(s.m.h), s.m.r, s.m.bid, s.m.ts)
	default:
		d = "SG"
	}
	ts := s.ts
	if s.flag == int64(types.BlockIDFlagAbsent) {
		ts = 0
	}
	return vg.Tup(vg.Z(s.flag), vg.Z(s.addr), vg.Z(ts), d)
}

func c13SlotDescr(s c13Slot) string {
	fl := map[int64]string{1: "absent", 2: "commit", 3: "nil"}[s.flag]
	switch s.kind {
	case 'B':
		return fmt.Sprintf("%s addr%d ts%d sig=key%d:block@%d", fl, s.addr, s.ts, s.k, s.sts)
	case 'N':
		return fmt.Sprintf("%s addr%d ts%d sig=key%d:nil@%d", fl, s.addr, s.ts, s.k, s.sts)
	case 'O':
		return fmt.Sprintf("%s addr%d ts%d sig=key%d:{chain%d h%d r%d bid%d ts%d}", fl, s.addr, s.ts, s.k, s.m.chain, s.m.h, s.m.r, s.m.bid, s.m.ts)
	case 'G':
		return fmt.Sprintf("%s addr%d ts%d sig=garbage", fl, s.addr, s.ts)
	}
	return fl
}

func (c *c13Commit) terms() (cm, base, sigs string) {
	var xs []string
	for _, s := range c.slots {
		xs = append(xs, c13SlotTerm(s))
	}
	return vg.Tup(vg.Z(c.ch), vg.Z(c.cr), vg.Z(c.cb)), vg.Tup(vg.Z(c.chain), vg.Z(c.bh), vg.Z(c.br), vg.Z(c.bb)), vg.L(xs)
}

func (c *c13Commit) descr() string {
	var xs []string
	for i, s := range c.slots {
		xs = append(xs, fmt.Sprintf("#%d %s", i, c13SlotDescr(s)))
	}
	return fmt.Sprintf("Commit{Height:%d Round:%d BlockID:%d; B/N signatures over (chain%d h%d r%d bid%d); %s}",
		c.ch, c.cr, c.cb, c.chain, c.bh, c.br, c.bb, strings.Join(xs, "; "))
}

// genuine: every validator signs block id bid at the j-th height, round 0
func (w *c13World) genuine(j, bid int64) *c13Commit {
	h := w.H(j)
	c := &c13Commit{ch: h, cr: 0, cb: bid, chain: 1, bh: h, br: 0, bb: bid}
	for i, v := range w.sets[j] {
		ts := j*10 + int64(i)
		c.slots = append(c.slots, c13Slot{flag: 2, addr: v.g + 1, ts: ts, kind: 'B', k: v.g, sts: ts})
	}
	return c
}

// index of the slot at which the early-exit variant stops on a genuine commit
func (w *c13World) lightStop(j int64) int {
	t := int64(0)
	for i, v := range w.sets[j] {
		t += v.power
		if t > w.total(j)*2/3 {
			return i
		}
	}
	return len(w.sets[j]) - 1
}

var c13CommitKinds = []string{
	"genuine", "some-absent", "some-nil", "below-threshold", "garbage-early", "garbage-late-commit",
	"garbage-late-nil", "other-key", "commit-other-block", "sigs-other-block", "sigs-other-round",
	"sigs-other-chain", "commit-other-height", "short", "padded", "foreign-addr", "neighbour-addr",
	"swap", "late-nil-flag-block-sig", "ts-mismatch", "late-absent-to-garbage-nil", "empty-addr-late",
	"commit-other-partset",
}

// mutate builds the commit of the given kind for block id fid at the fj-th height.
func (w *c13World) mutate(kind string, fj, fid int64, r *vg.Rand) *c13Commit {
	c := w.genuine(fj, fid)
	fh := w.H(fj)
	set := w.sets[fj]
	n := len(set)
	stop := w.lightStop(fj)
	late := n - 1 // a slot the early-exit variant never reads (needs stop < n-1)
	absent := func(i int) { c.slots[i] = c13Slot{flag: 1} }
	nilv := func(i int) {
		s := c.slots[i]
		c.slots[i] = c13Slot{flag: 3, addr: s.addr, ts: s.ts, kind: 'N', k: s.k, sts: s.ts}
	}
	switch kind {
	case "genuine":
	case "some-absent":
		for i := n - 1; i > stop; i-- {
			if r.Bool() || i == n-1 {
				absent(i)
			}
		}
	case "some-nil":
		for i := n - 1; i > stop; i-- {
			if r.Bool() || i == n-1 {
				nilv(i)
			}
		}
	case "below-threshold":
		for i := stop; i < n; i++ {
			if r.Bool() {
				absent(i)
			} else {
				nilv(i)
			}
		}
	case "garbage-early":
		i := r.Intn(stop + 1)
		c.slots[i].kind, c.slots[i].raw = 'G', r.Bytes(64)
	case "garbage-late-commit":
		c.slots[late].kind, c.slots[late].raw = 'G', r.Bytes(64)
	case "garbage-late-nil":
		nilv(late)
		c.slots[late].kind, c.slots[late].raw = 'G', r.Bytes(64)
	case "other-key":
		i := r.Intn(n)
		c.slots[i].k = set[(i+1)%n].g
	case "commit-other-block":
		ob := []int64{100 + fj, 201, 300 + fj}[r.Intn(3)]
		c.cb, c.bb = ob, ob
	case "sigs-other-block":
		c.bb = []int64{100 + fj, 201, 0}[r.Intn(3)]
	case "sigs-other-round":
		c.br = 1
	case "sigs-other-chain":
		c.chain = 2
	case "commit-other-height":
		c.ch, c.bh = fh+1, fh+1
	case "short":
		c.slots = c.slots[:n-1]
	case "padded":
		c.slots = append(c.slots, c13Slot{flag: 2, addr: 1000, ts: 5, kind: 'G', raw: r.Bytes(64)})
	case "foreign-addr":
		i := r.Intn(n)
		c.slots[i].addr = 1000 + int64(r.Intn(5))
	case "neighbour-addr":
		i := r.Intn(n)
		c.slots[i].addr = set[(i+1)%n].g + 1
	case "swap":
		i := r.Intn(n - 1)
		c.slots[i], c.slots[i+1] = c.slots[i+1], c.slots[i]
	case "late-nil-flag-block-sig":
		c.slots[late].flag = 3
	case "ts-mismatch":
		i := r.Intn(n)
		c.slots[i].ts += 1000
	case "late-absent-to-garbage-nil":
		absent(late)
		if late-1 > stop {
			absent(late - 1)
		}
		c.slots[late] = c13Slot{flag: 3, addr: set[late].g + 1, ts: 7, kind: 'G', raw: r.Bytes(64)}
	case "empty-addr-late":
		// cannot travel (CommitSig.ValidateBasic wants 20 bytes): use a foreign one instead
		c.slots[late].addr = 1001
	case "commit-other-partset":
		// everybody signs (hash of the canonical block, a part-set header that is not the
		// block's): the commit covers the hash only
		c.cb, c.bb = 400+fj, 400+fj
	}
	return c
}

// ------------------------------------------------------------------ the syncing node and its peers

type c13Req struct {
	p      *c13Peer
	height int64
}

type c13Peer struct {
	*mock.Peer
	num   int64
	reqCh chan c13Req
	mtx   sync.Mutex
	asked map[int64]int
}

func (p *c13Peer) handle(e p2p.Envelope) bool {
	if m, ok := e.Message.(*bcproto.BlockRequest); ok {
		p.mtx.Lock()
		p.asked[m.Height]++
		p.mtx.Unlock()
		select {
		case p.reqCh <- c13Req{p, m.Height}:
		default:
		}
	}
	return true
}
func (p *c13Peer) SendEnvelope(e p2p.Envelope) bool    { return p.handle(e) }
func (p *c13Peer) TrySendEnvelope(e p2p.Envelope) bool { return p.handle(e) }

// what the blockchain reactor handed to consensus, and how consensus took it
type c13Switch struct {
	state    sm.State
	skipWAL  bool
	panicked string // "" = SwitchToConsensus returned
}

// c13ConsR is the node's "CONSENSUS" reactor: the real consensus.Reactor; SwitchToConsensus is
// wrapped only so that a panic inside it is recorded instead of killing the test binary from
// the pool routine.
type c13ConsR struct {
	*consensus.Reactor
	ch chan c13Switch
}

func (c *c13ConsR) SwitchToConsensus(state sm.State, skipWAL bool) {
	res := c13Switch{state: state, skipWAL: skipWAL}
	defer func() {
		if p := recover(); p != nil {
			res.panicked = fmt.Sprint(p)
		}
		select {
		case c.ch <- res:
		default:
		}
	}()
	c.Reactor.SwitchToConsensus(state, skipWAL)
}

// stand-in used only when consensus.NewState panicked at node start (recorded as an observation)
type c13StubConsR struct {
	p2p.BaseReactor
	ch chan c13Switch
}

func (c *c13StubConsR) SwitchToConsensus(state sm.State, skipWAL bool) {
	select {
	case c.ch <- c13Switch{state: state, skipWAL: skipWAL}:
	default:
	}
}

type c13Node struct {
	w        *c13World
	ex       *c13Exec
	bcR      *BlockchainReactor
	sw       *p2p.Switch
	startOK  bool // consensus.NewState at node start returned
	startH   int64
	snapH    int64 // height of the restored snapshot (0: the node did not start with a state sync)
	conS     *consensus.State
	cons     *c13ConsR
	switchCh chan c13Switch
	eventBus *types.EventBus
	dir      string
	reqCh    chan c13Req
	peers    []*c13Peer
}

func c13NewConsState(ccfg *cfg.ConsensusConfig, state sm.State, ex *c13Exec) (cs *consensus.State, ok bool) {
	defer func() {
		if r := recover(); r != nil {
			cs, ok = nil, false
		}
	}()
	cs = consensus.NewState(ccfg, state, ex.blockExec, ex.blockStore, mpmock.Mempool{}, sm.EmptyEvidencePool{})
	return cs, true
}

// c13NewNode: a node that has applied and stored the first `start` blocks of the world
func c13NewNode(w *c13World, start int64) *c13Node { return c13NewNodeOpt(w, start, 0) }

// c13NewNodeOpt: snapshot > 0 makes a node that starts with a state sync and has just restored
// the snapshot of position `snapshot` (what node.startStateSync does once the state sync reactor
// returned the light-verified state and commit: stateStore.Bootstrap, blockStore.SaveSeenCommit,
// bcR.SwitchToFastSync); its stores hold nothing below that height.  Evidence worlds run with a
// real evidence.Pool in the node's BlockExecutor.
func c13NewNodeOpt(w *c13World, start, snapshot int64) *c13Node {
	ex := c13NewExecOpt(w.states[0].Copy(), w.abciUpd, w.evIn > 0, snapshot == 0)
	state := w.states[0].Copy()
	for j := int64(1); j <= start; j++ {
		blk := w.blocks[j]
		parts := blk.MakePartSet(types.BlockPartSizeBytes)
		var err error
		state, _, err = ex.blockExec.ApplyBlock(state, w.ids[j], blk)
		if err != nil {
			panic(err)
		}
		ex.blockStore.SaveBlock(blk, parts, w.commits[j])
	}
	bcR := NewBlockchainReactor(state.Copy(), ex.blockExec, ex.blockStore, snapshot == 0) // fastSync && !stateSync
	bcR.SetLogger(log.NewNopLogger())
	nk := p2p.NodeKey{PrivKey: ed25519.GenPrivKey()}
	tr := p2p.NewMultiplexTransport(p2p.DefaultNodeInfo{DefaultNodeID: nk.ID()}, nk, conn.DefaultMConnConfig())
	sw := p2p.NewSwitch(cfg.DefaultP2PConfig(), tr)
	sw.SetLogger(log.NewNopLogger())
	sw.AddReactor("BLOCKCHAIN", bcR)
	n := &c13Node{w: w, ex: ex, bcR: bcR, sw: sw, startH: state.LastBlockHeight,
		switchCh: make(chan c13Switch, 1), reqCh: make(chan c13Req, 4096)}

	// consensus as node.NewNode builds it (createConsensusReactor), on the node's own stores;
	// the WAL goes to a scratch directory, the commit timeout is long so that the started state
	// machine sits in NewHeight while it is observed
	dir, err := os.MkdirTemp("", "verif-c13-")
	if err != nil {
		panic(err)
	}
	n.dir = dir
	ccfg := cfg.TestConsensusConfig()
	ccfg.SetWalFile(filepath.Join(dir, "cs.wal", "wal"))
	ccfg.TimeoutCommit = 3 * time.Second
	ccfg.SkipTimeoutCommit = false
	n.conS, n.startOK = c13NewConsState(ccfg, state.Copy(), ex)
	if n.startOK {
		n.eventBus = types.NewEventBus()
		n.eventBus.SetLogger(log.NewNopLogger())
		if err := n.eventBus.Start(); err != nil {
			panic(err)
		}
		n.conS.SetLogger(log.NewNopLogger())
		n.conS.SetEventBus(n.eventBus)
		conR := consensus.NewReactor(n.conS, true)
		conR.SetLogger(log.NewNopLogger())
		conR.SetEventBus(n.eventBus)
		n.cons = &c13ConsR{Reactor: conR, ch: n.switchCh}
		sw.AddReactor("CONSENSUS", n.cons)
	} else {
		stub := &c13StubConsR{ch: n.switchCh}
		stub.BaseReactor = *p2p.NewBaseReactor("CONSENSUS", stub)
		sw.AddReactor("CONSENSUS", stub)
	}
	if err := bcR.Start(); err != nil {
		panic(err)
	}
	if snapshot > 0 {
		st := w.states[snapshot].Copy()
		st.LastHeightValidatorsChanged = w.H(snapshot) + 2      // as lightClientStateProvider.State
		st.LastHeightConsensusParamsChanged = w.H(snapshot) + 1 // as lightClientStateProvider.State
		if err := ex.stateStore.Bootstrap(st); err != nil {
			panic(err)
		}
		if err := ex.blockStore.SaveSeenCommit(st.LastBlockHeight, w.commits[snapshot]); err != nil {
			panic(err)
		}
		n.snapH = st.LastBlockHeight
		if err := bcR.SwitchToFastSync(st); err != nil {
			panic(err)
		}
	}
	return n
}

func (n *c13Node) close() {
	n.bcR.Stop() //nolint:errcheck
	for _, p := range n.peers {
		p.Stop() //nolint:errcheck
	}
	if n.conS != nil && n.conS.IsRunning() {
		n.conS.Stop() //nolint:errcheck
		n.conS.Wait()
	}
	if n.eventBus != nil {
		n.eventBus.Stop() //nolint:errcheck
	}
	n.ex.app.Stop() //nolint:errcheck
	os.RemoveAll(n.dir)
}

// what is observed of the real hand-over
type c13HandObs struct {
	sres    uint64 // 0 SwitchToConsensus returned, 1 panicked, 2 not called, 3 NewState at node start panicked
	hs      int64  // LastBlockHeight of the state handed over (-1 = no call)
	skipWAL bool
	height  int64  // RoundState.Height afterwards (-1 = not observed)
	lcc     uint64 // RoundState.LastCommit: 0 nil, 1 equals the seen commit stored for the top block of the store, 2 other, 3 not observed
	running bool   // consensus state running, WaitSync() false
	msg     string
}

func c13SameCommit(a, b *types.Commit) bool {
	if a == nil || b == nil || a.Height != b.Height || a.Round != b.Round || !a.BlockID.Equals(b.BlockID) ||
		len(a.Signatures) != len(b.Signatures) {
		return false
	}
	for i := range a.Signatures {
		x, y := a.Signatures[i], b.Signatures[i]
		if x.BlockIDFlag != y.BlockIDFlag || string(x.ValidatorAddress) != string(y.ValidatorAddress) ||
			!x.Timestamp.Equal(y.Timestamp) || string(x.Signature) != string(y.Signature) {
			return false
		}
	}
	return true
}

// observe: the consensus state after the call `res` of SwitchToConsensus
func (n *c13Node) observe(res *c13Switch) (o c13HandObs) {
	o = c13HandObs{sres: 2, hs: -1, height: -1, lcc: 3}
	if !n.startOK {
		o.sres = 3
		return o
	}
	if res == nil {
		return o
	}
	o.hs, o.skipWAL = res.state.LastBlockHeight, res.skipWAL
	if res.panicked != "" {
		o.sres, o.msg = 1, res.panicked
		return o
	}
	o.sres = 0
	rs := n.conS.GetRoundState()
	o.height = rs.Height
	o.running = n.conS.IsRunning() && !n.cons.WaitSync()
	func() {
		defer func() {
			if r := recover(); r != nil {
				o.lcc = 2
			}
		}()
		switch {
		case rs.LastCommit == nil:
			o.lcc = 0
		case c13SameCommit(rs.LastCommit.MakeCommit(), n.ex.blockStore.LoadSeenCommit(n.topHeight())):
			o.lcc = 1
		default:
			o.lcc = 2
		}
	}()
	return o
}

// topHeight: the height of the last block the node has (the snapshot height while a
// state-synced node has stored no block yet)
func (n *c13Node) topHeight() int64 {
	if h := n.ex.blockStore.Height(); h > 0 {
		return h
	}
	return n.snapH
}

// switchNow makes the call poolRoutine makes when the pool is caught up:
// conR.SwitchToConsensus(state, blocksSynced > 0 || stateSynced), with the state the node saved
func (n *c13Node) switchNow(blocksSynced bool) *c13Switch {
	if !n.startOK {
		return nil
	}
	state, err := n.ex.stateStore.Load()
	if err != nil {
		return nil
	}
	conR, ok := n.sw.Reactor("CONSENSUS").(consensusReactor)
	if !ok {
		return nil
	}
	conR.SwitchToConsensus(state, blocksSynced)
	select {
	case res := <-n.switchCh:
		return &res
	default:
		return nil
	}
}

// c13VerifySeen checks, without ValidatorSet.VerifyCommit, that c is a commit for the world's
// j-th block: one slot per validator, every non-absent slot signed by the positional
// validator's key over the vote the slot stands for, more than 2/3 of the power for the block
// (the slot's ValidatorAddress is not looked at: that is the contract of VerifyCommit)
func (w *c13World) c13VerifySeen(j int64, c *types.Commit) (ok bool) {
	defer func() {
		if r := recover(); r != nil {
			ok = false
		}
	}()
	set := w.sets[j]
	if c == nil || c.Height != w.H(j) || !c.BlockID.Equals(w.ids[j]) || len(c.Signatures) != len(set) {
		return false
	}
	tally := int64(0)
	for i, s := range c.Signatures {
		if s.Absent() {
			continue
		}
		if s.BlockIDFlag != types.BlockIDFlagCommit && s.BlockIDFlag != types.BlockIDFlagNil {
			return false
		}
		v := c.GetVote(int32(i))
		if !w.privs[set[i].g].PubKey().VerifySignature(types.VoteSignBytes(c13Chain, v.ToProto()), s.Signature) {
			return false
		}
		if s.ForBlock() {
			tally += set[i].power
		}
	}
	return 3*tally > 2*w.total(j)
}

// connect adds peer number len+1 and lets it announce [base, height]
func (n *c13Node) connect(base, height int64) *c13Peer {
	num := int64(len(n.peers) + 1)
	p := &c13Peer{Peer: mock.NewPeer([]byte{10, 13, 0, byte(num)}), num: num, reqCh: n.reqCh, asked: map[int64]int{}}
	n.peers = append(n.peers, p)
	_ = n.sw.Peers().(*p2p.PeerSet).Add(p)
	n.bcR.InitPeer(p)
	n.bcR.AddPeer(p)
	n.bcR.ReceiveEnvelope(p2p.Envelope{ChannelID: BlockchainChannel, Src: p,
		Message: &bcproto.StatusResponse{Base: base, Height: height}})
	return p
}

// status: a further StatusResponse from p
func (n *c13Node) status(p *c13Peer, base, height int64) {
	if !p.IsRunning() {
		return
	}
	n.bcR.ReceiveEnvelope(p2p.Envelope{ChannelID: BlockchainChannel, Src: p,
		Message: &bcproto.StatusResponse{Base: base, Height: height}})
}

// disconnect: the connection of p breaks (what the switch does then: stop the peer, RemovePeer
// on every reactor)
func (n *c13Node) disconnect(p *c13Peer) {
	if p.IsRunning() {
		n.sw.StopPeerForError(p, "verif: connection closed by the peer")
	}
}

// deliver hands a BlockResponse from p to the reactor, as the connection would
func (n *c13Node) deliver(p *c13Peer, b *types.Block) {
	if !p.IsRunning() {
		return // connection closed
	}
	bp, err := b.ToProto()
	if err != nil {
		panic(err)
	}
	n.bcR.ReceiveEnvelope(p2p.Envelope{ChannelID: BlockchainChannel, Src: p, Message: &bcproto.BlockResponse{Block: bp}})
}

func (n *c13Node) peerNum(id p2p.ID) int64 {
	if id == "" {
		return 0
	}
	for _, p := range n.peers {
		if p.ID() == id {
			return p.num
		}
	}
	return 99
}

func (n *c13Node) reqView(h int64) (int64, bool) {
	n.bcR.pool.mtx.Lock()
	defer n.bcR.pool.mtx.Unlock()
	r := n.bcR.pool.requesters[h]
	if r == nil {
		return -1, false
	}
	return n.peerNum(r.getPeerID()), r.getBlock() != nil
}

func (n *c13Node) stopped() []int64 {
	var xs []int64
	for _, p := range n.peers {
		if !p.IsRunning() {
			xs = append(xs, p.num)
		}
	}
	sort.Slice(xs, func(i, j int) bool { return xs[i] < xs[j] })
	return xs
}

// handover: consensus.NewState on the state the node saved and its block store (a restart)
func (n *c13Node) handover() (res uint64) {
	state, err := n.ex.stateStore.Load()
	if err != nil {
		return 1
	}
	defer func() {
		if r := recover(); r != nil {
			res = 1
		}
	}()
	consensus.NewState(cfg.TestConsensusConfig(), state, n.ex.blockExec, n.ex.blockStore, mpmock.Mempool{}, sm.EmptyEvidencePool{})
	return 0
}

// second builds the block after the j-th one on top of the world's state after j whose LastCommit is c
func (w *c13World) second(j int64, c *types.Commit) *types.Block {
	st := w.states[j]
	b, _ := st.MakeBlock(w.H(j)+1, c13Txs(j+1, 0), c, nil, st.Validators.GetProposer().Address)
	return b
}

// ------------------------------------------------------------------ direct calls

func c13Class(f func() error) (cls uint64, got, needed int64) {
	defer func() {
		if r := recover(); r != nil {
			cls, got, needed = 5, 0, 0
		}
	}()
	err := f()
	switch e := err.(type) {
	case nil:
		return 0, 0, 0
	case types.ErrInvalidCommitSignatures:
		return 1, 0, 0
	case types.ErrInvalidCommitHeight:
		return 2, 0, 0
	case types.ErrNotEnoughVotingPowerSigned:
		return 3, e.Got, e.Needed
	}
	return 4, 0, 0
}

func c13Rest(cls uint64, got, needed int64) string {
	return vg.Tup(vg.N(cls), vg.Z(got), vg.Z(needed))
}

func c13CTV(chain string, c *types.Commit, vals *types.ValidatorSet) (res uint64) {
	defer func() {
		if r := recover(); r != nil {
			res = 2
		}
	}()
	vs := types.CommitToVoteSet(chain, c, vals)
	if vs.HasTwoThirdsMajority() {
		return 0
	}
	return 1
}

// ------------------------------------------------------------------ TestVerifC13Step

var c13Worlds []*c13World

var c13Powers = [][]int64{{10, 10, 10, 10}, {40, 25, 20, 10, 5}, {7, 6, 5, 4, 3, 2, 1}}
var c13IHs = []int64{1, 2, 5, 1000}

// worlds 0..2: InitialHeight 1 with the three power vectors, constant validator set;
// 3..6: InitialHeight 2, 5, 1000, 1 with validator updates (a new strongest validator, removals,
// re-weightings that reorder the set; the set changes at positions 3 and 5 / 3 and 4 / 3, 4 and
// 5 / 4 and 5); thorough tier: constant sets for the remaining combinations and two more
// changing worlds
func c13GetWorlds() []*c13World {
	if c13Worlds == nil {
		for _, p := range c13Powers {
			c13Worlds = append(c13Worlds, c13BuildWorld(p, 1))
		}
		c13Worlds = append(c13Worlds,
			c13BuildWorld(c13Powers[0], 2, c13Upd{1, 4, 25}, c13Upd{3, 1, 0}, c13Upd{3, 3, 30}),
			c13BuildWorld(c13Powers[1], 5, c13Upd{1, 3, 0}, c13Upd{2, 4, 45}),
			c13BuildWorld(c13Powers[2], 1000, c13Upd{1, 7, 4}, c13Upd{2, 6, 8}, c13Upd{3, 0, 0}),
			c13BuildWorld(c13Powers[0], 1, c13Upd{2, 4, 25}, c13Upd{3, 0, 35}))
		if vg.Thorough() {
			for i, ih := range c13IHs[1:] {
				for d := 0; d < 3; d++ {
					c13Worlds = append(c13Worlds, c13BuildWorld(c13Powers[(i+d)%3], ih))
				}
			}
			c13Worlds = append(c13Worlds,
				c13BuildWorld(c13Powers[1], 1, c13Upd{1, 4, 30}, c13Upd{3, 0, 0}),
				c13BuildWorld(c13Powers[2], 2, c13Upd{2, 7, 9}, c13Upd{2, 3, 0}, c13Upd{4, 7, 0}))
		}
	}
	return c13Worlds
}

type c13StepCase struct {
	w          *c13World
	wi         int
	fh         int64  // index j of `first` (its height is w.H(fh))
	firstKind  string // canon | alt | bad
	commitKind string
	same       bool // one peer supplies both blocks
	c          *c13Commit
}

func c13GenStep(k int, r *vg.Rand) c13StepCase {
	ws := c13GetWorlds()
	sc := c13StepCase{wi: k % len(ws)}
	sc.w = ws[sc.wi]
	sc.fh = 1 + int64(r.Intn(4))
	sc.same = r.Intn(5) == 0
	// directed regression cases first (F7 classes and the address class), then the cycle
	directed := []string{"garbage-late-nil", "garbage-late-commit", "late-nil-flag-block-sig", "late-absent-to-garbage-nil", "foreign-addr", "genuine", "commit-other-partset"}
	sc.firstKind = "canon"
	switch {
	case k < len(directed)*len(ws):
		sc.commitKind = directed[k/len(ws)]
	default:
		sc.commitKind = c13CommitKinds[(k/len(ws))%len(c13CommitKinds)]
		switch r.Intn(8) {
		case 0:
			sc.firstKind = "alt"
		case 1:
			sc.firstKind = "bad"
		}
	}
	fid := sc.fh
	switch sc.firstKind {
	case "alt":
		// nobody committed the alt block: the commit is the genuine one of the canonical block,
		// or claims the alt id with the canonical block's signatures, or has one signer for alt
		fid = 100 + sc.fh
		switch r.Intn(3) {
		case 0:
			if sc.commitKind == "commit-other-block" { // would be a commit of everybody for the alt block
				sc.commitKind = "genuine"
			}
			sc.c = sc.w.mutate(sc.commitKind, sc.fh, sc.fh, r)
			sc.commitKind += "/for-canonical"
		case 1:
			sc.c = sc.w.genuine(sc.fh, sc.fh)
			sc.c.cb = fid
			sc.commitKind = "claims-alt-with-canonical-sigs"
		default:
			sc.c = sc.w.genuine(sc.fh, sc.fh)
			sc.c.cb = fid
			last := len(sc.w.sets[sc.fh]) - 1
			s := sc.c.slots[last]
			sc.c.slots[last] = c13Slot{flag: 2, addr: s.addr, ts: s.ts, kind: 'O', k: s.k,
				m: c13Msg{int64(tmproto.PrecommitType), 1, sc.w.H(sc.fh), 0, fid, s.ts}}
			sc.commitKind = "claims-alt-one-signer"
		}
	case "bad":
		// every validator signed a block that fails validation
		fid = 300 + sc.fh
		sc.c = sc.w.genuine(sc.fh, fid)
		sc.commitKind = "genuine-for-invalid-block"
	default:
		sc.c = sc.w.mutate(sc.commitKind, sc.fh, fid, r)
	}
	return sc
}

func (sc c13StepCase) first() (*types.Block, int64) {
	switch sc.firstKind {
	case "alt":
		return sc.w.alt[sc.fh], 100 + sc.fh
	case "bad":
		return sc.w.bad[sc.fh], 300 + sc.fh
	}
	return sc.w.blocks[sc.fh], sc.fh
}

func TestVerifC13Step(t *testing.T) {
	cs := vg.NewCases("C13", "c13_step", "TM.C13.Exec")
	root := vg.NewRand(vg.Seed())
	n := vg.Scale(210, 3000)
	for k := 0; k < n; k++ {
		id := cs.NextID()
		if !cs.Want(id) {
			continue
		}
		r := root.Fork(uint64(k))
		sc := c13GenStep(k, r)
		w := sc.w
		first, fid := sc.first()
		commit := w.realCommit(sc.c)
		second := w.second(sc.fh, commit)
		if _, err := types.BlockFromProto(c13Proto(second)); err != nil {
			// cannot travel: not a case for the reactor (counted)
			cs.Count("untransportable:"+sc.commitKind, 1)
			continue
		}
		fh := w.H(sc.fh) // height of first
		vals := w.states[sc.fh-1].Validators
		firstBID := w.bids[fid]
		lc, lg, ln := c13Class(func() error { return vals.Copy().VerifyCommitLight(c13Chain, firstBID, fh, commit) })
		fc, fg, fn := c13Class(func() error { return vals.Copy().VerifyCommit(c13Chain, firstBID, fh, commit) })
		ctv := c13CTV(c13Chain, commit, vals.Copy())

		node := c13NewNode(w, sc.fh-1)
		vok := node.ex.blockExec.ValidateBlock(w.states[sc.fh-1], first) == nil
		var p1, p2 *c13Peer
		if sc.same {
			p1 = node.connect(fh, fh+1)
			p2 = p1
		} else {
			p1 = node.connect(fh, fh)
			p2 = node.connect(fh+1, fh+1)
		}
		node.connect(fh+9, fh+9) // silent, keeps the node from declaring itself caught up
		deadline := time.Now().Add(4 * time.Second)
		saved := false
		for time.Now().Before(deadline) {
			select {
			case rq := <-node.reqCh:
				switch {
				case rq.p == p1 && rq.height == fh:
					node.deliver(p1, first)
				case rq.p == p2 && rq.height == fh+1:
					node.deliver(p2, second)
				}
				continue
			case <-time.After(3 * time.Millisecond):
			}
			if node.ex.blockStore.Height() >= fh {
				saved = true
				break
			}
			if !p1.IsRunning() && !p2.IsRunning() {
				break
			}
		}
		time.Sleep(40 * time.Millisecond) // let requesters take their redo
		storedOK := false
		if saved {
			// wait for ApplyBlock to have saved the state
			for i := 0; i < 200; i++ {
				if st, err := node.ex.stateStore.Load(); err == nil && st.LastBlockHeight >= fh {
					break
				}
				time.Sleep(5 * time.Millisecond)
			}
			if m := node.ex.blockStore.LoadBlockMeta(fh); m != nil && m.BlockID.Equals(firstBID) {
				storedOK = true
			}
		}
		// the whole BlockID (hash + part-set header) of what was stored for first.Height: block
		// meta, seen commit, and the LastBlockID of the state saved after executing it (-1 = none)
		mid, sid, lid := int64(-1), int64(-1), int64(-1)
		if saved {
			if m := node.ex.blockStore.LoadBlockMeta(fh); m != nil {
				mid = w.idOf(m.BlockID)
			}
			if c := node.ex.blockStore.LoadSeenCommit(fh); c != nil {
				sid = w.idOf(c.BlockID)
			}
			if st, err := node.ex.stateStore.Load(); err == nil && st.LastBlockHeight == fh {
				lid = w.idOf(st.LastBlockID)
			}
		}
		ph, _, _ := node.bcR.pool.GetStatus()
		stopped := node.stopped()
		r1p, r1b := node.reqView(fh)
		r2p, r2b := node.reqView(fh + 1)
		ho := uint64(2)
		hob := c13HandObs{sres: 2, hs: -1, height: -1, lcc: 3}
		if !node.startOK {
			hob.sres = 3
		}
		if saved {
			node.bcR.Stop() //nolint:errcheck
			// the hand-over poolRoutine performs once the pool is caught up, on the real
			// consensus reactor built at node start; then what a restart does
			hob = node.observe(node.switchNow(true))
			ho = node.handover()
		}
		node.close()

		cm, base, sigs := sc.c.terms()
		term := vg.App("CStep", w.valsTerm(sc.fh), vg.Z(1), vg.Z(w.lastH(sc.fh-1)),
			vg.Tup(vg.Z(fh), vg.Z(fid), vg.B(vok)), vg.Z(sc.fh), cm, base, sigs,
			vg.Z(p1.num), vg.Z(p2.num),
			vg.Tup(c13Rest(lc, lg, ln), c13Rest(fc, fg, fn), vg.N(ctv)),
			vg.Tup(vg.B(saved && storedOK), vg.Z(ph), vg.ZL(stopped), vg.Tup(vg.Z(r1p), vg.B(r1b)),
				vg.Tup(vg.Z(r2p), vg.B(r2b)), vg.N(ho)),
			vg.Tup(vg.Z(w.ih), vg.N(hob.sres), vg.Z(hob.height), vg.N(hob.lcc)),
			vg.Tup(vg.Z(mid), vg.Z(sid), vg.Z(lid)))
		descr := fmt.Sprintf("world %d (%v, chain %q, InitialHeight %d), node has applied the first %d blocks (State.LastBlockHeight %d). Peer %d answers the request for height %d with the %s block (id %d, ValidateBlock ok=%v); peer %d answers the request for height %d with a block whose LastCommit is [%s] %s. "+
			"Direct calls on that commit: VerifyCommitLight class %d, VerifyCommit class %d, CommitToVoteSet %d (0 ok,1 no +2/3,2 panic). Observed: block stored=%v (whole block ids: block meta %d, seen commit %d, State.LastBlockID %d; -1 none, 999 unknown), pool.height=%d, peers stopped=%v, requester[%d]=(peer %d, block %v), requester[%d]=(peer %d, block %v); "+
			"consensus Reactor.SwitchToConsensus(state after the step, true) on the consensus state built at node start=%d (0 returned,1 panicked,2 not run,3 NewState at start panicked) %q, consensus height afterwards %d, LastCommit class %d (0 nil,1 = stored seen commit,2 other,3 n/a); consensus.NewState on the result=%d (0 ok,1 panic,2 not run)",
			sc.wi, w, c13Chain, w.ih, sc.fh-1, w.lastH(sc.fh-1), p1.num, fh, sc.firstKind, fid, vok, p2.num, fh+1, sc.commitKind, sc.c.descr(),
			lc, fc, ctv, saved && storedOK, mid, sid, lid, ph, stopped, fh, r1p, r1b, fh+1, r2p, r2b, hob.sres, hob.msg, hob.height, hob.lcc, ho)
		cs.Add(id, "step:"+sc.firstKind+":"+strings.SplitN(sc.commitKind, "/", 2)[0], sc.commitKind != "genuine", term, descr)
	}
	if err := cs.Write(); err != nil {
		t.Fatal(err)
	}
}

func c13Proto(b *types.Block) *tmproto.Block {
	bp, err := b.ToProto()
	if err != nil {
		panic(err)
	}
	return bp
}

// ------------------------------------------------------------------ scenarios

// scripts: 0 honest; 1 serves the never-committed alt block at even positions j; 2 serves blocks
// whose LastCommit has a garbage signature in slot 0; 3 serves the block at its own announced top
// with a LastCommit whose last slot is a nil vote with a garbage signature (the rest genuine:
// F7); 4 answers every request with a block 150 heights ahead; 5 sends every block twice; 6
// serves the block at its own announced top with a LastCommit in which one slot carries a
// foreign address (all signatures genuine: known class 31); 7 serves the block at its own announced
// top with a LastCommit in which everybody signed (hash of the canonical block, a part-set header
// that is not the block's); 8..13 answer their own requests honestly and PUSH an unsolicited
// BlockResponse for every height the node requests from another peer — 8/9/10 just before that
// peer answers, 11/12/13 just after — carrying the genuine block (8, 11), the never-committed alt
// block (9, 12) or a block with a garbage signature in its LastCommit (10, 13): AddBlock must
// refuse it and report the pusher ("invalid peer"), which gets it stopped.
// 14..18 lie in their StatusResponse: they announce a top 40 heights above the chain and, at the
// first BlockRequest they receive, 14 stay silent (the peer timeout removes them), 15 close the
// connection, 16 send a second StatusResponse with their spec'd top and stay silent, 17 send it
// and close the connection, 18 send it and answer honestly from then on.  14 and 15 are handled
// by the code as it is (removePeer recomputes maxPeerHeight when the peer's height IS the
// maximum); 16..18 leave pool.maxPeerHeight at the phantom height (finding F79) and are
// generated only with VERIF_C13_F79=1 until the repair is in the repository.
// base, height, start, tip are positions j in the world's chain (height ih+j-1).
type c13PeerSpec struct {
	script       uint64
	base, height int64
}

type c13Scen struct {
	name  string
	wi    int
	start int64 // blocks the node has applied and stored at start
	tip   int64 // top announced by the honest peers
	peers []c13PeerSpec
}

var c13ScriptNames = []string{"honest", "alt-block", "forged-commit", "padded-tip-commit", "far-height", "twice", "foreign-address-tip-commit",
	"other-partset-tip-commit", "push-genuine-before", "push-alt-before", "push-forged-before", "push-genuine-after", "push-alt-after", "push-forged-after",
	"status-huge-silent", "status-huge-disconnect", "status-huge-lower-silent", "status-huge-lower-disconnect", "status-huge-lower-honest"}

// c13F79: generate the scenarios that need the repair of finding F79 (REMOVE THIS GATE once
// fixes/F79-blockpool-max-peer-height-follows-peers.diff is applied to the repository)
func c13F79() bool { return true } // regression cases of finding F79 (repaired in /repo)

const c13Phantom = 40 // how far above the chain a status liar's first announcement is

func c13Scenarios(r *vg.Rand, n int) []c13Scen {
	L := c13L
	ss := []c13Scen{
		{"honest-only", 0, 0, L, []c13PeerSpec{{0, 1, L}}},
		{"padded-tip-commit", 0, 0, L - 1, []c13PeerSpec{{0, 1, L - 1}, {0, 1, L - 1}, {3, L, L}}},
		{"foreign-address-tip-commit", 1, 0, L - 1, []c13PeerSpec{{0, 1, L - 1}, {0, 1, L - 1}, {6, L, L}}},
		{"alt-block", 1, 0, L, []c13PeerSpec{{1, 1, L}, {0, 1, L}, {0, 1, L}}},
		{"forged-commit", 0, 0, L, []c13PeerSpec{{2, 1, L}, {0, 1, L}, {0, 1, L}, {0, 1, L}}},
		{"far-height", 2, 0, L, []c13PeerSpec{{4, 1, L}, {0, 1, L}}},
		{"twice", 0, 1, L, []c13PeerSpec{{5, 1, L}, {0, 1, L}, {0, 1, L}}},
		{"mix-from-2", 1, 2, L, []c13PeerSpec{{1, 1, 4}, {2, 3, L}, {0, 1, L}, {0, 1, L}, {0, 1, L}}},
		{"forged-commit-second-only", 2, 0, L, []c13PeerSpec{{2, 3, 3}, {0, 1, 2}, {0, 1, 2}, {0, 1, L}}},
		{"other-partset-tip-commit", 0, 0, L - 1, []c13PeerSpec{{0, 1, L - 1}, {0, 1, L - 1}, {7, L, L}}},
		{"push-genuine-before", 1, 0, L, []c13PeerSpec{{8, 1, L}, {0, 1, L}, {0, 1, L}}},
		{"push-alt-before", 2, 0, L, []c13PeerSpec{{9, 1, L}, {0, 1, L}, {0, 1, L}}},
		{"push-forged-before", 0, 1, L, []c13PeerSpec{{10, 1, L}, {0, 1, L}, {0, 1, L}}},
		{"push-genuine-after", 1, 0, L, []c13PeerSpec{{11, 1, L}, {0, 1, L}, {0, 1, L}}},
		{"push-alt-after", 2, 2, L, []c13PeerSpec{{12, 1, L}, {0, 1, L}, {0, 1, L}}},
		{"push-forged-after", 0, 0, L, []c13PeerSpec{{13, 1, L}, {0, 1, L}, {0, 1, L}}},
		{"status-huge-silent", 1, 0, L, []c13PeerSpec{{14, 1, L}, {0, 1, L}}},
		{"status-huge-disconnect", 2, 1, L, []c13PeerSpec{{15, 1, L}, {0, 1, L}}},
	}
	if c13F79() {
		ss = append(ss,
			c13Scen{"status-huge-lower-silent", 0, 0, L, []c13PeerSpec{{16, 1, 2}, {0, 1, L}}},
			c13Scen{"status-huge-lower-disconnect", 1, 0, L, []c13PeerSpec{{17, 1, L}, {0, 1, L}}},
			c13Scen{"status-huge-lower-honest", 2, 1, L, []c13PeerSpec{{18, 1, L}, {0, 1, L}}})
	}
	n += len(ss) - 16 // the count asked for is on top of the directed scenarios beyond the first 16
	nw := len(c13GetWorlds())
	for len(ss) < n {
		k := len(ss)
		sc := c13Scen{name: fmt.Sprintf("random-%d", k), wi: r.Intn(nw), start: int64(r.Intn(3)), tip: L}
		np := 3 + r.Intn(3)
		for i := 0; i < np; i++ {
			s := uint64(0)
			if i < np-2 && r.Intn(3) != 0 { // liars connect first, at least two honest peers
				s = []uint64{1, 2, 4, 5, 8, 9, 10, 11, 12, 13}[r.Intn(10)]
			}
			sc.peers = append(sc.peers, c13PeerSpec{s, 1, L})
		}
		ss = append(ss, sc)
	}
	return ss[:n]
}

// the boundaries of the hand-over, for world wi: a fresh node syncing 0, 1, 2, 3 blocks (honest
// tip at position 1..4: the node applies a block only when it has the next one), a restarted
// node syncing 0, 1, 2 blocks, and the lying-peer scripts placed at these boundaries
func c13HandScenarios(wi int) []c13Scen {
	h2 := func(t int64) []c13PeerSpec { return []c13PeerSpec{{0, 1, t}, {0, 1, t}} }
	with := func(liar c13PeerSpec, t int64, honest int) []c13PeerSpec {
		ps := []c13PeerSpec{liar}
		for i := 0; i < honest; i++ {
			ps = append(ps, c13PeerSpec{0, 1, t})
		}
		return ps
	}
	ss := []c13Scen{
		{"fresh-sync0", wi, 0, 1, h2(1)},
		{"fresh-sync1", wi, 0, 2, h2(2)},
		{"fresh-sync2", wi, 0, 3, h2(3)},
		{"fresh-sync3", wi, 0, 4, h2(4)},
		{"restart1-sync0", wi, 1, 2, h2(2)},
		{"restart1-sync1", wi, 1, 3, h2(3)},
		{"restart2-sync1", wi, 2, 4, h2(4)},
		{"restart2-sync2", wi, 2, 5, h2(5)},
		{"fresh-foreign-at-2", wi, 0, 1, with(c13PeerSpec{6, 2, 2}, 1, 2)},
		{"fresh-padded-at-2", wi, 0, 1, with(c13PeerSpec{3, 2, 2}, 1, 2)},
		{"fresh-padded-at-3", wi, 0, 2, with(c13PeerSpec{3, 3, 3}, 2, 2)},
		{"fresh-foreign-at-3", wi, 0, 2, with(c13PeerSpec{6, 3, 3}, 2, 2)},
		{"fresh-alt-tip3", wi, 0, 3, with(c13PeerSpec{1, 1, 3}, 3, 2)},
		{"fresh-forged-tip2", wi, 0, 2, with(c13PeerSpec{2, 1, 2}, 2, 3)},
		{"restart1-padded-at-3", wi, 1, 2, with(c13PeerSpec{3, 3, 3}, 2, 2)},
		{"restart1-foreign-at-3", wi, 1, 2, with(c13PeerSpec{6, 3, 3}, 2, 2)},
		{"fresh-otherpartset-at-3", wi, 0, 2, with(c13PeerSpec{7, 3, 3}, 2, 2)},
		{"fresh-push-alt-tip3", wi, 0, 3, with(c13PeerSpec{9, 1, 3}, 3, 2)},
		{"restart1-push-genuine-tip4", wi, 1, 4, with(c13PeerSpec{8, 1, 4}, 4, 2)},
		{"fresh-status-huge-disconnect-tip3", wi, 0, 3, with(c13PeerSpec{15, 1, 3}, 3, 1)},
	}
	if c13F79() {
		ss = append(ss,
			c13Scen{"fresh-status-huge-lower-disconnect-tip3", wi, 0, 3, with(c13PeerSpec{17, 1, 3}, 3, 1)},
			c13Scen{"restart1-status-huge-lower-honest-tip4", wi, 1, 4, with(c13PeerSpec{18, 1, 4}, 4, 1)})
	}
	if len(c13GetWorlds()[wi].upds) > 0 {
		// the world changes its validator set at some of the positions 3, 4, 5: hand-overs at,
		// one before and one after every such position, by a fresh and by a restarted node
		ss = append(ss,
			c13Scen{"fresh-sync4", wi, 0, 5, h2(5)},
			c13Scen{"fresh-sync5", wi, 0, 6, h2(6)},
			c13Scen{"restart2-sync0", wi, 2, 3, h2(3)},
			c13Scen{"restart3-sync0", wi, 3, 4, h2(4)},
			c13Scen{"restart3-sync1", wi, 3, 5, h2(5)},
			c13Scen{"restart4-sync0", wi, 4, 5, h2(5)},
			c13Scen{"restart4-sync1", wi, 4, 6, h2(6)},
			c13Scen{"fresh-foreign-at-4", wi, 0, 3, with(c13PeerSpec{6, 4, 4}, 3, 2)},
			c13Scen{"fresh-padded-at-5", wi, 0, 4, with(c13PeerSpec{3, 5, 5}, 4, 2)},
			c13Scen{"restart2-foreign-at-4", wi, 2, 3, with(c13PeerSpec{6, 4, 4}, 3, 2)},
			c13Scen{"restart3-padded-at-5", wi, 3, 4, with(c13PeerSpec{3, 5, 5}, 4, 2)})
	}
	return ss
}

type c13ScenResult struct {
	stored    []int64 // ids in the store, positions 1..
	switched  bool
	ho        uint64 // consensus.NewState on the result: 0 ok, 1 panic, 2 not run
	seenClass uint64
	nbad      int64
	used      []bool
	stopped   []bool
	journal   []string
	hob       c13HandObs
	startOK   bool
	h0, h1    int64      // State.LastBlockHeight at node start / of the state the node saved last (= top of its block store)
	seen0     *c13Commit // how the seen commits stored for h0 / h1 were made (nil: height 0 or unknown)
	seen1     *c13Commit
	verified  bool
	reqs      string // the pool's next requesters when the sync ended (diagnostic only)
	// the pool when the sync ended: pool.height, the heights its peers report (sorted),
	// IsCaughtUp(), maxPeerHeight
	poolH, poolMax int64
	poolPeers      []int64
	caughtUp       bool
}

func c13RunScen(sc c13Scen, r *vg.Rand) *c13ScenResult {
	w := c13GetWorlds()[sc.wi]
	node := c13NewNode(w, sc.start)
	L := c13L
	res := &c13ScenResult{startOK: node.startOK, h0: node.startH}
	var foreign *c13Commit
	var foreignReal *types.Commit
	top := int64(0)
	for _, ps := range sc.peers {
		if ps.script >= 14 {
			node.connect(w.H(1), w.H(L)+c13Phantom) // the status lie
		} else {
			node.connect(w.H(ps.base), w.H(ps.height))
		}
		if ps.height > top {
			top = ps.height
		}
	}
	used := make([]bool, len(sc.peers))
	acted := make([]bool, len(sc.peers))
	// the status liars: what they do at the first request they receive; true = handled here
	statusLiar := func(rq c13Req) bool {
		i := int(rq.p.num - 1)
		ps := sc.peers[i]
		if ps.script < 14 {
			return false
		}
		if !acted[i] {
			acted[i] = true
			what := "stays silent"
			if ps.script >= 16 {
				node.status(rq.p, w.H(ps.base), w.H(ps.height))
				what = fmt.Sprintf("sends StatusResponse [%d,%d]", w.H(ps.base), w.H(ps.height))
				if ps.script == 16 {
					what += " and stays silent"
				}
			}
			if ps.script == 15 || ps.script == 17 {
				node.disconnect(rq.p)
				what += ", closes the connection"
			}
			res.journal = append(res.journal, fmt.Sprintf("peer %d (announced top %d): asked for height %d, %s", rq.p.num, w.H(L)+c13Phantom, rq.height, what))
		}
		return ps.script != 18 // 18 answers honestly after its second status
	}
	answer := func(rq c13Req) {
		i := int(rq.p.num - 1)
		ps, j := sc.peers[i], w.J(rq.height)
		if j < 1 || j > L || !rq.p.IsRunning() {
			return
		}
		accepted := func(b *types.Block) bool {
			pn, has := node.reqView(b.Height)
			return has && pn == rq.p.num
		}
		switch ps.script {
		case 0:
			node.deliver(rq.p, w.blocks[j])
		case 1:
			if j%2 == 0 {
				node.deliver(rq.p, w.alt[j])
				// an alt block at the very top only ever serves as "second" of the last pair; its
				// LastCommit is the genuine commit of the block before, so nothing the node can
				// check distinguishes it from the canonical block, and it is never stored: not a
				// bad answer the node could have acted on
				if accepted(w.alt[j]) && j < top {
					used[i] = true
					res.nbad++
					res.journal = append(res.journal, fmt.Sprintf("peer %d: alt block for height %d", rq.p.num, rq.height))
				}
			} else {
				node.deliver(rq.p, w.blocks[j])
			}
		case 2:
			if j >= 2 {
				b := w.second(j-1, w.realCommit(w.mutate("garbage-early", j-1, j-1, r)))
				node.deliver(rq.p, b)
				// the forged LastCommit is looked at when the block is `second` of a processed
				// pair (its predecessor is not stored yet) or `first` of one (ValidateBlock; it
				// is not the top block): otherwise the node never examines this answer
				if accepted(b) && (j-1 > sc.start || j < top) {
					used[i] = true
					res.nbad++
					res.journal = append(res.journal, fmt.Sprintf("peer %d: block %d with garbage signature in its LastCommit", rq.p.num, rq.height))
				}
			} else {
				node.deliver(rq.p, w.blocks[j])
			}
		case 3:
			if j == ps.height && j >= 2 {
				b := w.second(j-1, w.realCommit(w.mutate("garbage-late-nil", j-1, j-1, r)))
				node.deliver(rq.p, b)
				if accepted(b) {
					used[i] = true
					res.nbad++
					res.journal = append(res.journal, fmt.Sprintf("peer %d: top block %d whose LastCommit has a garbage nil-vote slot", rq.p.num, rq.height))
				}
			} else {
				node.deliver(rq.p, w.blocks[j])
			}
		case 4:
			st := w.states[1]
			b, _ := st.MakeBlock(rq.height+150, c13Txs(j, 3), w.commits[1], nil, st.Validators.GetProposer().Address)
			node.deliver(rq.p, b)
			used[i] = true
			res.journal = append(res.journal, fmt.Sprintf("peer %d: block of height %d for request %d", rq.p.num, rq.height+150, rq.height))
		case 5:
			node.deliver(rq.p, w.blocks[j])
			before := accepted(w.blocks[j])
			node.deliver(rq.p, w.blocks[j])
			if pn, _ := node.reqView(rq.height); before && pn != -1 {
				used[i] = true
				res.journal = append(res.journal, fmt.Sprintf("peer %d: block %d twice", rq.p.num, rq.height))
			}
		case 6:
			if j == ps.height && j >= 2 {
				foreign = w.mutate("foreign-addr", j-1, j-1, r)
				foreignReal = w.realCommit(foreign)
				node.deliver(rq.p, w.second(j-1, foreignReal))
				res.journal = append(res.journal, fmt.Sprintf("peer %d: top block %d whose LastCommit has a foreign address in one slot", rq.p.num, rq.height))
			} else {
				node.deliver(rq.p, w.blocks[j])
			}
		case 7:
			if j == ps.height && j >= 2 {
				b := w.second(j-1, w.realCommit(w.mutate("commit-other-partset", j-1, j-1, r)))
				node.deliver(rq.p, b)
				if accepted(b) {
					used[i] = true
					res.nbad++
					res.journal = append(res.journal, fmt.Sprintf("peer %d: top block %d whose LastCommit is signed over the right hash with another part-set header", rq.p.num, rq.height))
				}
			} else {
				node.deliver(rq.p, w.blocks[j])
			}
		default: // the pushers (and 18 after its second status) answer their own requests honestly
			node.deliver(rq.p, w.blocks[j])
		}
	}
	// the pushers: an unsolicited BlockResponse for the height just requested from somebody else
	push := func(rq c13Req, after bool) {
		j := w.J(rq.height)
		if j < 1 || j > L {
			return
		}
		for pi, ps := range sc.peers {
			if ps.script < 8 || (ps.script >= 11) != after {
				continue
			}
			pp := node.peers[pi]
			if pp == rq.p || !pp.IsRunning() {
				continue
			}
			if pn, _ := node.reqView(rq.height); pn == -1 || pn == pp.num {
				continue // no such request (any more), or it is the pusher's own
			}
			b, what := w.blocks[j], "the genuine block"
			switch (ps.script - 8) % 3 {
			case 1:
				b, what = w.alt[j], "the alt block"
			case 2:
				if j >= 2 {
					b, what = w.second(j-1, w.realCommit(w.mutate("garbage-early", j-1, j-1, r))), "a block with a garbage signature in its LastCommit"
				} else {
					b, what = w.alt[j], "the alt block"
				}
			}
			node.deliver(pp, b)
			// the request still exists and is somebody else's: AddBlock saw it and must have
			// refused and reported the pusher
			if pn, _ := node.reqView(rq.height); pn != -1 && pn != pp.num {
				used[pi] = true
				res.journal = append(res.journal, fmt.Sprintf("peer %d: pushed %s for height %d (requested from peer %d)", pp.num, what, rq.height, rq.p.num))
			}
		}
	}
	serve := func(rq c13Req) {
		if statusLiar(rq) {
			return
		}
		push(rq, false)
		answer(rq)
		push(rq, true)
	}
	deadline := time.Now().Add(time.Duration(vg.Scale(8, 12)) * time.Second)
	var swres *c13Switch
LOOP:
	for time.Now().Before(deadline) {
		var batch []c13Req
		select {
		case x := <-node.switchCh:
			res.switched = true
			swres = &x
			break LOOP
		case rq := <-node.reqCh:
			batch = append(batch, rq)
		case <-time.After(2 * time.Millisecond):
		}
	DRAIN:
		for {
			select {
			case rq := <-node.reqCh:
				batch = append(batch, rq)
			default:
				break DRAIN
			}
		}
		for _, j := range r.Perm(len(batch)) {
			serve(batch[j])
		}
	}
	// the consensus state right after the blockchain reactor's own SwitchToConsensus
	res.hob = node.observe(swres)
	ph, _, _ := node.bcR.pool.GetStatus()
	for h := ph; h < ph+3; h++ {
		pn, has := node.reqView(h)
		res.reqs += fmt.Sprintf(" %d:(peer %d, block %v)", h, pn, has)
	}
	pool := node.bcR.pool
	pool.mtx.Lock()
	res.poolH, res.poolMax = pool.height, pool.maxPeerHeight
	for _, bp := range pool.peers {
		res.poolPeers = append(res.poolPeers, bp.height)
	}
	pool.mtx.Unlock()
	sort.Slice(res.poolPeers, func(a, b int) bool { return res.poolPeers[a] < res.poolPeers[b] })
	res.caughtUp = pool.IsCaughtUp()
	node.bcR.Stop() //nolint:errcheck
	time.Sleep(20 * time.Millisecond)
	hh := node.ex.blockStore.Height()
	for j := int64(1); w.H(j) <= hh; j++ {
		// the id of what is stored at this position: the whole BlockID (hash + part-set header)
		// of the block meta, which the stored seen commit must carry too (999 otherwise)
		m := node.ex.blockStore.LoadBlockMeta(w.H(j))
		c := node.ex.blockStore.LoadSeenCommit(w.H(j))
		x := int64(999)
		if m != nil && c != nil && c.BlockID.Equals(m.BlockID) {
			x = w.idOf(m.BlockID)
		}
		res.stored = append(res.stored, x)
	}
	res.ho = 2
	res.h1 = res.h0
	if hh > w.lastH(sc.start) {
		// wait for the state of the last stored block
		for i := 0; i < 200; i++ {
			if st, err := node.ex.stateStore.Load(); err == nil && st.LastBlockHeight >= hh {
				break
			}
			time.Sleep(5 * time.Millisecond)
		}
		res.ho = node.handover()
		seen := node.ex.blockStore.LoadSeenCommit(hh)
		switch {
		case seen != nil && string(seen.Hash()) == string(w.commits[w.J(hh)].Hash()):
			res.seenClass = 0
		case seen != nil && foreignReal != nil && string(seen.Hash()) == string(foreignReal.Hash()):
			res.seenClass = 1
		default:
			res.seenClass = 2
		}
	}
	if st, err := node.ex.stateStore.Load(); err == nil {
		res.h1 = st.LastBlockHeight
	}
	if sc.start > 0 {
		res.seen0 = w.genuine(sc.start, sc.start)
	}
	if res.h1 > 0 {
		j1 := w.J(res.h1)
		seen := node.ex.blockStore.LoadSeenCommit(res.h1)
		switch {
		case seen != nil && j1 >= 1 && j1 <= L && string(seen.Hash()) == string(w.commits[j1].Hash()):
			res.seen1 = w.genuine(j1, j1)
		case seen != nil && foreignReal != nil && string(seen.Hash()) == string(foreignReal.Hash()):
			res.seen1 = foreign
		}
	}
	res.verified = true
	for j := sc.start + 1; w.H(j) <= hh; j++ {
		m := node.ex.blockStore.LoadBlockMeta(w.H(j))
		if j > L || m == nil || !m.BlockID.Equals(w.ids[j]) || !w.c13VerifySeen(j, node.ex.blockStore.LoadSeenCommit(w.H(j))) {
			res.verified = false
		}
	}
	for i := range sc.peers {
		res.stopped = append(res.stopped, !node.peers[i].IsRunning())
	}
	res.used = used
	node.close()
	return res
}

func (sc c13Scen) descr(w *c13World, res *c13ScenResult, stream int) string {
	var pds []string
	for i, ps := range sc.peers {
		pds = append(pds, fmt.Sprintf("peer %d %s announces heights [%d,%d] stopped=%v bad-answer-used=%v", i+1, c13ScriptNames[ps.script],
			w.H(ps.base), w.H(ps.height), res.stopped[i], res.used[i]))
	}
	return fmt.Sprintf("scenario %s: world %d (%v, InitialHeight %d), node starts with the first %d blocks (State.LastBlockHeight %d, consensus.NewState at start ok=%v); %s; responses in PRNG order (stream %d). Bad answers that entered a requester: %v. "+
		"Observed: stored ids by position %v, saved State.LastBlockHeight %d, SwitchToConsensus called by the blockchain reactor=%v with state.LastBlockHeight=%d (-1 = no call) skipWAL=%v -> %d (0 returned,1 panicked,2 not called,3 NewState at start panicked) %q, consensus height afterwards %d, LastCommit class %d (0 nil,1 = stored seen commit,2 other,3 n/a), running=%v; "+
		"consensus.NewState on the result=%d (0 ok,1 panic,2 not run), seen commit of last block class %d, every stored block and seen commit verified by the harness=%v; pool at the end: height %d, heights its peers report %v, maxPeerHeight %d, IsCaughtUp()=%v; pool requesters at the end (height:(peer, has block), peer -1 = none)%s",
		sc.name, sc.wi, w, w.ih, sc.start, res.h0, res.startOK, strings.Join(pds, "; "), stream, res.journal,
		res.stored, res.h1, res.switched, res.hob.hs, res.hob.skipWAL, res.hob.sres, res.hob.msg, res.hob.height, res.hob.lcc, res.hob.running,
		res.ho, res.seenClass, res.verified, res.poolH, res.poolPeers, res.poolMax, res.caughtUp, res.reqs)
}

func (sc c13Scen) scenTerm(res *c13ScenResult) string {
	var canon, pts []string
	for j := int64(1); j <= c13L; j++ {
		canon = append(canon, vg.Z(j))
	}
	for i, ps := range sc.peers {
		pts = append(pts, vg.Tup(vg.Z(int64(i+1)), vg.N(ps.script), vg.B(res.stopped[i]), vg.B(res.used[i])))
	}
	ho := res.ho
	if res.hob.sres == 1 || res.hob.sres == 3 { // the real switch failed
		ho = 1
	}
	tip, _ := sc.effTip(res)
	return vg.App("CScen", vg.L(canon), vg.Z(sc.start), vg.ZL(res.stored), vg.Z(tip), vg.L(pts), vg.Z(res.nbad),
		vg.B(res.switched), vg.N(ho), vg.N(res.seenClass),
		vg.Tup(vg.Z(res.poolH), vg.ZL(res.poolPeers), vg.B(res.caughtUp), vg.Z(res.poolMax)))
}

// effTip: the tip the node can be expected to reach: the top of the honest peers that stayed
// connected (sc.tip when their tops are all the same, as in every scenario but
// forged-commit-second-only, where the only honest peer above position 2 may be the one honest
// supplier a rejected pair costs); honestLeft: there is such a peer
func (sc c13Scen) effTip(res *c13ScenResult) (tip int64, honestLeft bool) {
	for i, ps := range sc.peers {
		if ps.script == 0 && !res.stopped[i] {
			honestLeft = true
			if ps.height > tip {
				tip = ps.height
			}
		}
	}
	if tip == 0 {
		tip = sc.tip
	}
	return tip, honestLeft
}

// shortfall: what clause 8 forbids (an honest peer stayed, yet the node did not store every
// block below its top and switch)
func (sc c13Scen) shortfall(res *c13ScenResult) bool {
	tip, left := sc.effTip(res)
	return left && !(res.switched && int64(len(res.stored)) >= tip-1)
}

func c13CommitOpt(c *c13Commit) string {
	if c == nil {
		return "None"
	}
	cm, base, sigs := c.terms()
	return vg.Opt(true, vg.Tup(cm, base, sigs))
}

func (sc c13Scen) handTerm(w *c13World, res *c13ScenResult) string {
	start, sres := uint64(0), res.hob.sres
	if !res.startOK {
		start, sres = 1, 2
	}
	// (LastValidators, Validators) of the state at h0 and at h1
	pair := func(h int64) string {
		j := int64(0)
		if h > 0 {
			j = w.J(h)
		}
		return vg.Tup(w.valsTerm(j), w.valsTerm(j+1))
	}
	return vg.App("CHand", pair(res.h0), pair(res.h1), vg.Z(1), vg.Z(w.ih), vg.Z(res.h0), vg.Z(res.h1),
		c13CommitOpt(res.seen0), c13CommitOpt(res.seen1), vg.B(res.verified),
		vg.Tup(vg.N(start), vg.N(sres), vg.Z(res.hob.hs), vg.Z(res.hob.height), vg.N(res.hob.lcc), vg.B(res.hob.running), vg.N(res.ho)))
}

// runs the wanted scenarios (par at a time; each mostly waits for the reactor's 1 s switch ticker).
// A scenario is a function of (seed, scripts) only up to goroutine scheduling: the pool is caught
// up as soon as pool.height >= maxPeerHeight-1, so a switch tick that falls between a rejected
// pair and the arrival of the re-requested blocks ends the sync one block early (seen once in
// ~2000 scenario runs, under load).  A clause-8 shortfall — and nothing else — is therefore run
// a second time on the same PRNG stream: it is reported if it happens again; if not, the second
// run is the case and the first outcome is kept as a note in the evidence.
func c13RunAll(scens []c13Scen, root *vg.Rand, streamBase int, want func(k int) bool, par int) ([]*c13ScenResult, []string) {
	c13GetWorlds()
	out := make([]*c13ScenResult, len(scens))
	sem := make(chan struct{}, par)
	var wg sync.WaitGroup
	var nmtx sync.Mutex
	var notes []string
	for k := range scens {
		if !want(k) {
			continue
		}
		wg.Add(1)
		go func(k int) {
			defer wg.Done()
			sem <- struct{}{}
			defer func() { <-sem }()
			out[k] = c13RunScen(scens[k], root.Fork(uint64(streamBase+k)))
			if scens[k].shortfall(out[k]) {
				again := c13RunScen(scens[k], root.Fork(uint64(streamBase+k)))
				if !scens[k].shortfall(again) {
					nmtx.Lock()
					notes = append(notes, "timing-dependent outcome, not reproduced on the same stream: "+
						scens[k].descr(c13GetWorlds()[scens[k].wi], out[k], streamBase+k))
					nmtx.Unlock()
					out[k] = again
				}
			}
		}(k)
	}
	wg.Wait()
	sort.Strings(notes)
	return out, notes
}

func TestVerifC13Scenario(t *testing.T) {
	cs := vg.NewCases("C13", "c13_scen", "TM.C13.Exec")
	root := vg.NewRand(vg.Seed())
	defer c13ShortPeerTimeout()()
	scens := c13Scenarios(root.Fork(999), vg.Scale(16, 140))
	ids := make([]int, len(scens))
	for k := range scens {
		ids[k] = cs.NextID()
	}
	results, notes := c13RunAll(scens, root, 1000, func(k int) bool { return cs.Want(ids[k]) }, 6)
	cs.Notes = append(cs.Notes, notes...)
	if len(notes) > 0 {
		cs.Count("scen:rerun-after-timing-dependent-shortfall", len(notes))
	}
	for k, sc := range scens {
		res := results[k]
		if res == nil {
			continue
		}
		w := c13GetWorlds()[sc.wi]
		cs.Add(ids[k], "scen:"+strings.SplitN(sc.name, "-", 2)[0], len(sc.peers) > 1, sc.scenTerm(res), sc.descr(w, res, 1000+k))
	}
	if err := cs.Write(); err != nil {
		t.Fatal(err)
	}
}

// ------------------------------------------------------------------ TestVerifC13Handover

// the scenarios run with a peer timeout of 2 s instead of 15 s (a package variable meant to be
// overridden by tests): a silent peer with pending requests is removed after that time
func c13ShortPeerTimeout() func() {
	old := peerTimeout
	peerTimeout = 2 * time.Second
	return func() { peerTimeout = old }
}

func TestVerifC13Handover(t *testing.T) {
	defer c13ShortPeerTimeout()()
	cs := vg.NewCases("C13", "c13_hand", "TM.C13.Exec")
	root := vg.NewRand(vg.Seed())
	ws := c13GetWorlds()
	var scens []c13Scen
	for wi := range ws {
		if !vg.Thorough() && wi != 0 && wi < 3 { // quick: one world per InitialHeight
			continue
		}
		scens = append(scens, c13HandScenarios(wi)...)
	}
	// random boundary syncs: start 0..2, 0..3 blocks to sync, a liar at or just above the honest tip
	r := root.Fork(998)
	for n := vg.Scale(len(scens)+8, len(scens)+200); len(scens) < n; {
		start := int64(r.Intn(4))
		tip := start + 1 + int64(r.Intn(4))
		if tip > c13L-1 {
			tip = c13L - 1
		}
		sc := c13Scen{name: fmt.Sprintf("random-%d", len(scens)), wi: r.Intn(len(ws)), start: start, tip: tip}
		switch r.Intn(4) {
		case 0:
			sc.peers = append(sc.peers, c13PeerSpec{[]uint64{3, 6, 7}[r.Intn(3)], tip + 1, tip + 1})
		case 1:
			sc.peers = append(sc.peers, c13PeerSpec{[]uint64{1, 2, 5, 8, 9, 10, 12}[r.Intn(7)], 1, tip})
		}
		for i := 0; i < 2+r.Intn(2); i++ {
			sc.peers = append(sc.peers, c13PeerSpec{0, 1, tip})
		}
		scens = append(scens, sc)
	}
	idS, idH := make([]int, len(scens)), make([]int, len(scens))
	for k := range scens {
		idS[k], idH[k] = cs.NextID(), cs.NextID()
	}
	results, notes := c13RunAll(scens, root, 5000, func(k int) bool { return cs.Want(idS[k]) || cs.Want(idH[k]) }, 8)
	cs.Notes = append(cs.Notes, notes...)
	if len(notes) > 0 {
		cs.Count("hand-scen:rerun-after-timing-dependent-shortfall", len(notes))
	}
	for k, sc := range scens {
		res := results[k]
		if res == nil {
			continue
		}
		w := ws[sc.wi]
		d := sc.descr(w, res, 5000+k)
		kind := strings.SplitN(sc.name, "-", 2)[0]
		if cs.Want(idS[k]) {
			cs.Add(idS[k], "hand-scen:"+kind, true, sc.scenTerm(res), d)
		}
		if cs.Want(idH[k]) {
			cs.Add(idH[k], fmt.Sprintf("hand:ih%d:%s", w.ih, kind), true, sc.handTerm(w, res), d)
		}
	}
	if err := cs.Write(); err != nil {
		t.Fatal(err)
	}
}

// ------------------------------------------------------------------ TestVerifC13StateSync

// Block sync after a state sync (the node's normal start with state sync enabled:
// Bootstrap + SaveSeenCommit + SwitchToFastSync), and block sync from genesis as the control,
// on evidence worlds: every BlockExecutor has a REAL evidence.Pool over the node's own stores.
// Only honest peers.  A state-synced node has no block meta below its snapshot height, so the
// real pool cannot verify evidence of such a height: it refuses the canonical block that
// carries it (known finding F89).  Those cases are generated only when known_findings.json
// lists class 89 for C13, or with VERIF_C13_F89=1.

// c13F89: generate the cases of known finding F89
func c13F89() bool {
	if os.Getenv("VERIF_C13_F89") == "1" {
		return true
	}
	// bin/check sets VERIF_OUT=<verif>/work/<run dir>
	raw, err := os.ReadFile(filepath.Join(vg.OutDir(), "..", "..", "known_findings.json"))
	if err != nil {
		return false
	}
	var kf struct {
		Findings []struct {
			Property string `json:"property"`
			Status   string `json:"status"`
			Code     int    `json:"code"`
		} `json:"findings"`
	}
	if json.Unmarshal(raw, &kf) != nil {
		return false
	}
	for _, f := range kf.Findings {
		if f.Property == "C13" && f.Status == "known" && f.Code == 89 {
			return true
		}
	}
	return false
}

var c13EvWorlds []*c13World

// evidence worlds: (powers, InitialHeight, position the validator double-signed at, position of
// the block that carries the evidence)
func c13GetEvWorlds() []*c13World {
	if c13EvWorlds == nil {
		c13EvWorlds = []*c13World{
			c13BuildWorldEv(c13Powers[0], 1, 2, 5),
			c13BuildWorldEv(c13Powers[1], 5, 1, 4),
		}
		if vg.Thorough() {
			c13EvWorlds = append(c13EvWorlds,
				c13BuildWorldEv(c13Powers[2], 1000, 3, 5),
				c13BuildWorldEv(c13Powers[0], 2, 1, 3, c13Upd{1, 4, 25}))
		}
	}
	return c13EvWorlds
}

type c13SSResult struct {
	base, top    int64 // base of the block store, State.LastBlockHeight saved last
	canon        bool
	hstopped     int64
	honestLeft   bool
	switched     bool
	hob          c13HandObs
	next         uint64 // ValidateBlock(saved state, canonical block top+1): 0 nil, 1 the evidence pool lacks the header / validators of the evidence height, 2 other error, 3 not asked
	nextErr      string
	peersStopped []bool
}

func c13RunSS(w *c13World, snapshot int64, npeers int, r *vg.Rand) *c13SSResult {
	node := c13NewNodeOpt(w, 0, snapshot)
	L := c13L
	res := &c13SSResult{}
	for i := 0; i < npeers; i++ {
		node.connect(w.H(1), w.H(L))
	}
	deadline := time.Now().Add(time.Duration(vg.Scale(6, 8)) * time.Second)
	var swres *c13Switch
LOOP:
	for time.Now().Before(deadline) {
		var batch []c13Req
		select {
		case x := <-node.switchCh:
			res.switched = true
			swres = &x
			break LOOP
		case rq := <-node.reqCh:
			batch = append(batch, rq)
		case <-time.After(2 * time.Millisecond):
		}
	DRAIN:
		for {
			select {
			case rq := <-node.reqCh:
				batch = append(batch, rq)
			default:
				break DRAIN
			}
		}
		for _, k := range r.Perm(len(batch)) {
			rq := batch[k]
			if j := w.J(rq.height); j >= 1 && j <= L && rq.p.IsRunning() {
				node.deliver(rq.p, w.blocks[j])
			}
		}
		// nobody left to ask: nothing more will happen
		if len(node.stopped()) == npeers {
			time.Sleep(50 * time.Millisecond)
			break
		}
	}
	res.hob = node.observe(swres)
	node.bcR.Stop() //nolint:errcheck
	time.Sleep(20 * time.Millisecond)
	res.base = node.ex.blockStore.Base()
	res.top = node.snapH
	if st, err := node.ex.stateStore.Load(); err == nil && st.LastBlockHeight > res.top {
		res.top = st.LastBlockHeight
	}
	res.canon = true
	for h := res.base; h >= 1 && h <= node.ex.blockStore.Height(); h++ {
		j := w.J(h)
		m := node.ex.blockStore.LoadBlockMeta(h)
		if j < 1 || j > L || m == nil || !m.BlockID.Equals(w.ids[j]) || !w.c13VerifySeen(j, node.ex.blockStore.LoadSeenCommit(h)) {
			res.canon = false
		}
	}
	for _, p := range node.peers {
		res.peersStopped = append(res.peersStopped, !p.IsRunning())
		if p.IsRunning() {
			res.honestLeft = true
		} else {
			res.hstopped++
		}
	}
	// what the node's own BlockExecutor says about the canonical block it should apply next
	res.next = 3
	jn := int64(1)
	if res.top > 0 {
		jn = w.J(res.top) + 1
	}
	if jn <= L-1 {
		if st, err := node.ex.stateStore.Load(); err == nil {
			err := func() (err error) {
				defer func() {
					if rc := recover(); rc != nil {
						err = fmt.Errorf("panic: %v", rc)
					}
				}()
				return node.ex.blockExec.ValidateBlock(st, w.blocks[jn])
			}()
			switch {
			case err == nil:
				res.next = 0
			case strings.Contains(err.Error(), "don't have header") || strings.Contains(err.Error(), "could not find validator set") ||
				strings.Contains(err.Error(), "validators"):
				res.next, res.nextErr = 1, err.Error()
			default:
				res.next, res.nextErr = 2, err.Error()
			}
		}
	}
	node.close()
	return res
}

func TestVerifC13StateSync(t *testing.T) {
	defer c13ShortPeerTimeout()()
	cs := vg.NewCases("C13", "c13_ss", "TM.C13.Exec")
	root := vg.NewRand(vg.Seed())
	type ssCase struct {
		wi       int
		snapshot int64
		npeers   int
	}
	var cases []ssCase
	ws := c13GetEvWorlds()
	for wi, w := range ws {
		cases = append(cases, ssCase{wi, 0, 2}) // control: block sync from genesis, real evidence pool
		for s := int64(1); s <= c13L-2; s++ {
			f89 := s >= w.evOf && s < w.evIn // the snapshot hides the evidence height, the evidence block is still to come
			if f89 && !c13F89() {
				continue
			}
			cases = append(cases, ssCase{wi, s, 2})
			if f89 {
				cases = append(cases, ssCase{wi, s, 1}, ssCase{wi, s, 3})
			}
		}
	}
	ids := make([]int, len(cases))
	for k := range cases {
		ids[k] = cs.NextID()
	}
	results := make([]*c13SSResult, len(cases))
	sem := make(chan struct{}, 6)
	var wg sync.WaitGroup
	for k := range cases {
		if !cs.Want(ids[k]) {
			continue
		}
		wg.Add(1)
		go func(k int) {
			defer wg.Done()
			sem <- struct{}{}
			defer func() { <-sem }()
			results[k] = c13RunSS(ws[cases[k].wi], cases[k].snapshot, cases[k].npeers, root.Fork(uint64(9000+k)))
		}(k)
	}
	wg.Wait()
	for k, c := range cases {
		res := results[k]
		if res == nil {
			continue
		}
		w := ws[c.wi]
		snapH := int64(0)
		if c.snapshot > 0 {
			snapH = w.H(c.snapshot)
		}
		term := vg.App("CSS", vg.Z(w.ih), vg.Z(snapH), vg.Z(w.H(c13L)), vg.Z(w.H(w.evIn)), vg.Z(w.H(w.evOf)),
			vg.Tup(vg.Z(res.base), vg.Z(res.top), vg.B(res.canon), vg.Z(res.hstopped), vg.B(res.honestLeft), vg.B(res.switched), vg.N(res.next)),
			vg.Tup(vg.N(res.hob.sres), vg.Z(res.hob.hs), vg.Z(res.hob.height), vg.N(res.hob.lcc), vg.B(res.hob.running)))
		how := "block-syncs from genesis (fast sync from the start)"
		if c.snapshot > 0 {
			how = fmt.Sprintf("started with a state sync and has just restored the snapshot of height %d (stateStore.Bootstrap, blockStore.SaveSeenCommit, SwitchToFastSync): its stores hold nothing below", snapH)
		}
		descr := fmt.Sprintf("evidence world %d (%v, InitialHeight %d, chain of %d blocks up to height %d; the first validator of height %d double-signed there, canonical block %d carries the DuplicateVoteEvidence; chain made by a full node with a real evidence pool). The node has a REAL evidence.Pool in its BlockExecutor and %s. %d honest peers announce [%d,%d] and answer every request with the canonical block (PRNG order, stream %d). "+
			"Observed: block store base %d, State.LastBlockHeight saved last %d, everything stored canonical=%v, honest peers stopped=%d %v, SwitchToConsensus called=%v -> %d (0 returned,1 panicked,2 not called) %q, handed-over height %d, consensus height %d, LastCommit class %d, running=%v; the node's own ValidateBlock on the canonical block after its last one: %d (0 accepts,1 evidence pool lacks the header/validators of the evidence height,2 other error,3 not asked) %q",
			c.wi, w, w.ih, c13L, w.H(c13L), w.H(w.evOf), w.H(w.evIn), how, c.npeers, w.H(1), w.H(c13L), 9000+k,
			res.base, res.top, res.canon, res.hstopped, res.peersStopped, res.switched, res.hob.sres, res.hob.msg, res.hob.hs, res.hob.height, res.hob.lcc, res.hob.running, res.next, res.nextErr)
		kind := "ss:genesis-control"
		switch {
		case c.snapshot > 0 && c.snapshot >= w.evOf && c.snapshot < w.evIn:
			kind = "ss:snapshot-hides-evidence-height"
		case c.snapshot > 0:
			kind = "ss:snapshot-control"
		}
		cs.Add(ids[k], kind, c.snapshot > 0, term, descr)
	}
	if err := cs.Write(); err != nil {
		t.Fatal(err)
	}
}
