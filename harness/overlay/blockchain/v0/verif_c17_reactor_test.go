//go:build verif

package v0

// C17 reactor sweep, blockchain/v0 reactor (reactor number 4) — injected with `go test -overlay`.
//
// One case = one hostile input delivered to a fresh, live fast-sync BlockchainReactor (real
// BlockPool, real BlockStore/state store over memdb, real BlockExecutor over a local no-op ABCI
// app, real p2p.Switch that is not listening; the node is at height 0 or 2 of a deterministic
// one-validator chain) through BlockchainReactor.Receive (what the p2p layer does).  A second,
// fully built node of the same chain (8 blocks) is the source of genuine blocks.  Peer states:
// 0 unknown to switch and pool, 1 added to the switch (AddPeer) but without a status, 2 known to
// the pool (it announced a range and has been sent BlockRequests), 3 like 2 and it already
// delivered the genuine block for our height+2 (so the next block completes a pair for
// poolRoutine), 4 like 2 but removed again.
//
// Goroutines:
//   - BlockPool.makeRequestersRoutine (spawned by pool.OnStart) and BlockchainReactor.poolRoutine
//     (spawned by OnStart): WRAPPED — the reactor is started with fastSync=false (OnStart then
//     spawns nothing), fastSync is set back to true, the pool's BaseService is re-created around
//     a no-op implementation so that pool.Start() marks it running without spawning, and both
//     routines are run by the harness under recover.
//   - the anonymous request/error forwarding goroutine inside poolRoutine,
//     bpRequester.requestRoutine (spawned by makeNextRequester through bpr.Start) and the
//     bpPeer.onTimeout timer cannot be intercepted: CHILD PROCESS — all cases run in a re-exec'ed
//     copy of the test binary; when it dies the case in progress is recorded with bg_panic
//     ("panic:" / "fatal error:" in its output) or stuck (killed by the parent).
//
// alive probe: a StatusRequest from a fresh honest peer is answered with a StatusResponse, the
// reactor is running, and the node still syncs: the hostile peer is disconnected (what a timeout
// or the operator eventually does), an honest peer announces the genuine chain and serves the
// blocks it is asked for; the store must advance by two blocks before the deadline.

import (
	"bytes"
	"context"
	"encoding/hex"
	"encoding/json"
	"fmt"
	"math"
	"os"
	"os/exec"
	"runtime"
	"strconv"
	"strings"
	"sync"
	"testing"
	"time"

	"github.com/gogo/protobuf/proto"
	dbm "github.com/tendermint/tm-db"

	abci "github.com/tendermint/tendermint/abci/types"
	cfg "github.com/tendermint/tendermint/config"
	"github.com/tendermint/tendermint/crypto/ed25519"
	vg "github.com/tendermint/tendermint/internal/verifgen"
	"github.com/tendermint/tendermint/libs/log"
	"github.com/tendermint/tendermint/libs/service"
	mpmock "github.com/tendermint/tendermint/mempool/mock"
	"github.com/tendermint/tendermint/p2p"
	"github.com/tendermint/tendermint/p2p/conn"
	"github.com/tendermint/tendermint/p2p/mock"
	bcproto "github.com/tendermint/tendermint/proto/tendermint/blockchain"
	tmproto "github.com/tendermint/tendermint/proto/tendermint/types"
	"github.com/tendermint/tendermint/proxy"
	sm "github.com/tendermint/tendermint/state"
	"github.com/tendermint/tendermint/store"
	"github.com/tendermint/tendermint/types"
)

// ------------------------------------------------------------------ shared skeleton (duplicated in the five files)

type c17Rec struct {
	Phase     string `json:"phase"` // "B" written before the input is delivered, "E" after
	ID        int    `json:"id"`
	Kind      int    `json:"kind"`
	KindName  string `json:"kind_name"`
	InLen     int    `json:"in_len"`
	Descr     string `json:"descr"`
	RecvPanic bool   `json:"recv_panic"`
	Stopped   bool   `json:"stopped"`
	BgPanic   bool   `json:"bg_panic"`
	Stuck     bool   `json:"stuck"`
	Alive     bool   `json:"alive"`
	Alloc     int64  `json:"alloc"`
	Note      string `json:"note,omitempty"`
}

type c17Input struct {
	kind     int
	kindName string
	chID     byte
	state    int
	data     []byte
	msg      string // Go-literal-ish form for kind 2
	extra    string
}

// c17BG collects panics of wrapped background goroutines.
type c17BG struct {
	mtx    sync.Mutex
	panics []string
	wg     sync.WaitGroup
}

func (b *c17BG) Go(name string, f func()) {
	b.wg.Add(1)
	go func() {
		defer b.wg.Done()
		defer func() {
			if r := recover(); r != nil {
				b.mtx.Lock()
				b.panics = append(b.panics, fmt.Sprintf("%s: %v", name, r))
				b.mtx.Unlock()
			}
		}()
		f()
	}()
}
func (b *c17BG) Panicked() (bool, string) {
	b.mtx.Lock()
	defer b.mtx.Unlock()
	return len(b.panics) > 0, strings.Join(b.panics, " | ")
}

// c17Timed runs f under recover in its own goroutine; done=false when it did not return in time.
func c17Timed(d time.Duration, f func()) (done bool, panicked bool, pv string) {
	ch := make(chan struct{})
	go func() {
		defer close(ch)
		defer func() {
			if r := recover(); r != nil {
				panicked = true
				pv = fmt.Sprint(r)
			}
		}()
		f()
	}()
	select {
	case <-ch:
		return true, panicked, pv
	case <-time.After(d):
		return false, false, ""
	}
}

func c17TotalAlloc() int64 {
	var ms runtime.MemStats
	runtime.ReadMemStats(&ms)
	return int64(ms.TotalAlloc)
}

func c17Trunc(s string, n int) string {
	if len(s) > n {
		return s[:n] + fmt.Sprintf("…(%d more)", len(s)-n)
	}
	return s
}

func c17HexDescr(b []byte) string {
	if len(b) <= 2048 {
		return hex.EncodeToString(b)
	}
	return hex.EncodeToString(b[:1024]) + fmt.Sprintf("…(%d bytes in total; regenerate with VERIF_ONLY)", len(b))
}

func c17RandomBytes(r *vg.Rand, k int, tags []byte) []byte {
	var n int
	switch {
	case k < 24:
		n = k // lengths 0,1,2,… in order
	case r.Chance(70):
		n = r.Intn(64)
	default:
		n = 64 + r.Intn(400)
	}
	b := r.Bytes(n)
	if len(tags) > 0 && n > 0 && r.Chance(40) {
		b[0] = tags[r.Intn(len(tags))]
		if n > 1 && r.Chance(60) {
			b[1] = byte(n - 2) // plausible length prefix
		}
	}
	return b
}

func c17Mutate(r *vg.Rand, valid []byte) ([]byte, string) {
	b := append([]byte{}, valid...)
	if len(b) == 0 {
		return b, "none"
	}
	switch r.Intn(5) {
	case 0:
		i := r.Intn(len(b))
		b[i] ^= 1 << uint(r.Intn(8))
		return b, fmt.Sprintf("bitflip@%d", i)
	case 1:
		i, j := r.Intn(len(b)), r.Intn(len(b))
		b[i] = byte(r.Uint64())
		b[j] = byte(r.Uint64())
		return b, fmt.Sprintf("bytes@%d,%d", i, j)
	case 2:
		n := r.Intn(len(b))
		return b[:n], fmt.Sprintf("truncate@%d", n)
	case 3:
		i := r.Intn(len(b))
		b[i] = 0xff
		return b, fmt.Sprintf("ff@%d", i)
	default:
		i := r.Intn(len(b))
		c := append(append([]byte{}, b[:i]...), byte(r.Uint64()))
		return append(c, b[i:]...), fmt.Sprintf("insert@%d", i)
	}
}

// c17Peer is the mock peer (hostile sender, honest prober, observer): a p2p/mock.Peer that
// records what the reactor sends to it.
type c17Peer struct {
	*mock.Peer
	mtx    sync.Mutex
	sent   []proto.Message
	onSend func(e p2p.Envelope)
}

func c17NewPeer(ip byte, outbound bool) *c17Peer {
	p := &c17Peer{Peer: mock.NewPeer([]byte{37, 120, 3, ip})}
	p.Peer.Outbound = outbound
	return p
}
func (p *c17Peer) record(e p2p.Envelope) bool {
	p.mtx.Lock()
	p.sent = append(p.sent, e.Message)
	f := p.onSend
	p.mtx.Unlock()
	if f != nil {
		f(e)
	}
	return true
}
func (p *c17Peer) SendEnvelope(e p2p.Envelope) bool    { return p.record(e) }
func (p *c17Peer) TrySendEnvelope(e p2p.Envelope) bool { return p.record(e) }
func (p *c17Peer) Sent() []proto.Message {
	p.mtx.Lock()
	defer p.mtx.Unlock()
	return append([]proto.Message{}, p.sent...)
}

func c17Key() ed25519.PrivKey { return ed25519.GenPrivKey() }

// c17Drive is the parent/child orchestration.  gen builds case k from its own PRNG stream; exec
// delivers it.  The parent never delivers anything itself.
func c17Drive(t *testing.T, testName, casesName string, reactorNo uint64, n int,
	gen func(k int, r *vg.Rand) c17Input, run func(in c17Input, rec *c17Rec)) {

	root := vg.NewRand(vg.Seed())
	if fromS := os.Getenv("VERIF_C17_CHILD"); fromS != "" {
		// ---- child: run cases from..n-1, journal to the file
		from, _ := strconv.Atoi(fromS)
		f, err := os.OpenFile(os.Getenv("VERIF_C17_FILE"), os.O_APPEND|os.O_WRONLY|os.O_CREATE, 0o644)
		if err != nil {
			t.Fatal(err)
		}
		defer f.Close()
		put := func(rec c17Rec) {
			js, _ := json.Marshal(rec)
			f.Write(append(js, '\n'))
			f.Sync()
		}
		for k := from; k < n; k++ {
			if o := vg.Only(); o >= 0 && o != k {
				continue
			}
			var in c17Input
			func() {
				defer func() {
					if r := recover(); r != nil { // a generator bug must not kill the run: visible as its own kind
						in = c17Input{kind: 0, kindName: "harness-generator-panic", extra: fmt.Sprintf(" GENERATOR PANIC: %v", r)}
					}
				}()
				in = gen(k, root.Fork(uint64(k)))
			}()
			rec := c17Rec{Phase: "B", ID: k, Kind: in.kind, KindName: in.kindName, InLen: len(in.data)}
			rec.Descr = fmt.Sprintf("reactor=%d(%s) ch=0x%02x peer_state=%d%s input(hex)=%s", reactorNo, casesName,
				in.chID, in.state, in.extra, c17HexDescr(in.data))
			if in.msg != "" {
				rec.Descr += " msg=" + c17Trunc(in.msg, 1500)
			}
			put(rec)
			func() {
				defer func() {
					if r := recover(); r != nil { // the harness itself must not die
						rec.Note += fmt.Sprintf(" harness-panic: %v", r)
					}
				}()
				run(in, &rec)
			}()
			rec.Phase = "E"
			put(rec)
		}
		return
	}

	// ---- parent
	cs := vg.NewCases("C17", casesName, "TM.C17.Exec")
	add := func(rec c17Rec) {
		term := vg.App("CReactor", vg.N(reactorNo), vg.N(uint64(rec.Kind)), vg.Z(int64(rec.InLen)),
			vg.B(rec.RecvPanic), vg.B(rec.Stopped), vg.B(rec.BgPanic), vg.B(rec.Stuck), vg.B(rec.Alive), vg.Z(rec.Alloc))
		d := rec.Descr
		if rec.Note != "" {
			d += " note=" + rec.Note
		}
		cs.Add(rec.ID, rec.KindName, rec.Kind != 0 || rec.InLen > 0, term, d)
		out := "ignored"
		switch {
		case rec.BgPanic:
			out = "BG_PANIC"
		case rec.Stuck:
			out = "STUCK"
		case !rec.Alive:
			out = "NOT_ALIVE"
		case rec.RecvPanic:
			out = "recv_panic"
		case rec.Stopped:
			out = "stopped"
		}
		cs.Count("outcome:"+out, 1)
	}
	for k := 0; k < n; k++ {
		cs.NextID() // ids are dense: id = k
	}
	dir, err := os.MkdirTemp("", "c17child")
	if err != nil {
		t.Fatal(err)
	}
	defer os.RemoveAll(dir)
	from, spawn := 0, 0
	for from < n {
		spawn++
		file := fmt.Sprintf("%s/journal%d", dir, spawn)
		ctx, cancel := context.WithTimeout(context.Background(), time.Duration(120+4*(n-from))*time.Second)
		cmd := exec.CommandContext(ctx, os.Args[0], "-test.run=^"+testName+"$", "-test.count=1", "-test.timeout=0")
		cmd.Env = append(os.Environ(), "VERIF_C17_CHILD="+strconv.Itoa(from), "VERIF_C17_FILE="+file)
		var outb bytes.Buffer
		cmd.Stdout, cmd.Stderr = &outb, &outb
		runErr := cmd.Run()
		timedOut := ctx.Err() != nil
		cancel()
		js, _ := os.ReadFile(file)
		var pending *c17Rec
		for _, line := range bytes.Split(js, []byte{'\n'}) {
			if len(line) == 0 {
				continue
			}
			var rec c17Rec
			if err := json.Unmarshal(line, &rec); err != nil {
				continue
			}
			if rec.Phase == "B" {
				r2 := rec
				pending = &r2
			} else {
				pending = nil
				add(rec)
			}
		}
		if runErr == nil && pending == nil {
			break
		}
		outS := outb.String()
		if pending == nil {
			t.Fatalf("c17 child died outside a case (from=%d): %v\n%s", from, runErr, c17Trunc(outS, 4000))
		}
		// the child died while case pending.ID was being handled
		crashed := strings.Contains(outS, "panic:") || strings.Contains(outS, "fatal error:")
		pending.BgPanic = crashed && !timedOut
		pending.Stuck = !pending.BgPanic
		pending.Alive = false
		tail := outS
		if i := strings.Index(tail, "panic:"); i >= 0 {
			tail = tail[i:]
		} else if i := strings.Index(tail, "fatal error:"); i >= 0 {
			tail = tail[i:]
		}
		pending.Note = "child process died: " + c17Trunc(strings.ReplaceAll(tail, "\n", " / "), 700)
		add(*pending)
		cs.Notes = append(cs.Notes, fmt.Sprintf("case %d killed the child process", pending.ID))
		from = pending.ID + 1
		if vg.Only() >= 0 {
			break
		}
	}
	if err := cs.Write(); err != nil {
		t.Fatal(err)
	}
}

// ------------------------------------------------------------------ blockchain specifics

const (
	c17BcChain = "c17-chain"
	c17BcSrcN  = int64(8)
)

var c17BcBase = time.Date(2021, 3, 1, 12, 0, 0, 0, time.UTC)

type c17Node struct {
	bcR   *BlockchainReactor
	store *store.BlockStore
	app   proxy.AppConns
}

func c17BcPV() types.MockPV {
	return types.NewMockPVWithParams(ed25519.GenPrivKeyFromSecret([]byte("c17-bc-val")), false, false)
}

// c17BuildNode builds a node that has applied the first n blocks of the deterministic chain.
func c17BuildNode(n int64) *c17Node {
	pv := c17BcPV()
	genDoc := &types.GenesisDoc{GenesisTime: c17BcBase, ChainID: c17BcChain,
		Validators: []types.GenesisValidator{{PubKey: pv.PrivKey.PubKey(), Power: 30}}}
	proxyApp := proxy.NewAppConns(proxy.NewLocalClientCreator(abci.NewBaseApplication()))
	proxyApp.SetLogger(log.NewNopLogger())
	if err := proxyApp.Start(); err != nil {
		panic(err)
	}
	stateStore := sm.NewStore(dbm.NewMemDB(), sm.StoreOptions{})
	blockStore := store.NewBlockStore(dbm.NewMemDB())
	state, err := sm.MakeGenesisState(genDoc)
	if err != nil {
		panic(err)
	}
	if err := stateStore.Save(state); err != nil {
		panic(err)
	}
	blockExec := sm.NewBlockExecutor(stateStore, log.NewNopLogger(), proxyApp.Consensus(), mpmock.Mempool{}, sm.EmptyEvidencePool{})
	for h := int64(1); h <= n; h++ {
		lastCommit := types.NewCommit(h-1, 0, types.BlockID{}, nil)
		if h > 1 {
			meta := blockStore.LoadBlockMeta(h - 1)
			vote, err := types.MakeVote(h-1, meta.BlockID, state.Validators, pv, c17BcChain, c17BcBase.Add(time.Duration(h-1)*time.Second))
			if err != nil {
				panic(err)
			}
			lastCommit = types.NewCommit(vote.Height, vote.Round, meta.BlockID, []types.CommitSig{vote.CommitSig()})
		}
		txs := []types.Tx{[]byte{byte(h), 1}, []byte{byte(h), 2}}
		blk, _ := state.MakeBlock(h, txs, lastCommit, nil, state.Validators.GetProposer().Address)
		parts := blk.MakePartSet(types.BlockPartSizeBytes)
		bid := types.BlockID{Hash: blk.Hash(), PartSetHeader: parts.Header()}
		state, _, err = blockExec.ApplyBlock(state, bid, blk)
		if err != nil {
			panic(err)
		}
		blockStore.SaveBlock(blk, parts, lastCommit)
	}
	bcR := NewBlockchainReactor(state.Copy(), blockExec, blockStore, true)
	bcR.SetLogger(log.NewNopLogger())
	return &c17Node{bcR: bcR, store: blockStore, app: proxyApp}
}

var (
	c17BcSrcOnce sync.Once
	c17BcSrcV    *c17Node
)

func c17BcSrc() *c17Node {
	c17BcSrcOnce.Do(func() { c17BcSrcV = c17BuildNode(c17BcSrcN) })
	return c17BcSrcV
}

func c17BcBlock(h int64) *types.Block { // fresh copy of the genuine block
	b := c17BcSrc().store.LoadBlock(h)
	if b == nil {
		panic(fmt.Sprint("no source block ", h))
	}
	return b
}

type c17NopSvc struct{ service.BaseService }

func c17BcWrap(m interface{ Wrap() proto.Message }) []byte {
	b, err := proto.Marshal(m.Wrap())
	if err != nil {
		panic(err)
	}
	return b
}

func c17BcBlockMsg(b *types.Block) []byte {
	bl, err := b.ToProto()
	if err != nil {
		panic(err)
	}
	return c17BcWrap(&bcproto.BlockResponse{Block: bl})
}

type c17BcEnv struct {
	node *c17Node
	bcR  *BlockchainReactor
	sw   *p2p.Switch
	bg   *c17BG
}

func c17NewBcEnv(start int64) *c17BcEnv {
	node := c17BuildNode(start)
	bcR := node.bcR
	nk := p2p.NodeKey{PrivKey: ed25519.GenPrivKey()}
	tr := p2p.NewMultiplexTransport(p2p.DefaultNodeInfo{DefaultNodeID: nk.ID()}, nk, conn.DefaultMConnConfig())
	sw := p2p.NewSwitch(cfg.DefaultP2PConfig(), tr)
	sw.SetLogger(log.NewNopLogger())
	sw.AddReactor("BLOCKCHAIN", bcR)
	env := &c17BcEnv{node: node, bcR: bcR, sw: sw, bg: &c17BG{}}
	// start without letting OnStart / pool.OnStart spawn anything, then run the routines wrapped
	bcR.fastSync = false
	if err := bcR.Start(); err != nil {
		panic(err)
	}
	bcR.fastSync = true
	nop := &c17NopSvc{}
	nop.BaseService = *service.NewBaseService(nil, "nop", nop)
	bcR.pool.BaseService = *service.NewBaseService(log.NewNopLogger(), "BlockPool", nop)
	if err := bcR.pool.Start(); err != nil {
		panic(err)
	}
	bcR.pool.startTime = time.Now()
	env.bg.Go("makeRequestersRoutine", func() { bcR.pool.makeRequestersRoutine() })
	env.bg.Go("poolRoutine", func() { bcR.poolRoutine(false) })
	return env
}

func (e *c17BcEnv) close() {
	e.bcR.Stop() //nolint:errcheck
	for _, p := range e.sw.Peers().List() {
		p.Stop() //nolint:errcheck
	}
	e.node.app.Stop() //nolint:errcheck
}

func (e *c17BcEnv) toSwitch(p *c17Peer) {
	_ = e.sw.Peers().(*p2p.PeerSet).Add(p)
	e.bcR.InitPeer(p)
	e.bcR.AddPeer(p)
}

func (e *c17BcEnv) recv(p *c17Peer, b []byte) (done, pan bool, pv string) {
	return c17Timed(2*time.Second, func() { e.bcR.Receive(BlockchainChannel, p, b) })
}

func c17BcRequested(p *c17Peer) map[int64]bool {
	m := map[int64]bool{}
	for _, s := range p.Sent() {
		if r, ok := s.(*bcproto.BlockRequest); ok {
			m[r.Height] = true
		}
	}
	return m
}

// the generator encodes start height and announced height in in.extra; exec parses them back
func c17BcGen(k int, r *vg.Rand) c17Input {
	in := c17Input{chID: BlockchainChannel, state: r.Intn(5)}
	start := int64(0)
	if r.Chance(25) {
		start = 2
	}
	// at most 20 requests are outstanding per peer: announcing more makes the assignment of heights a race
	ann := []int64{start + 5, c17BcSrcN, start + 19}[r.Intn(3)]
	want := start + 1
	hostile := func(name string, data []byte, lit string) {
		in.kind, in.kindName, in.data, in.msg = 2, "hostile:"+name, data, lit
	}
	blockCase := func(name string, b *types.Block, lit string) {
		hostile(name, c17BcBlockMsg(b), "&BlockResponse{Block: "+lit+"}")
	}
	if k < len(c17BcDirected) {
		c17BcDirected[k](&in, &start, &ann)
	} else {
		switch sel := r.Intn(100); {
		case sel < 22:
			in.kind, in.kindName = 0, "random"
			in.data = c17RandomBytes(r, k, []byte{0x0a, 0x12, 0x1a, 0x22, 0x2a})
		case sel < 42:
			var valid []byte
			var what string
			switch r.Intn(4) {
			case 0:
				valid, what = c17BcBlockMsg(c17BcBlock(want)), fmt.Sprintf("BlockResponse{genuine block %d}", want)
			case 1:
				valid, what = c17BcWrap(&bcproto.StatusResponse{Base: 1, Height: 7}), "StatusResponse{1,7}"
			case 2:
				valid, what = c17BcWrap(&bcproto.BlockRequest{Height: 1}), "BlockRequest{1}"
			default:
				valid, what = c17BcWrap(&bcproto.NoBlockResponse{Height: want}), fmt.Sprintf("NoBlockResponse{%d}", want)
			}
			var how string
			in.kind, in.kindName = 1, "mutated"
			in.data, how = c17Mutate(r, valid)
			in.extra = " mutation=" + how + " of " + what
		default:
			h2 := want + int64(r.Intn(3))
			switch r.Intn(27) {
			case 24, 25, 26: // finding F85: a block whose evidence used to panic types.BlockFromProto
				b := c17BcBlock(h2)
				powers := [][]int64{{types.MaxTotalVotingPower, 1}, {math.MaxInt64}, {types.MaxTotalVotingPower / 2, types.MaxTotalVotingPower/2 + 1, 1}, {10, 20}, {-5, 7}}[r.Intn(5)]
				vals := make([]*types.Validator, len(powers))
				for i, p := range powers {
					vals[i] = types.NewValidator(ed25519.GenPrivKeyFromSecret([]byte(fmt.Sprint("c17f85", i))).PubKey(), p)
				}
				b.Evidence = types.EvidenceData{Evidence: types.EvidenceList{&types.LightClientAttackEvidence{
					ConflictingBlock: &types.LightBlock{ValidatorSet: &types.ValidatorSet{Validators: vals, Proposer: vals[0]}}, CommonHeight: 1}}}
				b.Header.EvidenceHash = b.Evidence.Hash()
				blockCase("block-evidence-valset", b, fmt.Sprintf("genuine block %d carrying LightClientAttackEvidence whose conflicting block has no signed header and a validator set with voting powers %v, EvidenceHash recomputed", h2, powers))
			case 0:
				hostile("block-nil", c17BcWrap(&bcproto.BlockResponse{}), "&BlockResponse{Block: nil}")
			case 1:
				hostile("block-empty", c17BcWrap(&bcproto.BlockResponse{Block: &tmproto.Block{}}), "&BlockResponse{Block: &Block{}}")
			case 2:
				blockCase("block-genuine", c17BcBlock(h2), fmt.Sprintf("genuine block %d", h2))
			case 3:
				blockCase("block-genuine-unrequested", c17BcBlock(c17BcSrcN), fmt.Sprintf("genuine block %d", c17BcSrcN))
			case 4:
				b := c17BcBlock(h2)
				b.Header.Height = []int64{5000, math.MaxInt64, 102 + start, 1}[r.Intn(4)]
				blockCase("block-far-height", b, fmt.Sprintf("genuine block %d with Header.Height=%d", h2, b.Header.Height))
			case 5:
				b := c17BcBlock(h2)
				var f string
				switch r.Intn(7) {
				case 0:
					b.Header.AppHash, f = r.Bytes(32), "AppHash"
				case 1:
					b.Header.ValidatorsHash, f = r.Bytes(32), "ValidatorsHash"
				case 2:
					b.Header.ProposerAddress, f = r.Bytes(20), "ProposerAddress"
				case 3:
					b.Header.Time, f = b.Header.Time.Add(time.Hour), "Time"
				case 4:
					b.Header.ChainID, f = "other-chain", "ChainID"
				case 5:
					b.Header.LastBlockID.Hash, f = r.Bytes(32), "LastBlockID.Hash"
				default:
					b.Header.NextValidatorsHash, f = r.Bytes(32), "NextValidatorsHash"
				}
				blockCase("block-header-field", b, fmt.Sprintf("genuine block %d with random Header.%s", h2, f))
			case 6:
				b := c17BcBlock(h2)
				b.Data = types.Data{Txs: types.Txs{r.Bytes(10)}}
				b.Header.DataHash = b.Data.Hash()
				blockCase("block-other-txs", b, fmt.Sprintf("genuine block %d with other txs, DataHash recomputed", h2))
			case 7:
				b := c17BcBlock(h2)
				txs := make(types.Txs, 20000)
				for i := range txs {
					txs[i] = []byte(fmt.Sprintf("tx-%d", i))
				}
				b.Data = types.Data{Txs: txs}
				b.Header.DataHash = b.Data.Hash()
				blockCase("block-20000-txs", b, fmt.Sprintf("genuine block %d with 20000 txs", h2))
			case 8:
				b := c17BcBlock(h2)
				b.Data = types.Data{Txs: types.Txs{bytes.Repeat([]byte{0x41}, 2<<20)}}
				b.Header.DataHash = b.Data.Hash()
				blockCase("block-2MiB-tx", b, fmt.Sprintf("genuine block %d with one 2 MiB tx", h2))
			case 9: // the commit that will be used to verify the previous block
				hh := want + 1
				b := c17BcBlock(hh)
				var f string
				switch r.Intn(5) {
				case 0:
					b.LastCommit.Signatures[0].Signature, f = r.Bytes(64), "garbage signature"
				case 1:
					b.LastCommit.Signatures[0] = types.NewCommitSigAbsent()
					f = "absent signature"
				case 2:
					for i := 0; i < 5000; i++ {
						b.LastCommit.Signatures = append(b.LastCommit.Signatures, types.NewCommitSigAbsent())
					}
					f = "5000 extra absent signatures"
				case 3:
					b.LastCommit.Height, f = b.LastCommit.Height+1, "Height+1"
				default:
					b.LastCommit.Round, f = math.MaxInt32, "Round=MaxInt32"
				}
				b.LastCommit = types.NewCommit(b.LastCommit.Height, b.LastCommit.Round, b.LastCommit.BlockID, b.LastCommit.Signatures)
				b.Header.LastCommitHash = b.LastCommit.Hash()
				blockCase("block-bad-lastcommit", b, fmt.Sprintf("genuine block %d with LastCommit: %s, hash recomputed", hh, f))
			case 10, 11:
				sr := [][2]int64{{0, 0}, {0, math.MaxInt64}, {math.MaxInt64, math.MaxInt64}, {5, 3}, {-1, 4}, {1, -1},
					{start + 100, start + 200}, {1, start}, {1, 1}, {math.MinInt64, math.MinInt64}}[r.Intn(10)]
				hostile("status-response", c17BcWrap(&bcproto.StatusResponse{Base: sr[0], Height: sr[1]}),
					fmt.Sprintf("&StatusResponse{Base: %d, Height: %d}", sr[0], sr[1]))
			case 12, 13:
				h := []int64{0, -1, math.MaxInt64, math.MinInt64, start, start + 1, 1}[r.Intn(7)]
				hostile("block-request", c17BcWrap(&bcproto.BlockRequest{Height: h}), fmt.Sprintf("&BlockRequest{Height: %d}", h))
			case 14, 15:
				h := []int64{0, -1, math.MaxInt64, want, want + 1, 1}[r.Intn(6)]
				hostile("no-block-response", c17BcWrap(&bcproto.NoBlockResponse{Height: h}), fmt.Sprintf("&NoBlockResponse{Height: %d}", h))
			case 16:
				hostile("status-request", c17BcWrap(&bcproto.StatusRequest{}), "&StatusRequest{}")
			case 17:
				b, _ := proto.Marshal(&bcproto.Message{})
				hostile("empty-message", b, "&Message{Sum: nil}")
			case 18:
				in.chID = byte(r.Uint64())
				hostile("wrong-channel", c17BcWrap(&bcproto.StatusResponse{Base: 1, Height: 9}), "&StatusResponse{Base: 1, Height: 9}")
			case 19: // genuine block of the height we want, but its header says it is an earlier/later one
				b := c17BcBlock(want + 1)
				b.Header.Height = want
				blockCase("block-relabelled", b, fmt.Sprintf("genuine block %d with Header.Height=%d", want+1, want))
			case 20: // block 1 style: empty LastCommit at a height > 1
				b := c17BcBlock(h2)
				b.LastCommit = types.NewCommit(0, 0, types.BlockID{}, nil)
				b.Header.LastCommitHash = b.LastCommit.Hash()
				blockCase("block-empty-lastcommit", b, fmt.Sprintf("genuine block %d with empty LastCommit", h2))
			case 21:
				b := c17BcBlock(h2)
				b.Header.Version.Block = uint64(r.Intn(3)) + 12
				blockCase("block-version", b, fmt.Sprintf("genuine block %d with Version.Block=%d", h2, b.Header.Version.Block))
			case 22:
				b := c17BcBlock(h2)
				b.Header.Time = time.Unix(0, 0).UTC()
				blockCase("block-time-0", b, fmt.Sprintf("genuine block %d with Time=epoch", h2))
			default:
				blockCase("block-genuine-wanted", c17BcBlock(want), fmt.Sprintf("genuine block %d", want))
			}
		}
	}
	in.extra += fmt.Sprintf(" start_height=%d announced=[1,%d]", start, ann)
	return in
}

// directed cases first (none: no defect of this reactor is known)
var c17BcDirected = []func(in *c17Input, start, ann *int64){}

func c17BcParse(extra string) (start, ann int64) {
	i := strings.Index(extra, "start_height=")
	fmt.Sscanf(extra[i:], "start_height=%d announced=[1,%d]", &start, &ann)
	return
}

func c17BcExec(in c17Input, rec *c17Rec) {
	start, ann := c17BcParse(in.extra)
	env := c17NewBcEnv(start)
	defer env.close()
	hostile := c17NewPeer(2, false)
	want := start + 1

	announce := func() {
		env.recv(hostile, c17BcWrap(&bcproto.StatusResponse{Base: 1, Height: ann}))
		for dl := time.Now().Add(500 * time.Millisecond); time.Now().Before(dl); time.Sleep(time.Millisecond) {
			// every requester of the announced range must have settled on the peer (a requester that
			// is between pickIncrAvailablePeer and `bpr.peerID = peer.id` when the peer is removed is
			// missed by removePeer's redo and then waits requestRetrySeconds = 30 s: a stall, not a wedge)
			rq, all := c17BcRequested(hostile), true
			for h := want; h <= ann; h++ {
				all = all && rq[h]
			}
			if all {
				return
			}
		}
		rec.Note += " setup: hostile peer was not asked for blocks"
	}
	switch in.state {
	case 1:
		env.toSwitch(hostile)
	case 2:
		env.toSwitch(hostile)
		announce()
	case 3:
		env.toSwitch(hostile)
		announce()
		env.recv(hostile, c17BcBlockMsg(c17BcBlock(want+1)))
	case 4:
		env.toSwitch(hostile)
		announce()
		env.bcR.RemovePeer(hostile, "removed earlier")
		_ = env.sw.Peers().(*p2p.PeerSet).Remove(hostile)
	}
	if !hostile.IsRunning() {
		rec.Note += " setup: hostile peer stopped during setup"
	}
	h0 := env.node.store.Height()

	a0 := c17TotalAlloc()
	done, pan, pv := c17Timed(2*time.Second, func() { env.bcR.Receive(in.chID, hostile, in.data) })
	if done {
		// let the routines react: errors are forwarded at once, blocks are tried every 10 ms
		wait := 15 * time.Millisecond
		if len(in.data) > 16 || in.state >= 2 {
			wait = 60 * time.Millisecond
		}
		// ... and wait until poolRoutine is done with a pair of blocks it may be verifying (it ends
		// with the sender stopped or with the pair consumed)
		t0 := time.Now()
		for dl := t0.Add(3 * time.Second); time.Now().Before(dl); time.Sleep(time.Millisecond) {
			if !hostile.IsRunning() {
				break
			}
			if f, s := env.bcR.pool.PeekTwoBlocks(); (f == nil || s == nil) && time.Since(t0) >= wait {
				break
			}
		}
	}
	rec.Alloc = c17TotalAlloc() - a0
	rec.Stuck = !done
	rec.RecvPanic = pan
	if pan {
		rec.Note += " recv-panic: " + c17Trunc(pv, 160)
		env.sw.StopPeerForError(hostile, pv) // what MConnection._recover -> onPeerError does
	}
	rec.Stopped = !hostile.IsRunning()
	rec.Note += fmt.Sprintf(" store-height=%d->%d", h0, env.node.store.Height())
	if done {
		// poolRoutine finishes its iteration (after StopPeerForError(first's peer) it still calls
		// RedoRequest(second.Height), which punishes whoever holds that request by then)
		time.Sleep(15 * time.Millisecond)
	}

	alive := false
	if !rec.Stuck {
		ok, ppan, ppv := c17Timed(14*time.Second, func() {
			asker := c17NewPeer(5, false)
			env.toSwitch(asker)
			env.bcR.Receive(BlockchainChannel, asker, c17BcWrap(&bcproto.StatusRequest{}))
			n := 0
			for _, m := range asker.Sent() {
				if _, ok := m.(*bcproto.StatusResponse); ok {
					n++
				}
			}
			if n < 2 { // one from AddPeer, one for the request
				rec.Note += " probe: StatusRequest not answered"
				return
			}
			if !env.bcR.IsRunning() {
				rec.Note += " probe: reactor not running"
				return
			}
			// the hostile peer goes away, an honest one serves the genuine chain
			if hostile.IsRunning() {
				if env.sw.Peers().Has(hostile.ID()) {
					env.sw.StopPeerGracefully(hostile)
				} else {
					hostile.Stop() //nolint:errcheck
				}
			}
			env.bcR.RemovePeer(hostile, "gone")
			// the requesters drop the departed peer's blocks asynchronously (redoCh): wait for that, so
			// that a stale block of the hostile peer is not charged to the honest one (RedoRequest
			// punishes whoever holds the request at that moment)
			for dl := time.Now().Add(500 * time.Millisecond); time.Now().Before(dl); time.Sleep(time.Millisecond) {
				held := false
				env.bcR.pool.mtx.Lock()
				for _, rq := range env.bcR.pool.requesters {
					if rq.getPeerID() == hostile.ID() {
						held = true
					}
				}
				env.bcR.pool.mtx.Unlock()
				if !held {
					break
				}
			}
			type blockReq struct {
				p *c17Peer
				h int64
			}
			reqs := make(chan blockReq, 1024)
			stopServe := make(chan struct{})
			defer close(stopServe)
			env.bg.Go("harness: honest block server", func() {
				for {
					select {
					case <-stopServe:
						return
					case rq := <-reqs:
						if !rq.p.IsRunning() {
							continue
						}
						if rq.h >= 1 && rq.h <= c17BcSrcN {
							env.bcR.Receive(BlockchainChannel, rq.p, c17BcBlockMsg(c17BcBlock(rq.h)))
						} else {
							env.bcR.Receive(BlockchainChannel, rq.p, c17BcWrap(&bcproto.NoBlockResponse{Height: rq.h}))
						}
					}
				}
			})
			h1 := env.node.store.Height()
			target := h1 + 2
			if target > c17BcSrcN-1 {
				target = c17BcSrcN - 1
			}
			// an honest peer that is dropped (it can be: see the RedoRequest remark above) reconnects,
			// as a real peer would
			for conn := 0; conn < 3; conn++ {
				honest := c17NewPeer(byte(40+conn), true)
				honest.onSend = func(e p2p.Envelope) {
					if rq, ok := e.Message.(*bcproto.BlockRequest); ok {
						select {
						case reqs <- blockReq{honest, rq.Height}:
						default:
						}
					}
				}
				env.toSwitch(honest)
				env.bcR.Receive(BlockchainChannel, honest, c17BcWrap(&bcproto.StatusResponse{Base: 1, Height: c17BcSrcN}))
				for dl := time.Now().Add(4 * time.Second); time.Now().Before(dl) && honest.IsRunning(); time.Sleep(2 * time.Millisecond) {
					if env.node.store.Height() >= target {
						alive = true
						return
					}
				}
				if honest.IsRunning() {
					break
				}
				rec.Note += fmt.Sprintf(" probe: honest peer connection %d was stopped by the node", conn)
			}
			rec.Note += fmt.Sprintf(" probe: no progress, store height %d (wanted %d), pool running=%v",
				env.node.store.Height(), target, env.bcR.pool.IsRunning())
		})
		if !ok {
			rec.Note += " probe: timed out"
		}
		if ppan {
			rec.Note += " probe panicked: " + c17Trunc(ppv, 200)
		}
	}
	bgp, bgs := env.bg.Panicked()
	rec.BgPanic = bgp
	if bgp {
		rec.Note += " bg-panic: " + c17Trunc(bgs, 200)
	}
	rec.Alive = alive
}

func TestVerifC17ReactorBlockchain(t *testing.T) {
	c17Drive(t, "TestVerifC17ReactorBlockchain", "c17_reactor_blockchain", 4, vg.Scale(40, 4000), c17BcGen, c17BcExec)
}

var _ = hex.EncodeToString
