//go:build verif

package v0

// C17, finding F93 — a connection stopped by a reactor from inside Receive.
//
//	TestVerifC17StopInReceive  connection level: a REAL started MConnection (p2p/conn) is written a
//	                           packet stream with ONE Write (what a peer puts into one flush); its
//	                           onReceive stops the connection (Stop or FlushStop: what
//	                           Switch.StopPeerForError / StopPeerGracefully end in) when it is handed the
//	                           marked message.  Monitor: no onReceive after the stop.
//	TestVerifC17GhostPeer      node level: a victim node (real Switch, real BlockchainReactor and
//	                           BlockPool) syncing from an honest node; a hostile node sends an invalid
//	                           blockchain message and a StatusResponse with a far height back to back.
//	                           Monitor: once the hostile peer is disconnected the pool has no entry for
//	                           it and the node leaves block sync.
//
// Both are violations on the code without fixes/F93, hence gated.

import (
	"bytes"
	"fmt"
	"math"
	"net"
	"os"
	"strings"
	"sync"
	"testing"
	"time"

	cfg "github.com/tendermint/tendermint/config"
	vg "github.com/tendermint/tendermint/internal/verifgen"
	"github.com/tendermint/tendermint/libs/log"
	"github.com/tendermint/tendermint/libs/protoio"
	"github.com/tendermint/tendermint/p2p"
	"github.com/tendermint/tendermint/p2p/conn"
	bcproto "github.com/tendermint/tendermint/proto/tendermint/blockchain"
	tmp2p "github.com/tendermint/tendermint/proto/tendermint/p2p"
)

// c17F93 gates the cases of finding F93 (MConnection.recvRoutine dispatches buffered packets
// after the connection was stopped).  THE ONE PLACE TO FLIP once fixes/F93 is applied: make
// this `!= "0"` (default on).
func c17F93() bool { return os.Getenv("VERIF_C17_F93") != "0" } // on by default: the finding is recorded in known_findings.json

const c17StMark = 238 // first byte of the message at which onReceive stops the connection

type c17StItem struct {
	kind string // msg, ping, pong
	ch   byte
	eof  bool
	data []byte
}

func (it c17StItem) wire() []byte {
	var p tmp2p.Packet
	switch it.kind {
	case "ping":
		p.Sum = &tmp2p.Packet_PacketPing{PacketPing: &tmp2p.PacketPing{}}
	case "pong":
		p.Sum = &tmp2p.Packet_PacketPong{PacketPong: &tmp2p.PacketPong{}}
	default:
		p.Sum = &tmp2p.Packet_PacketMsg{PacketMsg: &tmp2p.PacketMsg{ChannelID: int32(it.ch), EOF: it.eof, Data: it.data}}
	}
	var buf bytes.Buffer
	if _, err := protoio.NewDelimitedWriter(&buf).WriteMsg(&p); err != nil {
		panic(err)
	}
	return buf.Bytes()
}

func (it c17StItem) coq() string {
	switch it.kind {
	case "ping":
		return "HPing"
	case "pong":
		return "HPong"
	}
	return vg.App("HMsg", vg.Z(int64(it.ch)), vg.B(it.eof), "(BH "+vg.Hx(it.data)+")")
}

func (it c17StItem) human() string {
	if it.kind != "msg" {
		return it.kind
	}
	return fmt.Sprintf("PacketMsg{ChannelID:%d EOF:%v Data:%x}", it.ch, it.eof, it.data)
}

type c17StDesc struct {
	id   byte
	rcap int
}

// messages as packet lists; the packets of messages on different channels may interleave
func c17StGen(r *vg.Rand, directed int) (maxsz int, ds []c17StDesc, items []c17StItem) {
	maxsz = []int{1, 2, 3, 4, 8, 16}[r.Intn(6)]
	nch := 1 + r.Intn(3)
	ids := r.Perm(6)
	for i := 0; i < nch; i++ {
		ds = append(ds, c17StDesc{id: byte(0x40 + ids[i]), rcap: maxsz * (2 + r.Intn(4))})
	}
	nmsg := 2 + r.Intn(7)
	k := r.Intn(nmsg) // the marked message
	if directed == 1 {
		k = 0
	}
	second := -1
	if r.Chance(30) && k+1 < nmsg {
		second = k + 1 + r.Intn(nmsg-k-1) // a second marked message: must never be reached
	}
	type pend struct{ pkts []c17StItem }
	var queues [][]c17StItem
	seed := byte(r.Intn(200))
	for i := 0; i < nmsg; i++ {
		d := ds[r.Intn(len(ds))]
		n := r.Intn(d.rcap + 1)
		seed += 11
		if seed == c17StMark {
			seed++
		}
		s := seed
		if i == k || i == second {
			s = c17StMark
			if n == 0 {
				n = 1
			}
		}
		msg := make([]byte, n)
		for j := range msg {
			msg[j] = s + byte(3*j)
		}
		var pk []c17StItem
		for off := 0; ; off += maxsz {
			end := off + maxsz
			if end >= len(msg) {
				pk = append(pk, c17StItem{kind: "msg", ch: d.id, eof: true, data: msg[off:]})
				break
			}
			pk = append(pk, c17StItem{kind: "msg", ch: d.id, eof: false, data: msg[off:end]})
		}
		queues = append(queues, pk)
	}
	// serialise: message after message, except that a message on another channel may start
	// before the previous one has ended (packets interleave across channels, never within one)
	for i := 0; i < len(queues); i++ {
		q := queues[i]
		if i+1 < len(queues) && queues[i+1][0].ch != q[0].ch && r.Chance(35) {
			a, b := q, queues[i+1]
			for len(a) > 0 || len(b) > 0 {
				if len(a) > 0 && (len(b) == 0 || r.Bool()) {
					items, a = append(items, a[0]), a[1:]
				} else {
					items, b = append(items, b[0]), b[1:]
				}
			}
			i++
			continue
		}
		items = append(items, q...)
		if r.Chance(10) {
			items = append(items, c17StItem{kind: []string{"ping", "pong"}[r.Intn(2)]})
		}
	}
	return
}

func TestVerifC17StopInReceive(t *testing.T) {
	if !c17F93() {
		return
	}
	cs := vg.NewCases("C17", "c17_stop_in_receive", "TM.C17.Exec")
	root := vg.NewRand(vg.Seed() ^ 0xF93)
	n := vg.Scale(60, 4000)
	for k := 0; k < n; k++ {
		id := cs.NextID()
		if !cs.Want(id) {
			continue
		}
		r := root.Fork(uint64(k))
		directed := 0
		if k < 2 {
			directed = 1
		}
		maxsz, ds, items := c17StGen(r, directed)
		how := 1 + k%2

		a, b := net.Pipe()
		var mu sync.Mutex
		type je struct {
			ch  byte
			msg []byte
		}
		var journal []je
		stopped, nafter, nstops := false, 0, 0
		nerr := 0
		var mc *conn.MConnection
		onReceive := func(ch byte, msg []byte) {
			mu.Lock()
			if stopped {
				nafter++
			}
			journal = append(journal, je{ch, append([]byte{}, msg...)})
			mu.Unlock()
			if len(msg) > 0 && msg[0] == c17StMark {
				// the reactor's verdict on this message: stop the peer
				if how == 1 {
					_ = mc.Stop()
				} else {
					mc.FlushStop()
				}
				mu.Lock()
				stopped = true
				nstops++
				mu.Unlock()
			}
		}
		descs := make([]*conn.ChannelDescriptor, len(ds))
		for i, d := range ds {
			descs[i] = &conn.ChannelDescriptor{ID: d.id, Priority: 1, SendQueueCapacity: 1, RecvMessageCapacity: d.rcap}
		}
		mcfg := conn.DefaultMConnConfig()
		mcfg.MaxPacketMsgPayloadSize = maxsz
		mc = conn.NewMConnectionWithConfig(a, descs, onReceive, func(interface{}) { mu.Lock(); nerr++; mu.Unlock() }, mcfg)
		mc.SetLogger(log.NewNopLogger())
		if err := mc.Start(); err != nil {
			t.Fatal(err)
		}
		go func() { // whatever the connection sends back
			buf := make([]byte, 4096)
			for {
				if _, err := b.Read(buf); err != nil {
					return
				}
			}
		}()
		var stream []byte
		for _, it := range items {
			stream = append(stream, it.wire()...)
		}
		wdone := make(chan struct{})
		go func() { // ONE Write: one flush of the peer
			_ = b.SetWriteDeadline(time.Now().Add(2 * time.Second))
			_, _ = b.Write(stream)
			close(wdone)
		}()
		for t0 := time.Now(); time.Since(t0) < 2*time.Second; time.Sleep(200 * time.Microsecond) {
			mu.Lock()
			s := stopped
			mu.Unlock()
			if s {
				break
			}
		}
		time.Sleep(15 * time.Millisecond) // what is buffered is dispatched within microseconds
		_ = mc.Stop()
		b.Close()
		a.Close()
		<-wdone
		mu.Lock()
		var dc, dh, ih, ic []string
		for _, e := range journal {
			dc = append(dc, vg.Tup(vg.Z(int64(e.ch)), "(BH "+vg.Hx(e.msg)+")"))
			dh = append(dh, fmt.Sprintf("ch%d:%x", e.ch, e.msg))
		}
		na, ns := nafter, nstops
		mu.Unlock()
		for _, it := range items {
			ic = append(ic, it.coq())
			ih = append(ih, it.human())
		}
		dsc := make([]string, len(ds))
		dsh := make([]string, len(ds))
		for i, d := range ds {
			dsc[i] = vg.Tup(vg.Z(int64(d.id)), vg.Z(int64(d.rcap)))
			dsh[i] = fmt.Sprintf("{ID:%d RecvMessageCapacity:%d}", d.id, d.rcap)
		}
		term := vg.App("CStopIn", vg.N(uint64(how)), vg.L(dsc), vg.L(ic), vg.L(dc), vg.Z(int64(na)), vg.Z(int64(ns)))
		descr := fmt.Sprintf("started MConnection (MaxPacketMsgPayloadSize=%d channels=[%s]) whose onReceive calls %s on a message starting with 0xee; ONE Write of %d bytes: %s | onReceive journal: %s | onReceive calls after the stop had returned: %d, stops: %d",
			maxsz, strings.Join(dsh, ","), []string{"", "mconn.Stop()", "mconn.FlushStop()"}[how], len(stream), strings.Join(ih, "; "), strings.Join(dh, " "), na, ns)
		cs.Add(id, fmt.Sprintf("stop-in-receive:how%d", how), true, term, descr)
	}
	if err := cs.Write(); err != nil {
		t.Fatal(err)
	}
}

// ---------------------------------------------------------------- node level

type c17StHostile struct {
	p2p.BaseReactor
	together bool
	inv      int
	far      int64
	victim   p2p.ID
}

func (r *c17StHostile) GetChannels() []*p2p.ChannelDescriptor {
	return []*p2p.ChannelDescriptor{{ID: BlockchainChannel, Priority: 5, SendQueueCapacity: 1000,
		RecvBufferCapacity: 50 * 4096, RecvMessageCapacity: 10 << 20, MessageType: &bcproto.Message{}}}
}
func (r *c17StHostile) ReceiveEnvelope(p2p.Envelope)     {}
func (r *c17StHostile) Receive(byte, p2p.Peer, []byte)   {}
func (r *c17StHostile) RemovePeer(p2p.Peer, interface{}) {}
func (r *c17StHostile) invalid() (p2p.Envelope, string) {
	switch r.inv {
	case 1:
		return p2p.Envelope{ChannelID: BlockchainChannel, Message: &bcproto.BlockRequest{Height: -1}}, "BlockRequest{Height:-1}"
	case 2:
		return p2p.Envelope{ChannelID: BlockchainChannel, Message: &bcproto.NoBlockResponse{Height: -1}}, "NoBlockResponse{Height:-1}"
	case 3:
		return p2p.Envelope{ChannelID: BlockchainChannel, Message: &bcproto.StatusResponse{Base: 5, Height: 1}}, "StatusResponse{Base:5,Height:1}"
	}
	return p2p.Envelope{ChannelID: BlockchainChannel, Message: &bcproto.BlockResponse{}}, "BlockResponse{Block:nil}"
}
func (r *c17StHostile) AddPeer(peer p2p.Peer) {
	if peer.ID() != r.victim {
		return
	}
	invalid, _ := r.invalid()
	status := p2p.Envelope{ChannelID: BlockchainChannel, Message: &bcproto.StatusResponse{Base: r.far, Height: r.far}}
	go func() {
		if r.together {
			p2p.SendEnvelopeShim(peer, invalid, log.NewNopLogger())
			p2p.SendEnvelopeShim(peer, status, log.NewNopLogger())
		} else {
			p2p.SendEnvelopeShim(peer, status, log.NewNopLogger())
			time.Sleep(300 * time.Millisecond)
			p2p.SendEnvelopeShim(peer, invalid, log.NewNopLogger())
		}
	}()
}

func c17StRunGhost(t *testing.T, together bool, inv int, far int64, top int64) (dropped, ghost bool, maxH int64, caughtUp bool, storeH int64) {
	config = cfg.ResetTestRoot("verif_c17_ghost")
	defer os.RemoveAll(config.RootDir)
	genDoc, privVals := randGenesisDoc(1, false, 30)

	victim := newBlockchainReactor(log.NewNopLogger(), genDoc, privVals, 0)
	honest := newBlockchainReactor(log.NewNopLogger(), genDoc, privVals, top)
	hostile := &c17StHostile{together: together, inv: inv, far: far}
	hostile.BaseReactor = *p2p.NewBaseReactor("hostile", hostile)

	var victimSw *p2p.Switch
	switches := make([]*p2p.Switch, 3)
	initSw := func(i int, s *p2p.Switch) *p2p.Switch {
		switch i {
		case 0:
			s.AddReactor("BLOCKCHAIN", victim.reactor)
			victimSw = s
		case 1:
			s.AddReactor("BLOCKCHAIN", honest.reactor)
		default:
			s.AddReactor("BLOCKCHAIN", hostile)
		}
		s.SetLogger(log.NewNopLogger())
		return s
	}
	for i := range switches {
		switches[i] = p2p.MakeSwitch(config.P2P, i, p2p.TestHost, "123.123.123", initSw)
	}
	hostile.victim = victimSw.NodeInfo().ID()
	hostileID := switches[2].NodeInfo().ID()
	for _, s := range switches {
		if err := s.Start(); err != nil {
			t.Fatal(err)
		}
	}
	p2p.Connect2Switches(switches, 0, 1)
	p2p.Connect2Switches(switches, 0, 2)
	defer func() {
		for _, s := range switches {
			s.Stop() //nolint:errcheck
		}
		victim.app.Stop() //nolint:errcheck
		honest.app.Stop() //nolint:errcheck
	}()

	// the victim syncs what the honest peer has; the hostile peer gets dropped
	for t0 := time.Now(); time.Since(t0) < 15*time.Second; time.Sleep(10 * time.Millisecond) {
		if victim.reactor.store.Height() >= top-1 && !victimSw.Peers().Has(hostileID) {
			break
		}
	}
	time.Sleep(100 * time.Millisecond) // what was buffered behind the refused message has been handled by now
	dropped = !victimSw.Peers().Has(hostileID)
	for t0 := time.Now(); time.Since(t0) < 3*time.Second && !caughtUp; time.Sleep(20 * time.Millisecond) {
		caughtUp = victim.reactor.pool.IsCaughtUp() || !victim.reactor.pool.IsRunning()
	}
	pool := victim.reactor.pool
	pool.mtx.Lock()
	_, ghost = pool.peers[hostileID]
	maxH = pool.maxPeerHeight
	pool.mtx.Unlock()
	return dropped, ghost, maxH, caughtUp, victim.reactor.store.Height()
}

func TestVerifC17GhostPeer(t *testing.T) {
	if !c17F93() {
		return
	}
	cs := vg.NewCases("C17", "c17_ghost_peer", "TM.C17.Exec")
	root := vg.NewRand(vg.Seed() ^ 0xF93)
	const top = int64(10)
	n := vg.Scale(4, 60)
	for k := 0; k < n; k++ {
		id := cs.NextID()
		if !cs.Want(id) {
			continue
		}
		r := root.Fork(uint64(1000 + k))
		together := k%4 != 3 // one control in four: status first, the invalid message later
		inv := 1 + r.Intn(4)
		far := []int64{1000000000000000, top + 5, math.MaxInt64, top + 1000}[r.Intn(4)]
		if k == 0 {
			inv, far = 1, 1000000000000000
		}
		dropped, ghost, maxH, caughtUp, storeH := c17StRunGhost(t, together, inv, far, top)
		h := &c17StHostile{inv: inv}
		_, invName := h.invalid()
		term := vg.App("CGhost", vg.B(together), vg.N(uint64(inv)), vg.Z(far), vg.Z(top), vg.B(dropped), vg.B(ghost), vg.Z(maxH), vg.B(caughtUp))
		order := fmt.Sprintf("%s and StatusResponse{Base:%d,Height:%d} back to back", invName, far, far)
		if !together {
			order = fmt.Sprintf("StatusResponse{Base:%d,Height:%d}, 300 ms later %s", far, far, invName)
		}
		descr := fmt.Sprintf("three real switches: victim (blockchain/v0 reactor, empty store), honest node with %d blocks, hostile node that sends on the blockchain channel %s | hostile peer disconnected=%v, BlockPool entry for it=%v, pool.maxPeerHeight=%d, victim store height=%d, IsCaughtUp=%v",
			top, order, dropped, ghost, maxH, storeH, caughtUp)
		kind := "ghost:together"
		if !together {
			kind = "ghost:control"
		}
		cs.Add(id, kind, true, term, descr)
	}
	if err := cs.Write(); err != nil {
		t.Fatal(err)
	}
}
