//go:build verif

package v2

// C13 harness for blockchain/v2 (injected with `go test -overlay`; nothing is written to the
// repository).  The real scheduler and the real processor (real block store, real
// BlockExecutor, real commit verification) are wired together as the reactor's demux routine
// wires them, but synchronously, so that the order in which peer messages arrive is the
// harness's.  Two peers announce the whole chain [1, tip]: a liar whose answer to the request
// for height 1 is a block of its own making (its other answers are the real blocks; it answers
// only its first 1+extra requests before the node processes), and an honest peer, known before
// or after the first round of requests, whose answers arrive in request order, in reverse
// order or in PRNG order.  Monitors only (CV2): no panic / error in scheduler or processor,
// everything stored is canonical, the honest peer is removed only as a supplier of a rejected
// pair, with the honest peer connected the node stores every block below the tip and
// finishes, and the stored seen commit of the last block lets consensus rebuild its LastCommit.
// The chains are made by the package's own newReactorStore (one validator; vote timestamps are
// time.Now(), so hashes differ from run to run: the case terms carry no hashes).

import (
	"fmt"
	"testing"
	"time"

	vg "github.com/tendermint/tendermint/internal/verifgen"
	"github.com/tendermint/tendermint/p2p"
	sm "github.com/tendermint/tendermint/state"
	"github.com/tendermint/tendermint/store"
	"github.com/tendermint/tendermint/types"
)

type c13v2Node struct {
	sc       *scheduler
	pc       *pcState
	now      time.Time
	requests []scBlockRequest
	failures []pcBlockVerificationFailure
	finished *pcFinished
	crashed  string
}

func (n *c13v2Node) tick() time.Time {
	n.now = n.now.Add(10 * time.Millisecond)
	return n.now
}

func (n *c13v2Node) fail(format string, a ...interface{}) {
	if n.crashed == "" {
		n.crashed = fmt.Sprintf(format, a...)
	}
}

func (n *c13v2Node) toScheduler(ev Event) {
	if n.crashed != "" {
		return
	}
	var out Event
	var err error
	func() {
		defer func() {
			if r := recover(); r != nil {
				n.fail("scheduler panic on %T: %v", ev, r)
			}
		}()
		out, err = n.sc.handle(ev)
	}()
	if err != nil {
		n.fail("scheduler error on %T: %v", ev, err)
		return
	}
	switch out := out.(type) {
	case scBlockReceived, scPeerError, scFinishedEv:
		n.toProcessor(out)
	case scBlockRequest:
		n.requests = append(n.requests, out)
	case scSchedulerFail:
		n.fail("scheduler failure: %v", out.reason)
	}
}

func (n *c13v2Node) toProcessor(ev Event) (progressed bool) {
	if n.crashed != "" {
		return false
	}
	var out Event
	var err error
	func() {
		defer func() {
			if r := recover(); r != nil {
				n.fail("processor panic on %T: %v", ev, r)
			}
		}()
		out, err = n.pc.handle(ev)
	}()
	if err != nil {
		n.fail("processor error on %T: %v", ev, err)
		return false
	}
	switch out := out.(type) {
	case pcBlockProcessed:
		n.toScheduler(out)
		return true
	case pcBlockVerificationFailure:
		n.failures = append(n.failures, out)
		n.toScheduler(out)
		return true
	case pcFinished:
		n.finished = &out
	}
	return false
}

func (n *c13v2Node) status(peerID p2p.ID, base, height int64) {
	n.toScheduler(bcStatusResponse{time: n.tick(), peerID: peerID, base: base, height: height})
}

func (n *c13v2Node) schedule() []scBlockRequest {
	n.requests = nil
	for i := 0; i < 50 && n.crashed == ""; i++ {
		n.toScheduler(rTrySchedule{time: n.tick()})
	}
	return n.requests
}

func (n *c13v2Node) deliver(peerID p2p.ID, block *types.Block) {
	n.toScheduler(bcBlockResponse{time: n.tick(), peerID: peerID, size: block.Size(), block: block})
}

func (n *c13v2Node) process() {
	for i := 0; i < 1000 && n.finished == nil && n.crashed == "" && n.toProcessor(rProcessBlock{}); i++ {
	}
}

type c13v2Case struct {
	tip        int64
	liar       bool
	extra      int  // further (real) blocks the liar delivers before the node processes
	honestLate bool // the honest peer becomes known after the first round of requests
	order      int  // honest answers: 0 request order, 1 reverse, 2 PRNG order
}

func c13v2Run(c c13v2Case, r *vg.Rand) (term, descr string) {
	genDoc, privVals := randGenesisDoc("verif-c13-v2", 1, false, 30)
	refStore, _, _ := newReactorStore(genDoc, privVals, c.tip)
	var nodeStore *store.BlockStore
	var nodeState sm.State
	var nodeExec *sm.BlockExecutor
	nodeStore, nodeState, nodeExec = newReactorStore(genDoc, privVals, 0)
	n := &c13v2Node{sc: newScheduler(nodeState.InitialHeight, time.Now()),
		pc: newPcState(newProcessorContext(nodeStore, nodeExec, nodeState)), now: time.Now()}
	const liar, honest = p2p.ID("liar"), p2p.ID("honest")
	var journal []string

	forged, _ := nodeState.MakeBlock(1, []types.Tx{types.Tx("not what was committed")},
		types.NewCommit(0, 0, types.BlockID{}, nil), nil, nodeState.Validators.GetProposer().Address)
	answer := func(p p2p.ID, h int64) {
		if h < 1 || h > c.tip {
			return
		}
		b := refStore.LoadBlock(h)
		if p == liar && h == 1 {
			b = forged
		}
		n.deliver(p, b)
		n.process()
	}
	order := func(reqs []scBlockRequest) []scBlockRequest {
		out := append([]scBlockRequest{}, reqs...)
		switch c.order {
		case 1:
			for i, j := 0, len(out)-1; i < j; i, j = i+1, j-1 {
				out[i], out[j] = out[j], out[i]
			}
		case 2:
			p := r.Perm(len(out))
			for i := range p {
				out[i] = reqs[p[i]]
			}
		}
		return out
	}

	ready := func(p p2p.ID) bool { return n.sc.peers[p] != nil && n.sc.peers[p].state == peerStateReady }
	if c.liar {
		n.status(liar, 1, c.tip)
	}
	if !c.honestLate || !c.liar {
		n.status(honest, 1, c.tip)
	}
	reqs := n.schedule()
	if c.honestLate && c.liar {
		n.status(honest, 1, c.tip) // shows up after the first round of requests went out
	}
	// the liar's first 1+extra answers arrive back to back (they queue up in the processor),
	// then the node processes
	var lreqs, hreqs []scBlockRequest
	for _, rq := range reqs {
		if rq.peerID == liar {
			lreqs = append(lreqs, rq)
		} else {
			hreqs = append(hreqs, rq)
		}
	}
	for i, rq := range lreqs {
		if i > c.extra {
			break
		}
		b := refStore.LoadBlock(rq.height)
		if rq.height == 1 {
			b = forged
		}
		n.deliver(liar, b)
		journal = append(journal, fmt.Sprintf("%d", rq.height))
	}
	n.process()
	// the honest peer's answers, then the rest of the liar's (while it is still a peer)
	for _, rq := range order(hreqs) {
		if ready(honest) {
			answer(honest, rq.height)
		}
	}
	for i, rq := range lreqs {
		if i > c.extra && ready(liar) {
			answer(liar, rq.height)
		}
	}
	// further rounds: every request is answered by the peer it went to
	for round := 0; round < 20 && n.finished == nil && n.crashed == ""; round++ {
		reqs = n.schedule()
		if len(reqs) == 0 {
			n.process()
			break
		}
		for _, rq := range order(reqs) {
			if ready(rq.peerID) {
				answer(rq.peerID, rq.height)
			}
		}
	}

	// observations
	stored := nodeStore.Height()
	canon := true
	for h := int64(1); h <= stored; h++ {
		b, m := nodeStore.LoadBlock(h), nodeStore.LoadBlockMeta(h)
		ref := refStore.LoadBlockMeta(h)
		if b == nil || m == nil || ref == nil || !m.BlockID.Equals(ref.BlockID) {
			canon = false
		}
	}
	honestReady := ready(honest)
	blamed := false // a block the honest peer supplied was part of a pair that failed verification
	for _, f := range n.failures {
		if f.firstPeerID == honest || f.secondPeerID == honest {
			blamed = true
		}
	}
	dropped := !honestReady && !blamed && n.finished == nil
	ho := uint64(2)
	if stored > 0 {
		ho = func() (res uint64) {
			defer func() {
				if rc := recover(); rc != nil {
					res = 1
				}
			}()
			st := n.pc.context.tmState() // the state after the last ApplyBlock
			if n.finished != nil {
				st = n.finished.tmState
			}
			if st.LastBlockHeight != stored {
				return 1 // state and store disagree
			}
			seen := nodeStore.LoadSeenCommit(stored)
			if seen == nil {
				return 1
			}
			if !types.CommitToVoteSet(genDoc.ChainID, seen, st.LastValidators).HasTwoThirdsMajority() {
				return 1
			}
			return 0
		}()
	}
	term = vg.App("CV2", vg.Z(c.tip), vg.Tup(vg.B(n.crashed != ""), vg.Z(stored), vg.B(canon), vg.B(dropped),
		vg.B(honestReady), vg.B(n.finished != nil), vg.N(ho)))
	descr = fmt.Sprintf("blockchain/v2, real scheduler + processor wired synchronously; chain of %d blocks (one validator); liar present=%v (answers the request for height 1 with a block of its own making, its first 1+%d answers arrive before the node processes: heights %v; it answers every other request with the real block), honest peer [1,%d] known %s the first round of requests, its answers arrive in order %d (0 request order, 1 reverse, 2 PRNG). "+
		"Observed: crashed=%q, verification failures=%d, store height %d, all stored blocks canonical=%v, honest peer ready at the end=%v (blamed in a failed pair=%v), finished=%v, CommitToVoteSet on the last seen commit=%d (0 ok,1 panic/no +2/3,2 n/a)",
		c.tip, c.liar, c.extra, journal, c.tip, map[bool]string{true: "after", false: "before"}[c.honestLate && c.liar], c.order,
		n.crashed, len(n.failures), stored, canon, honestReady, blamed, n.finished != nil, ho)
	return term, descr
}

func TestVerifC13V2(t *testing.T) {
	cs := vg.NewCases("C13", "c13_v2", "TM.C13.Exec")
	root := vg.NewRand(vg.Seed())
	var cases []c13v2Case
	for _, tip := range []int64{4, 8} {
		for order := 0; order < 3; order++ {
			cases = append(cases, c13v2Case{tip: tip, order: order}) // honest only
			for _, extra := range []int{0, 1, 4} {
				cases = append(cases, c13v2Case{tip: tip, liar: true, extra: extra, honestLate: true, order: order},
					c13v2Case{tip: tip, liar: true, extra: extra, honestLate: false, order: order})
			}
		}
	}
	r := root.Fork(997)
	for n := vg.Scale(len(cases)+6, len(cases)+150); len(cases) < n; {
		tip := int64(3 + r.Intn(8))
		cases = append(cases, c13v2Case{tip: tip, liar: r.Intn(5) != 0, extra: r.Intn(int(tip)), honestLate: r.Bool(), order: r.Intn(3)})
	}
	for k, c := range cases {
		id := cs.NextID()
		if !cs.Want(id) {
			continue
		}
		term, descr := c13v2Run(c, root.Fork(uint64(7000+k)))
		kind := "v2:honest-only"
		if c.liar {
			kind = fmt.Sprintf("v2:liar:late=%v", c.honestLate)
		}
		cs.Add(id, kind, c.liar, term, descr)
	}
	if err := cs.Write(); err != nil {
		t.Fatal(err)
	}
}
