//go:build verif

package privval

// C04 correspondence harness for privval/file.go (injected with `go test -overlay`).
//
// A real FilePV lives in a temporary directory.  An operation list (directed scripts first, then
// PRNG-generated ones) of sign requests, crashes inside a sign request and restarts is run
// against it; every answer (error class, the canonical message as it stands after the call,
// signature, signature validity) and the content of the state file after every operation are
// written as a Coq case.  The canonical messages are obtained by *decoding the real sign-bytes*
// (protoio.UnmarshalDelimited into CanonicalVote / CanonicalProposal), block ids / chain ids /
// signatures are numbered by first occurrence.
//
// Crash points inside saveSigned -> Save -> tempfile.WriteFileAtomic:
//   cp 0  before the temp file exists: the state directory is moved away during the call, so the
//         real code fails to create the temp file and Save panics (LastSignState already assigned
//         in memory, file untouched);
//   cp 1  temp file written, not renamed: the state file path is occupied by a directory during
//         the call, so the real code writes and syncs the temp file and os.Rename fails -> panic;
//         a torn temp file is left behind in the directory for the restart to ignore;
//   cp 2  state file replaced, signVote has not returned: the call completes and its result is
//         dropped.
// After each of them the in-memory FilePV is thrown away and LoadFilePV is run on what is on disk.

import (
	"fmt"
	"os"
	"path/filepath"
	"strings"
	"testing"
	"time"

	"github.com/tendermint/tendermint/crypto/ed25519"
	vg "github.com/tendermint/tendermint/internal/verifgen"
	tmjson "github.com/tendermint/tendermint/libs/json"
	"github.com/tendermint/tendermint/libs/protoio"
	tmproto "github.com/tendermint/tendermint/proto/tendermint/types"
	"github.com/tendermint/tendermint/types"
)

type c04Req struct {
	prop  bool
	typ   int32 // vote type (proposals: ignored by the signer)
	h     int64
	r     int32
	polr  int32
	bid   int // index into c04World.blocks; 0 = nil block id
	ts    time.Time
	chain string
}

type c04Op struct {
	kind int // 0 sign, 1 crash during sign, 2 restart
	cp   int
	req  c04Req
	tag  string
}

type c04World struct {
	dir, keyFile, stateDir, stateFile string
	pv                                *FilePV
	blocks                            []tmproto.BlockID
	bidNum                            map[string]int64
	chainNum                          map[string]int64
	sigNum                            map[string]uint64
}

func c04NewWorld(r *vg.Rand) (*c04World, error) {
	dir, err := os.MkdirTemp("", "verif-c04-")
	if err != nil {
		return nil, err
	}
	w := &c04World{dir: dir, keyFile: filepath.Join(dir, "key.json"), stateDir: filepath.Join(dir, "st"),
		bidNum: map[string]int64{}, chainNum: map[string]int64{}, sigNum: map[string]uint64{}}
	w.stateFile = filepath.Join(w.stateDir, "state.json")
	if err := os.Mkdir(w.stateDir, 0o700); err != nil {
		return nil, err
	}
	w.pv = NewFilePV(ed25519.GenPrivKeyFromSecret(r.Bytes(32)), w.keyFile, w.stateFile)
	w.pv.Save()
	w.blocks = []tmproto.BlockID{{}}
	for i := 0; i < 3; i++ {
		w.blocks = append(w.blocks, tmproto.BlockID{Hash: r.Bytes(32),
			PartSetHeader: tmproto.PartSetHeader{Total: uint32(1 + r.Intn(3)), Hash: r.Bytes(32)}})
	}
	// block 3 = block 2 with another part set header (same hash): still "another block id"
	w.blocks[3].Hash = append([]byte{}, w.blocks[2].Hash...)
	return w, nil
}

func (w *c04World) close() { os.RemoveAll(w.dir) }

func (w *c04World) numBid(b *tmproto.CanonicalBlockID) int64 {
	if b == nil {
		return 0
	}
	bz, err := b.Marshal()
	if err != nil {
		panic(err)
	}
	if n, ok := w.bidNum[string(bz)]; ok {
		return n
	}
	n := int64(len(w.bidNum) + 1)
	w.bidNum[string(bz)] = n
	return n
}

func (w *c04World) numChain(c string) int64 {
	if n, ok := w.chainNum[c]; ok {
		return n
	}
	n := int64(len(w.chainNum) + 1)
	w.chainNum[c] = n
	return n
}

func (w *c04World) numSig(s []byte) uint64 {
	if len(s) == 0 {
		return 0
	}
	if n, ok := w.sigNum[string(s)]; ok {
		return n
	}
	n := uint64(len(w.sigNum) + 1)
	w.sigNum[string(s)] = n
	return n
}

// c04Msg is the decoded canonical message.
type c04Msg struct {
	prop                     bool
	typ, h, r, polr, bid, ts int64
	chain                    int64
}

func (m c04Msg) term() string {
	return vg.Tup(vg.B(m.prop), vg.Z(m.typ), vg.Z(m.h), vg.Z(m.r), vg.Z(m.polr), vg.Z(m.bid), vg.Z(m.ts), vg.Z(m.chain))
}

func (m c04Msg) String() string {
	k := "vote"
	if m.prop {
		k = "proposal"
	}
	return fmt.Sprintf("%s{type=%d h=%d r=%d polr=%d block#%d ts=%d chain#%d}", k, m.typ, m.h, m.r, m.polr, m.bid, m.ts, m.chain)
}

// decode real sign-bytes; ok=false when they are not a delimited canonical message of that kind
func (w *c04World) decode(prop bool, sb []byte) (c04Msg, bool) {
	if prop {
		var p tmproto.CanonicalProposal
		if err := protoio.UnmarshalDelimited(sb, &p); err != nil {
			return c04Msg{prop: true, typ: -99}, false
		}
		return c04Msg{prop: true, typ: int64(p.Type), h: p.Height, r: p.Round, polr: p.POLRound,
			bid: w.numBid(p.BlockID), ts: p.Timestamp.UnixNano(), chain: w.numChain(p.ChainID)}, true
	}
	var v tmproto.CanonicalVote
	if err := protoio.UnmarshalDelimited(sb, &v); err != nil {
		return c04Msg{typ: -99}, false
	}
	return c04Msg{typ: int64(v.Type), h: v.Height, r: v.Round, bid: w.numBid(v.BlockID),
		ts: v.Timestamp.UnixNano(), chain: w.numChain(v.ChainID)}, true
}

type c04Ans struct {
	req, out c04Msg
	rc       uint64
	sig      uint64
	sigOK    bool
}

// call runs SignVote / SignProposal of the current FilePV on the request.
func (w *c04World) call(q c04Req) (a c04Ans) {
	pub := w.pv.Key.PubKey
	var after func() ([]byte, []byte)
	var do func() error
	if q.prop {
		p := &tmproto.Proposal{Type: tmproto.ProposalType, Height: q.h, Round: q.r, PolRound: q.polr,
			BlockID: w.blocks[q.bid], Timestamp: q.ts}
		a.req, _ = w.decode(true, types.ProposalSignBytes(q.chain, p))
		do = func() error { return w.pv.SignProposal(q.chain, p) }
		after = func() ([]byte, []byte) { return types.ProposalSignBytes(q.chain, p), p.Signature }
	} else {
		v := &tmproto.Vote{Type: tmproto.SignedMsgType(q.typ), Height: q.h, Round: q.r, BlockID: w.blocks[q.bid],
			Timestamp: q.ts, ValidatorAddress: w.pv.Key.Address, ValidatorIndex: 0}
		a.req, _ = w.decode(false, types.VoteSignBytes(q.chain, v))
		do = func() error { return w.pv.SignVote(q.chain, v) }
		after = func() ([]byte, []byte) { return types.VoteSignBytes(q.chain, v), v.Signature }
	}
	a.out = a.req
	func() {
		defer func() {
			if e := recover(); e != nil {
				a.rc = 2
			}
		}()
		if err := do(); err != nil {
			a.rc = 1
		}
	}()
	if a.rc == 0 {
		sb, sig := after()
		a.out, _ = w.decode(q.prop, sb)
		a.sig = w.numSig(sig)
		a.sigOK = len(sig) > 0 && pub.VerifySignature(sb, sig)
	}
	return a
}

func (a c04Ans) term() string {
	return strings.Join([]string{a.req.term(), vg.N(a.rc), a.out.term(), vg.N(a.sig), vg.B(a.sigOK)}, " ")
}

// readDisk decodes the state file as it is on disk right now.
func (w *c04World) readDisk() (string, string) {
	bz, err := os.ReadFile(w.stateFile)
	var st FilePVLastSignState
	if err == nil {
		err = tmjson.Unmarshal(bz, &st)
	}
	if err != nil { // a node could not even start from this; reported as an impossible state
		return vg.Tup(vg.Z(-1), vg.Z(-1), vg.Z(-1), "None", vg.N(0), vg.B(false)), fmt.Sprintf("file{UNREADABLE: %v}", err)
	}
	sbT, sbS := "None", "-"
	ok := len(st.SignBytes) == 0 && len(st.Signature) == 0
	if len(st.SignBytes) > 0 {
		m, _ := w.decode(st.Step == stepPropose, st.SignBytes)
		sbT, sbS = "(Some "+m.term()+")", m.String()
		ok = len(st.Signature) > 0 && w.pv.Key.PubKey.VerifySignature(st.SignBytes, st.Signature)
	}
	sg := w.numSig(st.Signature)
	return vg.Tup(vg.Z(st.Height), vg.Z(int64(st.Round)), vg.Z(int64(st.Step)), sbT, vg.N(sg), vg.B(ok)),
		fmt.Sprintf("file{h=%d r=%d step=%d signbytes=%s sig#%d valid=%v}", st.Height, st.Round, st.Step, sbS, sg, ok)
}

// reload = process restart. LoadFilePV exits the process on an unreadable state file; in that case
// (already reported by readDisk) the old in-memory signer is kept so that the run can go on.
func (w *c04World) reload() {
	bz, err := os.ReadFile(w.stateFile)
	if err == nil {
		err = tmjson.Unmarshal(bz, &FilePVLastSignState{})
	}
	if err == nil {
		w.pv = LoadFilePV(w.keyFile, w.stateFile)
	}
}

func c04Must(err error) {
	if err != nil {
		panic(err)
	}
}

// crash runs the request with the process "dying" at crash point cp, then restarts.
func (w *c04World) crash(cp int, q c04Req) (c04Ans, string, string) {
	aside := filepath.Join(w.dir, "aside")
	armed := false // the fault could be set up (it cannot when the state file is already missing)
	switch cp {
	case 0:
		armed = os.Rename(w.stateDir, aside) == nil
	case 1:
		if os.Rename(w.stateFile, aside) == nil {
			armed = true
			c04Must(os.Mkdir(w.stateFile, 0o700))
			c04Must(os.WriteFile(filepath.Join(w.stateFile, "x"), []byte("x"), 0o600))
		}
	}
	a := w.call(q)
	switch {
	case cp == 0 && armed:
		c04Must(os.Rename(aside, w.stateDir))
	case cp == 1 && armed:
		c04Must(os.RemoveAll(w.stateFile))
		c04Must(os.Rename(aside, w.stateFile))
		// what a real crash leaves behind: a temp file, possibly torn
		c04Must(os.WriteFile(filepath.Join(w.stateDir, "write-file-atomic-0123456789"), []byte(`{"height": "7", "rou`), 0o600))
	}
	dT, dS := w.readDisk()
	w.reload()
	return a, dT, dS
}

// ---------------------------------------------------------------- op lists

const (
	c04Prevote   = int32(tmproto.PrevoteType)
	c04Precommit = int32(tmproto.PrecommitType)
)

func c04T(k int, nanos int) time.Time { return time.Unix(int64(1000000+k), int64(nanos)).UTC() }

func c04Vote(typ int32, h int64, r int32, bid int, k int) c04Req {
	return c04Req{typ: typ, h: h, r: r, bid: bid, ts: c04T(k, 0), chain: "c0"}
}
func c04Prop(h int64, r int32, polr int32, bid int, k int) c04Req {
	return c04Req{prop: true, typ: int32(tmproto.ProposalType), h: h, r: r, polr: polr, bid: bid, ts: c04T(k, 0), chain: "c0"}
}
func c04S(q c04Req) c04Op         { return c04Op{kind: 0, req: q} }
func c04C(cp int, q c04Req) c04Op { return c04Op{kind: 1, cp: cp, req: q} }
func c04R() c04Op                 { return c04Op{kind: 2} }

// directed scripts: one per behaviour the property talks about
func c04Directed() [][]c04Op {
	pv, pc := c04Prevote, c04Precommit
	other := func(q c04Req, chain string) c04Req { q.chain = chain; return q }
	return [][]c04Op{
		// same HRS: identical, new timestamp (reuse), other block / nil block (refuse), across a restart
		{c04S(c04Vote(pv, 1, 0, 1, 1)), c04S(c04Vote(pv, 1, 0, 1, 1)), c04S(c04Vote(pv, 1, 0, 1, 2)),
			c04S(c04Vote(pv, 1, 0, 2, 3)), c04S(c04Vote(pv, 1, 0, 0, 4)), c04R(), c04S(c04Vote(pv, 1, 0, 1, 5)),
			c04S(c04Vote(pv, 1, 0, 2, 6)), c04S(c04Vote(pc, 1, 0, 1, 7)), c04S(c04Vote(pc, 1, 0, 0, 8))},
		// crash after the rename, before the signature was handed out: the never-released signature is
		// what the HRS is bound to
		{c04C(2, c04Vote(pv, 2, 1, 1, 1)), c04S(c04Vote(pv, 2, 1, 2, 2)), c04S(c04Vote(pv, 2, 1, 1, 3)),
			c04C(2, c04Vote(pv, 2, 1, 1, 4)), c04S(c04Vote(pv, 2, 1, 1, 5))},
		// crash before the file is replaced: nothing released, nothing bound
		{c04C(0, c04Vote(pv, 2, 1, 1, 1)), c04S(c04Vote(pv, 2, 1, 2, 2)), c04S(c04Vote(pv, 2, 1, 1, 3))},
		{c04C(1, c04Vote(pc, 2, 1, 1, 1)), c04S(c04Vote(pc, 2, 1, 0, 2)), c04S(c04Vote(pc, 2, 1, 1, 3)), c04R(),
			c04S(c04Vote(pc, 2, 1, 0, 4))},
		// sign, crash at each point while asking for a conflicting vote, ask again
		{c04S(c04Vote(pv, 3, 0, 1, 1)), c04C(0, c04Vote(pv, 3, 0, 2, 2)), c04C(1, c04Vote(pv, 3, 0, 2, 3)),
			c04C(2, c04Vote(pv, 3, 0, 2, 4)), c04S(c04Vote(pv, 3, 0, 2, 5)), c04S(c04Vote(pv, 3, 0, 1, 6))},
		// regressions of height, round, step; proposal after a vote of the same round
		{c04S(c04Vote(pc, 5, 2, 1, 1)), c04S(c04Vote(pv, 5, 2, 1, 2)), c04S(c04Prop(5, 2, -1, 1, 3)),
			c04S(c04Vote(pc, 5, 1, 1, 4)), c04S(c04Vote(pc, 4, 7, 1, 5)), c04R(), c04S(c04Vote(pv, 5, 2, 2, 6)),
			c04S(c04Vote(pv, 5, 3, 2, 7)), c04S(c04Vote(pv, 6, 0, 0, 8))},
		// proposals: timestamp only (reuse), pol round / block differ (refuse)
		{c04S(c04Prop(1, 0, -1, 1, 1)), c04S(c04Prop(1, 0, -1, 1, 2)), c04S(c04Prop(1, 0, 0, 1, 3)),
			c04S(c04Prop(1, 0, -1, 2, 4)), c04C(2, c04Prop(1, 1, 0, 3, 5)), c04S(c04Prop(1, 1, 0, 2, 6)),
			c04S(c04Prop(1, 1, 0, 3, 7))},
		// chain id differs; unknown vote types
		{c04S(c04Vote(pv, 1, 0, 1, 1)), c04S(other(c04Vote(pv, 1, 0, 1, 2), "c1")), c04S(c04Vote(0, 1, 1, 1, 3)),
			c04S(c04Vote(32, 1, 1, 1, 4)), c04S(c04Vote(3, 1, 1, 1, 5)), c04S(c04Vote(pv, 1, 0, 1, 6))},
		// height 0 / round 0 requests on a fresh signer
		{c04S(c04Prop(0, 0, -1, 1, 1)), c04S(c04Prop(0, 0, -1, 1, 2)), c04S(c04Vote(pv, 0, 0, 0, 3)),
			c04S(c04Vote(pv, -1, 0, 0, 4)), c04S(c04Vote(pv, 0, -1, 0, 5))},
	}
}

func c04Random(r *vg.Rand, n int) []c04Op {
	var ops []c04Op
	var released []c04Req // requests made so far (any outcome)
	last := c04Vote(c04Prevote, 1, 0, 1, 0)
	last.prop, last.typ, last.polr = true, int32(tmproto.ProposalType), -1
	k := 0
	for len(ops) < n {
		k++
		x := r.Intn(100)
		if x < 8 {
			ops = append(ops, c04Op{kind: 2, tag: "restart"})
			continue
		}
		q := last
		q.ts = c04T(k, []int{0, 0, 1, 999999999}[r.Intn(4)])
		tag := ""
		switch y := r.Intn(100); {
		case y < 10:
			tag = "same"
			q.ts = last.ts
		case y < 24:
			tag = "same-new-ts"
		case y < 32:
			tag = "other-block"
			q.bid = 1 + (last.bid+r.Intn(2))%3
		case y < 37:
			tag = "nil-vs-block"
			if last.bid == 0 {
				q.bid = 1 + r.Intn(3)
			} else {
				q.bid = 0
			}
		case y < 40:
			tag = "other-chain"
			q.chain = []string{"c0", "c1"}[r.Intn(2)]
		case y < 44:
			tag = "polr-or-type"
			if q.prop {
				q.polr = int32(r.Intn(3)) - 1
			} else if q.typ == c04Prevote {
				q.typ = c04Precommit
			} else {
				q.typ = c04Prevote
			}
		case y < 66:
			tag = "next-step"
			switch {
			case q.prop:
				q.prop, q.typ, q.polr = false, c04Prevote, 0
			case q.typ == c04Prevote:
				q.typ = c04Precommit
			default:
				q.prop, q.typ, q.polr, q.r = true, int32(tmproto.ProposalType), -1, q.r+1
			}
			if r.Chance(30) {
				q.bid = r.Intn(4)
			}
		case y < 72:
			tag = "next-round"
			q.r += 1 + int32(r.Intn(2))
			q.bid = r.Intn(4)
		case y < 78:
			tag = "next-height"
			q.h, q.r = q.h+1, 0
			q.bid = r.Intn(4)
			if r.Bool() {
				q.prop, q.typ, q.polr = true, int32(tmproto.ProposalType), -1
			}
		case y < 86:
			tag = "lower"
			switch r.Intn(4) {
			case 0:
				q.h--
			case 1:
				q.r--
			case 2:
				if q.prop {
					q.r--
				} else if q.typ == c04Precommit {
					q.typ = c04Prevote
				} else {
					q.prop, q.typ, q.polr = true, int32(tmproto.ProposalType), -1
				}
			default:
				q.h--
				q.r += 5
			}
			if r.Bool() {
				q.bid = r.Intn(4)
			}
		case y < 90:
			tag = "random-hrs"
			q.h, q.r = int64(r.Intn(4)), int32(r.Intn(3))
			q.bid = r.Intn(4)
			switch r.Intn(3) {
			case 0:
				q.prop, q.typ, q.polr = true, int32(tmproto.ProposalType), -1
			case 1:
				q.prop, q.typ, q.polr = false, c04Prevote, 0
			default:
				q.prop, q.typ, q.polr = false, c04Precommit, 0
			}
		case y < 93:
			tag = "unknown-vote-type"
			q.prop, q.polr = false, 0
			q.typ = []int32{0, 3, 32, -1}[r.Intn(4)]
		case y < 97 && len(released) > 0:
			tag = "earlier-request"
			q = released[r.Intn(len(released))]
		default:
			tag = "earlier-request-new-ts"
			if len(released) > 0 {
				q = released[r.Intn(len(released))]
				q.ts = c04T(k, 7)
			}
		}
		if !q.prop {
			q.polr = 0
		}
		op := c04Op{kind: 0, req: q, tag: tag}
		if r.Chance(22) {
			op.kind, op.cp = 1, r.Intn(3)
		}
		ops = append(ops, op)
		released = append(released, q)
		if q.typ == c04Prevote || q.typ == c04Precommit || q.prop { // keep walking from a well-formed request
			last = q
		}
	}
	return ops
}

func c04RunCase(cs *vg.Cases, id int, kind string, r *vg.Rand, ops []c04Op) error {
	w, err := c04NewWorld(r)
	if err != nil {
		return err
	}
	defer w.close()
	d0T, d0S := w.readDisk()
	var terms []string
	var descr []string
	descr = append(descr, "fresh FilePV "+d0S)
	seenHRS := map[string]int{}
	reasks, faults, releases := 0, 0, 0
	for _, op := range ops {
		switch op.kind {
		case 0:
			a := w.call(op.req)
			dT, dS := w.readDisk()
			terms = append(terms, "ISign "+a.term()+" "+dT)
			descr = append(descr, fmt.Sprintf("sign %v -> rc=%d out=%v sig#%d valid=%v; %s", a.req, a.rc, a.out, a.sig, a.sigOK, dS))
			key := fmt.Sprintf("%v/%d/%d/%d", a.req.prop, a.req.typ, a.req.h, a.req.r)
			if seenHRS[key] > 0 {
				reasks++
			}
			seenHRS[key]++
			if a.rc == 0 {
				releases++
			}
			cs.Count(fmt.Sprintf("sign/rc=%d", a.rc), 1)
		case 1:
			a, dT, dS := w.crash(op.cp, op.req)
			terms = append(terms, fmt.Sprintf("ICrash %s ", vg.N(uint64(op.cp)))+a.term()+" "+dT)
			descr = append(descr, fmt.Sprintf("crash@%d during sign %v (call: rc=%d out=%v sig#%d, dropped); after restart %s", op.cp, a.req, a.rc, a.out, a.sig, dS))
			key := fmt.Sprintf("%v/%d/%d/%d", a.req.prop, a.req.typ, a.req.h, a.req.r)
			seenHRS[key]++
			faults++
			cs.Count(fmt.Sprintf("crash@%d/rc=%d", op.cp, a.rc), 1)
		default:
			w.reload()
			dT, dS := w.readDisk()
			terms = append(terms, "IRestart "+dT)
			descr = append(descr, "restart; "+dS)
			faults++
			cs.Count("restart", 1)
		}
		if op.tag != "" && op.kind != 2 {
			cs.Count("req/"+op.tag, 1)
		}
	}
	for i := range terms {
		terms[i] = "(" + terms[i] + ")"
	}
	cs.Add(id, kind, reasks > 0 && faults > 0 && releases > 1,
		vg.App("CRun", d0T, vg.L(terms)), strings.Join(descr, "\n  "))
	return nil
}

func TestVerifC04Signer(t *testing.T) {
	root := vg.NewRand(vg.Seed() ^ 0xc04)
	cs := vg.NewCases("C04", "c04_signer", "TM.C04.Exec")
	for k, ops := range c04Directed() {
		id := cs.NextID()
		if !cs.Want(id) {
			continue
		}
		if err := c04RunCase(cs, id, "directed", root.Fork(uint64(1000000+k)), ops); err != nil {
			t.Fatal(err)
		}
	}
	n := vg.Scale(260, 12000)
	for k := 0; k < n; k++ {
		id := cs.NextID()
		if !cs.Want(id) {
			continue
		}
		r := root.Fork(uint64(k))
		ops := c04Random(r, 8+r.Intn(33))
		if err := c04RunCase(cs, id, "random", r, ops); err != nil {
			t.Fatal(err)
		}
	}
	if err := cs.Write(); err != nil {
		t.Fatal(err)
	}
}
