//go:build verif

package consensus

// C01 harness: several real consensus.State objects (the correct validators) wired through a
// scheduler the PRNG controls: every message a correct node emits goes into a pool; the
// scheduler delivers pool messages to nodes in any order, any number of times, or never
// (delay, duplication, loss, partitions), fires scheduled timeouts, and lets the faulty
// validators (less than one third of the power) sign anything: equivocating prevotes and
// precommits, proposals for several blocks, votes for arbitrary rounds.  Every node's trace is
// written out as in the C02 harness; TM.C01.Exec replays each node through the model and checks
// agreement and decision backing across nodes.

import (
	"fmt"
	"strings"
	"testing"
	"time"

	cfg "github.com/tendermint/tendermint/config"
	cstypes "github.com/tendermint/tendermint/consensus/types"
	vg "github.com/tendermint/tendermint/internal/verifgen"
	"github.com/tendermint/tendermint/p2p"
	tmproto "github.com/tendermint/tendermint/proto/tendermint/types"
	sm "github.com/tendermint/tendermint/state"
	"github.com/tendermint/tendermint/types"
)

type c01Net struct {
	nodes  []*c02Harness // correct validators
	faulty []int         // validator indices of the faulty ones
	pool   []msgInfo
	inbox  map[*c02Harness][]msgInfo // per node: messages not yet delivered (gossip keeps them until usable)
	kinds  map[string]int
}

// publish puts a message into the pool and into every other node's inbox
func (n *c01Net) publish(from *c02Harness, mi msgInfo) {
	if from != nil { // the receiving nodes see it as coming from the peer that is the origin
		mi.PeerID = p2p.ID(fmt.Sprintf("p%d", from.me+1))
	}
	n.pool = append(n.pool, mi)
	for _, h := range n.nodes {
		if h != from {
			n.inbox[h] = append(n.inbox[h], mi)
		}
	}
}

// gossip sends a proposal and its parts to a peer only once the peer is in that round, and
// nothing of a later height
func c01Usable(mi msgInfo, h *c02Harness) bool {
	height, round := h.cs.Height, h.cs.Round
	mh := c01Height(mi)
	if mh != height {
		return mh < height
	}
	switch m := mi.Msg.(type) {
	case *ProposalMessage:
		return m.Proposal.Round <= round
	case *BlockPartMessage:
		if m.Round <= round {
			return true
		}
		// a peer is also sent the parts of the set it is waiting for (NewValidBlock / commit
		// catch-up), whatever round they were proposed in
		pbp := h.cs.ProposalBlockParts
		return pbp != nil && !pbp.IsComplete() && m.Part.Proof.Verify(pbp.Hash(), m.Part.Bytes) == nil
	case *VoteMessage:
		// the reactor sends a peer the votes of the rounds the peer tracks (up to its round + 1),
		// of its proposal's POL round, and the precommits of a commit it is behind on
		if m.Vote.Round <= round+1 {
			return true
		}
		if h.cs.Proposal != nil && m.Vote.Round == h.cs.Proposal.POLRound {
			return true
		}
		if m.Vote.Type == tmproto.PrecommitType && h.net != nil {
			for _, o := range h.net.nodes {
				if o != h && o.cs.Height > height {
					if sc := o.cs.blockStore.LoadSeenCommit(height); sc != nil && sc.Round == m.Vote.Round {
						return true
					}
				}
			}
		}
		return false
	}
	return true
}

// publishTo puts a message into the inbox of the given nodes only (a faulty sender may tell
// different things to different nodes)
func (n *c01Net) publishTo(targets []*c02Harness, mi msgInfo) {
	n.pool = append(n.pool, mi)
	for _, h := range targets {
		n.inbox[h] = append(n.inbox[h], mi)
	}
}

func c01Height(mi msgInfo) int64 {
	switch m := mi.Msg.(type) {
	case *VoteMessage:
		return m.Vote.Height
	case *ProposalMessage:
		return m.Proposal.Height
	case *BlockPartMessage:
		return m.Height
	}
	return 0
}

func (n *c01Net) totalSteps() int {
	t := 0
	for _, h := range n.nodes {
		t += len(h.steps)
	}
	return t
}

// c01Async runs the adversarial asynchronous scheduler until the nodes have handled maxSteps
// inputs in total.
func c01Async(r *vg.Rand, net *c01Net, pvs []types.MockPV, maxSteps, lossPct, earlyTimeoutPct, byzPct int, withholdPrecommits bool) {
	// a Byzantine helper: any node's tables can be used to build terms
	byz := func(h *c02Harness) {
		if len(net.faulty) == 0 {
			return
		}
		f := net.faulty[r.Intn(len(net.faulty))]
		cs := h.cs
		switch r.Intn(8) {
		case 5, 6, 7: // split brain: tell one half of the nodes A and the other half B
			c := h.candidates(r)
			if len(c) < 2 {
				return
			}
			a, b := c[0], c[1]
			var g1, g2 []*c02Harness
			for _, nd := range net.nodes {
				if r.Bool() {
					g1 = append(g1, nd)
				} else {
					g2 = append(g2, nd)
				}
			}
			round := cs.Round
			for gi, grp := range [][]*c02Harness{g1, g2} {
				e := a
				if gi == 1 {
					e = b
				}
				bid := types.BlockID{Hash: e.block.Hash(), PartSetHeader: e.parts.Header()}
				h.ensureProposers()
				if int(h.props[cs.Height][int(round)%24]) == f { // the faulty validator is the proposer
					p := types.NewProposal(cs.Height, round, -1, bid)
					pp := p.ToProto()
					pvs[f].SignProposal(cs.state.ChainID, pp) //nolint:errcheck
					p.Signature = pp.Signature
					net.publishTo(grp, msgInfo{&ProposalMessage{p}, "p9"})
					for i := 0; i < int(e.parts.Total()); i++ {
						net.publishTo(grp, msgInfo{&BlockPartMessage{cs.Height, round, e.parts.GetPart(i)}, "p9"})
					}
				}
				for _, ff := range net.faulty {
					net.publishTo(grp, msgInfo{&VoteMessage{h.mkVote(r, ff, tmproto.PrevoteType, cs.Height, round, bid)}, "p9"})
					net.publishTo(grp, msgInfo{&VoteMessage{h.mkVote(r, ff, tmproto.PrecommitType, cs.Height, round, bid)}, "p9"})
				}
			}
			net.kinds["byz/split-brain"]++
		case 0, 1, 2: // a vote for anything, for a round near the target's
			ty := tmproto.PrevoteType
			if r.Bool() {
				ty = tmproto.PrecommitType
			}
			round := cs.Round + int32(r.Intn(3)) - 1
			if round < 0 {
				round = 0
			}
			v := h.mkVote(r, f, ty, cs.Height, round, h.pickBlockID(r))
			net.publish(nil, msgInfo{&VoteMessage{v}, "p9"})
			net.kinds["byz/vote"]++
		case 3: // a proposal (if the faulty validator is the proposer it can equivocate)
			c := h.candidates(r)
			if len(c) == 0 {
				return
			}
			e := c[r.Intn(len(c))]
			p := types.NewProposal(cs.Height, cs.Round, -1, types.BlockID{Hash: e.block.Hash(), PartSetHeader: e.parts.Header()})
			pp := p.ToProto()
			pvs[f].SignProposal(cs.state.ChainID, pp) //nolint:errcheck
			p.Signature = pp.Signature
			net.publish(nil, msgInfo{&ProposalMessage{p}, "p9"})
			for i := 0; i < int(e.parts.Total()); i++ {
				net.publish(nil, msgInfo{&BlockPartMessage{cs.Height, cs.Round, e.parts.GetPart(i)}, "p9"})
			}
			net.kinds["byz/proposal"]++
		default: // the same vote type/round for two different values, to different halves later
			v1 := h.mkVote(r, f, tmproto.PrevoteType, cs.Height, cs.Round, h.pickBlockID(r))
			v2 := h.mkVote(r, f, tmproto.PrevoteType, cs.Height, cs.Round, types.BlockID{})
			net.publish(nil, msgInfo{&VoteMessage{v1}, "p9"})
			net.publish(nil, msgInfo{&VoteMessage{v2}, "p9"})
			net.kinds["byz/equivocation"]++
		}
	}
	deliver := func(h *c02Harness, mi msgInfo) {
		h.got = append(h.got, mi)
		t, d := h.inputTerm(mi)
		h.deliver(t, d, func() { h.cs.handleMsg(mi) })
	}
	for net.totalSteps() < maxSteps {
		alive := 0
		for _, h := range net.nodes {
			if !h.panicked {
				alive++
			}
		}
		if alive == 0 {
			break
		}
		h := net.nodes[r.Intn(len(net.nodes))]
		if h.panicked {
			continue
		}
		// the first inbox message the node can use now (gossip holds back what is for later heights)
		usable := -1
		for i, mi := range net.inbox[h] {
			if c01Usable(mi, h) {
				usable = i
				break
			}
		}
		behind := usable >= 0
		x := r.Intn(100)
		var action string
		switch {
		case behind && x < earlyTimeoutPct:
			action = "timeout"
		case behind && x < earlyTimeoutPct+byzPct:
			action = "byz"
		case behind && x < earlyTimeoutPct+byzPct+3:
			action = "old"
		case behind:
			action = "next"
		case x < 70:
			action = "timeout"
		case x < 88:
			action = "byz"
		default:
			action = "old"
		}
		switch action {
		case "timeout": // a scheduled timeout
			s := h.ticker.scheduled
			if len(s) == 0 {
				continue
			}
			ti := s[len(s)-1]
			if r.Chance(15) {
				ti = s[r.Intn(len(s))]
			}
			h.fire(ti, "timeout")
			net.kinds["timeout"]++
		case "byz":
			byz(h)
		case "old": // an old message again, or one that was skipped
			if len(net.pool) == 0 {
				continue
			}
			deliver(h, net.pool[r.Intn(len(net.pool))])
			net.kinds["deliver/any"]++
		default: // the next usable message for this node, sometimes lost
			mi := net.inbox[h][usable]
			net.inbox[h] = append(net.inbox[h][:usable:usable], net.inbox[h][usable+1:]...)
			if r.Chance(lossPct) {
				net.kinds["lost"]++
				continue
			}
			if vm, ok := mi.Msg.(*VoteMessage); ok && withholdPrecommits && vm.Vote.Type == tmproto.PrecommitType {
				net.kinds["withheld-precommit"]++
				continue
			}
			deliver(h, mi)
			net.kinds["deliver/next"]++
		}
	}
}

func c01Run(r *vg.Rand, k int) (term string, descr string, nontrivial bool, decided int, kind string) {
	nv := 4 + r.Intn(3)
	scripted := k%4 == 3 // a round-structured adversary with a scripted opening (verif_c01_rounds_test.go)
	if scripted {
		nv = 4
	}
	powers := make([]int64, nv)
	for i := range powers {
		powers[i] = 10
		if r.Chance(30) && !scripted {
			powers[i] = 5 + int64(r.Intn(15))
		}
	}
	state, pvs := c02Genesis(r, nv, powers)
	total := state.Validators.TotalVotingPower()
	// choose faulty validators with strictly less than one third of the power
	net := &c01Net{kinds: map[string]int{}, inbox: map[*c02Harness][]msgInfo{}}
	var opening []c01RoundPlan
	opName := ""
	if scripted {
		var f int
		f, opening, opName = c01Opening(r, c01Rotation(state, 4), (k/4)%4)
		net.faulty = []int{f}
	} else {
		var fpow int64
		for _, i := range r.Perm(nv) {
			p := state.Validators.Validators[i].VotingPower
			if 3*(fpow+p) < total && r.Chance(70) {
				net.faulty = append(net.faulty, i)
				fpow += p
			}
		}
	}
	isFaulty := map[int]bool{}
	for _, i := range net.faulty {
		isFaulty[i] = true
	}
	skip := r.Bool()
	var shared *c02Harness
	for i := 0; i < nv; i++ {
		if isFaulty[i] {
			continue
		}
		h := c02NewNode(r, state, pvs, i, skip, shared)
		if shared == nil {
			shared = h
		}
		hh := h
		h.net = net
		h.onOwn = func(mi msgInfo) { net.publish(hh, mi) }
		h.hardCap = 100000
		net.nodes = append(net.nodes, h)
	}
	maxSteps := 900
	lossPct := []int{0, 0, 3, 10, 25}[r.Intn(5)]
	earlyTimeoutPct := []int{0, 0, 1, 3, 8}[r.Intn(5)] // timeouts firing although messages are in flight
	byzPct := []int{1, 3, 6}[r.Intn(3)]
	if scripted {
		c01RoundsRun(r, net, pvs, opening, len(opening)+1+r.Intn(4))
		net.kinds["rounds/"+opName]++
	}
	c01Async(r, net, pvs, maxSteps, lossPct, earlyTimeoutPct, byzPct, false)
	// the Coq term: validator set, flags, proposer table, one trace per correct node
	var vals []string
	for i, v := range state.Validators.Validators {
		vals = append(vals, vg.Tup(vg.N(uint64(i+1)), vg.Z(v.VotingPower)))
	}
	var hs []int64
	for ht := range shared.props {
		hs = append(hs, ht)
	}
	for i := range hs { // sort
		for j := i + 1; j < len(hs); j++ {
			if hs[j] < hs[i] {
				hs[i], hs[j] = hs[j], hs[i]
			}
		}
	}
	var props []string
	for _, ht := range hs {
		props = append(props, vg.Tup(vg.Z(ht), vg.ZL(shared.props[ht])))
	}
	var nodes []string
	var d strings.Builder
	fmt.Fprintf(&d, "validators=%d powers=%v faulty=%v skipTimeoutCommit=%v loss=%d%% earlyTimeouts=%d%% byz=%d%%;", nv, powers, net.faulty, skip, lossPct, earlyTimeoutPct, byzPct)
	if scripted {
		fmt.Fprintf(&d, " round-structured adversary, opening %q;", opName)
	}
	panics := 0
	for _, h := range net.nodes {
		nodes = append(nodes, vg.Tup(vg.Z(int64(h.me)), vg.L(h.steps)))
		decided += h.decided
		if h.panicked {
			panics++
		}
		fmt.Fprintf(&d, " node %d (%d inputs, %d heights decided, final %d/%d/%d, inbox %d, pool %d):", h.me, len(h.steps), h.decided, h.cs.Height, h.cs.Round, h.cs.Step, len(net.inbox[h]), len(net.pool))
		for i, s := range h.descr {
			if len(h.descr) > 60 && i >= 30 && i < len(h.descr)-30 {
				if i == 30 {
					d.WriteString(" ...;")
				}
				continue
			}
			fmt.Fprintf(&d, " [%d] %s;", i, s)
		}
	}
	term = vg.App("CNet", vg.L(vals), vg.B(skip), vg.Z(1), vg.L(props), vg.L(nodes))
	kind = fmt.Sprintf("net/n=%d/faulty=%d/decided=%d/panics=%d", nv, len(net.faulty), decided, panics)
	if scripted {
		kind = "rounds-" + opName + "/" + kind
	}
	return term, d.String(), decided > 0, decided, kind
}

func TestVerifC01Network(t *testing.T) {
	root := vg.NewRand(vg.Seed() ^ 0xc01)
	cs := vg.NewCases("C01", "c01_network", "TM.C01.Exec")
	vg.ShardSize = 2
	n := vg.Scale(40, 1200)
	total := 0
	for k := 0; k < n; k++ {
		id := cs.NextID()
		if !cs.Want(id) {
			continue
		}
		r := root.Fork(uint64(k))
		term, descr, nontriv, decided, kind := c01Run(r, k)
		total += decided
		cs.Add(id, kind, nontriv, term, descr)
	}
	cs.Notes = append(cs.Notes, fmt.Sprintf("decisions (node x height) in total: %d", total))
	_ = p2p.ID("")
	if err := cs.Write(); err != nil {
		t.Fatal(err)
	}
}

// ---------------------------------------------------------------- C03: a synchronous suffix

// c03Sync continues a network synchronously: every message reaches every correct node before
// any timeout fires (per-node inboxes are drained completely, without loss, before the node's
// latest timeout is fired), while the faulty validators keep acting.  It stops when every
// correct node has decided height h0 or after maxRounds rounds.
func c03Sync(r *vg.Rand, net *c01Net, pvs []types.MockPV, h0 int64, maxRounds int32, byzPct int) {
	deliver := func(h *c02Harness, mi msgInfo) {
		h.got = append(h.got, mi)
		t, d := h.inputTerm(mi)
		h.deliver(t, d, func() { h.cs.handleMsg(mi) })
	}
	allDecided := func() bool {
		for _, h := range net.nodes {
			if !h.panicked && h.cs.Height <= h0 {
				return false
			}
		}
		return true
	}
	resent := map[*c02Harness]map[msgInfo]int{}
	claims := map[string]bool{}
	startRound := int32(0)
	for _, h := range net.nodes {
		if h.cs.Height == h0 && h.cs.Round > startRound {
			startRound = h.cs.Round
		}
	}
	for guard := 0; guard < 4000 && !allDecided(); guard++ {
		// 1. drain: deliver everything usable to everybody until nothing usable is left
		progress := true
		for progress {
			progress = false
			for _, h := range net.nodes {
				if h.panicked || h.cs.Height > h0 { // done: it has decided h0
					continue
				}
				for h.cs.Height <= h0 && len(h.steps) < 3000 {
					// gossip by peer state: a node waiting for the parts of a set is sent them again
					if pbp := h.cs.ProposalBlockParts; pbp != nil && !pbp.IsComplete() {
						for _, mi := range net.pool {
							bp, ok := mi.Msg.(*BlockPartMessage)
							if !ok || bp.Height != h.cs.Height || resent[h][mi] >= 2 ||
								pbp.GetPart(int(bp.Part.Index)%int(pbp.Total())) != nil ||
								bp.Part.Proof.Verify(pbp.Hash(), bp.Part.Bytes) != nil {
								continue
							}
							if resent[h] == nil {
								resent[h] = map[msgInfo]int{}
							}
							resent[h][mi]++
							net.inbox[h] = append(net.inbox[h], mi)
						}
					}
					usable := -1
					for i, mi := range net.inbox[h] {
						if c01Usable(mi, h) {
							usable = i
							break
						}
					}
					if usable < 0 {
						break
					}
					mi := net.inbox[h][usable]
					net.inbox[h] = append(net.inbox[h][:usable:usable], net.inbox[h][usable+1:]...)
					deliver(h, mi)
					progress = true
				}
			}
		}
		if allDecided() {
			break
		}
		// 1b. majority claims (VoteSetMaj23): every correct node tells the others which +2/3
		// majorities it holds, and the commit it stored for a height a peer is still at; the
		// peer is then sent again the votes for that block (VoteSetBits exchange)
		claimed := false
		for _, o := range net.nodes {
			for _, h := range net.nodes {
				if o == h || h.panicked || h.cs.Height > h0 {
					continue
				}
				type claim struct {
					round int32
					ty    tmproto.SignedMsgType
					bid   types.BlockID
				}
				var cl []claim
				if o.cs.Height == h.cs.Height {
					for rr := int32(0); rr <= o.cs.Round; rr++ {
						if pv := o.cs.Votes.Prevotes(rr); pv != nil {
							if b, ok := pv.TwoThirdsMajority(); ok {
								cl = append(cl, claim{rr, tmproto.PrevoteType, b})
							}
						}
						if pc := o.cs.Votes.Precommits(rr); pc != nil {
							if b, ok := pc.TwoThirdsMajority(); ok {
								cl = append(cl, claim{rr, tmproto.PrecommitType, b})
							}
						}
					}
				} else if o.cs.Height > h.cs.Height {
					if sc := o.cs.blockStore.LoadSeenCommit(h.cs.Height); sc != nil {
						cl = append(cl, claim{sc.Round, tmproto.PrecommitType, sc.BlockID})
					}
				}
				for _, c := range cl {
					key := fmt.Sprintf("%d>%d h%d r%d t%d %X", o.me, h.me, h.cs.Height, c.round, c.ty, c.bid.Hash)
					if claims[key] {
						continue
					}
					claims[key] = true
					claimed = true
					peer := p2p.ID(fmt.Sprintf("p%d", o.me+1))
					height, hh, cc := h.cs.Height, h, c
					t := vg.App("IMaj23", vg.Z(height), vg.Z(int64(c.round)), vg.N(uint64(c.ty)), vg.N(uint64(o.me+1)), h.bid(c.bid))
					h.deliver(t, fmt.Sprintf("maj23-claim{h %d r %d type %d block %s} from %q", height, c.round, c.ty, h.bid(c.bid), peer), func() {
						hh.cs.mtx.Lock()
						ht, votes := hh.cs.Height, hh.cs.Votes
						hh.cs.mtx.Unlock()
						if ht == height {
							votes.SetPeerMaj23(cc.round, cc.ty, peer, cc.bid) //nolint:errcheck
						}
					})
					net.kinds["sync/maj23-claim"]++
					for _, mi := range net.pool { // the votes for that block are sent again
						if vm, ok := mi.Msg.(*VoteMessage); ok && vm.Vote.Height == height && vm.Vote.Round == c.round &&
							vm.Vote.Type == c.ty && vm.Vote.BlockID.Equals(c.bid) && resent[h][mi] < 2 {
							if resent[h] == nil {
								resent[h] = map[msgInfo]int{}
							}
							resent[h][mi]++
							net.inbox[h] = append(net.inbox[h], mi)
						}
					}
				}
			}
		}
		if claimed {
			continue
		}
		// 2. the faulty validators act (their messages are delivered in the next drain)
		if len(net.faulty) > 0 && net.kinds["sync/byz-vote"] < 60 && r.Chance(byzPct) {
			h := net.nodes[r.Intn(len(net.nodes))]
			f := net.faulty[r.Intn(len(net.faulty))]
			ty := tmproto.PrevoteType
			if r.Bool() {
				ty = tmproto.PrecommitType
			}
			v := h.mkVote(r, f, ty, h.cs.Height, h.cs.Round, h.pickBlockID(r))
			net.publish(nil, msgInfo{&VoteMessage{v}, "p9"})
			net.kinds["sync/byz-vote"]++
			continue
		}
		// 3. nothing in flight: among the timeouts that are still relevant (scheduled for the
		// node's current height and round and not for an earlier step) the one of the node
		// furthest behind fires
		var pick *c02Harness
		var pickTi timeoutInfo
		for _, h := range net.nodes {
			if h.panicked || h.cs.Height > h0 {
				continue
			}
			var best *timeoutInfo
			for i := range h.ticker.scheduled {
				ti := h.ticker.scheduled[i]
				if ti.Height == h.cs.Height && ti.Round == h.cs.Round && ti.Step >= h.cs.Step {
					if best == nil || ti.Step > best.Step {
						best = &h.ticker.scheduled[i]
					}
				}
			}
			if best == nil {
				continue
			}
			if pick == nil || h.cs.Height < pick.cs.Height ||
				(h.cs.Height == pick.cs.Height && (h.cs.Round < pick.cs.Round ||
					(h.cs.Round == pick.cs.Round && h.cs.Step < pick.cs.Step))) {
				pick, pickTi = h, *best
			}
		}
		if pick == nil {
			break
		}
		pick.fire(pickTi, "sync/timeout")
		net.kinds["sync/timeout"]++
		tooFar := false
		for _, h := range net.nodes {
			if h.cs.Height == h0 && h.cs.Round > startRound+maxRounds {
				tooFar = true
			}
		}
		if tooFar {
			break
		}
	}
}

func TestVerifC03Sync(t *testing.T) {
	root := vg.NewRand(vg.Seed() ^ 0xc03)
	cs := vg.NewCases("C03", "c03_sync", "TM.C03.Exec")
	vg.ShardSize = 2
	n := vg.Scale(40, 1200)
	decidedAll := 0
	for k := 0; k < n; k++ {
		id := cs.NextID()
		if !cs.Want(id) {
			continue
		}
		r := root.Fork(uint64(k))
		term, descr, ok, kind := c03Run(r, k)
		if ok {
			decidedAll++
		}
		cs.Add(id, kind, true, term, descr)
	}
	cs.Notes = append(cs.Notes, fmt.Sprintf("networks in which every correct node decided within the bound: %d of %d", decidedAll, n))
	if err := cs.Write(); err != nil {
		t.Fatal(err)
	}
}

// c03F70Prefix: the directed asynchronous prefix of finding F70 (4 equal validators; with the
// rotation q of height 1: F = q[0] faulty, C = q[1], D = q[2], A = q[3] correct).  It leaves A in
// round 2 locked on X since round 0 while it holds the polka for Y of round 1 (learned while it
// was in round 0; +2/3-any prevotes of round 2 carried it past round 1 before it prevoted there),
// and C, D in round 2 locked on Y since round 1.  Before the repair A then prevoted X for ever:
// with F silent no block gets +2/3 although 3/4 of the power is correct and everything is
// delivered.  Returns whether the intended locks were reached.
func c03F70Prefix(r *vg.Rand, state sm.State, pvs []types.MockPV, net *c01Net) bool {
	q := c01Rotation(state, 4)
	F, C, D, A := q[0], q[1], q[2], q[3]
	nodeOf := map[int]*c02Harness{}
	for _, h := range net.nodes {
		nodeOf[h.me] = h
	}
	hA, hC, hD := nodeOf[A], nodeOf[C], nodeOf[D]
	if hA == nil || hC == nil || hD == nil {
		return false
	}
	fpeer := p2p.ID(fmt.Sprintf("p%d", F+1))
	dl := func(h *c02Harness, mi msgInfo) {
		h.got = append(h.got, mi)
		tm, d := h.inputTerm(mi)
		h.deliver(tm, d, func() { h.cs.handleMsg(mi) })
	}
	pull := func(h *c02Harness, pred func(mi msgInfo) bool) {
		for {
			idx := -1
			for i, mi := range net.inbox[h] {
				if pred(mi) {
					idx = i
					break
				}
			}
			if idx < 0 {
				return
			}
			mi := net.inbox[h][idx]
			net.inbox[h] = append(net.inbox[h][:idx:idx], net.inbox[h][idx+1:]...)
			dl(h, mi)
		}
	}
	votes := func(ty tmproto.SignedMsgType, round int32, from ...int) func(msgInfo) bool {
		return func(mi msgInfo) bool { return isVote(mi, ty, round, setOf(from)) }
	}
	blockOf := func(round int32) func(msgInfo) bool {
		return func(mi msgInfo) bool {
			switch m := mi.Msg.(type) {
			case *ProposalMessage:
				return m.Proposal.Round == round
			case *BlockPartMessage:
				return m.Round == round
			}
			return false
		}
	}
	fire := func(h *c02Harness, step cstypes.RoundStepType) {
		s := h.ticker.scheduled
		for i := len(s) - 1; i >= 0; i-- {
			if s[i].Height == h.cs.Height && s[i].Round == h.cs.Round && s[i].Step == step {
				h.fire(s[i], "timeout")
				return
			}
		}
	}
	fVote := func(ty tmproto.SignedMsgType, round int32, bid types.BlockID) {
		net.publish(nil, msgInfo{&VoteMessage{hA.mkVote(r, F, ty, 1, round, bid)}, fpeer})
	}
	PV, PC := tmproto.PrevoteType, tmproto.PrecommitType
	// F's proposal X of round 0 and its prevote for X
	pkF, _ := pvs[F].GetPubKey()
	bx, psx := hA.cs.state.MakeBlock(1, []types.Tx{types.Tx("x=1")}, types.NewCommit(0, 0, types.BlockID{}, nil), nil, pkF.Address())
	X := hA.register(bx, psx)
	bX := types.BlockID{Hash: X.block.Hash(), PartSetHeader: X.parts.Header()}
	prop := types.NewProposal(1, 0, -1, bX)
	pp := prop.ToProto()
	if err := pvs[F].SignProposal(state.ChainID, pp); err != nil {
		return false
	}
	prop.Signature = pp.Signature
	net.publish(nil, msgInfo{&ProposalMessage{prop}, fpeer})
	for i := 0; i < int(X.parts.Total()); i++ {
		net.publish(nil, msgInfo{&BlockPartMessage{1, 0, X.parts.GetPart(i)}, fpeer})
	}
	fVote(PV, 0, bX)
	// round 0: A and C get X, D does not; only A sees the polka (C, F, itself) and locks X
	for _, h := range []*c02Harness{hA, hC, hD} {
		fire(h, cstypes.RoundStepNewHeight)
	}
	pull(hA, blockOf(0))
	pull(hC, blockOf(0))
	fire(hD, cstypes.RoundStepPropose)
	pull(hA, votes(PV, 0, C, F))
	pull(hC, votes(PV, 0, D, F))
	fire(hC, cstypes.RoundStepPrevoteWait)
	pull(hD, votes(PV, 0, C, F))
	fire(hD, cstypes.RoundStepPrevoteWait)
	pull(hC, votes(PC, 0, D, A))
	fire(hC, cstypes.RoundStepPrecommitWait) // C enters round 1 and proposes Y
	pull(hD, votes(PC, 0, C, A))
	fire(hD, cstypes.RoundStepPrecommitWait)
	if hC.cs.ProposalBlock == nil || hC.cs.Round != 1 {
		return false
	}
	bY := types.BlockID{Hash: hC.cs.ProposalBlock.Hash(), PartSetHeader: hC.cs.ProposalBlockParts.Header()}
	// round 1: C and D lock Y; A learns the polka for Y while still in round 0
	pull(hD, blockOf(1))
	fVote(PV, 1, bY)
	pull(hC, votes(PV, 1, D, F))
	pull(hD, votes(PV, 1, C, F))
	pull(hA, votes(PV, 1, C, D, F))
	fVote(PC, 1, types.BlockID{})
	pull(hC, votes(PC, 1, D, F))
	fire(hC, cstypes.RoundStepPrecommitWait)
	pull(hD, votes(PC, 1, C, F))
	fire(hD, cstypes.RoundStepPrecommitWait) // D enters round 2 and re-proposes Y with POL round 1
	// round 2: +2/3-any prevotes carry A past round 1 before it prevoted there
	pull(hC, blockOf(2))
	fVote(PV, 2, types.BlockID{})
	pull(hA, votes(PV, 2, C, D, F))
	return hA.cs.Round == 2 && hA.cs.LockedRound == 0 && hA.cs.LockedBlock != nil && hA.cs.LockedBlock.HashesTo(bX.Hash) &&
		hC.cs.LockedRound == 1 && hC.cs.LockedBlock != nil && hC.cs.LockedBlock.HashesTo(bY.Hash) &&
		hD.cs.LockedRound == 1 && hD.cs.LockedBlock != nil && hD.cs.LockedBlock.HashesTo(bY.Hash)
}

// c03SkipPrefix: the directed asynchronous prefix of seeded change C03f (4 equal validators; with
// the rotation q of height 1: F = q[0] faulty, C = q[1], D = q[2], A = q[3] correct).  F, the
// proposer of round 0, proposes nothing.  C and D prevote and precommit nil in round 0 and move to
// round 1, where C proposes Y, D misses it, nobody sees a polka and both precommit nil; F
// precommits Y.  A, still in round 0, is given exactly these three round-1 precommits: +2/3 of
// ANY precommits without a majority, and no +2/3 prevotes of round 1.  A must enter round 1 (and
// wait there for the stragglers) - entering the round is what advances its proposer rotation.  A
// node that only waits reaches round 2 through the timeout with its rotation one step behind for
// the rest of the height, refuses every rightful proposal and, with F silent, nobody decides.
// A's precommit-wait timeout of round 1 then fires before anything else reaches it.
// Returns whether A holds the three precommits and reached round 2.
func c03SkipPrefix(r *vg.Rand, state sm.State, pvs []types.MockPV, net *c01Net) bool {
	q := c01Rotation(state, 4)
	F, C, D, A := q[0], q[1], q[2], q[3]
	nodeOf := map[int]*c02Harness{}
	for _, h := range net.nodes {
		nodeOf[h.me] = h
	}
	hA, hC, hD := nodeOf[A], nodeOf[C], nodeOf[D]
	if hA == nil || hC == nil || hD == nil {
		return false
	}
	fpeer := p2p.ID(fmt.Sprintf("p%d", F+1))
	dl := func(h *c02Harness, mi msgInfo) {
		h.got = append(h.got, mi)
		tm, d := h.inputTerm(mi)
		h.deliver(tm, d, func() { h.cs.handleMsg(mi) })
	}
	pull := func(h *c02Harness, pred func(mi msgInfo) bool) {
		for {
			idx := -1
			for i, mi := range net.inbox[h] {
				if pred(mi) {
					idx = i
					break
				}
			}
			if idx < 0 {
				return
			}
			mi := net.inbox[h][idx]
			net.inbox[h] = append(net.inbox[h][:idx:idx], net.inbox[h][idx+1:]...)
			dl(h, mi)
		}
	}
	votes := func(ty tmproto.SignedMsgType, round int32, from ...int) func(msgInfo) bool {
		return func(mi msgInfo) bool { return isVote(mi, ty, round, setOf(from)) }
	}
	fire := func(h *c02Harness, step cstypes.RoundStepType) {
		s := h.ticker.scheduled
		for i := len(s) - 1; i >= 0; i-- {
			if s[i].Height == h.cs.Height && s[i].Round == h.cs.Round && s[i].Step == step {
				h.fire(s[i], "timeout")
				return
			}
		}
	}
	fVote := func(ty tmproto.SignedMsgType, round int32, bid types.BlockID) {
		net.publish(nil, msgInfo{&VoteMessage{hA.mkVote(r, F, ty, 1, round, bid)}, fpeer})
	}
	PV, PC := tmproto.PrevoteType, tmproto.PrecommitType
	// round 0: no proposal; everybody prevotes nil; C and D precommit nil and, with F's nil
	// precommit, leave the round.  A sees none of it.
	for _, h := range []*c02Harness{hA, hC, hD} {
		fire(h, cstypes.RoundStepNewHeight)
		fire(h, cstypes.RoundStepPropose)
	}
	pull(hC, votes(PV, 0, D, A))
	pull(hD, votes(PV, 0, C, A))
	fVote(PC, 0, types.BlockID{})
	pull(hC, votes(PC, 0, D, F))
	fire(hC, cstypes.RoundStepPrecommitWait) // C enters round 1 and proposes Y
	pull(hD, votes(PC, 0, C, F))
	fire(hD, cstypes.RoundStepPrecommitWait)
	if hC.cs.ProposalBlock == nil || hC.cs.Round != 1 || hD.cs.Round != 1 {
		return false
	}
	bY := types.BlockID{Hash: hC.cs.ProposalBlock.Hash(), PartSetHeader: hC.cs.ProposalBlockParts.Header()}
	// round 1: D misses the proposal; no polka; C and D precommit nil, F precommits Y
	fire(hD, cstypes.RoundStepPropose)
	fVote(PV, 1, types.BlockID{})
	pull(hC, votes(PV, 1, D, F))
	fire(hC, cstypes.RoundStepPrevoteWait)
	pull(hD, votes(PV, 1, C, F))
	fire(hD, cstypes.RoundStepPrevoteWait)
	fVote(PC, 1, bY)
	// A, in round 0, learns of round 1 only through these three precommits
	pull(hA, votes(PC, 1, C, D, F))
	pcs := hA.cs.Votes.Precommits(1)
	ok := pcs != nil && pcs.HasTwoThirdsAny() && hA.cs.LockedBlock == nil
	// ... and A's precommit-wait timeout of round 1 fires before anything else reaches it (the
	// network is still asynchronous): A precommits nil in round 1 and enters round 2
	sch := hA.ticker.scheduled
	for i := len(sch) - 1; i >= 0; i-- {
		if sch[i].Height == 1 && sch[i].Round == 1 && sch[i].Step == cstypes.RoundStepPrecommitWait {
			hA.fire(sch[i], "timeout")
			break
		}
	}
	return ok && hA.cs.Round == 2
}

// c03F83Prefix: the directed asynchronous prefix of finding F83 (4 equal validators; with the
// rotation q of height 1: B = q[0], C = q[1] correct, D = q[2] faulty, A = q[3] correct).  D
// equivocates in prevotes, tells different nodes different things, relays B's and C's genuine votes
// to A early, and is silent afterwards.  Round 0: B proposes X, only A sees the polka (A, B, D) and
// locks X.  Round 1: C proposes Y, A prevotes X, B and C see the polka for Y after their nil
// precommit (valid block Y, not locked).  Round 2: D re-proposes (Y, POL round 1); A, still in
// round 1, is given the three round-2 prevotes for Y, is carried to round 2 and receives the
// proposal whose POL it does not hold: ValidBlock Y / ValidRound 2, step Propose, still locked on
// X.  Rounds 3..5: nothing forms.  Round 6: D proposes (X, POL round 0), B and C prevote X; A is
// given the three round-6 prevotes for X (carried to round 6, step Propose) and the +2/3
// precommits for nil: enterPrecommit RE-LOCKS X with LockedRound 6.  Before the repair ValidBlock
// stayed Y: A then proposed Y and prevoted X for ever, and with D silent no block gets +2/3
// although every message is delivered.  Returns whether A reached round 7 locked on X since round 6.
func c03F83Prefix(r *vg.Rand, state sm.State, pvs []types.MockPV, net *c01Net) bool {
	q := c01Rotation(state, 4)
	B, C, D, A := q[0], q[1], q[2], q[3]
	nodeOf := map[int]*c02Harness{}
	for _, h := range net.nodes {
		nodeOf[h.me] = h
	}
	hA, hB, hC := nodeOf[A], nodeOf[B], nodeOf[C]
	if hA == nil || hB == nil || hC == nil {
		return false
	}
	dpeer := p2p.ID(fmt.Sprintf("p%d", D+1))
	dl := func(h *c02Harness, mi msgInfo) {
		h.got = append(h.got, mi)
		tm, d := h.inputTerm(mi)
		h.deliver(tm, d, func() { h.cs.handleMsg(mi) })
	}
	pull := func(h *c02Harness, pred func(mi msgInfo) bool) {
		for {
			idx := -1
			for i, mi := range net.inbox[h] {
				if pred(mi) {
					idx = i
					break
				}
			}
			if idx < 0 {
				return
			}
			mi := net.inbox[h][idx]
			net.inbox[h] = append(net.inbox[h][:idx:idx], net.inbox[h][idx+1:]...)
			dl(h, mi)
		}
	}
	votes := func(ty tmproto.SignedMsgType, round int32, from ...int) func(msgInfo) bool {
		return func(mi msgInfo) bool { return isVote(mi, ty, round, setOf(from)) }
	}
	blockOf := func(round int32) func(msgInfo) bool {
		return func(mi msgInfo) bool {
			switch m := mi.Msg.(type) {
			case *ProposalMessage:
				return m.Proposal.Round == round
			case *BlockPartMessage:
				return m.Round == round
			}
			return false
		}
	}
	fire := func(h *c02Harness, step cstypes.RoundStepType) {
		s := h.ticker.scheduled
		for i := len(s) - 1; i >= 0; i-- {
			if s[i].Height == h.cs.Height && s[i].Round == h.cs.Round && s[i].Step == step {
				h.fire(s[i], "timeout")
				return
			}
		}
	}
	PV, PC := tmproto.PrevoteType, tmproto.PrecommitType
	nilID := types.BlockID{}
	bc := []*c02Harness{hB, hC}
	dVote := func(to []*c02Harness, ty tmproto.SignedMsgType, round int32, bid types.BlockID) {
		net.publishTo(to, msgInfo{&VoteMessage{hA.mkVote(r, D, ty, 1, round, bid)}, dpeer})
	}
	ok := true
	dPropose := func(to []*c02Harness, round, polr int32, bid types.BlockID, parts *types.PartSet) {
		prop := types.NewProposal(1, round, polr, bid)
		pp := prop.ToProto()
		if err := pvs[D].SignProposal(state.ChainID, pp); err != nil {
			ok = false
			return
		}
		prop.Signature = pp.Signature
		net.publishTo(to, msgInfo{&ProposalMessage{prop}, dpeer})
		for i := 0; i < int(parts.Total()); i++ {
			net.publishTo(to, msgInfo{&BlockPartMessage{1, round, parts.GetPart(i)}, dpeer})
		}
	}
	// B and C in a round in which nothing forms: prevotes (own, the other's, D: nil), precommits nil
	quietRest := func(round int32) {
		dVote(bc, PV, round, nilID)
		pull(hB, votes(PV, round, C, D))
		pull(hC, votes(PV, round, B, D))
		for _, h := range bc {
			if h.cs.Round == round && h.cs.Step == cstypes.RoundStepPrevoteWait {
				fire(h, cstypes.RoundStepPrevoteWait)
			}
		}
		dVote(bc, PC, round, nilID)
		pull(hB, votes(PC, round, C, D))
		pull(hC, votes(PC, round, B, D))
		fire(hB, cstypes.RoundStepPrecommitWait)
		fire(hC, cstypes.RoundStepPrecommitWait)
	}
	// round 0: B proposes X; A locks X
	for _, h := range []*c02Harness{hA, hB, hC} {
		fire(h, cstypes.RoundStepNewHeight)
	}
	if hB.cs.ProposalBlock == nil {
		return false
	}
	bX := types.BlockID{Hash: hB.cs.ProposalBlock.Hash(), PartSetHeader: hB.cs.ProposalBlockParts.Header()}
	partsX := hB.cs.ProposalBlockParts
	pull(hA, blockOf(0))
	fire(hC, cstypes.RoundStepPropose)
	dVote([]*c02Harness{hA}, PV, 0, bX)
	pull(hA, votes(PV, 0, B, D))
	pull(hB, votes(PV, 0, A, C))
	fire(hB, cstypes.RoundStepPrevoteWait)
	pull(hC, votes(PV, 0, A, B))
	fire(hC, cstypes.RoundStepPrevoteWait)
	pull(hB, votes(PC, 0, A, C))
	fire(hB, cstypes.RoundStepPrecommitWait)
	pull(hC, votes(PC, 0, A, B))
	fire(hC, cstypes.RoundStepPrecommitWait) // C enters round 1 and proposes Y
	pull(hA, votes(PC, 0, B, C))
	fire(hA, cstypes.RoundStepPrecommitWait)
	dVote(bc, PV, 0, bX) // late: B and C hold the polka of round 0
	pull(hB, votes(PV, 0, D))
	pull(hC, votes(PV, 0, D))
	if hC.cs.ProposalBlock == nil || hC.cs.Round != 1 {
		return false
	}
	bY := types.BlockID{Hash: hC.cs.ProposalBlock.Hash(), PartSetHeader: hC.cs.ProposalBlockParts.Header()}
	partsY := hC.cs.ProposalBlockParts
	// round 1: C proposes Y; A does not get it and prevotes X
	pull(hB, blockOf(1))
	fire(hA, cstypes.RoundStepPropose)
	pull(hB, votes(PV, 1, A, C))
	fire(hB, cstypes.RoundStepPrevoteWait)
	pull(hC, votes(PV, 1, A, B))
	fire(hC, cstypes.RoundStepPrevoteWait)
	pull(hA, votes(PV, 1, B, C))
	fire(hA, cstypes.RoundStepPrevoteWait)
	dVote(bc, PV, 1, bY) // late: polka for Y of round 1 at B and C, after their precommit
	pull(hB, votes(PV, 1, D))
	pull(hC, votes(PV, 1, D))
	pull(hB, votes(PC, 1, A, C))
	fire(hB, cstypes.RoundStepPrecommitWait)
	pull(hC, votes(PC, 1, A, B))
	fire(hC, cstypes.RoundStepPrecommitWait)
	// round 2: D re-proposes (Y, POL round 1); A is carried to round 2 by the polka, then gets the proposal
	dPropose(bc, 2, 1, bY, partsY)
	pull(hB, blockOf(2))
	pull(hC, blockOf(2))
	dVote([]*c02Harness{hA}, PV, 2, bY)
	pull(hA, votes(PV, 2, B, C, D))
	dPropose([]*c02Harness{hA}, 2, 1, bY, partsY)
	pull(hA, blockOf(2))
	quietRest(2)
	// round 3 (proposer A, still in round 2), round 4 (proposer B), round 5 (proposer C)
	fire(hB, cstypes.RoundStepPropose)
	fire(hC, cstypes.RoundStepPropose)
	quietRest(3)
	pull(hC, blockOf(4))
	quietRest(4)
	pull(hB, blockOf(5))
	quietRest(5)
	// round 6: D proposes (X, POL round 0) to B and C; A is carried to round 6 and re-locks X
	dPropose(bc, 6, 0, bX, partsX)
	pull(hB, blockOf(6))
	pull(hC, blockOf(6))
	dVote([]*c02Harness{hA}, PV, 6, bX)
	pull(hA, votes(PV, 6, B, C, D))
	quietRest(6)
	dVote([]*c02Harness{hA}, PC, 6, nilID)
	pull(hA, votes(PC, 6, B, C, D))
	fire(hA, cstypes.RoundStepPrecommitWait)
	return ok && hA.cs.Height == 1 && hA.cs.Round == 7 && hA.cs.LockedRound == 6 && hA.cs.LockedBlock != nil && hA.cs.LockedBlock.HashesTo(bX.Hash) &&
		hB.cs.LockedBlock == nil && hC.cs.LockedBlock == nil && hB.cs.Round == 7 && hC.cs.Round == 7
}

// c03Run: an adversarial asynchronous prefix (as in C01, equal powers so that the proposer
// rotation is a plain round robin) followed by a synchronous suffix.
func c03Run(r *vg.Rand, k int) (term, descr string, allDecided bool, kind string) {
	nv := 4 + r.Intn(3)
	scripted := k%4 == 3
	directed := k%20 == 9    // the directed scenario of finding F70 (a lock carried past the polka that releases it)
	directed83 := k%20 == 19 // the directed scenario of finding F83 (a re-lock that leaves a stale valid block)
	directedSkip := k%20 == 14 // the directed scenario of seeded change C03f (a later round learned through split precommits)
	if directed83 {
		scripted = false
	}
	if scripted || directed || directed83 || directedSkip {
		nv = 4
	}
	powers := make([]int64, nv)
	for i := range powers {
		powers[i] = 10
	}
	state, pvs := c02Genesis(r, nv, powers)
	net := &c01Net{kinds: map[string]int{}, inbox: map[*c02Harness][]msgInfo{}}
	nf := r.Intn((nv-1)/3 + 1) // 0 .. floor((n-1)/3) faulty validators of equal power
	var opening []c01RoundPlan
	opName := ""
	if directed {
		net.faulty = []int{c01Rotation(state, 4)[0]}
		opName = "f70-lock-carried-past-the-releasing-polka"
	} else if directed83 {
		net.faulty = []int{c01Rotation(state, 4)[2]}
		opName = "f83-relock-with-stale-valid-block"
	} else if directedSkip {
		net.faulty = []int{c01Rotation(state, 4)[0]}
		opName = "c03f-later-round-learned-through-split-precommits"
	} else if scripted {
		var f int
		f, opening, opName = c01Opening(r, c01Rotation(state, 4), (k/4)%4)
		net.faulty = []int{f}
	} else {
		for _, i := range r.Perm(nv)[:nf] {
			net.faulty = append(net.faulty, i)
		}
	}
	isFaulty := map[int]bool{}
	for _, i := range net.faulty {
		isFaulty[i] = true
	}
	skip := r.Bool()
	var shared *c02Harness
	for i := 0; i < nv; i++ {
		if isFaulty[i] {
			continue
		}
		h := c02NewNode(r, state, pvs, i, skip, shared)
		if shared == nil {
			shared = h
		}
		hh := h
		h.net = net
		h.onOwn = func(mi msgInfo) { net.publish(hh, mi) }
		h.hardCap = 100000
		net.nodes = append(net.nodes, h)
	}
	// asynchronous prefix: lossy, early timeouts, split-brain and equivocation
	prefix := 150 + r.Intn(450)
	withhold := r.Chance(50) // precommits never arrive during the prefix: nodes lock but cannot decide
	directedOK := true
	if directed {
		directedOK = c03F70Prefix(r, state, pvs, net)
		prefix = 0
	} else if directed83 {
		directedOK = c03F83Prefix(r, state, pvs, net)
		prefix = 0
	} else if directedSkip {
		directedOK = c03SkipPrefix(r, state, pvs, net)
		prefix = 0
	} else if scripted {
		c01RoundsRun(r, net, pvs, opening, len(opening)+r.Intn(3))
		prefix = 0
	} else {
		c01Async(r, net, pvs, prefix, []int{0, 10, 25, 40}[r.Intn(4)], []int{3, 8, 15}[r.Intn(3)], 8, withhold)
	}
	// the synchronous suffix starts here
	var marks []string
	h0 := int64(0)
	for _, h := range net.nodes {
		if h.cs.Height > h0 {
			h0 = h.cs.Height
		}
	}
	for _, h := range net.nodes {
		marks = append(marks, vg.Nat(len(h.steps)))
		h.lockedAtSync = h.cs.LockedBlock != nil
	}
	bound := int32(2*nv + 2)
	// idealised gossip: whatever a correct node holds reaches every other correct node; what was
	// lost or held back during the asynchronous prefix is sent again
	for _, h := range net.nodes {
		// (also what the node was sent before but could not use then: gossip resends by peer state)
		have := map[msgInfo]bool{}
		for _, mi := range net.inbox[h] {
			have[mi] = true
		}
		for _, mi := range net.pool {
			if !have[mi] && c01Height(mi) >= h.cs.Height {
				net.inbox[h] = append(net.inbox[h], mi)
				have[mi] = true
			}
		}
	}
	syncByz := 30
	if scripted && r.Bool() { // the faulty validators fall silent: termination must not depend on their help
		syncByz = 0
	}
	if directed || directed83 || directedSkip { // the faulty validator is silent from now on
		syncByz = 0
	}
	c03Sync(r, net, pvs, h0, bound+2, syncByz)
	allDecided = true
	for _, h := range net.nodes {
		if !h.panicked && h.cs.Height <= h0 {
			allDecided = false
		}
	}
	var vals []string
	for i, v := range state.Validators.Validators {
		vals = append(vals, vg.Tup(vg.N(uint64(i+1)), vg.Z(v.VotingPower)))
	}
	var props, nodes []string
	for ht := int64(1); ht <= h0+2; ht++ {
		if row, ok := shared.props[ht]; ok {
			props = append(props, vg.Tup(vg.Z(ht), vg.ZL(row)))
		}
	}
	var d strings.Builder
	locked := 0
	for _, h := range net.nodes {
		if h.lockedAtSync {
			locked++
		}
	}
	fmt.Fprintf(&d, "validators=%d equal powers, faulty=%v skipTimeoutCommit=%v async-prefix=%d inputs (precommits withheld: %v), %d nodes locked at sync, sync from height %d, bound %d rounds;", nv, net.faulty, skip, prefix, withhold, locked, h0, bound)
	for i, h := range net.nodes {
		nodes = append(nodes, vg.Tup(vg.Z(int64(h.me)), vg.L(h.steps)))
		fmt.Fprintf(&d, " node %d: %d inputs (sync from #%s), final %d/%d/%d;", h.me, len(h.steps), marks[i], h.cs.Height, h.cs.Round, h.cs.Step)
		if h.cs.Height <= h0 && !h.panicked { // diagnostics for a node that did not decide
			np, nu := 0, 0
			for _, mi := range net.inbox[h] {
				if _, ok := mi.Msg.(*BlockPartMessage); ok {
					np++
				}
				if c01Usable(mi, h) {
					nu++
				}
			}
			pbp := "nil"
			if h.cs.ProposalBlockParts != nil {
				pbp = fmt.Sprintf("%v complete=%v", h.cs.ProposalBlockParts.Header(), h.cs.ProposalBlockParts.IsComplete())
			}
			fmt.Fprintf(&d, " [stuck: inbox %d msgs, %d parts, %d usable, waiting for parts %s, pool %d", len(net.inbox[h]), np, nu, pbp, len(net.pool))
			for _, o := range net.nodes {
				if o.cs.Height > h.cs.Height {
					if sc := o.cs.blockStore.LoadSeenCommit(h.cs.Height); sc != nil {
						pcs := h.cs.Votes.Precommits(sc.Round)
						fmt.Fprintf(&d, "; node %d decided h%d in round %d, my precommits for that round: %v", o.me, h.cs.Height, sc.Round, pcs)
						break
					}
				}
			}
			inb := map[string]int{}
			for _, mi := range net.inbox[h] {
				switch m := mi.Msg.(type) {
				case *VoteMessage:
					inb[fmt.Sprintf("vote t%d h%d r%d", m.Vote.Type, m.Vote.Height, m.Vote.Round)]++
				case *ProposalMessage:
					inb[fmt.Sprintf("proposal h%d r%d", m.Proposal.Height, m.Proposal.Round)]++
				case *BlockPartMessage:
					inb[fmt.Sprintf("part h%d r%d", m.Height, m.Round)]++
				}
			}
			fmt.Fprintf(&d, "; inbox: %v];", inb)
		}
	}
	term = vg.App("CSync", vg.L(vals), vg.B(skip), vg.Z(1), vg.L(props), vg.L(nodes), vg.L(marks), vg.Z(h0), vg.Z(int64(bound)))
	kind = fmt.Sprintf("sync/n=%d/faulty=%d/locked=%d/alldecided=%v", nv, len(net.faulty), locked, allDecided)
	if scripted {
		kind = "rounds-" + opName + "/" + kind
		fmt.Fprintf(&d, " prefix: round-structured adversary, opening %q, faulty activity during synchrony %d%%;", opName, syncByz)
	}
	if directed {
		kind = "directed-" + opName + "/" + kind
		fmt.Fprintf(&d, " prefix: DIRECTED scenario %q (finding F70; intended locks reached: %v): F proposes X in round 0, A locks X (prevotes of C and F), C and D see no polka and precommit nil; C proposes Y in round 1, C and D lock Y on the prevotes of C, D, F; A receives these three prevotes while still in round 0 (polka for Y recorded, no unlock, skip to round 1), then the round-2 prevotes of C, D (Y) and F (nil) (skip to round 2 without prevoting in round 1); from then on F is silent and every message is delivered;", opName, directedOK)
	}
	if directed83 {
		kind = "directed-" + opName + "/" + kind
		fmt.Fprintf(&d, " prefix: DIRECTED scenario %q (finding F83; A in round 7 locked on X since round 6, B and C unlocked: %v): B proposes X in round 0, only A sees the polka (A, B, D) and locks X; C proposes Y in round 1, A prevotes X, B and C see the polka for Y after their nil precommit (valid block Y); D re-proposes (Y, POL round 1) in round 2, A - still in round 1 - receives the three round-2 prevotes for Y (carried to round 2) and then the proposal whose POL it does not hold (ValidBlock Y, step Propose, still locked on X); rounds 3..5 form nothing; D proposes (X, POL round 0) in round 6, B and C prevote X and D tells them nil, A receives the three round-6 prevotes for X (carried to round 6) and the +2/3 precommits for nil: enterPrecommit re-locks X with LockedRound 6; from then on D is silent and every message is delivered;", opName, directedOK)
	}
	if directedSkip {
		kind = "directed-" + opName + "/" + kind
		fmt.Fprintf(&d, " prefix: DIRECTED scenario %q (seeded change C03f; A holds +2/3-any round-1 precommits without a majority: %v): F (proposer of round 0) proposes nothing, everybody prevotes nil, C and D precommit nil and leave round 0 on the nil precommits of C, D, F; C proposes Y in round 1, D misses it, no polka, C and D precommit nil, F precommits Y; A - still in round 0, having seen no round-1 prevote - receives these three round-1 precommits and its precommit-wait timeout of round 1 fires (A enters round 2); from then on F is silent and every message is delivered;", opName, directedOK)
	}
	return term, d.String(), allDecided, kind
}

// ---------------------------------------------------------------- C03: the timeout schedule

// TestVerifC03Timeouts records ConsensusConfig.Propose/Prevote/Precommit(round) for the default
// configuration, the test configuration and PRNG-drawn ones: the timeouts must grow with the round
// (that is what lets a slow network catch up with the rounds).
func TestVerifC03Timeouts(t *testing.T) {
	root := vg.NewRand(vg.Seed() ^ 0xc03f)
	cs := vg.NewCases("C03", "c03_timeouts", "TM.C03.Exec")
	mk := func(kind string, c *cfg.ConsensusConfig) {
		id := cs.NextID()
		if !cs.Want(id) {
			return
		}
		var rows []string
		descr := fmt.Sprintf("%s: propose %v+%v/round prevote %v+%v/round precommit %v+%v/round;", kind,
			c.TimeoutPropose, c.TimeoutProposeDelta, c.TimeoutPrevote, c.TimeoutPrevoteDelta, c.TimeoutPrecommit, c.TimeoutPrecommitDelta)
		for _, r := range []int32{0, 1, 2, 3, 4, 7, 8, 100, 1000} {
			p, v, pc := c.Propose(r), c.Prevote(r), c.Precommit(r)
			rows = append(rows, vg.Tup(vg.Z(int64(r)), vg.Tup(vg.Z(int64(p)), vg.Z(int64(v)), vg.Z(int64(pc)))))
			descr += fmt.Sprintf(" r=%d: %v %v %v;", r, p, v, pc)
		}
		cs.Add(id, "timeouts/"+kind, true,
			vg.App("CTimeouts",
				vg.Tup(vg.Z(int64(c.TimeoutPropose)), vg.Z(int64(c.TimeoutPrevote)), vg.Z(int64(c.TimeoutPrecommit))),
				vg.Tup(vg.Z(int64(c.TimeoutProposeDelta)), vg.Z(int64(c.TimeoutPrevoteDelta)), vg.Z(int64(c.TimeoutPrecommitDelta))),
				vg.L(rows)), descr)
	}
	mk("default", cfg.DefaultConsensusConfig())
	mk("test", cfg.TestConsensusConfig())
	for k := 0; k < vg.Scale(6, 200); k++ {
		r := root.Fork(uint64(k))
		c := cfg.DefaultConsensusConfig()
		ms := func(max int) time.Duration { return time.Duration(1+r.Intn(max)) * time.Millisecond }
		c.TimeoutPropose, c.TimeoutProposeDelta = ms(5000), ms(1000)
		c.TimeoutPrevote, c.TimeoutPrevoteDelta = ms(3000), ms(1000)
		c.TimeoutPrecommit, c.TimeoutPrecommitDelta = ms(3000), ms(1000)
		mk("random", c)
	}
	if err := cs.Write(); err != nil {
		t.Fatal(err)
	}
}
