//go:build verif

package consensus

// C01 harness: several real consensus.State objects (the correct validators) wired through a
// scheduler the PRNG controls: every message a correct node emits goes into a pool; the
// scheduler delivers pool messages to nodes in any order, any number of times, or never
// (delay, duplication, loss, partitions), fires scheduled timeouts, and lets the faulty
// validators (less than one third of the power) sign anything: equivocating prevotes and
// precommits, proposals for several blocks, votes for arbitrary rounds.  Every node's trace is
// written out as in the C02 harness; TM.C01.Exec replays each node through the model and checks
// agreement and decision backing across nodes.

import (
	"fmt"
	"strings"
	"testing"

	vg "github.com/tendermint/tendermint/internal/verifgen"
	"github.com/tendermint/tendermint/p2p"
	tmproto "github.com/tendermint/tendermint/proto/tendermint/types"
	"github.com/tendermint/tendermint/types"
)

type c01Net struct {
	nodes  []*c02Harness // correct validators
	faulty []int         // validator indices of the faulty ones
	pool   []msgInfo
	kinds  map[string]int
}

func (n *c01Net) publish(mi msgInfo) { n.pool = append(n.pool, mi) }

func (n *c01Net) totalSteps() int {
	t := 0
	for _, h := range n.nodes {
		t += len(h.steps)
	}
	return t
}

func c01Run(r *vg.Rand, k int) (term string, descr string, nontrivial bool, decided int, kind string) {
	nv := 4 + r.Intn(3)
	powers := make([]int64, nv)
	for i := range powers {
		powers[i] = 10
		if r.Chance(30) {
			powers[i] = 5 + int64(r.Intn(15))
		}
	}
	state, pvs := c02Genesis(r, nv, powers)
	total := state.Validators.TotalVotingPower()
	// choose faulty validators with strictly less than one third of the power
	net := &c01Net{kinds: map[string]int{}}
	var fpow int64
	for _, i := range r.Perm(nv) {
		p := state.Validators.Validators[i].VotingPower
		if 3*(fpow+p) < total && r.Chance(70) {
			net.faulty = append(net.faulty, i)
			fpow += p
		}
	}
	isFaulty := map[int]bool{}
	for _, i := range net.faulty {
		isFaulty[i] = true
	}
	skip := r.Bool()
	var shared *c02Harness
	for i := 0; i < nv; i++ {
		if isFaulty[i] {
			continue
		}
		h := c02NewNode(r, state, pvs, i, skip, shared)
		if shared == nil {
			shared = h
		}
		h.onOwn = net.publish
		h.hardCap = 100000
		net.nodes = append(net.nodes, h)
	}
	maxSteps := 900
	// a Byzantine helper: any node's tables can be used to build terms
	byz := func(h *c02Harness) {
		if len(net.faulty) == 0 {
			return
		}
		f := net.faulty[r.Intn(len(net.faulty))]
		cs := h.cs
		switch r.Intn(5) {
		case 0, 1, 2: // a vote for anything, for a round near the target's
			ty := tmproto.PrevoteType
			if r.Bool() {
				ty = tmproto.PrecommitType
			}
			round := cs.Round + int32(r.Intn(3)) - 1
			if round < 0 {
				round = 0
			}
			v := h.mkVote(r, f, ty, cs.Height, round, h.pickBlockID(r))
			net.publish(msgInfo{&VoteMessage{v}, "p9"})
			net.kinds["byz/vote"]++
		case 3: // a proposal (if the faulty validator is the proposer it can equivocate)
			c := h.candidates(r)
			if len(c) == 0 {
				return
			}
			e := c[r.Intn(len(c))]
			p := types.NewProposal(cs.Height, cs.Round, -1, types.BlockID{Hash: e.block.Hash(), PartSetHeader: e.parts.Header()})
			pp := p.ToProto()
			pvs[f].SignProposal(cs.state.ChainID, pp) //nolint:errcheck
			p.Signature = pp.Signature
			net.publish(msgInfo{&ProposalMessage{p}, "p9"})
			for i := 0; i < int(e.parts.Total()); i++ {
				net.publish(msgInfo{&BlockPartMessage{cs.Height, cs.Round, e.parts.GetPart(i)}, "p9"})
			}
			net.kinds["byz/proposal"]++
		default: // the same vote type/round for two different values, to different halves later
			v1 := h.mkVote(r, f, tmproto.PrevoteType, cs.Height, cs.Round, h.pickBlockID(r))
			v2 := h.mkVote(r, f, tmproto.PrevoteType, cs.Height, cs.Round, types.BlockID{})
			net.publish(msgInfo{&VoteMessage{v1}, "p9"})
			net.publish(msgInfo{&VoteMessage{v2}, "p9"})
			net.kinds["byz/equivocation"]++
		}
	}
	deliver := func(h *c02Harness, mi msgInfo) {
		t, d := h.inputTerm(mi)
		h.deliver(t, d, func() { h.cs.handleMsg(mi) })
	}
	cursor := map[*c02Harness]int{}
	lossPct := []int{0, 0, 3, 10, 25}[r.Intn(5)]
	earlyTimeoutPct := []int{0, 0, 1, 3, 8}[r.Intn(5)] // timeouts firing although messages are in flight
	byzPct := []int{1, 3, 6}[r.Intn(3)]
	for net.totalSteps() < maxSteps {
		alive := 0
		for _, h := range net.nodes {
			if !h.panicked {
				alive++
			}
		}
		if alive == 0 {
			break
		}
		h := net.nodes[r.Intn(len(net.nodes))]
		if h.panicked {
			continue
		}
		cur := cursor[h]
		behind := cur < len(net.pool)
		x := r.Intn(100)
		var action string
		switch {
		case behind && x < earlyTimeoutPct:
			action = "timeout"
		case behind && x < earlyTimeoutPct+byzPct:
			action = "byz"
		case behind && x < earlyTimeoutPct+byzPct+3:
			action = "old"
		case behind:
			action = "next"
		case x < 70:
			action = "timeout"
		case x < 88:
			action = "byz"
		default:
			action = "old"
		}
		switch action {
		case "timeout": // a scheduled timeout
			s := h.ticker.scheduled
			if len(s) == 0 {
				continue
			}
			ti := s[len(s)-1]
			if r.Chance(15) {
				ti = s[r.Intn(len(s))]
			}
			h.fire(ti, "timeout")
			net.kinds["timeout"]++
		case "byz":
			byz(h)
		case "old": // an old message again, or one that was skipped
			if len(net.pool) == 0 {
				continue
			}
			deliver(h, net.pool[r.Intn(len(net.pool))])
			net.kinds["deliver/any"]++
		default: // the next message of the pool for this node (in pool order), sometimes lost
			cursor[h] = cur + 1
			if r.Chance(lossPct) {
				net.kinds["lost"]++
				continue
			}
			deliver(h, net.pool[cur])
			net.kinds["deliver/next"]++
		}
	}
	// the Coq term: validator set, flags, proposer table, one trace per correct node
	var vals []string
	for i, v := range state.Validators.Validators {
		vals = append(vals, vg.Tup(vg.N(uint64(i+1)), vg.Z(v.VotingPower)))
	}
	var hs []int64
	for ht := range shared.props {
		hs = append(hs, ht)
	}
	for i := range hs { // sort
		for j := i + 1; j < len(hs); j++ {
			if hs[j] < hs[i] {
				hs[i], hs[j] = hs[j], hs[i]
			}
		}
	}
	var props []string
	for _, ht := range hs {
		props = append(props, vg.Tup(vg.Z(ht), vg.ZL(shared.props[ht])))
	}
	var nodes []string
	var d strings.Builder
	fmt.Fprintf(&d, "validators=%d powers=%v faulty=%v skipTimeoutCommit=%v loss=%d%% earlyTimeouts=%d%% byz=%d%%;", nv, powers, net.faulty, skip, lossPct, earlyTimeoutPct, byzPct)
	panics := 0
	for _, h := range net.nodes {
		nodes = append(nodes, vg.Tup(vg.Z(int64(h.me)), vg.L(h.steps)))
		decided += h.decided
		if h.panicked {
			panics++
		}
		fmt.Fprintf(&d, " node %d (%d inputs, %d heights decided, final %d/%d/%d, cursor %d of %d):", h.me, len(h.steps), h.decided, h.cs.Height, h.cs.Round, h.cs.Step, cursor[h], len(net.pool))
		for i, s := range h.descr {
			if len(h.descr) > 60 && i >= 30 && i < len(h.descr)-30 {
				if i == 30 {
					d.WriteString(" ...;")
				}
				continue
			}
			fmt.Fprintf(&d, " [%d] %s;", i, s)
		}
	}
	term = vg.App("CNet", vg.L(vals), vg.B(skip), vg.Z(1), vg.L(props), vg.L(nodes))
	kind = fmt.Sprintf("net/n=%d/faulty=%d/decided=%d/panics=%d", nv, len(net.faulty), decided, panics)
	return term, d.String(), decided > 0, decided, kind
}

func TestVerifC01Network(t *testing.T) {
	root := vg.NewRand(vg.Seed() ^ 0xc01)
	cs := vg.NewCases("C01", "c01_network", "TM.C01.Exec")
	vg.ShardSize = 2
	n := vg.Scale(40, 1200)
	total := 0
	for k := 0; k < n; k++ {
		id := cs.NextID()
		if !cs.Want(id) {
			continue
		}
		r := root.Fork(uint64(k))
		term, descr, nontriv, decided, kind := c01Run(r, k)
		total += decided
		cs.Add(id, kind, nontriv, term, descr)
	}
	cs.Notes = append(cs.Notes, fmt.Sprintf("decisions (node x height) in total: %d", total))
	_ = p2p.ID("")
	if err := cs.Write(); err != nil {
		t.Fatal(err)
	}
}
