//go:build verif

package consensus

// C05 (part A) correspondence harness: crash recovery of the commit pipeline.
//
// A node is assembled from the REAL pieces: consensus.State.finalizeCommit (driven directly with
// a decided block and its +2/3 precommits), sm.BlockExecutor.ApplyBlock, store.BlockStore,
// sm.Store, consensus.Handshaker (Handshake/ReplayBlocks) and, as in node.go, a reload of the
// state after the handshake.  Both databases are memdbs behind c05DB, the WAL is c05WAL and the
// application is c05App: every persistence operation ("effective step": the write that makes a
// block visible in the block store, the #ENDHEIGHT marker, every ABCI call on the consensus
// connection, the write of the last ABCI responses, the write of the state) asks c05Ctl first,
// which panics with c05Crash when the budget of the current operation is used up.  Other
// database writes (block parts, meta, validator info, ...) are "raw" crash points in between.
// After a crash all node objects are dropped; the databases, the WAL markers and the
// application's committed state and call journal survive; the application loses its
// uncommitted execution.  Restart = new objects + Handshake, which can be crashed again.
//
// The same history is run on coq/C05/Model.v by coq/C05/Exec.v, which also evaluates the
// property's monitors on what is recorded here.

import (
	"bytes"
	"encoding/binary"
	"fmt"
	"io"
	"os"
	"strings"
	"testing"
	"time"

	dbm "github.com/tendermint/tm-db"

	abcicli "github.com/tendermint/tendermint/abci/client"
	abci "github.com/tendermint/tendermint/abci/types"
	cfg "github.com/tendermint/tendermint/config"
	cstypes "github.com/tendermint/tendermint/consensus/types"
	"github.com/tendermint/tendermint/crypto/ed25519"
	vg "github.com/tendermint/tendermint/internal/verifgen"
	"github.com/tendermint/tendermint/libs/log"
	"github.com/tendermint/tendermint/libs/service"
	tmsync "github.com/tendermint/tendermint/libs/sync"
	tmproto "github.com/tendermint/tendermint/proto/tendermint/types"
	"github.com/tendermint/tendermint/proxy"
	sm "github.com/tendermint/tendermint/state"
	"github.com/tendermint/tendermint/store"
	"github.com/tendermint/tendermint/types"
)

// ---------------------------------------------------------------- crash control

type c05Crash struct{}

const (
	c05SaveBlock = 1
	c05WalEnd    = 2
	c05Begin     = 3
	c05Deliver   = 4
	c05End       = 5
	c05SaveResp  = 6
	c05Commit    = 7
	c05SaveState = 8
	c05InitChain = 9
)

type c05Ctl struct {
	eff     int // effective steps still allowed; < 0 unlimited
	raw     int // when eff == 0: crash at the raw-th raw write (0: only at the next effective step)
	crashed bool
	trace   []uint64
}

func (c *c05Ctl) arm(eff, raw int) { c.eff, c.raw, c.crashed, c.trace = eff, raw, false, nil }

func (c *c05Ctl) effective(code uint64) {
	if c.crashed || c.eff == 0 {
		c.crashed = true
		panic(c05Crash{})
	}
	if c.eff > 0 {
		c.eff--
	}
	c.trace = append(c.trace, code)
}

func (c *c05Ctl) rawWrite() {
	if c.crashed {
		panic(c05Crash{})
	}
	if c.eff == 0 && c.raw > 0 {
		c.raw--
		if c.raw == 0 {
			c.crashed = true
			panic(c05Crash{})
		}
	}
}

// ---------------------------------------------------------------- crashing DB

type c05DB struct {
	dbm.DB
	ctl  *c05Ctl
	keys map[string]uint64 // key -> effective step code
}

func (d *c05DB) Set(k, v []byte) error { d.ctl.rawWrite(); return d.DB.Set(k, v) }
func (d *c05DB) SetSync(k, v []byte) error {
	if code, ok := d.keys[string(k)]; ok {
		d.ctl.effective(code)
	} else {
		d.ctl.rawWrite()
	}
	return d.DB.SetSync(k, v)
}
func (d *c05DB) Delete(k []byte) error     { d.ctl.rawWrite(); return d.DB.Delete(k) }
func (d *c05DB) DeleteSync(k []byte) error { d.ctl.rawWrite(); return d.DB.DeleteSync(k) }
func (d *c05DB) NewBatch() dbm.Batch       { return &c05Batch{Batch: d.DB.NewBatch(), ctl: d.ctl} }

type c05Batch struct {
	dbm.Batch
	ctl *c05Ctl
}

func (b *c05Batch) Write() error     { b.ctl.rawWrite(); return b.Batch.Write() }
func (b *c05Batch) WriteSync() error { b.ctl.rawWrite(); return b.Batch.WriteSync() }

// ---------------------------------------------------------------- WAL stub (markers only)

type c05WAL struct {
	ctl  *c05Ctl
	ends *[]int64
}

func (w *c05WAL) Write(WALMessage) error { return nil }
func (w *c05WAL) WriteSync(m WALMessage) error {
	if e, ok := m.(EndHeightMessage); ok {
		w.ctl.effective(c05WalEnd)
		*w.ends = append(*w.ends, e.Height)
	}
	return nil
}
func (w *c05WAL) FlushAndSync() error { return nil }
func (w *c05WAL) SearchForEndHeight(h int64, _ *WALSearchOptions) (rd io.ReadCloser, found bool, err error) {
	return nil, false, nil
}
func (w *c05WAL) Start() error { return nil }
func (w *c05WAL) Stop() error  { return nil }
func (w *c05WAL) Wait()        {}

// ---------------------------------------------------------------- recording application

const c05PM = 1000003

type c05Snap struct {
	h   int64
	acc uint64
}

type c05App struct {
	abci.BaseApplication
	ctl    *c05Ctl
	keys   [][]byte // validator public keys that val-update transactions refer to
	off    int64    // genesis initial_height - 1: the hash chain counts heights from the genesis state's position
	height int64
	acc    uint64
	snaps  []c05Snap // newest first
	work   uint64
	cur    int64
	curVal map[int]int64
	curGas int64
	jr     []string // Coq terms
	jh     []string // readable
}

func c05NewApp(ctl *c05Ctl, keys [][]byte) *c05App {
	return &c05App{ctl: ctl, keys: keys, acc: 7, work: 7}
}

func (a *c05App) j(term, human string) { a.jr = append(a.jr, term); a.jh = append(a.jh, human) }

func c05Enc(acc uint64) []byte {
	b := make([]byte, 8)
	binary.BigEndian.PutUint64(b, acc)
	return b
}

// app hash as the model sees it: -1 empty, big-endian value of 8 bytes, -2 anything else
func c05Dec(b []byte) int64 {
	switch len(b) {
	case 0:
		return -1
	case 8:
		return int64(binary.BigEndian.Uint64(b))
	}
	return -2
}

func (a *c05App) Info(abci.RequestInfo) abci.ResponseInfo {
	r := abci.ResponseInfo{LastBlockHeight: a.height}
	if a.height > 0 {
		r.LastBlockAppHash = c05Enc(a.acc)
	}
	return r
}

func (a *c05App) InitChain(abci.RequestInitChain) abci.ResponseInitChain {
	a.ctl.effective(c05InitChain)
	a.j("JInit", "InitChain")
	a.work = 7
	return abci.ResponseInitChain{AppHash: c05Enc(7)}
}

func (a *c05App) BeginBlock(req abci.RequestBeginBlock) abci.ResponseBeginBlock {
	a.ctl.effective(c05Begin)
	h := req.Header.Height
	a.j(vg.App("JBegin", vg.Z(h)), fmt.Sprintf("Begin(%d)", h))
	a.work = (a.work*33 + uint64(h-a.off)) % c05PM
	a.cur = h
	a.curVal = map[int]int64{}
	a.curGas = 0
	return abci.ResponseBeginBlock{}
}

// transactions are 8 bytes big-endian; bits 32.. select special kinds:
// 1: validator update (key index bits 8..15, power bits 0..7, power >= 1), 2: block max gas := low 16 bits
func c05TxVal(tx []byte) uint64 {
	if len(tx) != 8 {
		return 0
	}
	return binary.BigEndian.Uint64(tx)
}

func (a *c05App) DeliverTx(req abci.RequestDeliverTx) abci.ResponseDeliverTx {
	a.ctl.effective(c05Deliver)
	t := c05TxVal(req.Tx)
	a.j(vg.App("JDeliver", vg.N(t)), fmt.Sprintf("Deliver(%d)", t))
	a.work = (a.work*33 + t + 1) % c05PM
	var code uint32
	if a.work%7 == 0 {
		code = 1
	}
	switch t >> 32 {
	case 1:
		idx := int((t >> 8) & 0xff)
		p := int64(t & 0xff)
		if idx < len(a.keys) && p >= 1 && a.curVal != nil {
			a.curVal[idx] = p
		}
	case 2:
		a.curGas = int64(t&0xffff) + 1
	}
	return abci.ResponseDeliverTx{Code: code, Data: []byte{byte(a.work)}}
}

func (a *c05App) EndBlock(req abci.RequestEndBlock) abci.ResponseEndBlock {
	a.ctl.effective(c05End)
	a.j(vg.App("JEnd", vg.Z(req.Height)), fmt.Sprintf("End(%d)", req.Height))
	var r abci.ResponseEndBlock
	for idx := 0; idx < len(a.keys); idx++ {
		if p, ok := a.curVal[idx]; ok {
			r.ValidatorUpdates = append(r.ValidatorUpdates, abci.UpdateValidator(a.keys[idx], p, ""))
		}
	}
	if a.curGas > 0 {
		r.ConsensusParamUpdates = &abci.ConsensusParams{Block: &abci.BlockParams{MaxBytes: 22020096, MaxGas: a.curGas}}
	}
	return r
}

func (a *c05App) Commit() abci.ResponseCommit {
	a.ctl.effective(c05Commit)
	if a.cur > 0 {
		a.j(vg.App("JCommit", vg.Z(a.cur)), fmt.Sprintf("Commit(%d)", a.cur))
		a.snaps = append([]c05Snap{{a.height, a.acc}}, a.snaps...)
		a.height, a.acc = a.cur, a.work
	} else {
		a.j(vg.App("JCommit", vg.Z(0)), "Commit(no block)")
	}
	a.cur = 0
	return abci.ResponseCommit{Data: c05Enc(a.work)}
}

// the node died: the uncommitted execution is gone
func (a *c05App) crashReset() {
	a.j("JCrash", "CRASH")
	a.work, a.cur, a.curVal, a.curGas = a.acc, 0, nil, 0
}

func (a *c05App) rollback(k int64) {
	if k < 0 || k >= a.height {
		return
	}
	for i, s := range a.snaps {
		if s.h == k {
			a.j(vg.App("JRollback", vg.Z(k)), fmt.Sprintf("ROLLBACK(%d)", k))
			a.height, a.acc, a.work, a.cur = k, s.acc, s.acc, 0
			rest := a.snaps[i:]
			j := 0
			for j < len(rest) && rest[j].h >= k {
				j++
			}
			a.snaps = append([]c05Snap{}, rest[j:]...)
			return
		}
	}
}

// ---------------------------------------------------------------- app connections

type c05Conns struct {
	service.BaseService
	cons  proxy.AppConnConsensus
	query proxy.AppConnQuery
}

func c05NewConns(app abci.Application) *c05Conns {
	mtx := new(tmsync.Mutex)
	c := &c05Conns{
		cons:  proxy.NewAppConnConsensus(abcicli.NewLocalClient(mtx, app)),
		query: proxy.NewAppConnQuery(abcicli.NewLocalClient(mtx, app)),
	}
	c.BaseService = *service.NewBaseService(nil, "c05Conns", c)
	return c
}
func (c *c05Conns) Mempool() proxy.AppConnMempool     { return nil }
func (c *c05Conns) Consensus() proxy.AppConnConsensus { return c.cons }
func (c *c05Conns) Query() proxy.AppConnQuery         { return c.query }
func (c *c05Conns) Snapshot() proxy.AppConnSnapshot   { return nil }

type c05Ticker struct{ c chan timeoutInfo }

func (t *c05Ticker) Start() error                { return nil }
func (t *c05Ticker) Stop() error                 { return nil }
func (t *c05Ticker) Chan() <-chan timeoutInfo    { return t.c }
func (t *c05Ticker) ScheduleTimeout(timeoutInfo) {}
func (t *c05Ticker) SetLogger(log.Logger)        {}

// ---------------------------------------------------------------- the decided chain

type c05Decided struct {
	block *types.Block
	parts *types.PartSet
	votes []*types.Vote
}

type c05Chain struct {
	ih      int64 // genesis initial_height (1 except in the F87 family)
	genDoc  *types.GenesisDoc
	pvs     map[string]types.MockPV // by address
	keys    [][]byte
	txs     [][]uint64            // per height (index h-1)
	decided map[int64]*c05Decided // filled by the crash-free reference run
	ref     map[int64][]byte      // sm.State bytes of the reference node after height h (0: after the first handshake)
}

var c05GenesisTime = time.Unix(1600000000, 0).UTC()

func c05NewChain(r *vg.Rand, nvals int, txs [][]uint64) *c05Chain {
	return c05NewChainAt(r, nvals, txs, 1)
}

// txs[i] are the transactions of the block of height ih+i
func c05NewChainAt(r *vg.Rand, nvals int, txs [][]uint64, ih int64) *c05Chain {
	c := &c05Chain{ih: ih, pvs: map[string]types.MockPV{}, txs: txs, decided: map[int64]*c05Decided{}, ref: map[int64][]byte{}}
	var gvals []types.GenesisValidator
	for i := 0; i < nvals+1; i++ { // one spare key that val-update transactions can add
		pv := types.NewMockPVWithParams(ed25519.GenPrivKeyFromSecret(r.Bytes(16)), false, false)
		pk, _ := pv.GetPubKey()
		c.pvs[string(pk.Address())] = pv
		c.keys = append(c.keys, pk.Bytes())
		if i < nvals {
			gvals = append(gvals, types.GenesisValidator{PubKey: pk, Power: 10})
		}
	}
	c.genDoc = &types.GenesisDoc{GenesisTime: c05GenesisTime, InitialHeight: ih, ChainID: "verif-c05", Validators: gvals}
	if err := c.genDoc.ValidateAndComplete(); err != nil {
		panic(err)
	}
	return c
}

func c05Tx(t uint64) types.Tx {
	b := make([]byte, 8)
	binary.BigEndian.PutUint64(b, t)
	return types.Tx(b)
}

// ---------------------------------------------------------------- the node

type c05Node struct {
	chain   *c05Chain
	ctl     *c05Ctl
	blockDB dbm.DB // raw memdbs: survive crashes
	stateDB dbm.DB
	walEnds []int64
	app     *c05App
	// volatile
	cs *State
}

func c05NewNode(chain *c05Chain) *c05Node {
	ctl := &c05Ctl{eff: -1}
	n := &c05Node{chain: chain, ctl: ctl, blockDB: dbm.NewMemDB(), stateDB: dbm.NewMemDB(), app: c05NewApp(ctl, chain.keys)}
	n.app.off = chain.ih - 1
	return n
}

func (n *c05Node) stores() (*store.BlockStore, sm.Store) {
	bdb := &c05DB{DB: n.blockDB, ctl: n.ctl, keys: map[string]uint64{"blockStore": c05SaveBlock}}
	sdb := &c05DB{DB: n.stateDB, ctl: n.ctl, keys: map[string]uint64{"stateKey": c05SaveState, "lastABCIResponseKey": c05SaveResp}}
	return store.NewBlockStore(bdb), sm.NewStore(sdb, sm.StoreOptions{DiscardABCIResponses: false})
}

// node start as in node.go: load state or genesis, handshake, reload state, build consensus state
func (n *c05Node) restart() error {
	blockStore, stateStore := n.stores()
	state, err := stateStore.LoadFromDBOrGenesisDoc(n.chain.genDoc)
	if err != nil {
		return err
	}
	conns := c05NewConns(n.app)
	hs := NewHandshaker(stateStore, state, blockStore, n.chain.genDoc)
	if err := hs.Handshake(conns); err != nil {
		return err
	}
	state, err = stateStore.Load()
	if err != nil {
		return err
	}
	if state.IsEmpty() {
		return fmt.Errorf("no state saved by the handshake")
	}
	blockExec := sm.NewBlockExecutor(stateStore, log.NewNopLogger(), conns.Consensus(), emptyMempool{}, sm.EmptyEvidencePool{})
	cs := NewState(cfg.TestConsensusConfig(), state, blockExec, blockStore, emptyMempool{}, sm.EmptyEvidencePool{})
	cs.SetLogger(log.NewNopLogger())
	cs.SetTimeoutTicker(&c05Ticker{c: make(chan timeoutInfo)})
	cs.wal = &c05WAL{ctl: n.ctl, ends: &n.walEnds}
	n.cs = cs
	return nil
}

// consensus decided block h (made from the node's state in the reference run, replayed otherwise)
func (n *c05Node) commit(h int64) error {
	cs := n.cs
	if cs.Height != h {
		return fmt.Errorf("node is at height %d, not %d", cs.Height, h)
	}
	d := n.chain.decided[h]
	if d == nil {
		var commit *types.Commit
		if h == cs.state.InitialHeight {
			commit = types.NewCommit(0, 0, types.BlockID{}, nil)
		} else {
			commit = cs.LastCommit.MakeCommit()
		}
		var txs []types.Tx
		for _, t := range n.chain.txs[h-n.chain.ih] {
			txs = append(txs, c05Tx(t))
		}
		block, parts := cs.state.MakeBlock(h, txs, commit, nil, cs.Validators.GetProposer().Address)
		bid := types.BlockID{Hash: block.Hash(), PartSetHeader: parts.Header()}
		d = &c05Decided{block: block, parts: parts}
		for i, val := range cs.Validators.Validators {
			pv, ok := n.chain.pvs[string(val.Address)]
			if !ok {
				continue
			}
			v := &types.Vote{Type: tmproto.PrecommitType, Height: h, Round: 0, BlockID: bid,
				Timestamp: c05GenesisTime.Add(time.Duration(h-n.chain.ih+1) * time.Second), ValidatorAddress: val.Address, ValidatorIndex: int32(i)}
			p := v.ToProto()
			if err := pv.SignVote(n.chain.genDoc.ChainID, p); err != nil {
				return err
			}
			v.Signature = p.Signature
			d.votes = append(d.votes, v)
		}
		n.chain.decided[h] = d
	}
	for _, v := range d.votes {
		if _, err := cs.Votes.AddVote(v, "peer"); err != nil {
			return fmt.Errorf("precommit refused: %v", err)
		}
	}
	cs.Step = cstypes.RoundStepCommit
	cs.CommitRound = 0
	cs.ProposalBlock, cs.ProposalBlockParts = d.block, d.parts
	cs.finalizeCommit(h)
	if cs.Height != h+1 {
		return fmt.Errorf("finalizeCommit(%d) did not advance the height", h)
	}
	return nil
}

// 0 completed, 1 injected crash, 2 failure
func (n *c05Node) guarded(eff, raw int, f func() error) (outcome uint64, msg string) {
	n.ctl.arm(eff, raw)
	defer func() {
		if r := recover(); r != nil {
			n.cs = nil
			if _, ok := r.(c05Crash); ok {
				n.app.crashReset()
				outcome, msg = 1, "crash"
			} else {
				s := fmt.Sprint(r)
				if len(s) > 160 {
					s = s[:160]
				}
				outcome, msg = 2, "panic: "+strings.ReplaceAll(s, "\n", " ")
			}
		}
		n.ctl.eff = -1
	}()
	if err := f(); err != nil {
		n.cs = nil
		return 2, "error: " + err.Error()
	}
	if n.ctl.crashed { // a crash panic was swallowed somewhere: treat as crash
		n.cs = nil
		n.app.crashReset()
		return 1, "crash (recovered inside the node)"
	}
	return 0, "ok"
}

type c05Obs struct {
	outcome                                  uint64
	storeH, stateH, stateHash, appH, appHash int64
	wal                                      []int64
	respH                                    int64
	ref                                      bool
	trace                                    []uint64
	msg                                      string
}

func (n *c05Node) observe(outcome uint64, msg string) c05Obs {
	o := c05Obs{outcome: outcome, msg: msg, trace: append([]uint64{}, n.ctl.trace...)}
	n.ctl.arm(-1, 0)
	bs := store.NewBlockStore(n.blockDB)
	ss := sm.NewStore(n.stateDB, sm.StoreOptions{})
	o.storeH = bs.Height()
	st, err := ss.Load()
	if err != nil {
		o.stateH = -9
	} else {
		o.stateH = st.LastBlockHeight
		o.stateHash = c05Dec(st.AppHash)
		if st.IsEmpty() {
			o.ref = true
			o.stateHash = -1
		} else {
			o.ref = bytes.Equal(st.Bytes(), n.chain.ref[st.LastBlockHeight])
		}
	}
	o.appH = n.app.height
	o.appHash = -1
	if n.app.height > 0 {
		o.appHash = int64(n.app.acc)
	}
	o.wal = append([]int64{}, n.walEnds...)
	lo, hi := int64(1), o.storeH+1 // no responses can be saved below the initial height
	if n.chain.ih > 1 {
		lo = n.chain.ih - 1
		if hi < n.chain.ih+1 {
			hi = n.chain.ih + 1
		}
	}
	for h := lo; h <= hi; h++ {
		if _, err := ss.LoadLastABCIResponse(h); err == nil {
			o.respH = h
		}
	}
	return o
}

// ---------------------------------------------------------------- histories

type c05Op struct {
	kind     int // 0 commit, 1 restart, 2 kill, 3 rollback
	eff, raw int // budget (eff < 0: none)
	k        int64
}

func c05Budget(eff int) string {
	if eff < 0 {
		return "None"
	}
	return vg.App("Some", vg.Nat(eff))
}

func c05NL(xs []uint64) string {
	s := make([]string, len(xs))
	for i, x := range xs {
		s[i] = vg.N(x)
	}
	return vg.L(s)
}

// runs a history on a fresh node; returns the Coq list of (op, observation), a readable log, the node
func c05RunHistory(chain *c05Chain, ops []c05Op, isRef bool) (string, string, *c05Node) {
	n := c05NewNode(chain)
	var terms, human []string
	for _, op := range ops {
		var term, hd string
		var oc uint64
		var msg string
		switch op.kind {
		case 0:
			if n.cs == nil {
				continue
			}
			h := n.cs.Height
			if h-chain.ih >= int64(len(chain.txs)) {
				continue
			}
			term = vg.App("HCommit", c05NL(chain.txs[h-chain.ih]), c05Budget(op.eff))
			hd = fmt.Sprintf("finalizeCommit(block %d, txs %v) budget eff=%d raw=%d", h, chain.txs[h-chain.ih], op.eff, op.raw)
			oc, msg = n.guarded(op.eff, op.raw, func() error { return n.commit(h) })
			if isRef && oc == 0 {
				chain.ref[h] = n.cs.state.Bytes()
			}
		case 1:
			if n.cs != nil {
				continue
			}
			term = vg.App("HRestart", c05Budget(op.eff))
			hd = fmt.Sprintf("restart (Handshake) budget eff=%d raw=%d", op.eff, op.raw)
			oc, msg = n.guarded(op.eff, op.raw, n.restart)
			if isRef && oc == 0 && n.cs.state.LastBlockHeight == 0 {
				chain.ref[0] = n.cs.state.Bytes()
			}
		case 2:
			if n.cs == nil {
				continue
			}
			term, hd = "HKill", "kill the node between heights"
			n.cs = nil
			n.app.crashReset()
			oc, msg = 1, "killed"
			n.ctl.arm(-1, 0)
		case 3:
			if n.cs != nil || op.k < 0 || op.k >= n.app.height {
				continue
			}
			term = vg.App("HRollback", vg.Z(op.k))
			hd = fmt.Sprintf("application restored to its commit %d", op.k)
			n.app.rollback(op.k)
			oc, msg = 1, "down"
			n.ctl.arm(-1, 0)
		}
		o := n.observe(oc, msg)
		ot := fmt.Sprintf("{| o_outcome := %s; o_store_h := %s; o_state_h := %s; o_state_hash := %s; o_app_h := %s; o_app_hash := %s; o_wal := %s; o_resp_h := %s; o_ref := %s; o_trace := %s |}",
			vg.N(o.outcome), vg.Z(o.storeH), vg.Z(o.stateH), vg.Z(o.stateHash), vg.Z(o.appH), vg.Z(o.appHash),
			vg.ZL(o.wal), vg.Z(o.respH), vg.B(o.ref), c05NL(o.trace))
		terms = append(terms, vg.Tup(term, ot))
		human = append(human, fmt.Sprintf("%s -> %s; store=%d state=%d(hash %d) app=%d(hash %d) wal=%v lastResp=%d stateEqualsCrashFree=%v steps=%v",
			hd, o.msg, o.storeH, o.stateH, o.stateHash, o.appH, o.appHash, o.wal, o.respH, o.ref, o.trace))
	}
	return vg.L(terms), strings.Join(human, "\n  "), n
}

func c05ChainTerm(chain *c05Chain) string {
	xs := make([]string, len(chain.txs))
	for i, t := range chain.txs {
		xs[i] = c05NL(t)
	}
	return vg.L(xs)
}

func c05GenTxs(r *vg.Rand, nblocks, nkeys int) [][]uint64 {
	txs := make([][]uint64, nblocks)
	for h := range txs {
		k := r.Intn(4)
		for i := 0; i < k; i++ {
			var t uint64
			switch r.Intn(8) {
			case 0:
				t = 1<<32 | uint64(r.Intn(nkeys))<<8 | uint64(1+r.Intn(30))
			case 1:
				t = 2<<32 | uint64(r.Intn(1000))
			default:
				t = uint64(r.Intn(100000))
			}
			txs[h] = append(txs[h], t)
		}
	}
	return txs
}

// the crash-free run: fixes the decided blocks and the reference states
func c05Reference(chain *c05Chain) (string, string, *c05Node) {
	ops := []c05Op{{kind: 1, eff: -1}}
	for range chain.txs {
		ops = append(ops, c05Op{kind: 0, eff: -1})
	}
	return c05RunHistory(chain, ops, true)
}

func c05Finish(n int) []c05Op {
	ops := []c05Op{{kind: 1, eff: -1}}
	for i := 0; i < n; i++ {
		ops = append(ops, c05Op{kind: 0, eff: -1})
	}
	return ops
}

func TestVerifC05Pipeline(t *testing.T) {
	cs := vg.NewCases("C05", "c05_pipeline", "TM.C05.Exec")
	root := vg.NewRand(vg.Seed())
	add := func(chain *c05Chain, kind string, ops []c05Op) {
		id := cs.NextID()
		if !cs.Want(id) {
			return
		}
		terms, human, n := c05RunHistory(chain, ops, false)
		nontrivial := strings.Count(strings.Join(n.app.jr, " "), "JCrash") > 0
		cs.Add(id, kind, nontrivial,
			vg.App("CRun", c05ChainTerm(chain), terms, vg.L(n.app.jr)),
			fmt.Sprintf("chain txs by height %v (tx>>32: 1 = validator update key (tx>>8)&255 power tx&255, 2 = max gas)\n  %s\n  application journal: %s",
				chain.txs, human, strings.Join(n.app.jh, " ")))
	}
	nchains := vg.Scale(2, 6)
	for ci := 0; ci < nchains; ci++ {
		r := root.Fork(uint64(ci))
		nblocks := 4
		if vg.Thorough() {
			nblocks = 4 + r.Intn(9)
		}
		chain := c05NewChain(r, 4, c05GenTxs(r, nblocks, 5))
		if ci == 0 { // a directed chain: validator update, gas change, empty block
			chain = c05NewChain(r, 4, [][]uint64{{5, 1<<32 | 4<<8 | 7, 11}, {}, {2<<32 | 99, 1<<32 | 1<<8 | 3}, {123, 77}})
			nblocks = 4
		}
		c05Reference(chain)
		if len(chain.decided) != nblocks {
			t.Fatalf("C05 harness: the crash-free reference run committed %d of %d blocks", len(chain.decided), nblocks)
		}
		add(chain, "crash-free", c05Finish(nblocks)) // the crash-free history itself
		steps := func(h int) int { return 7 + len(chain.txs[h-1]) }
		pre := func(h int) []c05Op { return c05Finish(h - 1) }
		// (a) crashes of the very first handshake
		for e := 0; e <= 2; e++ {
			add(chain, "crash-first-handshake", append([]c05Op{{kind: 1, eff: e}}, c05Finish(nblocks)...))
		}
		// (b) every single crash point of every block (+ raw write crash points inside one block)
		for h := 1; h <= nblocks; h++ {
			for e := 0; e <= steps(h); e++ {
				ops := append(pre(h), c05Op{kind: 0, eff: e})
				add(chain, "single-crash", append(ops, c05Finish(nblocks)...))
			}
		}
		hraw := 1 + r.Intn(nblocks)
		for _, e := range []int{0, 5 + len(chain.txs[hraw-1]), 6 + len(chain.txs[hraw-1])} {
			for raw := 1; raw <= 5; raw++ {
				ops := append(pre(hraw), c05Op{kind: 0, eff: e, raw: raw})
				add(chain, "single-crash-raw-write", append(ops, c05Finish(nblocks)...))
			}
		}
		// (c) crash, then crash again during the recovery
		ndouble := vg.Scale(40, 400)
		for i := 0; i < ndouble; i++ {
			rr := r.Fork(uint64(1000 + i))
			h := 1 + rr.Intn(nblocks)
			ops := append(pre(h), c05Op{kind: 0, eff: rr.Intn(steps(h) + 1)})
			ops = append(ops, c05Op{kind: 1, eff: rr.Intn(8 + len(chain.txs[h-1])), raw: rr.Intn(3)})
			if rr.Chance(30) {
				ops = append(ops, c05Op{kind: 1, eff: rr.Intn(8)})
			}
			add(chain, "crash-during-recovery", append(ops, c05Finish(nblocks)...))
		}
		// (d) the application comes back at an older commit of its own
		nroll := vg.Scale(25, 200)
		for i := 0; i < nroll; i++ {
			rr := r.Fork(uint64(5000 + i))
			h := 2 + rr.Intn(nblocks-1)
			ops := pre(h)
			if rr.Bool() {
				ops = append(ops, c05Op{kind: 0, eff: rr.Intn(steps(h) + 1)})
			} else {
				ops = append(ops, c05Op{kind: 0, eff: -1}, c05Op{kind: 2})
			}
			ops = append(ops, c05Op{kind: 3, k: int64(rr.Intn(h))})
			if rr.Chance(50) {
				ops = append(ops, c05Op{kind: 1, eff: rr.Intn(6 * h), raw: rr.Intn(2)})
			}
			add(chain, "app-rollback", append(ops, c05Finish(nblocks)...))
		}
		// (e) random histories
		nrand := vg.Scale(25, 400)
		for i := 0; i < nrand; i++ {
			rr := r.Fork(uint64(9000 + i))
			var ops []c05Op
			for k := 0; k < 4+2*nblocks; k++ {
				switch x := rr.Intn(10); {
				case x < 4:
					ops = append(ops, c05Op{kind: 0, eff: -1})
				case x < 6:
					ops = append(ops, c05Op{kind: 0, eff: rr.Intn(10), raw: rr.Intn(3)})
				case x < 7:
					ops = append(ops, c05Op{kind: 1, eff: rr.Intn(12), raw: rr.Intn(3)})
				case x < 8:
					ops = append(ops, c05Op{kind: 2})
				case x < 9:
					ops = append(ops, c05Op{kind: 2}, c05Op{kind: 3, k: int64(rr.Intn(nblocks))})
					if rr.Bool() {
						ops = append(ops, c05Op{kind: 1, eff: rr.Intn(12)})
					}
				}
				ops = append(ops, c05Op{kind: 1, eff: -1})
			}
			add(chain, "random", append(ops, c05Finish(nblocks)...))
		}
	}
	if err := cs.Write(); err != nil {
		t.Fatal(err)
	}
}

// ---------------------------------------------------------------- finding F87: initial_height > 1

// c05F87: generate the histories on chains whose genesis initial_height is > 1 (finding F87: a
// crash between SaveBlock and the state Save of the FIRST block leaves store = initial_height,
// state = 0 and ReplayBlocks panics "StoreBlockHeight > StateBlockHeight + 1" on every restart).
// REMOVE THIS GATE (return true) once fixes/F87-replay-genesis-state-below-initial-height.diff
// is applied to the repository.
func c05F87() bool { return os.Getenv("VERIF_C05_F87") != "0" } // on by default: the finding is recorded in known_findings.json

// The crash-at-every-persistence-operation family of part A on chains with initial_height in
// {2, 10, 2^40}, first two blocks: real Handshaker, stores, executor, finalizeCommit as above.
// The case carries the REAL heights; coq/C05/Exec.v (CRunAt) counts them from the genesis
// state's position initial_height-1 before it runs the monitors and the model.
func TestVerifC05InitialHeight(t *testing.T) {
	if !c05F87() {
		return
	}
	cs := vg.NewCases("C05", "c05_initial_height", "TM.C05.Exec")
	root := vg.NewRand(vg.Seed()).Fork(87)
	for ci, ih := range []int64{2, 10, 1 << 40} {
		r := root.Fork(uint64(ci))
		txs := [][]uint64{{5, 1<<32 | 4<<8 | 7, 11}, {2<<32 | 99, 77}}
		if ci > 0 {
			txs = c05GenTxs(r, 2, 5)
		}
		chain := c05NewChainAt(r, 4, txs, ih)
		nblocks := len(txs)
		add := func(kind string, ops []c05Op) {
			id := cs.NextID()
			if !cs.Want(id) {
				return
			}
			terms, human, n := c05RunHistory(chain, ops, false)
			nontrivial := strings.Count(strings.Join(n.app.jr, " "), "JCrash") > 0
			cs.Add(id, kind, nontrivial,
				vg.App("CRunAt", vg.Z(ih), c05ChainTerm(chain), terms, vg.L(n.app.jr)),
				fmt.Sprintf("genesis initial_height = %d; chain txs of heights %d.. : %v (tx>>32: 1 = validator update key (tx>>8)&255 power tx&255, 2 = max gas)\n  %s\n  application journal: %s",
					ih, ih, chain.txs, human, strings.Join(n.app.jh, " ")))
		}
		c05Reference(chain)
		if len(chain.decided) != nblocks {
			t.Fatalf("C05 harness (initial_height %d): the crash-free reference run committed %d of %d blocks", ih, len(chain.decided), nblocks)
		}
		add("ih-crash-free", c05Finish(nblocks))
		steps := func(i int) int { return 7 + len(chain.txs[i]) } // persistence operations of block ih+i
		for e := 0; e <= 2; e++ {
			add("ih-crash-first-handshake", append([]c05Op{{kind: 1, eff: e}}, c05Finish(nblocks)...))
		}
		for i := 0; i < nblocks; i++ {
			for e := 0; e <= steps(i); e++ {
				ops := append(c05Finish(i), c05Op{kind: 0, eff: e})
				add("ih-single-crash", append(ops, c05Finish(nblocks)...))
				// ... and the application comes back empty (its commit 0)
				ops = append(c05Finish(i), c05Op{kind: 0, eff: e}, c05Op{kind: 3, k: 0})
				add("ih-single-crash-app-empty", append(ops, c05Finish(nblocks)...))
			}
		}
		for raw := 1; raw <= 5; raw++ { // inside SaveBlock of the first block
			ops := append(c05Finish(0), c05Op{kind: 0, eff: 0, raw: raw})
			add("ih-single-crash-raw-write", append(ops, c05Finish(nblocks)...))
		}
		for k := 0; k < vg.Scale(12, 120); k++ { // crash, then crash again during the recovery
			rr := r.Fork(uint64(1000 + k))
			i := rr.Intn(nblocks)
			ops := append(c05Finish(i), c05Op{kind: 0, eff: rr.Intn(steps(i) + 1)})
			ops = append(ops, c05Op{kind: 1, eff: rr.Intn(8 + len(chain.txs[i])), raw: rr.Intn(3)})
			if rr.Chance(30) {
				ops = append(ops, c05Op{kind: 1, eff: rr.Intn(8)})
			}
			add("ih-crash-during-recovery", append(ops, c05Finish(nblocks)...))
		}
	}
	if err := cs.Write(); err != nil {
		t.Fatal(err)
	}
}
