//go:build verif

// C17 layer B, consensus STATE MACHINE and per-peer gossip routines behind the reactor.
//
//	TestVerifC17StateMachine  a node of a 4-validator network that holds live data at its current
//	                          height — (1) its own complete proposal and its prevote, (2) another
//	                          validator's proposal with an incomplete part set, (3) no proposal yet —
//	                          receives through Reactor.Receive hostile-but-decodable messages at the
//	                          boundary values the state machine and the gossip routines index by:
//	                          block parts with Index around the live part set's Total and proofs that
//	                          agree or disagree with it, proposals with POLRound / part-set totals at
//	                          the edges, votes with ValidatorIndex around the validator count and rounds
//	                          at the extremes, bit arrays with Bits / word counts at the edges.
//	                          Observed: Receive panics, sender stopped, a gossip routine of the sender
//	                          panicked, the consensus receiveRoutine exited (cs.done), an honest prevote
//	                          sent afterwards by another peer is recorded, parts held by the live part
//	                          set before/after.
package consensus

import (
	"crypto/sha256"
	"fmt"
	"math"
	"os"
	"runtime"
	"strings"
	"testing"
	"time"

	"github.com/tendermint/tendermint/abci/example/counter"
	"github.com/tendermint/tendermint/crypto"
	"github.com/tendermint/tendermint/crypto/ed25519"
	vg "github.com/tendermint/tendermint/internal/verifgen"
	"github.com/tendermint/tendermint/libs/log"
	"github.com/tendermint/tendermint/p2p"
	p2pmock "github.com/tendermint/tendermint/p2p/mock"
	tmcons "github.com/tendermint/tendermint/proto/tendermint/consensus"
	tmcrypto "github.com/tendermint/tendermint/proto/tendermint/crypto"
	tmproto "github.com/tendermint/tendermint/proto/tendermint/types"
	"github.com/tendermint/tendermint/types"
)

type c17SM struct {
	scen     int
	cs       *State
	conR     *Reactor
	privs    []types.PrivValidator // in validator-set order
	own      int                   // the node's validator index
	proposer int                   // proposer of (h, 0)
	probeIdx int                   // validator whose honest prevote is the liveness probe
	h        int64
	rd       int32
	chainID  string
	parts    *types.PartSet // the complete part set behind the live proposal (scen 3: not live)
	liveBID  types.BlockID
	honest   *p2pmock.Peer
	note     string
}

const c17NVals = 4

func c17WaitFor(d time.Duration, f func() bool) bool {
	for t0 := time.Now(); time.Since(t0) < d; time.Sleep(time.Millisecond) {
		if f() {
			return true
		}
	}
	return f()
}

func c17NewSM(scen int, r *vg.Rand) (*c17SM, error) {
	state, privVals := randGenesisState(c17NVals, false, 10)
	vals := state.Validators
	privs := make([]types.PrivValidator, c17NVals)
	for _, pv := range privVals {
		pk, err := pv.GetPubKey()
		if err != nil {
			return nil, err
		}
		i, _ := vals.GetByAddress(pk.Address())
		privs[i] = pv
	}
	pi, _ := vals.GetByAddress(vals.GetProposer().Address)
	e := &c17SM{scen: scen, privs: privs, proposer: int(pi), own: int(pi), chainID: state.ChainID}
	if scen != 1 {
		e.own = (int(pi) + 1) % c17NVals
	}
	for i := 0; i < c17NVals; i++ {
		if i != e.own && i != c17NVals-1 {
			e.probeIdx = i
			break
		}
	}
	cs := newState(state, privs[e.own], counter.NewApplication(true))
	cs.SetLogger(log.NewNopLogger())
	cs.config.PeerQueryMaj23SleepDuration = 10 * time.Millisecond // queryMaj23Routine: also how long a stopped peer's routine lingers
	conR := NewReactor(cs, true)
	conR.SetLogger(log.NewNopLogger())
	conR.SetEventBus(cs.eventBus)
	sw := p2p.MakeSwitch(config.P2P, 0, "testing", "123.123.123", func(i int, sw *p2p.Switch) *p2p.Switch {
		sw.AddReactor("CONSENSUS", conR)
		return sw
	})
	sw.SetLogger(log.NewNopLogger())
	if err := conR.Start(); err != nil {
		return nil, err
	}
	e.cs, e.conR = cs, conR
	e.h, e.rd = cs.Height, cs.Round
	conR.SwitchToConsensus(cs.GetState(), true)
	e.honest = p2pmock.NewPeer(nil)
	conR.InitPeer(e.honest)

	switch scen {
	case 1:
		ok := c17WaitFor(5*time.Second, func() bool {
			rs := cs.GetRoundState()
			return rs.Proposal != nil && rs.ProposalBlockParts != nil && rs.ProposalBlockParts.IsComplete() &&
				rs.Votes != nil && rs.Votes.Prevotes(rs.Round) != nil && rs.Votes.Prevotes(rs.Round).GetByIndex(int32(e.own)) != nil
		})
		if !ok {
			e.stop()
			return nil, fmt.Errorf("HARNESS: the node did not propose and prevote within 5s")
		}
		rs := cs.GetRoundState()
		e.h, e.rd = rs.Height, rs.Round
		e.parts, e.liveBID = rs.ProposalBlockParts, rs.Proposal.BlockID
		e.note = fmt.Sprintf("node = validator %d of 4 = proposer of (%d,%d): holds its own complete proposal (%d part(s)) and its prevote", e.own, e.h, e.rd, e.parts.Total())
	default:
		nparts := 2 + r.Intn(3)
		size := (nparts-1)*int(types.BlockPartSizeBytes) + 1 + r.Intn(100)
		if r.Chance(20) {
			size = nparts * int(types.BlockPartSizeBytes)
		}
		e.parts = types.NewPartSetFromData(r.Bytes(size), types.BlockPartSizeBytes)
		e.liveBID = types.BlockID{Hash: c17Fill(32, 0x7B), PartSetHeader: e.parts.Header()}
		if scen == 3 {
			e.note = fmt.Sprintf("node = validator %d of 4 at (%d,%d), proposer is validator %d: no proposal received yet", e.own, e.h, e.rd, e.proposer)
			break
		}
		prop := types.NewProposal(e.h, e.rd, -1, e.liveBID)
		pp := prop.ToProto()
		if err := privs[e.proposer].SignProposal(e.chainID, pp); err != nil {
			e.stop()
			return nil, err
		}
		conR.Receive(DataChannel, e.honest, c17Wire(&tmcons.Proposal{Proposal: *pp}))
		var have []int
		switch r.Intn(4) {
		case 0:
			have = []int{0}
		case 1:
			for i := 0; i+1 < int(e.parts.Total()); i++ { // all but the last
				have = append(have, i)
			}
		case 2:
			have = []int{int(e.parts.Total()) - 1}
		}
		for _, i := range have {
			pb, err := e.parts.GetPart(i).ToProto()
			if err != nil {
				e.stop()
				return nil, err
			}
			conR.Receive(DataChannel, e.honest, c17Wire(&tmcons.BlockPart{Height: e.h, Round: e.rd, Part: *pb}))
		}
		ok := c17WaitFor(5*time.Second, func() bool {
			rs := cs.GetRoundState()
			return rs.Proposal != nil && rs.ProposalBlockParts != nil && int(rs.ProposalBlockParts.Count()) == len(have)
		})
		if !ok {
			e.stop()
			return nil, fmt.Errorf("HARNESS: the node did not take the honest proposal and %d part(s) within 5s", len(have))
		}
		e.note = fmt.Sprintf("node = validator %d of 4 at (%d,%d): holds validator %d's signed proposal with PartSetHeader.Total=%d and parts %v of it (the parts are %d random bytes, Merkle proofs genuine)",
			e.own, e.h, e.rd, e.proposer, e.parts.Total(), have, size)
	}
	return e, nil
}

func (e *c17SM) stop() {
	_ = e.conR.Stop()
	_ = e.cs.eventBus.Stop()
	if e.honest != nil {
		_ = e.honest.Stop()
	}
	_ = os.RemoveAll(e.cs.config.RootDir)
}

// the node's live part set: Total (-1: none), which parts it holds, how many
func (e *c17SM) partState() (total int64, have []bool, count int64) {
	ps := e.cs.GetRoundState().ProposalBlockParts
	if ps == nil {
		return -1, nil, -1
	}
	ba := ps.BitArray()
	for i := 0; i < int(ps.Total()); i++ {
		have = append(have, ba.GetIndex(i))
	}
	return int64(ps.Total()), have, int64(ps.Count())
}

func (e *c17SM) settleQueue() {
	c17WaitFor(500*time.Millisecond, func() bool { return len(e.cs.peerMsgQueue) == 0 })
	time.Sleep(3 * time.Millisecond) // the message just taken: WAL write, then handleMsg under cs.mtx
	_ = e.cs.GetRoundState()         // waits for a handleMsg in progress
}

func (e *c17SM) addr(i int) []byte {
	pk, _ := e.privs[i].GetPubKey()
	return pk.Address()
}

// ---------------------------------------------------------------- message builders

func c17BIDCoq(b tmproto.BlockID) string {
	return vg.App("Build_blockid", vg.Z(int64(len(b.Hash))), vg.App("Build_psheader", vg.Z(int64(b.PartSetHeader.Total)), vg.Z(int64(len(b.PartSetHeader.Hash)))))
}
func c17BIDHuman(b tmproto.BlockID) string {
	return fmt.Sprintf("BlockID{Hash:%x PartSetHeader{Total:%d Hash:%x}}", c17Head(b.Hash), b.PartSetHeader.Total, c17Head(b.PartSetHeader.Hash))
}
func c17Head(b []byte) []byte {
	if len(b) > 4 {
		return b[:4]
	}
	return b
}

func c17MkNRS(h int64, rd int32, step uint32) c17M {
	lcr := int32(-1)
	return c17M{ch: StateChannel, pb: &tmcons.NewRoundStep{Height: h, Round: rd, Step: step, LastCommitRound: lcr},
		coq:   vg.App("MNewRoundStep", vg.Z(h), vg.Z(int64(rd)), vg.Z(int64(step)), vg.Z(0), vg.Z(int64(lcr))),
		human: fmt.Sprintf("NewRoundStep{Height:%d Round:%d Step:%d LastCommitRound:%d}", h, rd, step, lcr)}
}

func c17ProofStructOK(p tmcrypto.Proof) bool {
	if p.Total < 0 || p.Index < 0 || len(p.LeafHash) != 32 || len(p.Aunts) > 100 {
		return false
	}
	for _, a := range p.Aunts {
		if len(a) != 32 {
			return false
		}
	}
	return true
}

func c17MkBlockPart(h int64, rd int32, index uint32, bz []byte, proof tmcrypto.Proof, what string) c17M {
	ok := c17ProofStructOK(proof)
	return c17M{ch: DataChannel, pb: &tmcons.BlockPart{Height: h, Round: rd, Part: tmproto.Part{Index: index, Bytes: bz, Proof: proof}},
		coq: vg.App("MBlockPart", vg.Z(h), vg.Z(int64(rd)), vg.Z(int64(index)), vg.Z(int64(len(bz))), vg.B(ok)),
		human: fmt.Sprintf("BlockPart{Height:%d Round:%d Part{Index:%d len(Bytes):%d Proof{Total:%d Index:%d len(LeafHash):%d aunts:%d}}} (%s)",
			h, rd, index, len(bz), proof.Total, proof.Index, len(proof.LeafHash), len(proof.Aunts), what)}
}

func c17MkProposal(h int64, rd, pol int32, bid tmproto.BlockID, sig []byte, what string) c17M {
	return c17M{ch: DataChannel, pb: &tmcons.Proposal{Proposal: tmproto.Proposal{Type: tmproto.ProposalType, Height: h, Round: rd, PolRound: pol, BlockID: bid, Timestamp: time.Unix(1600000000, 0).UTC(), Signature: sig}},
		coq:   vg.App("MProposal", vg.Z(int64(tmproto.ProposalType)), vg.Z(h), vg.Z(int64(rd)), vg.Z(int64(pol)), c17BIDCoq(bid), vg.Z(int64(len(sig)))),
		human: fmt.Sprintf("Proposal{Height:%d Round:%d POLRound:%d %s len(Signature):%d} (%s)", h, rd, pol, c17BIDHuman(bid), len(sig), what)}
}

func c17MkVote(typ tmproto.SignedMsgType, h int64, rd int32, bid tmproto.BlockID, addr []byte, idx int32, sig []byte, what string) c17M {
	return c17M{ch: VoteChannel, pb: &tmcons.Vote{Vote: &tmproto.Vote{Type: typ, Height: h, Round: rd, BlockID: bid, Timestamp: time.Unix(1600000000, 0).UTC(), ValidatorAddress: addr, ValidatorIndex: idx, Signature: sig}},
		coq:   vg.App("MVote", vg.Z(int64(typ)), vg.Z(h), vg.Z(int64(rd)), c17BIDCoq(bid), vg.Z(int64(len(addr))), vg.Z(int64(idx)), vg.Z(int64(len(sig)))),
		human: fmt.Sprintf("Vote{Type:%d Height:%d Round:%d %s ValidatorAddress:%x ValidatorIndex:%d len(Signature):%d} (%s)", typ, h, rd, c17BIDHuman(bid), c17Head(addr), idx, len(sig), what)}
}

func c17BACoq(ba *c17BA) string {
	if ba == nil {
		return vg.App("Build_bitarr", "false", vg.Z(0), vg.Z(0))
	}
	return ba.coq()
}

// bit arrays with Bits and word count at the edges around n
func c17EdgeBA(r *vg.Rand, ns []int64) c17BA {
	bits := ns[r.Intn(len(ns))]
	ok := int((bits + 63) / 64)
	elems := []int{0, ok - 1, ok, ok, ok + 1}[r.Intn(5)]
	if elems < 0 {
		elems = 0
	}
	return c17BA{bits, elems}
}

// ---------------------------------------------------------------- the hostile generator

type c17SMCase struct {
	pre     []c17M // valid positioning / preparing messages
	focus   c17M
	genuine bool
	kind    string
}

func c17LeafHash(bz []byte) []byte {
	h := sha256.New()
	h.Write([]byte{0})
	h.Write(bz)
	return h.Sum(nil)
}

func (e *c17SM) genBlockPart(r *vg.Rand, index uint32, mode int, h int64, rd int32) (c17M, bool) {
	T := e.parts.Total()
	if (mode == 0 || mode == 3 || mode == 4) && index >= T {
		mode = 2
	}
	switch mode {
	case 0:
		pb, _ := e.parts.GetPart(int(index)).ToProto()
		return c17MkBlockPart(h, rd, index, pb.Bytes, pb.Proof, "the genuine part of that index"), e.scen != 3
	case 1:
		j := uint32(r.Intn(int(T)))
		pb, _ := e.parts.GetPart(int(j)).ToProto()
		return c17MkBlockPart(h, rd, index, pb.Bytes, pb.Proof, fmt.Sprintf("bytes and proof of the genuine part %d", j)), e.scen != 3 && j == index
	case 3:
		pb, _ := e.parts.GetPart(int(index)).ToProto()
		pr := pb.Proof
		pr.Aunts = append([][]byte{}, pr.Aunts...)
		what := ""
		switch r.Intn(3) {
		case 0:
			pr.Aunts = append(pr.Aunts, c17Fill(32, 0xD7))
			what = "genuine part, one aunt too many"
		case 1:
			if len(pr.Aunts) > 0 {
				pr.Aunts = pr.Aunts[:len(pr.Aunts)-1]
				what = "genuine part, last aunt missing"
			} else {
				pr.LeafHash = c17Fill(32, 0xD8)
				what = "genuine part, other leaf hash"
			}
		case 2:
			pr.Total++
			what = "genuine part, Proof.Total+1"
		}
		return c17MkBlockPart(h, rd, index, pb.Bytes, pr, what), false
	case 4:
		pb, _ := e.parts.GetPart(int(index)).ToProto()
		return c17MkBlockPart(h, rd, index, nil, pb.Proof, "genuine proof, empty Bytes"), false
	case 5:
		bz := c17Fill(16, 0xEE)
		pr := tmcrypto.Proof{Total: int64(T), Index: int64(index % (T + 1)), LeafHash: c17LeafHash(bz)}
		what := ""
		switch r.Intn(4) {
		case 0:
			pr.LeafHash, what = pr.LeafHash[:31], "31-byte leaf hash"
		case 1:
			pr.Total, what = -1, "Proof.Total -1"
		case 2:
			pr.Index, what = -1, "Proof.Index -1"
		case 3:
			bz, what = c17Fill(int(types.BlockPartSizeBytes)+1, 0xEE), "Bytes one above BlockPartSizeBytes"
		}
		return c17MkBlockPart(h, rd, index, bz, pr, what), false
	}
	// 2: a proof that is structurally fine and consistent in itself
	bz := c17Fill([]int{0, 1, 16, 100, int(types.BlockPartSizeBytes)}[r.Intn(5)], 0xEE)
	pt := []int64{int64(T), int64(index) + 1, int64(T) + 1, 1, 0, math.MaxInt64}[r.Intn(6)]
	pix := []int64{int64(index), int64(index), 0, int64(index % (T + 1))}[r.Intn(4)]
	var aunts [][]byte
	for i := r.Intn(3); i > 0; i-- {
		aunts = append(aunts, c17Fill(32, 0xD2))
	}
	return c17MkBlockPart(h, rd, index, bz, tmcrypto.Proof{Total: pt, Index: pix, LeafHash: c17LeafHash(bz), Aunts: aunts}, "made-up bytes, proof's leaf hash matches them"), false
}

func (e *c17SM) sign(i int, v *tmproto.Vote) []byte {
	c := *v
	if err := e.privs[i].SignVote(e.chainID, &c); err != nil {
		return c17Fill(64, 0x52)
	}
	return c.Signature
}

func (e *c17SM) otherBID(r *vg.Rand) tmproto.BlockID {
	return tmproto.BlockID{Hash: c17Fill(32, byte(0xB0+r.Intn(8))), PartSetHeader: tmproto.PartSetHeader{Total: 1, Hash: c17Fill(32, 0xB9)}}
}

func (e *c17SM) gen(r *vg.Rand) c17SMCase {
	h, rd, n := e.h, e.rd, int32(c17NVals)
	T := e.parts.Total()
	live := e.liveBID.ToProto()
	var c c17SMCase
	switch pos := r.Intn(20); {
	case pos < 13:
		c.pre = append(c.pre, c17MkNRS(h, rd, uint32(1+r.Intn(8))))
	case pos < 16:
		c.pre = append(c.pre, c17MkNRS(h, rd+1, uint32(1+r.Intn(8))))
	}
	fam := r.Intn(100)
	switch {
	case fam < 35: // ---- BlockPart
		index := []uint32{0, T - 1, T, T, T + 1, math.MaxUint32, 1 << 31, uint32(r.Intn(int(T)))}[r.Intn(8)]
		ph, pr := h, rd
		if r.Chance(25) {
			ph = []int64{h + 1, h - 1, math.MaxInt64}[r.Intn(3)]
		}
		if r.Chance(25) {
			pr = []int32{rd + 1, math.MaxInt32, -1}[r.Intn(3)]
		}
		mode := []int{0, 0, 0, 1, 2, 2, 2, 3, 4, 5}[r.Intn(10)]
		if (mode == 0 || mode == 3 || mode == 4) && index >= T {
			mode = 2 // there is no genuine part of that index
		}
		c.focus, c.genuine = e.genBlockPart(r, index, mode, ph, pr)
		rel := "other"
		switch {
		case index == T:
			rel = "Index=Total"
		case index == T+1:
			rel = "Index=Total+1"
		case index == T-1:
			rel = "Index=Total-1"
		case index == 0:
			rel = "Index=0"
		case index > T:
			rel = "Index>>Total"
		}
		c.kind = fmt.Sprintf("blockpart:%s:mode%d", rel, mode)
		if ph != h {
			c.kind += ":other-height"
		}
	case fam < 50: // ---- Proposal
		ph := h
		if r.Chance(15) {
			ph = []int64{h + 1, 0}[r.Intn(2)]
		}
		pr := []int32{rd, rd, rd, rd + 1, math.MaxInt32, 0}[r.Intn(6)]
		pol := []int32{-1, -1, rd - 1, rd, rd + 1, pr - 1, pr, math.MaxInt32, -2}[r.Intn(9)]
		total := []uint32{0, 1, T, uint32(types.MaxBlockPartsCount), uint32(types.MaxBlockPartsCount) + 1,
			uint32(types.MaxBlockPartsCount) + 2 + uint32(r.Intn(1<<20-int(types.MaxBlockPartsCount)-1))}[r.Intn(6)]
		bid := tmproto.BlockID{Hash: c17Fill(32, 0xB1), PartSetHeader: tmproto.PartSetHeader{Total: total, Hash: c17Fill(32, 0xB2)}}
		if total == T && r.Bool() {
			bid = live
		}
		p := tmproto.Proposal{Type: tmproto.ProposalType, Height: ph, Round: pr, PolRound: pol, BlockID: bid, Timestamp: time.Unix(1600000000, 0).UTC()}
		sig, what := c17Fill(64, 0x51), "garbage signature"
		switch r.Intn(8) {
		case 0, 1, 2, 3:
			if e.privs[e.proposer].SignProposal(e.chainID, &p) == nil {
				sig, what = p.Signature, fmt.Sprintf("signed by validator %d, the proposer of round 0", e.proposer)
			}
		case 4, 5:
			o := c17NVals - 1
			if e.privs[o].SignProposal(e.chainID, &p) == nil {
				sig, what = p.Signature, fmt.Sprintf("signed by validator %d", o)
			}
		case 6:
			if r.Chance(30) {
				sig, what = c17Fill([]int{0, 65}[r.Intn(2)], 0x51), "signature length off"
			}
		}
		c.focus = c17MkProposal(ph, pr, pol, bid, sig, what)
		c.kind = fmt.Sprintf("proposal:total=%s:pol=%s", c17Rel(int64(total), int64(T), "T"), c17Rel(int64(pol), int64(pr), "round"))
	case fam < 75: // ---- Vote
		typ := []tmproto.SignedMsgType{tmproto.PrevoteType, tmproto.PrecommitType}[r.Intn(2)]
		vh := h
		if r.Chance(30) {
			vh = []int64{h - 1, h + 1}[r.Intn(2)]
		}
		vr := []int32{rd, rd, rd, rd + 1, rd + 2, math.MaxInt32, 0}[r.Intn(7)]
		idx := []int32{-1, 0, n - 1, n - 1, n, n, math.MaxInt32, int32(r.Intn(int(n)))}[r.Intn(8)]
		bid := tmproto.BlockID{}
		switch r.Intn(3) {
		case 0:
			bid = live
		case 1:
			bid = e.otherBID(r)
		}
		v := &tmproto.Vote{Type: typ, Height: vh, Round: vr, BlockID: bid, Timestamp: time.Unix(1600000000, 0).UTC(), ValidatorIndex: idx}
		mode := r.Intn(4)
		signer := int(idx)
		if mode <= 1 && (idx < 0 || idx >= n || signer == e.own || signer == e.probeIdx) {
			mode = 2
		}
		switch mode {
		case 0, 1:
			v.ValidatorAddress = e.addr(signer)
			sig := e.sign(signer, v)
			c.focus = c17MkVote(typ, vh, vr, bid, v.ValidatorAddress, idx, sig, fmt.Sprintf("address and signature of validator %d", signer))
			if mode == 1 { // equivocation: first another vote of the same validator for something else
				o := *v
				o.BlockID = e.otherBID(r)
				c.pre = append(c.pre, c17MkVote(typ, vh, vr, o.BlockID, o.ValidatorAddress, idx, e.sign(signer, &o), fmt.Sprintf("address and signature of validator %d", signer)))
			}
		case 2:
			s := c17NVals - 1
			v.ValidatorAddress = e.addr(s)
			c.focus = c17MkVote(typ, vh, vr, bid, v.ValidatorAddress, idx, e.sign(s, v), fmt.Sprintf("address and signature of validator %d", s))
		default:
			a := e.addr(int(uint32(idx) % uint32(n)))
			c.focus = c17MkVote(typ, vh, vr, bid, a, idx, c17Fill(64, 0x52), "garbage signature")
		}
		c.kind = fmt.Sprintf("vote:index=%s:round=%s:mode%d", c17Rel(int64(idx), int64(n), "n"), c17Rel(int64(vr), int64(rd), "round"), mode)
		if vh != h {
			c.kind += ":other-height"
		}
	case fam < 83: // ---- NewValidBlock
		if len(c.pre) == 0 {
			c.pre = append(c.pre, c17MkNRS(h, rd, 1))
		}
		vh := h
		if r.Chance(15) {
			vh = h + 1
		}
		vr := []int32{rd, rd, rd + 1}[r.Intn(3)]
		total := []uint32{0, 1, T, T, uint32(types.MaxBlockPartsCount), uint32(types.MaxBlockPartsCount) + 1,
			uint32(types.MaxBlockPartsCount) + 2 + uint32(r.Intn(1<<20-int(types.MaxBlockPartsCount)-1))}[r.Intn(7)]
		hash := c17Fill(32, 0xC1)
		if total == T && e.scen != 3 {
			hash = e.liveBID.PartSetHeader.Hash
		}
		var ba *c17BA
		if !r.Chance(10) {
			b := c17EdgeBA(r, []int64{0, 1, int64(total), int64(total), int64(total) + 1, 64, 65})
			ba = &b
		}
		isCommit := r.Bool()
		m := &tmcons.NewValidBlock{Height: vh, Round: vr, BlockPartSetHeader: tmproto.PartSetHeader{Total: total, Hash: hash}, IsCommit: isCommit}
		if ba != nil {
			pb := ba.pb()
			m.BlockParts = &pb
		}
		c.focus = c17M{ch: StateChannel, pb: m,
			coq:   vg.App("MNewValidBlock", vg.Z(vh), vg.Z(int64(vr)), vg.App("Build_psheader", vg.Z(int64(total)), vg.Z(32)), c17BACoq(ba), vg.B(isCommit)),
			human: fmt.Sprintf("NewValidBlock{Height:%d Round:%d BlockPartSetHeader{Total:%d Hash:%x} BlockParts:%v IsCommit:%v}", vh, vr, total, c17Head(hash), ba, isCommit)}
		c.kind = "newvalidblock:total=" + c17Rel(int64(total), int64(T), "T")
	case fam < 90: // ---- ProposalPOL after a proposal that sets the peer's POL round
		c.pre = []c17M{c17MkNRS(h, rd+1, 1),
			c17MkProposal(h, rd+1, rd, tmproto.BlockID{Hash: c17Fill(32, 0xB1), PartSetHeader: tmproto.PartSetHeader{Total: 1, Hash: c17Fill(32, 0xB2)}}, c17Fill(64, 0x51), "garbage signature")}
		pr := []int32{rd, rd, rd, rd + 1, rd - 1}[r.Intn(5)]
		ba := c17EdgeBA(r, []int64{0, int64(n) - 1, int64(n), int64(n), int64(n) + 1, int64(types.MaxVotesCount), int64(types.MaxVotesCount) + 1})
		c.focus = c17M{ch: DataChannel, pb: &tmcons.ProposalPOL{Height: h, ProposalPolRound: pr, ProposalPol: ba.pb()},
			coq:   vg.App("MProposalPOL", vg.Z(h), vg.Z(int64(pr)), ba.coq()),
			human: fmt.Sprintf("ProposalPOL{Height:%d ProposalPOLRound:%d ProposalPOL:%v}", h, pr, ba)}
		c.kind = "proposalpol:bits=" + c17Rel(ba.bits, int64(n), "n")
	case fam < 95: // ---- VoteSetBits
		if len(c.pre) == 0 {
			c.pre = append(c.pre, c17MkNRS(h, rd, 1))
		}
		typ := []tmproto.SignedMsgType{tmproto.PrevoteType, tmproto.PrecommitType}[r.Intn(2)]
		vr := []int32{rd, rd, rd + 1, math.MaxInt32}[r.Intn(4)]
		bid := live
		if r.Chance(40) {
			bid = e.otherBID(r)
		}
		ba := c17EdgeBA(r, []int64{0, int64(n) - 1, int64(n), int64(n), int64(n) + 1})
		c.focus = c17M{ch: VoteSetBitsChannel, pb: &tmcons.VoteSetBits{Height: h, Round: vr, Type: typ, BlockID: bid, Votes: ba.pb()},
			coq:   vg.App("MVoteSetBits", vg.Z(h), vg.Z(int64(vr)), vg.Z(int64(typ)), c17BIDCoq(bid), ba.coq()),
			human: fmt.Sprintf("VoteSetBits{Height:%d Round:%d Type:%d %s Votes:%v}", h, vr, typ, c17BIDHuman(bid), ba)}
		c.kind = "votesetbits:bits=" + c17Rel(ba.bits, int64(n), "n")
	case fam < 98: // ---- HasVote
		if len(c.pre) == 0 {
			c.pre = append(c.pre, c17MkNRS(h, rd, 1))
		}
		typ := []tmproto.SignedMsgType{tmproto.PrevoteType, tmproto.PrecommitType}[r.Intn(2)]
		vr := []int32{rd, rd, rd + 1}[r.Intn(3)]
		idx := []int32{-1, 0, n - 1, n, math.MaxInt32}[r.Intn(5)]
		c.focus = c17M{ch: StateChannel, pb: &tmcons.HasVote{Height: h, Round: vr, Type: typ, Index: idx},
			coq:   vg.App("MHasVote", vg.Z(h), vg.Z(int64(vr)), vg.Z(int64(typ)), vg.Z(int64(idx))),
			human: fmt.Sprintf("HasVote{Height:%d Round:%d Type:%d Index:%d}", h, vr, typ, idx)}
		c.kind = "hasvote:index=" + c17Rel(int64(idx), int64(n), "n")
	default: // ---- VoteSetMaj23, possibly twice with different block ids
		typ := []tmproto.SignedMsgType{tmproto.PrevoteType, tmproto.PrecommitType}[r.Intn(2)]
		vr := []int32{rd, rd, rd + 1, math.MaxInt32}[r.Intn(4)]
		mk := func(bid tmproto.BlockID) c17M {
			return c17M{ch: StateChannel, pb: &tmcons.VoteSetMaj23{Height: h, Round: vr, Type: typ, BlockID: bid},
				coq:   vg.App("MVoteSetMaj23", vg.Z(h), vg.Z(int64(vr)), vg.Z(int64(typ)), c17BIDCoq(bid)),
				human: fmt.Sprintf("VoteSetMaj23{Height:%d Round:%d Type:%d %s}", h, vr, typ, c17BIDHuman(bid))}
		}
		if r.Chance(40) {
			c.pre = append(c.pre, mk(live))
		}
		c.focus = mk(e.otherBID(r))
		c.kind = "votesetmaj23:round=" + c17Rel(int64(vr), int64(rd), "round")
	}
	return c
}

// "n-1", "n", "n+1", "<n-1", ">n+1", "-1", "max"
func c17Rel(v, n int64, name string) string {
	switch {
	case v == n:
		return name
	case v == n-1:
		return name + "-1"
	case v == n+1:
		return name + "+1"
	case v == -1:
		return "-1"
	case v >= math.MaxInt32:
		return "max"
	case v < n:
		return "<" + name + "-1"
	}
	return ">" + name + "+1"
}

// ---------------------------------------------------------------- delivery and observation

type c17SMOut struct {
	sent, recvPanic, stopped, bgPanic, stuck, halted, probeOK bool
	ptotal, pcb, pca                                          int64
	phave                                                     []bool
	alloc                                                     int64
	inlen                                                     int
	notes                                                     []string
}

func (e *c17SM) run(c c17SMCase) c17SMOut {
	conR, cs := e.conR, e.cs
	n := &c17Node{css: []*State{cs}, reactors: []*Reactor{conR}}
	p := n.addPeer()
	var out c17SMOut
	var ms0, ms1 runtime.MemStats
	runtime.ReadMemStats(&ms0)
	recv := func(m c17M) {
		bz := c17Wire(m.pb)
		doneCh := make(chan string, 1)
		go func() {
			defer func() {
				if r := recover(); r != nil {
					doneCh <- fmt.Sprint(r)
					return
				}
				doneCh <- ""
			}()
			conR.Receive(m.ch, p.peer, bz)
		}()
		select {
		case pn := <-doneCh:
			if pn != "" {
				out.recvPanic = true
				out.notes = append(out.notes, "Receive panicked: "+pn)
				conR.Switch.StopPeerForError(p.peer, pn) // MConnection._recover -> onPeerError
			}
		case <-time.After(3 * time.Second):
			out.stuck = true
			out.notes = append(out.notes, "Receive did not return within 3s")
		}
	}
	for _, m := range c.pre {
		if p.peer.IsRunning() && !out.stuck {
			recv(m)
		}
	}
	e.settleQueue()
	out.ptotal, out.phave, out.pcb = e.partState()
	bz := c17Wire(c.focus.pb)
	out.inlen = len(bz)
	if p.peer.IsRunning() && !out.stuck {
		out.sent = true
		recv(c.focus)
	}
	e.settleQueue()
	time.Sleep(25 * time.Millisecond) // the gossip routines look at the peer state every 5ms
	runtime.ReadMemStats(&ms1)
	out.alloc = int64(ms1.TotalAlloc - ms0.TotalAlloc)
	out.stopped = !p.peer.IsRunning()
	if bp := p.done(); bp != "" {
		out.bgPanic = true
		out.notes = append(out.notes, "gossip routine panicked: "+bp)
	}
	select {
	case <-cs.done:
		out.halted = true
		out.notes = append(out.notes, "the consensus state machine halted: receiveRoutine exited (CONSENSUS FAILURE), cs.done is closed")
	default:
	}
	_, _, out.pca = e.partState()
	if !out.halted {
		// an honest prevote from another validator through another peer: is it recorded?
		pk, _ := e.privs[e.probeIdx].GetPubKey()
		bid := tmproto.BlockID{}
		if e.scen == 1 {
			bid = e.liveBID.ToProto()
		}
		v := &tmproto.Vote{Type: tmproto.PrevoteType, Height: e.h, Round: e.rd, BlockID: bid, Timestamp: time.Now().UTC(), ValidatorAddress: pk.Address(), ValidatorIndex: int32(e.probeIdx)}
		if err := e.privs[e.probeIdx].SignVote(e.chainID, v); err != nil {
			out.notes = append(out.notes, "HARNESS: cannot sign the probe vote: "+err.Error())
		}
		func() {
			defer func() {
				if r := recover(); r != nil {
					out.notes = append(out.notes, fmt.Sprintf("Receive of the honest vote panicked: %v", r))
				}
			}()
			conR.Receive(VoteChannel, e.honest, c17Wire(&tmcons.Vote{Vote: v}))
		}()
		out.probeOK = c17WaitFor(2*time.Second, func() bool {
			select {
			case <-cs.done:
				return true
			default:
			}
			rs := cs.GetRoundState()
			if rs.Height != e.h || rs.Votes == nil {
				return true // moved on: it is alive
			}
			pv := rs.Votes.Prevotes(e.rd)
			return pv != nil && pv.GetByIndex(int32(e.probeIdx)) != nil
		})
		select {
		case <-cs.done:
			out.halted, out.probeOK = true, false
			out.notes = append(out.notes, "the consensus state machine halted while handling the honest vote")
		default:
		}
		if !out.probeOK && !out.halted {
			out.notes = append(out.notes, fmt.Sprintf("an honest prevote of validator %d sent afterwards was not recorded within 2s", e.probeIdx))
		}
	}
	return out
}

func c17BoolsCoq(bs []bool) string {
	xs := make([]string, len(bs))
	for i, b := range bs {
		xs[i] = vg.B(b)
	}
	return vg.L(xs)
}

func (e *c17SM) emit(cs *vg.Cases, id int, kind string, c c17SMCase) bool {
	o := e.run(c)
	term := vg.App("CStateM", vg.N(uint64(e.scen)), vg.Z(e.h), vg.Z(int64(e.rd)), vg.Z(o.ptotal), c17BoolsCoq(o.phave), vg.Z(c17NVals),
		c.focus.coq, vg.B(c.genuine), vg.B(o.sent), vg.Z(int64(o.inlen)),
		vg.B(o.recvPanic), vg.B(o.stopped), vg.B(o.bgPanic), vg.B(o.stuck), vg.B(o.halted), vg.B(o.probeOK),
		vg.Z(o.pcb), vg.Z(o.pca), vg.Z(o.alloc))
	var hs []string
	for _, m := range c.pre {
		hs = append(hs, fmt.Sprintf("Receive(ch 0x%x, %x) = %s", m.ch, c17Trunc(c17Wire(m.pb)), m.human))
	}
	hs = append(hs, fmt.Sprintf("Receive(ch 0x%x, %x) = %s", c.focus.ch, c17Trunc(c17Wire(c.focus.pb)), c.focus.human))
	descr := fmt.Sprintf("%s; live part set before the last message: Total=%d have=%v; a new peer sends: %s | last message sent=%v recvPanic=%v senderStopped=%v parts held %d -> %d alloc=%d honestVoteRecorded=%v | %s",
		e.note, o.ptotal, o.phave, strings.Join(hs, " ; "), o.sent, o.recvPanic, o.stopped, o.pcb, o.pca, o.alloc, o.probeOK, strings.Join(o.notes, "; "))
	cs.Add(id, fmt.Sprintf("sm%d:%s", e.scen, kind), true, term, descr)
	return o.halted || o.bgPanic || o.stuck || !o.probeOK
}

func TestVerifC17StateMachine(t *testing.T) {
	cs := vg.NewCases("C17", "c17_statemachine", "TM.C17.Exec")
	root := vg.NewRand(vg.Seed())

	one := func(id int, scen int, r *vg.Rand, mk func(e *c17SM) (string, c17SMCase)) {
		e, err := c17NewSM(scen, r)
		if err != nil {
			cs.Notes = append(cs.Notes, fmt.Sprintf("case %d: %v", id, err))
			t.Logf("case %d skipped: %v", id, err)
			return
		}
		defer e.stop()
		kind, c := mk(e)
		e.emit(cs, id, kind, c)
	}

	// ---- directed: the boundary values, in the two scenarios with a live part set
	for scen := 1; scen <= 2; scen++ {
		type dir struct {
			name string
			mk   func(e *c17SM, r *vg.Rand) c17SMCase
		}
		dirs := []dir{
			{"blockpart:Index=Total", func(e *c17SM, r *vg.Rand) c17SMCase {
				T := e.parts.Total()
				bz := []byte("not a block part")
				return c17SMCase{focus: c17MkBlockPart(e.h, e.rd, T, bz, tmcrypto.Proof{Total: int64(T) + 1, Index: int64(T), LeafHash: c17LeafHash(bz)}, "made-up bytes, proof's leaf hash matches them")}
			}},
			{"blockpart:Index=Total+1", func(e *c17SM, r *vg.Rand) c17SMCase {
				T := e.parts.Total()
				bz := []byte("not a block part")
				return c17SMCase{pre: []c17M{c17MkNRS(e.h, e.rd, 3)}, focus: c17MkBlockPart(e.h, e.rd, T+1, bz, tmcrypto.Proof{Total: int64(T) + 2, Index: int64(T) + 1, LeafHash: c17LeafHash(bz)}, "made-up bytes, proof's leaf hash matches them")}
			}},
			{"blockpart:Index=MaxUint32", func(e *c17SM, r *vg.Rand) c17SMCase {
				return c17SMCase{pre: []c17M{c17MkNRS(e.h, e.rd, 3)}, focus: c17MkBlockPart(e.h, e.rd, math.MaxUint32, nil, tmcrypto.Proof{Total: int64(e.parts.Total()), Index: 0, LeafHash: c17LeafHash(nil)}, "empty bytes")}
			}},
			{"blockpart:genuine-last", func(e *c17SM, r *vg.Rand) c17SMCase {
				m, g := e.genBlockPart(r, e.parts.Total()-1, 0, e.h, e.rd)
				return c17SMCase{focus: m, genuine: g}
			}},
			{"blockpart:genuine-relabelled-as-Total", func(e *c17SM, r *vg.Rand) c17SMCase {
				m, g := e.genBlockPart(r, e.parts.Total(), 1, e.h, e.rd)
				return c17SMCase{focus: m, genuine: g}
			}},
			{"vote:index=n", func(e *c17SM, r *vg.Rand) c17SMCase {
				v := &tmproto.Vote{Type: tmproto.PrevoteType, Height: e.h, Round: e.rd, Timestamp: time.Unix(1600000000, 0).UTC(), ValidatorIndex: c17NVals, ValidatorAddress: e.addr(c17NVals - 1)}
				return c17SMCase{focus: c17MkVote(v.Type, v.Height, v.Round, v.BlockID, v.ValidatorAddress, v.ValidatorIndex, e.sign(c17NVals-1, v), fmt.Sprintf("address and signature of validator %d", c17NVals-1))}
			}},
			{"vote:index=MaxInt32", func(e *c17SM, r *vg.Rand) c17SMCase {
				return c17SMCase{focus: c17MkVote(tmproto.PrecommitType, e.h, e.rd, e.liveBID.ToProto(), e.addr(0), math.MaxInt32, c17Fill(64, 0x52), "garbage signature")}
			}},
			{"proposalpol:bits=n-without-words", func(e *c17SM, r *vg.Rand) c17SMCase {
				ba := c17BA{c17NVals, 0}
				return c17SMCase{pre: []c17M{c17MkNRS(e.h, e.rd+1, 1),
					c17MkProposal(e.h, e.rd+1, e.rd, tmproto.BlockID{Hash: c17Fill(32, 0xB1), PartSetHeader: tmproto.PartSetHeader{Total: 1, Hash: c17Fill(32, 0xB2)}}, c17Fill(64, 0x51), "garbage signature")},
					focus: c17M{ch: DataChannel, pb: &tmcons.ProposalPOL{Height: e.h, ProposalPolRound: e.rd, ProposalPol: ba.pb()},
						coq:   vg.App("MProposalPOL", vg.Z(e.h), vg.Z(int64(e.rd)), ba.coq()),
						human: fmt.Sprintf("ProposalPOL{Height:%d ProposalPOLRound:%d ProposalPOL:%v}", e.h, e.rd, ba)}}
			}},
			{"newvalidblock:live-header-bitarray-without-words", func(e *c17SM, r *vg.Rand) c17SMCase {
				T := e.parts.Total()
				ba := c17BA{int64(T), 0}
				pb := ba.pb()
				return c17SMCase{pre: []c17M{c17MkNRS(e.h, e.rd, 1)},
					focus: c17M{ch: StateChannel, pb: &tmcons.NewValidBlock{Height: e.h, Round: e.rd, BlockPartSetHeader: e.liveBID.PartSetHeader.ToProto(), BlockParts: &pb, IsCommit: false},
						coq:   vg.App("MNewValidBlock", vg.Z(e.h), vg.Z(int64(e.rd)), vg.App("Build_psheader", vg.Z(int64(T)), vg.Z(32)), ba.coq(), "false"),
						human: fmt.Sprintf("NewValidBlock{Height:%d Round:%d BlockPartSetHeader = the live one (Total:%d) BlockParts:%v IsCommit:false}", e.h, e.rd, T, ba)}}
			}},
		}
		for di, d := range dirs {
			id := cs.NextID()
			if !cs.Want(id) {
				continue
			}
			d := d
			r := root.Fork(uint64(5000000 + scen*100 + di))
			one(id, scen, r, func(e *c17SM) (string, c17SMCase) { return "directed:" + d.name, d.mk(e, r) })
		}
	}

	n := vg.Scale(160, 8000)
	for k := 0; k < n; k++ {
		id := cs.NextID()
		if !cs.Want(id) {
			continue
		}
		r := root.Fork(uint64(k))
		scen := []int{1, 1, 2, 2, 2, 3}[k%6]
		one(id, scen, r, func(e *c17SM) (string, c17SMCase) {
			c := e.gen(r)
			return c.kind, c
		})
	}
	if err := cs.Write(); err != nil {
		t.Fatal(err)
	}
}

// ---------------------------------------------------------------- F85: validator sets off the wire

// c17F85 gates the cases of finding F85 (types.ValidatorSetFromProto panics on a validator set whose
// powers add up to more than MaxTotalVotingPower): on the unrepaired code they are VIOLATIONS
// (the state machine halts), so they run only when VERIF_C17_F85=1.
// THE ONE PLACE TO FLIP once fixes/F85 is applied: make this `!= "0"` (default on).
func c17F85() bool { return os.Getenv("VERIF_C17_F85") != "0" } // on by default: the finding is recorded in known_findings.json

type c17Powers struct {
	name   string
	powers []int64
}

// validator sets by their voting powers: around and above the bound, int64 extremes, negatives
func c17GenPowers(r *vg.Rand) c17Powers {
	M := types.MaxTotalVotingPower
	split := func(total int64, n int) []int64 {
		out := make([]int64, n)
		rest := total
		for i := 0; i < n-1; i++ {
			out[i] = r.Int63n(rest/int64(n-i)*2 + 1)
			if out[i] > rest {
				out[i] = rest
			}
			rest -= out[i]
		}
		out[n-1] = rest
		return out
	}
	n := 2 + r.Intn(3)
	switch r.Intn(12) {
	case 0, 1, 2:
		return c17Powers{fmt.Sprintf("max+1-split-over-%d", n), split(M+1, n)}
	case 3:
		return c17Powers{fmt.Sprintf("max-split-over-%d", n), split(M, n)}
	case 4:
		return c17Powers{"max-and-1", []int64{M, 1}}
	case 5:
		ps := []int64{math.MaxInt64}
		for i := r.Intn(3); i > 0; i-- {
			ps = append(ps, r.Int63n(1000))
		}
		return c17Powers{"one-maxint64", ps}
	case 6:
		return c17Powers{"maxint64-twice", []int64{math.MaxInt64, math.MaxInt64}}
	case 7:
		return c17Powers{"negative", []int64{-1 - r.Int63n(1000), 1 + r.Int63n(1000)}}
	case 8:
		return c17Powers{"maxint64-then-negative", []int64{math.MaxInt64, math.MinInt64, 5}}
	case 9:
		return c17Powers{"negative-then-over", []int64{-10, M, 11}}
	case 10:
		return c17Powers{fmt.Sprintf("above-max-split-over-%d", n), split(M+2+r.Int63n(1<<40), n)}
	}
	ps := make([]int64, n)
	for i := range ps {
		ps[i] = r.Int63n(1 << 40)
	}
	return c17Powers{"well-formed", ps}
}

func c17ValsOf(powers []int64, seed byte) []*types.Validator {
	out := make([]*types.Validator, len(powers))
	for i, p := range powers {
		sk := make([]byte, 32)
		for j := range sk {
			sk[j] = seed + byte(7*i+j)
		}
		out[i] = types.NewValidator(ed25519FromSeed(sk), p)
	}
	return out
}

// light-client-attack evidence whose conflicting block carries only the validator set (it is
// decoded before anything else of the evidence is looked at)
func c17OverflowEvidence(powers []int64, seed byte, withEmptySignedHeader bool) *types.LightClientAttackEvidence {
	vals := c17ValsOf(powers, seed)
	lb := &types.LightBlock{ValidatorSet: &types.ValidatorSet{Validators: vals, Proposer: vals[0]}}
	if withEmptySignedHeader {
		lb.SignedHeader = &types.SignedHeader{}
	}
	return &types.LightClientAttackEvidence{ConflictingBlock: lb, CommonHeight: 1}
}

func c17PowersCoq(ps []int64) string { return vg.ZL(ps) }

// a complete proposed block that carries the evidence, proposed and signed by the round's
// legitimate proposer, sent part by part: the last part makes addProposalBlockPart decode it
func (e *c17SM) evidenceBlockCase(r *vg.Rand, pw c17Powers) (c17SMCase, error) {
	e.cs.mtx.Lock()
	block, _ := e.cs.createProposalBlock()
	e.cs.mtx.Unlock()
	if block == nil {
		return c17SMCase{}, fmt.Errorf("HARNESS: createProposalBlock returned nil")
	}
	emptySH := r.Chance(30)
	ev := c17OverflowEvidence(pw.powers, byte(r.Intn(200)), emptySH)
	evHex := ""
	if evpb, err := types.EvidenceToProto(ev); err == nil {
		if bz, err := evpb.Marshal(); err == nil {
			evHex = fmt.Sprintf("%x", bz)
		}
	}
	block.Evidence = types.EvidenceData{Evidence: types.EvidenceList{ev}}
	block.EvidenceHash = block.Evidence.Hash()
	for i := r.Intn(3); i > 0; i-- { // some payload so that the block has more than one part now and then
		block.Data.Txs = append(block.Data.Txs, types.Tx(r.Bytes(30000)))
	}
	block.DataHash = nil
	block.DataHash = block.Data.Hash()
	parts := block.MakePartSet(types.BlockPartSizeBytes)
	bid := types.BlockID{Hash: block.Hash(), PartSetHeader: parts.Header()}
	prop := types.NewProposal(e.h, e.rd, -1, bid)
	pp := prop.ToProto()
	if err := e.privs[e.proposer].SignProposal(e.chainID, pp); err != nil {
		return c17SMCase{}, err
	}
	var c c17SMCase
	if r.Bool() {
		c.pre = append(c.pre, c17MkNRS(e.h, e.rd, 1))
	}
	pm := c17MkProposal(e.h, e.rd, -1, pp.BlockID, pp.Signature, fmt.Sprintf("signed by validator %d, the proposer of this round; the block carries LightClientAttackEvidence whose conflicting block has a validator set with the voting powers %v and %s; the evidence as tmproto.Evidence bytes: %s", e.proposer, pw.powers,
		map[bool]string{false: "no signed header", true: "an empty signed header"}[emptySH], evHex))
	pm.pb = &tmcons.Proposal{Proposal: *pp} // with the timestamp that was signed
	c.pre = append(c.pre, pm)
	T := int(parts.Total())
	for i := 0; i < T; i++ {
		pb, err := parts.GetPart(i).ToProto()
		if err != nil {
			return c17SMCase{}, err
		}
		m := c17MkBlockPart(e.h, e.rd, uint32(i), pb.Bytes, pb.Proof, fmt.Sprintf("genuine part %d of %d of that block", i, T))
		if i == T-1 {
			c.focus, c.genuine = m, true
		} else {
			c.pre = append(c.pre, m)
		}
	}
	c.kind = "f85:proposed-block-with-evidence:" + pw.name + map[bool]string{false: ":no-signed-header", true: ":empty-signed-header"}[emptySH]
	return c, nil
}

// the decoders on their own (CValSet)
func TestVerifC17WireValSets(t *testing.T) {
	if !c17F85() {
		return
	}
	cs := vg.NewCases("C17", "c17_wire_valsets", "TM.C17.Exec")
	root := vg.NewRand(vg.Seed() ^ 0xF85)
	// a decodable block to put evidence into
	e, err := c17NewSM(3, root.Fork(999999))
	if err != nil {
		t.Fatal(err)
	}
	e.cs.mtx.Lock()
	base, _ := e.cs.createProposalBlock()
	e.cs.mtx.Unlock()
	e.stop()
	if base == nil {
		t.Fatal("HARNESS: createProposalBlock returned nil")
	}

	run := func(id int, via int, pw c17Powers, withProposer bool, seed byte, sh int) {
		if via <= 2 {
			sh = 0
		}
		vals := c17ValsOf(pw.powers, seed)
		var ok, panicked bool
		var total int64
		var errText string
		func() {
			defer func() {
				if r := recover(); r != nil {
					panicked = true
					errText = fmt.Sprintf("PANIC: %v", r)
				}
			}()
			vsp := &tmproto.ValidatorSet{}
			for _, v := range vals {
				vp, err := v.ToProto()
				if err != nil {
					panic("HARNESS: " + err.Error())
				}
				vsp.Validators = append(vsp.Validators, vp)
			}
			if withProposer && len(vals) > 0 {
				vsp.Proposer, _ = vals[0].ToProto()
			}
			switch via {
			case 1:
				bz, _ := vsp.Marshal()
				var back tmproto.ValidatorSet
				if err := back.Unmarshal(bz); err != nil {
					errText = err.Error()
					return
				}
				vs, err := types.ValidatorSetFromProto(&back)
				if err != nil {
					errText = err.Error()
					return
				}
				ok, total = true, vs.TotalVotingPower()
			case 2:
				vs, err := types.ValidatorSetFromExistingValidators(vals)
				if err != nil {
					errText = err.Error()
					return
				}
				ok, total = true, vs.TotalVotingPower()
			default:
				lbp := &tmproto.LightBlock{ValidatorSet: vsp}
				switch sh {
				case 1:
					lbp.SignedHeader = &tmproto.SignedHeader{}
				case 2:
					lbp.SignedHeader = &tmproto.SignedHeader{Header: &tmproto.Header{}}
				}
				evp := tmproto.Evidence{Sum: &tmproto.Evidence_LightClientAttackEvidence{LightClientAttackEvidence: &tmproto.LightClientAttackEvidence{
					ConflictingBlock: lbp, CommonHeight: 1}}}
				if via == 3 {
					bz, _ := evp.Marshal()
					var back tmproto.Evidence
					if err := back.Unmarshal(bz); err != nil {
						errText = err.Error()
						return
					}
					if _, err := types.EvidenceFromProto(&back); err != nil {
						errText = err.Error()
						return
					}
					ok = true
					return
				}
				bp, err := base.ToProto()
				if err != nil {
					panic("HARNESS: " + err.Error())
				}
				bp.Evidence = tmproto.EvidenceList{Evidence: []tmproto.Evidence{evp}}
				bz, _ := bp.Marshal()
				var back tmproto.Block
				if err := back.Unmarshal(bz); err != nil {
					errText = err.Error()
					return
				}
				if _, err := types.BlockFromProto(&back); err != nil {
					errText = err.Error()
					return
				}
				ok = true
			}
		}()
		prop := "None"
		if withProposer && len(vals) > 0 && via != 2 {
			prop = vg.Opt(true, vg.Z(pw.powers[0]))
		}
		term := vg.App("CValSet", vg.N(uint64(via)), c17PowersCoq(pw.powers), prop, vg.N(uint64(sh)), vg.B(ok), vg.B(panicked), vg.Z(total))
		viaName := []string{"", "types.ValidatorSetFromProto(bytes)", "types.ValidatorSetFromExistingValidators", "types.EvidenceFromProto(bytes of LightClientAttackEvidence{ConflictingBlock{ValidatorSet}})", "types.BlockFromProto(bytes of a proposal block carrying that evidence)"}[via]
		descr := fmt.Sprintf("%s; validator set: ed25519 keys from seeds %d.., 20-byte addresses, voting powers %v, proposer = validator 0: %v; conflicting block's signed header: %s | ok=%v total=%d | %s",
			viaName, seed, pw.powers, withProposer, []string{"absent", "present, no header", "present, zero-valued header"}[sh], ok, total, errText)
		cs.Add(id, fmt.Sprintf("f85:via%d:sh%d:%s", via, sh, pw.name), true, term, descr)
	}

	M := types.MaxTotalVotingPower
	directed := []c17Powers{{"max-and-1", []int64{M, 1}}, {"max-1-and-1", []int64{M - 1, 1}}, {"one-maxint64", []int64{math.MaxInt64}},
		{"negative", []int64{-5, 7}}, {"empty", nil}, {"zero", []int64{0}}, {"max+1-split-over-4", []int64{M / 4, M / 4, M / 4, M - 3*(M/4) + 1}}}
	for via := 1; via <= 4; via++ {
		for _, pw := range directed {
			id := cs.NextID()
			if cs.Want(id) {
				run(id, via, pw, true, 11, (via+len(pw.powers))%2)
			}
		}
	}
	n := vg.Scale(80, 6000)
	for k := 0; k < n; k++ {
		id := cs.NextID()
		if !cs.Want(id) {
			continue
		}
		r := root.Fork(uint64(k))
		run(id, 1+k%4, c17GenPowers(r), !r.Chance(10), byte(r.Intn(200)), []int{0, 0, 1, 2}[r.Intn(4)])
	}
	if err := cs.Write(); err != nil {
		t.Fatal(err)
	}
}

// the state machine: a complete proposed block carrying such evidence (CStateM, clause 22)
func TestVerifC17StateMachineF85(t *testing.T) {
	if !c17F85() {
		return
	}
	cs := vg.NewCases("C17", "c17_statemachine_f85", "TM.C17.Exec")
	root := vg.NewRand(vg.Seed() ^ 0xF85)
	M := types.MaxTotalVotingPower
	directed := []c17Powers{{"max-and-1", []int64{M, 1}}, {"one-maxint64", []int64{math.MaxInt64}}, {"negative", []int64{-5, 7}},
		{"max-1-and-1", []int64{M - 1, 1}}}
	n := vg.Scale(14, 800)
	for k := 0; k < len(directed)+n; k++ {
		id := cs.NextID()
		if !cs.Want(id) {
			continue
		}
		r := root.Fork(uint64(7000 + k))
		e, err := c17NewSM(3, r)
		if err != nil {
			cs.Notes = append(cs.Notes, fmt.Sprintf("case %d: %v", id, err))
			continue
		}
		pw := c17GenPowers(r)
		if k < len(directed) {
			pw = directed[k]
		}
		c, err := e.evidenceBlockCase(r, pw)
		if err != nil {
			cs.Notes = append(cs.Notes, fmt.Sprintf("case %d: %v", id, err))
			e.stop()
			continue
		}
		e.emit(cs, id, c.kind, c)
		e.stop()
	}
	if err := cs.Write(); err != nil {
		t.Fatal(err)
	}
}

func ed25519FromSeed(seed []byte) crypto.PubKey { return ed25519.GenPrivKeyFromSecret(seed).PubKey() }
