//go:build verif

// C17 layer B, consensus reactor.
//
//	TestVerifC17ConsValidate  every consensus message type, mostly valid with one or two hostile fields
//	                          (heights, rounds, indices, part totals, bit arrays whose Bits and word count
//	                          disagree, sizes at the limits), through the real decoding path
//	                          (proto round trip, Message.Unwrap, MsgFromProto incl. ValidateBasic) and, when
//	                          accepted, through the PeerState handlers ReceiveEnvelope calls, on a peer state
//	                          positioned at the message's height/round; then the bit arrays left in the peer
//	                          state are walked the way the gossip routines walk them.
//	TestVerifC17ReactorCons   a live single-validator consensus reactor (real State, WAL, switch); a mock
//	                          peer sends random bytes, mutated encodings and well-formed hostile messages
//	                          through Reactor.Receive. The three per-peer gossip routines that AddPeer would
//	                          spawn are started by the harness inside a recover wrapper, so a panic in them
//	                          (which would kill a production node) is observed instead of killing the test.
package consensus

import (
	"fmt"
	"math"
	"runtime"
	"strings"
	"sync"
	"testing"
	"time"

	"github.com/gogo/protobuf/proto"

	vg "github.com/tendermint/tendermint/internal/verifgen"
	"github.com/tendermint/tendermint/libs/bits"
	"github.com/tendermint/tendermint/libs/log"
	"github.com/tendermint/tendermint/p2p"
	p2pmock "github.com/tendermint/tendermint/p2p/mock"
	tmcons "github.com/tendermint/tendermint/proto/tendermint/consensus"
	tmcrypto "github.com/tendermint/tendermint/proto/tendermint/crypto"
	tmbits "github.com/tendermint/tendermint/proto/tendermint/libs/bits"
	tmproto "github.com/tendermint/tendermint/proto/tendermint/types"
	"github.com/tendermint/tendermint/types"
)

// ---------------------------------------------------------------- message descriptors

type c17BA struct {
	bits  int64
	elems int
}

func (b c17BA) pb() tmbits.BitArray {
	e := make([]uint64, b.elems)
	for i := range e {
		e[i] = 0xAAAAAAAAAAAAAAAA
	}
	return tmbits.BitArray{Bits: b.bits, Elems: e}
}
func (b c17BA) coq() string {
	return vg.App("Build_bitarr", "true", vg.Z(b.bits), vg.Z(int64(b.elems)))
}
func (b c17BA) String() string {
	return fmt.Sprintf("BitArray{Bits:%d,len(Elems):%d}", b.bits, b.elems)
}

type c17BID struct {
	hashLen    int
	total      uint32
	pshHashLen int
}

func (b c17BID) pb() tmproto.BlockID {
	return tmproto.BlockID{Hash: c17Fill(b.hashLen, 0xB1), PartSetHeader: tmproto.PartSetHeader{Total: b.total, Hash: c17Fill(b.pshHashLen, 0xB2)}}
}
func (b c17BID) coq() string {
	return vg.App("Build_blockid", vg.Z(int64(b.hashLen)), vg.App("Build_psheader", vg.Z(int64(b.total)), vg.Z(int64(b.pshHashLen))))
}
func (b c17BID) String() string {
	return fmt.Sprintf("BlockID{len(Hash):%d,PartSetHeader{Total:%d,len(Hash):%d}}", b.hashLen, b.total, b.pshHashLen)
}

func c17Fill(n int, v byte) []byte {
	if n == 0 {
		return nil
	}
	b := make([]byte, n)
	for i := range b {
		b[i] = v
	}
	return b
}

// a generated message: the wire form, the model term and a readable form
type c17M struct {
	ch     byte
	pb     proto.Message // inner message (has Wrap)
	coq    string
	human  string
	height int64
	round  int32
	muts   []string
}

// c17Force makes the generator mutate exactly one named field with the choice-th hostile value
// (systematic single-field sweeps); nil = random mutations.
type c17Force struct {
	field  string
	choice int
}

type c17Picker func(n int) int

func c17Pick64(pick c17Picker, base int64, hostile bool) int64 {
	if !hostile {
		return base
	}
	return []int64{-1, 0, 1, base - 1, base + 1, base + 1000000, math.MaxInt64, math.MinInt64}[pick(8)]
}
func c17Pick32(pick c17Picker, base int32, hostile bool) int32 {
	if !hostile {
		return base
	}
	return []int32{-1, -2, 0, 1, base + 1, 1000, math.MaxInt32, math.MinInt32}[pick(8)]
}

// hostile bit array shapes around a sane size n
func c17HostileBA(r *vg.Rand, pick c17Picker, n int64) c17BA {
	ok := int((n + 63) / 64)
	switch pick(9) {
	case 0:
		return c17BA{n, 0} // Bits without words
	case 1:
		return c17BA{n, ok + 1 + r.Intn(3)}
	case 2:
		if ok > 1 {
			return c17BA{n, ok - 1}
		}
		return c17BA{n + 64, ok}
	case 3:
		return c17BA{0, 1 + r.Intn(3)}
	case 4:
		return c17BA{-1 - int64(r.Intn(300)), r.Intn(3)}
	case 5:
		return c17BA{10000, 0}
	case 6:
		return c17BA{10001, 157}
	case 7:
		return c17BA{1601 + int64(r.Intn(2)), 26}
	}
	return c17BA{int64(1) << uint(31+r.Intn(32)), r.Intn(2)}
}

// fields of each message type that have hostile values (for the systematic sweep)
var c17Fields = [][]string{
	{"height", "round", "step", "lcr", "secs"},
	{"height", "round", "total", "bitarray", "hashlen"},
	{"height", "round", "polround", "type", "blockid", "siglen"},
	{"height", "polround", "bitarray"},
	{"height", "round", "index", "byteslen", "proof"},
	{"height", "round", "type", "blockid", "addrlen", "index", "siglen"},
	{"height", "round", "type", "index"},
	{"height", "round", "type", "blockid"},
	{"height", "round", "type", "blockid", "bitarray"},
}

func c17GenMsg(r *vg.Rand, which int, h int64, rd int32, hostilePct int, force *c17Force) c17M {
	var muts []string
	hos := func(name string) bool {
		if force != nil {
			if name == force.field {
				muts = append(muts, name)
				return true
			}
			return false
		}
		if r.Chance(hostilePct) {
			muts = append(muts, name)
			return true
		}
		return false
	}
	pick := func(n int) int {
		if force != nil {
			return force.choice % n
		}
		return r.Intn(n)
	}
	goodBID := c17BID{32, uint32(1 + r.Intn(4)), 32}
	hostileBID := func() c17BID {
		b := goodBID
		switch pick(8) {
		case 0:
			b.hashLen = []int{0, 1, 31, 33, 64}[pick(5)]
		case 1:
			b.pshHashLen = []int{0, 1, 31, 33}[pick(4)]
		case 2:
			b.total = 0
		case 3:
			b.total = uint32(types.MaxBlockPartsCount)
		case 4:
			b.total = uint32(types.MaxBlockPartsCount) + 1
		case 5:
			// just above the bound up to 2^20 (a 128 KiB bit array: shows a missing bound without
			// exhausting memory)
			b.total = uint32(types.MaxBlockPartsCount) + 2 + uint32(r.Intn([]int{4, 64, 1 << 10, 1<<20 - int(types.MaxBlockPartsCount) - 1}[r.Intn(4)]))
		case 6:
			b = c17BID{0, 0, 0}
		case 7:
			b = c17BID{0, 3, 32}
		}
		return b
	}
	sigLen := func() int {
		if hos("siglen") {
			return []int{0, 1, 63, 65, 66, 200}[pick(6)]
		}
		return 64
	}
	vtype := func() tmproto.SignedMsgType {
		if hos("type") {
			return tmproto.SignedMsgType([]int32{0, 3, 32, -1, 255}[pick(5)])
		}
		return []tmproto.SignedMsgType{tmproto.PrevoteType, tmproto.PrecommitType}[pick(2)]
	}
	m := c17M{}
	switch which {
	case 0: // NewRoundStep
		height, round := c17Pick64(pick, h, hos("height")), c17Pick32(pick, rd, hos("round"))
		step := uint32(1 + r.Intn(8))
		if hos("step") {
			step = []uint32{0, 9, 255, 256, 257, 264, 1 << 31}[pick(7)]
		}
		lcr := c17Pick32(pick, 0, hos("lcr"))
		secs := c17Pick64(pick, 5, hos("secs"))
		m.ch, m.height, m.round = StateChannel, height, round
		m.pb = &tmcons.NewRoundStep{Height: height, Round: round, Step: step, SecondsSinceStartTime: secs, LastCommitRound: lcr}
		m.coq = vg.App("MNewRoundStep", vg.Z(height), vg.Z(int64(round)), vg.Z(int64(step)), vg.Z(secs), vg.Z(int64(lcr)))
		m.human = fmt.Sprintf("NewRoundStep{Height:%d Round:%d Step:%d SecondsSinceStartTime:%d LastCommitRound:%d}", height, round, step, secs, lcr)
	case 1: // NewValidBlock
		height, round := c17Pick64(pick, h, hos("height")), c17Pick32(pick, rd, hos("round"))
		total := uint32(1 + r.Intn(200))
		if hos("total") {
			total = []uint32{0, 1, uint32(types.MaxBlockPartsCount), uint32(types.MaxBlockPartsCount) + 1, 100000,
				uint32(types.MaxBlockPartsCount) + 2 + uint32(r.Intn(64)), uint32(types.MaxBlockPartsCount) + 2 + uint32(r.Intn(1<<20-int(types.MaxBlockPartsCount)-1))}[pick(7)]
		}
		ba := c17BA{int64(total), int((int64(total) + 63) / 64)}
		if hos("bitarray") {
			ba = c17HostileBA(r, pick, int64(total))
		}
		hl := 32
		if hos("hashlen") {
			hl = []int{0, 31, 33}[pick(3)]
		}
		isCommit := r.Bool()
		pbba := ba.pb()
		m.ch, m.height, m.round = StateChannel, height, round
		m.pb = &tmcons.NewValidBlock{Height: height, Round: round, BlockPartSetHeader: tmproto.PartSetHeader{Total: total, Hash: c17Fill(hl, 0xC1)}, BlockParts: &pbba, IsCommit: isCommit}
		m.coq = vg.App("MNewValidBlock", vg.Z(height), vg.Z(int64(round)), vg.App("Build_psheader", vg.Z(int64(total)), vg.Z(int64(hl))), ba.coq(), vg.B(isCommit))
		m.human = fmt.Sprintf("NewValidBlock{Height:%d Round:%d BlockPartSetHeader{Total:%d len(Hash):%d} BlockParts:%v IsCommit:%v}", height, round, total, hl, ba, isCommit)
	case 2: // Proposal
		height, round := c17Pick64(pick, h, hos("height")), c17Pick32(pick, rd, hos("round"))
		pol := int32(-1)
		if hos("polround") {
			pol = []int32{-2, 0, 5, math.MaxInt32, math.MinInt32}[pick(5)]
		}
		typ := tmproto.ProposalType
		if hos("type") {
			typ = tmproto.SignedMsgType([]int32{0, 1, 2, 33}[pick(4)])
		}
		bid := goodBID
		if hos("blockid") {
			bid = hostileBID()
		}
		sl := sigLen()
		m.ch, m.height, m.round = DataChannel, height, round
		m.pb = &tmcons.Proposal{Proposal: tmproto.Proposal{Type: typ, Height: height, Round: round, PolRound: pol, BlockID: bid.pb(), Timestamp: time.Unix(1600000000, 0).UTC(), Signature: c17Fill(sl, 0x51)}}
		m.coq = vg.App("MProposal", vg.Z(int64(typ)), vg.Z(height), vg.Z(int64(round)), vg.Z(int64(pol)), bid.coq(), vg.Z(int64(sl)))
		m.human = fmt.Sprintf("Proposal{Type:%d Height:%d Round:%d POLRound:%d %v len(Signature):%d}", typ, height, round, pol, bid, sl)
	case 3: // ProposalPOL
		height, pr := c17Pick64(pick, h, hos("height")), c17Pick32(pick, rd, hos("polround"))
		n := int64(1 + r.Intn(150))
		ba := c17BA{n, int((n + 63) / 64)}
		if hos("bitarray") {
			ba = c17HostileBA(r, pick, n)
		}
		m.ch, m.height, m.round = DataChannel, height, pr
		m.pb = &tmcons.ProposalPOL{Height: height, ProposalPolRound: pr, ProposalPol: ba.pb()}
		m.coq = vg.App("MProposalPOL", vg.Z(height), vg.Z(int64(pr)), ba.coq())
		m.human = fmt.Sprintf("ProposalPOL{Height:%d ProposalPOLRound:%d ProposalPOL:%v}", height, pr, ba)
	case 4: // BlockPart
		height, round := c17Pick64(pick, h, hos("height")), c17Pick32(pick, rd, hos("round"))
		index := uint32(r.Intn(4))
		if hos("index") {
			index = []uint32{4, 5, 64, 1 << 31, math.MaxUint32}[pick(5)]
		}
		blen := 1 + r.Intn(64)
		if hos("byteslen") {
			blen = []int{0, int(types.BlockPartSizeBytes), int(types.BlockPartSizeBytes) + 1}[pick(3)]
		}
		proof := tmcrypto.Proof{Total: 4, Index: int64(index % 4), LeafHash: c17Fill(32, 0xD1), Aunts: [][]byte{c17Fill(32, 0xD2), c17Fill(32, 0xD3)}}
		proofOK := true
		if hos("proof") {
			proofOK = false
			switch pick(5) {
			case 0:
				proof.Total = -1
			case 1:
				proof.Index = -1
			case 2:
				proof.LeafHash = c17Fill(31, 0xD1)
			case 3:
				proof.Aunts = append(proof.Aunts, c17Fill(33, 0xD4))
			case 4:
				proof.Aunts = make([][]byte, 101)
				for i := range proof.Aunts {
					proof.Aunts[i] = c17Fill(32, 0xD5)
				}
			}
		}
		m.ch, m.height, m.round = DataChannel, height, round
		m.pb = &tmcons.BlockPart{Height: height, Round: round, Part: tmproto.Part{Index: index, Bytes: c17Fill(blen, 0xEE), Proof: proof}}
		m.coq = vg.App("MBlockPart", vg.Z(height), vg.Z(int64(round)), vg.Z(int64(index)), vg.Z(int64(blen)), vg.B(proofOK))
		m.human = fmt.Sprintf("BlockPart{Height:%d Round:%d Part{Index:%d len(Bytes):%d Proof{Total:%d Index:%d len(LeafHash):%d aunts:%d} proofValid:%v}}", height, round, index, blen, proof.Total, proof.Index, len(proof.LeafHash), len(proof.Aunts), proofOK)
	case 5: // Vote
		height, round := c17Pick64(pick, h, hos("height")), c17Pick32(pick, rd, hos("round"))
		typ := vtype()
		bid := goodBID
		if r.Chance(30) {
			bid = c17BID{0, 0, 0}
		}
		if hos("blockid") {
			bid = hostileBID()
		}
		al := 20
		if hos("addrlen") {
			al = []int{0, 19, 21}[pick(3)]
		}
		idx := int32(r.Intn(4))
		if hos("index") {
			idx = []int32{-1, 4, 1000, math.MaxInt32}[pick(4)]
		}
		sl := sigLen()
		bpb := bid.pb()
		m.ch, m.height, m.round = VoteChannel, height, round
		m.pb = &tmcons.Vote{Vote: &tmproto.Vote{Type: typ, Height: height, Round: round, BlockID: bpb, Timestamp: time.Unix(1600000000, 0).UTC(), ValidatorAddress: c17Fill(al, 0xA1), ValidatorIndex: idx, Signature: c17Fill(sl, 0x52)}}
		m.coq = vg.App("MVote", vg.Z(int64(typ)), vg.Z(height), vg.Z(int64(round)), bid.coq(), vg.Z(int64(al)), vg.Z(int64(idx)), vg.Z(int64(sl)))
		m.human = fmt.Sprintf("Vote{Type:%d Height:%d Round:%d %v len(ValidatorAddress):%d ValidatorIndex:%d len(Signature):%d}", typ, height, round, bid, al, idx, sl)
	case 6: // HasVote
		height, round := c17Pick64(pick, h, hos("height")), c17Pick32(pick, rd, hos("round"))
		typ := vtype()
		idx := int32(r.Intn(4))
		if hos("index") {
			idx = []int32{-1, 4, 63, 64, 1000, math.MaxInt32}[pick(6)]
		}
		m.ch, m.height, m.round = StateChannel, height, round
		m.pb = &tmcons.HasVote{Height: height, Round: round, Type: typ, Index: idx}
		m.coq = vg.App("MHasVote", vg.Z(height), vg.Z(int64(round)), vg.Z(int64(typ)), vg.Z(int64(idx)))
		m.human = fmt.Sprintf("HasVote{Height:%d Round:%d Type:%d Index:%d}", height, round, typ, idx)
	case 7: // VoteSetMaj23
		height, round := c17Pick64(pick, h, hos("height")), c17Pick32(pick, rd, hos("round"))
		typ := vtype()
		bid := goodBID
		if hos("blockid") {
			bid = hostileBID()
		}
		m.ch, m.height, m.round = StateChannel, height, round
		m.pb = &tmcons.VoteSetMaj23{Height: height, Round: round, Type: typ, BlockID: bid.pb()}
		m.coq = vg.App("MVoteSetMaj23", vg.Z(height), vg.Z(int64(round)), vg.Z(int64(typ)), bid.coq())
		m.human = fmt.Sprintf("VoteSetMaj23{Height:%d Round:%d Type:%d %v}", height, round, typ, bid)
	default: // VoteSetBits
		height, round := c17Pick64(pick, h, hos("height")), c17Pick32(pick, rd, hos("round"))
		typ := vtype()
		bid := goodBID
		if hos("blockid") {
			bid = hostileBID()
		}
		n := int64(r.Intn(6))
		ba := c17BA{n, int((n + 63) / 64)}
		if hos("bitarray") {
			ba = c17HostileBA(r, pick, 4)
		}
		m.ch, m.height, m.round = VoteSetBitsChannel, height, round
		m.pb = &tmcons.VoteSetBits{Height: height, Round: round, Type: typ, BlockID: bid.pb(), Votes: ba.pb()}
		m.coq = vg.App("MVoteSetBits", vg.Z(height), vg.Z(int64(round)), vg.Z(int64(typ)), bid.coq(), ba.coq())
		m.human = fmt.Sprintf("VoteSetBits{Height:%d Round:%d Type:%d %v Votes:%v}", height, round, typ, bid, ba)
	}
	m.muts = muts
	return m
}

// wire bytes as a peer would send them on the channel
func c17Wire(m proto.Message) []byte {
	w := m.(p2p.Wrapper).Wrap()
	bz, err := proto.Marshal(w)
	if err != nil {
		panic(err)
	}
	return bz
}

// the decoding path of Reactor.Receive / ReceiveEnvelope up to and including ValidateBasic
func c17Decode(bz []byte) (msg Message, err error) {
	defer func() {
		if r := recover(); r != nil {
			err = fmt.Errorf("panic while decoding: %v", r)
		}
	}()
	pm := &tmcons.Message{}
	if err := proto.Unmarshal(bz, pm); err != nil {
		return nil, err
	}
	uw, err := pm.Unwrap()
	if err != nil {
		return nil, err
	}
	if wm, ok := uw.(p2p.Wrapper); ok {
		uw = wm.Wrap()
	}
	msg, err = MsgFromProto(uw.(*tmcons.Message))
	if err != nil {
		return nil, err
	}
	if err = msg.ValidateBasic(); err != nil {
		return nil, err
	}
	return msg, nil
}

func c17Arrays(ps *PeerState) (out [][2]int64, all []*bits.BitArray) {
	for _, a := range []*bits.BitArray{ps.PRS.ProposalBlockParts, ps.PRS.ProposalPOL, ps.PRS.Prevotes, ps.PRS.Precommits, ps.PRS.LastCommit, ps.PRS.CatchupCommit} {
		if a != nil {
			out = append(out, [2]int64{int64(a.Bits), int64(len(a.Elems))})
			all = append(all, a)
		}
	}
	return
}

// what ReceiveEnvelope does with an accepted message on the peer state, then the operations the
// gossip routines perform on the peer's bit arrays
func c17Handle(msg Message) (arrays [][2]int64, panicked string, alloc int64) {
	peer := p2pmock.NewPeer(nil)
	defer peer.Stop() //nolint:errcheck
	ps := NewPeerState(peer).SetLogger(log.NewNopLogger())
	const nvals = 4
	try := func(what string, f func()) {
		defer func() {
			if r := recover(); r != nil && panicked == "" {
				panicked = fmt.Sprintf("%s: %v", what, r)
			}
		}()
		f()
	}
	var ms0, ms1 runtime.MemStats
	runtime.ReadMemStats(&ms0)
	try("handler", func() {
		switch m := msg.(type) {
		case *NewRoundStepMessage:
			ps.ApplyNewRoundStepMessage(m)
		case *NewValidBlockMessage:
			ps.PRS.Height, ps.PRS.Round = m.Height, m.Round
			ps.ApplyNewValidBlockMessage(m)
			ps.SetHasProposalBlockPart(m.Height, m.Round, 0)
		case *HasVoteMessage:
			ps.PRS.Height, ps.PRS.Round = m.Height, m.Round
			ps.EnsureVoteBitArrays(m.Height, nvals)
			ps.ApplyHasVoteMessage(m)
		case *VoteSetMaj23Message:
		case *ProposalMessage:
			ps.PRS.Height, ps.PRS.Round = m.Proposal.Height, m.Proposal.Round
			ps.SetHasProposal(m.Proposal)
		case *ProposalPOLMessage:
			ps.PRS.Height, ps.PRS.ProposalPOLRound = m.Height, m.ProposalPOLRound
			ps.ApplyProposalPOLMessage(m)
			ps.setHasVote(m.Height, m.ProposalPOLRound, tmproto.PrevoteType, 0)
		case *BlockPartMessage:
			ps.PRS.Height, ps.PRS.Round = m.Height, m.Round
			ps.InitProposalBlockParts(types.PartSetHeader{Total: 4, Hash: c17Fill(32, 1)})
			ps.SetHasProposalBlockPart(m.Height, m.Round, int(m.Part.Index))
		case *VoteMessage:
			ps.PRS.Height, ps.PRS.Round = m.Vote.Height, m.Vote.Round
			ps.EnsureVoteBitArrays(m.Vote.Height, nvals)
			ps.EnsureVoteBitArrays(m.Vote.Height-1, nvals)
			ps.SetHasVote(m.Vote)
		case *VoteSetBitsMessage:
			ps.PRS.Height, ps.PRS.Round = m.Height, m.Round
			ps.EnsureVoteBitArrays(m.Height, nvals)
			ps.ApplyVoteSetBitsMessage(m, bits.NewBitArray(nvals))
			ps.ApplyVoteSetBitsMessage(m, nil)
		}
	})
	runtime.ReadMemStats(&ms1)
	alloc = int64(ms1.TotalAlloc - ms0.TotalAlloc)
	arrays, all := c17Arrays(ps)
	ours := bits.NewBitArray(nvals)
	ours.SetIndex(1, true)
	for _, a := range all {
		if a.Bits > 1<<24 { // walking a giant array only costs time; its size is already reported
			continue
		}
		a := a
		try("Copy", func() { _ = a.Copy() })
		try("Not().PickRandom() [gossipDataForCatchup]", func() { _, _ = a.Not().PickRandom() })
		try("ours.Sub(peer).PickRandom() [gossipDataRoutine/PickVoteToSend]", func() { _, _ = ours.Sub(a.Copy()).PickRandom() })
		try("SetIndex(Bits-1)", func() { a.SetIndex(a.Bits-1, true) })
		try("GetIndex(Bits-1)", func() { _ = a.GetIndex(a.Bits - 1) })
		try("Update", func() { a.Update(ours) })
	}
	return
}

func TestVerifC17ConsValidate(t *testing.T) {
	cs := vg.NewCases("C17", "c17_cons_validate", "TM.C17.Exec")
	root := vg.NewRand(vg.Seed())

	emit := func(id int, kind string, m c17M) {
		bz := c17Wire(m.pb)
		msg, err := c17Decode(bz)
		ok := err == nil
		var arrays [][2]int64
		panicked := ""
		var alloc int64
		if ok {
			arrays, panicked, alloc = c17Handle(msg)
		}
		var ac []string
		for _, a := range arrays {
			ac = append(ac, vg.Tup(vg.Z(a[0]), vg.Z(a[1])))
		}
		term := vg.App("CValidate", m.coq, vg.B(ok), vg.L(ac), vg.B(panicked != ""), vg.Z(alloc))
		descr := fmt.Sprintf("channel 0x%x wire %x = %s | decode+ValidateBasic err=%v | peer-state bit arrays (Bits,len(Elems)) after the handlers: %v | panic: %q | allocated %d bytes",
			m.ch, c17Trunc(bz), m.human, err, arrays, panicked, alloc)
		cs.Add(id, kind, len(m.muts) > 0, term, descr)
	}

	// directed: F21 — unauthenticated proposal with PartSetHeader.Total = 2^32-1
	{
		id := cs.NextID()
		if cs.Want(id) {
			bid := c17BID{32, math.MaxUint32, 32}
			m := c17M{ch: DataChannel, height: 5, round: 0}
			m.pb = &tmcons.Proposal{Proposal: tmproto.Proposal{Type: tmproto.ProposalType, Height: 5, Round: 0, PolRound: -1, BlockID: bid.pb(), Timestamp: time.Unix(1600000000, 0).UTC(), Signature: c17Fill(64, 0x51)}}
			m.coq = vg.App("MProposal", vg.Z(32), vg.Z(5), vg.Z(0), vg.Z(-1), bid.coq(), vg.Z(64))
			m.human = fmt.Sprintf("Proposal{Type:32 Height:5 Round:0 POLRound:-1 %v len(Signature):64 (garbage signature)}", bid)
			m.muts = []string{"total"}
			emit(id, "directed:proposal-total-2^32-1", m)
			runtime.GC()
		}
	}
	// directed: F33 — bit arrays whose Bits and number of words disagree
	for i, ba := range []c17BA{{1, 0}, {100, 1}, {64, 2}} {
		id := cs.NextID()
		if cs.Want(id) {
			pbba := ba.pb()
			m := c17M{ch: StateChannel, height: 5, round: 0, muts: []string{"bitarray"}}
			m.pb = &tmcons.NewValidBlock{Height: 5, Round: 0, BlockPartSetHeader: tmproto.PartSetHeader{Total: uint32(ba.bits), Hash: c17Fill(32, 0xC1)}, BlockParts: &pbba, IsCommit: true}
			m.coq = vg.App("MNewValidBlock", vg.Z(5), vg.Z(0), vg.App("Build_psheader", vg.Z(ba.bits), vg.Z(32)), ba.coq(), "true")
			m.human = fmt.Sprintf("NewValidBlock{Height:5 Round:0 BlockPartSetHeader{Total:%d len(Hash):32} BlockParts:%v IsCommit:true}", ba.bits, ba)
			emit(id, fmt.Sprintf("directed:bitarray-mismatch-%d", i), m)
		}
	}
	{
		id := cs.NextID()
		if cs.Want(id) {
			ba := c17BA{50, 0}
			m := c17M{ch: DataChannel, height: 5, round: 1, muts: []string{"bitarray"}}
			m.pb = &tmcons.ProposalPOL{Height: 5, ProposalPolRound: 1, ProposalPol: ba.pb()}
			m.coq = vg.App("MProposalPOL", vg.Z(5), vg.Z(1), ba.coq())
			m.human = fmt.Sprintf("ProposalPOL{Height:5 ProposalPOLRound:1 ProposalPOL:%v}", ba)
			emit(id, "directed:bitarray-mismatch-pol", m)
		}
	}
	{
		id := cs.NextID()
		if cs.Want(id) {
			ba := c17BA{-200, 0}
			bid := c17BID{32, 1, 32}
			m := c17M{ch: VoteSetBitsChannel, height: 5, round: 0, muts: []string{"bitarray"}}
			m.pb = &tmcons.VoteSetBits{Height: 5, Round: 0, Type: tmproto.PrevoteType, BlockID: bid.pb(), Votes: ba.pb()}
			m.coq = vg.App("MVoteSetBits", vg.Z(5), vg.Z(0), vg.Z(1), bid.coq(), ba.coq())
			m.human = fmt.Sprintf("VoteSetBits{Height:5 Round:0 Type:1 %v Votes:%v}", bid, ba)
			emit(id, "directed:bitarray-negative-bits", m)
		}
	}
	// directed sweeps of the two limits the constants translator cannot read: step validity (all
	// 256 values are covered by the uint8 conversion) and signature length
	for _, step := range []uint32{0, 1, 2, 7, 8, 9, 10, 128, 255, 256, 257, 263, 264, 265} {
		id := cs.NextID()
		if cs.Want(id) {
			m := c17M{ch: StateChannel, height: 5}
			m.pb = &tmcons.NewRoundStep{Height: 5, Round: 0, Step: step, LastCommitRound: 0}
			m.coq = vg.App("MNewRoundStep", vg.Z(5), vg.Z(0), vg.Z(int64(step)), vg.Z(0), vg.Z(0))
			m.human = fmt.Sprintf("NewRoundStep{Height:5 Round:0 Step:%d LastCommitRound:0}", step)
			emit(id, "directed:step", m)
		}
	}
	for _, sl := range []int{0, 1, 63, 64, 65, 66} {
		id := cs.NextID()
		if cs.Want(id) {
			bid := c17BID{32, 1, 32}
			m := c17M{ch: VoteChannel, height: 5}
			m.pb = &tmcons.Vote{Vote: &tmproto.Vote{Type: tmproto.PrevoteType, Height: 5, Round: 0, BlockID: bid.pb(), Timestamp: time.Unix(1600000000, 0).UTC(), ValidatorAddress: c17Fill(20, 0xA1), ValidatorIndex: 0, Signature: c17Fill(sl, 0x52)}}
			m.coq = vg.App("MVote", vg.Z(1), vg.Z(5), vg.Z(0), bid.coq(), vg.Z(20), vg.Z(0), vg.Z(int64(sl)))
			m.human = fmt.Sprintf("Vote{Type:1 Height:5 Round:0 %v len(ValidatorAddress):20 ValidatorIndex:0 len(Signature):%d}", bid, sl)
			emit(id, "directed:siglen", m)
		}
	}

	// systematic: every message type, every field, every hostile value of that field, alone
	names := []string{"NewRoundStep", "NewValidBlock", "Proposal", "ProposalPOL", "BlockPart", "Vote", "HasVote", "VoteSetMaj23", "VoteSetBits"}
	for which, fields := range c17Fields {
		for fi, f := range fields {
			for choice := 0; choice < 9; choice++ {
				id := cs.NextID()
				if !cs.Want(id) {
					continue
				}
				r := root.Fork(uint64(1000000 + which*1000 + fi*10 + choice))
				m := c17GenMsg(r, which, 5, 1, 0, &c17Force{f, choice})
				emit(id, "sweep:"+names[which]+":"+f, m)
			}
		}
	}

	n := vg.Scale(140, 30000)
	for k := 0; k < n; k++ {
		id := cs.NextID()
		if !cs.Want(id) {
			continue
		}
		r := root.Fork(uint64(k))
		which := k % 9
		pct := []int{0, 12, 25}[r.Intn(3)]
		m := c17GenMsg(r, which, 5+int64(r.Intn(3)), int32(r.Intn(3)), pct, nil)
		kind := []string{"NewRoundStep", "NewValidBlock", "Proposal", "ProposalPOL", "BlockPart", "Vote", "HasVote", "VoteSetMaj23", "VoteSetBits"}[which]
		if len(m.muts) > 0 {
			kind += ":" + strings.Join(m.muts, "+")
		}
		emit(id, kind, m)
	}
	if err := cs.Write(); err != nil {
		t.Fatal(err)
	}
}

func c17Trunc(b []byte) []byte {
	if len(b) > 160 {
		return b[:160]
	}
	return b
}

// ---------------------------------------------------------------- live reactor

type c17Node struct {
	css      []*State
	reactors []*Reactor
	cleanup  func()
	stop     func()
}

func c17NewNode(t *testing.T, timeoutCommit time.Duration) *c17Node {
	css, cleanup := randConsensusNet(1, fmt.Sprintf("verif_c17_%d", time.Now().UnixNano()), func() TimeoutTicker { return NewTimeoutTicker() }, newCounter)
	for _, cs := range css {
		cs.SetLogger(log.NewNopLogger())
		if timeoutCommit > 0 {
			cs.config.TimeoutCommit = timeoutCommit
			cs.config.SkipTimeoutCommit = false
			// updateToState computed StartTime with the old value: redo it (what OnStart's
			// reconstruction does on a fresh chain)
			cs.StartTime = cs.config.Commit(time.Now())
		}
	}
	reactors, _, eventBuses := startConsensusNet(t, css, 1)
	for _, r := range reactors {
		r.SetLogger(log.NewNopLogger())
		r.Switch.SetLogger(log.NewNopLogger())
	}
	n := &c17Node{css: css, reactors: reactors, cleanup: cleanup}
	n.stop = func() {
		stopConsensusNet(log.NewNopLogger(), reactors, eventBuses)
		cleanup()
	}
	return n
}

type c17Peer struct {
	peer    *p2pmock.Peer
	ps      *PeerState
	mu      sync.Mutex
	bgPanic string
	wg      sync.WaitGroup
}

// InitPeer + the goroutines of AddPeer, each inside a recover wrapper
func (n *c17Node) addPeer() *c17Peer {
	conR := n.reactors[0]
	p := &c17Peer{peer: p2pmock.NewPeer(nil)}
	conR.InitPeer(p.peer)
	p.ps = p.peer.Get(types.PeerStateKey).(*PeerState)
	wrap := func(name string, f func()) {
		p.wg.Add(1)
		go func() {
			defer p.wg.Done()
			defer func() {
				if r := recover(); r != nil {
					p.mu.Lock()
					if p.bgPanic == "" {
						p.bgPanic = fmt.Sprintf("%s: %v", name, r)
					}
					p.mu.Unlock()
				}
			}()
			f()
		}()
	}
	wrap("gossipDataRoutine", func() { conR.gossipDataRoutine(p.peer, p.ps) })
	wrap("gossipVotesRoutine", func() { conR.gossipVotesRoutine(p.peer, p.ps) })
	wrap("queryMaj23Routine", func() { conR.queryMaj23Routine(p.peer, p.ps) })
	return p
}

func (p *c17Peer) done() string {
	_ = p.peer.Stop()
	ch := make(chan struct{})
	go func() { p.wg.Wait(); close(ch) }()
	select {
	case <-ch:
	case <-time.After(3 * time.Second):
	}
	p.mu.Lock()
	defer p.mu.Unlock()
	return p.bgPanic
}

type c17In struct {
	ch    byte
	bz    []byte
	human string
}

type c17Out struct {
	recvPanic, stopped, bgPanic, stuck, alive bool
	alloc                                     int64
	notes                                     []string
}

// deliver a short sequence from one peer to the live reactor and observe
func (n *c17Node) deliver(ins []c17In, settle time.Duration, needProgress bool) c17Out {
	conR, cs := n.reactors[0], n.css[0]
	p := n.addPeer()
	var out c17Out
	var ms0, ms1 runtime.MemStats
	runtime.ReadMemStats(&ms0)
	for _, in := range ins {
		if !p.peer.IsRunning() {
			break // the switch dropped the peer: nothing more arrives from it
		}
		in := in
		doneCh := make(chan string, 1)
		go func() {
			defer func() {
				if r := recover(); r != nil {
					doneCh <- fmt.Sprint(r)
					return
				}
				doneCh <- ""
			}()
			conR.Receive(in.ch, p.peer, in.bz)
		}()
		select {
		case pn := <-doneCh:
			if pn != "" {
				out.recvPanic = true
				out.notes = append(out.notes, "Receive panicked: "+pn)
				// MConnection._recover -> onPeerError -> StopPeerForError
				conR.Switch.StopPeerForError(p.peer, pn)
			}
		case <-time.After(3 * time.Second):
			out.stuck = true
			out.notes = append(out.notes, "Receive did not return within 3s")
		}
		if out.stuck {
			break
		}
	}
	// let the consensus routine take the messages from its queue and the gossip routines look at
	// the peer state a few times (peerGossipSleepDuration is 5ms in the test config)
	deadline := time.Now().Add(500 * time.Millisecond)
	for len(cs.peerMsgQueue) > 0 && time.Now().Before(deadline) {
		time.Sleep(time.Millisecond)
	}
	time.Sleep(settle)
	runtime.ReadMemStats(&ms1)
	out.alloc = int64(ms1.TotalAlloc - ms0.TotalAlloc)
	out.stopped = !p.peer.IsRunning()
	if bp := p.done(); bp != "" {
		out.bgPanic = true
		out.notes = append(out.notes, "goroutine panicked: "+bp)
	}
	// alive: the consensus routine has not exited, and (when the node is making blocks) it still does
	out.alive = true
	select {
	case <-cs.done:
		out.alive = false
		out.notes = append(out.notes, "consensus receiveRoutine exited (CONSENSUS FAILURE)")
	default:
	}
	if out.alive && needProgress {
		h0 := cs.GetRoundState().Height
		ok := false
		for t0 := time.Now(); time.Since(t0) < 3*time.Second; {
			if cs.GetRoundState().Height > h0 {
				ok = true
				break
			}
			time.Sleep(2 * time.Millisecond)
		}
		if !ok {
			out.alive = false
			out.notes = append(out.notes, fmt.Sprintf("no new block within 3s (height %d)", h0))
		}
	}
	return out
}

func (o c17Out) broken() bool { return o.bgPanic || o.stuck || !o.alive }

func c17ReactorTerm(kind int, inlen int, o c17Out) string {
	return vg.App("CReactor", vg.N(1), vg.N(uint64(kind)), vg.Z(int64(inlen)), vg.B(o.recvPanic), vg.B(o.stopped), vg.B(o.bgPanic), vg.B(o.stuck), vg.B(o.alive), vg.Z(o.alloc))
}

func c17InsHuman(ins []c17In) (string, int) {
	var hs []string
	n := 0
	for _, in := range ins {
		hs = append(hs, fmt.Sprintf("Receive(ch 0x%x, %x)%s", in.ch, c17Trunc(in.bz), in.human))
		n += len(in.bz)
	}
	return strings.Join(hs, " ; "), n
}

func c17In1(m c17M) c17In {
	return c17In{ch: m.ch, bz: c17Wire(m.pb), human: " = " + m.human}
}

func TestVerifC17ReactorCons(t *testing.T) {
	cs := vg.NewCases("C17", "c17_reactor_cons", "TM.C17.Exec")
	root := vg.NewRand(vg.Seed())

	// ---- directed: F25, a precommit for height InitialHeight-1 while the node waits in
	// RoundStepNewHeight of its first height (e.g. before genesis time): LastCommit is nil
	{
		id := cs.NextID()
		if cs.Want(id) {
			node := c17NewNode(t, 4*time.Second)
			bid := c17BID{32, 1, 32}
			vote := &tmcons.Vote{Vote: &tmproto.Vote{Type: tmproto.PrecommitType, Height: 0, Round: 0, BlockID: bid.pb(), Timestamp: time.Unix(1600000000, 0).UTC(), ValidatorAddress: c17Fill(20, 0xA1), ValidatorIndex: 0, Signature: c17Fill(64, 0x52)}}
			rs := node.css[0].GetRoundState()
			ins := []c17In{{ch: VoteChannel, bz: c17Wire(vote), human: " = Vote{Type:Precommit Height:0 Round:0 ValidatorIndex:0 garbage signature}"}}
			o := node.deliver(ins, 30*time.Millisecond, false)
			h, ln := c17InsHuman(ins)
			descr := fmt.Sprintf("fresh chain, node at height %d step %v (waiting for its start time); unknown peer: %s | %s", rs.Height, rs.Step, h, strings.Join(o.notes, "; "))
			cs.Add(id, "directed:precommit-for-height-0-in-newheight", true, c17ReactorTerm(2, ln, o), descr)
			node.stop()
		}
	}

	var node *c17Node
	fresh := func() {
		if node != nil {
			node.stop()
		}
		node = c17NewNode(t, 0)
		// let it commit a few blocks so that "previous heights" exist
		for t0 := time.Now(); node.css[0].GetRoundState().Height < 4 && time.Since(t0) < 10*time.Second; {
			time.Sleep(5 * time.Millisecond)
		}
	}
	fresh()
	defer func() { node.stop() }()

	nrs := func(h int64, rd int32, lcr int32) c17In {
		return c17In1(c17M{ch: StateChannel, pb: &tmcons.NewRoundStep{Height: h, Round: rd, Step: 1, LastCommitRound: lcr},
			human: fmt.Sprintf("NewRoundStep{Height:%d Round:%d Step:1 LastCommitRound:%d}", h, rd, lcr)})
	}

	// ---- directed: F33, peer claims to be one height behind, then announces a valid block whose
	// bit array has Bits=1 and no words; gossipDataRoutine (catch-up branch) walks it
	{
		id := cs.NextID()
		if cs.Want(id) {
			h := node.css[0].GetRoundState().Height - 1
			ba := c17BA{1, 0}
			pbba := ba.pb()
			ins := []c17In{nrs(h, 0, 0),
				c17In1(c17M{ch: StateChannel, pb: &tmcons.NewValidBlock{Height: h, Round: 0, BlockPartSetHeader: tmproto.PartSetHeader{Total: 1, Hash: c17Fill(32, 0xC1)}, BlockParts: &pbba, IsCommit: true},
					human: fmt.Sprintf("NewValidBlock{Height:%d Round:0 BlockPartSetHeader{Total:1} BlockParts:%v IsCommit:true}", h, ba)})}
			o := node.deliver(ins, 40*time.Millisecond, true)
			hh, ln := c17InsHuman(ins)
			cs.Add(id, "directed:valid-block-bitarray-without-words", true, c17ReactorTerm(2, ln, o),
				fmt.Sprintf("node at height %d; unknown peer: %s | %s", h+1, hh, strings.Join(o.notes, "; ")))
			if o.broken() {
				fresh()
			}
		}
	}
	// ---- directed: F21 on the live reactor (Total = 2^28: a 32 MiB bit array per message instead of the
	// 512 MiB of 2^32-1, so that the quick tier stays light; the 2^32-1 case is in ConsValidate)
	{
		id := cs.NextID()
		if cs.Want(id) {
			rs := node.css[0].GetRoundState()
			var ins []c17In
			ins = append(ins, nrs(rs.Height+1, 0, 0))
			for i := 0; i < 4; i++ {
				bid := c17BID{32, 1 << 28, 32}
				ins = append(ins, nrs(rs.Height+1, int32(i+1), 0))
				ins = append(ins, c17In1(c17M{ch: DataChannel, pb: &tmcons.Proposal{Proposal: tmproto.Proposal{Type: tmproto.ProposalType, Height: rs.Height + 1, Round: int32(i + 1), PolRound: -1, BlockID: bid.pb(), Timestamp: time.Unix(1600000000, 0).UTC(), Signature: c17Fill(64, 0x51)}},
					human: fmt.Sprintf("Proposal{Height:%d Round:%d %v garbage signature}", rs.Height+1, i+1, bid)}))
			}
			o := node.deliver(ins, 10*time.Millisecond, true)
			hh, ln := c17InsHuman(ins)
			cs.Add(id, "directed:proposals-with-huge-total", true, c17ReactorTerm(2, ln, o),
				fmt.Sprintf("node at height %d; unknown peer: %s | allocated %d bytes | %s", rs.Height, hh, o.alloc, strings.Join(o.notes, "; ")))
			runtime.GC()
			if o.broken() {
				fresh()
			}
		}
	}

	n := vg.Scale(60, 6000)
	for k := 0; k < n; k++ {
		id := cs.NextID()
		if !cs.Want(id) {
			continue
		}
		if vg.Only() >= 0 {
			fresh()
		}
		r := root.Fork(uint64(k))
		rs := node.css[0].GetRoundState()
		var ins []c17In
		kind := r.Intn(3)
		kname := ""
		switch kind {
		case 0:
			ch := []byte{StateChannel, DataChannel, VoteChannel, VoteSetBitsChannel, 0x77}[r.Intn(5)]
			ln := []int{0, 1, 2, 3, 8, 40, 300}[r.Intn(7)]
			bz := r.Bytes(ln)
			if ln > 0 && r.Chance(50) {
				bz[0] = byte(((1 + r.Intn(9)) << 3) | 2) // a valid length-delimited tag of the oneof
			}
			ins = []c17In{{ch: ch, bz: bz}}
			kname = "random"
		case 1:
			m := c17GenMsg(r, r.Intn(9), rs.Height, rs.Round, 0, nil)
			bz := c17Wire(m.pb)
			switch r.Intn(3) {
			case 0:
				if len(bz) > 0 {
					bz = bz[:r.Intn(len(bz))]
				}
			case 1:
				for i := 0; i < 1+r.Intn(2) && len(bz) > 0; i++ {
					bz[r.Intn(len(bz))] ^= 1 << uint(r.Intn(8))
				}
			case 2:
				bz = append(bz, r.Bytes(1+r.Intn(4))...)
			}
			ch := m.ch
			if r.Chance(15) {
				ch = []byte{StateChannel, DataChannel, VoteChannel, VoteSetBitsChannel}[r.Intn(4)]
			}
			ins = []c17In{{ch: ch, bz: bz, human: " = mutated " + m.human}}
			kname = "mutated"
		default:
			// peer positions itself (at our height, one behind, far ahead, or not at all), then sends
			// one or two well-formed hostile messages
			pos := r.Intn(4)
			ph, pr := rs.Height, rs.Round
			switch pos {
			case 1:
				ph = rs.Height - 1
			case 2:
				ph = rs.Height + 1000000
			}
			if pos != 3 {
				ins = append(ins, nrs(ph, pr, 0))
			}
			for i := 0; i < 1+r.Intn(2); i++ {
				m := c17GenMsg(r, r.Intn(9), ph, pr, 35, nil)
				in := c17In1(m)
				if r.Chance(8) {
					in.ch = []byte{StateChannel, DataChannel, VoteChannel, VoteSetBitsChannel}[r.Intn(4)]
				}
				ins = append(ins, in)
				kname = "hostile"
			}
		}
		o := node.deliver(ins, 12*time.Millisecond, true)
		hh, ln := c17InsHuman(ins)
		cs.Add(id, kname, true, c17ReactorTerm(kind, ln, o),
			fmt.Sprintf("node at height %d round %d; unknown peer: %s | recvPanic=%v stopped=%v alloc=%d | %s", rs.Height, rs.Round, hh, o.recvPanic, o.stopped, o.alloc, strings.Join(o.notes, "; ")))
		if o.broken() {
			fresh()
		}
	}
	if err := cs.Write(); err != nil {
		t.Fatal(err)
	}
}
