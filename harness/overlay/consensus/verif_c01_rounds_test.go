//go:build verif

package consensus

// A round-structured adversary for the multi-node harness (C01, C03).  The network of real
// consensus.State objects proceeds through the rounds of height 1 in lock step; in every round
// the adversary — who controls delivery and the faulty validators, nothing else — decides who
// receives the proposal in time, whose prevotes and precommits reach whom before the timeouts
// fire, what the faulty validators tell each node, and when held-back votes finally arrive.
// Scripted openings reproduce the classical attacks on the lock (a lock taken by one node only,
// locks on different blocks, a polka completing after the precommit, a stale polka arriving
// after a re-lock, a commit seen by one node only); the remaining rounds are random.

import (
	"fmt"

	cstypes "github.com/tendermint/tendermint/consensus/types"
	vg "github.com/tendermint/tendermint/internal/verifgen"
	"github.com/tendermint/tendermint/p2p"
	tmproto "github.com/tendermint/tendermint/proto/tendermint/types"
	sm "github.com/tendermint/tendermint/state"
	"github.com/tendermint/tendermint/types"
)

// c01RoundPlan: what the adversary does in one round.  Validators are named by validator index.
type c01RoundPlan struct {
	fPropose    string         // faulty proposer: "new", "re<round>" (the block proposed in that round), "" = no proposal
	noProposal  map[int]bool   // correct nodes that do not receive the proposal in time
	pvFrom      map[int][]int  // node -> validators whose prevotes it receives before its timeout (nil = all correct ones)
	fPrevote    map[int]string // node -> what the faulty validators prevote towards it: "prop", "nil", "re<round>", "" = nothing
	late        map[int]bool   // nodes that receive every remaining prevote of the round right after precommitting
	pcFrom      map[int][]int  // node -> validators whose precommits it receives (nil = all correct ones)
	fPrecommit  map[int]string // node -> the faulty validators' precommit towards it
	staleBefore map[int]bool   // nodes that receive everything held back so far, before the round starts
	equivocate  map[int]bool   // nodes that receive, at the end of the round, a SECOND proposal (another block) of this round's faulty proposer
	noParts     map[int]bool   // nodes that receive this round's Proposal message but none of its block parts
	staleAfter  map[int]bool   // nodes that receive everything held back so far right after the proposal of this round
	pcOnly      map[int]bool   // nodes that receive no precommits beyond pcFrom / fPrecommit before their timeout fires
}

type c01Rounds struct {
	r      *vg.Rand
	net    *c01Net
	pvs    []types.MockPV
	byIdx  map[int]*c02Harness
	height int64
	props  map[int32]types.BlockID // block proposed in each round (first proposal seen)
	fvotes map[string]msgInfo      // the faulty validators' votes made so far
}

func (e *c01Rounds) deliver(h *c02Harness, mi msgInfo) {
	if h.panicked || h.cs.Height != e.height {
		return
	}
	h.got = append(h.got, mi)
	t, d := h.inputTerm(mi)
	h.deliver(t, d, func() { h.cs.handleMsg(mi) })
}

// take delivers (and removes from the inbox) every message of h's inbox that pred accepts
func (e *c01Rounds) take(h *c02Harness, pred func(mi msgInfo) bool) int {
	n := 0
	for {
		found := -1
		for i, mi := range e.net.inbox[h] {
			if c01Height(mi) == e.height && pred(mi) {
				found = i
				break
			}
		}
		if found < 0 || h.panicked || h.cs.Height != e.height {
			return n
		}
		mi := e.net.inbox[h][found]
		e.net.inbox[h] = append(e.net.inbox[h][:found:found], e.net.inbox[h][found+1:]...)
		e.deliver(h, mi)
		n++
	}
}

func (e *c01Rounds) fireStep(h *c02Harness, round int32, step cstypes.RoundStepType) bool {
	if h.panicked || h.cs.Height != e.height {
		return false
	}
	s := h.ticker.scheduled
	for i := len(s) - 1; i >= 0; i-- {
		if s[i].Height == e.height && s[i].Round == round && s[i].Step == step {
			h.fire(s[i], "timeout")
			return true
		}
	}
	return false
}

func isVote(mi msgInfo, ty tmproto.SignedMsgType, round int32, from map[int]bool) bool {
	vm, ok := mi.Msg.(*VoteMessage)
	return ok && vm.Vote.Type == ty && vm.Vote.Round == round && (from == nil || from[int(vm.Vote.ValidatorIndex)])
}

func (e *c01Rounds) label(round int32, what string) (types.BlockID, bool) {
	switch {
	case what == "nil":
		return types.BlockID{}, true
	case what == "prop":
		b, ok := e.props[round]
		return b, ok
	case len(what) > 2 && what[:2] == "re":
		var k int32
		fmt.Sscanf(what[2:], "%d", &k)
		b, ok := e.props[k]
		return b, ok
	}
	return types.BlockID{}, false
}

// faultyVotes makes every faulty validator cast the given vote towards node h
func (e *c01Rounds) faultyVotes(h *c02Harness, ty tmproto.SignedMsgType, round int32, what string) {
	bid, ok := e.label(round, what)
	if !ok {
		return
	}
	for _, f := range e.net.faulty {
		key := fmt.Sprintf("%d/%d/%d/%X", f, ty, round, bid.Hash)
		mi, ok := e.fvotes[key]
		if !ok {
			v := h.mkVote(e.r, f, ty, e.height, round, bid)
			mi = msgInfo{&VoteMessage{v}, p2p.ID(fmt.Sprintf("p%d", f+1))}
			e.fvotes[key] = mi
			e.net.pool = append(e.net.pool, mi)
			for _, o := range e.net.nodes { // the others may get it later
				if o != h {
					e.net.inbox[o] = append(e.net.inbox[o], mi)
				}
			}
		} else { // already made: take it out of h's inbox if it is waiting there
			for i, x := range e.net.inbox[h] {
				if x == mi {
					e.net.inbox[h] = append(e.net.inbox[h][:i:i], e.net.inbox[h][i+1:]...)
					break
				}
			}
		}
		e.deliver(h, mi)
	}
}

func setOf(l []int) map[int]bool {
	if l == nil {
		return nil
	}
	m := map[int]bool{}
	for _, i := range l {
		m[i] = true
	}
	return m
}

// round plays one round; it returns false when no node is left at the height
func (e *c01Rounds) round(round int32, plan c01RoundPlan) bool {
	var nodes []*c02Harness
	for _, h := range e.net.nodes {
		if !h.panicked && h.cs.Height == e.height {
			nodes = append(nodes, h)
		}
	}
	if len(nodes) == 0 {
		return false
	}
	shared := nodes[0] // a node that is still at the height (its tables are shared by all nodes)
	// everybody enters the round
	for _, h := range nodes {
		if h.cs.Step == cstypes.RoundStepNewHeight {
			e.fireStep(h, 0, cstypes.RoundStepNewHeight)
		}
		for g := 0; g < 4 && h.cs.Height == e.height && h.cs.Round < round && !h.panicked; g++ {
			rr := h.cs.Round
			if !e.fireStep(h, rr, cstypes.RoundStepPrecommitWait) {
				// not waiting yet: it gets the precommits of its round (nil from the faulty ones)
				e.take(h, func(mi msgInfo) bool { return isVote(mi, tmproto.PrecommitType, rr, nil) })
				e.faultyVotes(h, tmproto.PrecommitType, rr, "nil")
				if !e.fireStep(h, rr, cstypes.RoundStepPrecommitWait) {
					break
				}
			}
		}
	}
	for _, h := range nodes {
		if plan.staleBefore[h.me] {
			e.take(h, func(mi msgInfo) bool {
				vm, ok := mi.Msg.(*VoteMessage)
				return ok && vm.Vote.Round < round
			})
		}
	}
	// the proposal
	shared.ensureProposers()
	proposer := int(shared.props[e.height][int(round)%24])
	isFaulty := false
	for _, f := range e.net.faulty {
		if f == proposer {
			isFaulty = true
		}
	}
	if isFaulty && plan.fPropose != "" {
		var bid types.BlockID
		var parts *types.PartSet
		polr := int32(-1)
		if plan.fPropose == "new" {
			c := shared.candidates(e.r)
			if len(c) > 0 {
				k := int(round) % 3
				if k >= len(c) {
					k = 0
				}
				bid = types.BlockID{Hash: c[k].block.Hash(), PartSetHeader: c[k].parts.Header()}
				parts = c[k].parts
			}
		} else if b, ok := e.label(round, plan.fPropose); ok && !b.IsZero() {
			bid = b
			if blk := shared.byPSH[string(b.PartSetHeader.Hash)]; blk != nil {
				parts = blk.parts
			}
			fmt.Sscanf(plan.fPropose[2:], "%d", &polr)
		}
		if parts != nil {
			p := types.NewProposal(e.height, round, polr, bid)
			pp := p.ToProto()
			e.pvs[proposer].SignProposal(shared.cs.state.ChainID, pp) //nolint:errcheck
			p.Signature = pp.Signature
			from := p2p.ID(fmt.Sprintf("p%d", proposer+1))
			e.net.publishTo(e.net.nodes, msgInfo{&ProposalMessage{p}, from})
			for i := 0; i < int(parts.Total()); i++ {
				e.net.publishTo(e.net.nodes, msgInfo{&BlockPartMessage{e.height, round, parts.GetPart(i)}, from})
			}
		}
	}
	for _, mi := range e.net.pool {
		if pm, ok := mi.Msg.(*ProposalMessage); ok && pm.Proposal.Height == e.height && pm.Proposal.Round == round {
			if _, seen := e.props[round]; !seen {
				e.props[round] = pm.Proposal.BlockID
			}
		}
	}
	for _, h := range nodes {
		if !plan.noProposal[h.me] {
			e.take(h, func(mi msgInfo) bool {
				switch m := mi.Msg.(type) {
				case *ProposalMessage:
					return m.Proposal.Round == round
				case *BlockPartMessage:
					return m.Round == round && !plan.noParts[h.me]
				}
				return false
			})
		}
		if plan.staleAfter[h.me] {
			e.take(h, func(mi msgInfo) bool {
				vm, ok := mi.Msg.(*VoteMessage)
				return ok && vm.Vote.Round < round
			})
		}
		if h.cs.Height == e.height && h.cs.Round == round && h.cs.Step <= cstypes.RoundStepPropose {
			e.fireStep(h, round, cstypes.RoundStepPropose)
		}
	}
	// prevotes
	for _, h := range nodes {
		from := setOf(plan.pvFrom[h.me])
		e.take(h, func(mi msgInfo) bool { return isVote(mi, tmproto.PrevoteType, round, from) })
		if w := plan.fPrevote[h.me]; w != "" {
			e.faultyVotes(h, tmproto.PrevoteType, round, w)
		}
	}
	for _, h := range nodes {
		if h.cs.Height != e.height || h.cs.Round != round || h.panicked {
			continue
		}
		if h.cs.Step == cstypes.RoundStepPrevote { // no +2/3 of anything yet: the faulty validators prevote nil
			e.faultyVotes(h, tmproto.PrevoteType, round, "nil")
		}
		if h.cs.Step == cstypes.RoundStepPrevote { // still not: it gets the remaining prevotes after all
			e.take(h, func(mi msgInfo) bool { return isVote(mi, tmproto.PrevoteType, round, nil) })
		}
		if h.cs.Round == round && h.cs.Step == cstypes.RoundStepPrevoteWait {
			e.fireStep(h, round, cstypes.RoundStepPrevoteWait)
		}
	}
	for _, h := range nodes {
		if plan.late[h.me] {
			e.take(h, func(mi msgInfo) bool { return isVote(mi, tmproto.PrevoteType, round, nil) })
			if w := plan.fPrevote[h.me]; w == "" {
				e.faultyVotes(h, tmproto.PrevoteType, round, "prop")
			}
		}
	}
	// precommits
	for _, h := range nodes {
		from := setOf(plan.pcFrom[h.me])
		e.take(h, func(mi msgInfo) bool { return isVote(mi, tmproto.PrecommitType, round, from) })
		if w := plan.fPrecommit[h.me]; w != "" {
			e.faultyVotes(h, tmproto.PrecommitType, round, w)
		}
	}
	for _, h := range nodes {
		if h.cs.Height != e.height || h.cs.Round != round || h.panicked {
			continue
		}
		if h.cs.Step < cstypes.RoundStepPrecommitWait && !plan.pcOnly[h.me] {
			e.faultyVotes(h, tmproto.PrecommitType, round, "nil")
		}
		if h.cs.Height == e.height && h.cs.Round == round && h.cs.Step < cstypes.RoundStepPrecommitWait && !plan.pcOnly[h.me] {
			e.take(h, func(mi msgInfo) bool { return isVote(mi, tmproto.PrecommitType, round, nil) })
		}
		if h.cs.Height == e.height && h.cs.Round == round {
			e.fireStep(h, round, cstypes.RoundStepPrecommitWait)
		}
	}
	if isFaulty && len(plan.equivocate) > 0 {
		if c := shared.candidates(e.r); len(c) > 0 && shared.cs.Height == e.height {
			k := (int(round) + 1) % 3
			if k >= len(c) {
				k = 0
			}
			bid := types.BlockID{Hash: c[k].block.Hash(), PartSetHeader: c[k].parts.Header()}
			if first, ok := e.props[round]; !ok || !first.Equals(bid) {
				p := types.NewProposal(e.height, round, -1, bid)
				pp := p.ToProto()
				e.pvs[proposer].SignProposal(shared.cs.state.ChainID, pp) //nolint:errcheck
				p.Signature = pp.Signature
				from := p2p.ID(fmt.Sprintf("p%d", proposer+1))
				msgs := []msgInfo{{&ProposalMessage{p}, from}}
				for i := 0; i < int(c[k].parts.Total()); i++ {
					msgs = append(msgs, msgInfo{&BlockPartMessage{e.height, round, c[k].parts.GetPart(i)}, from})
				}
				e.net.pool = append(e.net.pool, msgs...)
				for _, h := range nodes {
					if plan.equivocate[h.me] {
						for _, mi := range msgs {
							e.deliver(h, mi)
						}
					}
				}
			}
		}
	}
	return true
}

// c01Rotation: the proposers (validator indices) of rounds 0..n-1 of the first height
func c01Rotation(state sm.State, n int) []int {
	var out []int
	for r := 0; r < n; r++ {
		vs := state.Validators.Copy()
		if r > 0 {
			vs = state.Validators.CopyIncrementProposerPriority(int32(r))
		}
		idx, _ := state.Validators.GetByAddress(vs.GetProposer().Address)
		out = append(out, int(idx))
	}
	return out
}

// c01Opening chooses a scripted opening for 4 equal validators with one faulty one, given the
// proposer rotation q; it returns the faulty validator and the plans of the first rounds.
func c01Opening(r *vg.Rand, q []int, which int) (faulty int, plans []c01RoundPlan, name string) {
	others := func(x ...int) []int {
		var o []int
		for v := 0; v < 4; v++ {
			skip := false
			for _, y := range x {
				if y == v {
					skip = true
				}
			}
			if !skip {
				o = append(o, v)
			}
		}
		return o
	}
	switch which {
	case 0:
		// "late polka": a alone locks X in round 0; in round 1 b and c lock Y with the faulty
		// validator's help, a misses the proposal, precommits nil, and only then receives the
		// prevote that completes the polka for Y.
		a := q[0]
		if r.Bool() {
			a = q[2]
		}
		oa := others(a)
		f := oa[r.Intn(len(oa))]
		bc := others(a, f)
		b, c := bc[0], bc[1]
		p0 := c01RoundPlan{fPropose: "new",
			pvFrom:     map[int][]int{a: {a, b, c}, b: {b, c}, c: {b, c}},
			fPrevote:   map[int]string{a: "prop", b: "nil", c: "nil"},
			fPrecommit: map[int]string{}}
		p1 := c01RoundPlan{fPropose: "new", noProposal: map[int]bool{a: true},
			pvFrom:     map[int][]int{a: {a, b, c}, b: {a, b, c}, c: {a, b, c}},
			fPrevote:   map[int]string{b: "prop", c: "prop"},
			late:       map[int]bool{a: true},
			fPrecommit: map[int]string{}}
		return f, []c01RoundPlan{p0, p1}, "late-polka"
	case 1:
		// "commit without the block, then a conflicting proposal": the faulty proposer of round 0
		// shows its block X to b and c only; everybody sees the polka and the commit for X, so
		// a enters the commit step without the block (and without any proposal); then the
		// proposer sends a second proposal of round 0, for another block, to a.
		f := q[0]
		abc := others(f)
		a, b, c := abc[0], abc[1], abc[2]
		if r.Bool() {
			a, b = b, a
		}
		p0 := c01RoundPlan{fPropose: "new", noProposal: map[int]bool{a: true},
			fPrevote:   map[int]string{a: "prop", b: "prop", c: "prop"},
			fPrecommit: map[int]string{a: "prop", b: "prop", c: "prop"},
			equivocate: map[int]bool{a: true}}
		return f, []c01RoundPlan{p0}, "commit-without-block-then-conflicting-proposal"
	case 3:
		// "commit of an earlier round while waiting for a withheld proposal": everybody passes round 0
		// with nil; in round 1 b proposes X, a misses the proposal and precommits nil while b and c
		// lock X and (with the faulty validator's precommit, kept from a) decide; in round 2 the
		// faulty proposer sends a the Proposal message for another block Z and withholds its parts;
		// only then does a receive the precommit that completes the round-1 commit for X: it must
		// drop Z's part set, fetch X and decide.
		if q[2] == q[1] || q[2] == q[0] {
			break
		}
		f, b := q[2], q[1]
		ac := others(f, b)
		if len(ac) != 2 {
			break
		}
		a, c := ac[0], ac[1]
		if r.Bool() {
			a, c = c, a
		}
		abc := map[int][]int{a: {a, b, c}, b: {a, b, c}, c: {a, b, c}}
		p0 := c01RoundPlan{fPropose: "new", noProposal: map[int]bool{a: true, b: true, c: true},
			pvFrom: abc, fPrevote: map[int]string{a: "nil", b: "nil", c: "nil"},
			pcFrom: abc, fPrecommit: map[int]string{a: "nil", b: "nil", c: "nil"}}
		p1 := c01RoundPlan{fPropose: "new", noProposal: map[int]bool{a: true},
			pvFrom: abc, fPrevote: map[int]string{b: "prop", c: "prop"},
			pcFrom: abc, fPrecommit: map[int]string{b: "prop", c: "prop"}, pcOnly: map[int]bool{a: true}}
		p2 := c01RoundPlan{fPropose: "new", noParts: map[int]bool{a: true}, staleAfter: map[int]bool{a: true}}
		return f, []c01RoundPlan{p0, p1, p2}, "earlier-round-commit-while-awaiting-withheld-proposal"
	}
	{
		// "stale polka after a re-lock": b alone locks X in round 0; a alone locks Y in round 1
		// (the faulty validator's prevote for Y is kept from b and c); in round 2 X is proposed
		// again, b and c lock X and c alone sees the commit for X; then b receives the round-1
		// prevote that completes the stale polka for Y, and Y is proposed in round 3.
		b, a := q[2], q[3]
		f := q[0]
		c := q[1]
		if r.Bool() {
			f, c = q[1], q[0]
		}
		p0 := c01RoundPlan{fPropose: "new",
			pvFrom:   map[int][]int{b: {a, b, c}, a: {a, c}, c: {a, c}},
			fPrevote: map[int]string{b: "prop", a: "nil", c: "nil"}}
		p1 := c01RoundPlan{fPropose: "new",
			pvFrom:   map[int][]int{a: {a, b, c}, b: {a, b, c}, c: {a, b, c}},
			fPrevote: map[int]string{a: "prop"}}
		p2 := c01RoundPlan{fPropose: "re0",
			pvFrom:     map[int][]int{a: {a, b, c}, b: {a, b, c}, c: {a, b, c}},
			fPrevote:   map[int]string{b: "re0", c: "re0"},
			pcFrom:     map[int][]int{a: {a, b, c}, b: {a, b, c}, c: {a, b, c}},
			fPrecommit: map[int]string{c: "re0"}}
		p3 := c01RoundPlan{fPropose: "re1", staleBefore: map[int]bool{b: true},
			pvFrom:     map[int][]int{a: {a, b, c}, b: {a, b, c}, c: {a, b, c}},
			fPrevote:   map[int]string{a: "re1", b: "re1"},
			fPrecommit: map[int]string{a: "re1", b: "re1"}}
		return f, []c01RoundPlan{p0, p1, p2, p3}, "stale-polka-after-relock"
	}
}

// c01RandomPlan: a random round
func c01RandomPlan(r *vg.Rand, net *c01Net, round int32) c01RoundPlan {
	var correct []int
	for _, h := range net.nodes {
		correct = append(correct, h.me)
	}
	subset := func() []int {
		var s []int
		for _, v := range correct {
			if r.Chance(65) {
				s = append(s, v)
			}
		}
		return s
	}
	what := func() string {
		switch r.Intn(4) {
		case 0:
			return "nil"
		case 1:
			if round > 0 {
				return fmt.Sprintf("re%d", r.Intn(int(round)))
			}
		}
		return "prop"
	}
	p := c01RoundPlan{fPropose: "new", noProposal: map[int]bool{}, pvFrom: map[int][]int{}, fPrevote: map[int]string{},
		late: map[int]bool{}, pcFrom: map[int][]int{}, fPrecommit: map[int]string{}, staleBefore: map[int]bool{},
		noParts: map[int]bool{}, staleAfter: map[int]bool{}}
	if round > 0 && r.Chance(40) {
		p.fPropose = fmt.Sprintf("re%d", r.Intn(int(round)))
	}
	for _, v := range correct {
		if r.Chance(15) {
			p.noProposal[v] = true
		}
		if r.Chance(50) {
			p.pvFrom[v] = subset()
		}
		if r.Chance(70) {
			p.fPrevote[v] = what()
		}
		if r.Chance(20) {
			p.late[v] = true
		}
		if r.Chance(60) {
			p.pcFrom[v] = subset()
		}
		if r.Chance(40) {
			p.fPrecommit[v] = what()
		}
		if r.Chance(30) {
			p.staleBefore[v] = true
		}
		if r.Chance(15) {
			p.noParts[v] = true
		}
		if r.Chance(20) {
			p.staleAfter[v] = true
		}
	}
	return p
}

// c01RoundsRun plays `rounds` rounds of height 1: the scripted opening first, random rounds after it
func c01RoundsRun(r *vg.Rand, net *c01Net, pvs []types.MockPV, opening []c01RoundPlan, rounds int) {
	e := &c01Rounds{r: r, net: net, pvs: pvs, height: 1, props: map[int32]types.BlockID{}, fvotes: map[string]msgInfo{}}
	for k := 0; k < rounds; k++ {
		plan := c01RandomPlan(r, net, int32(k))
		if k < len(opening) {
			plan = opening[k]
		} else if k == len(opening) && len(opening) > 0 {
			// right after the opening: whatever was held back arrives somewhere
			for _, h := range net.nodes {
				if r.Bool() {
					plan.staleBefore[h.me] = true
				}
			}
		}
		if !e.round(int32(k), plan) {
			break
		}
	}
}
