//go:build verif

package consensus

// C15, node harness: the repair of a torn WAL tail is part of State.OnStart, so it is driven
// through the REAL State.OnStart here (the operation-list harness in verif_c15_wal_test.go runs
// the real catchupReplay but only a transcription of OnStart's repair loop).
//
// A life: a real single-validator node (consensus.State, BaseWAL, privval.FilePV, kvstore) makes
// blocks and is killed at a PRNG-chosen WAL write index (crashingWAL of replay_test.go: the
// goroutine that writes dies in front of the write).  Then, as a crash does to the bytes that
// were not yet synced, something is left behind the last record of the head: nothing, the first
// n bytes of the frame of a peer's block part that was being written (Write, never synced), that
// whole frame, or that frame with one flipped byte.  The node is restarted through cs.Start() on
// what is on disk (doWALCatchup true, or false as the consensus reactor sets it after block
// sync: the F24 class), commits one or two more heights -- own proposal, votes and #ENDHEIGHT
// markers are written with WriteSync behind whatever the restart left --, and is stopped or
// killed and restarted again.  After every incarnation (node down) a CHECKPOINT is taken with a
// fresh WAL object: the records a sequential reader returns from the first file (kind, height,
// checksum, length of each) and how it ends, and SearchForEndHeight(h) without
// IgnoreDataCorruptionErrors for every height the state store says is committed.  Recorded per
// restart: what cs.Start returned, whether <wal>.CORRUPTED was (re)written, the node's height
// when Start returned.  Coq (TM.C15.Exec, case CNode) evaluates clauses 1 and 3 on the
// checkpoints and decides from the recorded log and the model's start-up (Model.restart on a log
// of the same framing) whether a repair was due.
//
// Teardown follows the C04 WAL harness: the files are touched only after cs.Start has returned
// (or its goroutine was killed inside the replay) AND the receive routine has exited (or was
// killed); a node that cannot be brought down in time makes the life "unclean": no case is
// written for it and its directory is left alone.

import (
	"bytes"
	"context"
	"encoding/binary"
	"fmt"
	"io"
	"os"
	"path/filepath"
	"strings"
	"testing"
	"time"

	dbm "github.com/tendermint/tm-db"

	"github.com/tendermint/tendermint/abci/example/kvstore"
	cfg "github.com/tendermint/tendermint/config"
	"github.com/tendermint/tendermint/crypto/merkle"
	"github.com/tendermint/tendermint/libs/log"
	"github.com/tendermint/tendermint/privval"
	tmproto "github.com/tendermint/tendermint/proto/tendermint/types"
	sm "github.com/tendermint/tendermint/state"
	"github.com/tendermint/tendermint/types"
	tmtime "github.com/tendermint/tendermint/types/time"

	vg "github.com/tendermint/tendermint/internal/verifgen"
)

const c15NodeStopWait = 60 * time.Second

type c15NodeRec struct {
	kind   uint64 // 0 EndHeight, 1 RoundState, 2 timeout, 3 proposal, 4 block part, 5 prevote, 6 precommit, 7 other
	height int64
	crc    uint32
	length int
}

var c15KindNames = []string{"EndHeight", "RoundState", "timeout", "Proposal", "BlockPart", "Prevote", "Precommit", "other"}

func c15Classify(m *TimedWALMessage) (uint64, int64) {
	switch x := m.Msg.(type) {
	case EndHeightMessage:
		return 0, x.Height
	case types.EventDataRoundState:
		return 1, x.Height
	case timeoutInfo:
		return 2, x.Height
	case msgInfo:
		switch y := x.Msg.(type) {
		case *ProposalMessage:
			return 3, y.Proposal.Height
		case *BlockPartMessage:
			return 4, y.Height
		case *VoteMessage:
			if y.Vote.Type == tmproto.PrecommitType {
				return 6, y.Vote.Height
			}
			return 5, y.Vote.Height
		}
	}
	return 7, 0
}

type c15Checkpoint struct {
	committed int64
	recs      []c15NodeRec
	term      uint64   // 0 EOF, 1 corruption, 2 other error
	found     []uint64 // for h = 1..committed: 1 found, 0 not found, 2 error
}

// checkpoint: the node is down; a fresh WAL object reads what is on disk
func c15NodeCheckpoint(conf *cfg.Config, blockDB dbm.DB) (cp c15Checkpoint, err error) {
	st, err := sm.NewStore(blockDB, sm.StoreOptions{}).LoadFromDBOrGenesisFile(conf.GenesisFile())
	if err != nil {
		return cp, err
	}
	cp.committed = st.LastBlockHeight
	wal, err := NewWAL(conf.Consensus.WalFile())
	if err != nil {
		return cp, err
	}
	wal.SetLogger(log.NewNopLogger())
	if err = wal.Start(); err != nil { // the head is never empty here: nothing is written
		return cp, err
	}
	defer func() {
		_ = wal.Stop()
		wal.Wait()
	}()
	gr, err := wal.Group().NewReader(wal.Group().MinIndex())
	if err != nil {
		return cp, err
	}
	rr := &c15Rec{r: gr}
	dec := NewWALDecoder(rr)
	for {
		rr.reads = nil
		m, derr := dec.Decode()
		if derr != nil {
			switch {
			case derr == io.EOF:
				cp.term = 0
			case IsDataCorruptionError(derr):
				cp.term = 1
			default:
				cp.term = 2
			}
			break
		}
		k, h := c15Classify(m)
		rec := c15NodeRec{kind: k, height: h}
		if len(rr.reads) == 3 {
			rec.crc = binary.BigEndian.Uint32(rr.reads[0])
			rec.length = len(rr.reads[2])
		}
		cp.recs = append(cp.recs, rec)
	}
	gr.Close()
	for h := int64(1); h <= cp.committed; h++ {
		g, found, serr := wal.SearchForEndHeight(h, &WALSearchOptions{})
		switch {
		case serr != nil:
			cp.found = append(cp.found, 2)
		case found:
			cp.found = append(cp.found, 1)
		default:
			cp.found = append(cp.found, 0)
		}
		if g != nil {
			g.Close()
		}
	}
	return cp, nil
}

func (cp c15Checkpoint) term3() (string, string, string) {
	rs := make([]string, len(cp.recs))
	for i, r := range cp.recs {
		rs[i] = vg.App("NR", vg.N(r.kind), vg.Z(r.height), vg.N(uint64(r.crc)), vg.Z(int64(r.length)))
	}
	fs := make([]string, len(cp.found))
	for i, f := range cp.found {
		fs[i] = vg.N(f)
	}
	return vg.L(rs), vg.N(cp.term), vg.L(fs)
}

func (cp c15Checkpoint) text() string {
	var b strings.Builder
	last := ""
	n := 0
	flush := func() {
		if n > 1 {
			fmt.Fprintf(&b, "x%d", n)
		}
	}
	for _, r := range cp.recs {
		s := fmt.Sprintf("%s/%d", c15KindNames[r.kind], r.height)
		if s == last {
			n++
			continue
		}
		flush()
		if last != "" {
			b.WriteString(" ")
		}
		b.WriteString(s)
		last, n = s, 1
	}
	flush()
	ends := []string{"EOF", "DataCorruptionError", "error"}[cp.term]
	return fmt.Sprintf("committed=%d; sequential reader: %d records then %s [%s]; SearchForEndHeight(1..%d)=%v",
		cp.committed, len(cp.recs), ends, b.String(), cp.committed, cp.found)
}

type c15Backup struct {
	exists bool
	size   int64
	mod    time.Time
}

func c15BackupStat(conf *cfg.Config) c15Backup {
	fi, err := os.Stat(conf.Consensus.WalFile() + ".CORRUPTED")
	if err != nil {
		return c15Backup{}
	}
	return c15Backup{true, fi.Size(), fi.ModTime()}
}

type c15NodeRun struct {
	startRes uint64 // 0 cs.Start returned nil, 1 it returned an error, 2 its goroutine was killed inside the replay
	startErr string
	backup   bool   // <wal>.CORRUPTED was written by this incarnation
	height   int64  // the node's height when Start returned (0: not known)
	ended    uint64 // 0 stopped cleanly after the blocks asked for, 1 killed at a WAL write, 2 reached the height to stop, 3 no block in time (halted), 4 start failed
	unclean  bool
}

// c15NodeIncarnation starts a node on what is on disk and in the stores.  crashAt > 0: the WAL kills
// the writing goroutine in front of write number crashAt (not counting #ENDHEIGHT), or in front of
// #ENDHEIGHT heightToStop; crashAt == 0: the node runs on the WAL State.OnStart opens itself and is
// stopped cleanly after `blocks` new blocks.
func c15NodeIncarnation(t *testing.T, conf *cfg.Config, blockDB dbm.DB, crashAt int, heightToStop int64, blocks int, catchup bool) (run c15NodeRun) {
	stateStore := sm.NewStore(blockDB, sm.StoreOptions{DiscardABCIResponses: false})
	state, err := stateStore.LoadFromDBOrGenesisFile(conf.GenesisFile())
	if err != nil {
		t.Fatal(err)
	}
	pv := privval.LoadFilePV(conf.PrivValidatorKeyFile(), conf.PrivValidatorStateFile())
	cs := newStateWithConfigAndBlockStore(conf, state, pv, kvstore.NewApplication(), blockDB)
	cs.SetLogger(log.NewNopLogger())
	cs.doWALCatchup = catchup
	before := c15BackupStat(conf)
	walPanicked := make(chan error, 1)
	var csWal WAL
	if crashAt > 0 {
		csWal, err = cs.OpenWAL(cs.config.WalFile())
		if err != nil {
			t.Fatal(err)
		}
		cs.wal = &crashingWAL{panicCh: walPanicked, heightToStop: heightToStop, next: csWal,
			msgIndex: 1, lastPanickedForMsgIndex: crashAt - 1}
	}
	newBlockSub, err := cs.eventBus.Subscribe(context.Background(), "verif-c15", types.EventQueryNewBlock, 100)
	if err != nil {
		t.Fatal(err)
	}
	type startResult struct {
		err    error
		height int64
	}
	startCh := make(chan startResult, 1)
	go func() {
		err := cs.Start()
		h := int64(0)
		if err == nil {
			h = cs.GetRoundState().Height
		}
		startCh <- startResult{err, h}
	}()
	started, startFailed, dead := false, false, false
	seen := 0
	onStart := func(r startResult) {
		if r.err != nil {
			startFailed = true
			run.startRes = 1
			run.startErr = strings.SplitN(r.err.Error(), "\n", 2)[0]
		} else {
			started = true
			run.height = r.height
		}
	}
	wait := 20 * time.Second
	if crashAt == 0 {
		wait = 6 * time.Second // no block by then: the signer refuses what the surviving log makes the node ask for
	}
	deadline := time.After(wait)
	done := false
	for !done {
		select {
		case r := <-startCh:
			onStart(r)
			if startFailed {
				run.ended = 4
				done = true
			}
		case e := <-walPanicked:
			dead = true
			run.ended = 1
			if _, ok := e.(ReachedHeightToStopError); ok {
				run.ended = 2
			}
			done = true
		case <-newBlockSub.Out():
			seen++
			// crashAt > 0 and OnStart repaired the WAL: the crashing wrapper is gone, end by blocks
			if seen >= blocks && (crashAt == 0 || seen >= blocks+3) {
				run.ended = 0
				done = true
			}
		case <-deadline:
			run.ended = 3
			done = true
		}
	}
	// ---- bring the node down, THEN let go of its files
	if !started && !startFailed && !dead {
		select {
		case r := <-startCh:
			onStart(r)
		case <-walPanicked:
			dead = true
		case <-time.After(c15NodeStopWait):
			run.unclean = true
		}
	}
	if dead && !started {
		run.startRes = 2
	}
	cs.Stop() //nolint:errcheck
	switch {
	case startFailed:
		cs.wal.Stop() //nolint:errcheck // OnStart leaves the WAL it opened running when it fails
		cs.wal.Wait()
	case dead:
		// the killed goroutine cannot stop the WAL any more; its buffered tail reaches the file
		csWal.Stop() //nolint:errcheck
		csWal.Wait()
	case started:
		stopped := make(chan struct{})
		go func() { cs.Wait(); close(stopped) }() // closed by the receive routine when it returns (it stops the WAL)
		select {
		case <-stopped:
		case <-time.After(c15NodeStopWait):
			run.unclean = true
		}
		if crashAt > 0 && !run.unclean {
			// a repair inside OnStart replaced the wrapper: the WAL opened by the harness is stopped
			// already (OnStart stops it before the repair) or by the receive routine; make sure
			csWal.Stop() //nolint:errcheck
		}
	}
	_ = cs.eventBus.Stop()
	after := c15BackupStat(conf)
	run.backup = after.exists && (!before.exists || after.size != before.size || !after.mod.Equal(before.mod))
	return run
}

// what a crash leaves behind the last record: the frame of a peer's block part for the node's
// height (Write, unsynced) -- nothing of it, its first n bytes, all of it, all of it with one
// byte flipped.  Returns the kind, n, the payload length and the offset of the flipped byte.
func c15NodeTail(conf *cfg.Config, r *vg.Rand, kind int, h int64) (n, plen, off int, err error) {
	var rec bytes.Buffer
	part := &types.Part{Index: 0, Bytes: r.Bytes(20 + r.Intn(200)),
		Proof: merkle.Proof{Total: 1, Index: 0, LeafHash: r.Bytes(32)}}
	if err = NewWALEncoder(&rec).Encode(&TimedWALMessage{Time: tmtime.Now(),
		Msg: msgInfo{Msg: &BlockPartMessage{Height: h, Round: 0, Part: part}, PeerID: "peer"}}); err != nil {
		return
	}
	frame := rec.Bytes()
	plen = len(frame) - 8
	switch kind {
	case 0:
		return 0, plen, 0, nil
	case 1:
		// mostly inside the payload, sometimes inside the 8-byte header
		if r.Chance(30) {
			n = 1 + r.Intn(8)
		} else {
			n = 1 + r.Intn(len(frame)-1)
		}
		frame = frame[:n]
	case 2:
		n = len(frame)
	case 3:
		n = len(frame)
		off = r.Intn(len(frame))
		frame[off] ^= 1
	}
	f, err := os.OpenFile(conf.Consensus.WalFile(), os.O_WRONLY|os.O_APPEND, 0o600)
	if err != nil {
		return
	}
	if _, err = f.Write(frame); err == nil {
		err = f.Sync()
	}
	if cerr := f.Close(); err == nil {
		err = cerr
	}
	return
}

func TestVerifC15Node(t *testing.T) {
	root := vg.NewRand(vg.Seed() ^ 0xc15e)
	cs := vg.NewCases("C15", "c15_node", "TM.C15.Exec")
	lives := vg.Scale(6, 120)
	if old, err := filepath.Glob(filepath.Join(os.TempDir(), "*verif_c15_node_*")); err == nil {
		for _, d := range old {
			if st, err := os.Stat(d); err == nil && time.Since(st.ModTime()) > time.Hour {
				os.RemoveAll(d)
			}
		}
	}
	tailText := func(tk, n, flen, off int) string {
		switch tk {
		case 1:
			return fmt.Sprintf("the first %d bytes of a %d-byte frame (peer block part, unsynced)", n, flen)
		case 2:
			return fmt.Sprintf("a whole %d-byte frame (peer block part, unsynced)", flen)
		case 3:
			return fmt.Sprintf("a whole %d-byte frame (peer block part, unsynced) with the byte at offset %d flipped", flen, off)
		}
		return "nothing"
	}
	for k := 0; k < lives; k++ {
		id := cs.NextID()
		if !cs.Want(id) {
			continue
		}
		r := root.Fork(uint64(k))
		conf := ResetConfig(fmt.Sprintf("verif_c15_node_%d", k))
		func() {
			blockDB := dbm.NewMemDB()
			var stages, descr []string
			unclean := false
			kind := "node"
			nRestarts := 1 + r.Intn(2)
			// directed mixture: the first lives cover every tail kind with catch-up on, and the F24 class
			tailKind := []int{1, 1, 3, 0, 2, 1}[k%6]
			if k >= 6 {
				tailKind = []int{1, 1, 1, 3, 0, 2}[r.Intn(6)]
			}
			catchup := !(k%6 == 5 || (k >= 6 && r.Chance(15)))
			heightToStop := int64(1 + r.Intn(3))
			crashAt := 1 + r.Intn(int(heightToStop)*9)
			add := func(start string, run c15NodeRun, cp c15Checkpoint, text string) {
				recs, term, found := cp.term3()
				stages = append(stages, vg.App("NStage", start, vg.N(run.startRes), vg.B(run.backup), vg.Z(run.height),
					vg.N(run.ended), vg.Z(cp.committed), recs, term, found))
				ends := []string{"stopped cleanly", "killed at a WAL write", "killed in front of #ENDHEIGHT (height to stop)", "made no block in time", "start failed"}[run.ended]
				sr := []string{"cs.Start()=nil", "cs.Start()=error(" + run.startErr + ")", "cs.Start() killed inside the replay"}[run.startRes]
				descr = append(descr, fmt.Sprintf("%s: %s, <wal>.CORRUPTED written=%v, height after start=%d, %s; checkpoint: %s",
					text, sr, run.backup, run.height, ends, cp.text()))
				cs.Count("node/ended="+ends, 1)
			}
			run := c15NodeIncarnation(t, conf, blockDB, crashAt, heightToStop, 0, true)
			if run.unclean {
				unclean = true
			}
			var cp c15Checkpoint
			var err error
			if !unclean {
				if cp, err = c15NodeCheckpoint(conf, blockDB); err != nil {
					t.Fatalf("life %d: %v", k, err)
				}
				add("NFirst", run, cp, fmt.Sprintf("fresh node, killed in front of WAL write #%d (or #ENDHEIGHT %d)", crashAt, heightToStop))
			}
			for i := 0; i < nRestarts && !unclean && run.ended != 4; i++ {
				tk, cu := tailKind, catchup
				if i > 0 {
					tk = []int{0, 1, 1, 2, 3}[r.Intn(5)]
					cu = !r.Chance(10)
				}
				h := cp.committed + 1
				n, plen, off, err := c15NodeTail(conf, r, tk, h)
				if err != nil {
					t.Fatalf("life %d: %v", k, err)
				}
				last := i == nRestarts-1
				crash2, stop2, blocks := 0, int64(0), 1+r.Intn(2)
				if !last {
					crash2 = 1 + r.Intn(12)
					stop2 = h + 1
				}
				run = c15NodeIncarnation(t, conf, blockDB, crash2, stop2, blocks, cu)
				if run.unclean {
					unclean = true
					break
				}
				if cp, err = c15NodeCheckpoint(conf, blockDB); err != nil {
					t.Fatalf("life %d: %v", k, err)
				}
				how := fmt.Sprintf("stopped after %d new block(s)", blocks)
				if crash2 > 0 {
					how = fmt.Sprintf("killed in front of WAL write #%d (or #ENDHEIGHT %d; stopped after %d blocks if OnStart re-opened the WAL)", crash2, stop2, blocks+3)
				}
				add(vg.App("NRestart", vg.B(cu), vg.N(uint64(tk)), vg.Z(int64(n)), vg.Z(int64(plen)), vg.Z(int64(off))), run, cp,
					fmt.Sprintf("crash left behind the last record: %s; restart at height %d through State.OnStart (doWALCatchup=%v), %s",
						tailText(tk, n, plen+8, off), h, cu, how))
				cs.Count(fmt.Sprintf("node/tail=%d/catchup=%v", tk, cu), 1)
				if run.backup {
					cs.Count("node/repaired", 1)
				}
			}
			if unclean {
				cs.Count("node/did-not-stop", 1)
				return // no case; the directory is left to the node that is still alive
			}
			os.RemoveAll(conf.RootDir)
			if !catchup {
				kind += "+nocatchup"
			}
			cs.Add(id, kind, len(stages) >= 2, vg.App("CNode", vg.L(stages)), strings.Join(descr, "\n  "))
		}()
	}
	if err := cs.Write(); err != nil {
		t.Fatal(err)
	}
}
