//go:build verif

package consensus

// C02 (and C01/C03) correspondence harness: a real consensus.State is driven synchronously —
// handleMsg / handleTimeout are called directly and the internal message queue is drained in
// FIFO order, which is what receiveRoutine does minus the goroutine — with generated
// sequences of real signed proposals, real block parts, real votes of stub validators
// (equivocating, from other rounds/heights, with bad signatures/indices) and timeouts that were
// scheduled earlier.  After every input the projected round state and everything the node
// signed / scheduled / decided is written out for the Coq model (TM.C02.Exec).

import (
	"bytes"
	"fmt"
	"sort"
	"strings"
	"testing"
	"time"

	dbm "github.com/tendermint/tm-db"

	"github.com/tendermint/tendermint/abci/example/kvstore"
	cfg "github.com/tendermint/tendermint/config"
	cstypes "github.com/tendermint/tendermint/consensus/types"
	"github.com/tendermint/tendermint/crypto/ed25519"
	vg "github.com/tendermint/tendermint/internal/verifgen"
	"github.com/tendermint/tendermint/libs/log"
	"github.com/tendermint/tendermint/p2p"
	tmproto "github.com/tendermint/tendermint/proto/tendermint/types"
	sm "github.com/tendermint/tendermint/state"
	"github.com/tendermint/tendermint/types"
	tmtime "github.com/tendermint/tendermint/types/time"
)

// ---------------------------------------------------------------- recording stubs

type c02Rec struct {
	outs []string
}

type c02PV struct {
	types.MockPV
	rec *c02Rec
	h   *c02Harness
}

func (pv *c02PV) SignVote(chainID string, vote *tmproto.Vote) error {
	if err := pv.MockPV.SignVote(chainID, vote); err != nil {
		return err
	}
	bid, err := types.BlockIDFromProto(&vote.BlockID)
	if err != nil {
		return err
	}
	pv.rec.outs = append(pv.rec.outs, vg.App("OSignVote", vg.N(uint64(vote.Type)), vg.Z(vote.Height), vg.Z(int64(vote.Round)), pv.h.bid(*bid)))
	return nil
}

func (pv *c02PV) SignProposal(chainID string, p *tmproto.Proposal) error {
	if err := pv.MockPV.SignProposal(chainID, p); err != nil {
		return err
	}
	// reuse: the proposal is for the node's valid block (decided from what was actually signed)
	reuse := "None"
	if vb := pv.h.cs.ValidBlock; vb != nil && bytes.Equal(p.BlockID.Hash, vb.Hash()) {
		reuse = "(Some " + vg.N(pv.h.hashID(vb.Hash())) + ")"
	}
	pv.rec.outs = append(pv.rec.outs, vg.App("OSignProposal", vg.Z(p.Height), vg.Z(int64(p.Round)), vg.Z(int64(p.PolRound)), reuse))
	return nil
}

type c02Ticker struct {
	rec       *c02Rec
	scheduled []timeoutInfo
	c         chan timeoutInfo
}

func (t *c02Ticker) Start() error             { return nil }
func (t *c02Ticker) Stop() error              { return nil }
func (t *c02Ticker) Chan() <-chan timeoutInfo { return t.c }
func (t *c02Ticker) SetLogger(log.Logger)     {}
func (t *c02Ticker) ScheduleTimeout(ti timeoutInfo) {
	t.scheduled = append(t.scheduled, ti)
	t.rec.outs = append(t.rec.outs, vg.App("OSchedule", vg.Z(ti.Height), vg.Z(int64(ti.Round)), c02Step(ti.Step)))
}

func c02Step(s cstypes.RoundStepType) string {
	switch s {
	case cstypes.RoundStepNewHeight:
		return "SNewHeight"
	case cstypes.RoundStepNewRound:
		return "SNewRound"
	case cstypes.RoundStepPropose:
		return "SPropose"
	case cstypes.RoundStepPrevote:
		return "SPrevote"
	case cstypes.RoundStepPrevoteWait:
		return "SPrevoteWait"
	case cstypes.RoundStepPrecommit:
		return "SPrecommit"
	case cstypes.RoundStepPrecommitWait:
		return "SPrecommitWait"
	default:
		return "SCommit"
	}
}

// ---------------------------------------------------------------- harness state

type c02Block struct {
	block *types.Block
	parts *types.PartSet
	valid bool
	hid   uint64
}

type c02Harness struct {
	cs           *State
	rec          *c02Rec
	ticker       *c02Ticker
	pvs          []types.MockPV // by validator index
	me           int
	hashIDs      map[string]uint64
	pshIDs       map[string]uint64
	sigIDs       map[string]uint64
	byPSH        map[string]*c02Block // real blocks by part-set-header hash
	cands        map[int64][]*c02Block
	steps        []string
	descr        []string
	panicked     bool
	props        map[int64][]int64
	lastH        int64
	decided      int
	kinds        map[string]int
	onOwn        func(mi msgInfo) // called for every message the node put on its internal queue
	hardCap      int
	got          []msgInfo // messages delivered from the network (C01/C03 harness)
	lockedAtSync bool
	net          *c01Net
}

func (h *c02Harness) hashID(b []byte) uint64 {
	if len(b) == 0 {
		return 0
	}
	k := string(b)
	if id, ok := h.hashIDs[k]; ok {
		return id
	}
	id := uint64(len(h.hashIDs) + 1)
	h.hashIDs[k] = id
	return id
}
func (h *c02Harness) pshID(b []byte) uint64 {
	if len(b) == 0 {
		return 0
	}
	k := string(b)
	if id, ok := h.pshIDs[k]; ok {
		return id
	}
	id := uint64(len(h.pshIDs) + 1)
	h.pshIDs[k] = id
	return id
}
func (h *c02Harness) psh(p types.PartSetHeader) string {
	return vg.Tup(vg.N(uint64(p.Total)), vg.N(h.pshID(p.Hash)))
}
func (h *c02Harness) bid(b types.BlockID) string {
	if b.IsZero() {
		return "None"
	}
	return "(Some " + vg.Tup(vg.N(h.hashID(b.Hash)), h.psh(b.PartSetHeader)) + ")"
}
func (h *c02Harness) bidNN(b types.BlockID) string { // non-nil block id (proposal)
	return vg.Tup(vg.N(h.hashID(b.Hash)), h.psh(b.PartSetHeader))
}

func (h *c02Harness) register(b *types.Block, ps *types.PartSet) *c02Block {
	key := string(ps.Header().Hash)
	if e, ok := h.byPSH[key]; ok {
		return e
	}
	valid := h.cs.blockExec.ValidateBlock(h.cs.state, b) == nil
	e := &c02Block{block: b, parts: ps, valid: valid, hid: h.hashID(b.Hash())}
	h.byPSH[key] = e
	return e
}

func (h *c02Harness) proposerIdx(vals *types.ValidatorSet) int64 {
	idx, _ := vals.GetByAddress(vals.GetProposer().Address)
	return int64(idx)
}

// table of proposers for the current height (one-shot increments from the height's set)
func (h *c02Harness) ensureProposers() {
	ht := h.cs.Height
	if _, ok := h.props[ht]; ok {
		return
	}
	var row []int64
	for r := int32(0); r < 24; r++ {
		vs := h.cs.state.Validators.Copy()
		if r > 0 {
			vs.IncrementProposerPriority(r)
		}
		row = append(row, h.proposerIdx(vs))
	}
	h.props[ht] = row
}

// candidate blocks for the current height: a few valid ones with different txs and an invalid one
func (h *c02Harness) candidates(r *vg.Rand) []*c02Block {
	ht := h.cs.Height
	if c, ok := h.cands[ht]; ok {
		return c
	}
	var commit *types.Commit
	if ht == h.cs.state.InitialHeight {
		commit = types.NewCommit(0, 0, types.BlockID{}, nil)
	} else if h.cs.LastCommit != nil && h.cs.LastCommit.HasTwoThirdsMajority() {
		commit = h.cs.LastCommit.MakeCommit()
	} else {
		return nil
	}
	var out []*c02Block
	for k := 0; k < 3; k++ {
		pk, _ := h.pvs[(h.me+1+k)%len(h.pvs)].GetPubKey()
		txs := []types.Tx{types.Tx(fmt.Sprintf("k%d-%d=v%d", ht, k, r.Intn(1000)))}
		b, ps := h.cs.state.MakeBlock(ht, txs, commit, nil, pk.Address())
		out = append(out, h.register(b, ps))
	}
	// an invalid block: wrong app hash
	pk, _ := h.pvs[(h.me+1)%len(h.pvs)].GetPubKey()
	b, _ := h.cs.state.MakeBlock(ht, []types.Tx{types.Tx("bad=1")}, commit, nil, pk.Address())
	b.Header.AppHash = []byte("not-the-app-hash-not-the-app-hash")[:32]
	ps := b.MakePartSet(types.BlockPartSizeBytes)
	out = append(out, h.register(b, ps))
	h.cands[ht] = out
	return out
}

func (h *c02Harness) obs() string {
	cs := h.cs
	ob := func(b *types.Block) string {
		if b == nil {
			return vg.N(0)
		}
		return vg.N(h.hashID(b.Hash()))
	}
	pparts := "None"
	if cs.ProposalBlockParts != nil {
		pparts = "(Some " + h.psh(cs.ProposalBlockParts.Header()) + ")"
	}
	proposer := int64(-1)
	if cs.Validators != nil && cs.Validators.GetProposer() != nil {
		proposer = h.proposerIdx(cs.Validators)
	}
	return vg.App("Build_obs", vg.Z(cs.Height), vg.Z(int64(cs.Round)), vg.Z(int64(cs.Step)),
		vg.Z(int64(cs.LockedRound)), ob(cs.LockedBlock), vg.Z(int64(cs.ValidRound)), ob(cs.ValidBlock),
		ob(cs.ProposalBlock), pparts, vg.Z(int64(cs.CommitRound)), vg.B(cs.TriggeredTimeoutPrecommit),
		vg.B(cs.Proposal != nil), vg.L(h.rec.outs), vg.B(h.panicked), vg.Z(proposer))
}

// deliver one input to the real state machine, record the observation, then drain the
// internal queue (own proposal, parts, votes) in order, each as a further input
func (h *c02Harness) deliver(term, descr string, fn func()) {
	if h.panicked {
		return
	}
	h.rec.outs = nil
	storeBefore := h.cs.blockStore.Height()
	func() {
		defer func() {
			if r := recover(); r != nil {
				h.panicked = true
				h.rec.outs = append(h.rec.outs, "(OPanic 0%N)")
				descr += fmt.Sprintf(" => PANIC %v", r)
			}
		}()
		fn()
	}()
	if !h.panicked && h.cs.blockStore.Height() > storeBefore {
		ht := h.cs.blockStore.Height()
		sc := h.cs.blockStore.LoadSeenCommit(ht)
		meta := h.cs.blockStore.LoadBlockMeta(ht)
		dec := vg.App("ODecide", vg.Z(ht), vg.Z(int64(sc.Round)), vg.N(h.hashID(meta.BlockID.Hash)))
		// place it before the schedule of the next height's round 0
		idx := len(h.rec.outs)
		for i, o := range h.rec.outs {
			if strings.HasPrefix(o, "(OSchedule "+vg.Z(ht+1)+" ") {
				idx = i
				break
			}
		}
		outs := append([]string{}, h.rec.outs[:idx]...)
		outs = append(outs, dec)
		outs = append(outs, h.rec.outs[idx:]...)
		h.rec.outs = outs
		h.decided++
	}
	if !h.panicked {
		h.ensureProposers()
	}
	h.steps = append(h.steps, vg.Tup(term, h.obs()))
	h.descr = append(h.descr, descr)
	if h.panicked {
		return
	}
	// drain the internal queue
	var pending []msgInfo
	for {
		select {
		case mi := <-h.cs.internalMsgQueue:
			pending = append(pending, mi)
			continue
		default:
		}
		break
	}
	// assemble own proposed blocks first so that their identity is known
	for _, mi := range pending {
		if pm, ok := mi.Msg.(*ProposalMessage); ok {
			hdr := pm.Proposal.BlockID.PartSetHeader
			if _, known := h.byPSH[string(hdr.Hash)]; !known {
				ps := types.NewPartSetFromHeader(hdr)
				for _, mj := range pending {
					if bp, ok := mj.Msg.(*BlockPartMessage); ok {
						ps.AddPart(bp.Part) //nolint:errcheck
					}
				}
				if ps.IsComplete() {
					if blk, err := c02Decode(ps); err == nil {
						h.register(blk, ps)
					}
				}
			}
		}
	}
	for _, mi := range pending {
		mi := mi
		if len(h.steps) >= h.hardCap { // a one-validator chain runs by itself: stop feeding it
			break
		}
		if h.onOwn != nil {
			h.onOwn(mi)
		}
		t, d := h.inputTerm(mi)
		h.deliver(t, "internal: "+d, func() { h.cs.handleMsg(mi) })
	}
}

const c02HardCap = 110

func c02Decode(ps *types.PartSet) (*types.Block, error) {
	var buf bytes.Buffer
	if _, err := buf.ReadFrom(ps.GetReader()); err != nil {
		return nil, err
	}
	pbb := new(tmproto.Block)
	if err := pbb.Unmarshal(buf.Bytes()); err != nil {
		return nil, err
	}
	return types.BlockFromProto(pbb)
}

func (h *c02Harness) peerN(id p2p.ID) uint64 {
	if id == "" {
		return 0
	}
	n := uint64(0)
	fmt.Sscanf(string(id), "p%d", &n)
	return n
}

func (h *c02Harness) voteTerm(v *types.Vote, peer p2p.ID) (string, string) {
	ok := false
	addrN := uint64(0)
	if len(v.ValidatorAddress) > 0 {
		addrN = 1000 // an address that belongs to nobody
		for i, pv := range h.pvs {
			pk, _ := pv.GetPubKey()
			if bytes.Equal(pk.Address(), v.ValidatorAddress) {
				addrN = uint64(i + 1)
			}
		}
	}
	if v.ValidatorIndex >= 0 && int(v.ValidatorIndex) < len(h.pvs) {
		pk, _ := h.pvs[v.ValidatorIndex].GetPubKey()
		ok = v.Verify(h.cs.state.ChainID, pk) == nil
	}
	sk := string(v.Signature)
	sid, found := h.sigIDs[sk]
	if !found {
		sid = uint64(len(h.sigIDs) + 1)
		h.sigIDs[sk] = sid
	}
	t := vg.App("IVote", vg.App("Build_vote", vg.N(uint64(v.Type)), vg.Z(v.Height), vg.Z(int64(v.Round)), h.bid(v.BlockID),
		vg.Z(int64(v.ValidatorIndex)), vg.N(addrN), vg.N(sid), vg.B(ok)), vg.N(h.peerN(peer)))
	d := fmt.Sprintf("vote{type %d h %d r %d block %s val %d sigok %v} from %q", v.Type, v.Height, v.Round, h.bid(v.BlockID), v.ValidatorIndex, ok, peer)
	return t, d
}

func (h *c02Harness) proposalTerm(p *types.Proposal) (string, string) {
	signer := int64(-1)
	sb := types.ProposalSignBytes(h.cs.state.ChainID, p.ToProto())
	for i, pv := range h.pvs {
		pk, _ := pv.GetPubKey()
		if pk.VerifySignature(sb, p.Signature) {
			signer = int64(i)
		}
	}
	t := vg.App("IProposal", vg.App("Build_proposal", vg.Z(p.Height), vg.Z(int64(p.Round)), vg.Z(int64(p.POLRound)),
		h.bidNN(p.BlockID), vg.Z(signer), vg.B(signer >= 0)))
	d := fmt.Sprintf("proposal{h %d r %d polr %d block %s signer %d}", p.Height, p.Round, p.POLRound, h.bidNN(p.BlockID), signer)
	return t, d
}

func (h *c02Harness) partTerm(height int64, hdr types.PartSetHeader, idx uint32) (string, string) {
	dec := "None"
	if e, ok := h.byPSH[string(hdr.Hash)]; ok {
		// validity is what ValidateBlock says against THIS node's state now (a block of another
		// height is not valid at this one), not what it was when the block was made
		valid := e.valid
		if h.cs != nil && h.cs.blockExec != nil {
			valid = h.cs.blockExec.ValidateBlock(h.cs.state, e.block) == nil
		}
		dec = "(Some " + vg.App("Build_block", vg.N(e.hid), vg.B(valid)) + ")"
	}
	t := vg.App("IPart", vg.Z(height), h.psh(hdr), vg.N(uint64(idx)), dec)
	return t, fmt.Sprintf("part{h %d set %s idx %d}", height, h.psh(hdr), idx)
}

func (h *c02Harness) inputTerm(mi msgInfo) (string, string) {
	switch m := mi.Msg.(type) {
	case *VoteMessage:
		return h.voteTerm(m.Vote, mi.PeerID)
	case *ProposalMessage:
		return h.proposalTerm(m.Proposal)
	case *BlockPartMessage:
		// the header this part belongs to: the set whose root its proof reaches
		for _, e := range h.byPSH {
			if int(m.Part.Index) < int(e.parts.Total()) && m.Part.Proof.Verify(e.parts.Hash(), m.Part.Bytes) == nil {
				return h.partTerm(m.Height, e.parts.Header(), m.Part.Index)
			}
		}
		return h.partTerm(m.Height, types.PartSetHeader{Total: uint32(m.Part.Proof.Total), Hash: m.Part.Proof.LeafHash}, m.Part.Index)
	}
	return "ERROR", "?"
}

// ---------------------------------------------------------------- message makers

func (h *c02Harness) mkVote(r *vg.Rand, idx int, ty tmproto.SignedMsgType, height int64, round int32, bid types.BlockID) *types.Vote {
	pk, _ := h.pvs[idx].GetPubKey()
	v := &types.Vote{
		ValidatorIndex: int32(idx), ValidatorAddress: pk.Address(),
		Height: height, Round: round, Timestamp: tmtime.Now(), Type: ty, BlockID: bid,
	}
	p := v.ToProto()
	if err := h.pvs[idx].SignVote(h.cs.state.ChainID, p); err != nil {
		panic(err)
	}
	v.Signature = p.Signature
	return v
}

func (h *c02Harness) sendVote(v *types.Vote, peer p2p.ID, kind string) {
	h.kinds[kind]++
	mi := msgInfo{&VoteMessage{v}, peer}
	t, d := h.voteTerm(v, peer)
	h.deliver(t, d, func() { h.cs.handleMsg(mi) })
}

func (h *c02Harness) sendProposal(signer int, height int64, round, polr int32, bid types.BlockID, breakSig bool, kind string) {
	h.kinds[kind]++
	p := types.NewProposal(height, round, polr, bid)
	pp := p.ToProto()
	if err := h.pvs[signer].SignProposal(h.cs.state.ChainID, pp); err != nil {
		panic(err)
	}
	p.Signature = pp.Signature
	if breakSig {
		p.Signature = append([]byte{}, p.Signature...)
		p.Signature[3] ^= 0x40
	}
	mi := msgInfo{&ProposalMessage{p}, "p1"}
	t, d := h.proposalTerm(p)
	h.deliver(t, d, func() { h.cs.handleMsg(mi) })
}

func (h *c02Harness) sendPart(height int64, round int32, e *c02Block, idx int, kind string) {
	h.kinds[kind]++
	part := e.parts.GetPart(idx)
	mi := msgInfo{&BlockPartMessage{height, round, part}, "p1"}
	t, d := h.partTerm(height, e.parts.Header(), part.Index)
	h.deliver(t, d, func() { h.cs.handleMsg(mi) })
}

func (h *c02Harness) fire(ti timeoutInfo, kind string) {
	h.kinds[kind]++
	t := vg.App("ITimeout", vg.App("Build_tinfo", vg.Z(ti.Height), vg.Z(int64(ti.Round)), c02Step(ti.Step)))
	h.deliver(t, fmt.Sprintf("timeout{h %d r %d %s}", ti.Height, ti.Round, c02Step(ti.Step)), func() {
		h.cs.handleTimeout(ti, h.cs.RoundState)
	})
}

// ---------------------------------------------------------------- one history

// c02Genesis builds a genesis state with the given powers; pvs are ordered by validator index.
func c02Genesis(r *vg.Rand, n int, powers []int64) (sm.State, []types.MockPV) {
	vals := make([]types.GenesisValidator, n)
	pvByAddr := map[string]types.MockPV{}
	for i := 0; i < n; i++ {
		pv := types.NewMockPVWithParams(ed25519.GenPrivKeyFromSecret(r.Bytes(16)), false, false)
		pk, _ := pv.GetPubKey()
		vals[i] = types.GenesisValidator{PubKey: pk, Power: powers[i]}
		pvByAddr[string(pk.Address())] = pv
	}
	genDoc := &types.GenesisDoc{GenesisTime: tmtime.Now().Add(-time.Hour), InitialHeight: 1, ChainID: config.ChainID(), Validators: vals}
	state, err := sm.MakeGenesisState(genDoc)
	if err != nil {
		panic(err)
	}
	pvs := make([]types.MockPV, n)
	for i, v := range state.Validators.Validators {
		pvs[i] = pvByAddr[string(v.Address)]
	}
	return state, pvs
}

// c02NewNode builds one real consensus.State for validator index me (or an observer if me < 0).
// Nodes of one network share the id tables of [shared] so that block/signature ids agree.
func c02NewNode(r *vg.Rand, state sm.State, pvs []types.MockPV, me int, skip bool, shared *c02Harness) *c02Harness {
	h := &c02Harness{rec: &c02Rec{}, hashIDs: map[string]uint64{}, pshIDs: map[string]uint64{}, sigIDs: map[string]uint64{},
		byPSH: map[string]*c02Block{}, cands: map[int64][]*c02Block{}, props: map[int64][]int64{}, kinds: map[string]int{}}
	if shared != nil {
		h.hashIDs, h.pshIDs, h.sigIDs, h.byPSH, h.props = shared.hashIDs, shared.pshIDs, shared.sigIDs, shared.byPSH, shared.props
	}
	h.pvs = pvs
	h.me = me
	h.hardCap = c02HardCap
	thisConfig := cfg.ResetTestRoot("verif_c02")
	thisConfig.Consensus.SkipTimeoutCommit = skip
	thisConfig.Consensus.CreateEmptyBlocks = true
	thisConfig.Consensus.CreateEmptyBlocksInterval = 0
	var pv types.PrivValidator
	if me >= 0 {
		pv = &c02PV{MockPV: h.pvs[h.me], rec: h.rec, h: h}
	} else {
		outsider := types.NewMockPVWithParams(ed25519.GenPrivKeyFromSecret(r.Bytes(16)), false, false)
		pv = &c02PV{MockPV: outsider, rec: h.rec, h: h}
	}
	cs := newStateWithConfigAndBlockStore(thisConfig, state.Copy(), pv, kvstore.NewApplication(), dbm.NewMemDB())
	cs.SetLogger(log.NewNopLogger())
	h.cs = cs
	h.ticker = &c02Ticker{rec: h.rec, c: make(chan timeoutInfo, 1)}
	cs.SetTimeoutTicker(h.ticker)
	// nobody reads the stats queue when the reactor is absent
	go func() {
		for range cs.statsMsgQueue {
		}
	}()
	h.rec.outs = nil
	cs.scheduleRound0(&cs.RoundState) // what OnStart does
	h.rec.outs = nil
	h.ensureProposers()
	return h
}

func c02NewHarness(r *vg.Rand, n int, powers []int64, meValidator bool, skip bool) *c02Harness {
	state, pvs := c02Genesis(r, n, powers)
	me := r.Intn(n)
	if !meValidator {
		me = -1
	}
	return c02NewNode(r, state, pvs, me, skip, nil)
}

func (h *c02Harness) others() []int {
	var o []int
	for i := range h.pvs {
		if i != h.me {
			o = append(o, i)
		}
	}
	if len(o) == 0 { // single-validator set: only "me"
		o = []int{0}
	}
	return o
}

func (h *c02Harness) pickBlockID(r *vg.Rand) types.BlockID {
	cs := h.cs
	c := h.candidates(r)
	switch r.Intn(10) {
	case 0, 1:
		return types.BlockID{}
	case 2, 3, 4, 5:
		if cs.ProposalBlock != nil && cs.ProposalBlockParts != nil {
			return types.BlockID{Hash: cs.ProposalBlock.Hash(), PartSetHeader: cs.ProposalBlockParts.Header()}
		}
		if cs.Proposal != nil {
			return cs.Proposal.BlockID
		}
	case 6:
		if cs.LockedBlock != nil {
			return types.BlockID{Hash: cs.LockedBlock.Hash(), PartSetHeader: cs.LockedBlockParts.Header()}
		}
	case 7:
		if len(c) >= 2 { // right hash, header of another block
			return types.BlockID{Hash: c[0].block.Hash(), PartSetHeader: c[1].parts.Header()}
		}
	}
	if len(c) == 0 {
		return types.BlockID{}
	}
	e := c[r.Intn(len(c))]
	return types.BlockID{Hash: e.block.Hash(), PartSetHeader: e.parts.Header()}
}

func (h *c02Harness) burst(r *vg.Rand, ty tmproto.SignedMsgType, round int32, bid types.BlockID, count int, kind string) {
	o := h.others()
	perm := r.Perm(len(o))
	for k := 0; k < count && k < len(o); k++ {
		if h.panicked {
			return
		}
		h.sendVote(h.mkVote(r, o[perm[k]], ty, h.cs.Height, round, bid), p2p.ID(fmt.Sprintf("p%d", 1+r.Intn(3))), kind)
	}
}

func (h *c02Harness) runHistory(r *vg.Rand, maxSteps int) {
	var sent []func()
	for len(h.steps) < maxSteps && !h.panicked {
		cs := h.cs
		c := h.candidates(r)
		x := r.Intn(100)
		switch {
		case x < 22: // a timeout that was scheduled
			s := h.ticker.scheduled
			if len(s) == 0 {
				continue
			}
			ti := s[len(s)-1]
			if r.Chance(30) {
				ti = s[r.Intn(len(s))]
			}
			h.fire(ti, "timeout")
		case x < 36: // a proposal
			if len(c) == 0 {
				continue
			}
			round := cs.Round
			if r.Chance(12) {
				round = cs.Round + int32(r.Intn(3)) - 1
				if round < 0 {
					round = 0
				}
			}
			h.ensureProposers()
			signer := int(h.props[cs.Height][int(round)%24])
			kind := "proposal"
			if r.Chance(12) {
				signer = r.Intn(len(h.pvs))
				kind = "proposal/other-signer"
			}
			polr := int32(-1)
			if r.Chance(30) {
				polr = int32(r.Intn(int(round)+2)) - 1
				kind += "/pol"
			}
			if r.Chance(5) {
				polr = round + int32(r.Intn(2))
				kind = "proposal/bad-pol"
			}
			var bid types.BlockID
			if cs.ValidBlock != nil && r.Chance(50) {
				bid = types.BlockID{Hash: cs.ValidBlock.Hash(), PartSetHeader: cs.ValidBlockParts.Header()}
			} else {
				e := c[r.Intn(len(c))]
				bid = types.BlockID{Hash: e.block.Hash(), PartSetHeader: e.parts.Header()}
				if r.Chance(6) {
					bid.PartSetHeader = c[r.Intn(len(c))].parts.Header()
					kind = "proposal/hash-header-mismatch"
				}
			}
			breakSig := r.Chance(4)
			if breakSig {
				kind = "proposal/bad-sig"
			}
			h.sendProposal(signer, cs.Height, round, polr, bid, breakSig, kind)
		case x < 50: // block parts
			var e *c02Block
			if cs.ProposalBlockParts != nil && r.Chance(75) {
				e = h.byPSH[string(cs.ProposalBlockParts.Header().Hash)]
			}
			if e == nil {
				if len(c) == 0 {
					continue
				}
				e = c[r.Intn(len(c))]
			}
			total := int(e.parts.Total())
			if r.Chance(80) {
				for i := 0; i < total && !h.panicked; i++ {
					h.sendPart(cs.Height, cs.Round, e, i, "part/all")
				}
			} else {
				h.sendPart(cs.Height+int64(r.Intn(2)), cs.Round, e, r.Intn(total), "part/one")
			}
		case x < 72: // a burst of votes towards a quorum
			ty := tmproto.PrevoteType
			if r.Chance(45) {
				ty = tmproto.PrecommitType
			}
			round := cs.Round
			if r.Chance(20) {
				round = cs.Round + int32(r.Intn(3))
			} else if r.Chance(10) && cs.Round > 0 {
				round = cs.Round - 1
			}
			bid := h.pickBlockID(r)
			n := len(h.pvs)
			count := 1 + r.Intn(n)
			if r.Chance(50) {
				count = n - 1
			}
			h.burst(r, ty, round, bid, count, fmt.Sprintf("burst/type%d", ty))
		case x < 88: // a single vote, possibly odd
			o := h.others()
			idx := o[r.Intn(len(o))]
			ty := tmproto.PrevoteType
			if r.Bool() {
				ty = tmproto.PrecommitType
			}
			height, round := cs.Height, cs.Round
			kind := "vote"
			switch r.Intn(12) {
			case 0:
				height = cs.Height - 1
				ty = tmproto.PrecommitType
				kind = "vote/prev-height"
			case 1:
				height = cs.Height + 1
				kind = "vote/next-height"
			case 2, 3:
				round = cs.Round + 1 + int32(r.Intn(4))
				kind = "vote/future-round"
			case 4:
				if cs.Round > 0 {
					round = int32(r.Intn(int(cs.Round)))
					kind = "vote/past-round"
				}
			case 5:
				idx = h.me
				if idx < 0 {
					idx = 0
				}
				kind = "vote/as-me"
			}
			if height < 1 {
				height = 1
			}
			v := h.mkVote(r, idx, ty, height, round, h.pickBlockID(r))
			switch r.Intn(14) {
			case 0:
				v.Signature = append([]byte{}, v.Signature...)
				v.Signature[5] ^= 1
				kind = "vote/bad-sig"
			case 1:
				v.ValidatorIndex = int32(r.Intn(len(h.pvs) + 2))
				kind = "vote/wrong-index"
			case 2:
				pk, _ := h.pvs[r.Intn(len(h.pvs))].GetPubKey()
				v.ValidatorAddress = pk.Address()
				kind = "vote/wrong-address"
			}
			vv := v
			peer := p2p.ID(fmt.Sprintf("p%d", 1+r.Intn(4)))
			send := func() { h.sendVote(vv, peer, kind) }
			sent = append(sent, send)
			send()
		case x < 93: // previous-height precommits (the tail of the last commit)
			if cs.Height <= 1 || cs.LastCommit == nil {
				continue
			}
			if bid, ok := cs.LastCommit.TwoThirdsMajority(); ok {
				o := h.others()
				idx := o[r.Intn(len(o))]
				pk, _ := h.pvs[idx].GetPubKey()
				v := &types.Vote{ValidatorIndex: int32(idx), ValidatorAddress: pk.Address(), Height: cs.Height - 1,
					Round: cs.LastCommit.GetRound(), Timestamp: tmtime.Now(), Type: tmproto.PrecommitType, BlockID: bid}
				p := v.ToProto()
				h.pvs[idx].SignVote(cs.state.ChainID, p) //nolint:errcheck
				v.Signature = p.Signature
				h.sendVote(v, "p2", "vote/last-commit")
			}
		default:
			if r.Chance(55) { // repeat an earlier odd vote
				if len(sent) > 0 {
					sent[r.Intn(len(sent))]()
				}
				continue
			}
			// Seed C01f: an equivocating validator's second vote is tracked only once a peer has
			// claimed +2/3 for that block, and lives in the per-block table only.  The same
			// conflicting vote delivered again and again must count once.
			o := h.others()
			idx := o[r.Intn(len(o))]
			ty := tmproto.PrevoteType
			if r.Bool() {
				ty = tmproto.PrecommitType
			}
			height, round := cs.Height, cs.Round
			b1, b2 := h.pickBlockID(r), h.pickBlockID(r)
			for i := 0; i < 8 && (b2.Equals(b1) || len(b2.Hash) == 0); i++ {
				b2 = h.pickBlockID(r)
			}
			if b2.Equals(b1) || len(b2.Hash) == 0 {
				continue
			}
			h.sendVote(h.mkVote(r, idx, ty, height, round, b1), "p1", "equivocation/first-vote")
			pn := 2 + r.Intn(3)
			peer := p2p.ID(fmt.Sprintf("p%d", pn))
			hh, cb := h, b2
			t := vg.App("IMaj23", vg.Z(height), vg.Z(int64(round)), vg.N(uint64(ty)), vg.N(uint64(pn)), h.bid(b2))
			h.deliver(t, fmt.Sprintf("maj23-claim{h %d r %d type %d block %s} from %q", height, round, ty, h.bid(b2), peer), func() {
				hh.cs.mtx.Lock()
				ht, votes := hh.cs.Height, hh.cs.Votes
				hh.cs.mtx.Unlock()
				if ht == height {
					votes.SetPeerMaj23(round, ty, peer, cb) //nolint:errcheck
				}
			})
			v2 := h.mkVote(r, idx, ty, height, round, b2)
			for i, n := 0, 2+r.Intn(3); i < n && !h.panicked && h.cs.Height == height; i++ {
				h.sendVote(v2, peer, "equivocation/second-vote-redelivered")
			}
		}
	}
}

// c02Plan is what the environment does in one round of a lock story
type c02Plan struct {
	propose string // "A", "B", "valid", "none", "" = random
	target  string // "A", "B", "nil", "locked", "" = random
	mode    int    // 0 whole polka now, 2 all but one now / one late, 3 split, 4 all late, 5 polka completes after the precommit, -1 random
	lateNow bool   // deliver every held-back batch before this round's proposal
	commit  bool   // the others precommit the target (else nil)
	future  string // after the node's precommit: the others' prevotes of the NEXT round for this block arrive (the node skips ahead)
}

// runLockStory is a round-structured policy aimed at the lock rules: in every round a proposal
// for one of two blocks (or the valid block, or none), prevotes of the other validators towards
// one target with some of them held back, usually no commit; held-back votes arrive in later
// rounds (stale polkas), and polkas may complete after the node has already precommitted.
// A script fixes the first rounds (lock, stale polka in between, relock, ...); afterwards, and
// without a script, the choices are random.
func (h *c02Harness) runLockStory(r *vg.Rand, maxSteps int, script []c02Plan) {
	var late [][]*types.Vote // held-back votes, one batch per round
	fireStep := func(step cstypes.RoundStepType) bool {
		cs := h.cs
		s := h.ticker.scheduled
		for i := len(s) - 1; i >= 0; i-- {
			if s[i].Height == cs.Height && s[i].Round == cs.Round && s[i].Step == step {
				h.fire(s[i], "timeout")
				return true
			}
		}
		return false
	}
	bidOf := func(e *c02Block) types.BlockID {
		return types.BlockID{Hash: e.block.Hash(), PartSetHeader: e.parts.Header()}
	}
	sendBatch := func(i int) {
		b := late[i]
		late = append(late[:i], late[i+1:]...)
		for _, v := range b {
			if v.Height == h.cs.Height && !h.panicked {
				h.sendVote(v, "p3", "vote/late")
			}
		}
	}
	someLate := func(pct int) {
		if len(late) > 0 && r.Chance(pct) && !h.panicked {
			sendBatch(r.Intn(len(late)))
		}
	}
	polkaAt := map[string]int32{}   // last round in which +2/3 of the others were asked to prevote the block
	alias := map[string]*c02Block{} // a scripted name bound to the node's OWN proposal when the node is the proposer
	for len(h.steps) < maxSteps && !h.panicked {
		before := len(h.steps)
		cs := h.cs
		if cs.Step == cstypes.RoundStepNewHeight {
			fireStep(cstypes.RoundStepNewHeight)
			late, polkaAt, alias = nil, map[string]int32{}, map[string]*c02Block{}
			continue
		}
		c := h.candidates(r)
		if len(c) < 2 {
			break
		}
		height, round := cs.Height, cs.Round
		plan := c02Plan{mode: -1}
		if height == 1 && int(round) < len(script) {
			plan = script[round]
		}
		others := h.others()
		A, B := c[0], c[1]
		pick := func() *c02Block {
			if r.Bool() {
				return A
			}
			return B
		}
		named := func(n string) *c02Block {
			if e, ok := alias[n]; ok {
				return e
			}
			switch n {
			case "A":
				return A
			case "B":
				return B
			}
			return pick()
		}
		if plan.lateNow {
			for len(late) > 0 && !h.panicked {
				sendBatch(0)
			}
		} else if plan.mode < 0 {
			someLate(35)
		}
		// proposal
		h.ensureProposers()
		signer := int(h.props[height][int(round)%24])
		if signer == h.me && (plan.propose == "A" || plan.propose == "B") && alias[plan.propose] == nil &&
			cs.ProposalBlock != nil && cs.ProposalBlockParts != nil && cs.Proposal != nil && cs.Proposal.Round == round {
			// the node proposed its own block in a scripted round: the script's name stands for that block
			if e := h.byPSH[string(cs.ProposalBlockParts.Header().Hash)]; e != nil {
				alias[plan.propose] = e
			}
		}
		skipProp := plan.propose == "none" || (plan.propose == "" && r.Chance(20))
		if signer != h.me && !skipProp && cs.Step <= cstypes.RoundStepPropose {
			e := named(plan.propose)
			if cs.ValidBlock != nil && (plan.propose == "valid" || (plan.propose == "" && r.Chance(50))) {
				if v := h.byPSH[string(cs.ValidBlockParts.Header().Hash)]; v != nil {
					e = v
				}
			}
			polr := int32(-1)
			if pr, ok := polkaAt[string(e.block.Hash())]; ok && pr < round && (plan.propose != "" || r.Chance(60)) {
				polr = pr
			}
			pkind := "story/proposal"
			if cs.LockedBlock != nil && cs.LockedRound >= 0 && cs.LockedRound < round &&
				!cs.LockedBlock.HashesTo(e.block.Hash()) && r.Chance(30) {
				// seed C02f: a faulty proposer cites the polka of the node's lock round (or a later
				// round in which the node holds +2/3 for something else) as the POL of a DIFFERENT
				// block; the POL is "complete" but not for this block, the lock must hold
				polr = cs.LockedRound
				pkind = "story/proposal-foreign-pol"
			}
			h.sendProposal(signer, height, round, polr, bidOf(e), false, pkind)
			for i := 0; i < int(e.parts.Total()) && !h.panicked; i++ {
				h.sendPart(height, round, e, i, "story/part")
			}
		}
		if h.cs.Height != height || h.panicked {
			continue
		}
		if h.cs.Step <= cstypes.RoundStepPropose {
			fireStep(cstypes.RoundStepPropose)
		}
		// prevotes of the others
		var target types.BlockID
		tsel := plan.target
		if tsel == "" {
			tsel = []string{"nil", "locked", "locked", "", "", ""}[r.Intn(6)]
		}
		switch tsel {
		case "nil":
		case "locked":
			if cs.LockedBlock != nil {
				target = types.BlockID{Hash: cs.LockedBlock.Hash(), PartSetHeader: cs.LockedBlockParts.Header()}
			} else {
				target = bidOf(pick())
			}
		default:
			target = bidOf(named(tsel))
		}
		votes := make([]*types.Vote, 0, len(others))
		for _, i := range others {
			votes = append(votes, h.mkVote(r, i, tmproto.PrevoteType, height, round, target))
		}
		if !target.IsZero() {
			polkaAt[string(target.Hash)] = round
		}
		mode := plan.mode
		if mode < 0 {
			mode = r.Intn(7)
		}
		afterPrecommit := []*types.Vote{}
		switch mode {
		case 0, 1: // the whole polka now
			for _, v := range votes {
				h.sendVote(v, "p2", "story/prevote")
			}
		case 2: // all but one now, the last one much later
			for _, v := range votes[1:] {
				h.sendVote(v, "p2", "story/prevote")
			}
			late = append(late, votes[:1])
		case 3: // split: half for the target, the others for nil or the other block
			for k, v := range votes {
				if k%2 == 1 {
					o := types.BlockID{}
					if r.Bool() {
						o = bidOf(pick())
					}
					v = h.mkVote(r, others[k], tmproto.PrevoteType, height, round, o)
				}
				h.sendVote(v, "p2", "story/prevote")
			}
		case 4: // nothing now, everything later
			late = append(late, votes)
		default: // +2/3 of anything now, the polka completes only after the node has precommitted
			if len(votes) >= 2 {
				afterPrecommit = votes[:1]
				for _, v := range votes[1:] {
					h.sendVote(v, "p2", "story/prevote")
				}
			}
		}
		if h.cs.Height != height || h.panicked {
			continue
		}
		if h.cs.Round == round && h.cs.Step <= cstypes.RoundStepPrevoteWait {
			fireStep(cstypes.RoundStepPrevoteWait)
		}
		for _, v := range afterPrecommit {
			h.sendVote(v, "p2", "story/prevote-after-precommit")
		}
		if plan.future != "" && h.cs.Height == height && !h.panicked {
			fb := bidOf(named(plan.future))
			for _, i := range others {
				h.sendVote(h.mkVote(r, i, tmproto.PrevoteType, height, round+1, fb), "p2", "story/prevote-next-round")
			}
			polkaAt[string(fb.Hash)] = round + 1
		}
		if plan.mode < 0 {
			someLate(30)
		}
		if h.cs.Height != height || h.panicked {
			continue
		}
		// precommits of the others: mostly nil (the round fails), sometimes a commit
		pc := types.BlockID{}
		if (plan.commit || (plan.mode < 0 && r.Chance(12))) && !target.IsZero() {
			pc = target
		}
		for _, i := range others {
			if h.cs.Height != height || h.panicked {
				break
			}
			h.sendVote(h.mkVote(r, i, tmproto.PrecommitType, height, round, pc), "p2", "story/precommit")
		}
		if h.cs.Height == height && h.cs.Round == round && !h.panicked {
			fireStep(cstypes.RoundStepPrecommitWait)
		}
		if len(h.steps) == before { // nothing moved: any scheduled timeout
			if s := h.ticker.scheduled; len(s) > 0 {
				h.fire(s[len(s)-1], "timeout")
			} else {
				break
			}
		}
	}
}

// c02Scripts: openings for lock stories (the rest of the story is random)
func c02Script(r *vg.Rand) ([]c02Plan, string) {
	gap := func() []c02Plan { // 0..2 uneventful rounds: no proposal, nil polka
		var g []c02Plan
		for k := r.Intn(3); k > 0; k-- {
			g = append(g, c02Plan{propose: "none", target: "nil", mode: 0})
		}
		return g
	}
	lock := c02Plan{propose: "A", target: "A", mode: 0}
	switch r.Intn(6) {
	case 0: // lock A; polka for B in a later round held back; relock A; the stale polka arrives; B proposed
		s := []c02Plan{lock}
		s = append(s, gap()...)
		s = append(s, c02Plan{propose: "none", target: "B", mode: 4})
		s = append(s, gap()...)
		s = append(s, c02Plan{propose: "A", target: "locked", mode: 0})
		s = append(s, c02Plan{propose: "B", target: "B", mode: 3, lateNow: true})
		s = append(s, c02Plan{propose: "B", target: "B", mode: 0, commit: true})
		return s, "relock-then-stale-polka"
	case 1: // lock A; polka for B completes in the current round after the precommit; B proposed again
		s := []c02Plan{lock}
		s = append(s, gap()...)
		s = append(s, c02Plan{propose: "none", target: "B", mode: 5})
		s = append(s, c02Plan{propose: "B", target: "B", mode: 0, commit: r.Bool()})
		return s, "polka-after-precommit"
	case 2: // lock A; later polka for B seen in time: unlock and follow
		s := []c02Plan{lock}
		s = append(s, gap()...)
		s = append(s, c02Plan{propose: "B", target: "B", mode: 0})
		s = append(s, c02Plan{propose: "A", target: "A", mode: 0})
		return s, "lock-change"
	case 4: // lock A; the whole polka for B of the NEXT round arrives while still in the lock round (no unlock in
		// addVote); the node skips ahead, gets B, and must move its lock to B in enterPrecommit; then A again
		s := []c02Plan{{propose: "A", target: "A", mode: 0, future: "B"}}
		s = append(s, c02Plan{propose: "B", target: "B", mode: 0})
		s = append(s, c02Plan{propose: "A", target: "A", mode: 3})
		s = append(s, c02Plan{propose: "A", target: "nil", mode: 0})
		return s, "next-round-polka-moves-the-lock"
	case 3: // lock A; an OLD polka for B (round before the lock) arrives late; B proposed
		s := []c02Plan{{propose: "B", target: "B", mode: 4}}
		s = append(s, gap()...)
		s = append(s, lock)
		s = append(s, c02Plan{propose: "B", target: "nil", mode: 0, lateNow: true})
		s = append(s, c02Plan{propose: "B", target: "B", mode: 3})
		return s, "older-polka-after-lock"
	}
	return nil, "random"
}

func TestVerifC02Consensus(t *testing.T) {
	root := vg.NewRand(vg.Seed() ^ 0xc02)
	cs := vg.NewCases("C02", "c02_consensus", "TM.C02.Exec")
	nHist := vg.Scale(160, 3000)
	vg.ShardSize = 8
	maxSteps := 90
	decided, panics := 0, 0
	for k := 0; k < nHist; k++ {
		id := cs.NextID()
		if !cs.Want(id) {
			continue
		}
		r := root.Fork(uint64(k))
		n := 4 + r.Intn(3)
		if r.Chance(15) {
			n = 1 + r.Intn(3)
		}
		powers := make([]int64, n)
		for i := range powers {
			switch r.Intn(4) {
			case 0:
				powers[i] = 10
			case 1:
				powers[i] = 1 + int64(r.Intn(30))
			default:
				powers[i] = 10 + int64(r.Intn(3))
			}
		}
		if r.Chance(10) {
			powers[0] = 100
		}
		meValidator := !r.Chance(8)
		skip := r.Bool()
		h := c02NewHarness(r, n, powers, meValidator, skip)
		story := k%3 == 2 && meValidator && n >= 3
		if story {
			script, name := c02Script(r)
			h.kinds["story/"+name]++
			h.runLockStory(r, maxSteps+40, script)
		} else {
			h.runHistory(r, maxSteps)
		}
		decided += h.decided
		if h.panicked {
			panics++
		}
		// validator set as (address id, power) by index
		var vals []string
		for i, v := range h.cs.state.Validators.Validators {
			_ = v
			vals = append(vals, vg.Tup(vg.N(uint64(i+1)), vg.Z(h.cs.state.Validators.Validators[i].VotingPower)))
		}
		// note: cs.state may be of a later height, but the set is static in these runs
		var hs []int64
		for ht := range h.props {
			hs = append(hs, ht)
		}
		sort.Slice(hs, func(a, b int) bool { return hs[a] < hs[b] })
		var props []string
		for _, ht := range hs {
			props = append(props, vg.Tup(vg.Z(ht), vg.ZL(h.props[ht])))
		}
		me := "None"
		if h.me >= 0 {
			me = "(Some " + vg.Z(int64(h.me)) + ")"
		}
		for kd, c := range h.kinds {
			cs.Count("input/"+kd, c)
		}
		term := vg.App("CRun", vg.L(vals), me, vg.B(skip), vg.Z(1), vg.L(props), vg.L(h.steps))
		var d strings.Builder
		fmt.Fprintf(&d, "n=%d powers=%v me=%d skipTimeoutCommit=%v; inputs:", n, powers, h.me, skip)
		for i, s := range h.descr {
			fmt.Fprintf(&d, " [%d] %s;", i, s)
		}
		lbl := "history"
		if story {
			lbl = "lockstory"
		}
		cs.Add(id, fmt.Sprintf("%s/n=%d/decided=%d", lbl, n, h.decided), len(h.steps) >= 10, term, d.String())
	}
	cs.Notes = append(cs.Notes, fmt.Sprintf("heights decided in total: %d, histories ending in a panic: %d", decided, panics))
	if err := cs.Write(); err != nil {
		t.Fatal(err)
	}
}
