//go:build verif

package consensus

// C15, node lives that START ON A SYNCED STATE (finding F88).
//
// Only finalizeCommit writes #ENDHEIGHT h.  A node whose blocks 1..H came from block sync or
// state sync starts consensus at H+1 (Reactor.SwitchToConsensus(state, skipWAL=true): doWALCatchup
// = false, then State.Start) on a WAL without #ENDHEIGHT H and WriteSyncs its proposal and votes
// of H+1 there.  After a crash inside H+1 the restart's catchupReplay(H+1) fails ("WAL does not
// contain #ENDHEIGHT for H"), OnStart proceeds anyway and nothing is replayed, although every
// record is durably in the log.
//
// A life: (1) the stores get blocks 1..H from a consensus node whose WAL is then thrown away (a
// block-synced node never wrote one; the node is stopped inside the commit timeout of H, before
// height H+1 begins); (2) a real State on these stores is started through the real State.OnStart
// with doWALCatchup=false on a fresh BaseWAL, runs height H+1 and is killed in front of WAL write
// number crashAt (crashingWAL of replay_test.go) or in front of #ENDHEIGHT H+1; checkpoint as in
// verif_c15_node_test.go; (3) the restart with catch-up: the REAL State.catchupReplay on a fresh
// State over what is on disk, exactly as State.OnStart runs it (WAL opened, ticker started, receive
// routine not yet running, so the state machine can be read without a race): error class, height,
// proposal, votes of round 0; (4) a final real cs.Start() that makes one more block.
// Coq (TM.C15.Exec, case CSync): clause 5 on the log and the restored state; the model of the
// repaired start-up (ModelSync.mark_synced) against the marker found in the log.
//
// GATE: the cases are generated only with VERIF_C15_F88=1 until
// fixes/F88-endheight-marker-on-synced-start.diff is applied to the repository.  THE ONE PLACE TO
// FLIP: make c15F88 return true.

import (
	"context"
	"fmt"
	"os"
	"path/filepath"
	"strings"
	"testing"
	"time"

	dbm "github.com/tendermint/tm-db"

	"github.com/tendermint/tendermint/abci/example/kvstore"
	cfg "github.com/tendermint/tendermint/config"
	"github.com/tendermint/tendermint/libs/log"
	"github.com/tendermint/tendermint/privval"
	sm "github.com/tendermint/tendermint/state"
	"github.com/tendermint/tendermint/types"

	vg "github.com/tendermint/tendermint/internal/verifgen"
)

func c15F88() bool { return os.Getenv("VERIF_C15_F88") != "0" } // on by default: the finding is recorded in known_findings.json

// blocks 1..H into the stores; the node is stopped inside the commit timeout of H
func c15SyncMakeBlocks(t *testing.T, conf *cfg.Config, blockDB dbm.DB, H int) bool {
	skip, tc := conf.Consensus.SkipTimeoutCommit, conf.Consensus.TimeoutCommit
	conf.Consensus.SkipTimeoutCommit, conf.Consensus.TimeoutCommit = false, 4*time.Second
	defer func() { conf.Consensus.SkipTimeoutCommit, conf.Consensus.TimeoutCommit = skip, tc }()
	state, err := sm.NewStore(blockDB, sm.StoreOptions{}).LoadFromDBOrGenesisFile(conf.GenesisFile())
	if err != nil {
		t.Fatal(err)
	}
	pv := privval.LoadFilePV(conf.PrivValidatorKeyFile(), conf.PrivValidatorStateFile())
	cs := newStateWithConfigAndBlockStore(conf, state, pv, kvstore.NewApplication(), blockDB)
	cs.SetLogger(log.NewNopLogger())
	sub, err := cs.eventBus.Subscribe(context.Background(), "verif-c15-sync", types.EventQueryNewBlock, 100)
	if err != nil {
		t.Fatal(err)
	}
	if err := cs.Start(); err != nil {
		t.Fatal(err)
	}
	ok := true
	for i := 0; i < H && ok; i++ {
		select {
		case <-sub.Out():
		case <-time.After(30 * time.Second):
			ok = false
		}
	}
	cs.Stop() //nolint:errcheck
	stopped := make(chan struct{})
	go func() { cs.Wait(); close(stopped) }()
	select {
	case <-stopped:
	case <-time.After(c15NodeStopWait):
		ok = false
	}
	_ = cs.eventBus.Stop()
	return ok
}

type c15Replay struct {
	errClass uint64 // 0 nil, 1 "WAL does not contain #ENDHEIGHT", 2 DataCorruptionError, 3 other
	errText  string
	height   int64
	proposal bool
	prevotes int
	precomm  int
}

func c15CountVotes(vs *types.VoteSet) int {
	if vs == nil {
		return 0
	}
	n := 0
	ba := vs.BitArray()
	for i := 0; i < ba.Size(); i++ {
		if ba.GetIndex(i) {
			n++
		}
	}
	return n
}

// the restart with catch-up, up to the point where State.OnStart starts the receive routine
func c15SyncReplay(t *testing.T, conf *cfg.Config, blockDB dbm.DB) (res c15Replay) {
	state, err := sm.NewStore(blockDB, sm.StoreOptions{}).LoadFromDBOrGenesisFile(conf.GenesisFile())
	if err != nil {
		t.Fatal(err)
	}
	pv := privval.LoadFilePV(conf.PrivValidatorKeyFile(), conf.PrivValidatorStateFile())
	cs := newStateWithConfigAndBlockStore(conf, state, pv, kvstore.NewApplication(), blockDB)
	cs.SetLogger(log.NewNopLogger())
	if err := cs.loadWalFile(); err != nil { // as State.OnStart
		t.Fatal(err)
	}
	if err := cs.timeoutTicker.Start(); err != nil { // as State.OnStart
		t.Fatal(err)
	}
	func() {
		defer func() {
			if r := recover(); r != nil {
				res.errClass, res.errText = 3, fmt.Sprintf("panic: %v", r)
			}
		}()
		err := cs.catchupReplay(cs.Height) // as State.OnStart (doWALCatchup = true)
		switch {
		case err == nil:
		case IsDataCorruptionError(err):
			res.errClass = 2
		case strings.Contains(err.Error(), "WAL does not contain #ENDHEIGHT"):
			res.errClass = 1
		default:
			res.errClass = 3
		}
		if err != nil {
			res.errText = strings.SplitN(err.Error(), "\n", 2)[0]
		}
	}()
	res.height = cs.Height
	res.proposal = cs.Proposal != nil
	if cs.Votes != nil {
		res.prevotes = c15CountVotes(cs.Votes.Prevotes(0))
		res.precomm = c15CountVotes(cs.Votes.Precommits(0))
	}
	_ = cs.timeoutTicker.Stop()
	_ = cs.wal.Stop()
	cs.wal.Wait()
	_ = cs.eventBus.Stop()
	return res
}

func TestVerifC15Sync(t *testing.T) {
	if !c15F88() {
		return
	}
	root := vg.NewRand(vg.Seed() ^ 0xc15f88)
	cs := vg.NewCases("C15", "c15_sync", "TM.C15.Exec")
	// directed: H = 1, killed in front of every WAL write of height 2 (1..11: the 11th is #ENDHEIGHT 2
	// for a single validator); generated: H in {1,2}, any index
	directed := 11
	lives := directed + vg.Scale(3, 40)
	for k := 0; k < lives; k++ {
		id := cs.NextID()
		if !cs.Want(id) {
			continue
		}
		r := root.Fork(uint64(k))
		H, crashAt := 1, k+1
		if k >= directed {
			H = 1 + r.Intn(2)
			crashAt = 1 + r.Intn(12)
		}
		conf := ResetConfig(fmt.Sprintf("verif_c15_sync_%d", k))
		func() {
			blockDB := dbm.NewMemDB()
			if !c15SyncMakeBlocks(t, conf, blockDB, H) {
				cs.Count("sync/did-not-stop", 1)
				return
			}
			// the blocks came from block sync: this node never wrote a WAL for them
			if err := os.RemoveAll(filepath.Dir(conf.Consensus.WalFile())); err != nil {
				t.Fatal(err)
			}
			st, err := sm.NewStore(blockDB, sm.StoreOptions{}).LoadFromDBOrGenesisFile(conf.GenesisFile())
			if err != nil {
				t.Fatal(err)
			}
			if st.LastBlockHeight != int64(H) {
				cs.Count("sync/height-ran-on", 1) // height H+1 began before the node was down
				os.RemoveAll(conf.RootDir)
				return
			}
			// State.OnStart with doWALCatchup=false, as Reactor.SwitchToConsensus(state, skipWAL=true)
			run := c15NodeIncarnation(t, conf, blockDB, crashAt, int64(H+1), 0, false)
			if run.unclean {
				cs.Count("sync/did-not-stop", 1)
				return
			}
			cp, err := c15NodeCheckpoint(conf, blockDB)
			if err != nil {
				t.Fatalf("sync life %d: %v", k, err)
			}
			rp := c15SyncReplay(t, conf, blockDB)
			fin := c15NodeIncarnation(t, conf, blockDB, 0, 0, 1, true)
			if fin.unclean {
				cs.Count("sync/did-not-stop", 1)
				return
			}
			os.RemoveAll(conf.RootDir)
			recs, term, _ := cp.term3()
			ends := []string{"stopped cleanly", "killed at a WAL write", "killed in front of #ENDHEIGHT (height to stop)", "made no block in time", "start failed"}[run.ended]
			cs.Count("sync/ended="+ends, 1)
			cs.Count(fmt.Sprintf("sync/replay-err=%d", rp.errClass), 1)
			descr := fmt.Sprintf("stores hold blocks 1..%d made elsewhere, WAL fresh; State.OnStart with doWALCatchup=false, height %d, "+
				"killed in front of WAL write #%d (or #ENDHEIGHT %d): %s; checkpoint: %s\n  restart with catch-up: catchupReplay(%d) err=%q; "+
				"state machine afterwards: height=%d proposal=%v prevotes(round 0)=%d precommits(round 0)=%d\n  final cs.Start(): result %d, %s",
				H, H+1, crashAt, H+1, ends, cp.text(), cp.committed+1, rp.errText, rp.height, rp.proposal, rp.prevotes, rp.precomm,
				fin.startRes, []string{"stopped cleanly", "killed", "killed", "made no block in time", "start failed"}[fin.ended])
			cs.Add(id, "sync", true,
				vg.App("CSync", vg.Z(int64(H)), vg.Z(int64(crashAt)), vg.N(run.ended), vg.Z(cp.committed), recs, term,
					vg.N(rp.errClass), vg.Z(rp.height), vg.B(rp.proposal), vg.Z(int64(rp.prevotes)), vg.Z(int64(rp.precomm)),
					vg.N(fin.startRes)),
				descr)
		}()
	}
	if err := cs.Write(); err != nil {
		t.Fatal(err)
	}
}
