//go:build verif

package consensus

// C18 correspondence harness for the composite prune of consensus/state.go
// (injected with `go test -overlay`).
//
// A node's storage life is driven with the real code: store.BlockStore.SaveBlock, then
// state.BlockExecutor.ApplyBlock (SaveABCIResponses, updateState, Commit on an application that
// returns validator updates, consensus-parameter updates and a retain height, Save(state)),
// then - as finalizeCommit does when the application returned a retain height - the real
// (*State).pruneBlocks.  The block store and the state store live on two memdbs behind
// recording wrappers that share one journal (every Set / SetSync / batch Write / WriteSync is one
// journalled atomic step of one of the two databases) and one fault controller: the k-th write
// of a pruneBlocks call can kill the process (panic, both stores re-opened) or fail once with an
// error.  The journal is replayed step by step into two shadow memdbs; after every operation and
// after EVERY write step of every pruneBlocks both stores are re-opened on the shadows and
// audited with the real loaders: every height of [Base(), Height()] loads from the block store,
// and the state store produces the validators / consensus params named by the block header and
// the ABCI responses of every such height (validators also for Height()+1).

import (
	"bytes"
	"crypto/sha256"
	"encoding/hex"
	"errors"
	"fmt"
	"strconv"
	"strings"
	"testing"
	"time"

	"github.com/gogo/protobuf/proto"
	dbm "github.com/tendermint/tm-db"

	abcicli "github.com/tendermint/tendermint/abci/client"
	abci "github.com/tendermint/tendermint/abci/types"
	cfg "github.com/tendermint/tendermint/config"
	"github.com/tendermint/tendermint/crypto/ed25519"
	cryptoenc "github.com/tendermint/tendermint/crypto/encoding"
	vg "github.com/tendermint/tendermint/internal/verifgen"
	"github.com/tendermint/tendermint/libs/log"
	tmstate "github.com/tendermint/tendermint/proto/tendermint/state"
	tmstore "github.com/tendermint/tendermint/proto/tendermint/store"
	tmproto "github.com/tendermint/tendermint/proto/tendermint/types"
	sm "github.com/tendermint/tendermint/state"
	"github.com/tendermint/tendermint/store"
	"github.com/tendermint/tendermint/types"
)

// ---------------------------------------------------------------- recording / fault-injecting DBs

type c18xCrash struct{}

var errC18xInjected = errors.New("c18x: injected write error")

type c18xOp struct {
	del      bool
	key, val []byte
}
type c18xStep struct {
	db   int // 0 blockstore.db, 1 state.db
	kind int // 0 Set, 1 SetSync, 2 batch Write, 3 batch WriteSync, 4 Delete, 5 DeleteSync
	ops  []c18xOp
}

// c18xCtl is shared by the two databases: one journal, one fault budget.
type c18xCtl struct {
	journal []c18xStep
	budget  int // < 0: no fault; otherwise number of write steps still allowed before the fault
	mode    int // 1: the process dies at the faulty write; 2: the faulty write returns an error (once)
}

type c18xDB struct {
	dbm.DB
	idx int
	ctl *c18xCtl
}

func c18xcp(b []byte) []byte { return append([]byte{}, b...) }

func (d *c18xDB) step(kind int, ops []c18xOp) error {
	c := d.ctl
	if c.budget == 0 {
		if c.mode == 2 {
			c.budget = -1
			return errC18xInjected
		}
		panic(c18xCrash{})
	}
	if c.budget > 0 {
		c.budget--
	}
	s := c18xStep{d.idx, kind, ops}
	c.journal = append(c.journal, s)
	return c18xApply(d.DB, s)
}

func c18xApply(db dbm.DB, s c18xStep) error {
	for _, o := range s.ops {
		var err error
		if o.del {
			err = db.Delete(o.key)
		} else {
			err = db.Set(o.key, o.val)
		}
		if err != nil {
			return err
		}
	}
	return nil
}

func (d *c18xDB) Set(k, v []byte) error {
	return d.step(0, []c18xOp{{false, c18xcp(k), c18xcp(v)}})
}
func (d *c18xDB) SetSync(k, v []byte) error {
	return d.step(1, []c18xOp{{false, c18xcp(k), c18xcp(v)}})
}
func (d *c18xDB) Delete(k []byte) error     { return d.step(4, []c18xOp{{true, c18xcp(k), nil}}) }
func (d *c18xDB) DeleteSync(k []byte) error { return d.step(5, []c18xOp{{true, c18xcp(k), nil}}) }
func (d *c18xDB) NewBatch() dbm.Batch       { return &c18xBatch{db: d} }

type c18xBatch struct {
	db     *c18xDB
	ops    []c18xOp
	closed bool
}

func (b *c18xBatch) Set(k, v []byte) error {
	if b.closed {
		return fmt.Errorf("batch closed")
	}
	b.ops = append(b.ops, c18xOp{false, c18xcp(k), c18xcp(v)})
	return nil
}
func (b *c18xBatch) Delete(k []byte) error {
	if b.closed {
		return fmt.Errorf("batch closed")
	}
	b.ops = append(b.ops, c18xOp{true, c18xcp(k), nil})
	return nil
}
func (b *c18xBatch) write(kind int) error {
	if b.closed {
		return fmt.Errorf("batch closed")
	}
	err := b.db.step(kind, b.ops)
	b.closed = true
	return err
}
func (b *c18xBatch) Write() error     { return b.write(2) }
func (b *c18xBatch) WriteSync() error { return b.write(3) }
func (b *c18xBatch) Close() error     { b.closed = true; return nil }

// ---------------------------------------------------------------- projection to Coq terms

type c18xReg struct {
	blocks  map[string]int64    // block hash -> id
	parts   map[string][2]int64 // sha256(part proto) -> (block id, index)
	commits map[string]int64    // sha256(commit proto) -> tag
	hashes  map[string]int64    // validator-set hashes and consensus-params hashes -> small id
}

func c18xNewReg() *c18xReg {
	return &c18xReg{blocks: map[string]int64{}, parts: map[string][2]int64{}, commits: map[string]int64{}, hashes: map[string]int64{}}
}
func c18xSum(b []byte) []byte { s := sha256.Sum256(b); return s[:] }
func (r *c18xReg) blockID(hash []byte) int64 {
	if len(hash) == 0 {
		return -1
	}
	k := hex.EncodeToString(hash)
	if id, ok := r.blocks[k]; ok {
		return id
	}
	id := int64(len(r.blocks) + 1)
	r.blocks[k] = id
	return id
}
func (r *c18xReg) small(m map[string]int64, b []byte) int64 {
	k := hex.EncodeToString(b)
	if id, ok := m[k]; ok {
		return id
	}
	id := int64(len(m) + 1)
	m[k] = id
	return id
}
func (r *c18xReg) hashID(b []byte) int64 { return r.small(r.hashes, b) }
func (r *c18xReg) commitTerm(c *types.Commit) (int64, int64) {
	bz, err := proto.Marshal(c.ToProto())
	if err != nil {
		panic(err)
	}
	return r.blockID(c.BlockID.Hash), r.small(r.commits, c18xSum(bz))
}
func (r *c18xReg) registerParts(id int64, ps *types.PartSet) {
	for i := 0; i < int(ps.Total()); i++ {
		pb, err := ps.GetPart(i).ToProto()
		if err != nil {
			panic(err)
		}
		bz, err := proto.Marshal(pb)
		if err != nil {
			panic(err)
		}
		r.parts[hex.EncodeToString(c18xSum(bz))] = [2]int64{id, int64(i)}
	}
}

func c18xz(n int64) string {
	if n < 0 {
		return "(" + strconv.FormatInt(n, 10) + ")"
	}
	return strconv.FormatInt(n, 10)
}
func c18xOpt(present bool, v int64) string {
	if present {
		return "(Some " + c18xz(v) + ")"
	}
	return "None"
}

func (r *c18xReg) bKey(k []byte) (string, byte, error) {
	s := string(k)
	num := func(x string) (int64, error) { return strconv.ParseInt(x, 10, 64) }
	switch {
	case s == "blockStore":
		return "KDesc", 'D', nil
	case strings.HasPrefix(s, "H:"):
		h, err := num(s[2:])
		return "(KMeta " + c18xz(h) + ")", 'H', err
	case strings.HasPrefix(s, "P:"):
		f := strings.Split(s[2:], ":")
		if len(f) != 2 {
			return "", 0, fmt.Errorf("bad part key %q", s)
		}
		h, err := num(f[0])
		if err != nil {
			return "", 0, err
		}
		i, err := num(f[1])
		return "(KPart " + c18xz(h) + " " + c18xz(i) + ")", 'P', err
	case strings.HasPrefix(s, "C:"):
		h, err := num(s[2:])
		return "(KCommit " + c18xz(h) + ")", 'C', err
	case strings.HasPrefix(s, "SC:"):
		h, err := num(s[3:])
		return "(KSeen " + c18xz(h) + ")", 'C', err
	case strings.HasPrefix(s, "BH:"):
		raw, err := hex.DecodeString(s[3:])
		return "(KHash " + c18xz(r.blockID(raw)) + ")", 'B', err
	}
	return "", 0, fmt.Errorf("unknown block store key %q", s)
}

func (r *c18xReg) bVal(typ byte, v []byte) (string, error) {
	switch typ {
	case 'D':
		var bss tmstore.BlockStoreState
		if err := proto.Unmarshal(v, &bss); err != nil {
			return "", err
		}
		return "(VDesc " + c18xz(bss.Base) + " " + c18xz(bss.Height) + ")", nil
	case 'H':
		pb := new(tmproto.BlockMeta)
		if err := proto.Unmarshal(v, pb); err != nil {
			return "", err
		}
		bm, err := types.BlockMetaFromProto(pb)
		if err != nil {
			return "", err
		}
		return fmt.Sprintf("(VMeta %s %d%%nat %s %s)", c18xz(r.blockID(bm.BlockID.Hash)), bm.BlockID.PartSetHeader.Total,
			c18xz(r.hashID(bm.Header.ValidatorsHash)), c18xz(r.hashID(bm.Header.ConsensusHash))), nil
	case 'P':
		if p, ok := r.parts[hex.EncodeToString(c18xSum(v))]; ok {
			return "(VPart " + c18xz(p[0]) + " " + c18xz(p[1]) + ")", nil
		}
		return "(VPart (-2) (-2))", nil
	case 'C':
		pb := new(tmproto.Commit)
		if err := proto.Unmarshal(v, pb); err != nil {
			return "", err
		}
		c, err := types.CommitFromProto(pb)
		if err != nil {
			return "", err
		}
		return "(VCommit " + c18xz(r.blockID(c.BlockID.Hash)) + " " + c18xz(r.small(r.commits, c18xSum(v))) + ")", nil
	case 'B':
		h, err := strconv.ParseInt(string(v), 10, 64)
		return "(VHeight " + c18xz(h) + ")", err
	}
	return "", fmt.Errorf("unknown block store value type")
}

func (r *c18xReg) sKey(k []byte) (string, byte, error) {
	s := string(k)
	for _, p := range []struct {
		prefix, ctor string
		typ          byte
	}{{"validatorsKey:", "SKVals", 'V'}, {"consensusParamsKey:", "SKParams", 'P'}, {"abciResponsesKey:", "SKABCI", 'A'}} {
		if strings.HasPrefix(s, p.prefix) {
			h, err := strconv.ParseInt(s[len(p.prefix):], 10, 64)
			return "(" + p.ctor + " " + c18xz(h) + ")", p.typ, err
		}
	}
	switch s {
	case "stateKey":
		return "SKState", 'S', nil
	case "lastABCIResponseKey":
		return "SKLastABCI", 'L', nil
	}
	return "", 0, fmt.Errorf("unknown state store key %q", s)
}

func (r *c18xReg) sVal(typ byte, v []byte) (string, error) {
	switch typ {
	case 'V':
		vi := new(tmstate.ValidatorsInfo)
		if err := vi.Unmarshal(v); err != nil {
			return "", err
		}
		if vi.ValidatorSet == nil {
			return "(SVVals " + c18xz(vi.LastHeightChanged) + " None)", nil
		}
		vs, err := types.ValidatorSetFromProto(vi.ValidatorSet)
		if err != nil {
			return "", err
		}
		return "(SVVals " + c18xz(vi.LastHeightChanged) + " " + c18xOpt(true, r.hashID(vs.Hash())) + ")", nil
	case 'P':
		pi := new(tmstate.ConsensusParamsInfo)
		if err := pi.Unmarshal(v); err != nil {
			return "", err
		}
		if pi.ConsensusParams.Equal(&tmproto.ConsensusParams{}) {
			return "(SVParams " + c18xz(pi.LastHeightChanged) + " None)", nil
		}
		return "(SVParams " + c18xz(pi.LastHeightChanged) + " " + c18xOpt(true, r.hashID(types.HashConsensusParams(pi.ConsensusParams))) + ")", nil
	case 'A':
		return "SVABCI", nil
	case 'S':
		sp := new(tmstate.State)
		if err := sp.Unmarshal(v); err != nil {
			return "", err
		}
		return "(SVState " + c18xz(sp.LastBlockHeight) + ")", nil
	case 'L':
		ri := new(tmstate.ABCIResponsesInfo)
		if err := ri.Unmarshal(v); err != nil {
			return "", err
		}
		return "(SVLastABCI " + c18xz(ri.Height) + ")", nil
	}
	return "", fmt.Errorf("unknown state store value type")
}

func (r *c18xReg) stepTerm(s c18xStep) (string, error) {
	key, val := r.bKey, r.bVal
	w, p := "xb", "b"
	if s.db == 1 {
		key, val = r.sKey, r.sVal
		w, p = "xs", "s"
	}
	if s.kind == 0 || s.kind == 1 {
		k, typ, err := key(s.ops[0].key)
		if err != nil {
			return "", err
		}
		v, err := val(typ, s.ops[0].val)
		if err != nil {
			return "", err
		}
		c := p + "S "
		if s.kind == 1 {
			c = p + "Y "
		}
		return w + " (" + c + k + " " + v + ")", nil
	}
	if s.kind >= 4 {
		k, _, err := key(s.ops[0].key)
		return w + " (" + p + "B [" + p + "D " + k + "] " + vg.B(s.kind == 5) + ")", err
	}
	var ws []string
	for _, o := range s.ops {
		k, typ, err := key(o.key)
		if err != nil {
			return "", err
		}
		if o.del {
			ws = append(ws, p+"D "+k)
		} else {
			v, err := val(typ, o.val)
			if err != nil {
				return "", err
			}
			ws = append(ws, p+"P "+k+" "+v)
		}
	}
	return w + " (" + p + "B " + vg.L(ws) + " " + vg.B(s.kind == 3) + ")", nil
}

func (r *c18xReg) stateTerm(s sm.State) string {
	return vg.Tup(c18xz(s.LastBlockHeight), c18xz(s.InitialHeight), c18xz(r.hashID(s.Validators.Hash())),
		c18xz(r.hashID(s.NextValidators.Hash())), c18xz(s.LastHeightValidatorsChanged),
		c18xz(r.hashID(types.HashConsensusParams(s.ConsensusParams))), c18xz(s.LastHeightConsensusParamsChanged))
}

func (r *c18xReg) dump(t *testing.T, db dbm.DB, state bool) []string {
	it, err := db.Iterator(nil, nil)
	if err != nil {
		t.Fatal(err)
	}
	defer it.Close()
	key, val := r.bKey, r.bVal
	if state {
		key, val = r.sKey, r.sVal
	}
	var out []string
	for ; it.Valid(); it.Next() {
		k, typ, err := key(it.Key())
		if err != nil {
			t.Fatal(err)
		}
		v, err := val(typ, it.Value())
		if err != nil {
			t.Fatal(err)
		}
		out = append(out, "("+k+", "+v+")")
	}
	return out
}

// ---------------------------------------------------------------- audit with the real loaders

type c18xAud struct{ base, height, bfh, bfr, sfh, sfr int64 }

var c18xBlockWhy = []string{"", "LoadBlockMeta = nil", "LoadBlock/LoadBlockPart = nil or block does not hash to its id",
	"LoadBlockByHash does not return the block", "LoadBlockCommit/LoadSeenCommit = nil or for another block", "malformed range"}
var c18xStateWhy = []string{"", "LoadValidators fails", "LoadConsensusParams fails or returns empty params", "LoadABCIResponses fails",
	"LoadValidators returns a set that is not the one the block header names", "LoadConsensusParams returns parameters that are not the ones the block header names",
	"LoadValidators of Height()+1 fails or is not the tip's NextValidatorsHash"}

// c18xAudit opens both stores on the given databases and audits them.
func c18xAudit(bdb, sdb dbm.DB) (a c18xAud) {
	bs := store.NewBlockStore(bdb)
	ss := sm.NewStore(sdb, sm.StoreOptions{})
	a.base, a.height = bs.Base(), bs.Height()
	if a.height == 0 {
		if a.base != 0 {
			a.bfr = 5
		}
		return a
	}
	if a.base < 1 || a.height < a.base {
		a.bfr = 5
		return a
	}
	for h := a.base; h <= a.height; h++ {
		if r := c18xAuditBlock(bs, h, a.height); r != 0 {
			a.bfh, a.bfr = h, r
			break
		}
	}
	for h := a.base; h <= a.height; h++ {
		if r := c18xAuditState(bs, ss, h); r != 0 {
			a.sfh, a.sfr = h, r
			return a
		}
	}
	if r := c18xAuditNext(bs, ss, a.height); r != 0 {
		a.sfh, a.sfr = a.height+1, r
	}
	return a
}

func c18xAuditBlock(bs *store.BlockStore, h, tip int64) (reason int64) {
	stage := int64(1)
	defer func() {
		if r := recover(); r != nil {
			reason = stage
		}
	}()
	meta := bs.LoadBlockMeta(h)
	if meta == nil {
		return 1
	}
	stage = 2
	for i := 0; i < int(meta.BlockID.PartSetHeader.Total); i++ {
		if bs.LoadBlockPart(h, i) == nil {
			return 2
		}
	}
	block := bs.LoadBlock(h)
	if block == nil || block.Height != h || !bytes.Equal(block.Hash(), meta.BlockID.Hash) {
		return 2
	}
	stage = 3
	b2 := bs.LoadBlockByHash(meta.BlockID.Hash)
	if b2 == nil || b2.Height != h || !bytes.Equal(b2.Hash(), meta.BlockID.Hash) {
		return 3
	}
	stage = 4
	var c *types.Commit
	if h == tip {
		c = bs.LoadSeenCommit(h)
	} else {
		c = bs.LoadBlockCommit(h)
	}
	if c == nil || !bytes.Equal(c.BlockID.Hash, meta.BlockID.Hash) || c.Height != h {
		return 4
	}
	return 0
}

func c18xAuditState(bs *store.BlockStore, ss sm.Store, h int64) (reason int64) {
	stage := int64(1)
	defer func() {
		if r := recover(); r != nil {
			reason = stage
		}
	}()
	vs, err := ss.LoadValidators(h)
	if err != nil || vs == nil || vs.IsNilOrEmpty() {
		return 1
	}
	stage = 2
	cp, err := ss.LoadConsensusParams(h)
	if err != nil || cp.Equal(&tmproto.ConsensusParams{}) {
		return 2
	}
	stage = 3
	if ar, err := ss.LoadABCIResponses(h); err != nil || ar == nil {
		return 3
	}
	stage = 0
	meta := bs.LoadBlockMeta(h)
	if meta == nil {
		return 0 // reported by the block audit
	}
	if !bytes.Equal(vs.Hash(), meta.Header.ValidatorsHash) {
		return 4
	}
	if !bytes.Equal(types.HashConsensusParams(cp), meta.Header.ConsensusHash) {
		return 5
	}
	return 0
}

func c18xAuditNext(bs *store.BlockStore, ss sm.Store, tip int64) (reason int64) {
	defer func() {
		if r := recover(); r != nil {
			reason = 6
		}
	}()
	vs, err := ss.LoadValidators(tip + 1)
	if err != nil || vs == nil || vs.IsNilOrEmpty() {
		return 6
	}
	if meta := bs.LoadBlockMeta(tip); meta != nil && !bytes.Equal(vs.Hash(), meta.Header.NextValidatorsHash) {
		return 6
	}
	return 0
}

// ---------------------------------------------------------------- application

type c18xApp struct {
	abci.BaseApplication
	valUpdates   []abci.ValidatorUpdate
	paramUpdates *abci.ConsensusParams
	retain       int64
}

func (a *c18xApp) EndBlock(abci.RequestEndBlock) abci.ResponseEndBlock {
	return abci.ResponseEndBlock{ValidatorUpdates: a.valUpdates, ConsensusParamUpdates: a.paramUpdates}
}
func (a *c18xApp) Commit() abci.ResponseCommit {
	return abci.ResponseCommit{Data: []byte("c18x-app-hash"), RetainHeight: a.retain}
}

// ---------------------------------------------------------------- the node

type c18xNode struct {
	t    *testing.T
	r    *vg.Rand
	reg  *c18xReg
	ctl  *c18xCtl
	bdb  *c18xDB
	sdb  *c18xDB
	app  *c18xApp
	keys []ed25519.PrivKey
	pvs  map[string]types.PrivValidator // by validator address

	bs   *store.BlockStore
	ss   sm.Store
	exec *sm.BlockExecutor
	cs   *State

	state      sm.State
	lastCommit *types.Commit
	genTime    time.Time

	// shadow databases = the journal replayed; audits per journal prefix
	shB, shS dbm.DB
	applied  int
	audits   []string
	firstBad string

	opsT, resT, descr []string
}

func c18xNewNode(t *testing.T, r *vg.Rand, ih int64, nvals int) *c18xNode {
	n := &c18xNode{t: t, r: r, reg: c18xNewReg(), ctl: &c18xCtl{budget: -1}, app: &c18xApp{},
		pvs: map[string]types.PrivValidator{}, shB: dbm.NewMemDB(), shS: dbm.NewMemDB(),
		genTime: time.Unix(1600000000, 0).UTC()}
	n.bdb = &c18xDB{DB: dbm.NewMemDB(), idx: 0, ctl: n.ctl}
	n.sdb = &c18xDB{DB: dbm.NewMemDB(), idx: 1, ctl: n.ctl}
	var gvals []types.GenesisValidator
	for i := 0; i < 5; i++ {
		sk := ed25519.GenPrivKeyFromSecret([]byte(fmt.Sprintf("c18x-%d", i)))
		n.keys = append(n.keys, sk)
		n.pvs[string(sk.PubKey().Address())] = types.NewMockPVWithParams(sk, false, false)
		if i < nvals {
			gvals = append(gvals, types.GenesisValidator{Address: sk.PubKey().Address(), PubKey: sk.PubKey(), Power: int64(10 + i), Name: fmt.Sprintf("v%d", i)})
		}
	}
	st, err := sm.MakeGenesisState(&types.GenesisDoc{ChainID: "c18x-chain", GenesisTime: n.genTime, InitialHeight: ih, Validators: gvals})
	if err != nil {
		t.Fatal(err)
	}
	n.state = st
	n.lastCommit = types.NewCommit(0, 0, types.BlockID{}, nil)
	n.open()
	return n
}

// open (re-)opens both stores from the databases and builds the consensus State over them.
func (n *c18xNode) open() {
	n.bs = store.NewBlockStore(n.bdb)
	n.ss = sm.NewStore(n.sdb, sm.StoreOptions{})
	n.exec = sm.NewBlockExecutor(n.ss, log.NewNopLogger(), abcicli.NewLocalClient(nil, n.app), emptyMempool{}, sm.EmptyEvidencePool{})
	n.cs = nil
	func() {
		defer func() { _ = recover() }()
		cs := NewState(cfg.TestConsensusConfig(), n.state, n.exec, n.bs, emptyMempool{}, sm.EmptyEvidencePool{})
		cs.SetLogger(log.NewNopLogger())
		n.cs = cs
	}()
	if n.cs == nil { // NewState refuses (e.g. the tip's seen commit is gone): pruneBlocks needs only these two
		n.cs = &State{blockStore: n.bs, blockExec: n.exec}
	}
}

// follow replays the new journal steps into the shadows; audits before each step when every is
// set (the prefixes inside a pruneBlocks), and in any case after the last one.
func (n *c18xNode) follow(every bool) {
	j := n.ctl.journal
	for n.applied < len(j) {
		if every {
			n.audit(n.applied)
		}
		s := j[n.applied]
		db := n.shB
		if s.db == 1 {
			db = n.shS
		}
		if err := c18xApply(db, s); err != nil {
			n.t.Fatal(err)
		}
		n.applied++
	}
	n.audit(n.applied)
}

func (n *c18xNode) audit(k int) {
	a := c18xAudit(n.shB, n.shS)
	n.audits = append(n.audits, vg.Tup(c18xz(int64(k)), c18xz(a.base), c18xz(a.height), c18xz(a.bfh), c18xz(a.bfr), c18xz(a.sfh), c18xz(a.sfr)))
	if n.firstBad == "" && (a.bfr != 0 || a.sfr != 0) {
		n.firstBad = fmt.Sprintf(" AUDIT FAILS on the two stores re-opened after the first %d write steps of the journal: block store Base()=%d Height()=%d", k, a.base, a.height)
		if a.bfr != 0 {
			n.firstBad += fmt.Sprintf("; height %d: %s", a.bfh, c18xBlockWhy[a.bfr])
		}
		if a.sfr != 0 {
			n.firstBad += fmt.Sprintf("; the block store retains height %d but state store: %s", a.sfh, c18xStateWhy[a.sfr])
		}
	}
}

func (n *c18xNode) res(code int64, n0 int) {
	n.resT = append(n.resT, vg.Tup(c18xz(code), c18xz(n.bs.Base()), c18xz(n.bs.Height()), c18xz(int64(len(n.ctl.journal)-n0))))
}

// genesis: Save(genesis state), as the node does before the first block.
func (n *c18xNode) genesis() {
	n0 := len(n.ctl.journal)
	code := int64(0)
	if err := n.ss.Save(n.state); err != nil {
		code = 10
	}
	n.follow(false)
	n.opsT = append(n.opsT, "XGenesis "+n.reg.stateTerm(n.state))
	n.res(code, n0)
	n.descr = append(n.descr, fmt.Sprintf("Save(genesis state, InitialHeight=%d, %d validators)", n.state.InitialHeight, n.state.Validators.Size()))
}

func (n *c18xNode) commitFor(h int64, bid types.BlockID, vals *types.ValidatorSet) *types.Commit {
	pvs := make([]types.PrivValidator, vals.Size())
	for i, v := range vals.Validators {
		pvs[i] = n.pvs[string(v.Address)]
	}
	vs := types.NewVoteSet(n.state.ChainID, h, 0, tmproto.PrecommitType, vals)
	c, err := types.MakeCommit(bid, h, 0, vs, pvs, n.genTime.Add(time.Duration(h)*time.Second))
	if err != nil {
		n.t.Fatal(err)
	}
	return c
}

// block runs the storage part of finalizeCommit for the next block: SaveBlock, ApplyBlock.
// Returns the retain height ApplyBlock handed back.
func (n *c18xNode) block(valChange, paramChange, twoParts bool, retain int64) int64 {
	n0 := len(n.ctl.journal)
	st := n.state
	h := st.LastBlockHeight + 1
	if st.LastBlockHeight == 0 {
		h = st.InitialHeight
	}
	descr := fmt.Sprintf("block %d", h)
	n.app.valUpdates, n.app.paramUpdates, n.app.retain = nil, nil, retain
	if valChange {
		i := n.r.Intn(len(n.keys))
		pk, err := cryptoenc.PubKeyToProto(n.keys[i].PubKey())
		if err != nil {
			n.t.Fatal(err)
		}
		pw := int64(5 + n.r.Intn(50))
		if st.NextValidators.HasAddress(n.keys[i].PubKey().Address()) && st.NextValidators.Size() > 1 && n.r.Chance(25) {
			pw = 0
		}
		n.app.valUpdates = []abci.ValidatorUpdate{{PubKey: pk, Power: pw}}
		descr += fmt.Sprintf(" (EndBlock: validator %d power:=%d)", i, pw)
	}
	if paramChange {
		mb := int64(2000000 + n.r.Intn(1000)*1000)
		n.app.paramUpdates = &abci.ConsensusParams{Block: &abci.BlockParams{MaxBytes: mb, MaxGas: -1}}
		descr += fmt.Sprintf(" (EndBlock: block.max_bytes:=%d)", mb)
	}
	if retain != 0 {
		descr += fmt.Sprintf(" (Commit: retain_height=%d)", retain)
	}
	txs := []types.Tx{types.Tx(fmt.Sprintf("tx-%d", h))}
	if twoParts {
		txs = append(txs, types.Tx(bytes.Repeat([]byte{byte(h)}, 70000)))
	}
	block, parts := st.MakeBlock(h, txs, n.lastCommit, nil, st.Validators.GetProposer().Address)
	bid := types.BlockID{Hash: block.Hash(), PartSetHeader: parts.Header()}
	id := n.reg.blockID(bid.Hash)
	n.reg.registerParts(id, parts)
	seen := n.commitFor(h, bid, st.Validators)
	code, rh := int64(0), int64(0)
	func() {
		defer func() {
			if r := recover(); r != nil {
				code = 10
			}
		}()
		n.bs.SaveBlock(block, parts, seen)
		ns, r, err := n.exec.ApplyBlock(st, bid, block)
		if err != nil {
			n.t.Fatalf("ApplyBlock(%d): %v", h, err)
		}
		n.state, rh = ns, r
	}()
	n.lastCommit = seen
	n.follow(false)
	lb, lt := n.reg.commitTerm(block.LastCommit)
	sb, stg := n.reg.commitTerm(seen)
	bt := fmt.Sprintf("(%s, %s, %d%%nat, %s, %s, (%s, %s))", c18xz(h), c18xz(id), parts.Total(),
		c18xz(n.reg.hashID(block.ValidatorsHash)), c18xz(n.reg.hashID(block.ConsensusHash)), c18xz(lb), c18xz(lt))
	n.opsT = append(n.opsT, "XBlock "+bt+" "+vg.Tup(c18xz(sb), c18xz(stg))+" "+n.reg.stateTerm(n.state))
	n.res(code, n0)
	n.descr = append(n.descr, fmt.Sprintf("SaveBlock+ApplyBlock(%s; %d part(s)) -> state lhvc=%d lhpc=%d", descr, parts.Total(),
		n.state.LastHeightValidatorsChanged, n.state.LastHeightConsensusParamsChanged))
	return rh
}

func c18xPruneCode(err error) int64 {
	if err == nil {
		return 0
	}
	s := err.Error()
	switch {
	case strings.Contains(s, "failed to prune block store"):
		switch {
		case strings.Contains(s, "must be greater than 0"):
			return 1
		case strings.Contains(s, "beyond the latest height"):
			return 2
		case strings.Contains(s, "lower than base height"):
			return 3
		}
		return 7
	case strings.Contains(s, "failed to prune state database"):
		switch {
		case strings.Contains(s, "must be greater than 0"):
			return 21
		case strings.Contains(s, "must be lower than to height"):
			return 22
		case strings.Contains(s, "validators at height"):
			return 23
		case strings.Contains(s, "consensus params at height"):
			return 24
		}
		return 25
	}
	return 26
}

// prune calls the real (*State).pruneBlocks with a fault at the fn-th database write
// (fk 0: none, 1: process death, 2: the write fails once with an error).
func (n *c18xNode) prune(retain int64, fk, fn int) {
	n0 := len(n.ctl.journal)
	n.ctl.budget, n.ctl.mode = -1, fk
	if fk != 0 {
		n.ctl.budget = fn
	}
	var code int64
	var perr error
	func() {
		defer func() {
			if r := recover(); r != nil {
				if _, ok := r.(c18xCrash); ok {
					code = 99
				} else {
					code = 98
				}
			}
		}()
		_, perr = n.cs.pruneBlocks(retain)
		code = c18xPruneCode(perr)
	}()
	n.ctl.budget = -1
	if code >= 98 {
		n.open() // the process restarts
	}
	n.follow(true)
	n.opsT = append(n.opsT, fmt.Sprintf("XPrune %s %d %d", c18xz(retain), fk, fn))
	n.res(code, n0)
	fault := ""
	switch fk {
	case 1:
		fault = fmt.Sprintf(" [process dies at database write #%d of the call, both stores re-opened]", fn)
	case 2:
		fault = fmt.Sprintf(" [database write #%d of the call fails once with an error]", fn)
	}
	es := ""
	if perr != nil {
		es = " err=" + strconv.Quote(perr.Error())
	}
	n.descr = append(n.descr, fmt.Sprintf("pruneBlocks(%d)%s -> code %d%s, %d write steps, block store [%d,%d]", retain, fault, code, es,
		len(n.ctl.journal)-n0, n.bs.Base(), n.bs.Height()))
}

func (n *c18xNode) finish(cs *vg.Cases, id int, kind string, nontrivial bool) {
	var stepsT []string
	for _, s := range n.ctl.journal {
		st, err := n.reg.stepTerm(s)
		if err != nil {
			n.t.Fatalf("case %d: %v", id, err)
		}
		stepsT = append(stepsT, st)
	}
	term := "CComp " + vg.L(n.opsT) + "\n  " + vg.L(n.resT) + "\n  " + vg.L(stepsT) + "\n  " + vg.L(n.audits) +
		"\n  " + vg.L(n.reg.dump(n.t, n.bdb.DB, false)) + "\n  " + vg.L(n.reg.dump(n.t, n.sdb.DB, true))
	cs.Add(id, kind, nontrivial, term,
		fmt.Sprintf("consensus.State over store.BlockStore and state.Store on two memdbs (one journal, %d write steps; both stores re-opened and audited after every operation and after every write step of every pruneBlocks); ops: %s.%s",
			len(n.ctl.journal), strings.Join(n.descr, "; "), n.firstBad))
	cs.Count("composite write-prefixes audited", len(n.audits))
}

// ---------------------------------------------------------------- histories

// c18xRetain picks a retain height around the boundaries of [base, height].
func c18xRetain(r *vg.Rand, base, height int64) (int64, string) {
	switch r.Intn(12) {
	case 0:
		return int64(r.Intn(2)) - 1, "<=0" // -1, 0
	case 1:
		return height + 1, "tip+1"
	case 2:
		return height + 2, "tip+2"
	case 3:
		return base - 1 - int64(r.Intn(2)), "<base"
	case 4:
		return height, "tip"
	case 5:
		return base, "base"
	case 6:
		return base + 1, "base+1"
	}
	if height > base {
		return base + 1 + r.Int63n(height-base), "inside"
	}
	return height, "tip"
}

func TestVerifC18Composite(t *testing.T) {
	root := vg.NewRand(vg.Seed() ^ 0xc18c0)
	cs := vg.NewCases("C18", "c18_comp", "TM.C18.Exec")
	oldShard := vg.ShardSize
	vg.ShardSize = 8
	defer func() { vg.ShardSize = oldShard }()

	// directed: validator change and parameter change below the retain height, every write of
	// the prune a crash point; then a retain height one past the tip (the block store refuses)
	// and a second prune with a write error in each half.
	{
		id := cs.NextID()
		if cs.Want(id) {
			n := c18xNewNode(t, root.Fork(1<<40), 1, 3)
			n.genesis()
			for b := 1; b <= 14; b++ {
				n.block(b == 3 || b == 10, b == 5, b == 7, 0)
			}
			n.prune(9, 0, 0)
			n.prune(15, 0, 0)
			n.prune(16, 0, 0)
			n.block(false, false, false, 0)
			n.prune(12, 2, 1)
			n.prune(13, 2, 2)
			n.prune(14, 1, 2)
			n.prune(14, 0, 0)
			n.finish(cs, id, "directed", true)
		}
	}

	cases := vg.Scale(36, 900)
	for k := 0; k < cases; k++ {
		id := cs.NextID()
		if !cs.Want(id) {
			continue
		}
		r := root.Fork(uint64(k))
		ih := int64(1)
		switch r.Intn(5) {
		case 0:
			ih = int64(2 + r.Intn(30))
		case 1:
			ih = 100000 - int64(2+r.Intn(12)) // the chain crosses a validator-set checkpoint height
		}
		n := c18xNewNode(t, r, ih, 2+r.Intn(3))
		n.genesis()
		nblocks := 5 + r.Intn(vg.Scale(18, 30))
		nPrunes, nFaults, nChanges := 0, 0, 0
		kinds := map[string]bool{}
		for b := 0; b < nblocks; b++ {
			vc, pc := r.Chance(25), r.Chance(15)
			if vc || pc {
				nChanges++
			}
			h := n.state.LastBlockHeight + 1
			if n.state.LastBlockHeight == 0 {
				h = n.state.InitialHeight
			}
			base := n.bs.Base()
			if base == 0 {
				base = h
			}
			doPrune := b >= 2 && r.Chance(30)
			retain, rk := int64(0), ""
			if doPrune {
				retain, rk = c18xRetain(r, base, h)
			}
			appRetain := retain
			if appRetain < 0 {
				appRetain = 0
			}
			rh := n.block(vc, pc, r.Chance(8), appRetain)
			if !doPrune {
				continue
			}
			if retain > 0 {
				retain = rh // what finalizeCommit would pass on
			}
			reps := 1
			if r.Chance(20) {
				reps = 2 // the same retain height again
			}
			for j := 0; j < reps; j++ {
				fk, fn := 0, 0
				switch x := r.Intn(100); {
				case x < 30:
					fk, fn = 1, r.Intn(4)
				case x < 45:
					fk, fn = 2, r.Intn(4)
				}
				if fk != 0 {
					nFaults++
				}
				n.prune(retain, fk, fn)
				nPrunes++
				kinds[rk] = true
			}
		}
		kind := "comp"
		if nPrunes > 0 {
			kind += "+prune"
		}
		if nFaults > 0 {
			kind += "+fault"
		}
		if ih > 1000 {
			kind += "+checkpoint"
		} else if ih > 1 {
			kind += "+offset"
		}
		for rk := range kinds {
			cs.Count("retain "+rk, 1)
		}
		n.finish(cs, id, kind, nPrunes > 0 && nChanges > 0)
	}
	if err := cs.Write(); err != nil {
		t.Fatal(err)
	}
}
